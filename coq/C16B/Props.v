(* C16B/Props.v — the property theorems of part C16B.  Nothing else.

   Reading.  C16/Model.v's interleaving semantics (imported): one address
   space, threads as deterministic step functions, a schedule is any list of
   thread ids.  C16B/Model.v adds the footprint model: the shared font is the
   locations below SH, every goroutine's own objects (its Layouter, its
   gtab.Context with the stack of nested frames, its scratch space, its
   buffers) are a region of its own; an operation is a small program of loads
   and stores through the FIELDS of its receiver, each field being an alias of
   font memory, fresh memory of the receiver's owner, or the caller's memory;
   every load / store of a run is an event; a data race is a pair of
   conflicting events not ordered by happens-before (program order: the
   language has no synchronisation). *)
From Coq Require Import List NArith Bool Arith.
From C16 Require Import Model Proofs.
From C16B Require Import Model Programs Proofs Proofs_witness Proofs_props.
Import ListNotations.

(* P1.  Any number of threads whose steps write only thread-private locations
   (and read only shared locations and their own): under EVERY schedule every
   thread is in the state, has read the values and returns the result of its
   sequential run, the shared locations hold what they held, AND the run is
   free of data races in the happens-before sense. *)
Theorem private_writes_commute :
  forall (L : Type) (owner : cell -> option tid) (step : code L) (init : tid -> L) (h0 : heap),
    writes_own_only L owner step init ->
    reads_shared_or_own L owner step init ->
    forall (sched : list tid),
      (forall t, ths (run L step sched (init_cfg L h0 init)) t
                 = snd (alone L step t (cnt sched t) (h0, (init t, [])))) /\
      (forall t n r, result L step t (snd (alone L step t n (h0, (init t, [])))) = Some r ->
                     n <= cnt sched t ->
                     result L step t (ths (run L step sched (init_cfg L h0 init)) t) = Some r) /\
      (forall c, owner c = None -> hp (run L step sched (init_cfg L h0 init)) c = h0 c) /\
      race_free (trace step sched (init_cfg L h0 init)).
Proof. exact private_writes_commute_lemma. Qed.
Print Assumptions private_writes_commute.

(* The same for footprint programs, with the hypothesis replaced by the
   executable static check: every memory layout, every field table that fits
   it, every family of programs (one per thread, any number of threads) all of
   whose stores go through fields that are not aliases of the font, every
   goroutine using its own receiver. *)
Theorem checked_programs_commute :
  forall (ly : layout) (tbl : ftable) (progs : tid -> prog),
    tbl_ok ly tbl = true ->
    (forall t, fp_check tbl (progs t) = true) ->
    forall (h0 : heap) (sched : list tid),
      let stp := fp_step ly tbl (fun t => t) progs in
      (forall t, ths (run fstate stp sched (init_cfg fstate h0 fp_init)) t
                 = snd (alone fstate stp t (cnt sched t) (h0, (fp_init t, [])))) /\
      (forall t n r, result fstate stp t (snd (alone fstate stp t n (h0, (fp_init t, [])))) = Some r ->
                     n <= cnt sched t ->
                     result fstate stp t (ths (run fstate stp sched (init_cfg fstate h0 fp_init)) t) = Some r) /\
      (forall c, (c < SH ly)%N -> hp (run fstate stp sched (init_cfg fstate h0 fp_init)) c = h0 c) /\
      race_free (trace stp sched (init_cfg fstate h0 fp_init)).
Proof. exact checked_programs_commute_lemma. Qed.
Print Assumptions checked_programs_commute.

(* The executable race check used by the witnesses decides the definition. *)
Theorem race_check_exact : forall tr : list event, has_race tr = true <-> race tr.
Proof. exact has_race_iff. Qed.
Print Assumptions race_check_exact.

(* P1, the formal reason why comparing the font before and after a call is not
   enough.  A program that writes a shared location and restores it (the
   in-place reverse / print / reverse back of seed C16-f) and a reader:
   the static check rejects the writer; run alone the writer finishes and every
   shared location holds what it held before; run one after the other both
   return what they return alone; yet the run contains a data race, and there
   is a schedule - same number of steps per thread, shared state again as
   before at the end - under which the reader returns something else. *)
Theorem write_then_restore_refuted :
  exists (ly : layout) (tbl : ftable) (ps : list prog) (h0 : list (cell * val)) (s_seq s_bad : list tid),
    tbl_ok ly tbl = true /\
    fp_check tbl (nth 0 ps []) = false /\ fp_check tbl (nth 1 ps []) = true /\
    (exists n r, fp_alone_result ly tbl (fun t => t) ps h0 0 n = Some r /\
                 forall c, (c < SH ly)%N -> fst (fp_alone ly tbl (fun t => t) ps h0 0 n) c = heap_of h0 c) /\
    (exists n0 n1,
       fp_result ly tbl (fun t => t) ps h0 s_seq 0 = fp_alone_result ly tbl (fun t => t) ps h0 0 n0 /\
       fp_result ly tbl (fun t => t) ps h0 s_seq 1 = fp_alone_result ly tbl (fun t => t) ps h0 1 n1 /\
       fp_result ly tbl (fun t => t) ps h0 s_seq 1 <> None /\
       forall c, (c < SH ly)%N -> hp (fp_run ly tbl (fun t => t) ps h0 s_seq) c = heap_of h0 c) /\
    race (fp_trace ly tbl (fun t => t) ps h0 s_seq) /\
    race (fp_trace ly tbl (fun t => t) ps h0 s_bad) /\
    (forall u, cnt s_seq u = cnt s_bad u) /\
    (forall c, (c < SH ly)%N -> hp (fp_run ly tbl (fun t => t) ps h0 s_bad) c = heap_of h0 c) /\
    fp_result ly tbl (fun t => t) ps h0 s_bad 1 <> fp_result ly tbl (fun t => t) ps h0 s_seq 1.
Proof. exact write_then_restore_refuted_lemma. Qed.
Print Assumptions write_then_restore_refuted.

(* P1.  Layouters / Contexts created from the same font.  layout_tbl is the
   footprint table built from the aliasing tables of sfnt.Layouter,
   gtab.Context, gtab.nested and gtab.keepFunc (Programs.v: which fields
   alias the font, which are fresh) - those tables are what the harness
   compares with a reflection walk of the real objects.  For EVERY family of
   programs that store only through the fresh fields of their own receiver
   (the schematic Layout program layout_prog is one: layout_passes_check), any
   number of goroutines, any schedule: sequential results, font unchanged, no
   data race. *)
Theorem separate_layouters_independent :
  forall (progs : tid -> prog),
    (forall t, fp_check layout_tbl (progs t) = true) ->
    forall (h0 : heap) (sched : list tid),
      let stp := fp_step layout_ly layout_tbl (fun t => t) progs in
      (forall t, ths (run fstate stp sched (init_cfg fstate h0 fp_init)) t
                 = snd (alone fstate stp t (cnt sched t) (h0, (fp_init t, [])))) /\
      (forall t n r, result fstate stp t (snd (alone fstate stp t n (h0, (fp_init t, [])))) = Some r ->
                     n <= cnt sched t ->
                     result fstate stp t (ths (run fstate stp sched (init_cfg fstate h0 fp_init)) t) = Some r) /\
      (forall c, (c < SH layout_ly)%N -> hp (run fstate stp sched (init_cfg fstate h0 fp_init)) c = h0 c) /\
      race_free (trace stp sched (init_cfg fstate h0 fp_init)).
Proof. exact separate_layouters_independent_lemma. Qed.
Print Assumptions separate_layouters_independent.

Theorem layout_passes_check : fp_check layout_tbl layout_prog = true /\ tbl_ok layout_ly layout_tbl = true.
Proof. split; [exact (proj1 sl_facts) | exact (proj1 wr_facts)]. Qed.
Print Assumptions layout_passes_check.

(* ... and what two such receivers have in common is font memory, reached
   through alias fields only: a location both goroutine t (through its
   receiver) and goroutine u <> t (through its own) can reach is shared, and
   both reach it through a field that aliases the font. *)
Theorem layouters_share_only_the_font :
  forall (t u : tid) (f g : nat) (i j : N) (c : cell),
    t <> u ->
    resolve layout_ly layout_tbl t t f i = Some c ->
    resolve layout_ly layout_tbl u u g j = Some c ->
    own layout_ly c = None /\
    (exists fd, nth_error layout_tbl f = Some fd /\ f_kind fd = Alias) /\
    (exists gd, nth_error layout_tbl g = Some gd /\ f_kind gd = Alias).
Proof. exact layouters_share_only_the_font_lemma. Qed.
Print Assumptions layouters_share_only_the_font.

(* the footprint table IS the aliasing tables: every field of the tables of the
   four receiver kinds is a field of layout_tbl with that kind *)
Theorem layout_tbl_is_the_alias_tables :
  forall (rk : recv_kind) (f : fld) (k : fkind),
    (rk = RLayouter \/ rk = RContext \/ rk = RNested \/ rk = RKeepFunc) ->
    lookup_fld f (alias_table rk) = Some k ->
    exists fd, nth_error layout_tbl (fidx f) = Some fd /\ f_kind fd = k /\ f_len fd = FLEN.
Proof.
  intros rk f k Hrk H. apply layout_tbl_kinds. eapply layout_fields_cover; eauto.
Qed.
Print Assumptions layout_tbl_is_the_alias_tables.

(* P1.  Sharing ONE Layouter between two goroutines is not safe: with separate
   layouters the witness run is race free and returns the sequential result;
   with one shared layouter both schedules contain a data race and under the
   second goroutine 0 returns something else than when run alone. *)
Theorem shared_layouter_refuted :
  exists (h0 : list (cell * val)) (s_seq s_bad : list tid) (n0 : nat),
    fp_check layout_tbl layout_prog = true /\
    (forall u, cnt s_seq u = cnt s_bad u) /\
    race_free (fp_trace layout_ly layout_tbl (fun t => t) [layout_prog; layout_prog] h0 s_bad) /\
    fp_result layout_ly layout_tbl (fun t => t) [layout_prog; layout_prog] h0 s_bad 0
      = fp_alone_result layout_ly layout_tbl (fun t => t) [layout_prog; layout_prog] h0 0 n0 /\
    race (fp_trace layout_ly layout_tbl (fun _ => 0) [layout_prog; layout_prog] h0 s_seq) /\
    race (fp_trace layout_ly layout_tbl (fun _ => 0) [layout_prog; layout_prog] h0 s_bad) /\
    fp_alone_result layout_ly layout_tbl (fun _ => 0) [layout_prog; layout_prog] h0 0 n0 <> None /\
    fp_result layout_ly layout_tbl (fun _ => 0) [layout_prog; layout_prog] h0 s_bad 0
      <> fp_alone_result layout_ly layout_tbl (fun _ => 0) [layout_prog; layout_prog] h0 0 n0.
Proof. exact shared_layouter_refuted_lemma. Qed.
Print Assumptions shared_layouter_refuted.
