(* C16B/Model.v — a FOOTPRINT model on top of the interleaving semantics of
   C16/Model.v (imported, nothing copied).

   Memory.  Locations [0, SH) are the shared font (cells of C16's heap; a heap
   given as a finite map, an association list, is read through C16's heap_of).
   Above it every thread t has a region of PV locations of its own,
   [SH + t*PV, SH + (t+1)*PV): the objects it allocated itself - its Layouter,
   its gtab.Context with the stack of nested actions, its encoder scratch, its
   output buffers.

   Objects.  A receiver object (a Layouter, a Context) is described by a table
   of FIELDS.  A field stands for the memory the Go field refers to:
     Alias   the field refers to memory of the font ([f_base, f_base+f_len)
             inside the shared region): Layouter.font, Context.ll, Context.gdef,
             Context.lookup, nested.Actions, keepFunc.Gdef/Meta
     Fresh   memory allocated by the constructor / the operation, owned by
             whoever owns the receiver: Layouter.buf, Layouter.cmap,
             Context.stack, Context.scratch, nested.InputPos, the structs' own
             words
     Caller  memory of the calling goroutine that is not part of the receiver
             (the text handed to Layout)
   A thread uses the receiver recv t: recv = id is "every goroutine has its
   own Layouter", recv = const 0 is "all goroutines share one".

   Programs.  An operation is a small program: loads and stores of field
   elements (index out of range = Panic, as in Go), register moves, arithmetic,
   jumps, return.  One instruction is one atomic step of C16's semantics
   (fp_step is a C16.code), so schedules, runs and "alone" are C16's.

   Traces and races.  Every load / store of a run is an event (thread, cell,
   write?).  The language has no synchronisation operation, so happens-before
   between the events of a run is program order (events of one thread); a DATA
   RACE is a pair of conflicting events (same cell, at least one a write) not
   ordered by happens-before.

   Executable definitions only. *)
From Coq Require Import List NArith Bool Arith.
From C16 Require Import Model.
Import ListNotations.
Local Open Scope N_scope.

(* ------------------------------------------------------------------ layout *)

Record layout := mkLayout { SH : N; PV : N }.

Definition priv_addr (ly : layout) (t : tid) (off : N) : cell := SH ly + N.of_nat t * PV ly + off.

(* owner of a location: None = the shared font *)
Definition own (ly : layout) (c : cell) : option tid :=
  if c <? SH ly then None else Some (N.to_nat ((c - SH ly) / PV ly)).

(* ------------------------------------------------------------------ fields *)

Inductive fkind := Alias | Fresh | Caller.

Definition fkind_eqb (a b : fkind) : bool :=
  match a, b with Alias, Alias | Fresh, Fresh | Caller, Caller => true | _, _ => false end.

Record field := mkField { f_kind : fkind; f_base : N; f_len : N }.
Definition ftable := list field.

(* every field lies inside the region its kind says *)
Definition field_ok (ly : layout) (fd : field) : bool :=
  match f_kind fd with
  | Alias => f_base fd + f_len fd <=? SH ly
  | Fresh | Caller => f_base fd + f_len fd <=? PV ly
  end.
Definition tbl_ok (ly : layout) (tbl : ftable) : bool := forallb (field_ok ly) tbl.

(* the location of element i of field f for thread t using receiver r;
   None = index out of range (Go panics) or no such field *)
Definition resolve (ly : layout) (tbl : ftable) (r t : tid) (f : nat) (i : N) : option cell :=
  match nth_error tbl f with
  | None => None
  | Some fd =>
    if i <? f_len fd then
      Some (match f_kind fd with
            | Alias => f_base fd + i
            | Fresh => priv_addr ly r (f_base fd + i)
            | Caller => priv_addr ly t (f_base fd + i)
            end)
    else None
  end.

(* ---------------------------------------------------------------- programs *)

Definition reg := nat.
Inductive opnd := OImm (v : N) | OReg (r : reg).

Inductive finstr :=
| FLoad  (d : reg) (f : nat) (i : opnd)      (* d := f[i] *)
| FStore (f : nat) (i : opnd) (v : opnd)     (* f[i] := v *)
| FMov   (d : reg) (v : opnd)
| FAdd   (d : reg) (a b : opnd)
| FSub   (d : reg) (a b : opnd)              (* truncated at 0 *)
| FJz    (c : opnd) (target : nat)           (* if c = 0 goto target *)
| FJmp   (target : nat)
| FRet   (v : opnd).

Definition prog := list finstr.

(* local state of a thread: program counter, registers *)
Definition fstate := (nat * list N)%type.

Definition rget (rs : list N) (r : reg) : N := nth r rs 0.
Fixpoint rset (rs : list N) (r : reg) (v : N) : list N :=
  match r, rs with
  | O, [] => [v]
  | O, _ :: rs' => v :: rs'
  | S r', [] => 0 :: rset [] r' v
  | S r', x :: rs' => x :: rset rs' r' v
  end.
Definition ev (rs : list N) (o : opnd) : N := match o with OImm v => v | OReg r => rget rs r end.

Definition PANIC : val := 4294967295.

Definition fp_step (ly : layout) (tbl : ftable) (recv : tid -> tid) (progs : tid -> prog) : code fstate :=
  fun t st =>
    let '(pc, rs) := st in
    match nth_error (progs t) pc with
    | None => ARet 0
    | Some ins =>
      match ins with
      | FLoad d f i =>
        match resolve ly tbl (recv t) t f (ev rs i) with
        | Some c => ARead c (fun v => (S pc, rset rs d v))
        | None => ARet PANIC
        end
      | FStore f i v =>
        match resolve ly tbl (recv t) t f (ev rs i) with
        | Some c => AWrite c (ev rs v) (S pc, rs)
        | None => ARet PANIC
        end
      | FMov d v => ATau (S pc, rset rs d (ev rs v))
      | FAdd d a b => ATau (S pc, rset rs d (ev rs a + ev rs b))
      | FSub d a b => ATau (S pc, rset rs d (ev rs a - ev rs b))
      | FJz c tg => ATau ((if ev rs c =? 0 then tg else S pc), rs)
      | FJmp tg => ATau (tg, rs)
      | FRet v => ARet (ev rs v)
      end
    end.

Definition fp_init (_ : tid) : fstate := (O, []).

(* the static footprint check: every store goes through a field that is not
   an alias of the font *)
Definition store_ok (tbl : ftable) (ins : finstr) : bool :=
  match ins with
  | FStore f _ _ =>
    match nth_error tbl f with
    | Some fd => negb (fkind_eqb (f_kind fd) Alias)
    | None => true                             (* no such field: the store panics *)
    end
  | _ => true
  end.
Definition fp_check (tbl : ftable) (p : prog) : bool := forallb (store_ok tbl) p.

(* the fields a program may store through / load through *)
Fixpoint store_fields (p : prog) : list nat :=
  match p with
  | [] => []
  | FStore f _ _ :: p' => f :: store_fields p'
  | _ :: p' => store_fields p'
  end.
Fixpoint load_fields (p : prog) : list nat :=
  match p with
  | [] => []
  | FLoad _ f _ :: p' => f :: load_fields p'
  | _ :: p' => load_fields p'
  end.

(* ------------------------------------------------------- traces and races *)

Record event := mkEv { e_tid : tid; e_cell : cell; e_wr : bool }.

Section Trace.
  Variable L : Type.
  Variable step : code L.

  Definition ev_of (t : tid) (s : tstate L) : list event :=
    match step t (fst s) with
    | ARead c _ => [mkEv t c false]
    | AWrite c _ _ => [mkEv t c true]
    | _ => []
    end.

  (* the events of a run, in the order of the schedule *)
  Fixpoint trace (sched : list tid) (cfg : config L) : list event :=
    match sched with
    | [] => []
    | t :: s => ev_of t (ths cfg t) ++ trace s (cstep L step cfg t)
    end.
End Trace.

Arguments ev_of {L}. Arguments trace {L}.

Definition conflicting (a b : event) : Prop :=
  e_cell a = e_cell b /\ (e_wr a = true \/ e_wr b = true).

(* happens-before on the events of one run: program order (there is no
   synchronisation operation in the language; the goroutines are started
   before the first and joined after the last event) *)
Definition hb (tr : list event) (i j : nat) : Prop :=
  (i < j)%nat /\ exists a b, nth_error tr i = Some a /\ nth_error tr j = Some b /\ e_tid a = e_tid b.

Definition race (tr : list event) : Prop :=
  exists i j a b, (i < j)%nat /\ nth_error tr i = Some a /\ nth_error tr j = Some b /\
                  conflicting a b /\ ~ hb tr i j /\ ~ hb tr j i.

Definition race_free (tr : list event) : Prop := ~ race tr.

(* executable *)
Definition conflictb (a b : event) : bool :=
  negb (Nat.eqb (e_tid a) (e_tid b)) && N.eqb (e_cell a) (e_cell b) && (e_wr a || e_wr b).

Fixpoint has_race (tr : list event) : bool :=
  match tr with
  | [] => false
  | a :: tr' => existsb (conflictb a) tr' || has_race tr'
  end.

(* ------------------------------------------------ what the driver runs *)

(* a finite system: threads 0..n-1 with the given programs *)
Definition progs_of (ps : list prog) : tid -> prog := fun t => nth t ps [].

Definition fp_run (ly : layout) (tbl : ftable) (recv : tid -> tid) (ps : list prog)
           (h0 : list (cell * val)) (sched : list tid) : config fstate :=
  run fstate (fp_step ly tbl recv (progs_of ps)) sched (init_cfg fstate (heap_of h0) fp_init).

Definition fp_trace (ly : layout) (tbl : ftable) (recv : tid -> tid) (ps : list prog)
           (h0 : list (cell * val)) (sched : list tid) : list event :=
  trace (fp_step ly tbl recv (progs_of ps)) sched (init_cfg fstate (heap_of h0) fp_init).

Definition fp_result (ly : layout) (tbl : ftable) (recv : tid -> tid) (ps : list prog)
           (h0 : list (cell * val)) (sched : list tid) (t : tid) : option val :=
  result fstate (fp_step ly tbl recv (progs_of ps)) t (ths (fp_run ly tbl recv ps h0 sched) t).

(* thread t alone for n steps *)
Definition fp_alone (ly : layout) (tbl : ftable) (recv : tid -> tid) (ps : list prog)
           (h0 : list (cell * val)) (t : tid) (n : nat) : heap * tstate fstate :=
  alone fstate (fp_step ly tbl recv (progs_of ps)) t n (heap_of h0, (fp_init t, [])).

Definition fp_alone_result ly tbl recv ps h0 t n : option val :=
  result fstate (fp_step ly tbl recv (progs_of ps)) t (snd (fp_alone ly tbl recv ps h0 t n)).
