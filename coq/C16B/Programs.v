(* C16B/Programs.v — the aliasing tables of the receiver objects of the real
   operations and the footprint programs built over them.  Executable
   definitions only (this is model, not proof).

   alias_table k lists, for a receiver of kind k, the reference-typed fields and
   what they refer to when they refer to anything:
     Alias  memory reachable from the font
     Fresh  memory the constructor / the operation allocated
     Caller what the caller handed in and the receiver only keeps: the lookup
            indices given to gtab.NewContext (NewLayouter hands in the fresh
            result of FindLookups; a caller of NewContext may hand in a slice
            it shares with other goroutines, which is then only read), the
            glyph sequence given to Apply (the Layouter's own buffer, or the
            caller's)
   It is the model's statement of NewLayouter / gtab.NewContext / the nested
   frames pushed by the contextual subtables / newKeepFunc / Font.Clone /
   Font.Subset (layout.go:37-66, gtab/layout.go:59-61, gtab/nested.go "ctx.stack
   = append(ctx.stack, &nested{InputPos: matchPos, Actions: rule.Actions,...})",
   gtab/filter.go:52-61, font.go:107-110, subset.go:39-74) and is compared on
   every run with what a reflection walk of the real objects finds (pointer-range
   overlap with the memory reachable from the font). *)
From Coq Require Import List NArith Bool Arith.
From C16 Require Import Model.
From C16B Require Import Model.
Import ListNotations.

Inductive recv_kind := RLayouter | RContext | RNested | RKeepFunc | RClone | RSubset.

Inductive fld :=
| F_self | F_text                                         (* the struct's own words; the caller's text *)
| F_font | F_cmap | F_gsub | F_gpos | F_buf               (* sfnt.Layouter *)
| F_lookups | F_ll | F_gdef | F_seq | F_lookup | F_keep | F_stack | F_scratch  (* gtab.Context *)
| F_InputPos | F_Actions                                  (* gtab.nested *)
| F_Gdef | F_Meta                                         (* gtab.keepFunc *)
| F_Outlines | F_CMapTable | F_FGdef | F_FGsub | F_FGpos. (* sfnt.Font (results of Clone / Subset) *)

Scheme Equality for fld.

Definition alias_table (k : recv_kind) : list (fld * fkind) :=
  match k with
  | RLayouter => [(F_font, Alias); (F_cmap, Fresh); (F_gsub, Fresh); (F_gpos, Fresh); (F_buf, Fresh)]
  | RContext => [(F_lookups, Caller); (F_ll, Alias); (F_gdef, Alias); (F_seq, Caller); (F_lookup, Alias);
                 (F_keep, Fresh); (F_stack, Fresh); (F_scratch, Fresh)]
  | RNested => [(F_InputPos, Fresh); (F_Actions, Alias)]
  | RKeepFunc => [(F_Gdef, Alias); (F_Meta, Alias)]
  | RClone => [(F_Outlines, Alias); (F_CMapTable, Alias); (F_FGdef, Alias); (F_FGsub, Alias); (F_FGpos, Alias)]
  | RSubset => [(F_Outlines, Fresh); (F_CMapTable, Fresh); (F_FGdef, Fresh); (F_FGsub, Fresh); (F_FGpos, Fresh)]
  end.

Fixpoint lookup_fld (f : fld) (l : list (fld * fkind)) : option fkind :=
  match l with
  | [] => None
  | (g, k) :: l' => if fld_beq f g then Some k else lookup_fld f l'
  end.

Definition mem_fld (f : fld) (l : list fld) : bool := existsb (fld_beq f) l.

Fixpoint lookup_given (f : fld) (l : list (fld * N)) : option N :=
  match l with
  | [] => None
  | (g, c) :: l' => if fld_beq f g then Some c else lookup_given f l'
  end.

(* ---- what the driver prints for an "alias" case: the table, with "none" for
   the fields the walk found nil / empty (0 = none, 1 = alias, 2 = fresh); a
   Caller field is what the caller handed in (given; fresh when nothing is
   said: the callers inside the library hand in fresh memory) *)
Definition alias_report (k : recv_kind) (nones : list fld) (given : list (fld * N)) : list (fld * N) :=
  map (fun fk => (fst fk,
                  if mem_fld (fst fk) nones then 0%N
                  else match snd fk with
                       | Alias => 1%N
                       | Fresh => 2%N
                       | Caller => match lookup_given (fst fk) given with Some c => c | None => 2%N end
                       end))
      (alias_table k).

(* ------------------------------------------------------------------------
   The footprint table of one goroutine's Layouter with its Context, the
   frames of the Context's stack and the keepFunc: one field of 4 locations
   per table entry, the Alias ones laid out in the shared region, the others
   in the owner's region. *)

Definition FLEN : N := 4%N.

Definition layout_fields : list (fld * fkind) :=
  (F_self, Fresh) :: (F_text, Caller) ::
  alias_table RLayouter ++ alias_table RContext ++ alias_table RNested ++ alias_table RKeepFunc.

Fixpoint mk_ftable (l : list (fld * fkind)) (sh pv : N) : ftable :=
  match l with
  | [] => []
  | (_, Alias) :: l' => mkField Alias sh FLEN :: mk_ftable l' (sh + FLEN)%N pv
  | (_, k) :: l' => mkField k pv FLEN :: mk_ftable l' sh (pv + FLEN)%N
  end.

Definition layout_tbl : ftable := mk_ftable layout_fields 0%N 0%N.
Definition layout_ly : layout := mkLayout 32%N 64%N.

Fixpoint fidx_in (f : fld) (l : list (fld * fkind)) : nat :=
  match l with
  | [] => O
  | (g, _) :: l' => if fld_beq f g then O else S (fidx_in f l')
  end.
Definition fidx (f : fld) : nat := fidx_in f layout_fields.
Definition fld_of_idx (i : nat) : option fld := option_map fst (nth_error layout_fields i).

(* Layout, schematically: for each character of the caller's text look the
   glyph up in the Layouter's cmap, append it to the Layouter's buffer, try a
   rule of the font's lookup list (reading the rule, GDEF and the lookup's meta
   data from the font), push a frame (whose Actions alias the rule's) on the
   Context's stack, record positions, substitute in the Context's sequence,
   update the structs' own words and the scratch space; return a value that
   depends on buffer and sequence. *)
Definition layout_prog : prog :=
  [ (* 0*) FMov 0 (OImm 0);
    (* 1*) FLoad 1 (fidx F_text) (OReg 0);
    (* 2*) FLoad 2 (fidx F_cmap) (OReg 1);
    (* 3*) FStore (fidx F_buf) (OReg 0) (OReg 2);
    (* 4*) FLoad 3 (fidx F_ll) (OReg 0);
    (* 5*) FLoad 4 (fidx F_gdef) (OReg 2);
    (* 6*) FLoad 5 (fidx F_Meta) (OImm 0);
    (* 7*) FSub 6 (OReg 3) (OReg 2);
    (* 8*) FJz (OReg 6) 10;
    (* 9*) FJmp 15;
    (*10*) FLoad 7 (fidx F_Actions) (OReg 0);
    (*11*) FStore (fidx F_stack) (OReg 0) (OReg 7);
    (*12*) FStore (fidx F_InputPos) (OReg 0) (OReg 0);
    (*13*) FAdd 8 (OReg 2) (OReg 7);
    (*14*) FStore (fidx F_seq) (OReg 0) (OReg 8);
    (*15*) FStore (fidx F_self) (OImm 1) (OReg 3);
    (*16*) FStore (fidx F_scratch) (OImm 0) (OReg 0);
    (*17*) FAdd 0 (OReg 0) (OImm 1);
    (*18*) FSub 9 (OImm 3) (OReg 0);
    (*19*) FJz (OReg 9) 21;
    (*20*) FJmp 1;
    (*21*) FLoad 10 (fidx F_buf) (OImm 0);
    (*22*) FLoad 11 (fidx F_buf) (OImm 1);
    (*23*) FLoad 12 (fidx F_buf) (OImm 2);
    (*24*) FLoad 13 (fidx F_seq) (OImm 0);
    (*25*) FAdd 10 (OReg 10) (OReg 10);
    (*26*) FAdd 10 (OReg 10) (OReg 11);
    (*27*) FAdd 10 (OReg 10) (OReg 10);
    (*28*) FAdd 10 (OReg 10) (OReg 12);
    (*29*) FAdd 10 (OReg 10) (OReg 13);
    (*30*) FRet (OReg 10) ].

(* the fields (by name) Layout may store through *)
Fixpoint flds_of (l : list nat) : list fld :=
  match l with
  | [] => []
  | i :: l' => match fld_of_idx i with Some f => f :: flds_of l' | None => flds_of l' end
  end.
Definition layout_may_write : list fld := flds_of (store_fields layout_prog).

(* ---- what the driver prints for a "writes" case: every field the harness saw
   written must be one the model says is not an alias of the font, and (for the
   receivers of Layout) one the model's program stores through *)
Definition writes_covered (k : recv_kind) (written : list fld) : bool :=
  forallb (fun f =>
    match f with
    | F_self => true
    | _ => match lookup_fld f (alias_table k) with
           | Some Alias => false
           | Some _ => match k with
                       | RLayouter | RContext | RNested =>
                         mem_fld f layout_may_write || fld_beq f F_gsub || fld_beq f F_gpos || fld_beq f F_keep || fld_beq f F_lookups
                       | _ => true
                       end
           | None => false
           end
    end) written.

(* ------------------------------------------------------------------------
   The C16-f pattern: "explain" reverses a slice of the font in place (the
   first two elements of the rule behind Context.ll), prints it and reverses it
   back; "reader" (Encode / Apply / another Explain) reads the slice. *)
Definition explain_restore_prog : prog :=
  [ FLoad 0 (fidx F_ll) (OImm 0);
    FLoad 1 (fidx F_ll) (OImm 1);
    FStore (fidx F_ll) (OImm 0) (OReg 1);      (* slices.Reverse *)
    FStore (fidx F_ll) (OImm 1) (OReg 0);
    FLoad 2 (fidx F_ll) (OImm 0);              (* print *)
    FLoad 3 (fidx F_ll) (OImm 1);
    FStore (fidx F_scratch) (OImm 0) (OReg 2);
    FStore (fidx F_ll) (OImm 0) (OReg 0);      (* slices.Reverse *)
    FStore (fidx F_ll) (OImm 1) (OReg 1);
    FAdd 4 (OReg 2) (OReg 2);
    FAdd 4 (OReg 4) (OReg 3);
    FRet (OReg 4) ].

(* the original code: prints a reversed COPY (copyRev) *)
Definition explain_copy_prog : prog :=
  [ FLoad 0 (fidx F_ll) (OImm 0);
    FLoad 1 (fidx F_ll) (OImm 1);
    FStore (fidx F_scratch) (OImm 0) (OReg 1);
    FStore (fidx F_scratch) (OImm 1) (OReg 0);
    FLoad 2 (fidx F_scratch) (OImm 0);
    FLoad 3 (fidx F_scratch) (OImm 1);
    FAdd 4 (OReg 2) (OReg 2);
    FAdd 4 (OReg 4) (OReg 3);
    FRet (OReg 4) ].

(* Encode (Write): reads the rule and its actions from the font, assembles the
   bytes in the encoder's own scratch buffer *)
Definition encode_prog : prog :=
  [ FLoad 0 (fidx F_ll) (OImm 0);
    FLoad 1 (fidx F_ll) (OImm 1);
    FLoad 2 (fidx F_Actions) (OImm 0);
    FStore (fidx F_scratch) (OImm 0) (OReg 0);
    FStore (fidx F_scratch) (OImm 1) (OReg 1);
    FStore (fidx F_scratch) (OImm 2) (OReg 2);
    FLoad 3 (fidx F_scratch) (OImm 1);
    FAdd 4 (OReg 0) (OReg 3);
    FAdd 4 (OReg 4) (OReg 2);
    FRet (OReg 4) ].

Definition reader_prog : prog :=
  [ FLoad 0 (fidx F_ll) (OImm 0);
    FLoad 1 (fidx F_ll) (OImm 1);
    FAdd 2 (OReg 0) (OReg 0);
    FAdd 2 (OReg 2) (OReg 1);
    FRet (OReg 2) ].

(* initial memory for the witnesses: the font's rule = [5; 9; 2; 7] behind
   Context.ll, cmap = identity, texts of thread 0 and 1 *)
Definition cell_of (t : tid) (f : fld) (i : N) : cell :=
  match resolve layout_ly layout_tbl t t (fidx f) i with Some c => c | None => 0%N end.

Definition wit_heap : list (cell * val) :=
  [ (cell_of 0 F_ll 0, 5%N); (cell_of 0 F_ll 1, 9%N); (cell_of 0 F_ll 2, 2%N); (cell_of 0 F_ll 3, 7%N);
    (cell_of 0 F_Actions 0, 1%N); (cell_of 0 F_Actions 1, 1%N); (cell_of 0 F_Actions 2, 1%N);
    (cell_of 0 F_cmap 0, 0%N); (cell_of 0 F_cmap 1, 1%N); (cell_of 0 F_cmap 2, 2%N); (cell_of 0 F_cmap 3, 3%N);
    (cell_of 1 F_cmap 0, 0%N); (cell_of 1 F_cmap 1, 1%N); (cell_of 1 F_cmap 2, 2%N); (cell_of 1 F_cmap 3, 3%N);
    (cell_of 0 F_text 0, 1%N); (cell_of 0 F_text 1, 2%N); (cell_of 0 F_text 2, 3%N);
    (cell_of 1 F_text 0, 3%N); (cell_of 1 F_text 1, 3%N); (cell_of 1 F_text 2, 0%N) ].

Definition own_recv : tid -> tid := fun t => t.
Definition shared_recv : tid -> tid := fun _ => O.
