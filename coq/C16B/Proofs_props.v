(* C16B/Proofs_props.v — the statements of Props.v assembled from Proofs.v
   and Proofs_witness.v. *)
From Coq Require Import List NArith Bool Arith Lia.
From C16 Require Import Model Proofs.
From C16B Require Import Model Programs Proofs Proofs_witness.
Import ListNotations.

Lemma private_writes_commute_lemma :
  forall (L : Type) (owner : cell -> option tid) (step : code L) (init : tid -> L) (h0 : heap),
    writes_own_only L owner step init ->
    reads_shared_or_own L owner step init ->
    forall (sched : list tid),
      (forall t, ths (run L step sched (init_cfg L h0 init)) t
                 = snd (alone L step t (cnt sched t) (h0, (init t, [])))) /\
      (forall t n r, result L step t (snd (alone L step t n (h0, (init t, [])))) = Some r ->
                     n <= cnt sched t ->
                     result L step t (ths (run L step sched (init_cfg L h0 init)) t) = Some r) /\
      (forall c, owner c = None -> hp (run L step sched (init_cfg L h0 init)) c = h0 c) /\
      race_free (trace step sched (init_cfg L h0 init)).
Proof.
  intros L owner step init h0 HW HR sched. repeat split.
  - intro t. eapply schedule_independent; eauto.
  - intros t n r Hr Hle. eapply finished_result_same; eauto.
  - intros c Hc. eapply shared_heap_unchanged; eauto.
  - eapply own_writes_race_free; eauto.
Qed.

Lemma checked_programs_commute_lemma :
  forall (ly : layout) (tbl : ftable) (progs : tid -> prog),
    tbl_ok ly tbl = true ->
    (forall t, fp_check tbl (progs t) = true) ->
    forall (h0 : heap) (sched : list tid),
      let stp := fp_step ly tbl (fun t => t) progs in
      (forall t, ths (run fstate stp sched (init_cfg fstate h0 fp_init)) t
                 = snd (alone fstate stp t (cnt sched t) (h0, (fp_init t, [])))) /\
      (forall t n r, result fstate stp t (snd (alone fstate stp t n (h0, (fp_init t, [])))) = Some r ->
                     n <= cnt sched t ->
                     result fstate stp t (ths (run fstate stp sched (init_cfg fstate h0 fp_init)) t) = Some r) /\
      (forall c, (c < SH ly)%N -> hp (run fstate stp sched (init_cfg fstate h0 fp_init)) c = h0 c) /\
      race_free (trace stp sched (init_cfg fstate h0 fp_init)).
Proof.
  intros ly tbl progs Ht Hc h0 sched stp. repeat split.
  - intro t. apply fp_schedule_independent; assumption.
  - intros t n r Hr Hle. eapply fp_result_same; eauto.
  - intros c Hlt. apply fp_shared_unchanged; assumption.
  - apply fp_race_free; assumption.
Qed.

Lemma eqb_shared : forall ly (g h : heap),
  forallb (fun c => N.eqb (g c) (h c)) (shared_cells ly) = true ->
  forall c, (c < SH ly)%N -> g c = h c.
Proof.
  intros ly g h H c Hc. apply N.eqb_eq. apply (forallb_shared ly (fun c => N.eqb (g c) (h c)) H c Hc).
Qed.

Lemma write_then_restore_refuted_lemma :
  exists (ly : layout) (tbl : ftable) (ps : list prog) (h0 : list (cell * val)) (s_seq s_bad : list tid),
    tbl_ok ly tbl = true /\
    (* thread 0 stores through a field that aliases the font: the static check rejects it *)
    fp_check tbl (nth 0 ps []) = false /\ fp_check tbl (nth 1 ps []) = true /\
    (* the before/after comparison passes: run alone, thread 0 finishes and every
       shared location holds what it held before *)
    (exists n r, fp_alone_result ly tbl (fun t => t) ps h0 0 n = Some r /\
                 forall c, (c < SH ly)%N -> fst (fp_alone ly tbl (fun t => t) ps h0 0 n) c = heap_of h0 c) /\
    (* one after the other, both threads return what they return alone and the
       shared state is as before *)
    (exists n0 n1,
       fp_result ly tbl (fun t => t) ps h0 s_seq 0 = fp_alone_result ly tbl (fun t => t) ps h0 0 n0 /\
       fp_result ly tbl (fun t => t) ps h0 s_seq 1 = fp_alone_result ly tbl (fun t => t) ps h0 1 n1 /\
       fp_result ly tbl (fun t => t) ps h0 s_seq 1 <> None /\
       forall c, (c < SH ly)%N -> hp (fp_run ly tbl (fun t => t) ps h0 s_seq) c = heap_of h0 c) /\
    (* yet both schedules contain a data race *)
    race (fp_trace ly tbl (fun t => t) ps h0 s_seq) /\
    race (fp_trace ly tbl (fun t => t) ps h0 s_bad) /\
    (* and under the second one - same number of steps for every thread, shared
       state again as before at the end - thread 1 returns something else *)
    (forall u, cnt s_seq u = cnt s_bad u) /\
    (forall c, (c < SH ly)%N -> hp (fp_run ly tbl (fun t => t) ps h0 s_bad) c = heap_of h0 c) /\
    fp_result ly tbl (fun t => t) ps h0 s_bad 1 <> fp_result ly tbl (fun t => t) ps h0 s_seq 1.
Proof.
  destruct wr_facts as [F1 [F2 [F3 [F4 [F5 [F6 [F7 [F8 [F9 [F10 [F11 [F12 [F13 F14]]]]]]]]]]]]].
  exists layout_ly, layout_tbl, wr_progs, wit_heap, wr_seq, wr_bad.
  change (fun t : tid => t) with own_recv.
  split; [exact F1|]. split; [exact F2|]. split; [exact F3|].
  split.
  { exists 11, 23%N. split; [exact F4|]. apply eqb_shared. exact F5. }
  split.
  { exists 11, 4. rewrite F7, F8, F4, F6.
    split; [reflexivity|]. split; [reflexivity|]. split; [discriminate|].
    apply eqb_shared. exact F9. }
  split; [apply has_race_sound; exact F10|].
  split; [apply has_race_sound; exact F11|].
  split; [exact wr_same_counts|].
  split; [apply eqb_shared; exact F14|].
  rewrite F12, F8. discriminate.
Qed.

Lemma separate_layouters_independent_lemma :
  forall (progs : tid -> prog),
    (forall t, fp_check layout_tbl (progs t) = true) ->
    forall (h0 : heap) (sched : list tid),
      let stp := fp_step layout_ly layout_tbl (fun t => t) progs in
      (forall t, ths (run fstate stp sched (init_cfg fstate h0 fp_init)) t
                 = snd (alone fstate stp t (cnt sched t) (h0, (fp_init t, [])))) /\
      (forall t n r, result fstate stp t (snd (alone fstate stp t n (h0, (fp_init t, [])))) = Some r ->
                     n <= cnt sched t ->
                     result fstate stp t (ths (run fstate stp sched (init_cfg fstate h0 fp_init)) t) = Some r) /\
      (forall c, (c < SH layout_ly)%N -> hp (run fstate stp sched (init_cfg fstate h0 fp_init)) c = h0 c) /\
      race_free (trace stp sched (init_cfg fstate h0 fp_init)).
Proof.
  intros progs Hc. apply checked_programs_commute_lemma; [|exact Hc].
  destruct wr_facts as [F1 _]. exact F1.
Qed.

Lemma layouters_share_only_the_font_lemma :
  forall (t u : tid) (f g : nat) (i j : N) (c : cell),
    t <> u ->
    resolve layout_ly layout_tbl t t f i = Some c ->
    resolve layout_ly layout_tbl u u g j = Some c ->
    own layout_ly c = None /\
    (exists fd, nth_error layout_tbl f = Some fd /\ f_kind fd = Alias) /\
    (exists gd, nth_error layout_tbl g = Some gd /\ f_kind gd = Alias).
Proof.
  intros t u f g i j c Hne H1 H2.
  destruct wr_facts as [F1 _].
  exact (receivers_meet_in_font_only layout_ly layout_tbl t u f i g j c F1 Hne H1 H2).
Qed.

Lemma shared_layouter_refuted_lemma :
  exists (h0 : list (cell * val)) (s_seq s_bad : list tid) (n0 : nat),
    fp_check layout_tbl layout_prog = true /\
    (forall u, cnt s_seq u = cnt s_bad u) /\
    (* every goroutine its own Layouter: no race, the result of running alone *)
    race_free (fp_trace layout_ly layout_tbl (fun t => t) [layout_prog; layout_prog] h0 s_bad) /\
    fp_result layout_ly layout_tbl (fun t => t) [layout_prog; layout_prog] h0 s_bad 0
      = fp_alone_result layout_ly layout_tbl (fun t => t) [layout_prog; layout_prog] h0 0 n0 /\
    (* ONE Layouter for both: a race under both schedules, and a different result *)
    race (fp_trace layout_ly layout_tbl (fun _ => 0) [layout_prog; layout_prog] h0 s_seq) /\
    race (fp_trace layout_ly layout_tbl (fun _ => 0) [layout_prog; layout_prog] h0 s_bad) /\
    fp_alone_result layout_ly layout_tbl (fun _ => 0) [layout_prog; layout_prog] h0 0 n0 <> None /\
    fp_result layout_ly layout_tbl (fun _ => 0) [layout_prog; layout_prog] h0 s_bad 0
      <> fp_alone_result layout_ly layout_tbl (fun _ => 0) [layout_prog; layout_prog] h0 0 n0.
Proof.
  destruct sl_facts as [G1 [G2 [G3 [G4 [G5 [G6 [G7 [G8 [G9 [G10 G11]]]]]]]]]].
  exists wit_heap, sl_seq, sl_bad, 58.
  change (fun t : tid => t) with own_recv. change (fun _ : tid => 0) with shared_recv.
  fold sl_progs.
  split; [exact G1|]. split; [exact sl_same_counts|].
  split; [apply race_free_iff; exact G6|].
  split; [rewrite G4, G2; reflexivity|].
  split; [apply has_race_sound; exact G9|].
  split; [apply has_race_sound; exact G10|].
  split; [rewrite G7; discriminate|].
  rewrite G11, G7. discriminate.
Qed.
