(* C16B/Proofs.v — race freedom of threads that write only memory of their
   own; the executable race check; soundness of the static footprint check. *)
From Coq Require Import List NArith Bool Arith Lia.
From C16 Require Import Model Proofs.
From C16B Require Import Model.
Import ListNotations.

(* ------------------------------------------------------------ generic part *)

Section RaceFree.
  Variable L : Type.
  Variable owner : cell -> option tid.
  Variable step : code L.
  Variable init : tid -> L.
  Hypothesis HW : writes_own_only L owner step init.
  Hypothesis HR : reads_shared_or_own L owner step init.

  (* what the footprint hypotheses say about one event *)
  Definition ev_ok (e : event) : Prop :=
    if e_wr e then owner (e_cell e) = Some (e_tid e)
    else owner (e_cell e) = None \/ owner (e_cell e) = Some (e_tid e).

  Definition all_reach (cfg : config L) : Prop :=
    forall t, Reach L step init t (fst (ths cfg t)).

  Lemma all_reach_init : forall h0, all_reach (init_cfg L h0 init).
  Proof. intros h0 t. simpl. constructor. Qed.

  Lemma all_reach_step : forall cfg t, all_reach cfg -> all_reach (cstep L step cfg t).
  Proof.
    intros cfg t Hall u. unfold cstep. simpl.
    destruct (Nat.eqb u t) eqn:Eu; [|apply Hall].
    apply Nat.eqb_eq in Eu. subst u. specialize (Hall t).
    unfold tstep. destruct (step t (fst (ths cfg t))) as [c k|c v k|k|r] eqn:E; simpl.
    - eapply R_read; eauto.
    - eapply R_write; eauto.
    - eapply R_tau; eauto.
    - exact Hall.
  Qed.

  Lemma ev_of_ok : forall cfg t, all_reach cfg -> Forall ev_ok (ev_of step t (ths cfg t)).
  Proof.
    intros cfg t Hall. specialize (Hall t). unfold ev_of.
    destruct (step t (fst (ths cfg t))) as [c k|c v k|k|r] eqn:E.
    - constructor; [|constructor]. unfold ev_ok. simpl. eapply HR; eauto.
    - constructor; [|constructor]. unfold ev_ok. simpl. eapply HW; eauto.
    - constructor.
    - constructor.
  Qed.

  Lemma trace_ok : forall sched cfg, all_reach cfg -> Forall ev_ok (trace step sched cfg).
  Proof.
    induction sched as [|t s IH]; intros cfg Hall; simpl; [constructor|].
    apply Forall_app. split; [apply ev_of_ok; exact Hall|].
    apply IH. apply all_reach_step. exact Hall.
  Qed.

  Lemma ok_race_free : forall tr, Forall ev_ok tr -> race_free tr.
  Proof.
    intros tr Hok [i [j [a [b [Hij [Ha [Hb [[Hc Hw] [Hnhb _]]]]]]]]].
    assert (Hta : e_tid a <> e_tid b).
    { intro Heq. apply Hnhb. split; [exact Hij|]. exists a, b. auto. }
    rewrite Forall_forall in Hok.
    pose proof (Hok a (nth_error_In _ _ Ha)) as Oa.
    pose proof (Hok b (nth_error_In _ _ Hb)) as Ob.
    unfold ev_ok in Oa, Ob. rewrite Hc in Oa.
    destruct Hw as [Hw|Hw]; rewrite Hw in *.
    - destruct (e_wr b).
      + rewrite Oa in Ob. inversion Ob. contradiction.
      + destruct Ob as [Ob|Ob]; rewrite Oa in Ob; [discriminate | inversion Ob; contradiction].
    - destruct (e_wr a).
      + rewrite Oa in Ob. inversion Ob. contradiction.
      + destruct Oa as [Oa|Oa]; rewrite Ob in Oa; [discriminate | inversion Oa; auto].
  Qed.

  Theorem own_writes_race_free : forall h0 sched,
    race_free (trace step sched (init_cfg L h0 init)).
  Proof. intros. apply ok_race_free, trace_ok, all_reach_init. Qed.
End RaceFree.

(* ------------------------------------------------ the executable race check *)

Lemma hb_shift : forall a tr i j, hb (a :: tr) (S i) (S j) <-> hb tr i j.
Proof.
  intros a tr i j. unfold hb. simpl. split; intros [H1 H2]; split; try lia; exact H2.
Qed.

Lemma conflictb_spec : forall a b,
  conflictb a b = true <-> (e_tid a <> e_tid b /\ conflicting a b).
Proof.
  intros a b. unfold conflictb, conflicting. rewrite !andb_true_iff, negb_true_iff, Nat.eqb_neq, N.eqb_eq, orb_true_iff.
  tauto.
Qed.

Lemma has_race_sound : forall tr, has_race tr = true -> race tr.
Proof.
  induction tr as [|a tr IH]; simpl; [discriminate|].
  intro H. apply orb_true_iff in H. destruct H as [H|H].
  - apply existsb_exists in H. destruct H as [b [Hin Hc]].
    apply conflictb_spec in Hc. destruct Hc as [Hne Hc].
    apply In_nth_error in Hin. destruct Hin as [n Hn].
    exists 0, (S n), a, b. repeat split; try lia; auto; try apply Hc.
    + intros [_ [x [y [Hx [Hy Hxy]]]]]. simpl in Hx, Hy. inversion Hx; subst x. rewrite Hn in Hy. inversion Hy; subst y. contradiction.
    + intros [Hlt _]. lia.
  - destruct (IH H) as [i [j [x [y [Hij [Hx [Hy [Hc [Hn1 Hn2]]]]]]]]].
    exists (S i), (S j), x, y. repeat split; try lia; auto; try apply Hc.
    + intro Hh. apply Hn1. apply (hb_shift a). exact Hh.
    + intro Hh. apply Hn2. apply (hb_shift a). exact Hh.
Qed.

Lemma has_race_complete : forall tr, race tr -> has_race tr = true.
Proof.
  induction tr as [|a tr IH]; intros [i [j [x [y [Hij [Hx [Hy [Hc [Hn1 Hn2]]]]]]]]].
  - destruct i; discriminate.
  - simpl. apply orb_true_iff. destruct i as [|i].
    + left. simpl in Hx. inversion Hx; subst x. destruct j as [|j]; [lia|]. simpl in Hy.
      apply existsb_exists. exists y. split; [eapply nth_error_In; eauto|].
      apply conflictb_spec. split; [|exact Hc].
      intro Heq. apply Hn1. split; [lia|]. exists a, y. simpl. auto.
    + right. destruct j as [|j]; [lia|]. apply IH.
      exists i, j, x, y. simpl in Hx, Hy. repeat split; try lia; auto; try apply Hc.
      * intro Hh. apply Hn1. apply hb_shift. exact Hh.
      * intro Hh. apply Hn2. apply hb_shift. exact Hh.
Qed.

Lemma has_race_iff : forall tr, has_race tr = true <-> race tr.
Proof. split; [apply has_race_sound | apply has_race_complete]. Qed.

Lemma race_free_iff : forall tr, has_race tr = false <-> race_free tr.
Proof.
  intro tr. unfold race_free. rewrite <- has_race_iff. destruct (has_race tr); split; intro H.
  - discriminate.
  - exfalso. apply H. reflexivity.
  - intro H'. discriminate.
  - reflexivity.
Qed.

(* --------------------------------------------------- the footprint check *)

Local Open Scope N_scope.

Lemma own_shared : forall ly c, c < SH ly -> own ly c = None.
Proof. intros ly c H. unfold own. apply N.ltb_lt in H. rewrite H. reflexivity. Qed.

Lemma own_priv : forall ly t off, off < PV ly -> own ly (priv_addr ly t off) = Some t.
Proof.
  intros ly t off H. unfold own, priv_addr.
  assert (Hnz : PV ly <> 0) by lia.
  destruct (SH ly + N.of_nat t * PV ly + off <? SH ly) eqn:E.
  - apply N.ltb_lt in E. lia.
  - f_equal.
    replace (SH ly + N.of_nat t * PV ly + off - SH ly) with (N.of_nat t * PV ly + off) by lia.
    rewrite N.div_add_l by exact Hnz. rewrite N.div_small by exact H. rewrite N.add_0_r. apply Nat2N.id.
Qed.

Section Footprint.
  Variable ly : layout.
  Variable tbl : ftable.
  Variable progs : tid -> prog.
  Hypothesis Htbl : tbl_ok ly tbl = true.

  Let stp := fp_step ly tbl (fun t => t) progs.

  Lemma field_bounds : forall f fd, nth_error tbl f = Some fd -> field_ok ly fd = true.
  Proof.
    intros f fd H. unfold tbl_ok in Htbl. rewrite forallb_forall in Htbl. apply Htbl. eapply nth_error_In; eauto.
  Qed.

  (* where an access through a field lands *)
  Lemma resolve_owner : forall t f i c,
    resolve ly tbl t t f i = Some c ->
    exists fd, nth_error tbl f = Some fd /\
      match f_kind fd with Alias => own ly c = None | _ => own ly c = Some t end.
  Proof.
    intros t f i c H. unfold resolve in H.
    destruct (nth_error tbl f) as [fd|] eqn:Ef; [|discriminate].
    destruct (i <? f_len fd) eqn:Ei; [|discriminate]. apply N.ltb_lt in Ei.
    exists fd. split; [reflexivity|].
    pose proof (field_bounds f fd Ef) as Hb. unfold field_ok in Hb.
    inversion H; subst c; clear H.
    destruct (f_kind fd); apply N.leb_le in Hb.
    - apply own_shared. lia.
    - apply own_priv. lia.
    - apply own_priv. lia.
  Qed.

  Hypothesis Hchk : forall t, fp_check tbl (progs t) = true.

  Lemma fp_writes_own : writes_own_only fstate (own ly) stp fp_init.
  Proof.
    intros t [pc rs] c v k _ Hs. unfold stp, fp_step in Hs.
    destruct (nth_error (progs t) pc) as [ins|] eqn:Ep; [|discriminate].
    destruct ins; try discriminate;
      try (destruct (resolve ly tbl t t f (ev rs i)); discriminate).
    destruct (resolve ly tbl t t f (ev rs i)) as [c'|] eqn:Er; [|discriminate].
    inversion Hs; subst c'; clear Hs.
    destruct (resolve_owner _ _ _ _ Er) as [fd [Ef Ho]].
    pose proof (Hchk t) as Hc. unfold fp_check in Hc. rewrite forallb_forall in Hc.
    specialize (Hc _ (nth_error_In _ _ Ep)). simpl in Hc. rewrite Ef in Hc.
    destruct (f_kind fd); [discriminate | exact Ho | exact Ho].
  Qed.

  Lemma fp_reads_ok : reads_shared_or_own fstate (own ly) stp fp_init.
  Proof.
    intros t [pc rs] c k _ Hs. unfold stp, fp_step in Hs.
    destruct (nth_error (progs t) pc) as [ins|] eqn:Ep; [|discriminate].
    destruct ins; try discriminate;
      try (destruct (resolve ly tbl t t f (ev rs i)); discriminate).
    destruct (resolve ly tbl t t f (ev rs i)) as [c'|] eqn:Er; [|discriminate].
    inversion Hs; subst c'; clear Hs.
    destruct (resolve_owner _ _ _ _ Er) as [fd [Ef Ho]].
    destruct (f_kind fd); auto.
  Qed.

  (* every thread is, under every schedule, where it is after the same number
     of its own steps alone *)
  Theorem fp_schedule_independent : forall h0 sched t,
    ths (run fstate stp sched (init_cfg fstate h0 fp_init)) t
    = snd (alone fstate stp t (cnt sched t) (h0, (fp_init t, []))).
  Proof. intros. eapply schedule_independent; [apply fp_writes_own | apply fp_reads_ok]. Qed.

  Theorem fp_result_same : forall h0 sched t n r,
    result fstate stp t (snd (alone fstate stp t n (h0, (fp_init t, [])))) = Some r ->
    (n <= cnt sched t)%nat ->
    result fstate stp t (ths (run fstate stp sched (init_cfg fstate h0 fp_init)) t) = Some r.
  Proof.
    intros h0 sched t n r Hr Hle.
    eapply finished_result_same; [apply fp_writes_own | apply fp_reads_ok | exact Hr | exact Hle].
  Qed.

  Theorem fp_race_free : forall h0 sched,
    race_free (trace stp sched (init_cfg fstate h0 fp_init)).
  Proof. intros. eapply own_writes_race_free; [apply fp_writes_own | apply fp_reads_ok]. Qed.

  Theorem fp_shared_unchanged : forall h0 sched c,
    c < SH ly -> hp (run fstate stp sched (init_cfg fstate h0 fp_init)) c = h0 c.
  Proof.
    intros. eapply shared_heap_unchanged; [apply fp_writes_own | apply fp_reads_ok | apply own_shared; assumption].
  Qed.
End Footprint.

(* two receivers of different threads meet in font memory only *)
Lemma receivers_meet_in_font_only : forall ly tbl t u f i g j c,
  tbl_ok ly tbl = true -> t <> u ->
  resolve ly tbl t t f i = Some c -> resolve ly tbl u u g j = Some c ->
  own ly c = None /\
  (exists fd, nth_error tbl f = Some fd /\ f_kind fd = Alias) /\
  (exists gd, nth_error tbl g = Some gd /\ f_kind gd = Alias).
Proof.
  intros ly tbl t u f i g j c Htbl Hne H1 H2.
  destruct (resolve_owner ly tbl Htbl _ _ _ _ H1) as [fd [Ef Hf]].
  destruct (resolve_owner ly tbl Htbl _ _ _ _ H2) as [gd [Eg Hg]].
  destruct (f_kind fd) eqn:Kf; destruct (f_kind gd) eqn:Kg;
    try (rewrite Hf in Hg; first [discriminate | (inversion Hg; contradiction)]).
  split; [exact Hf|]. split; [exists fd | exists gd]; auto.
Qed.
