(* C08C/Tie.v — translator tie: the 16-bit limits tested by the encoders and
   readers, regenerated from the Go source on every run (coq/Gen/C08C.v,
   translators/items/C08C.json), are the limits of the models (65535 in
   ModelCtx.v / ModelChain.v: "65535 <? x" mirrors "x > 0xFFFF",
   "lenN (cr_in r) <? 65535" mirrors the refusal "len(rule.Input) >= 0xFFFF").
   A changed constant - or a removed guard, which the translator reports as
   lost - breaks this file. *)
From Coq Require Import NArith.
From Gen Require Import C08C.
Local Open Scope N_scope.

Lemma c08c_limits_tied :
  c08c_seq1_maxCoverageOffset = 65535 /\ c08c_seq2_maxClassDefOffset = 65535 /\
  c08c_seq3_maxCoverageOffset = 65535 /\
  c08c_ch1_maxCoverageOffset = 65535 /\ c08c_ch1_maxRuleSetOffset = 65535 /\
  c08c_ch1_maxRuleOffset = 65535 /\ c08c_ch1_maxBacktrack = 65535 /\ c08c_ch1_inputLimit = 65535 /\
  c08c_ch1_maxLookahead = 65535 /\ c08c_ch1_maxActions = 65535 /\
  c08c_ch2_maxLookaheadOffset = 65535 /\ c08c_ch2_maxRuleSetOffset = 65535 /\
  c08c_ch2_maxRuleOffset = 65535 /\ c08c_ch2_maxBacktrack = 65535 /\ c08c_ch2_inputLimit = 65535 /\
  c08c_gsub81_maxCoverageOffset = 65535 /\
  c08c_seq2_readLimit = 65535 /\ c08c_ch1_readRuleSetLimit = 65535 /\ c08c_ch1_readRuleLimit = 65535 /\
  c08c_ch2_readRuleSetLimit = 65535 /\ c08c_ch2_readRuleLimit = 65535.
Proof. repeat split; reflexivity. Qed.
