(* C08C/ModelPre.v — the encoders as they were BEFORE
   fixes/C08-context-offset-guards.diff: SeqContext1, SeqContext3,
   ChainedSeqContext1, ChainedSeqContext3 and Gsub8_1 wrote every offset and
   count through uint16(..) / byte(..) without any test; ChainedSeqContext2
   tested the rule set offsets and the rule offsets only.  Kept for the
   refutations (Props.v: *_unguarded_refuted); not extracted. *)
From Coq Require Import List NArith ZArith Bool Lia.
From Common Require Import Bytes Outcome.
From C08 Require Import Model ModelCD ModelSub.
From C08C Require Import ModelCtx ModelChain.
Import ListNotations.
Local Open Scope N_scope.

Definition M_seq1_encode_pre (cov : list (N * Z)) (rules : ssets) : outcome (list N) :=
  let cnt := lenN rules in
  let covOff := 6 + 2 * cnt + sets_size srule_size rules in
  cb <- M_cov_encode cov ;;
  Ok ([0; 1] ++ be16 covOff ++ be16 cnt ++
      flat_map be16 (set_offs srule_size rules (6 + 2 * cnt)) ++
      sets_bytes srule_size srule_bytes rules ++ cb).

Definition M_seq3_encode_pre (inp : list (list N)) (acts : list action) : outcome (list N) :=
  let hdr := 6 + 2 * lenN inp + 4 * lenN acts in
  lens <- covs_len (set_tables inp) ;;
  cbs <- covs_enc (set_tables inp) ;;
  Ok ([0; 3] ++ be16 (lenN inp) ++ be16 (lenN acts) ++
      flat_map be16 (cov_offs lens hdr) ++ acts_bytes acts ++ concat cbs).

Definition M_ch1_encode_pre (cov : list (N * Z)) (rules : csets) : outcome (list N) :=
  let cnt := lenN rules in
  let covOff := 6 + 2 * cnt in
  n <- M_cov_encode_len cov ;;
  cb <- M_cov_encode cov ;;
  Ok ([0; 1] ++ be16 covOff ++ be16 cnt ++
      flat_map be16 (set_offs crule_size rules (covOff + n)) ++ cb ++
      sets_bytes crule_size crule_bytes rules).

Definition M_ch2_encode_pre (cov : list (N * Z)) (cb ci cl : list (N * N)) (rules : csets)
  : outcome (list N) :=
  let cnt := lenN rules in
  let covOff := 12 + 2 * cnt in
  n <- M_cov_encode_len cov ;;
  let bOff := covOff + n in
  let iOff := bOff + M_cd_append_len cb in
  let lOff := iOff + M_cd_append_len ci in
  let total := lOff + M_cd_append_len cl in
  if negb (sets_fit crule_size rules total) then Panic
  else
    cvb <- M_cov_encode cov ;;
    b1 <- M_cd_append cb ;; b2 <- M_cd_append ci ;; b3 <- M_cd_append cl ;;
    Ok ([0; 2] ++ be16 covOff ++ be16 bOff ++ be16 iOff ++ be16 lOff ++ be16 cnt ++
        flat_map be16 (set_offs crule_size rules total) ++ cvb ++ b1 ++ b2 ++ b3 ++
        sets_bytes crule_size crule_bytes rules).

Definition M_ch3_encode_pre (bk inp la : list (list N)) (acts : list action) : outcome (list N) :=
  let hdr := 10 + 2 * lenN bk + 2 * lenN inp + 2 * lenN la + 4 * lenN acts in
  lb <- covs_len (set_tables bk) ;; li <- covs_len (set_tables inp) ;; ll <- covs_len (set_tables la) ;;
  let t1 := hdr + sumN lb in
  let t2 := t1 + sumN li in
  bb <- covs_enc (set_tables bk) ;; bi <- covs_enc (set_tables inp) ;; bl <- covs_enc (set_tables la) ;;
  Ok ([0; 3] ++ be16 (lenN bk) ++ flat_map be16 (cov_offs lb hdr) ++
      be16 (lenN inp) ++ flat_map be16 (cov_offs li t1) ++
      be16 (lenN la) ++ flat_map be16 (cov_offs ll t2) ++
      be16 (lenN acts) ++ acts_bytes acts ++ concat bb ++ concat bi ++ concat bl).

Definition M_gsub81_encode_pre (inp : list (N * Z)) (bk la : list (list (N * Z))) (subst : list N)
  : outcome (list N) :=
  let covOff := 10 + 2 * lenN bk + 2 * lenN la + 2 * lenN subst in
  n <- M_cov_encode_len inp ;; lb <- covs_len bk ;; ll <- covs_len la ;;
  let t1 := covOff + n in
  let t2 := t1 + sumN lb in
  cb <- M_cov_encode inp ;; bb <- covs_enc bk ;; bl <- covs_enc la ;;
  Ok ([0; 1] ++ be16 covOff ++ be16 (lenN bk) ++ flat_map be16 (cov_offs lb t1) ++
      be16 (lenN la) ++ flat_map be16 (cov_offs ll t2) ++
      be16 (lenN subst) ++ flat_map be16 subst ++ cb ++ concat bb ++ concat bl).

(* ---- the witnesses (replayed on the Go code: corpus/C08C) ---- *)
Definition many {A} (n : N) (x : A) : list A := repeat x (N.to_nat n).
Fixpoint iota (n : nat) (g : N) : list N := match n with O => [] | S n' => g :: iota n' (g + 1) end.
Definition crule_of (b i l : list N) (a : list action) : crule :=
  {| cr_back := b; cr_in := i; cr_look := l; cr_acts := a |}.

(* coverage {1, 2}; the rule of glyph 1 has 33000 input glyphs: 66 KB of rule
   sets in front of the coverage table, coverage offset 66026 written as 490 *)
Definition w_seq1_gl : list N := [1; 2].
Definition w_seq1_rules : ssets := [Some [(many 33000 0, [])]; Some [([7], [])]].
(* two input positions, 16400 sequence lookup records: coverage offsets 65610, 65616 *)
Definition w_seq3_inp : list (list N) := [[1]; [2]].
Definition w_seq3_acts : list action := many 16400 (0, 0).
(* second rule set behind a rule with 33000 backtrack glyphs *)
Definition w_ch1_gl : list N := [1; 2].
Definition w_ch1_rules : csets :=
  [Some [crule_of (many 33000 0) [] [] []]; Some [crule_of [] [7] [] []]].
(* the last rule of a set has 65536 backtrack glyphs: the count is written as 0 *)
Definition w_ch2_gl : list N := [1].
Definition w_ch2_ci : list (N * N) := [(1, 1)].
Definition w_ch2_rules : csets := [None; Some [crule_of (many 65536 65535) [] [] []]].
Definition w_ch3_bk : list (list N) := [[1]].
Definition w_ch3_inp : list (list N) := [[1]; [2]].
Definition w_ch3_acts : list action := many 16400 (0, 0).
(* 32768 covered glyphs: coverage offset 10 + 65536 written as 10 *)
Definition w_gsub81_gl : list N := iota (N.to_nat 32768) 0.
Definition w_gsub81_subst : list N := many 32768 0.
