(* C08C/Proofs_seq.v — SeqContext1 and SeqContext2: declared size = emitted
   size, round trip, the written fields fit, the readers are total. *)
From Coq Require Import List NArith ZArith Bool Lia FMapPositive.
From Coq Require Import ZifyBool ZifyNat ZifyN.
From Common Require Import Bytes Outcome.
From C08 Require Import Model ModelCD ModelSub Proofs Proofs_cd Proofs_sub.
From C08C Require Import ModelCtx Util Proofs_gen.
Import ListNotations.
Local Open Scope N_scope.
Ltac Zify.zify_post_hook ::= Z.div_mod_to_equations.

(* ------------------------------------------------------------------ *)
(* encoders of coverage tables return a value or panic                 *)

Lemma rev_fill_cases t : forall n m, (exists m', rev_fill t n m = Ok m') \/ rev_fill t n m = Panic.
Proof.
  induction t as [|[g i] t IH]; intros n m; cbn [rev_fill]; [left; eauto|].
  destruct (_ && _); [apply IH|right; reflexivity].
Qed.

Lemma cov_encinfo_cases t : (exists ei, M_cov_encinfo t = Ok ei) \/ M_cov_encinfo t = Panic.
Proof.
  unfold M_cov_encinfo.
  destruct (rev_fill_cases t (N.of_nat (length t)) (PositiveMap.empty N)) as [[m' E]|E]; rewrite E; cbn [obind].
  - destruct (_ && _); [left; eauto|right; reflexivity].
  - right; reflexivity.
Qed.

Lemma cov_encode_cases t :
  (exists b n, M_cov_encode t = Ok b /\ M_cov_encode_len t = Ok n) \/
  (M_cov_encode t = Panic /\ M_cov_encode_len t = Panic).
Proof.
  unfold M_cov_encode, M_cov_encode_len.
  destruct (cov_encinfo_cases t) as [[ei E]|E]; rewrite E; cbn [obind]; [left; eauto|right; auto].
Qed.

Lemma cd_append_cases t : (exists b, M_cd_append t = Ok b) \/ M_cd_append t = Panic.
Proof.
  destruct (cd_append_total t) as [H1 H2].
  destruct (M_cd_append t); [left; eauto|congruence|right; reflexivity|congruence].
Qed.

(* a class table read at its offset *)
Lemma cd_at t hdr pre post b off :
  cd_ok t = true -> M_cd_append t = Ok b -> off = lenN hdr ->
  M_cd_read (pre ++ (hdr ++ b) ++ post) (lenN pre + off) = Ok (S_cd_nonzero t).
Proof.
  intros Hok Hb ->.
  pose proof (cd_roundtrip t b (pre ++ hdr) post Hok Hb) as Hr.
  rewrite app_length, Nnat.Nat2N.inj_add in Hr. rewrite <- !app_assoc in *. exact Hr.
Qed.

Lemma max_class_nonzero t : forall m,
  fold_left (fun m p => if m <? snd p then snd p else m) (S_cd_nonzero t) m =
  fold_left (fun m (p : N * N) => if m <? snd p then snd p else m) t m.
Proof.
  unfold S_cd_nonzero.
  induction t as [|[g c] t IH]; intros m; cbn [filter fold_left snd]; [reflexivity|].
  destruct (c =? 0) eqn:E; cbn [negb fold_left snd].
  - rewrite IH. f_equal. apply N.eqb_eq in E. subst c. destruct (m <? 0) eqn:E2; [lia|reflexivity].
  - apply IH.
Qed.

Lemma cd_num_classes_nonzero t : cd_num_classes (S_cd_nonzero t) = cd_num_classes t.
Proof. unfold cd_num_classes. now rewrite max_class_nonzero. Qed.

(* ------------------------------------------------------------------ *)
(* sequence lookup records                                             *)

Lemma acts_lenN l : lenN (acts_bytes l) = 4 * lenN l.
Proof.
  unfold acts_bytes. induction l as [|a l IH]; cbn [flat_map]; [reflexivity|].
  rewrite lenN_app, IH. unfold act_bytes. lens. lia.
Qed.

Lemma rd_acts_flat l : forall rest,
  acts_ok l = true -> rd_acts (length l) (acts_bytes l ++ rest) = Ok (l, rest).
Proof.
  unfold acts_bytes, acts_ok.
  induction l as [|[x y] l IH]; intros rest H; cbn [length rd_acts flat_map app forallb fst snd] in *; [reflexivity|].
  apply andb_true_iff in H as [Hxy H].
  unfold act_bytes at 1. cbn [fst snd be16 app]. rewrite <- ?app_assoc. cbn [app].
  rewrite (IH rest H). cbn [obind fst snd].
  rewrite !w16_be16_eq by lia. reflexivity.
Qed.

(* ------------------------------------------------------------------ *)
(* SeqRule / ClassSeqRule                                               *)

Lemma srule_len r : lenN (srule_bytes r) = srule_size r.
Proof. unfold srule_bytes, srule_size. lens. rewrite acts_lenN. lia. Qed.

(* well-formed and small enough for its count fields *)
Definition srule_ok' (r : srule) : bool := srule_ok r && (srule_size r <=? 65535).

Lemma srule_rt r tail : srule_ok' r = true -> srule_read (srule_bytes r ++ tail) = Ok r.
Proof.
  unfold srule_ok', srule_ok, srule_size. intros H.
  apply andb_true_iff in H as [H Hsz]. apply andb_true_iff in H as [Hi Ha].
  destruct r as [inp acts]. cbn [fst snd] in *.
  unfold srule_bytes, srule_read. cbn [fst snd]. rewrite <- !app_assoc. cbn [be16 app].
  rewrite !w16_be16_eq by lia.
  replace (lenN inp + 1 =? 0) with false by lia.
  replace (N.to_nat (lenN inp + 1 - 1)) with (length inp) by (unfold lenN; lia).
  rewrite rd_u16s_flat by (apply u16s_ok_Forall; exact Hi). cbn [obind fst snd].
  rewrite lenN_length, rd_acts_flat by exact Ha. reflexivity.
Qed.

Lemma srule_read_safe l : safe (srule_read l).
Proof.
  unfold srule_read. destruct l as [|a [|b [|c [|d r']]]]; try apply safe_err.
  safe_tac; [apply rd_u16s_safe|apply rd_acts_safe].
Qed.

Lemma srule_fields_fit r : (srule_size r <=? 65535) = true -> Forall (fun v => v < 65536) (srule_fields r).
Proof.
  unfold srule_size, srule_fields. intros H. repeat constructor; cbv beta; lia.
Qed.

(* every rule of a set list whose total size fits is small enough *)
Lemma ssets_ok' rules B :
  forallb (oset_all srule_ok) rules = true -> sets_size srule_size rules <= B -> B <= 65535 ->
  forallb (oset_all srule_ok') rules = true.
Proof.
  intros Hok Hsz HB. unfold srule_ok'.
  apply forallb_oset_and; [exact Hok|].
  exact (sets_size_rule_bound _ srule_size rules 65535 ltac:(lia)).
Qed.

Lemma set_offs_lenN {R} (r_size : R -> N) ss p : lenN (set_offs r_size ss p) = lenN ss.
Proof. unfold lenN. now rewrite set_offs_length. Qed.

(* ------------------------------------------------------------------ *)
(* SeqContext1                                                          *)

Lemma seq1_len_agrees t rules b :
  keys_ok t = true -> M_seq1_encode t rules = Ok b -> M_seq1_len t rules = Ok (lenN b).
Proof.
  unfold M_seq1_encode, M_seq1_len. cbv zeta. intros Hk.
  destruct (M_cov_encode t) as [cb| | |] eqn:Hc; cbn [obind]; try discriminate.
  destruct (65535 <? _); [discriminate|].
  intros H. apply ok_inj in H. subst b.
  rewrite (cov_len_agrees t cb Hk Hc). cbn [obind]. f_equal.
  lens. rewrite (sets_lenN _ _ _ srule_len), set_offs_lenN. fold (lenN cb). lia.
Qed.

Lemma seq1_roundtrip gl rules b pre post :
  seq1_wf gl rules = true -> M_seq1_encode (S_cov_table gl) rules = Ok b ->
  M_seq1_read (pre ++ b ++ post) (lenN pre) = Ok (S_cov_pairs gl, rules).
Proof.
  unfold seq1_wf, gset_ok. intros Hwf.
  apply andb_true_iff in Hwf as [Hwf Hr]. apply andb_true_iff in Hwf as [Hg Hlen].
  apply andb_true_iff in Hg as [Hs Hg]. apply Nat.eqb_eq in Hlen.
  unfold M_seq1_encode. cbv zeta.
  set (cnt := lenN rules). set (off := 6 + 2 * cnt + sets_size srule_size rules).
  destruct (M_cov_encode (S_cov_table gl)) as [cb| | |] eqn:Hc; cbn [obind]; try discriminate.
  destruct (65535 <? off) eqn:Hov; [discriminate|].
  intros H. apply ok_inj in H. subst b.
  set (offs := set_offs srule_size rules (6 + 2 * cnt)).
  assert (Hoffs_len : length offs = length rules) by apply set_offs_length.
  assert (Hoffs_ok : Forall (fun x => x < 65536) offs).
  { eapply Forall_impl; [|apply set_offs_bound]. cbv beta. intros; unfold off in Hov; lia. }
  set (SB := sets_bytes srule_size srule_bytes rules).
  assert (HSB : lenN SB = sets_size srule_size rules) by apply (sets_lenN _ _ _ srule_len).
  set (hdr := [0; 1] ++ be16 off ++ be16 cnt ++ flat_map be16 offs ++ SB).
  set (D := pre ++ ([0; 1] ++ be16 off ++ be16 cnt ++ flat_map be16 offs ++ SB ++ cb) ++ post).
  assert (HD : D = pre ++ (hdr ++ cb) ++ post) by (unfold D, hdr; now rewrite <- !app_assoc).
  assert (Hseek : seek D (lenN pre + 2)
                  = be16 off ++ be16 cnt ++ flat_map be16 offs ++ SB ++ cb ++ post).
  { unfold D. rewrite <- !app_assoc. apply (seek_at pre [0; 1]). }
  unfold M_seq1_read. rewrite Hseek. cbn [be16 app]. rewrite w16_be16_eq by lia.
  change ((cnt / 256) mod 256 :: cnt mod 256 :: ?x) with (be16 cnt ++ x).
  assert (Hcnt : cnt = lenN offs) by (unfold cnt, lenN; now rewrite Hoffs_len).
  rewrite Hcnt at 1.
  rewrite rd_slice_flat by (try exact Hoffs_ok; rewrite <- Hcnt; unfold off in Hov; lia).
  cbn [obind fst].
  rewrite HD at 1. rewrite (cov_at gl hdr pre post cb off Hs Hg Hc).
  2:{ unfold hdr. lens. rewrite HSB, <- Hcnt. unfold off. lia. }
  cbn [obind].
  rewrite prune_pair_same by (unfold S_cov_pairs; rewrite cov_pairs_length; lia).
  cbn [fst snd].
  assert (HD2 : D = (pre ++ [0; 1] ++ be16 off ++ be16 cnt ++ flat_map be16 offs) ++
                    SB ++ (cb ++ post))
    by (unfold D; now rewrite <- !app_assoc).
  rewrite HD2. unfold offs, SB.
  rewrite (rd_sets_ok _ srule_size srule_bytes srule_read srule_ok' srule_len srule_rt).
  - reflexivity.
  - apply (ssets_ok' rules 65535); [exact Hr|unfold off in Hov; lia|lia].
  - apply sets_local_of_bound. unfold off in Hov. lia.
  - lens. fold offs. rewrite <- Hcnt. lia.
  - lia.
Qed.

(* the encoder returns or panics; when it returns, every count and offset
   it wrote is the value itself (nothing was truncated to 16 bits) *)
Lemma seq1_refuses_or_fits t rules :
  M_seq1_encode t rules = Panic \/
  exists b, M_seq1_encode t rules = Ok b /\ Forall (fun v => v < 65536) (M_seq1_fields rules).
Proof.
  unfold M_seq1_encode, M_seq1_fields. cbv zeta.
  set (cnt := lenN rules). set (off := 6 + 2 * cnt + sets_size srule_size rules).
  destruct (cov_encode_cases t) as [(cb & n & Hc & _)|[Hc _]]; rewrite Hc; cbn [obind]; [|left; reflexivity].
  destruct (65535 <? off) eqn:Hov; [left; reflexivity|right].
  eexists. split; [reflexivity|].
  constructor; [lia|]. constructor; [unfold off in Hov; lia|].
  apply Forall_app. split.
  { eapply Forall_impl; [|apply set_offs_bound]. cbv beta. intros; unfold off in Hov; lia. }
  apply Forall_app. split.
  - apply oset_fields_fit. apply sets_local_of_bound. unfold off in Hov. lia.
  - apply (rule_fields_fit _ srule_fields (fun r => srule_size r <=? 65535)); [exact srule_fields_fit|].
    apply sets_size_rule_bound. unfold off in Hov. lia.
Qed.

Lemma seq1_read_safe data pos : safe (M_seq1_read data pos).
Proof.
  unfold M_seq1_read. destruct (seek data (pos + 2)) as [|a [|b r]]; try apply safe_err.
  safe_tac; [apply rd_slice_safe|apply cov_read_safe|apply rd_sets_safe; exact srule_read_safe].
Qed.

(* ------------------------------------------------------------------ *)
(* SeqContext2                                                          *)

Lemma seq2_len_agrees t cls rules b :
  keys_ok t = true -> cd_ok cls = true ->
  M_seq2_encode t cls rules = Ok b -> M_seq2_len t cls rules = Ok (lenN b).
Proof.
  unfold M_seq2_encode, M_seq2_len. cbv zeta. intros Hk Hcd.
  destruct (M_cov_encode_len t) as [n| | |] eqn:Hn; cbn [obind]; try discriminate.
  destruct (65535 <? _); [discriminate|].
  destruct (M_cov_encode t) as [cb| | |] eqn:Hc; cbn [obind]; try discriminate.
  destruct (M_cd_append cls) as [cd| | |] eqn:Hd; cbn [obind]; try discriminate.
  intros H. apply ok_inj in H. subst b.
  rewrite (cov_len_agrees t cb Hk Hc) in Hn. apply ok_inj in Hn. subst n.
  f_equal. rewrite (cd_len_agrees cls cd Hcd Hd).
  lens. rewrite (sets_lenN _ _ _ srule_len), set_offs_lenN. fold (lenN cb) (lenN cd). lia.
Qed.

Lemma seq2_roundtrip gl cls rules b pre post :
  seq2_wf gl cls rules = true -> M_seq2_encode (S_cov_table gl) cls rules = Ok b ->
  M_seq2_read (pre ++ b ++ post) (lenN pre) = Ok (seq2_norm gl cls rules).
Proof.
  unfold seq2_wf, gset_ok. intros Hwf.
  apply andb_true_iff in Hwf as [Hwf Hr]. apply andb_true_iff in Hwf as [Hg Hcd].
  apply andb_true_iff in Hg as [Hs Hg].
  unfold M_seq2_encode. cbv zeta.
  set (cnt := lenN rules). set (off := 8 + 2 * cnt + sets_size srule_size rules).
  destruct (M_cov_encode_len (S_cov_table gl)) as [n| | |] eqn:Hn; cbn [obind]; try discriminate.
  destruct (65535 <? off + n) eqn:Hov; [discriminate|].
  destruct (M_cov_encode (S_cov_table gl)) as [cb| | |] eqn:Hc; cbn [obind]; try discriminate.
  destruct (M_cd_append cls) as [cd| | |] eqn:Hd; cbn [obind]; try discriminate.
  intros H. apply ok_inj in H. subst b.
  pose proof Hn as Hn'. rewrite (cov_encode_len_ok gl cb Hg Hc) in Hn'. apply ok_inj in Hn'. subst n.
  set (offs := set_offs srule_size rules (8 + 2 * cnt)).
  assert (Hoffs_len : length offs = length rules) by apply set_offs_length.
  assert (Hoffs_ok : Forall (fun x => x < 65536) offs).
  { eapply Forall_impl; [|apply set_offs_bound]. cbv beta. intros; unfold off in Hov; lia. }
  set (SB := sets_bytes srule_size srule_bytes rules).
  assert (HSB : lenN SB = sets_size srule_size rules) by apply (sets_lenN _ _ _ srule_len).
  set (hdr := [0; 2] ++ be16 off ++ be16 (off + lenN cb) ++ be16 cnt ++ flat_map be16 offs ++ SB).
  set (D := pre ++ ([0; 2] ++ be16 off ++ be16 (off + lenN cb) ++ be16 cnt ++ flat_map be16 offs ++
                    SB ++ cb ++ cd) ++ post).
  assert (HD : D = pre ++ (hdr ++ cb) ++ (cd ++ post)) by (unfold D, hdr; now rewrite <- !app_assoc).
  assert (HD1 : D = pre ++ ((hdr ++ cb) ++ cd) ++ post) by (unfold D, hdr; now rewrite <- !app_assoc).
  assert (Hseek : seek D (lenN pre + 2)
                  = be16 off ++ be16 (off + lenN cb) ++ be16 cnt ++ flat_map be16 offs ++ SB ++ cb ++ cd ++ post).
  { unfold D. rewrite <- !app_assoc. apply (seek_at pre [0; 2]). }
  unfold M_seq2_read. rewrite Hseek. cbn [be16 app]. rewrite !w16_be16_eq by lia.
  change ((cnt / 256) mod 256 :: cnt mod 256 :: ?x) with (be16 cnt ++ x).
  assert (Hcnt : cnt = lenN offs) by (unfold cnt, lenN; now rewrite Hoffs_len).
  rewrite Hcnt at 1.
  rewrite rd_slice_flat by (try exact Hoffs_ok; rewrite <- Hcnt; unfold off in Hov; lia).
  cbn [obind fst].
  assert (Hhdr : lenN hdr = off).
  { unfold hdr. lens. rewrite HSB, <- Hcnt. unfold off. lia. }
  rewrite HD at 1. rewrite (cov_at gl hdr pre (cd ++ post) cb off Hs Hg Hc) by (symmetry; exact Hhdr).
  cbn [obind].
  rewrite HD1 at 1. rewrite (cd_at cls (hdr ++ cb) pre post cd (off + lenN cb) Hcd Hd)
    by (rewrite lenN_app, Hhdr; reflexivity).
  cbn [obind].
  rewrite cd_num_classes_nonzero.
  set (k := N.to_nat (cd_num_classes cls)).
  unfold offs. rewrite <- set_offs_firstn.
  assert (HD2 : D = (pre ++ [0; 2] ++ be16 off ++ be16 (off + lenN cb) ++ be16 cnt ++ flat_map be16 offs) ++
                    sets_bytes srule_size srule_bytes (firstn k rules) ++
                    (sets_bytes srule_size srule_bytes (skipn k rules) ++ cb ++ cd ++ post)).
  { unfold D, SB. rewrite (sets_bytes_split _ srule_size srule_bytes rules k). now rewrite <- !app_assoc. }
  rewrite HD2.
  pose proof (sets_size_firstn _ srule_size rules k) as Hsz.
  rewrite (rd_sets_ok _ srule_size srule_bytes srule_read srule_ok' srule_len srule_rt).
  - cbn [obind]. rewrite as_table_pairs, Hn. cbn [obind].
    replace (65535 <? _) with false; [reflexivity|].
    pose proof (lenN_firstn_le rules k). fold cnt in H. unfold off in Hov. lia.
  - apply (ssets_ok' _ 65535); [apply forallb_firstn; exact Hr|unfold off in Hov; lia|lia].
  - apply sets_local_of_bound. unfold off in Hov. lia.
  - lens. fold offs. rewrite <- Hcnt. lia.
  - lia.
Qed.

Lemma seq2_refuses_or_fits t cls rules :
  M_seq2_encode t cls rules = Panic \/
  exists b n, M_seq2_encode t cls rules = Ok b /\ M_cov_encode_len t = Ok n /\
              Forall (fun v => v < 65536) (M_seq2_fields n rules).
Proof.
  unfold M_seq2_encode, M_seq2_fields. cbv zeta.
  set (cnt := lenN rules). set (off := 8 + 2 * cnt + sets_size srule_size rules).
  destruct (cov_encode_cases t) as [(cb & n & Hc & Hn)|[Hc Hn]]; rewrite Hn; cbn [obind]; [|left; reflexivity].
  destruct (65535 <? off + n) eqn:Hov; [left; reflexivity|].
  rewrite Hc. cbn [obind].
  destruct (cd_append_cases cls) as [[cd Hd]|Hd]; rewrite Hd; cbn [obind]; [right|left; reflexivity].
  eexists. exists n. split; [reflexivity|]. split; [reflexivity|].
  constructor; [lia|]. constructor; [lia|]. constructor; [unfold off in Hov; lia|].
  apply Forall_app. split.
  { eapply Forall_impl; [|apply set_offs_bound]. cbv beta. intros; unfold off in Hov; lia. }
  apply Forall_app. split.
  - apply oset_fields_fit. apply sets_local_of_bound. unfold off in Hov. lia.
  - apply (rule_fields_fit _ srule_fields (fun r => srule_size r <=? 65535)); [exact srule_fields_fit|].
    apply sets_size_rule_bound. unfold off in Hov. lia.
Qed.

(* bytes are bytes: the hypothesis is the type of the input (needed because
   the reader calls EncodeLen on the coverage table it has read, which panics
   on tables that violate the Table invariant) *)
Lemma seq2_read_safe data pos : bytes_lt data -> safe (M_seq2_read data pos).
Proof.
  intros Hb. unfold M_seq2_read.
  destruct (seek data (pos + 2)) as [|a [|b [|c [|d r]]]]; try apply safe_err.
  apply safe_bind; [apply rd_slice_safe|intros x _].
  apply safe_bind; [apply cov_read_safe|intros cov Hcov].
  apply safe_bind; [apply cd_read_safe|intros cls _].
  apply safe_bind; [apply rd_sets_safe; exact srule_read_safe|intros sets _].
  destruct (cov_encode_len_of_read data _ cov Hb Hcov) as [n Hn]. rewrite Hn. cbn [obind].
  safe_tac.
Qed.
