(* C08C/ModelChain.v — executable models of ChainedSeqContext1, 2, 3
   (opentype/gtab/nested.go) and of Gsub8_1 (reverse chaining single
   substitution, opentype/gtab/gsub.go), and the reader dispatch for the
   contextual lookup types.

   The encoders mirror the code with fixes/C08-context-offset-guards.diff
   applied.  Before the repair ChainedSeqContext1.encode, ChainedSeqContext3
   .encode and Gsub8_1.encode truncated every offset and count silently, and
   ChainedSeqContext2.encode guarded the rule set and rule offsets only (not
   the class definition offsets of the header, not the glyph / record counts
   of the last rule of a set). *)
From Coq Require Import List NArith ZArith Bool Lia.
From Common Require Import Bytes Outcome.
From C08 Require Import Model ModelCD ModelSub.
From C08C Require Import ModelCtx.
Import ListNotations.
Local Open Scope N_scope.

(* ------------------------------------------------------------------ *)
(* ChainedSeqRule / ChainedClassSeqRule {Backtrack; Input; Lookahead;
   Actions}: glyph ids in format 1, classes in format 2, same layout       *)

Record crule := { cr_back : list N; cr_in : list N; cr_look : list N; cr_acts : list action }.

Definition crule_size (r : crule) : N :=
  (2 + 2 * lenN (cr_back r)) + (2 + 2 * lenN (cr_in r)) +
  (2 + 2 * lenN (cr_look r)) + (2 + 4 * lenN (cr_acts r)).

Definition crule_bytes (r : crule) : list N :=
  be16 (lenN (cr_back r)) ++ flat_map be16 (cr_back r) ++
  be16 (lenN (cr_in r) + 1) ++ flat_map be16 (cr_in r) ++
  be16 (lenN (cr_look r)) ++ flat_map be16 (cr_look r) ++
  be16 (lenN (cr_acts r)) ++ acts_bytes (cr_acts r).

(* the count guards of the repaired encoders:
   len(Backtrack) > 0xFFFF || len(Input) >= 0xFFFF || len(Lookahead) > 0xFFFF
   || len(Actions) > 0xFFFF  panics *)
Definition crule_counts_ok (r : crule) : bool :=
  (lenN (cr_back r) <=? 65535) && (lenN (cr_in r) <? 65535) &&
  (lenN (cr_look r) <=? 65535) && (lenN (cr_acts r) <=? 65535).

(* readGIDSlice / ReadUint16Slice; inputGlyphCount is a uint16 and
   make([]glyph.ID, inputGlyphCount-1) is computed in uint16: a count of 0
   asks for 65535 glyphs *)
Definition crule_read (r : list N) : outcome crule :=
  xb <- rd_slice r ;;
  match snd xb with
  | a :: b :: r1 =>
    xi <- rd_u16s (N.to_nat ((w16 a b + 65535) mod 65536)) r1 ;;
    xl <- rd_slice (snd xi) ;;
    match snd xl with
    | c :: d :: r3 =>
      xa <- rd_acts (N.to_nat (w16 c d)) r3 ;;
      Ok {| cr_back := fst xb; cr_in := fst xi; cr_look := fst xl; cr_acts := fst xa |}
    | _ => Err
    end
  | _ => Err
  end.

Definition crule_fields (r : crule) : list N :=
  [lenN (cr_back r); lenN (cr_in r) + 1; lenN (cr_look r); lenN (cr_acts r)].

Definition csets := list (option (list crule)).
Definition csets_counts_ok (rules : csets) : bool := forallb (oset_all crule_counts_ok) rules.
Definition csets_fields (rules : csets) : list N :=
  flat_map (oset_fields crule_size) rules ++
  flat_map (fun o => match o with None => [] | Some s => flat_map crule_fields s end) rules.

(* ------------------------------------------------------------------ *)
(* ChainedSeqContext1 {Cov coverage.Table; Rules [][]*ChainedSeqRule}   *)

Definition M_ch1_len (cov : list (N * Z)) (rules : csets) : outcome N :=
  n <- M_cov_encode_len cov ;;
  Ok (6 + 2 * lenN rules + n + sets_size crule_size rules).

Definition M_ch1_encode (cov : list (N * Z)) (rules : csets) : outcome (list N) :=
  let cnt := lenN rules in
  let covOff := 6 + 2 * cnt in
  n <- M_cov_encode_len cov ;;
  if (65535 <? covOff) || negb (sets_fit crule_size rules (covOff + n)) ||
     negb (csets_counts_ok rules)
  then Panic                                        (* "ChainedSeqContext1 too large" *)
  else
    cb <- M_cov_encode cov ;;
    Ok ([0; 1] ++ be16 covOff ++ be16 cnt ++
        flat_map be16 (set_offs crule_size rules (covOff + n)) ++ cb ++
        sets_bytes crule_size crule_bytes rules).

Definition M_ch1_fields (n : N) (rules : csets) : list N :=
  let cnt := lenN rules in
  (6 + 2 * cnt) :: cnt :: set_offs crule_size rules (6 + 2 * cnt + n) ++ csets_fields rules.

(* readChainedSeqContext1.  The tests "total > 0xFFFF" (per non-nil rule set)
   and "ruleSetSize > 0xFFFF" (per rule) sit inside the parsing loops; every
   other way out of the loops is an error as well, so the model parses first
   and tests afterwards: the same result for every input *)
Definition M_ch1_read (data : list N) (pos : N) : outcome (list (N * N) * csets) :=
  match seek data (pos + 2) with
  | a :: b :: r =>
    x <- rd_slice r ;;
    cov <- M_cov_read data (pos + w16 a b) ;;
    let pr := prune_pair cov (fst x) in
    n <- M_cov_encode_len (as_table (fst pr)) ;;
    sets <- rd_sets crule_read data pos (snd pr) ;;
    if sets_fit crule_size sets (6 + 2 * lenN (snd pr) + n) then Ok (fst pr, sets) else Err
  | _ => Err
  end.

(* ------------------------------------------------------------------ *)
(* ChainedSeqContext2 {Cov; Backtrack, Input, Lookahead classdef.Table;
   Rules [][]*ChainedClassSeqRule}                                       *)

Definition M_ch2_len (cov : list (N * Z)) (cb ci cl : list (N * N)) (rules : csets) : outcome N :=
  n <- M_cov_encode_len cov ;;
  Ok (12 + 2 * lenN rules + n + M_cd_append_len cb + M_cd_append_len ci + M_cd_append_len cl +
      sets_size crule_size rules).

Definition M_ch2_encode (cov : list (N * Z)) (cb ci cl : list (N * N)) (rules : csets)
  : outcome (list N) :=
  let cnt := lenN rules in
  let covOff := 12 + 2 * cnt in
  n <- M_cov_encode_len cov ;;
  let bOff := covOff + n in
  let iOff := bOff + M_cd_append_len cb in
  let lOff := iOff + M_cd_append_len ci in
  let total := lOff + M_cd_append_len cl in
  if (65535 <? lOff) || negb (sets_fit crule_size rules total) || negb (csets_counts_ok rules)
  then Panic                                        (* "ChainedSeqContext2 too large" *)
  else
    cvb <- M_cov_encode cov ;;
    b1 <- M_cd_append cb ;; b2 <- M_cd_append ci ;; b3 <- M_cd_append cl ;;
    Ok ([0; 2] ++ be16 covOff ++ be16 bOff ++ be16 iOff ++ be16 lOff ++ be16 cnt ++
        flat_map be16 (set_offs crule_size rules total) ++ cvb ++ b1 ++ b2 ++ b3 ++
        sets_bytes crule_size crule_bytes rules).

Definition M_ch2_fields (n nb ni nl : N) (rules : csets) : list N :=
  let cnt := lenN rules in
  let covOff := 12 + 2 * cnt in
  covOff :: (covOff + n) :: (covOff + n + nb) :: (covOff + n + nb + ni) :: cnt ::
  set_offs crule_size rules (covOff + n + nb + ni + nl) ++ csets_fields rules.

Definition M_ch2_read (data : list N) (pos : N)
  : outcome (list (N * N) * (list (N * N) * list (N * N) * list (N * N)) * csets) :=
  match seek data (pos + 2) with
  | a0 :: a1 :: b0 :: b1 :: c0 :: c1 :: d0 :: d1 :: r =>
    x <- rd_slice r ;;
    cov <- M_cov_read data (pos + w16 a0 a1) ;;
    cb <- M_cd_read data (pos + w16 b0 b1) ;;
    ci <- M_cd_read data (pos + w16 c0 c1) ;;
    cl <- M_cd_read data (pos + w16 d0 d1) ;;
    let offs := firstn (N.to_nat (cd_num_classes ci)) (fst x) in
    sets <- rd_sets crule_read data pos offs ;;
    n <- M_cov_encode_len (as_table cov) ;;
    if sets_fit crule_size sets
         (12 + 2 * lenN sets + n + M_cd_append_len cb + M_cd_append_len ci + M_cd_append_len cl)
    then Ok (cov, (cb, ci, cl), sets) else Err
  | _ => Err
  end.

(* ------------------------------------------------------------------ *)
(* ChainedSeqContext3 {Backtrack, Input, Lookahead []coverage.Set; Actions} *)

Definition M_ch3_len (bk inp la : list (list N)) (acts : list action) : outcome N :=
  lb <- covs_len (set_tables bk) ;; li <- covs_len (set_tables inp) ;; ll <- covs_len (set_tables la) ;;
  Ok (10 + 2 * lenN bk + 2 * lenN inp + 2 * lenN la + 4 * lenN acts + sumN lb + sumN li + sumN ll).

Definition M_ch3_encode (bk inp la : list (list N)) (acts : list action) : outcome (list N) :=
  let hdr := 10 + 2 * lenN bk + 2 * lenN inp + 2 * lenN la + 4 * lenN acts in
  lb <- covs_len (set_tables bk) ;; li <- covs_len (set_tables inp) ;; ll <- covs_len (set_tables la) ;;
  let t1 := hdr + sumN lb in
  let t2 := t1 + sumN li in
  if negb (cov_offs_fit lb hdr && cov_offs_fit li t1 && cov_offs_fit ll t2) then Panic
  else
    bb <- covs_enc (set_tables bk) ;; bi <- covs_enc (set_tables inp) ;; bl <- covs_enc (set_tables la) ;;
    Ok ([0; 3] ++ be16 (lenN bk) ++ flat_map be16 (cov_offs lb hdr) ++
        be16 (lenN inp) ++ flat_map be16 (cov_offs li t1) ++
        be16 (lenN la) ++ flat_map be16 (cov_offs ll t2) ++
        be16 (lenN acts) ++ acts_bytes acts ++ concat bb ++ concat bi ++ concat bl).

Definition M_ch3_fields (lb li ll : list N) (bk inp la : list (list N)) (acts : list action) : list N :=
  let hdr := 10 + 2 * lenN bk + 2 * lenN inp + 2 * lenN la + 4 * lenN acts in
  lenN bk :: lenN inp :: lenN la :: lenN acts ::
  cov_offs lb hdr ++ cov_offs li (hdr + sumN lb) ++ cov_offs ll (hdr + sumN lb + sumN li).

Definition M_ch3_read (data : list N) (pos : N)
  : outcome (list (list N) * list (list N) * list (list N) * list action) :=
  xb <- rd_slice (seek data (pos + 2)) ;;
  xi <- rd_slice (snd xb) ;;
  xl <- rd_slice (snd xi) ;;
  match fst xi with
  | [] => Err                                      (* "invalid glyph count" *)
  | _ =>
    match snd xl with
    | c :: d :: r =>
      xa <- rd_acts (N.to_nat (w16 c d)) r ;;
      bk <- rd_covsets data pos (fst xb) ;;
      inp <- rd_covsets data pos (fst xi) ;;
      la <- rd_covsets data pos (fst xl) ;;
      Ok (bk, inp, la, fst xa)
    | _ => Err
    end
  end.

(* ------------------------------------------------------------------ *)
(* Gsub8_1 {Input coverage.Table; Backtrack, Lookahead []coverage.Table;
   SubstituteGlyphIDs []glyph.ID}                                        *)

Definition M_gsub81_len (inp : list (N * Z)) (bk la : list (list (N * Z))) (subst : list N) : outcome N :=
  n <- M_cov_encode_len inp ;; lb <- covs_len bk ;; ll <- covs_len la ;;
  Ok (10 + 2 * lenN bk + 2 * lenN la + 2 * lenN subst + n + sumN lb + sumN ll).

Definition M_gsub81_encode (inp : list (N * Z)) (bk la : list (list (N * Z))) (subst : list N)
  : outcome (list N) :=
  let covOff := 10 + 2 * lenN bk + 2 * lenN la + 2 * lenN subst in
  n <- M_cov_encode_len inp ;; lb <- covs_len bk ;; ll <- covs_len la ;;
  let t1 := covOff + n in
  let t2 := t1 + sumN lb in
  if (65535 <? covOff) || negb (cov_offs_fit lb t1 && cov_offs_fit ll t2) then Panic
  else
    cb <- M_cov_encode inp ;; bb <- covs_enc bk ;; bl <- covs_enc la ;;
    Ok ([0; 1] ++ be16 covOff ++ be16 (lenN bk) ++ flat_map be16 (cov_offs lb t1) ++
        be16 (lenN la) ++ flat_map be16 (cov_offs ll t2) ++
        be16 (lenN subst) ++ flat_map be16 subst ++ cb ++ concat bb ++ concat bl).

Definition M_gsub81_fields (n : N) (lb ll : list N) (nb nl ns : N) : list N :=
  let covOff := 10 + 2 * nb + 2 * nl + 2 * ns in
  covOff :: nb :: nl :: ns :: cov_offs lb (covOff + n) ++ cov_offs ll (covOff + n + sumN lb).

Definition M_gsub81_read (data : list N) (pos : N)
  : outcome (list (N * N) * list (list (N * N)) * list (list (N * N)) * list N) :=
  match seek data (pos + 2) with
  | a :: b :: r =>
    xb <- rd_slice r ;;
    xl <- rd_slice (snd xb) ;;
    xs <- rd_slice (snd xl) ;;
    inp <- M_cov_read data (pos + w16 a b) ;;
    bk <- rd_covs data pos (fst xb) ;;
    la <- rd_covs data pos (fst xl) ;;
    let pr := prune_pair inp (fst xs) in
    Ok (fst pr, bk, la, snd pr)
  | _ => Err
  end.

(* ------------------------------------------------------------------ *)
(* readGsubSubtable / readGposSubtable for the contextual lookup types  *)

Inductive ctx_subtable :=
| CSeq1 (cov : list (N * N)) (rules : ssets)
| CSeq2 (cov : list (N * N)) (cls : list (N * N)) (rules : ssets)
| CSeq3 (inp : list (list N)) (acts : list action)
| CCh1 (cov : list (N * N)) (rules : csets)
| CCh2 (cov : list (N * N)) (cb ci cl : list (N * N)) (rules : csets)
| CCh3 (bk inp la : list (list N)) (acts : list action)
| CGsub81 (inp : list (N * N)) (bk la : list (list (N * N))) (subst : list N).

(* kind: 1 = SeqContext (GSUB 5 / GPOS 7), 2 = ChainedSeqContext (GSUB 6 /
   GPOS 8), 3 = GSUB 8.  The format word at [pos] selects the reader; a
   format without a reader is "unknown subtable format" *)
Definition M_ctx_read (kind : N) (data : list N) (pos : N) : outcome ctx_subtable :=
  match seek data pos with
  | a :: b :: _ =>
    let f := w16 a b in
    if kind =? 1 then
      if f =? 1 then x <- M_seq1_read data pos ;; Ok (CSeq1 (fst x) (snd x))
      else if f =? 2 then x <- M_seq2_read data pos ;; Ok (CSeq2 (fst (fst x)) (snd (fst x)) (snd x))
      else if f =? 3 then x <- M_seq3_read data pos ;; Ok (CSeq3 (fst x) (snd x))
      else Err
    else if kind =? 2 then
      if f =? 1 then x <- M_ch1_read data pos ;; Ok (CCh1 (fst x) (snd x))
      else if f =? 2 then
        x <- M_ch2_read data pos ;;
        let '(cov, (cb, ci, cl), rules) := x in Ok (CCh2 cov cb ci cl rules)
      else if f =? 3 then
        x <- M_ch3_read data pos ;;
        let '(bk, inp, la, acts) := x in Ok (CCh3 bk inp la acts)
      else Err
    else if kind =? 3 then
      if f =? 1 then
        x <- M_gsub81_read data pos ;;
        let '(inp, bk, la, subst) := x in Ok (CGsub81 inp bk la subst)
      else Err
    else Err
  | _ => Err
  end.

(* ------------------------------------------------------------------ *)
(* specification side: well-formed values                              *)

Definition crule_ok (r : crule) : bool :=
  u16s_ok (cr_back r) && u16s_ok (cr_in r) && u16s_ok (cr_look r) && acts_ok (cr_acts r).

Definition ch1_wf (gl : list N) (rules : csets) : bool :=
  gset_ok gl && (length rules =? length gl)%nat && forallb (oset_all crule_ok) rules.

(* class tables without explicit class-0 entries (the reader drops them) *)
Definition cd_nz (t : list (N * N)) : bool := cd_ok t && forallb (fun p => negb (snd p =? 0)) t.

Definition ch2_wf (gl : list N) (cb ci cl : list (N * N)) (rules : csets) : bool :=
  gset_ok gl && cd_nz cb && cd_nz ci && cd_nz cl && forallb (oset_all crule_ok) rules.
Definition ch2_norm (gl : list N) (cb ci cl : list (N * N)) (rules : csets) :=
  (S_cov_pairs gl, (cb, ci, cl), firstn (N.to_nat (cd_num_classes ci)) rules).

Definition ch3_wf (bk inp la : list (list N)) (acts : list action) : bool :=
  negb (length inp =? 0)%nat && forallb gset_ok bk && forallb gset_ok inp && forallb gset_ok la &&
  acts_ok acts.

(* Gsub8_1: valid coverage tables, one substitute per input glyph *)
Definition gsub81_wf (gl : list N) (bk la : list (list N)) (subst : list N) : bool :=
  gset_ok gl && forallb gset_ok bk && forallb gset_ok la &&
  (length subst =? length gl)%nat && u16s_ok subst.
