(* C08C/Proofs_only.v — the repaired encoders refuse (panic) a well-formed
   subtable only when one of the values they have to write into a 16-bit
   offset or count field does not fit (or, for the class based formats, when a
   class definition table is unrepresentable: C08 classdef_refuses_only_
   unrepresentable). *)
From Coq Require Import List NArith ZArith Bool Lia FMapPositive.
From Coq Require Import ZifyBool ZifyNat ZifyN.
From Common Require Import Bytes Outcome.
From C08 Require Import Model ModelCD ModelSub Proofs Proofs_cd Proofs_sub.
From C08C Require Import ModelCtx ModelChain Util Proofs_gen Proofs_seq Proofs_cov3 Proofs_chain.
Import ListNotations.
Local Open Scope N_scope.

Definition big (v : N) : Prop := 65535 < v.

Lemma Exists_app_l {A} (P : A -> Prop) l r : Exists P l -> Exists P (l ++ r).
Proof. intros H. apply Exists_app. left. exact H. Qed.
Lemma Exists_app_r {A} (P : A -> Prop) l r : Exists P r -> Exists P (l ++ r).
Proof. intros H. apply Exists_app. right. exact H. Qed.

Section Unfit.
  Variable R : Type.
  Variable r_size : R -> N.

  Lemma rule_offs_unfit rs : forall p,
    rule_offs_fit r_size rs p = false -> Exists big (rule_offs r_size rs p).
  Proof.
    induction rs as [|r t IH]; intros p H; cbn [rule_offs rule_offs_fit] in *; [discriminate|].
    apply andb_false_iff in H as [H|H].
    - apply Exists_cons_hd. unfold big. apply N.leb_gt in H. exact H.
    - apply Exists_cons_tl. apply IH. exact H.
  Qed.

  Lemma sets_unfit ss : forall p,
    sets_fit r_size ss p = false ->
    Exists big (set_offs r_size ss p) \/ Exists big (flat_map (oset_fields r_size) ss).
  Proof.
    induction ss as [|[s|] t IH]; intros p H; cbn [set_offs sets_fit flat_map oset_fields] in *; [discriminate| |].
    - apply andb_false_iff in H as [H|H]; [apply andb_false_iff in H as [H|H]|].
      + left. apply Exists_cons_hd. unfold big. apply N.leb_gt in H. exact H.
      + right. apply Exists_app_l. apply Exists_cons_tl. apply rule_offs_unfit. exact H.
      + destruct (IH _ H) as [E|E]; [left; apply Exists_cons_tl; exact E|right; apply Exists_app_r; exact E].
    - destruct (IH _ H) as [E|E]; [left; apply Exists_cons_tl; exact E|right; exact E].
  Qed.

  Lemma rules_unfit (fields : R -> list N) (P : R -> bool) ss :
    (forall r, P r = false -> Exists big (fields r)) ->
    forallb (oset_all P) ss = false ->
    Exists big (flat_map (fun o => match o with None => [] | Some s => flat_map fields s end) ss).
  Proof.
    intros HP. induction ss as [|[s|] t IH]; cbn [forallb oset_all flat_map]; intros H; [discriminate| |].
    - apply andb_false_iff in H as [H|H]; [apply Exists_app_l|apply Exists_app_r; apply IH; exact H].
      clear IH. induction s as [|r s IHs]; cbn [forallb flat_map] in *; [discriminate|].
      apply andb_false_iff in H as [H|H]; [apply Exists_app_l; apply HP; exact H|apply Exists_app_r; apply IHs; exact H].
    - apply IH. exact H.
  Qed.
End Unfit.

Lemma cov_offs_unfit lens : forall p, cov_offs_fit lens p = false -> Exists big (cov_offs lens p).
Proof.
  induction lens as [|n t IH]; intros p H; cbn [cov_offs cov_offs_fit] in *; [discriminate|].
  apply andb_false_iff in H as [H|H].
  - apply Exists_cons_hd. unfold big. apply N.leb_gt in H. exact H.
  - apply Exists_cons_tl. apply IH. exact H.
Qed.

Lemma crule_counts_bad r : crule_counts_ok r = false -> Exists big (crule_fields r).
Proof.
  unfold crule_counts_ok, crule_fields, big. intros H.
  apply andb_false_iff in H as [H|H]; [apply andb_false_iff in H as [H|H]; [apply andb_false_iff in H as [H|H]|]|].
  - apply Exists_cons_hd. lia.
  - apply Exists_cons_tl, Exists_cons_hd. lia.
  - apply Exists_cons_tl, Exists_cons_tl, Exists_cons_hd. lia.
  - apply Exists_cons_tl, Exists_cons_tl, Exists_cons_tl, Exists_cons_hd. lia.
Qed.

Lemma csets_unfit rules p :
  sets_fit crule_size rules p = false \/ csets_counts_ok rules = false ->
  Exists big (set_offs crule_size rules p) \/ Exists big (csets_fields rules).
Proof.
  unfold csets_fields. intros [H|H].
  - destruct (sets_unfit _ _ _ _ H) as [E|E]; [left; exact E|right; apply Exists_app_l; exact E].
  - right. apply Exists_app_r. apply (rules_unfit _ crule_fields crule_counts_ok); [exact crule_counts_bad|exact H].
Qed.

Lemma gset_valid gl : gset_ok gl = true ->
  exists b n, M_cov_encode (S_cov_table gl) = Ok b /\ M_cov_encode_len (S_cov_table gl) = Ok n.
Proof.
  unfold gset_ok. intros H. apply andb_true_iff in H as [Hs _].
  destruct (cov_encode_valid gl Hs) as [b Hb]. destruct (cov_encode_len_valid gl Hs) as [n Hn]. eauto.
Qed.

Lemma gsets_valid sets : forallb gset_ok sets = true ->
  exists cbs lens, covs_enc (set_tables sets) = Ok cbs /\ covs_len (set_tables sets) = Ok lens.
Proof.
  unfold set_tables. induction sets as [|g r IH]; cbn [forallb map covs_enc covs_len]; intros H.
  - exists [], []. split; reflexivity.
  - apply andb_true_iff in H as [Hg Hr]. destruct (gset_valid g Hg) as (b & n & Hb & Hn).
    destruct (IH Hr) as (cbs & lens & H1 & H2). rewrite Hb, Hn, H1, H2. cbn [obind]. eauto.
Qed.

(* ---- SeqContext1 ---- *)
Lemma seq1_refuses_only gl rules :
  gset_ok gl = true -> M_seq1_encode (S_cov_table gl) rules = Panic ->
  Exists big (M_seq1_fields rules).
Proof.
  intros Hg. destruct (gset_valid gl Hg) as (b & n & Hb & _).
  unfold M_seq1_encode, M_seq1_fields. cbv zeta. rewrite Hb. cbn [obind].
  destruct (65535 <? _) eqn:E; [|discriminate]. intros _.
  apply Exists_cons_hd. unfold big. lia.
Qed.

(* ---- SeqContext2 ---- *)
Lemma seq2_refuses_only gl cls rules :
  gset_ok gl = true -> M_seq2_encode (S_cov_table gl) cls rules = Panic ->
  exists n, M_cov_encode_len (S_cov_table gl) = Ok n /\
            (Exists big (M_seq2_fields n rules) \/ M_cd_append cls = Panic).
Proof.
  intros Hg. destruct (gset_valid gl Hg) as (b & n & Hb & Hn).
  unfold M_seq2_encode, M_seq2_fields. cbv zeta. rewrite Hn. cbn [obind].
  destruct (65535 <? _) eqn:E.
  - intros _. exists n. split; [reflexivity|]. left. apply Exists_cons_tl, Exists_cons_hd. unfold big. lia.
  - rewrite Hb. cbn [obind]. destruct (cd_append_cases cls) as [[cd Hd]|Hd]; rewrite Hd; cbn [obind]; [discriminate|].
    intros _. exists n. split; [reflexivity|]. right. reflexivity.
Qed.

(* ---- SeqContext3 ---- *)
Lemma seq3_refuses_only inp acts :
  forallb gset_ok inp = true -> M_seq3_encode inp acts = Panic ->
  exists lens, covs_len (set_tables inp) = Ok lens /\ Exists big (M_seq3_fields lens inp acts).
Proof.
  intros Hi. destruct (gsets_valid inp Hi) as (cbs & lens & Hc & Hl).
  unfold M_seq3_encode, M_seq3_fields. cbv zeta. rewrite Hl. cbn [obind].
  destruct (cov_offs_fit lens _) eqn:E; cbn [negb]; [rewrite Hc; discriminate|].
  intros _. exists lens. split; [reflexivity|].
  apply Exists_cons_tl, Exists_cons_tl. apply cov_offs_unfit. exact E.
Qed.

(* ---- ChainedSeqContext1 ---- *)
Lemma ch1_refuses_only gl rules :
  gset_ok gl = true -> M_ch1_encode (S_cov_table gl) rules = Panic ->
  exists n, M_cov_encode_len (S_cov_table gl) = Ok n /\ Exists big (M_ch1_fields n rules).
Proof.
  intros Hg. destruct (gset_valid gl Hg) as (b & n & Hb & Hn).
  unfold M_ch1_encode, M_ch1_fields. cbv zeta. rewrite Hn. cbn [obind].
  destruct (65535 <? 6 + 2 * lenN rules) eqn:E1; cbn [orb].
  { intros _. exists n. split; [reflexivity|]. apply Exists_cons_hd. unfold big. lia. }
  destruct (sets_fit crule_size rules (6 + 2 * lenN rules + n)) eqn:E2; cbn [negb orb];
  [destruct (csets_counts_ok rules) eqn:E3; cbn [negb]; [rewrite Hb; discriminate|]|];
  intros _; exists n; (split; [reflexivity|]); apply Exists_cons_tl, Exists_cons_tl, Exists_app.
  - apply (csets_unfit rules (6 + 2 * lenN rules + n)). right. exact E3.
  - apply (csets_unfit rules (6 + 2 * lenN rules + n)). left. exact E2.
Qed.

(* ---- ChainedSeqContext2 ---- *)
Lemma ch2_refuses_only gl cb ci cl rules :
  gset_ok gl = true -> M_ch2_encode (S_cov_table gl) cb ci cl rules = Panic ->
  exists n, M_cov_encode_len (S_cov_table gl) = Ok n /\
    (Exists big (M_ch2_fields n (M_cd_append_len cb) (M_cd_append_len ci) (M_cd_append_len cl) rules) \/
     M_cd_append cb = Panic \/ M_cd_append ci = Panic \/ M_cd_append cl = Panic).
Proof.
  intros Hg. destruct (gset_valid gl Hg) as (b & n & Hb & Hn).
  unfold M_ch2_encode, M_ch2_fields. cbv zeta. rewrite Hn. cbn [obind].
  set (l1 := M_cd_append_len cb). set (l2 := M_cd_append_len ci). set (l3 := M_cd_append_len cl).
  set (off := 12 + 2 * lenN rules).
  destruct (65535 <? off + n + l1 + l2) eqn:E1; cbn [orb].
  { intros _. exists n. split; [reflexivity|]. left.
    apply Exists_cons_tl, Exists_cons_tl, Exists_cons_tl, Exists_cons_hd. unfold big. lia. }
  destruct (sets_fit crule_size rules (off + n + l1 + l2 + l3)) eqn:E2; cbn [negb orb].
  2:{ intros _. exists n. split; [reflexivity|]. left. do 5 apply Exists_cons_tl. apply Exists_app.
      apply (csets_unfit rules (off + n + l1 + l2 + l3)). left. exact E2. }
  destruct (csets_counts_ok rules) eqn:E3; cbn [negb].
  2:{ intros _. exists n. split; [reflexivity|]. left. do 5 apply Exists_cons_tl. apply Exists_app.
      apply (csets_unfit rules (off + n + l1 + l2 + l3)). right. exact E3. }
  rewrite Hb. cbn [obind]. intros H. exists n. split; [reflexivity|]. right.
  destruct (cd_append_cases cb) as [[b1 H1]|H1]; [|left; exact H1]. rewrite H1 in H. cbn [obind] in H.
  destruct (cd_append_cases ci) as [[b2 H2]|H2]; [|right; left; exact H2]. rewrite H2 in H. cbn [obind] in H.
  destruct (cd_append_cases cl) as [[b3 H3]|H3]; [|right; right; exact H3]. rewrite H3 in H. discriminate.
Qed.

(* ---- ChainedSeqContext3 ---- *)
Lemma ch3_refuses_only bk inp la acts :
  forallb gset_ok bk = true -> forallb gset_ok inp = true -> forallb gset_ok la = true ->
  M_ch3_encode bk inp la acts = Panic ->
  exists lb li ll, covs_len (set_tables bk) = Ok lb /\ covs_len (set_tables inp) = Ok li /\
    covs_len (set_tables la) = Ok ll /\ Exists big (M_ch3_fields lb li ll bk inp la acts).
Proof.
  intros Hb Hi Hl.
  destruct (gsets_valid bk Hb) as (bb & lb & Cb & Lb). destruct (gsets_valid inp Hi) as (bi & li & Ci & Li).
  destruct (gsets_valid la Hl) as (bl & ll & Cl & Ll).
  unfold M_ch3_encode, M_ch3_fields. cbv zeta. rewrite Lb, Li, Ll. cbn [obind].
  set (hdr := 10 + 2 * lenN bk + 2 * lenN inp + 2 * lenN la + 4 * lenN acts).
  destruct (cov_offs_fit lb hdr) eqn:F1; cbn [andb negb].
  2:{ intros _. exists lb, li, ll. repeat (split; [reflexivity|]). do 4 apply Exists_cons_tl.
      apply Exists_app_l. apply cov_offs_unfit. exact F1. }
  destruct (cov_offs_fit li (hdr + sumN lb)) eqn:F2; cbn [andb negb].
  2:{ intros _. exists lb, li, ll. repeat (split; [reflexivity|]). do 4 apply Exists_cons_tl.
      apply Exists_app_r, Exists_app_l. apply cov_offs_unfit. exact F2. }
  destruct (cov_offs_fit ll (hdr + sumN lb + sumN li)) eqn:F3; cbn [andb negb].
  2:{ intros _. exists lb, li, ll. repeat (split; [reflexivity|]). do 4 apply Exists_cons_tl.
      apply Exists_app_r, Exists_app_r. apply cov_offs_unfit. exact F3. }
  rewrite Cb, Ci, Cl. discriminate.
Qed.

(* ---- Gsub8_1 ---- *)
Lemma gsub81_refuses_only gl bks las subst :
  gset_ok gl = true -> forallb gset_ok bks = true -> forallb gset_ok las = true ->
  M_gsub81_encode (S_cov_table gl) (map S_cov_table bks) (map S_cov_table las) subst = Panic ->
  exists n lb ll, M_cov_encode_len (S_cov_table gl) = Ok n /\
    covs_len (map S_cov_table bks) = Ok lb /\ covs_len (map S_cov_table las) = Ok ll /\
    Exists big (M_gsub81_fields n lb ll (lenN bks) (lenN las) (lenN subst)).
Proof.
  intros Hg Hb Hl. destruct (gset_valid gl Hg) as (b & n & Cv & Ln).
  destruct (gsets_valid bks Hb) as (bb & lb & Cb & Lb). destruct (gsets_valid las Hl) as (bl & ll & Cl & Ll).
  unfold set_tables in *.
  unfold M_gsub81_encode, M_gsub81_fields. cbv zeta. rewrite Ln, Lb, Ll. cbn [obind]. rewrite !lenN_map.
  set (covOff := 10 + 2 * lenN bks + 2 * lenN las + 2 * lenN subst).
  destruct (65535 <? covOff) eqn:E1; cbn [orb].
  { intros _. exists n, lb, ll. repeat (split; [reflexivity|]). apply Exists_cons_hd. unfold big. lia. }
  destruct (cov_offs_fit lb (covOff + n)) eqn:F1; cbn [andb negb].
  2:{ intros _. exists n, lb, ll. repeat (split; [reflexivity|]). do 4 apply Exists_cons_tl.
      apply Exists_app_l. apply cov_offs_unfit. exact F1. }
  destruct (cov_offs_fit ll (covOff + n + sumN lb)) eqn:F2; cbn [andb negb].
  2:{ intros _. exists n, lb, ll. repeat (split; [reflexivity|]). do 4 apply Exists_cons_tl.
      apply Exists_app_r. apply cov_offs_unfit. exact F2. }
  rewrite Cv, Cb, Cl. discriminate.
Qed.
