(* C08C/Proofs_gen.v — the two-level offset arrays (rule sets -> rules),
   generic in the rule type: sizes, offsets that fit, reading back what was
   written, totality of the readers. *)
From Coq Require Import List NArith ZArith Bool Lia.
From Coq Require Import ZifyBool ZifyNat ZifyN.
From Common Require Import Bytes Outcome.
From C08 Require Import Model ModelCD ModelSub Proofs Proofs_sub.
From C08C Require Import ModelCtx Util.
Import ListNotations.
Local Open Scope N_scope.
Ltac Zify.zify_post_hook ::= Z.div_mod_to_equations.

Section Gen0.
  Variable R : Type.
  Variable r_size : R -> N.

  (* the rule offsets (and the rule count) of every non-nil set fit *)
  Fixpoint sets_local_fit (ss : list (option (list R))) : bool :=
    match ss with
    | [] => true
    | None :: t => sets_local_fit t
    | Some s :: t => rule_offs_fit r_size s (2 + 2 * lenN s) && sets_local_fit t
    end.

  Lemma rule_offs_length rs : forall p, length (rule_offs r_size rs p) = length rs.
  Proof. induction rs as [|r t IH]; intros p; cbn [rule_offs length]; [reflexivity|]. now rewrite IH. Qed.

  Lemma set_offs_length ss : forall p, length (set_offs r_size ss p) = length ss.
  Proof.
    induction ss as [|[s|] t IH]; intros p; cbn [set_offs length]; [reflexivity| |]; now rewrite IH.
  Qed.

  Lemma rule_offs_fit_Forall rs : forall p,
    rule_offs_fit r_size rs p = true -> Forall (fun o => o < 65536) (rule_offs r_size rs p).
  Proof.
    induction rs as [|r t IH]; intros p H; cbn [rule_offs rule_offs_fit] in *; [constructor|].
    apply andb_true_iff in H as [H1 H2]. constructor.
    - cbv beta. lia.
    - apply IH. exact H2.
  Qed.

  Lemma rule_offs_fit_of_bound rs : forall p,
    p + rules_size r_size rs <= 65535 -> rule_offs_fit r_size rs p = true.
  Proof.
    induction rs as [|r t IH]; intros p H; cbn [rule_offs_fit rules_size] in *; [reflexivity|].
    rewrite IH by lia. lia.
  Qed.

  Lemma set_count_fit s : rule_offs_fit r_size s (2 + 2 * lenN s) = true -> lenN s < 65536.
  Proof.
    destruct s as [|r t]; [intros _; unfold lenN; cbn [length]; lia|].
    cbn [rule_offs_fit]. intros H. lia.
  Qed.

  Lemma set_offs_bound ss : forall p,
    Forall (fun o => o <= p + sets_size r_size ss) (set_offs r_size ss p).
  Proof.
    induction ss as [|[s|] t IH]; intros p; cbn [set_offs sets_size]; constructor; cbv beta; try lia.
    - eapply Forall_impl; [|apply IH]. cbv beta. intros; lia.
    - apply IH.
  Qed.

  Lemma sets_fit_Forall ss : forall p,
    sets_fit r_size ss p = true -> Forall (fun o => o < 65536) (set_offs r_size ss p).
  Proof.
    induction ss as [|[s|] t IH]; intros p H; cbn [set_offs sets_fit] in *; [constructor| |].
    - apply andb_true_iff in H as [H H3]. apply andb_true_iff in H as [H1 H2].
      constructor; [cbv beta; lia|]. apply IH. exact H3.
    - constructor; [cbv beta; lia|]. apply IH. exact H.
  Qed.

  Lemma sets_fit_local ss : forall p, sets_fit r_size ss p = true -> sets_local_fit ss = true.
  Proof.
    induction ss as [|[s|] t IH]; intros p H; cbn [sets_fit sets_local_fit] in *; [reflexivity| |].
    - apply andb_true_iff in H as [H H3]. apply andb_true_iff in H as [H1 H2].
      rewrite H2. cbn [andb]. eapply IH. exact H3.
    - eapply IH. exact H.
  Qed.

  Lemma sets_local_of_bound ss : sets_size r_size ss <= 65535 -> sets_local_fit ss = true.
  Proof.
    induction ss as [|[s|] t IH]; intros H; cbn [sets_size sets_local_fit] in *; [reflexivity| |].
    - unfold set_size in H. rewrite rule_offs_fit_of_bound by lia. apply IH. lia.
    - apply IH. exact H.
  Qed.

  Lemma set_offs_firstn ss : forall k p,
    set_offs r_size (firstn k ss) p = firstn k (set_offs r_size ss p).
  Proof.
    induction ss as [|[s|] t IH]; intros k p; destruct k as [|k]; cbn [firstn set_offs]; try reflexivity;
      now rewrite IH.
  Qed.

  Lemma sets_bytes_split (r_bytes : R -> list N) ss k :
    sets_bytes r_size r_bytes ss =
    sets_bytes r_size r_bytes (firstn k ss) ++ sets_bytes r_size r_bytes (skipn k ss).
  Proof. unfold sets_bytes. rewrite <- flat_map_app, firstn_skipn. reflexivity. Qed.

  Lemma sets_size_firstn ss : forall k, sets_size r_size (firstn k ss) <= sets_size r_size ss.
  Proof.
    induction ss as [|[s|] t IH]; intros k; destruct k as [|k]; cbn [firstn sets_size]; try lia.
    - specialize (IH k). lia.
    - apply IH.
  Qed.

  Lemma sets_fit_firstn ss : forall k p,
    sets_fit r_size ss p = true -> sets_fit r_size (firstn k ss) p = true.
  Proof.
    induction ss as [|[s|] t IH]; intros k p H; destruct k as [|k]; cbn [firstn sets_fit] in *; try reflexivity.
    - apply andb_true_iff in H as [H H3]. rewrite H. cbn [andb]. apply IH. exact H3.
    - apply IH. exact H.
  Qed.

  Lemma forallb_firstn {A} (f : A -> bool) l : forall k, forallb f l = true -> forallb f (firstn k l) = true.
  Proof.
    induction l as [|a t IH]; intros k H; destruct k as [|k]; cbn [firstn forallb] in *; try reflexivity.
    apply andb_true_iff in H as [H1 H2]. rewrite H1. apply IH. exact H2.
  Qed.

  Lemma oset_fields_fit ss :
    sets_local_fit ss = true -> Forall (fun v => v < 65536) (flat_map (oset_fields r_size) ss).
  Proof.
    induction ss as [|[s|] t IH]; intros H; cbn [flat_map oset_fields sets_local_fit] in *.
    - constructor.
    - apply andb_true_iff in H as [H1 H2]. apply Forall_app. split; [|apply IH; exact H2].
      constructor; [apply set_count_fit; exact H1|apply rule_offs_fit_Forall; exact H1].
    - apply IH. exact H.
  Qed.

  Lemma forallb_oset_and (f g : R -> bool) ss :
    forallb (oset_all f) ss = true -> forallb (oset_all g) ss = true ->
    forallb (oset_all (fun r => f r && g r)) ss = true.
  Proof.
    induction ss as [|[s|] t IH]; cbn [forallb oset_all]; intros Hf Hg; [reflexivity| |].
    - apply andb_true_iff in Hf as [Hf1 Hf2]. apply andb_true_iff in Hg as [Hg1 Hg2].
      rewrite (IH Hf2 Hg2), andb_true_r.
      rewrite forallb_forall in *. intros r Hr. now rewrite (Hf1 r Hr), (Hg1 r Hr).
    - apply IH; assumption.
  Qed.

  Lemma rules_size_bound rs B :
    rules_size r_size rs <= B -> forallb (fun r => r_size r <=? B) rs = true.
  Proof.
    induction rs as [|r t IH]; cbn [rules_size forallb]; intros H; [reflexivity|].
    rewrite IH by lia. lia.
  Qed.

  Lemma sets_size_rule_bound ss B :
    sets_size r_size ss <= B -> forallb (oset_all (fun r => r_size r <=? B)) ss = true.
  Proof.
    induction ss as [|[s|] t IH]; cbn [sets_size forallb oset_all]; intros H; [reflexivity| |].
    - unfold set_size in H. rewrite rules_size_bound by lia. apply IH. lia.
    - apply IH. exact H.
  Qed.

  Lemma rule_fields_fit (fields : R -> list N) (P : R -> bool) ss :
    (forall r, P r = true -> Forall (fun v => v < 65536) (fields r)) ->
    forallb (oset_all P) ss = true ->
    Forall (fun v => v < 65536)
      (flat_map (fun o => match o with None => [] | Some s => flat_map fields s end) ss).
  Proof.
    intros HP. induction ss as [|[s|] t IH]; cbn [forallb oset_all flat_map]; intros H.
    - constructor.
    - apply andb_true_iff in H as [H1 H2]. apply Forall_app. split; [|apply IH; exact H2].
      clear IH H2. induction s as [|r s IHs]; cbn [flat_map forallb] in *; [constructor|].
      apply andb_true_iff in H1 as [Hr Hs]. apply Forall_app. split; [apply HP; exact Hr|apply IHs; exact Hs].
    - apply IH. exact H.
  Qed.

  Lemma sets_fit_mono ss : forall p q,
    q <= p -> sets_fit r_size ss p = true -> sets_fit r_size ss q = true.
  Proof.
    induction ss as [|[s|] t IH]; intros p q Hq H; cbn [sets_fit] in *; [reflexivity| |].
    - apply andb_true_iff in H as [H H3]. apply andb_true_iff in H as [H1 H2].
      rewrite H2, (IH (p + set_size r_size s) (q + set_size r_size s)) by (try lia; exact H3).
      rewrite !andb_true_r. lia.
    - eapply IH; eassumption.
  Qed.

End Gen0.
Arguments sets_local_fit {R}.

Section GenLen.
  Variable R : Type.
  Variable r_size : R -> N.
  Variable r_bytes : R -> list N.
  Hypothesis r_len : forall r, lenN (r_bytes r) = r_size r.

  Lemma rules_lenN rs : lenN (flat_map r_bytes rs) = rules_size r_size rs.
  Proof.
    induction rs as [|r t IH]; cbn [flat_map rules_size]; [reflexivity|].
    now rewrite lenN_app, IH, r_len.
  Qed.

  Lemma set_bytes_lenN s : lenN (set_bytes r_size r_bytes s) = set_size r_size s.
  Proof.
    unfold set_bytes, set_size. lens. rewrite rules_lenN.
    unfold lenN at 1. rewrite rule_offs_length. fold (lenN s). lia.
  Qed.

  Lemma sets_lenN ss : lenN (sets_bytes r_size r_bytes ss) = sets_size r_size ss.
  Proof.
    unfold sets_bytes.
    induction ss as [|[s|] t IH]; cbn [flat_map sets_size oset_bytes]; [reflexivity| |].
    - now rewrite lenN_app, IH, set_bytes_lenN.
    - exact IH.
  Qed.

End GenLen.

Section GenRt.
  Variable R : Type.
  Variable r_size : R -> N.
  Variable r_bytes : R -> list N.
  Variable r_read : list N -> outcome R.
  Variable r_ok : R -> bool.
  Hypothesis r_len : forall r, lenN (r_bytes r) = r_size r.
  Hypothesis r_rt : forall r tail, r_ok r = true -> r_read (r_bytes r ++ tail) = Ok r.

  Lemma rd_rules_ok base tail rs : forall A off,
    forallb r_ok rs = true -> lenN A = base + off ->
    rd_rules r_read (A ++ flat_map r_bytes rs ++ tail) base (rule_offs r_size rs off) = Ok rs.
  Proof.
    induction rs as [|r t IH]; intros A off Hok HA; cbn [rule_offs rd_rules flat_map]; [reflexivity|].
    cbn [forallb] in Hok. apply andb_true_iff in Hok as [Hr Hok].
    rewrite <- HA. unfold lenN at 1. rewrite <- app_assoc, seek_app.
    rewrite (r_rt r _ Hr). cbn [obind].
    specialize (IH (A ++ r_bytes r) (off + r_size r) Hok).
    rewrite <- app_assoc in IH. rewrite IH; [reflexivity|].
    rewrite lenN_app, HA, r_len. lia.
  Qed.

  Lemma rd_sets_ok pos tail ss : forall A off,
    forallb (oset_all r_ok) ss = true -> sets_local_fit r_size ss = true ->
    lenN A = pos + off -> 0 < off ->
    rd_sets r_read (A ++ sets_bytes r_size r_bytes ss ++ tail) pos (set_offs r_size ss off) = Ok ss.
  Proof.
    unfold sets_bytes.
    induction ss as [|[s|] t IH]; intros A off Hok Hfit HA Hoff;
      cbn [set_offs rd_sets flat_map oset_bytes forallb sets_local_fit oset_all] in *; [reflexivity| |].
    - apply andb_true_iff in Hok as [Hs Hok]. apply andb_true_iff in Hfit as [Hf Hfit].
      replace (off =? 0) with false by lia.
      rewrite <- HA. unfold lenN at 1. rewrite <- app_assoc, seek_app.
      unfold set_bytes at 1. rewrite <- !app_assoc.
      assert (Hlo : lenN s = lenN (rule_offs r_size s (2 + 2 * lenN s)))
        by (unfold lenN; now rewrite rule_offs_length).
      rewrite Hlo at 1.
      rewrite rd_slice_flat;
        [|apply rule_offs_fit_Forall; exact Hf|rewrite <- Hlo; apply (set_count_fit R r_size); exact Hf].
      cbn [obind fst].
      pose proof (rd_rules_ok (lenN A) (flat_map (oset_bytes r_size r_bytes) t ++ tail) s
                    (A ++ be16 (lenN s) ++ flat_map be16 (rule_offs r_size s (2 + 2 * lenN s)))
                    (2 + 2 * lenN s) Hs) as Hl.
      rewrite <- !app_assoc in Hl.
      unfold set_bytes at 1. rewrite <- !app_assoc.
      rewrite Hl by (lens; rewrite <- Hlo; lia).
      cbn [obind].
      specialize (IH (A ++ set_bytes r_size r_bytes s) (off + set_size r_size s) Hok Hfit).
      rewrite <- app_assoc in IH.
      rewrite IH; [reflexivity| |lia].
      rewrite lenN_app, (set_bytes_lenN R r_size r_bytes r_len). lia.
    - change (0 =? 0) with true. cbv iota. cbn [app].
      rewrite (IH A off Hok Hfit HA Hoff). reflexivity.
  Qed.

End GenRt.

Section GenSafe.
  Variable R : Type.
  Variable r_read : list N -> outcome R.
  Hypothesis r_safe : forall l, safe (r_read l).

  Lemma rd_rules_safe data base offs : safe (rd_rules r_read data base offs).
  Proof.
    induction offs as [|o t IH]; cbn [rd_rules]; [apply safe_ok|]. safe_tac. apply r_safe.
  Qed.

  Lemma rd_sets_safe data pos offs : safe (rd_sets r_read data pos offs).
  Proof.
    induction offs as [|o t IH]; cbn [rd_sets]; [apply safe_ok|].
    safe_tac; [apply rd_slice_safe|apply rd_rules_safe].
  Qed.

End GenSafe.
