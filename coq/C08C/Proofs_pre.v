(* C08C/Proofs_pre.v — the unrepaired encoders (ModelPre.v) write corrupt
   subtables: concrete well-formed witnesses, evaluated. *)
From Coq Require Import List NArith ZArith Bool Lia.
From Common Require Import Bytes Outcome.
From C08 Require Import Model ModelCD ModelSub.
From C08C Require Import ModelCtx ModelChain ModelPre.
Import ListNotations.
Local Open Scope N_scope.

Lemma w_seq1 :
  seq1_wf w_seq1_gl w_seq1_rules = true /\
  M_seq1_encode (S_cov_table w_seq1_gl) w_seq1_rules = Panic /\
  match M_seq1_encode_pre (S_cov_table w_seq1_gl) w_seq1_rules with
  | Ok b => lenN b = 66036 /\ M_seq1_read b 0 = Err
  | _ => False
  end.
Proof. vm_compute. repeat split; reflexivity. Qed.

Lemma w_seq3 :
  seq3_wf w_seq3_inp w_seq3_acts = true /\
  M_seq3_encode w_seq3_inp w_seq3_acts = Panic /\
  match M_seq3_encode_pre w_seq3_inp w_seq3_acts with
  | Ok b => lenN b = 65622 /\ M_seq3_read b 0 = Err
  | _ => False
  end.
Proof. vm_compute. repeat split; reflexivity. Qed.

Lemma w_ch1 :
  ch1_wf w_ch1_gl w_ch1_rules = true /\
  M_ch1_encode (S_cov_table w_ch1_gl) w_ch1_rules = Panic /\
  match M_ch1_encode_pre (S_cov_table w_ch1_gl) w_ch1_rules with
  | Ok b => lenN b = 66044 /\ M_ch1_read b 0 = Err
  | _ => False
  end.
Proof. vm_compute. repeat split; reflexivity. Qed.

Lemma w_ch2 :
  ch2_wf w_ch2_gl [] w_ch2_ci [] w_ch2_rules = true /\
  M_ch2_encode (S_cov_table w_ch2_gl) [] w_ch2_ci [] w_ch2_rules = Panic /\
  match M_ch2_encode_pre (S_cov_table w_ch2_gl) [] w_ch2_ci [] w_ch2_rules with
  | Ok b => lenN b = 131122 /\ M_ch2_read b 0 = Err
  | _ => False
  end.
Proof. vm_compute. repeat split; reflexivity. Qed.

Lemma w_ch3 :
  ch3_wf w_ch3_bk w_ch3_inp [] w_ch3_acts = true /\
  M_ch3_encode w_ch3_bk w_ch3_inp [] w_ch3_acts = Panic /\
  match M_ch3_encode_pre w_ch3_bk w_ch3_inp [] w_ch3_acts with
  | Ok b => lenN b = 65634 /\ M_ch3_read b 0 = Err
  | _ => False
  end.
Proof. vm_compute. repeat split; reflexivity. Qed.

Lemma w_gsub81 :
  gsub81_wf w_gsub81_gl [] [] w_gsub81_subst = true /\
  M_gsub81_encode (S_cov_table w_gsub81_gl) [] [] w_gsub81_subst = Panic /\
  match M_gsub81_encode_pre (S_cov_table w_gsub81_gl) [] [] w_gsub81_subst with
  | Ok b => lenN b = 65556 /\ M_gsub81_read b 0 = Err
  | _ => False
  end.
Proof. vm_compute. repeat split; reflexivity. Qed.

(* ---- the statements for Props.v ---- *)
Ltac from_witness W :=
  cbn [map];
  destruct W as (Hwf & Hp & H);
  match type of H with match ?e with _ => _ end =>
    destruct e as [b| | |]; try (exfalso; exact H); exists b; destruct H as [_ Hr];
    split; [exact Hwf|]; split; [exact Hp|]; split; [reflexivity|]; rewrite Hr; discriminate
  end.

Lemma seq1_unguarded_refuted_l :
  exists gl rules b, seq1_wf gl rules = true /\
    M_seq1_encode (S_cov_table gl) rules = Panic /\
    M_seq1_encode_pre (S_cov_table gl) rules = Ok b /\
    M_seq1_read b 0 <> Ok (S_cov_pairs gl, rules).
Proof. exists w_seq1_gl, w_seq1_rules. from_witness w_seq1. Qed.

Lemma seq3_unguarded_refuted_l :
  exists inp acts b, seq3_wf inp acts = true /\
    M_seq3_encode inp acts = Panic /\
    M_seq3_encode_pre inp acts = Ok b /\
    M_seq3_read b 0 <> Ok (inp, acts).
Proof. exists w_seq3_inp, w_seq3_acts. from_witness w_seq3. Qed.

Lemma ch1_unguarded_refuted_l :
  exists gl rules b, ch1_wf gl rules = true /\
    M_ch1_encode (S_cov_table gl) rules = Panic /\
    M_ch1_encode_pre (S_cov_table gl) rules = Ok b /\
    M_ch1_read b 0 <> Ok (S_cov_pairs gl, rules).
Proof. exists w_ch1_gl, w_ch1_rules. from_witness w_ch1. Qed.

Lemma ch2_unguarded_refuted_l :
  exists gl cb ci cl rules b, ch2_wf gl cb ci cl rules = true /\
    M_ch2_encode (S_cov_table gl) cb ci cl rules = Panic /\
    M_ch2_encode_pre (S_cov_table gl) cb ci cl rules = Ok b /\
    M_ch2_read b 0 <> Ok (ch2_norm gl cb ci cl rules).
Proof. exists w_ch2_gl, [], w_ch2_ci, [], w_ch2_rules. from_witness w_ch2. Qed.

Lemma ch3_unguarded_refuted_l :
  exists bk inp la acts b, ch3_wf bk inp la acts = true /\
    M_ch3_encode bk inp la acts = Panic /\
    M_ch3_encode_pre bk inp la acts = Ok b /\
    M_ch3_read b 0 <> Ok (bk, inp, la, acts).
Proof. exists w_ch3_bk, w_ch3_inp, [], w_ch3_acts. from_witness w_ch3. Qed.

Lemma gsub81_unguarded_refuted_l :
  exists gl bks las subst b, gsub81_wf gl bks las subst = true /\
    M_gsub81_encode (S_cov_table gl) (map S_cov_table bks) (map S_cov_table las) subst = Panic /\
    M_gsub81_encode_pre (S_cov_table gl) (map S_cov_table bks) (map S_cov_table las) subst = Ok b /\
    M_gsub81_read b 0 <> Ok (S_cov_pairs gl, map S_cov_pairs bks, map S_cov_pairs las, subst).
Proof. exists w_gsub81_gl, [], [], w_gsub81_subst. from_witness w_gsub81. Qed.
