(* C08C/Util.v — helper lemmas: outcomes that are neither Panic nor OutOfFuel
   ("safe"), totality of the shared readers of C08 (coverage, coverage sets,
   class definitions: C08 proves "<> Panic", here also "<> OutOfFuel"), small
   list facts. *)
From Coq Require Import List NArith ZArith Bool Lia.
From Coq Require Import ZifyBool ZifyNat ZifyN.
From Common Require Import Bytes Outcome.
From C08 Require Import Model ModelCD ModelSub Proofs Proofs_cd Proofs_sub.
From C08C Require Import ModelCtx.
Import ListNotations.
Local Open Scope N_scope.
Ltac Zify.zify_post_hook ::= Z.div_mod_to_equations.

Definition safe {A} (o : outcome A) : Prop := o <> Panic /\ o <> OutOfFuel.

Lemma safe_ok {A} (a : A) : safe (Ok a).
Proof. split; discriminate. Qed.
Lemma safe_err {A} : safe (@Err A).
Proof. split; discriminate. Qed.
Lemma safe_bind {A B} (x : outcome A) (f : A -> outcome B) :
  safe x -> (forall a, x = Ok a -> safe (f a)) -> safe (obind x f).
Proof.
  intros [H1 H2] H. destruct x; cbn [obind]; try congruence; [apply H; reflexivity|apply safe_err].
Qed.
Lemma safe_if {A} (c : bool) (x y : outcome A) : safe x -> safe y -> safe (if c then x else y).
Proof. destruct c; auto. Qed.

Ltac safe_tac :=
  repeat first
    [ apply safe_ok | apply safe_err | assumption
    | apply safe_if
    | apply safe_bind; [|intros ? ?] ].

(* ---- the byte readers of C08/ModelSub ---- *)
Lemma rd_u16s_safe n : forall r, safe (rd_u16s n r).
Proof.
  induction n as [|n IH]; intros r; cbn [rd_u16s]; [apply safe_ok|].
  destruct r as [|a [|b r']]; try apply safe_err. safe_tac. apply IH.
Qed.
Lemma rd_slice_safe r : safe (rd_slice r).
Proof. unfold rd_slice. destruct r as [|a [|b r']]; try apply safe_err. apply rd_u16s_safe. Qed.
Lemma rd_acts_safe n : forall r, safe (rd_acts n r).
Proof.
  induction n as [|n IH]; intros r; cbn [rd_acts]; [apply safe_ok|].
  destruct r as [|a [|b [|c [|d r']]]]; try apply safe_err. safe_tac. apply IH.
Qed.

(* ---- coverage.Read, coverage.ReadSet, classdef.Read ---- *)
Lemma cov_read1_safe cnt : forall r i prev, safe (cov_read1 cnt r i prev).
Proof.
  induction cnt as [|c IH]; intros r i prev; cbn [cov_read1]; [apply safe_ok|].
  destruct r as [|a [|b r']]; try apply safe_err. safe_tac. apply IH.
Qed.
Lemma cov_read2_safe cnt : forall r pos prev, safe (cov_read2 cnt r pos prev).
Proof.
  induction cnt as [|c IH]; intros r pos prev; cbn [cov_read2]; [apply safe_ok|].
  destruct r as [|a [|b [|c0 [|d [|e [|f r']]]]]]; try apply safe_err. safe_tac. apply IH.
Qed.
Lemma cov_read_safe data pos : safe (M_cov_read data pos).
Proof.
  unfold M_cov_read. destruct (seek data pos) as [|a [|b [|c [|d r]]]]; try apply safe_err.
  safe_tac; [apply cov_read1_safe|apply cov_read2_safe].
Qed.

Lemma covset_read1_safe cnt : forall r acc, safe (covset_read1 cnt r acc).
Proof.
  induction cnt as [|c IH]; intros r acc; cbn [covset_read1]; [apply safe_ok|].
  destruct r as [|a [|b r']]; try apply safe_err. apply IH.
Qed.
Lemma covset_read2_safe cnt : forall r pos prev acc, safe (covset_read2 cnt r pos prev acc).
Proof.
  induction cnt as [|c IH]; intros r pos prev acc; cbn [covset_read2]; [apply safe_ok|].
  destruct r as [|a [|b [|c0 [|d [|e [|f r']]]]]]; try apply safe_err. safe_tac. apply IH.
Qed.
Lemma covset_read_safe data pos : safe (M_covset_read data pos).
Proof.
  unfold M_covset_read. destruct (seek data pos) as [|a [|b [|c [|d r]]]]; try apply safe_err.
  safe_tac; [apply covset_read1_safe|apply covset_read2_safe].
Qed.

Lemma cd_read1_safe cnt : forall r g, safe (cd_read1 cnt r g).
Proof.
  induction cnt as [|c IH]; intros r g; cbn [cd_read1]; [apply safe_ok|].
  destruct r as [|a [|b r']]; try apply safe_err. safe_tac. apply IH.
Qed.
Lemma cd_read2_safe cnt : forall r first prevEnd acc, safe (cd_read2 cnt r first prevEnd acc).
Proof.
  induction cnt as [|c IH]; intros r first prevEnd acc; cbn [cd_read2]; [apply safe_ok|].
  destruct r as [|a [|b [|c0 [|d [|e [|f r']]]]]]; try apply safe_err. safe_tac. apply IH.
Qed.
Lemma cd_read_safe data pos : safe (M_cd_read data pos).
Proof.
  unfold M_cd_read. destruct (seek data pos) as [|a [|b r]]; try apply safe_err.
  safe_tac.
  - destruct r as [|c [|d [|e [|f r']]]]; try apply safe_err. safe_tac. apply cd_read1_safe.
  - destruct r as [|c [|d r']]; try apply safe_err. apply cd_read2_safe.
Qed.

Lemma rd_covsets_safe data pos offs : safe (rd_covsets data pos offs).
Proof.
  induction offs as [|o t IH]; cbn [rd_covsets]; [apply safe_ok|].
  safe_tac. apply covset_read_safe.
Qed.
Lemma rd_covs_safe data pos offs : safe (rd_covs data pos offs).
Proof.
  induction offs as [|o t IH]; cbn [rd_covs]; [apply safe_ok|].
  safe_tac. apply cov_read_safe.
Qed.

(* ---- coverage tables: pairs / table views ---- *)
Lemma as_table_pairs_from gl : forall i,
  as_table (S_cov_pairs_from gl i) = S_cov_table_from gl (Z.of_N i).
Proof.
  induction gl as [|g r IH]; intros i; cbn [S_cov_pairs_from S_cov_table_from as_table map fst snd]; [reflexivity|].
  f_equal. unfold as_table in IH. rewrite IH. f_equal. lia.
Qed.
Lemma as_table_pairs gl : as_table (S_cov_pairs gl) = S_cov_table gl.
Proof. apply (as_table_pairs_from gl 0). Qed.

(* EncodeLen of a valid table never panics *)
Lemma cov_encode_len_valid gl :
  strictly_inc gl = true -> exists n, M_cov_encode_len (S_cov_table gl) = Ok n.
Proof.
  intros Hs. unfold M_cov_encode_len. rewrite (encinfo_valid gl Hs). cbn [obind]. eauto.
Qed.
Lemma cov_encode_valid gl :
  strictly_inc gl = true -> exists b, M_cov_encode (S_cov_table gl) = Ok b.
Proof.
  intros Hs. unfold M_cov_encode. rewrite (encinfo_valid gl Hs). cbn [obind]. eauto.
Qed.

(* EncodeLen of a table that coverage.Read returned *)
Lemma cov_encode_len_of_read data pos l :
  bytes_lt data -> M_cov_read data pos = Ok l ->
  exists n, M_cov_encode_len (as_table l) = Ok n.
Proof.
  intros Hb Hr. destruct (cov_read_shape data pos l Hb Hr) as (E & Hs & _).
  rewrite E, as_table_pairs. apply cov_encode_len_valid. exact Hs.
Qed.

(* Prune keeps a prefix of a valid table *)
Lemma cov_prune_pairs_from gl : forall i k,
  strictly_inc gl = true ->
  cov_prune k (S_cov_pairs_from gl i) = S_cov_pairs_from (firstn (N.to_nat (k - i)) gl) i.
Proof.
  induction gl as [|g r IH]; intros i k Hs; cbn [S_cov_pairs_from cov_prune filter snd].
  - now rewrite firstn_nil.
  - assert (Hr : strictly_inc r = true).
    { destruct r as [|b r']; [reflexivity|]. cbn [strictly_inc] in Hs. apply andb_true_iff in Hs. tauto. }
    destruct (i <? k) eqn:E.
    + replace (N.to_nat (k - i)) with (S (N.to_nat (k - (i + 1)))) by lia.
      cbn [firstn S_cov_pairs_from]. f_equal. apply (IH (i + 1) k Hr).
    + replace (N.to_nat (k - i)) with 0%nat by lia. cbn [firstn S_cov_pairs_from].
      specialize (IH (i + 1) k Hr). unfold cov_prune in IH. rewrite IH.
      replace (N.to_nat (k - (i + 1))) with 0%nat by lia. reflexivity.
Qed.

Lemma strictly_inc_firstn gl : forall n, strictly_inc gl = true -> strictly_inc (firstn n gl) = true.
Proof.
  induction gl as [|a r IH]; intros n H; [now rewrite firstn_nil|].
  destruct n as [|n]; [reflexivity|]. cbn [firstn].
  destruct r as [|b r']; [now rewrite firstn_nil|].
  cbn [strictly_inc] in H. apply andb_true_iff in H as [H1 H2].
  specialize (IH n H2). destruct n as [|n]; [reflexivity|].
  cbn [firstn strictly_inc] in *. rewrite H1. exact IH.
Qed.

Lemma cov_encode_len_of_pruned data pos l k :
  bytes_lt data -> M_cov_read data pos = Ok l ->
  exists n, M_cov_encode_len (as_table (cov_prune k l)) = Ok n.
Proof.
  intros Hb Hr. destruct (cov_read_shape data pos l Hb Hr) as (E & Hs & _).
  rewrite E. unfold S_cov_pairs. rewrite cov_prune_pairs_from by exact Hs.
  rewrite (as_table_pairs_from _ 0). apply cov_encode_len_valid.
  apply strictly_inc_firstn. exact Hs.
Qed.

(* ---- booleans to Forall ---- *)
Lemma u16s_ok_Forall l : u16s_ok l = true -> Forall (fun x => x < 65536) l.
Proof.
  unfold u16s_ok. rewrite forallb_forall, Forall_forall. intros H x Hx. specialize (H x Hx). cbv beta in *. lia.
Qed.

Lemma lenN_firstn_le {A} (l : list A) n : lenN (firstn n l) <= lenN l.
Proof. unfold lenN. rewrite firstn_length. lia. Qed.

Lemma lenN_length {A} (l : list A) : N.to_nat (lenN l) = length l.
Proof. unfold lenN. lia. Qed.

Lemma lenN_map {A B} (f : A -> B) l : lenN (map f l) = lenN l.
Proof. unfold lenN. now rewrite map_length. Qed.

Lemma lenN_concat_sum (bs : list (list N)) : lenN (concat bs) = sumN (map lenN bs).
Proof.
  induction bs as [|b r IH]; cbn [concat map sumN]; [reflexivity|].
  rewrite lenN_app, IH. reflexivity.
Qed.
