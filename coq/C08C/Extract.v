From Coq Require Import Extraction ExtrOcamlBasic.
From Common Require Import Conv.
From C08 Require Import Model ModelCD ModelSub.
From C08C Require Import ModelCtx ModelChain.
Extraction "c08c_model.ml" conv_anchor as_table S_cov_table
  M_seq1_len M_seq1_encode M_seq2_len M_seq2_encode M_seq3_len M_seq3_encode
  M_ch1_len M_ch1_encode M_ch2_len M_ch2_encode M_ch3_len M_ch3_encode
  M_gsub81_len M_gsub81_encode M_ctx_read.
