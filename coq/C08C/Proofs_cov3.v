(* C08C/Proofs_cov3.v — the coverage based formats: SeqContext3,
   ChainedSeqContext3 and Gsub8_1 (lists of coverage tables written one after
   the other, an offset for each). *)
From Coq Require Import List NArith ZArith Bool Lia FMapPositive.
From Coq Require Import ZifyBool ZifyNat ZifyN.
From Common Require Import Bytes Outcome.
From C08 Require Import Model ModelCD ModelSub Proofs Proofs_cd Proofs_sub.
From C08C Require Import ModelCtx ModelChain Util Proofs_gen Proofs_seq.
Import ListNotations.
Local Open Scope N_scope.
Ltac Zify.zify_post_hook ::= Z.div_mod_to_equations.

(* ------------------------------------------------------------------ *)
(* lists of coverage tables                                            *)

Lemma covs_cases ts :
  (exists cbs lens, covs_enc ts = Ok cbs /\ covs_len ts = Ok lens /\ length lens = length ts) \/
  (covs_enc ts = Panic /\ covs_len ts = Panic).
Proof.
  induction ts as [|t r IH]; cbn [covs_enc covs_len]; [left; exists [], []; auto|].
  destruct (cov_encode_cases t) as [(b & n & Hb & Hn)|[Hb Hn]]; rewrite Hb, Hn; cbn [obind]; [|right; auto].
  destruct IH as [(cbs & lens & H1 & H2 & H3)|[H1 H2]]; rewrite H1, H2; cbn [obind]; [left|right; auto].
  exists (b :: cbs), (n :: lens). cbn [length]. auto.
Qed.

Lemma covs_len_agrees ts : forall cbs,
  forallb keys_ok ts = true -> covs_enc ts = Ok cbs -> covs_len ts = Ok (map lenN cbs).
Proof.
  induction ts as [|t r IH]; intros cbs Hk; cbn [covs_enc covs_len forallb] in *.
  - intros H. apply ok_inj in H. subst cbs. reflexivity.
  - apply andb_true_iff in Hk as [Hk Hkr].
    destruct (M_cov_encode t) as [b| | |] eqn:Hb; cbn [obind]; try discriminate.
    destruct (covs_enc r) as [tl| | |] eqn:Ht; cbn [obind]; try discriminate.
    intros H. apply ok_inj in H. subst cbs.
    rewrite (cov_len_agrees t b Hk Hb), (IH tl Hkr eq_refl). reflexivity.
Qed.

Lemma set_tables_keys_ok sets :
  forallb gset_ok sets = true -> forallb keys_ok (set_tables sets) = true.
Proof.
  unfold set_tables, gset_ok. induction sets as [|g r IH]; cbn [map forallb]; intros H; [reflexivity|].
  apply andb_true_iff in H as [Hg Hr]. apply andb_true_iff in Hg as [_ Hg].
  rewrite IH by exact Hr. rewrite andb_true_r. apply keys_ok_table. exact Hg.
Qed.

Lemma tables_keys_ok sets :
  forallb gset_ok sets = true -> forallb keys_ok (map S_cov_table sets) = true.
Proof. exact (set_tables_keys_ok sets). Qed.

Lemma covs_enc_length ts : forall cbs, covs_enc ts = Ok cbs -> length cbs = length ts.
Proof.
  induction ts as [|t r IH]; intros cbs; cbn [covs_enc].
  - intros H. apply ok_inj in H. now subst cbs.
  - destruct (M_cov_encode t) as [b| | |]; cbn [obind]; try discriminate.
    destruct (covs_enc r) as [tl| | |] eqn:Ht; cbn [obind]; try discriminate.
    intros H. apply ok_inj in H. subst cbs. cbn [length]. now rewrite (IH tl eq_refl).
Qed.

Lemma cov_offs_length lens : forall p, length (cov_offs lens p) = length lens.
Proof. induction lens as [|n t IH]; intros p; cbn [cov_offs length]; [reflexivity|]. now rewrite IH. Qed.

Lemma cov_offs_lenN lens p : lenN (cov_offs lens p) = lenN lens.
Proof. unfold lenN. now rewrite cov_offs_length. Qed.

Lemma cov_offs_fit_Forall lens : forall p,
  cov_offs_fit lens p = true -> Forall (fun o => o < 65536) (cov_offs lens p).
Proof.
  induction lens as [|n t IH]; intros p H; cbn [cov_offs cov_offs_fit] in *; [constructor|].
  apply andb_true_iff in H as [H1 H2]. constructor; [cbv beta; lia|apply IH; exact H2].
Qed.

(* a non-empty list whose offsets fit starts at an offset that fits *)
Lemma cov_offs_fit_start lens p : lens <> [] -> cov_offs_fit lens p = true -> p <= 65535.
Proof.
  destruct lens as [|n t]; [congruence|]. cbn [cov_offs_fit]. intros _ H.
  apply andb_true_iff in H as [H1 _]. lia.
Qed.

(* reading back the sets / tables written one after the other *)
Lemma rd_covsets_ok pos tail sets : forall cbs A off,
  forallb gset_ok sets = true -> covs_enc (set_tables sets) = Ok cbs -> lenN A = pos + off ->
  rd_covsets (A ++ concat cbs ++ tail) pos (cov_offs (map lenN cbs) off) = Ok sets.
Proof.
  unfold set_tables, gset_ok.
  induction sets as [|g r IH]; intros cbs A off Hok; cbn [map covs_enc forallb] in *.
  - intros H _. apply ok_inj in H. subst cbs. reflexivity.
  - apply andb_true_iff in Hok as [Hg Hr]. apply andb_true_iff in Hg as [Hs Hg].
    destruct (M_cov_encode (S_cov_table g)) as [b| | |] eqn:Hb; cbn [obind]; try discriminate.
    destruct (covs_enc (map S_cov_table r)) as [tl| | |] eqn:Ht; cbn [obind]; try discriminate.
    intros H HA. apply ok_inj in H. subst cbs.
    cbn [map cov_offs rd_covsets concat].
    destruct (cov_roundtrip g A (concat tl ++ tail) Hs Hg) as (b' & Hb' & Hrd).
    rewrite Hb in Hb'. apply ok_inj in Hb'. subst b'.
    rewrite <- HA. unfold lenN at 1. rewrite <- app_assoc.
    rewrite (covset_of_cov _ _ _ Hrd). cbn [obind].
    unfold S_cov_pairs. rewrite map_fst_cov_pairs.
    specialize (IH tl (A ++ b) (off + lenN b) Hr eq_refl).
    rewrite <- app_assoc in IH. rewrite IH; [reflexivity|].
    rewrite lenN_app, HA. lia.
Qed.

Lemma rd_covs_ok pos tail sets : forall cbs A off,
  forallb gset_ok sets = true -> covs_enc (map S_cov_table sets) = Ok cbs -> lenN A = pos + off ->
  rd_covs (A ++ concat cbs ++ tail) pos (cov_offs (map lenN cbs) off) = Ok (map S_cov_pairs sets).
Proof.
  unfold gset_ok.
  induction sets as [|g r IH]; intros cbs A off Hok; cbn [map covs_enc forallb] in *.
  - intros H _. apply ok_inj in H. subst cbs. reflexivity.
  - apply andb_true_iff in Hok as [Hg Hr]. apply andb_true_iff in Hg as [Hs Hg].
    destruct (M_cov_encode (S_cov_table g)) as [b| | |] eqn:Hb; cbn [obind]; try discriminate.
    destruct (covs_enc (map S_cov_table r)) as [tl| | |] eqn:Ht; cbn [obind]; try discriminate.
    intros H HA. apply ok_inj in H. subst cbs.
    cbn [map cov_offs rd_covs concat].
    destruct (cov_roundtrip g A (concat tl ++ tail) Hs Hg) as (b' & Hb' & Hrd).
    rewrite Hb in Hb'. apply ok_inj in Hb'. subst b'.
    rewrite <- HA. unfold lenN at 1. rewrite <- app_assoc.
    rewrite Hrd. cbn [obind].
    specialize (IH tl (A ++ b) (off + lenN b) Hr eq_refl).
    rewrite <- app_assoc in IH. rewrite IH; [reflexivity|].
    rewrite lenN_app, HA. lia.
Qed.

Lemma sumN_map_lenN (cbs : list (list N)) : sumN (map lenN cbs) = lenN (concat cbs).
Proof. symmetry. apply lenN_concat_sum. Qed.

(* ------------------------------------------------------------------ *)
(* SeqContext3                                                          *)

Lemma seq3_len_agrees inp acts b :
  forallb glyphs_ok inp = true ->
  M_seq3_encode inp acts = Ok b -> M_seq3_len inp acts = Ok (lenN b).
Proof.
  unfold M_seq3_encode, M_seq3_len. cbv zeta. intros Hk.
  destruct (covs_len (set_tables inp)) as [lens| | |] eqn:Hl; cbn [obind]; try discriminate.
  destruct (negb _); [discriminate|].
  destruct (covs_enc (set_tables inp)) as [cbs| | |] eqn:Hc; cbn [obind]; try discriminate.
  intros H. apply ok_inj in H. subst b.
  assert (Hk' : forallb keys_ok (set_tables inp) = true).
  { unfold set_tables. clear -Hk. induction inp as [|g r IH]; cbn [map forallb] in *; [reflexivity|].
    apply andb_true_iff in Hk as [Hg Hr]. unfold S_cov_table at 1. rewrite (keys_ok_table g 0%Z Hg). apply IH. exact Hr. }
  rewrite (covs_len_agrees _ cbs Hk' Hc) in Hl. apply ok_inj in Hl. subst lens.
  assert (Hcl : lenN cbs = lenN inp)
    by (unfold lenN; rewrite (covs_enc_length _ _ Hc); unfold set_tables; now rewrite map_length).
  f_equal. lens. rewrite acts_lenN, cov_offs_lenN, lenN_map, sumN_map_lenN, Hcl. lia.
Qed.

Lemma seq3_roundtrip inp acts b pre post :
  seq3_wf inp acts = true -> M_seq3_encode inp acts = Ok b ->
  M_seq3_read (pre ++ b ++ post) (lenN pre) = Ok (inp, acts).
Proof.
  unfold seq3_wf. intros Hwf.
  apply andb_true_iff in Hwf as [Hwf Ha]. apply andb_true_iff in Hwf as [Hne Hi].
  unfold M_seq3_encode. cbv zeta.
  set (ni := lenN inp). set (na := lenN acts). set (hdr := 6 + 2 * ni + 4 * na).
  destruct (covs_len (set_tables inp)) as [lens| | |] eqn:Hl; cbn [obind]; try discriminate.
  destruct (cov_offs_fit lens hdr) eqn:Hfit; cbn [negb]; [|discriminate].
  destruct (covs_enc (set_tables inp)) as [cbs| | |] eqn:Hc; cbn [obind]; try discriminate.
  intros H. apply ok_inj in H. subst b.
  rewrite (covs_len_agrees _ cbs (set_tables_keys_ok inp Hi) Hc) in Hl. apply ok_inj in Hl. subst lens.
  pose proof (covs_enc_length _ _ Hc) as Hlen. unfold set_tables in Hlen. rewrite map_length in Hlen.
  assert (Hhdr : hdr <= 65535).
  { apply (cov_offs_fit_start (map lenN cbs)); [|exact Hfit].
    destruct cbs; [|discriminate]. destruct inp; [discriminate|discriminate]. }
  set (offs := cov_offs (map lenN cbs) hdr).
  assert (Hoffs_len : length offs = length inp) by (unfold offs; now rewrite cov_offs_length, map_length).
  assert (Hoffs_ok : Forall (fun x => x < 65536) offs) by (apply cov_offs_fit_Forall; exact Hfit).
  set (D := pre ++ ([0; 3] ++ be16 ni ++ be16 na ++ flat_map be16 offs ++ acts_bytes acts ++ concat cbs) ++ post).
  assert (Hseek : seek D (lenN pre + 2)
                  = be16 ni ++ be16 na ++ flat_map be16 offs ++ acts_bytes acts ++ concat cbs ++ post).
  { unfold D. rewrite <- !app_assoc. apply (seek_at pre [0; 3]). }
  unfold M_seq3_read. rewrite Hseek. cbn [be16 app]. rewrite !w16_be16_eq by (unfold hdr in Hhdr; lia).
  replace (ni =? 0) with false by (unfold ni, lenN; destruct inp; [discriminate|cbn [length]; lia]).
  replace (N.to_nat ni) with (length offs) by (unfold ni, lenN; lia).
  rewrite rd_u16s_flat by exact Hoffs_ok. cbn [obind fst snd].
  replace (N.to_nat na) with (length acts) by (unfold na, lenN; lia).
  rewrite rd_acts_flat by exact Ha. cbn [obind fst snd].
  assert (HD2 : D = (pre ++ [0; 3] ++ be16 ni ++ be16 na ++ flat_map be16 offs ++ acts_bytes acts) ++
                    concat cbs ++ post) by (unfold D; now rewrite <- !app_assoc).
  rewrite HD2. unfold offs.
  rewrite (rd_covsets_ok (lenN pre) post inp cbs _ hdr Hi Hc); [reflexivity|].
  lens. rewrite acts_lenN. fold offs. unfold lenN at 2. rewrite Hoffs_len. fold (lenN inp). fold ni na. unfold hdr. lia.
Qed.

Lemma seq3_refuses_or_fits inp acts :
  inp <> [] ->
  M_seq3_encode inp acts = Panic \/
  exists b lens, M_seq3_encode inp acts = Ok b /\ covs_len (set_tables inp) = Ok lens /\
                 Forall (fun v => v < 65536) (M_seq3_fields lens inp acts).
Proof.
  intros Hne. unfold M_seq3_encode, M_seq3_fields. cbv zeta.
  set (hdr := 6 + 2 * lenN inp + 4 * lenN acts).
  destruct (covs_cases (set_tables inp)) as [(cbs & lens & Hc & Hl & Hlen)|[Hc Hl]]; rewrite Hl; cbn [obind];
    [|left; reflexivity].
  destruct (cov_offs_fit lens hdr) eqn:Hfit; cbn [negb]; [|left; reflexivity].
  rewrite Hc. cbn [obind]. right. eexists. exists lens. split; [reflexivity|]. split; [reflexivity|].
  assert (Hhdr : hdr <= 65535).
  { apply (cov_offs_fit_start lens); [|exact Hfit]. unfold set_tables in Hlen. rewrite map_length in Hlen.
    destruct lens; [|discriminate]. destruct inp; [congruence|discriminate]. }
  constructor; [unfold hdr in Hhdr; lia|]. constructor; [unfold hdr in Hhdr; lia|].
  apply cov_offs_fit_Forall. exact Hfit.
Qed.

Lemma seq3_read_safe data pos : safe (M_seq3_read data pos).
Proof.
  unfold M_seq3_read. destruct (seek data (pos + 2)) as [|a [|b [|c [|d r]]]]; try apply safe_err.
  safe_tac; [apply rd_u16s_safe|apply rd_acts_safe|apply rd_covsets_safe].
Qed.

(* ------------------------------------------------------------------ *)
(* ChainedSeqContext3                                                   *)

Lemma match_ne {A B} (l : list A) (x y : B) :
  l <> [] -> match l with [] => x | _ :: _ => y end = y.
Proof. destruct l; [congruence|reflexivity]. Qed.

Lemma glyphs_keys_ok sets :
  forallb glyphs_ok sets = true -> forallb keys_ok (set_tables sets) = true.
Proof.
  unfold set_tables. induction sets as [|g r IH]; cbn [map forallb]; intros H; [reflexivity|].
  apply andb_true_iff in H as [Hg Hr]. unfold S_cov_table at 1.
  rewrite (keys_ok_table g 0%Z Hg). apply IH. exact Hr.
Qed.

Lemma covs_lenN_eq sets cbs : covs_enc (set_tables sets) = Ok cbs -> lenN cbs = lenN sets.
Proof.
  intros Hc. unfold lenN. rewrite (covs_enc_length _ _ Hc). unfold set_tables. now rewrite map_length.
Qed.

Lemma ch3_len_agrees bk inp la acts b :
  forallb glyphs_ok bk = true -> forallb glyphs_ok inp = true -> forallb glyphs_ok la = true ->
  M_ch3_encode bk inp la acts = Ok b -> M_ch3_len bk inp la acts = Ok (lenN b).
Proof.
  unfold M_ch3_encode, M_ch3_len. cbv zeta. intros Kb Ki Kl.
  destruct (covs_len (set_tables bk)) as [lb| | |] eqn:Hlb; cbn [obind]; try discriminate.
  destruct (covs_len (set_tables inp)) as [li| | |] eqn:Hli; cbn [obind]; try discriminate.
  destruct (covs_len (set_tables la)) as [ll| | |] eqn:Hll; cbn [obind]; try discriminate.
  destruct (negb _); [discriminate|].
  destruct (covs_enc (set_tables bk)) as [bb| | |] eqn:Hbb; cbn [obind]; try discriminate.
  destruct (covs_enc (set_tables inp)) as [bi| | |] eqn:Hbi; cbn [obind]; try discriminate.
  destruct (covs_enc (set_tables la)) as [bl| | |] eqn:Hbl; cbn [obind]; try discriminate.
  intros H. apply ok_inj in H. subst b.
  rewrite (covs_len_agrees _ bb (glyphs_keys_ok bk Kb) Hbb) in Hlb. apply ok_inj in Hlb. subst lb.
  rewrite (covs_len_agrees _ bi (glyphs_keys_ok inp Ki) Hbi) in Hli. apply ok_inj in Hli. subst li.
  rewrite (covs_len_agrees _ bl (glyphs_keys_ok la Kl) Hbl) in Hll. apply ok_inj in Hll. subst ll.
  f_equal. lens. rewrite acts_lenN, !cov_offs_lenN, !lenN_map, !sumN_map_lenN.
  rewrite (covs_lenN_eq _ _ Hbb), (covs_lenN_eq _ _ Hbi), (covs_lenN_eq _ _ Hbl). lia.
Qed.

Lemma ch3_roundtrip bk inp la acts b pre post :
  ch3_wf bk inp la acts = true -> M_ch3_encode bk inp la acts = Ok b ->
  M_ch3_read (pre ++ b ++ post) (lenN pre) = Ok (bk, inp, la, acts).
Proof.
  unfold ch3_wf. intros Hwf.
  apply andb_true_iff in Hwf as [Hwf Ha]. apply andb_true_iff in Hwf as [Hwf Hl].
  apply andb_true_iff in Hwf as [Hwf Hi]. apply andb_true_iff in Hwf as [Hne Hb].
  unfold M_ch3_encode. cbv zeta.
  set (hdr := 10 + 2 * lenN bk + 2 * lenN inp + 2 * lenN la + 4 * lenN acts).
  destruct (covs_len (set_tables bk)) as [lb| | |] eqn:Hlb; cbn [obind]; try discriminate.
  destruct (covs_len (set_tables inp)) as [li| | |] eqn:Hli; cbn [obind]; try discriminate.
  destruct (covs_len (set_tables la)) as [ll| | |] eqn:Hll; cbn [obind]; try discriminate.
  destruct (cov_offs_fit lb hdr) eqn:F1; cbn [andb negb]; [|discriminate].
  destruct (cov_offs_fit li (hdr + sumN lb)) eqn:F2; cbn [andb negb]; [|discriminate].
  destruct (cov_offs_fit ll (hdr + sumN lb + sumN li)) eqn:F3; cbn [andb negb]; [|discriminate].
  destruct (covs_enc (set_tables bk)) as [bb| | |] eqn:Hbb; cbn [obind]; try discriminate.
  destruct (covs_enc (set_tables inp)) as [bi| | |] eqn:Hbi; cbn [obind]; try discriminate.
  destruct (covs_enc (set_tables la)) as [bl| | |] eqn:Hbl; cbn [obind]; try discriminate.
  intros H. apply ok_inj in H. subst b.
  rewrite (covs_len_agrees _ bb (set_tables_keys_ok bk Hb) Hbb) in Hlb. apply ok_inj in Hlb. subst lb.
  rewrite (covs_len_agrees _ bi (set_tables_keys_ok inp Hi) Hbi) in Hli. apply ok_inj in Hli. subst li.
  rewrite (covs_len_agrees _ bl (set_tables_keys_ok la Hl) Hbl) in Hll. apply ok_inj in Hll. subst ll.
  rewrite !sumN_map_lenN in *.
  pose proof (covs_lenN_eq _ _ Hbb) as Lb. pose proof (covs_lenN_eq _ _ Hbi) as Li.
  pose proof (covs_lenN_eq _ _ Hbl) as Ll.
  assert (Hinp : lenN inp <> 0) by (unfold lenN; destruct inp; [discriminate|cbn [length]; lia]).
  assert (Ht1 : hdr + lenN (concat bb) <= 65535).
  { apply (cov_offs_fit_start (map lenN bi)); [|exact F2].
    destruct bi; [|discriminate]. unfold lenN in Li. cbn [length] in Li. unfold lenN in Hinp. lia. }
  set (oB := cov_offs (map lenN bb) hdr) in *.
  set (oI := cov_offs (map lenN bi) (hdr + lenN (concat bb))) in *.
  set (oL := cov_offs (map lenN bl) (hdr + lenN (concat bb) + lenN (concat bi))) in *.
  assert (LoB : lenN oB = lenN bk) by (unfold oB; now rewrite cov_offs_lenN, lenN_map).
  assert (LoI : lenN oI = lenN inp) by (unfold oI; now rewrite cov_offs_lenN, lenN_map).
  assert (LoL : lenN oL = lenN la) by (unfold oL; now rewrite cov_offs_lenN, lenN_map).
  assert (FoB : Forall (fun x => x < 65536) oB) by (apply cov_offs_fit_Forall; exact F1).
  assert (FoI : Forall (fun x => x < 65536) oI) by (apply cov_offs_fit_Forall; exact F2).
  assert (FoL : Forall (fun x => x < 65536) oL) by (apply cov_offs_fit_Forall; exact F3).
  rewrite <- LoB, <- LoI, <- LoL.
  set (D := pre ++ ([0; 3] ++ be16 (lenN oB) ++ flat_map be16 oB ++ be16 (lenN oI) ++ flat_map be16 oI ++
                    be16 (lenN oL) ++ flat_map be16 oL ++ be16 (lenN acts) ++ acts_bytes acts ++
                    concat bb ++ concat bi ++ concat bl) ++ post).
  assert (Hseek : seek D (lenN pre + 2)
                  = be16 (lenN oB) ++ flat_map be16 oB ++ be16 (lenN oI) ++ flat_map be16 oI ++
                    be16 (lenN oL) ++ flat_map be16 oL ++ be16 (lenN acts) ++ acts_bytes acts ++
                    concat bb ++ concat bi ++ concat bl ++ post).
  { unfold D. rewrite <- !app_assoc. apply (seek_at pre [0; 3]). }
  unfold M_ch3_read. rewrite Hseek.
  rewrite rd_slice_flat by (try exact FoB; unfold hdr in Ht1; lia). cbn [obind fst snd].
  rewrite rd_slice_flat by (try exact FoI; unfold hdr in Ht1; lia). cbn [obind fst snd].
  rewrite rd_slice_flat by (try exact FoL; unfold hdr in Ht1; lia). cbn [obind fst snd].
  rewrite match_ne by (intros E; rewrite E in LoI; unfold lenN in LoI at 1; cbn [length] in LoI; lia).
  cbn [be16 app]. rewrite w16_be16_eq by (unfold hdr in Ht1; lia).
  rewrite lenN_length, rd_acts_flat by exact Ha. cbn [obind fst snd].
  set (H0 := pre ++ [0; 3] ++ be16 (lenN oB) ++ flat_map be16 oB ++ be16 (lenN oI) ++ flat_map be16 oI ++
             be16 (lenN oL) ++ flat_map be16 oL ++ be16 (lenN acts) ++ acts_bytes acts).
  assert (LH0 : lenN H0 = lenN pre + hdr).
  { unfold H0. lens. rewrite acts_lenN, LoB, LoI, LoL. unfold hdr. lia. }
  assert (HD1 : D = H0 ++ concat bb ++ (concat bi ++ concat bl ++ post))
    by (unfold D, H0; now rewrite <- !app_assoc).
  assert (HD2 : D = (H0 ++ concat bb) ++ concat bi ++ (concat bl ++ post))
    by (unfold D, H0; now rewrite <- !app_assoc).
  assert (HD3 : D = (H0 ++ concat bb ++ concat bi) ++ concat bl ++ post)
    by (unfold D, H0; now rewrite <- !app_assoc).
  rewrite HD1 at 1. unfold oB.
  rewrite (rd_covsets_ok (lenN pre) _ bk bb H0 hdr Hb Hbb LH0). cbn [obind].
  rewrite HD2 at 1. unfold oI.
  rewrite (rd_covsets_ok (lenN pre) _ inp bi _ (hdr + lenN (concat bb)) Hi Hbi)
    by (rewrite lenN_app, LH0; lia).
  cbn [obind].
  rewrite HD3. unfold oL.
  rewrite (rd_covsets_ok (lenN pre) _ la bl _ (hdr + lenN (concat bb) + lenN (concat bi)) Hl Hbl)
    by (rewrite !lenN_app, LH0; lia).
  reflexivity.
Qed.

Lemma ch3_refuses_or_fits bk inp la acts :
  inp <> [] ->
  M_ch3_encode bk inp la acts = Panic \/
  exists b lb li ll, M_ch3_encode bk inp la acts = Ok b /\
    covs_len (set_tables bk) = Ok lb /\ covs_len (set_tables inp) = Ok li /\
    covs_len (set_tables la) = Ok ll /\
    Forall (fun v => v < 65536) (M_ch3_fields lb li ll bk inp la acts).
Proof.
  intros Hne. unfold M_ch3_encode, M_ch3_fields. cbv zeta.
  set (hdr := 10 + 2 * lenN bk + 2 * lenN inp + 2 * lenN la + 4 * lenN acts).
  destruct (covs_cases (set_tables bk)) as [(bb & lb & Hbb & Hlb & Lb)|[Hbb Hlb]]; rewrite Hlb; cbn [obind];
    [|left; reflexivity].
  destruct (covs_cases (set_tables inp)) as [(bi & li & Hbi & Hli & Li)|[Hbi Hli]]; rewrite Hli; cbn [obind];
    [|left; reflexivity].
  destruct (covs_cases (set_tables la)) as [(bl & ll & Hbl & Hll & Ll)|[Hbl Hll]]; rewrite Hll; cbn [obind];
    [|left; reflexivity].
  destruct (cov_offs_fit lb hdr) eqn:F1; cbn [andb negb]; [|left; reflexivity].
  destruct (cov_offs_fit li (hdr + sumN lb)) eqn:F2; cbn [andb negb]; [|left; reflexivity].
  destruct (cov_offs_fit ll (hdr + sumN lb + sumN li)) eqn:F3; cbn [andb negb]; [|left; reflexivity].
  rewrite Hbb, Hbi, Hbl. cbn [obind]. right. eexists. exists lb, li, ll. repeat (split; [reflexivity|]).
  assert (Ht1 : hdr + sumN lb <= 65535).
  { apply (cov_offs_fit_start li); [|exact F2]. unfold set_tables in Li. rewrite map_length in Li.
    destruct li; [|discriminate]. destruct inp; [congruence|discriminate]. }
  repeat (constructor; [unfold hdr in Ht1; lia|]).
  apply Forall_app. split; [apply cov_offs_fit_Forall; exact F1|].
  apply Forall_app. split; apply cov_offs_fit_Forall; assumption.
Qed.

Lemma ch3_read_safe data pos : safe (M_ch3_read data pos).
Proof.
  unfold M_ch3_read.
  apply safe_bind; [apply rd_slice_safe|intros xb _].
  apply safe_bind; [apply rd_slice_safe|intros xi _].
  apply safe_bind; [apply rd_slice_safe|intros xl _].
  destruct (fst xi); [apply safe_err|].
  destruct (snd xl) as [|c [|d r]]; try apply safe_err.
  apply safe_bind; [apply rd_acts_safe|intros xa _].
  apply safe_bind; [apply rd_covsets_safe|intros s1 _].
  apply safe_bind; [apply rd_covsets_safe|intros s2 _].
  apply safe_bind; [apply rd_covsets_safe|intros s3 _].
  apply safe_ok.
Qed.

(* ------------------------------------------------------------------ *)
(* Gsub8_1                                                              *)

Lemma gsub81_len_agrees inp bk la subst b :
  keys_ok inp = true -> forallb keys_ok bk = true -> forallb keys_ok la = true ->
  M_gsub81_encode inp bk la subst = Ok b -> M_gsub81_len inp bk la subst = Ok (lenN b).
Proof.
  unfold M_gsub81_encode, M_gsub81_len. cbv zeta. intros Ki Kb Kl.
  destruct (M_cov_encode_len inp) as [n| | |] eqn:Hn; cbn [obind]; try discriminate.
  destruct (covs_len bk) as [lb| | |] eqn:Hlb; cbn [obind]; try discriminate.
  destruct (covs_len la) as [ll| | |] eqn:Hll; cbn [obind]; try discriminate.
  destruct (_ || _); [discriminate|].
  destruct (M_cov_encode inp) as [cb| | |] eqn:Hc; cbn [obind]; try discriminate.
  destruct (covs_enc bk) as [bb| | |] eqn:Hbb; cbn [obind]; try discriminate.
  destruct (covs_enc la) as [bl| | |] eqn:Hbl; cbn [obind]; try discriminate.
  intros H. apply ok_inj in H. subst b.
  rewrite (cov_len_agrees inp cb Ki Hc) in Hn. apply ok_inj in Hn. subst n.
  rewrite (covs_len_agrees _ bb Kb Hbb) in Hlb. apply ok_inj in Hlb. subst lb.
  rewrite (covs_len_agrees _ bl Kl Hbl) in Hll. apply ok_inj in Hll. subst ll.
  f_equal. lens. rewrite !cov_offs_lenN, !lenN_map, !sumN_map_lenN.
  assert (Lb : lenN bb = lenN bk) by (unfold lenN; now rewrite (covs_enc_length _ _ Hbb)).
  assert (Ll : lenN bl = lenN la) by (unfold lenN; now rewrite (covs_enc_length _ _ Hbl)).
  rewrite Lb, Ll. fold (lenN cb). lia.
Qed.

Lemma gsub81_roundtrip gl bks las subst b pre post :
  gsub81_wf gl bks las subst = true ->
  M_gsub81_encode (S_cov_table gl) (map S_cov_table bks) (map S_cov_table las) subst = Ok b ->
  M_gsub81_read (pre ++ b ++ post) (lenN pre) =
    Ok (S_cov_pairs gl, map S_cov_pairs bks, map S_cov_pairs las, subst).
Proof.
  unfold gsub81_wf, gset_ok. intros Hwf.
  apply andb_true_iff in Hwf as [Hwf Hsu]. apply andb_true_iff in Hwf as [Hwf Hlen].
  apply andb_true_iff in Hwf as [Hwf Hl]. apply andb_true_iff in Hwf as [Hg Hb].
  apply andb_true_iff in Hg as [Hs Hg]. apply Nat.eqb_eq in Hlen.
  unfold M_gsub81_encode. cbv zeta.
  set (covOff := 10 + 2 * lenN (map S_cov_table bks) + 2 * lenN (map S_cov_table las) + 2 * lenN subst).
  destruct (M_cov_encode_len (S_cov_table gl)) as [n| | |] eqn:Hn; cbn [obind]; try discriminate.
  destruct (covs_len (map S_cov_table bks)) as [lb| | |] eqn:Hlb; cbn [obind]; try discriminate.
  destruct (covs_len (map S_cov_table las)) as [ll| | |] eqn:Hll; cbn [obind]; try discriminate.
  destruct (65535 <? covOff) eqn:Hov; cbn [orb]; [discriminate|].
  destruct (cov_offs_fit lb (covOff + n)) eqn:F1; cbn [andb negb]; [|discriminate].
  destruct (cov_offs_fit ll (covOff + n + sumN lb)) eqn:F2; cbn [andb negb]; [|discriminate].
  destruct (M_cov_encode (S_cov_table gl)) as [cb| | |] eqn:Hc; cbn [obind]; try discriminate.
  destruct (covs_enc (map S_cov_table bks)) as [bb| | |] eqn:Hbb; cbn [obind]; try discriminate.
  destruct (covs_enc (map S_cov_table las)) as [bl| | |] eqn:Hbl; cbn [obind]; try discriminate.
  intros H. apply ok_inj in H. subst b.
  rewrite (cov_encode_len_ok gl cb Hg Hc) in Hn. apply ok_inj in Hn. subst n.
  rewrite (covs_len_agrees _ bb (tables_keys_ok bks Hb) Hbb) in Hlb. apply ok_inj in Hlb. subst lb.
  rewrite (covs_len_agrees _ bl (tables_keys_ok las Hl) Hbl) in Hll. apply ok_inj in Hll. subst ll.
  rewrite !sumN_map_lenN in *.
  set (oB := cov_offs (map lenN bb) (covOff + lenN cb)) in *.
  set (oL := cov_offs (map lenN bl) (covOff + lenN cb + lenN (concat bb))) in *.
  assert (LoB : lenN oB = lenN (map S_cov_table bks)).
  { unfold oB. rewrite cov_offs_lenN, lenN_map. unfold lenN. now rewrite (covs_enc_length _ _ Hbb). }
  assert (LoL : lenN oL = lenN (map S_cov_table las)).
  { unfold oL. rewrite cov_offs_lenN, lenN_map. unfold lenN. now rewrite (covs_enc_length _ _ Hbl). }
  assert (FoB : Forall (fun x => x < 65536) oB) by (apply cov_offs_fit_Forall; exact F1).
  assert (FoL : Forall (fun x => x < 65536) oL) by (apply cov_offs_fit_Forall; exact F2).
  assert (Hco : covOff = 10 + 2 * lenN oB + 2 * lenN oL + 2 * lenN subst) by (rewrite LoB, LoL; reflexivity).
  rewrite <- LoB, <- LoL.
  set (hdr := [0; 1] ++ be16 covOff ++ be16 (lenN oB) ++ flat_map be16 oB ++ be16 (lenN oL) ++ flat_map be16 oL ++
              be16 (lenN subst) ++ flat_map be16 subst).
  assert (Lhdr : lenN hdr = covOff) by (unfold hdr; lens; rewrite Hco; lia).
  set (D := pre ++ ([0; 1] ++ be16 covOff ++ be16 (lenN oB) ++ flat_map be16 oB ++ be16 (lenN oL) ++
                    flat_map be16 oL ++ be16 (lenN subst) ++ flat_map be16 subst ++ cb ++
                    concat bb ++ concat bl) ++ post).
  assert (Hseek : seek D (lenN pre + 2)
                  = be16 covOff ++ be16 (lenN oB) ++ flat_map be16 oB ++ be16 (lenN oL) ++ flat_map be16 oL ++
                    be16 (lenN subst) ++ flat_map be16 subst ++ cb ++ concat bb ++ concat bl ++ post).
  { unfold D. rewrite <- !app_assoc. apply (seek_at pre [0; 1]). }
  unfold M_gsub81_read. rewrite Hseek.
  change (be16 covOff ++ ?x) with ((covOff / 256) mod 256 :: covOff mod 256 :: x).
  cbv iota. rewrite w16_be16_eq by lia.
  rewrite rd_slice_flat by (try exact FoB; lia). cbn [obind fst snd].
  rewrite rd_slice_flat by (try exact FoL; lia). cbn [obind fst snd].
  rewrite rd_slice_flat by (try (apply u16s_ok_Forall; exact Hsu); lia). cbn [obind fst snd].
  assert (HD0 : D = pre ++ (hdr ++ cb) ++ (concat bb ++ concat bl ++ post))
    by (unfold D, hdr; now rewrite <- !app_assoc).
  assert (HD1 : D = (pre ++ hdr ++ cb) ++ concat bb ++ (concat bl ++ post))
    by (unfold D, hdr; now rewrite <- !app_assoc).
  assert (HD2 : D = (pre ++ hdr ++ cb ++ concat bb) ++ concat bl ++ post)
    by (unfold D, hdr; now rewrite <- !app_assoc).
  rewrite HD0 at 1. rewrite (cov_at gl hdr pre _ cb covOff Hs Hg Hc) by (symmetry; exact Lhdr).
  cbn [obind].
  rewrite HD1 at 1. unfold oB.
  rewrite (rd_covs_ok (lenN pre) _ bks bb _ (covOff + lenN cb) Hb Hbb) by (rewrite !lenN_app, Lhdr; lia).
  cbn [obind].
  rewrite HD2. unfold oL.
  rewrite (rd_covs_ok (lenN pre) _ las bl _ (covOff + lenN cb + lenN (concat bb)) Hl Hbl)
    by (rewrite !lenN_app, Lhdr; lia).
  cbn [obind].
  rewrite prune_pair_same by (unfold S_cov_pairs; rewrite cov_pairs_length; lia).
  reflexivity.
Qed.

Lemma gsub81_refuses_or_fits inp bk la subst :
  M_gsub81_encode inp bk la subst = Panic \/
  exists b n lb ll, M_gsub81_encode inp bk la subst = Ok b /\
    M_cov_encode_len inp = Ok n /\ covs_len bk = Ok lb /\ covs_len la = Ok ll /\
    Forall (fun v => v < 65536) (M_gsub81_fields n lb ll (lenN bk) (lenN la) (lenN subst)).
Proof.
  unfold M_gsub81_encode, M_gsub81_fields. cbv zeta.
  set (covOff := 10 + 2 * lenN bk + 2 * lenN la + 2 * lenN subst).
  destruct (cov_encode_cases inp) as [(cb & n & Hc & Hn)|[Hc Hn]]; rewrite Hn; cbn [obind]; [|left; reflexivity].
  destruct (covs_cases bk) as [(bb & lb & Hbb & Hlb & Lb)|[Hbb Hlb]]; rewrite Hlb; cbn [obind]; [|left; reflexivity].
  destruct (covs_cases la) as [(bl & ll & Hbl & Hll & Ll)|[Hbl Hll]]; rewrite Hll; cbn [obind]; [|left; reflexivity].
  destruct (65535 <? covOff) eqn:Hov; cbn [orb]; [left; reflexivity|].
  destruct (cov_offs_fit lb (covOff + n)) eqn:F1; cbn [andb negb]; [|left; reflexivity].
  destruct (cov_offs_fit ll (covOff + n + sumN lb)) eqn:F2; cbn [andb negb]; [|left; reflexivity].
  rewrite Hc, Hbb, Hbl. cbn [obind]. right. eexists. exists n, lb, ll. repeat (split; [reflexivity|]).
  repeat (constructor; [unfold covOff in Hov; lia|]).
  apply Forall_app. split; apply cov_offs_fit_Forall; assumption.
Qed.

Lemma gsub81_read_safe data pos : safe (M_gsub81_read data pos).
Proof.
  unfold M_gsub81_read. destruct (seek data (pos + 2)) as [|a [|b r]]; try apply safe_err.
  apply safe_bind; [apply rd_slice_safe|intros xb _].
  apply safe_bind; [apply rd_slice_safe|intros xl _].
  apply safe_bind; [apply rd_slice_safe|intros xs _].
  apply safe_bind; [apply cov_read_safe|intros inp _].
  apply safe_bind; [apply rd_covs_safe|intros bk _].
  apply safe_bind; [apply rd_covs_safe|intros la _].
  apply safe_ok.
Qed.
