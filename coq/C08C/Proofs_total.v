(* C08C/Proofs_total.v — the reader dispatch for the contextual lookup types
   never panics. *)
From Coq Require Import List NArith ZArith Bool Lia.
From Common Require Import Bytes Outcome.
From C08 Require Import Model ModelCD ModelSub Proofs.
From C08C Require Import ModelCtx ModelChain Util Proofs_seq Proofs_cov3 Proofs_chain.
Import ListNotations.
Local Open Scope N_scope.

Lemma ctx_read_safe kind data pos : bytes_lt data -> safe (M_ctx_read kind data pos).
Proof.
  intros Hb. unfold M_ctx_read. destruct (seek data pos) as [|a [|b r]]; try apply safe_err.
  destruct (kind =? 1).
  { destruct (w16 a b =? 1); [apply safe_bind; [apply seq1_read_safe|intros; apply safe_ok]|].
    destruct (w16 a b =? 2); [apply safe_bind; [apply seq2_read_safe; exact Hb|intros; apply safe_ok]|].
    destruct (w16 a b =? 3); [apply safe_bind; [apply seq3_read_safe|intros; apply safe_ok]|apply safe_err]. }
  destruct (kind =? 2).
  { destruct (w16 a b =? 1); [apply safe_bind; [apply ch1_read_safe; exact Hb|intros; apply safe_ok]|].
    destruct (w16 a b =? 2).
    { apply safe_bind; [apply ch2_read_safe; exact Hb|]. intros [[cov [[cb ci] cl]] rules] _. apply safe_ok. }
    destruct (w16 a b =? 3); [|apply safe_err].
    apply safe_bind; [apply ch3_read_safe|]. intros [[[bk inp] la] acts] _. apply safe_ok. }
  destruct (kind =? 3); [|apply safe_err].
  destruct (w16 a b =? 1); [|apply safe_err].
  apply safe_bind; [apply gsub81_read_safe|]. intros [[[inp bk] la] subst] _. apply safe_ok.
Qed.
