(* C08C/Proofs_chain.v — ChainedSeqContext1 and ChainedSeqContext2. *)
From Coq Require Import List NArith ZArith Bool Lia FMapPositive.
From Coq Require Import ZifyBool ZifyNat ZifyN.
From Common Require Import Bytes Outcome.
From C08 Require Import Model ModelCD ModelSub Proofs Proofs_cd Proofs_sub.
From C08C Require Import ModelCtx ModelChain Util Proofs_gen Proofs_seq.
Import ListNotations.
Local Open Scope N_scope.
Ltac Zify.zify_post_hook ::= Z.div_mod_to_equations.

(* ------------------------------------------------------------------ *)
(* ChainedSeqRule / ChainedClassSeqRule                                  *)

Lemma crule_len r : lenN (crule_bytes r) = crule_size r.
Proof. unfold crule_bytes, crule_size. lens. rewrite acts_lenN. lia. Qed.

Definition crule_ok' (r : crule) : bool := crule_ok r && crule_counts_ok r.

Lemma crule_rt r tail : crule_ok' r = true -> crule_read (crule_bytes r ++ tail) = Ok r.
Proof.
  unfold crule_ok', crule_ok, crule_counts_ok. intros H.
  apply andb_true_iff in H as [H C]. apply andb_true_iff in H as [H Ha].
  apply andb_true_iff in H as [H Hl]. apply andb_true_iff in H as [Hb Hi].
  apply andb_true_iff in C as [C Ca]. apply andb_true_iff in C as [C Cl]. apply andb_true_iff in C as [Cb Ci].
  destruct r as [back inp look acts]. cbn [cr_back cr_in cr_look cr_acts] in *.
  unfold crule_bytes, crule_read. cbn [cr_back cr_in cr_look cr_acts]. rewrite <- !app_assoc.
  rewrite rd_slice_flat by (try (apply u16s_ok_Forall; exact Hb); lia). cbn [obind fst snd].
  change (be16 (lenN inp + 1) ++ ?x) with (((lenN inp + 1) / 256) mod 256 :: (lenN inp + 1) mod 256 :: x).
  cbv iota. rewrite w16_be16_eq by lia.
  replace ((lenN inp + 1 + 65535) mod 65536) with (lenN inp) by lia.
  rewrite lenN_length, rd_u16s_flat by (apply u16s_ok_Forall; exact Hi). cbn [obind fst snd].
  rewrite rd_slice_flat by (try (apply u16s_ok_Forall; exact Hl); lia). cbn [obind fst snd].
  change (be16 (lenN acts) ++ ?x) with ((lenN acts / 256) mod 256 :: lenN acts mod 256 :: x).
  cbv iota. rewrite w16_be16_eq by lia.
  rewrite lenN_length, rd_acts_flat by exact Ha. reflexivity.
Qed.

Lemma crule_read_safe l : safe (crule_read l).
Proof.
  unfold crule_read.
  apply safe_bind; [apply rd_slice_safe|intros xb _].
  destruct (snd xb) as [|a [|b r1]]; try apply safe_err.
  apply safe_bind; [apply rd_u16s_safe|intros xi _].
  apply safe_bind; [apply rd_slice_safe|intros xl _].
  destruct (snd xl) as [|c [|d r3]]; try apply safe_err.
  apply safe_bind; [apply rd_acts_safe|intros xa _]. apply safe_ok.
Qed.

Lemma crule_fields_fit r : crule_counts_ok r = true -> Forall (fun v => v < 65536) (crule_fields r).
Proof.
  unfold crule_counts_ok, crule_fields. intros C.
  apply andb_true_iff in C as [C Ca]. apply andb_true_iff in C as [C Cl]. apply andb_true_iff in C as [Cb Ci].
  repeat constructor; cbv beta; lia.
Qed.

Lemma csets_ok' rules :
  forallb (oset_all crule_ok) rules = true -> csets_counts_ok rules = true ->
  forallb (oset_all crule_ok') rules = true.
Proof. intros H1 H2. unfold crule_ok'. apply forallb_oset_and; assumption. Qed.

Lemma csets_fields_fit rules p :
  sets_fit crule_size rules p = true -> csets_counts_ok rules = true ->
  Forall (fun v => v < 65536) (csets_fields rules).
Proof.
  intros Hf Hc. unfold csets_fields. apply Forall_app. split.
  - apply oset_fields_fit. eapply sets_fit_local. exact Hf.
  - apply (rule_fields_fit _ crule_fields crule_counts_ok); [exact crule_fields_fit|exact Hc].
Qed.

(* ------------------------------------------------------------------ *)
(* ChainedSeqContext1                                                   *)

Lemma ch1_len_agrees t rules b :
  keys_ok t = true -> M_ch1_encode t rules = Ok b -> M_ch1_len t rules = Ok (lenN b).
Proof.
  unfold M_ch1_encode, M_ch1_len. cbv zeta. intros Hk.
  destruct (M_cov_encode_len t) as [n| | |] eqn:Hn; cbn [obind]; try discriminate.
  destruct (_ || _); [discriminate|].
  destruct (M_cov_encode t) as [cb| | |] eqn:Hc; cbn [obind]; try discriminate.
  intros H. apply ok_inj in H. subst b.
  rewrite (cov_len_agrees t cb Hk Hc) in Hn. apply ok_inj in Hn. subst n.
  f_equal. lens. rewrite (sets_lenN _ _ _ crule_len), set_offs_lenN. fold (lenN cb). lia.
Qed.

Lemma ch1_roundtrip gl rules b pre post :
  ch1_wf gl rules = true -> M_ch1_encode (S_cov_table gl) rules = Ok b ->
  M_ch1_read (pre ++ b ++ post) (lenN pre) = Ok (S_cov_pairs gl, rules).
Proof.
  unfold ch1_wf, gset_ok. intros Hwf.
  apply andb_true_iff in Hwf as [Hwf Hr]. apply andb_true_iff in Hwf as [Hg Hlen].
  apply andb_true_iff in Hg as [Hs Hg]. apply Nat.eqb_eq in Hlen.
  unfold M_ch1_encode. cbv zeta.
  set (cnt := lenN rules). set (off := 6 + 2 * cnt).
  destruct (M_cov_encode_len (S_cov_table gl)) as [n| | |] eqn:Hn; cbn [obind]; try discriminate.
  destruct (65535 <? off) eqn:Hov; cbn [orb]; [discriminate|].
  destruct (sets_fit crule_size rules (off + n)) eqn:Hfit; cbn [negb orb]; [|discriminate].
  destruct (csets_counts_ok rules) eqn:Hcnts; cbn [negb]; [|discriminate].
  destruct (M_cov_encode (S_cov_table gl)) as [cb| | |] eqn:Hc; cbn [obind]; try discriminate.
  intros H. apply ok_inj in H. subst b.
  pose proof Hn as Hn'. rewrite (cov_encode_len_ok gl cb Hg Hc) in Hn'. apply ok_inj in Hn'. subst n.
  set (offs := set_offs crule_size rules (off + lenN cb)) in *.
  assert (Hoffs_len : length offs = length rules) by apply set_offs_length.
  assert (Hoffs_ok : Forall (fun x => x < 65536) offs) by (apply sets_fit_Forall; exact Hfit).
  set (SB := sets_bytes crule_size crule_bytes rules).
  set (hdr := [0; 1] ++ be16 off ++ be16 cnt ++ flat_map be16 offs).
  set (D := pre ++ ([0; 1] ++ be16 off ++ be16 cnt ++ flat_map be16 offs ++ cb ++ SB) ++ post).
  assert (HD : D = pre ++ (hdr ++ cb) ++ (SB ++ post)) by (unfold D, hdr; now rewrite <- !app_assoc).
  assert (Hseek : seek D (lenN pre + 2)
                  = be16 off ++ be16 cnt ++ flat_map be16 offs ++ cb ++ SB ++ post).
  { unfold D. rewrite <- !app_assoc. apply (seek_at pre [0; 1]). }
  unfold M_ch1_read. rewrite Hseek.
  change (be16 off ++ ?x) with ((off / 256) mod 256 :: off mod 256 :: x).
  cbv iota. rewrite w16_be16_eq by lia.
  assert (Hcnt : cnt = lenN offs) by (unfold cnt, lenN; now rewrite Hoffs_len).
  rewrite Hcnt at 1.
  rewrite rd_slice_flat by (try exact Hoffs_ok; rewrite <- Hcnt; unfold off in Hov; lia).
  cbn [obind fst].
  assert (Hhdr : lenN hdr = off) by (unfold hdr; lens; rewrite <- Hcnt; unfold off; lia).
  rewrite HD at 1. rewrite (cov_at gl hdr pre _ cb off Hs Hg Hc) by (symmetry; exact Hhdr).
  cbn [obind].
  rewrite prune_pair_same by (unfold S_cov_pairs; rewrite cov_pairs_length; lia).
  cbn [fst snd]. rewrite as_table_pairs, Hn. cbn [obind].
  assert (HD2 : D = (pre ++ hdr ++ cb) ++ SB ++ post) by (unfold D, hdr; now rewrite <- !app_assoc).
  rewrite HD2. unfold offs, SB.
  rewrite (rd_sets_ok _ crule_size crule_bytes crule_read crule_ok' crule_len crule_rt).
  - cbn [obind]. fold offs. rewrite <- Hcnt. fold off. rewrite Hfit. reflexivity.
  - apply csets_ok'; assumption.
  - eapply sets_fit_local. exact Hfit.
  - rewrite !lenN_app, Hhdr. lia.
  - unfold off. lia.
Qed.

Lemma ch1_refuses_or_fits t rules :
  M_ch1_encode t rules = Panic \/
  exists b n, M_ch1_encode t rules = Ok b /\ M_cov_encode_len t = Ok n /\
              Forall (fun v => v < 65536) (M_ch1_fields n rules).
Proof.
  unfold M_ch1_encode, M_ch1_fields. cbv zeta.
  set (cnt := lenN rules). set (off := 6 + 2 * cnt).
  destruct (cov_encode_cases t) as [(cb & n & Hc & Hn)|[Hc Hn]]; rewrite Hn; cbn [obind]; [|left; reflexivity].
  destruct (65535 <? off) eqn:Hov; cbn [orb]; [left; reflexivity|].
  destruct (sets_fit crule_size rules (off + n)) eqn:Hfit; cbn [negb orb]; [|left; reflexivity].
  destruct (csets_counts_ok rules) eqn:Hcnts; cbn [negb]; [|left; reflexivity].
  rewrite Hc. cbn [obind]. right. eexists. exists n. split; [reflexivity|]. split; [reflexivity|].
  constructor; [lia|]. constructor; [unfold off in Hov; lia|].
  apply Forall_app. split; [apply sets_fit_Forall; exact Hfit|].
  eapply csets_fields_fit; eassumption.
Qed.

Lemma ch1_read_safe data pos : bytes_lt data -> safe (M_ch1_read data pos).
Proof.
  intros Hb. unfold M_ch1_read.
  destruct (seek data (pos + 2)) as [|a [|b r]]; try apply safe_err.
  apply safe_bind; [apply rd_slice_safe|intros x _].
  apply safe_bind; [apply cov_read_safe|intros cov Hcov].
  assert (Hn : exists n, M_cov_encode_len (as_table (fst (prune_pair cov (fst x)))) = Ok n).
  { unfold prune_pair. destruct (lenN (fst x) <? lenN cov); cbn [fst].
    - eapply cov_encode_len_of_pruned; eassumption.
    - eapply cov_encode_len_of_read; eassumption. }
  destruct Hn as [n Hn]. rewrite Hn. cbn [obind].
  apply safe_bind; [apply rd_sets_safe; exact crule_read_safe|intros sets _].
  safe_tac.
Qed.

(* ------------------------------------------------------------------ *)
(* ChainedSeqContext2                                                   *)

Lemma cd_nz_ok t : cd_nz t = true -> cd_ok t = true /\ S_cd_nonzero t = t.
Proof.
  unfold cd_nz. intros H. apply andb_true_iff in H as [H1 H2]. split; [exact H1|].
  unfold S_cd_nonzero. clear H1. induction t as [|p t IH]; cbn [filter forallb] in *; [reflexivity|].
  apply andb_true_iff in H2 as [Hp Ht]. rewrite Hp, IH by exact Ht. reflexivity.
Qed.

Lemma ch2_len_agrees t cb ci cl rules b :
  keys_ok t = true -> cd_ok cb = true -> cd_ok ci = true -> cd_ok cl = true ->
  M_ch2_encode t cb ci cl rules = Ok b -> M_ch2_len t cb ci cl rules = Ok (lenN b).
Proof.
  unfold M_ch2_encode, M_ch2_len. cbv zeta. intros Hk H1 H2 H3.
  destruct (M_cov_encode_len t) as [n| | |] eqn:Hn; cbn [obind]; try discriminate.
  destruct (_ || _); [discriminate|].
  destruct (M_cov_encode t) as [cvb| | |] eqn:Hc; cbn [obind]; try discriminate.
  destruct (M_cd_append cb) as [b1| | |] eqn:E1; cbn [obind]; try discriminate.
  destruct (M_cd_append ci) as [b2| | |] eqn:E2; cbn [obind]; try discriminate.
  destruct (M_cd_append cl) as [b3| | |] eqn:E3; cbn [obind]; try discriminate.
  intros H. apply ok_inj in H. subst b.
  rewrite (cov_len_agrees t cvb Hk Hc) in Hn. apply ok_inj in Hn. subst n.
  rewrite (cd_len_agrees cb b1 H1 E1), (cd_len_agrees ci b2 H2 E2), (cd_len_agrees cl b3 H3 E3).
  f_equal. lens. rewrite (sets_lenN _ _ _ crule_len), set_offs_lenN.
  fold (lenN cvb) (lenN b1) (lenN b2) (lenN b3). lia.
Qed.

Lemma ch2_roundtrip gl cb ci cl rules b pre post :
  ch2_wf gl cb ci cl rules = true -> M_ch2_encode (S_cov_table gl) cb ci cl rules = Ok b ->
  M_ch2_read (pre ++ b ++ post) (lenN pre) = Ok (ch2_norm gl cb ci cl rules).
Proof.
  unfold ch2_wf, gset_ok. intros Hwf.
  apply andb_true_iff in Hwf as [Hwf Hr]. apply andb_true_iff in Hwf as [Hwf N3].
  apply andb_true_iff in Hwf as [Hwf N2]. apply andb_true_iff in Hwf as [Hg N1].
  apply andb_true_iff in Hg as [Hs Hg].
  destruct (cd_nz_ok cb N1) as [K1 Z1]. destruct (cd_nz_ok ci N2) as [K2 Z2]. destruct (cd_nz_ok cl N3) as [K3 Z3].
  unfold M_ch2_encode. cbv zeta.
  set (cnt := lenN rules). set (off := 12 + 2 * cnt).
  destruct (M_cov_encode_len (S_cov_table gl)) as [n| | |] eqn:Hn; cbn [obind]; try discriminate.
  set (l1 := M_cd_append_len cb). set (l2 := M_cd_append_len ci). set (l3 := M_cd_append_len cl).
  destruct (65535 <? off + n + l1 + l2) eqn:Hov; cbn [orb]; [discriminate|].
  destruct (sets_fit crule_size rules (off + n + l1 + l2 + l3)) eqn:Hfit; cbn [negb orb]; [|discriminate].
  destruct (csets_counts_ok rules) eqn:Hcnts; cbn [negb]; [|discriminate].
  destruct (M_cov_encode (S_cov_table gl)) as [cvb| | |] eqn:Hc; cbn [obind]; try discriminate.
  destruct (M_cd_append cb) as [b1| | |] eqn:E1; cbn [obind]; try discriminate.
  destruct (M_cd_append ci) as [b2| | |] eqn:E2; cbn [obind]; try discriminate.
  destruct (M_cd_append cl) as [b3| | |] eqn:E3; cbn [obind]; try discriminate.
  intros H. apply ok_inj in H. subst b.
  pose proof Hn as Hn'. rewrite (cov_encode_len_ok gl cvb Hg Hc) in Hn'. apply ok_inj in Hn'. subst n.
  assert (L1 : l1 = lenN b1) by (unfold l1; apply cd_len_agrees; assumption).
  assert (L2 : l2 = lenN b2) by (unfold l2; apply cd_len_agrees; assumption).
  assert (L3 : l3 = lenN b3) by (unfold l3; apply cd_len_agrees; assumption).
  set (total := off + lenN cvb + l1 + l2 + l3) in *.
  set (offs := set_offs crule_size rules total) in *.
  assert (Hoffs_len : length offs = length rules) by apply set_offs_length.
  assert (Hoffs_ok : Forall (fun x => x < 65536) offs) by (apply sets_fit_Forall; exact Hfit).
  set (SB := sets_bytes crule_size crule_bytes rules).
  set (hdr := [0; 2] ++ be16 off ++ be16 (off + lenN cvb) ++ be16 (off + lenN cvb + l1) ++
              be16 (off + lenN cvb + l1 + l2) ++ be16 cnt ++ flat_map be16 offs).
  set (D := pre ++ ([0; 2] ++ be16 off ++ be16 (off + lenN cvb) ++ be16 (off + lenN cvb + l1) ++
                    be16 (off + lenN cvb + l1 + l2) ++ be16 cnt ++ flat_map be16 offs ++
                    cvb ++ b1 ++ b2 ++ b3 ++ SB) ++ post).
  assert (Hseek : seek D (lenN pre + 2)
                  = be16 off ++ be16 (off + lenN cvb) ++ be16 (off + lenN cvb + l1) ++
                    be16 (off + lenN cvb + l1 + l2) ++ be16 cnt ++ flat_map be16 offs ++
                    cvb ++ b1 ++ b2 ++ b3 ++ SB ++ post).
  { unfold D. rewrite <- !app_assoc. apply (seek_at pre [0; 2]). }
  unfold M_ch2_read. rewrite Hseek.
  change (be16 off ++ be16 (off + lenN cvb) ++ be16 (off + lenN cvb + l1) ++ be16 (off + lenN cvb + l1 + l2) ++ ?x)
    with ((off / 256) mod 256 :: off mod 256 ::
          ((off + lenN cvb) / 256) mod 256 :: (off + lenN cvb) mod 256 ::
          ((off + lenN cvb + l1) / 256) mod 256 :: (off + lenN cvb + l1) mod 256 ::
          ((off + lenN cvb + l1 + l2) / 256) mod 256 :: (off + lenN cvb + l1 + l2) mod 256 :: x).
  cbv iota. rewrite !w16_be16_eq by lia.
  assert (Hcnt : cnt = lenN offs) by (unfold cnt, lenN; now rewrite Hoffs_len).
  rewrite Hcnt at 1.
  rewrite rd_slice_flat by (try exact Hoffs_ok; rewrite <- Hcnt; unfold off in Hov; lia).
  cbn [obind fst].
  assert (Hhdr : lenN hdr = off) by (unfold hdr; lens; rewrite <- Hcnt; unfold off; lia).
  assert (HD0 : D = pre ++ (hdr ++ cvb) ++ (b1 ++ b2 ++ b3 ++ SB ++ post))
    by (unfold D, hdr; now rewrite <- !app_assoc).
  assert (HD1 : D = pre ++ ((hdr ++ cvb) ++ b1) ++ (b2 ++ b3 ++ SB ++ post))
    by (unfold D, hdr; now rewrite <- !app_assoc).
  assert (HD2 : D = pre ++ ((hdr ++ cvb ++ b1) ++ b2) ++ (b3 ++ SB ++ post))
    by (unfold D, hdr; now rewrite <- !app_assoc).
  assert (HD3 : D = pre ++ ((hdr ++ cvb ++ b1 ++ b2) ++ b3) ++ (SB ++ post))
    by (unfold D, hdr; now rewrite <- !app_assoc).
  rewrite HD0 at 1. rewrite (cov_at gl hdr pre _ cvb off Hs Hg Hc) by (symmetry; exact Hhdr).
  cbn [obind].
  rewrite HD1 at 1. rewrite (cd_at cb (hdr ++ cvb) pre _ b1 (off + lenN cvb) K1 E1)
    by (rewrite lenN_app, Hhdr; reflexivity).
  cbn [obind].
  rewrite HD2 at 1. rewrite (cd_at ci (hdr ++ cvb ++ b1) pre _ b2 (off + lenN cvb + l1) K2 E2)
    by (rewrite !lenN_app, Hhdr, L1; lia).
  cbn [obind].
  rewrite HD3 at 1. rewrite (cd_at cl (hdr ++ cvb ++ b1 ++ b2) pre _ b3 (off + lenN cvb + l1 + l2) K3 E3)
    by (rewrite !lenN_app, Hhdr, L1, L2; lia).
  cbn [obind].
  rewrite Z1, Z2, Z3.
  set (k := N.to_nat (cd_num_classes ci)).
  unfold offs. rewrite <- set_offs_firstn.
  assert (HD4 : D = (pre ++ hdr ++ cvb ++ b1 ++ b2 ++ b3) ++
                    sets_bytes crule_size crule_bytes (firstn k rules) ++
                    (sets_bytes crule_size crule_bytes (skipn k rules) ++ post)).
  { unfold D, hdr, SB. rewrite (sets_bytes_split _ crule_size crule_bytes rules k). now rewrite <- !app_assoc. }
  rewrite HD4.
  rewrite (rd_sets_ok _ crule_size crule_bytes crule_read crule_ok' crule_len crule_rt).
  - cbn [obind]. rewrite as_table_pairs, Hn. cbn [obind].
    fold l1 l2 l3.
    rewrite (sets_fit_mono _ crule_size (firstn k rules) total); [reflexivity| |].
    + pose proof (lenN_firstn_le rules k). fold cnt in H. unfold total, off. lia.
    + apply sets_fit_firstn. exact Hfit.
  - apply csets_ok'; [apply forallb_firstn; exact Hr|apply forallb_firstn; exact Hcnts].
  - eapply sets_fit_local. apply sets_fit_firstn. exact Hfit.
  - rewrite !lenN_app, Hhdr, <- L1, <- L2, <- L3. unfold total. lia.
  - unfold total, off. lia.
Qed.

Lemma ch2_refuses_or_fits t cb ci cl rules :
  M_ch2_encode t cb ci cl rules = Panic \/
  exists b n, M_ch2_encode t cb ci cl rules = Ok b /\ M_cov_encode_len t = Ok n /\
    Forall (fun v => v < 65536)
      (M_ch2_fields n (M_cd_append_len cb) (M_cd_append_len ci) (M_cd_append_len cl) rules).
Proof.
  unfold M_ch2_encode, M_ch2_fields. cbv zeta.
  set (cnt := lenN rules). set (off := 12 + 2 * cnt).
  destruct (cov_encode_cases t) as [(cvb & n & Hc & Hn)|[Hc Hn]]; rewrite Hn; cbn [obind]; [|left; reflexivity].
  set (l1 := M_cd_append_len cb). set (l2 := M_cd_append_len ci). set (l3 := M_cd_append_len cl).
  destruct (65535 <? off + n + l1 + l2) eqn:Hov; cbn [orb]; [left; reflexivity|].
  destruct (sets_fit crule_size rules (off + n + l1 + l2 + l3)) eqn:Hfit; cbn [negb orb]; [|left; reflexivity].
  destruct (csets_counts_ok rules) eqn:Hcnts; cbn [negb]; [|left; reflexivity].
  rewrite Hc. cbn [obind].
  destruct (cd_append_cases cb) as [[b1 E1]|E1]; rewrite E1; cbn [obind]; [|left; reflexivity].
  destruct (cd_append_cases ci) as [[b2 E2]|E2]; rewrite E2; cbn [obind]; [|left; reflexivity].
  destruct (cd_append_cases cl) as [[b3 E3]|E3]; rewrite E3; cbn [obind]; [|left; reflexivity].
  right. eexists. exists n. split; [reflexivity|]. split; [reflexivity|].
  repeat (constructor; [unfold off in Hov; lia|]).
  apply Forall_app. split; [apply sets_fit_Forall; exact Hfit|].
  eapply csets_fields_fit; eassumption.
Qed.

Lemma ch2_read_safe data pos : bytes_lt data -> safe (M_ch2_read data pos).
Proof.
  intros Hb. unfold M_ch2_read.
  destruct (seek data (pos + 2)) as [|a0 [|a1 [|b0 [|b1 [|c0 [|c1 [|d0 [|d1 r]]]]]]]]; try apply safe_err.
  apply safe_bind; [apply rd_slice_safe|intros x _].
  apply safe_bind; [apply cov_read_safe|intros cov Hcov].
  apply safe_bind; [apply cd_read_safe|intros cb _].
  apply safe_bind; [apply cd_read_safe|intros ci _].
  apply safe_bind; [apply cd_read_safe|intros cl _].
  apply safe_bind; [apply rd_sets_safe; exact crule_read_safe|intros sets _].
  destruct (cov_encode_len_of_read data _ cov Hb Hcov) as [n Hn]. rewrite Hn. cbn [obind].
  safe_tac.
Qed.
