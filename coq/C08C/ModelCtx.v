(* C08C/ModelCtx.v — executable models of the binary codecs of the contextual
   lookup subtables SeqContext1, SeqContext2 and SeqContext3
   (opentype/gtab/nested.go: read..., encodeLen, encode), and the pieces shared
   with the chained formats (ModelChain.v): sequence-lookup records, the
   two-level "rule set -> rule" offset arrays, lists of coverage tables.

   The encoders mirror the code with fixes/C08-context-offset-guards.diff
   applied: SeqContext1.encode panics when the coverage offset passes 65535
   (before the repair every 16-bit field was truncated silently);
   SeqContext3.encode panics when a coverage offset passes 65535.
   SeqContext2.encode already refused ("classDefOffset too large").

   Conventions (as in C08/Model.v, C08/ModelSub.v, which are imported, not
   copied): bytes are [list N]; a parser positioned at [pos] is
   [seek data pos]; a coverage.Table is the list of its (gid, index) entries
   sorted by gid, a coverage.Set its strictly increasing glyph list, a
   classdef.Table the list of its (gid, class) entries sorted by gid;
   a rule set that is nil in Go is [None], a non-nil one [Some rules].
   [be16 x] writes the two low bytes of x: that is byte(x>>8), byte(x) of an
   int and uint16(x) followed by the same two appends. *)
From Coq Require Import List NArith ZArith Bool Lia.
From Common Require Import Bytes Outcome.
From C08 Require Import Model ModelCD ModelSub.
Import ListNotations.
Local Open Scope N_scope.

(* ------------------------------------------------------------------ *)
(* SeqLookup records {SequenceIndex; LookupListIndex}                   *)

Definition action := (N * N)%type.
Definition act_bytes (a : action) : list N := be16 (fst a) ++ be16 (snd a).
Definition acts_bytes (l : list action) : list N := flat_map act_bytes l.

(* readNested: seqLookupCount records of 4 bytes *)
Fixpoint rd_acts (n : nat) (r : list N) : outcome (list action * list N) :=
  match n with
  | O => Ok ([], r)
  | S n' =>
    match r with
    | a :: b :: c :: d :: r' =>
      x <- rd_acts n' r' ;; Ok ((w16 a b, w16 c d) :: fst x, snd x)
    | _ => Err
    end
  end.

(* ------------------------------------------------------------------ *)
(* rule sets: an array of offsets to rule sets (0 = nil), each rule set an
   array of offsets (relative to the rule set) to its rules.  Generic in the
   rule type: SeqRule / ClassSeqRule and ChainedSeqRule / ChainedClassSeqRule *)

Section RuleSets.
  Variable R : Type.
  Variable r_size : R -> N.                    (* bytes of one rule *)
  Variable r_bytes : R -> list N.
  Variable r_read : list N -> outcome R.      (* the parser sits at the rule *)

  Fixpoint rules_size (rs : list R) : N :=
    match rs with [] => 0 | r :: t => r_size r + rules_size t end.
  Definition set_size (s : list R) : N := 2 + 2 * lenN s + rules_size s.
  Fixpoint sets_size (ss : list (option (list R))) : N :=
    match ss with
    | [] => 0
    | None :: t => sets_size t
    | Some s :: t => set_size s + sets_size t
    end.

  (* if rules == nil { continue }; offsets[i] = uint16(total); total += size *)
  Fixpoint set_offs (ss : list (option (list R))) (total : N) : list N :=
    match ss with
    | [] => []
    | None :: t => 0 :: set_offs t total
    | Some s :: t => total :: set_offs t (total + set_size s)
    end.
  (* pos := 2 + 2*count; for each rule: write pos; pos += size of the rule *)
  Fixpoint rule_offs (rs : list R) (pos : N) : list N :=
    match rs with [] => [] | r :: t => pos :: rule_offs t (pos + r_size r) end.

  Definition set_bytes (s : list R) : list N :=
    be16 (lenN s) ++ flat_map be16 (rule_offs s (2 + 2 * lenN s)) ++ flat_map r_bytes s.
  Definition oset_bytes (o : option (list R)) : list N :=
    match o with None => [] | Some s => set_bytes s end.
  Definition sets_bytes (ss : list (option (list R))) : list N := flat_map oset_bytes ss.

  (* the offset guards of the chained formats: "if total > 0xFFFF { panic }"
     before a rule set offset is stored, "if pos > 0xFFFF { panic }" before a
     rule offset is written; the chained readers make the same tests *)
  Fixpoint rule_offs_fit (rs : list R) (pos : N) : bool :=
    match rs with [] => true | r :: t => (pos <=? 65535) && rule_offs_fit t (pos + r_size r) end.
  Fixpoint sets_fit (ss : list (option (list R))) (total : N) : bool :=
    match ss with
    | [] => true
    | None :: t => sets_fit t total
    | Some s :: t =>
      (total <=? 65535) && rule_offs_fit s (2 + 2 * lenN s) && sets_fit t (total + set_size s)
    end.

  (* readers: SeekPos(base + offset), then the rule *)
  Fixpoint rd_rules (data : list N) (base : N) (offs : list N) : outcome (list R) :=
    match offs with
    | [] => Ok []
    | o :: t =>
      r <- r_read (seek data (base + o)) ;;
      tl <- rd_rules data base t ;;
      Ok (r :: tl)
    end.
  (* offset 0: the rule set stays nil; otherwise ReadUint16Slice at the rule
     set gives the rule offsets, Rules[i] = make([]*Rule, count) is non-nil *)
  Fixpoint rd_sets (data : list N) (pos : N) (offs : list N) : outcome (list (option (list R))) :=
    match offs with
    | [] => Ok []
    | o :: t =>
      if o =? 0 then tl <- rd_sets data pos t ;; Ok (None :: tl)
      else
        x <- rd_slice (seek data (pos + o)) ;;
        s <- rd_rules data (pos + o) (fst x) ;;
        tl <- rd_sets data pos t ;;
        Ok (Some s :: tl)
    end.

  Definition oset_all (f : R -> bool) (o : option (list R)) : bool :=
    match o with None => true | Some s => forallb f s end.

  (* every count and offset the encoder passes through a 16-bit field, as the
     unbounded value it holds in the Go int: per rule set its offset, its rule
     count and the offset of every rule *)
  Definition oset_fields (o : option (list R)) : list N :=
    match o with None => [] | Some s => lenN s :: rule_offs s (2 + 2 * lenN s) end.
End RuleSets.

Arguments rules_size {R}. Arguments set_size {R}. Arguments sets_size {R}.
Arguments set_offs {R}. Arguments rule_offs {R}. Arguments set_bytes {R}.
Arguments oset_bytes {R}. Arguments sets_bytes {R}. Arguments rule_offs_fit {R}.
Arguments sets_fit {R}. Arguments rd_rules {R}. Arguments rd_sets {R}.
Arguments oset_all {R}. Arguments oset_fields {R}.

(* ------------------------------------------------------------------ *)
(* SeqRule {Input []glyph.ID; Actions} and ClassSeqRule {Input []uint16;
   Actions}: the same layout, written by two copies of the same code     *)

Definition srule := (list N * list action)%type.          (* (Input, Actions) *)
Definition srule_size (r : srule) : N := 4 + 2 * lenN (fst r) + 4 * lenN (snd r).
(* glyphCount := len(rule.Input) + 1; seqLookupCount := len(rule.Actions) *)
Definition srule_bytes (r : srule) : list N :=
  be16 (lenN (fst r) + 1) ++ be16 (lenN (snd r)) ++ flat_map be16 (fst r) ++ acts_bytes (snd r).
(* glyphCount == 0 is rejected; glyphCount-1 glyphs, then the records *)
Definition srule_read (r : list N) : outcome srule :=
  match r with
  | a :: b :: c :: d :: r' =>
    let gc := w16 a b in
    if gc =? 0 then Err
    else
      x <- rd_u16s (N.to_nat (gc - 1)) r' ;;
      y <- rd_acts (N.to_nat (w16 c d)) (snd x) ;;
      Ok (fst x, fst y)
  | _ => Err
  end.
Definition srule_fields (r : srule) : list N := [lenN (fst r) + 1; lenN (snd r)].

Definition ssets := list (option (list srule)).

(* ------------------------------------------------------------------ *)
(* SeqContext1 {Cov coverage.Table; Rules [][]*SeqRule}                 *)

Definition M_seq1_len (cov : list (N * Z)) (rules : ssets) : outcome N :=
  n <- M_cov_encode_len cov ;;
  Ok (6 + 2 * lenN rules + sets_size srule_size rules + n).

Definition M_seq1_encode (cov : list (N * Z)) (rules : ssets) : outcome (list N) :=
  let cnt := lenN rules in
  let covOff := 6 + 2 * cnt + sets_size srule_size rules in
  cb <- M_cov_encode cov ;;                          (* total += l.Cov.EncodeLen() comes first *)
  if 65535 <? covOff then Panic                      (* "coverage offset overflow" *)
  else Ok ([0; 1] ++ be16 covOff ++ be16 cnt ++
           flat_map be16 (set_offs srule_size rules (6 + 2 * cnt)) ++
           sets_bytes srule_size srule_bytes rules ++ cb).

(* the values written into 16-bit offset and count fields *)
Definition M_seq1_fields (rules : ssets) : list N :=
  let cnt := lenN rules in
  (6 + 2 * cnt + sets_size srule_size rules) :: cnt ::
  set_offs srule_size rules (6 + 2 * cnt) ++
  flat_map (oset_fields srule_size) rules ++
  flat_map (fun o => match o with None => [] | Some s => flat_map srule_fields s end) rules.

(* readSeqContext1, after the dispatcher has read the format word at [pos] *)
Definition M_seq1_read (data : list N) (pos : N) : outcome (list (N * N) * ssets) :=
  match seek data (pos + 2) with
  | a :: b :: r =>
    x <- rd_slice r ;;
    cov <- M_cov_read data (pos + w16 a b) ;;
    let pr := prune_pair cov (fst x) in
    sets <- rd_sets srule_read data pos (snd pr) ;;
    Ok (fst pr, sets)
  | _ => Err
  end.

(* ------------------------------------------------------------------ *)
(* SeqContext2 {Cov; Input classdef.Table; Rules [][]*ClassSeqRule}      *)

(* classdef.Table.NumClasses: largest class + 1 *)
Definition cd_num_classes (t : list (N * N)) : N :=
  fold_left (fun m p => if m <? snd p then snd p else m) t 0 + 1.

Definition M_seq2_len (cov : list (N * Z)) (cls : list (N * N)) (rules : ssets) : outcome N :=
  n <- M_cov_encode_len cov ;;
  Ok (8 + 2 * lenN rules + n + M_cd_append_len cls + sets_size srule_size rules).

Definition M_seq2_encode (cov : list (N * Z)) (cls : list (N * N)) (rules : ssets) : outcome (list N) :=
  let cnt := lenN rules in
  let covOff := 8 + 2 * cnt + sets_size srule_size rules in
  n <- M_cov_encode_len cov ;;
  let cdOff := covOff + n in
  if 65535 <? cdOff then Panic                       (* "classDefOffset too large" *)
  else
    cb <- M_cov_encode cov ;;
    cd <- M_cd_append cls ;;
    Ok ([0; 2] ++ be16 covOff ++ be16 cdOff ++ be16 cnt ++
        flat_map be16 (set_offs srule_size rules (8 + 2 * cnt)) ++
        sets_bytes srule_size srule_bytes rules ++ cb ++ cd).

Definition M_seq2_fields (n : N) (rules : ssets) : list N :=
  let cnt := lenN rules in
  let covOff := 8 + 2 * cnt + sets_size srule_size rules in
  covOff :: (covOff + n) :: cnt ::
  set_offs srule_size rules (8 + 2 * cnt) ++
  flat_map (oset_fields srule_size) rules ++
  flat_map (fun o => match o with None => [] | Some s => flat_map srule_fields s end) rules.

(* readSeqContext2: the rule set offsets beyond the number of classes are
   dropped; "SeqContext2 too large" when the class definition offset of a
   re-encoding would not fit *)
Definition M_seq2_read (data : list N) (pos : N)
  : outcome (list (N * N) * list (N * N) * ssets) :=
  match seek data (pos + 2) with
  | a :: b :: c :: d :: r =>
    x <- rd_slice r ;;
    cov <- M_cov_read data (pos + w16 a b) ;;
    cls <- M_cd_read data (pos + w16 c d) ;;
    let offs := firstn (N.to_nat (cd_num_classes cls)) (fst x) in
    sets <- rd_sets srule_read data pos offs ;;
    n <- M_cov_encode_len (as_table cov) ;;
    if 65535 <? 8 + 2 * lenN sets + sets_size srule_size sets + n then Err
    else Ok (cov, cls, sets)
  | _ => Err
  end.

(* ------------------------------------------------------------------ *)
(* lists of coverage tables written one after the other                 *)

Fixpoint covs_len (ts : list (list (N * Z))) : outcome (list N) :=
  match ts with
  | [] => Ok []
  | t :: r => n <- M_cov_encode_len t ;; tl <- covs_len r ;; Ok (n :: tl)
  end.
Fixpoint covs_enc (ts : list (list (N * Z))) : outcome (list (list N)) :=
  match ts with
  | [] => Ok []
  | t :: r => b <- M_cov_encode t ;; tl <- covs_enc r ;; Ok (b :: tl)
  end.
Fixpoint sumN (l : list N) : N := match l with [] => 0 | n :: t => n + sumN t end.
(* offsets[i] = uint16(total); total += cov.EncodeLen() *)
Fixpoint cov_offs (lens : list N) (total : N) : list N :=
  match lens with [] => [] | n :: t => total :: cov_offs t (total + n) end.
(* "if total > 0xFFFF { panic }" before each of them *)
Fixpoint cov_offs_fit (lens : list N) (total : N) : bool :=
  match lens with [] => true | n :: t => (total <=? 65535) && cov_offs_fit t (total + n) end.

(* coverage.ReadSet / coverage.Read at each offset *)
Fixpoint rd_covsets (data : list N) (pos : N) (offs : list N) : outcome (list (list N)) :=
  match offs with
  | [] => Ok []
  | o :: t => s <- M_covset_read data (pos + o) ;; tl <- rd_covsets data pos t ;; Ok (s :: tl)
  end.
Fixpoint rd_covs (data : list N) (pos : N) (offs : list N) : outcome (list (list (N * N))) :=
  match offs with
  | [] => Ok []
  | o :: t => s <- M_cov_read data (pos + o) ;; tl <- rd_covs data pos t ;; Ok (s :: tl)
  end.

(* Set.ToTable: the table of a glyph set *)
Definition set_tables (sets : list (list N)) : list (list (N * Z)) := map S_cov_table sets.

(* ------------------------------------------------------------------ *)
(* SeqContext3 {Input []coverage.Set; Actions []SeqLookup}              *)

Definition M_seq3_len (inp : list (list N)) (acts : list action) : outcome N :=
  lens <- covs_len (set_tables inp) ;;
  Ok (6 + 2 * lenN inp + 4 * lenN acts + sumN lens).

Definition M_seq3_encode (inp : list (list N)) (acts : list action) : outcome (list N) :=
  let hdr := 6 + 2 * lenN inp + 4 * lenN acts in
  lens <- covs_len (set_tables inp) ;;
  if negb (cov_offs_fit lens hdr) then Panic         (* "coverage offset overflow" *)
  else
    cbs <- covs_enc (set_tables inp) ;;
    Ok ([0; 3] ++ be16 (lenN inp) ++ be16 (lenN acts) ++
        flat_map be16 (cov_offs lens hdr) ++ acts_bytes acts ++ concat cbs).

Definition M_seq3_fields (lens : list N) (inp : list (list N)) (acts : list action) : list N :=
  lenN inp :: lenN acts :: cov_offs lens (6 + 2 * lenN inp + 4 * lenN acts).

Definition M_seq3_read (data : list N) (pos : N) : outcome (list (list N) * list action) :=
  match seek data (pos + 2) with
  | a :: b :: c :: d :: r =>
    let gc := w16 a b in
    if gc =? 0 then Err                             (* "invalid glyph count" *)
    else
      x <- rd_u16s (N.to_nat gc) r ;;
      y <- rd_acts (N.to_nat (w16 c d)) (snd x) ;;
      sets <- rd_covsets data pos (fst x) ;;
      Ok (sets, fst y)
  | _ => Err
  end.

(* ------------------------------------------------------------------ *)
(* specification side: well-formed values (boolean)                    *)

Definition u16s_ok (l : list N) : bool := forallb (fun x => x <? 65536) l.
Definition acts_ok (l : list action) : bool :=
  forallb (fun a => (fst a <? 65536) && (snd a <? 65536)) l.
Definition srule_ok (r : srule) : bool := u16s_ok (fst r) && acts_ok (snd r).
Definition gset_ok (gl : list N) : bool := strictly_inc gl && glyphs_ok gl.

(* SeqContext1: valid coverage (glyph list gl, index = rank), one rule set
   per covered glyph, 16-bit glyph ids and record fields *)
Definition seq1_wf (gl : list N) (rules : ssets) : bool :=
  gset_ok gl && (length rules =? length gl)%nat && forallb (oset_all srule_ok) rules.

(* SeqContext2: valid coverage, valid class table, 16-bit classes and fields *)
Definition seq2_wf (gl : list N) (cls : list (N * N)) (rules : ssets) : bool :=
  gset_ok gl && cd_ok cls && forallb (oset_all srule_ok) rules.
(* what the reader returns: class-0 entries are not stored, rule sets for
   classes that do not occur are dropped *)
Definition seq2_norm (gl : list N) (cls : list (N * N)) (rules : ssets)
  : list (N * N) * list (N * N) * ssets :=
  (S_cov_pairs gl, S_cd_nonzero cls, firstn (N.to_nat (cd_num_classes cls)) rules).

(* SeqContext3: at least one input set (apply indexes Input[0]) *)
Definition seq3_wf (inp : list (list N)) (acts : list action) : bool :=
  negb (length inp =? 0)%nat && forallb gset_ok inp && acts_ok acts.
