(* C08C/Examples.v — non-vacuity: concrete non-trivial subtables satisfy the
   well-formedness predicates of the theorems, are encoded (the hypotheses
   "= Ok b" are met) and read back; values at the 16-bit limit on both sides. *)
From Coq Require Import List NArith ZArith Bool Lia.
From Common Require Import Bytes Outcome.
From C08 Require Import Model ModelCD ModelSub.
From C08C Require Import ModelCtx ModelChain ModelPre.
Import ListNotations.
Local Open Scope N_scope.

(* SeqContext1: coverage {3, 9}; glyph 3 has two rules, glyph 9 a nil rule set *)
Definition ex_seq1_rules : ssets := [Some [([5; 6], [(0, 1)]); ([7], [])]; None].
Example seq1_ex :
  seq1_wf [3; 9] ex_seq1_rules = true /\
  M_seq1_encode (S_cov_table [3; 9]) ex_seq1_rules =
    Ok [0;1; 0;34; 0;2; 0;10; 0;0;  0;2; 0;6; 0;18;  0;3; 0;1; 0;5; 0;6; 0;0; 0;1;  0;2; 0;0; 0;7;
        0;1; 0;2; 0;3; 0;9] /\
  M_seq1_len (S_cov_table [3; 9]) ex_seq1_rules = Ok 42.
Proof. vm_compute. repeat split; reflexivity. Qed.

Example seq1_ex_reads_back :
  match M_seq1_encode (S_cov_table [3; 9]) ex_seq1_rules with
  | Ok b => M_seq1_read ([1; 2; 3] ++ b ++ [9]) 3 = Ok (S_cov_pairs [3; 9], ex_seq1_rules)
  | _ => False
  end.
Proof. vm_compute. reflexivity. Qed.

(* nil, empty and non-empty rule sets side by side: all three survive *)
Example seq1_nil_vs_empty :
  seq1_wf [1; 2; 3] [None; Some []; Some [([], [])]] = true /\
  match M_seq1_encode (S_cov_table [1; 2; 3]) [None; Some []; Some [([], [])]] with
  | Ok b => M_seq1_read b 0 = Ok (S_cov_pairs [1; 2; 3], [None; Some []; Some [([], [])]])
  | _ => False
  end.
Proof. vm_compute. split; reflexivity. Qed.

(* at the limit: coverage offset 65534 is written, 65536 refused *)
Example seq1_limit :
  seq1_wf [7] [Some [(many 32759 9, [])]] = true /\
  match M_seq1_encode (S_cov_table [7]) [Some [(many 32759 9, [])]] with
  | Ok b => lenN b = 65540 /\
            match M_seq1_read b 0 with
            | Ok ([(7, 0)], [Some [(inp, [])]]) => lenN inp = 32759 /\ forallb (N.eqb 9) inp = true
            | _ => False end
  | _ => False end /\
  seq1_wf [7] [Some [(many 32760 9, [])]] = true /\
  M_seq1_encode (S_cov_table [7]) [Some [(many 32760 9, [])]] = Panic.
Proof. vm_compute. repeat split; reflexivity. Qed.

(* SeqContext2: classes 1 and 2 and an explicit class-0 entry; four rule sets
   for three classes: the reader drops the entry and the fourth rule set *)
Definition ex_seq2_cls : list (N * N) := [(3, 1); (4, 0); (5, 2)].
Definition ex_seq2_rules : ssets := [None; Some [([1; 2], [(0, 1)])]; Some []; Some [([1], [])]].
Example seq2_ex :
  seq2_wf [3; 5] ex_seq2_cls ex_seq2_rules = true /\
  match M_seq2_encode (S_cov_table [3; 5]) ex_seq2_cls ex_seq2_rules with
  | Ok b => M_seq2_len (S_cov_table [3; 5]) ex_seq2_cls ex_seq2_rules = Ok (lenN b) /\
            M_seq2_read ([0] ++ b ++ [7; 7]) 1 = Ok (seq2_norm [3; 5] ex_seq2_cls ex_seq2_rules) /\
            seq2_norm [3; 5] ex_seq2_cls ex_seq2_rules =
              (S_cov_pairs [3; 5], [(3, 1); (5, 2)], [None; Some [([1; 2], [(0, 1)])]; Some []])
  | _ => False
  end.
Proof. vm_compute. repeat split; reflexivity. Qed.

(* SeqContext3: two input positions sharing one coverage set *)
Example seq3_ex :
  seq3_wf [[3; 4]; [3; 4]] [(0, 2); (1, 3)] = true /\
  match M_seq3_encode [[3; 4]; [3; 4]] [(0, 2); (1, 3)] with
  | Ok b => lenN b = 34 /\ M_seq3_len [[3; 4]; [3; 4]] [(0, 2); (1, 3)] = Ok 34 /\
            M_seq3_read b 0 = Ok ([[3; 4]; [3; 4]], [(0, 2); (1, 3)])
  | _ => False
  end.
Proof. vm_compute. repeat split; reflexivity. Qed.

Example seq3_limit :
  seq3_wf [[1; 2; 3]] (many 16381 (1, 2)) = true /\
  match M_seq3_encode [[1; 2; 3]] (many 16381 (1, 2)) with
  | Ok b => lenN b = 65542 /\
            match M_seq3_read b 0 with
            | Ok ([[1; 2; 3]], acts) => lenN acts = 16381
            | _ => False end
  | _ => False end /\
  M_seq3_encode [[1; 2; 3]] (many 16382 (1, 2)) = Panic.
Proof. vm_compute. repeat split; reflexivity. Qed.

(* ChainedSeqContext1: backtrack / lookahead of length 0 and > 0 *)
Definition ex_ch1_rules : csets :=
  [Some [crule_of [1] [2] [3] [(0, 9)]; crule_of [] [] [] []]; None; Some []].
Example ch1_ex :
  ch1_wf [3; 4; 8] ex_ch1_rules = true /\
  match M_ch1_encode (S_cov_table [3; 4; 8]) ex_ch1_rules with
  | Ok b => M_ch1_len (S_cov_table [3; 4; 8]) ex_ch1_rules = Ok (lenN b) /\
            M_ch1_read ([5; 5] ++ b) 2 = Ok (S_cov_pairs [3; 4; 8], ex_ch1_rules)
  | _ => False
  end.
Proof. vm_compute. repeat split; reflexivity. Qed.

(* the counts of a rule at the limit: 65535 backtrack glyphs are written,
   65536 refused; 65534 input glyphs (count 65535) written, 65535 refused *)
Example ch1_count_limit :
  match M_ch1_encode (S_cov_table [3]) [Some [crule_of (many 65535 4) [] [] []]] with
  | Ok b => lenN b = 131096 | _ => False end /\
  M_ch1_encode (S_cov_table [3]) [Some [crule_of (many 65536 4) [] [] []]] = Panic /\
  match M_ch1_encode (S_cov_table [3]) [Some [crule_of [] (many 65534 4) [] []]] with
  | Ok b => lenN b = 131094 | _ => False end /\
  M_ch1_encode (S_cov_table [3]) [Some [crule_of [] (many 65535 4) [] []]] = Panic.
Proof. vm_compute. repeat split; reflexivity. Qed.

(* ChainedSeqContext2 *)
Definition ex_ch2_rules : csets := [None; Some [crule_of [1] [1] [] [(0, 9)]]; Some []].
Example ch2_ex :
  ch2_wf [3] [(1, 1); (2, 1)] [(3, 1)] [] ex_ch2_rules = true /\
  match M_ch2_encode (S_cov_table [3]) [(1, 1); (2, 1)] [(3, 1)] [] ex_ch2_rules with
  | Ok b => M_ch2_len (S_cov_table [3]) [(1, 1); (2, 1)] [(3, 1)] [] ex_ch2_rules = Ok (lenN b) /\
            M_ch2_read b 0 = Ok (ch2_norm [3] [(1, 1); (2, 1)] [(3, 1)] [] ex_ch2_rules) /\
            ch2_norm [3] [(1, 1); (2, 1)] [(3, 1)] [] ex_ch2_rules =
              (S_cov_pairs [3], ([(1, 1); (2, 1)], [(3, 1)], []), [None; Some [crule_of [1] [1] [] [(0, 9)]]])
  | _ => False
  end.
Proof. vm_compute. repeat split; reflexivity. Qed.

(* ChainedSeqContext3: empty backtrack, two inputs, one lookahead *)
Example ch3_ex :
  ch3_wf [] [[3; 4]; [9]] [[3; 4]] [(0, 1)] = true /\
  match M_ch3_encode [] [[3; 4]; [9]] [[3; 4]] [(0, 1)] with
  | Ok b => M_ch3_len [] [[3; 4]; [9]] [[3; 4]] [(0, 1)] = Ok (lenN b) /\
            M_ch3_read ([1] ++ b ++ [2]) 1 = Ok ([], [[3; 4]; [9]], [[3; 4]], [(0, 1)])
  | _ => False
  end.
Proof. vm_compute. repeat split; reflexivity. Qed.

(* Gsub8_1 *)
Example gsub81_ex :
  gsub81_wf [3; 4] [[1]] [[7; 8]; [9]] [30; 40] = true /\
  match M_gsub81_encode (S_cov_table [3; 4]) (map S_cov_table [[1]]) (map S_cov_table [[7; 8]; [9]]) [30; 40] with
  | Ok b => M_gsub81_len (S_cov_table [3; 4]) (map S_cov_table [[1]]) (map S_cov_table [[7; 8]; [9]]) [30; 40] = Ok (lenN b) /\
            M_gsub81_read b 0 = Ok (S_cov_pairs [3; 4], map S_cov_pairs [[1]], map S_cov_pairs [[7; 8]; [9]], [30; 40])
  | _ => False
  end.
Proof. vm_compute. repeat split; reflexivity. Qed.

(* readers on damaged input: errors, never a panic *)
Example readers_reject :
  M_seq1_read [0; 1; 0; 6] 0 = Err /\
  M_ctx_read 1 [0; 4; 0; 0] 0 = Err /\                       (* format 4 *)
  M_ctx_read 2 [0; 3; 0; 0; 0; 0; 0; 0; 0; 0] 0 = Err /\     (* no input coverage *)
  M_ctx_read 1 [0; 1; 0; 8; 0; 1; 0; 14;  0; 1; 0; 1; 0; 5;  0; 1; 0; 4;  0; 0; 0; 0] 0 = Err.  (* glyphCount 0 *)
Proof. vm_compute. repeat split; reflexivity. Qed.

(* a ChainedSeqRule whose inputGlyphCount is 0 asks for 65535 glyphs
   (uint16 arithmetic in the reader): here the data ends first *)
Example ch1_input_count_zero :
  M_ctx_read 2 [0; 1; 0; 8; 0; 1; 0; 14;  0; 1; 0; 1; 0; 5;  0; 1; 0; 4;  0; 0; 0; 0; 0; 0; 0; 0] 0 = Err.
Proof. vm_compute. reflexivity. Qed.
