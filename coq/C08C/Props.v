(* C08C/Props.v — part C08C of property C08: the binary codecs of the
   contextual lookup subtables.  Only the theorems; nothing else.

   For each of SeqContext1/2/3, ChainedSeqContext1/2/3 (opentype/gtab/nested.go)
   and Gsub8_1 (opentype/gtab/gsub.go):
     <fmt>_len_agrees        encodeLen() = len(encode())
     <fmt>_roundtrip         read (encode x) = the normal form of x
     <fmt>_refuses_or_fits   encode panics, or every count / offset it writes
                             into a 16-bit field is the value itself
     <fmt>_read_total        the reader never panics
   The models mirror the code with fixes/C08-context-offset-guards.diff applied
   (before the repair six of the seven encoders truncated offsets and counts
   silently; ModelPre.v keeps the unrepaired encoders, Examples.v the
   witnesses).  Coverage tables and class definition tables are the models of
   the main C08 development (imported). *)
From Coq Require Import List NArith ZArith Bool Lia.
From Common Require Import Bytes Outcome.
From C08 Require Import Model ModelCD ModelSub.
From C08C Require Import ModelCtx ModelChain ModelPre Util Proofs_seq Proofs_cov3 Proofs_chain Proofs_total Proofs_pre Proofs_only.
Import ListNotations.
Local Open Scope N_scope.

(* ---------------- SeqContext1 (GSUB 5.1 / GPOS 7.1) ---------------- *)

(* every table with 16-bit glyph keys the encoder does not refuse *)
Theorem seq1_len_agrees :
  forall (cov : list (N * Z)) (rules : ssets) (b : list N),
    keys_ok cov = true -> M_seq1_encode cov rules = Ok b -> M_seq1_len cov rules = Ok (lenN b).
Proof. exact Proofs_seq.seq1_len_agrees. Qed.
Print Assumptions seq1_len_agrees.

(* well-formed (seq1_wf): valid coverage of the glyph list gl, one rule set
   (nil or not) per covered glyph, 16-bit glyph ids and record fields.  Whatever
   the encoder writes - wherever the bytes sit in a file - reads back as the
   same coverage, the same rule sets (nil stays nil, empty stays empty), the
   same rules. *)
Theorem seq1_roundtrip :
  forall (gl : list N) (rules : ssets) (b pre post : list N),
    seq1_wf gl rules = true -> M_seq1_encode (S_cov_table gl) rules = Ok b ->
    M_seq1_read (pre ++ b ++ post) (lenN pre) = Ok (S_cov_pairs gl, rules).
Proof. exact Proofs_seq.seq1_roundtrip. Qed.
Print Assumptions seq1_roundtrip.

(* for every input: loud refusal, or nothing was truncated.  M_seq1_fields
   lists the unbounded values the code converts with uint16(..) / byte(..>>8),
   byte(..): coverage offset, rule set count, rule set offsets, per rule set
   the rule count and rule offsets, per rule glyphCount and seqLookupCount *)
Theorem seq1_refuses_or_fits :
  forall (cov : list (N * Z)) (rules : ssets),
    M_seq1_encode cov rules = Panic \/
    exists b, M_seq1_encode cov rules = Ok b /\ Forall (fun v => v < 65536) (M_seq1_fields rules).
Proof. exact Proofs_seq.seq1_refuses_or_fits. Qed.
Print Assumptions seq1_refuses_or_fits.

Theorem seq1_read_total :
  forall (data : list N) (pos : N),
    M_seq1_read data pos <> Panic /\ M_seq1_read data pos <> OutOfFuel.
Proof. exact seq1_read_safe. Qed.
Print Assumptions seq1_read_total.

(* ---------------- SeqContext2 (GSUB 5.2 / GPOS 7.2) ---------------- *)

Theorem seq2_len_agrees :
  forall (cov : list (N * Z)) (cls : list (N * N)) (rules : ssets) (b : list N),
    keys_ok cov = true -> cd_ok cls = true ->
    M_seq2_encode cov cls rules = Ok b -> M_seq2_len cov cls rules = Ok (lenN b).
Proof. exact Proofs_seq.seq2_len_agrees. Qed.
Print Assumptions seq2_len_agrees.

(* normal form (seq2_norm): class-0 entries of the class table are not
   stored; rule sets for classes beyond the largest class are dropped by the
   reader (they can never apply) *)
Theorem seq2_roundtrip :
  forall (gl : list N) (cls : list (N * N)) (rules : ssets) (b pre post : list N),
    seq2_wf gl cls rules = true -> M_seq2_encode (S_cov_table gl) cls rules = Ok b ->
    M_seq2_read (pre ++ b ++ post) (lenN pre) = Ok (seq2_norm gl cls rules).
Proof. exact Proofs_seq.seq2_roundtrip. Qed.
Print Assumptions seq2_roundtrip.

Theorem seq2_refuses_or_fits :
  forall (cov : list (N * Z)) (cls : list (N * N)) (rules : ssets),
    M_seq2_encode cov cls rules = Panic \/
    exists b n, M_seq2_encode cov cls rules = Ok b /\ M_cov_encode_len cov = Ok n /\
                Forall (fun v => v < 65536) (M_seq2_fields n rules).
Proof. exact Proofs_seq.seq2_refuses_or_fits. Qed.
Print Assumptions seq2_refuses_or_fits.

(* [bytes_lt data]: the input is a byte string (every element < 256) *)
Theorem seq2_read_total :
  forall (data : list N) (pos : N), bytes_lt data ->
    M_seq2_read data pos <> Panic /\ M_seq2_read data pos <> OutOfFuel.
Proof. exact seq2_read_safe. Qed.
Print Assumptions seq2_read_total.

(* ---------------- SeqContext3 (GSUB 5.3 / GPOS 7.3) ---------------- *)

Theorem seq3_len_agrees :
  forall (inp : list (list N)) (acts : list action) (b : list N),
    forallb glyphs_ok inp = true ->
    M_seq3_encode inp acts = Ok b -> M_seq3_len inp acts = Ok (lenN b).
Proof. exact Proofs_cov3.seq3_len_agrees. Qed.
Print Assumptions seq3_len_agrees.

Theorem seq3_roundtrip :
  forall (inp : list (list N)) (acts : list action) (b pre post : list N),
    seq3_wf inp acts = true -> M_seq3_encode inp acts = Ok b ->
    M_seq3_read (pre ++ b ++ post) (lenN pre) = Ok (inp, acts).
Proof. exact Proofs_cov3.seq3_roundtrip. Qed.
Print Assumptions seq3_roundtrip.

(* at least one input coverage set (the subtable is meaningless without) *)
Theorem seq3_refuses_or_fits :
  forall (inp : list (list N)) (acts : list action),
    inp <> [] ->
    M_seq3_encode inp acts = Panic \/
    exists b lens, M_seq3_encode inp acts = Ok b /\ covs_len (set_tables inp) = Ok lens /\
                   Forall (fun v => v < 65536) (M_seq3_fields lens inp acts).
Proof. exact Proofs_cov3.seq3_refuses_or_fits. Qed.
Print Assumptions seq3_refuses_or_fits.

Theorem seq3_read_total :
  forall (data : list N) (pos : N),
    M_seq3_read data pos <> Panic /\ M_seq3_read data pos <> OutOfFuel.
Proof. exact seq3_read_safe. Qed.
Print Assumptions seq3_read_total.

(* ---------------- ChainedSeqContext1 (GSUB 6.1 / GPOS 8.1) ---------------- *)

Theorem ch1_len_agrees :
  forall (cov : list (N * Z)) (rules : csets) (b : list N),
    keys_ok cov = true -> M_ch1_encode cov rules = Ok b -> M_ch1_len cov rules = Ok (lenN b).
Proof. exact Proofs_chain.ch1_len_agrees. Qed.
Print Assumptions ch1_len_agrees.

Theorem ch1_roundtrip :
  forall (gl : list N) (rules : csets) (b pre post : list N),
    ch1_wf gl rules = true -> M_ch1_encode (S_cov_table gl) rules = Ok b ->
    M_ch1_read (pre ++ b ++ post) (lenN pre) = Ok (S_cov_pairs gl, rules).
Proof. exact Proofs_chain.ch1_roundtrip. Qed.
Print Assumptions ch1_roundtrip.

Theorem ch1_refuses_or_fits :
  forall (cov : list (N * Z)) (rules : csets),
    M_ch1_encode cov rules = Panic \/
    exists b n, M_ch1_encode cov rules = Ok b /\ M_cov_encode_len cov = Ok n /\
                Forall (fun v => v < 65536) (M_ch1_fields n rules).
Proof. exact Proofs_chain.ch1_refuses_or_fits. Qed.
Print Assumptions ch1_refuses_or_fits.

Theorem ch1_read_total :
  forall (data : list N) (pos : N), bytes_lt data ->
    M_ch1_read data pos <> Panic /\ M_ch1_read data pos <> OutOfFuel.
Proof. exact ch1_read_safe. Qed.
Print Assumptions ch1_read_total.

(* ---------------- ChainedSeqContext2 (GSUB 6.2 / GPOS 8.2) ---------------- *)

Theorem ch2_len_agrees :
  forall (cov : list (N * Z)) (cb ci cl : list (N * N)) (rules : csets) (b : list N),
    keys_ok cov = true -> cd_ok cb = true -> cd_ok ci = true -> cd_ok cl = true ->
    M_ch2_encode cov cb ci cl rules = Ok b -> M_ch2_len cov cb ci cl rules = Ok (lenN b).
Proof. exact Proofs_chain.ch2_len_agrees. Qed.
Print Assumptions ch2_len_agrees.

(* well-formed (ch2_wf): the three class tables have no explicit class-0
   entries (the reader drops them; with them the reader's size test runs on a
   different table than the writer's); normal form: rule sets beyond the
   largest input class are dropped *)
Theorem ch2_roundtrip :
  forall (gl : list N) (cb ci cl : list (N * N)) (rules : csets) (b pre post : list N),
    ch2_wf gl cb ci cl rules = true -> M_ch2_encode (S_cov_table gl) cb ci cl rules = Ok b ->
    M_ch2_read (pre ++ b ++ post) (lenN pre) = Ok (ch2_norm gl cb ci cl rules).
Proof. exact Proofs_chain.ch2_roundtrip. Qed.
Print Assumptions ch2_roundtrip.

Theorem ch2_refuses_or_fits :
  forall (cov : list (N * Z)) (cb ci cl : list (N * N)) (rules : csets),
    M_ch2_encode cov cb ci cl rules = Panic \/
    exists b n, M_ch2_encode cov cb ci cl rules = Ok b /\ M_cov_encode_len cov = Ok n /\
      Forall (fun v => v < 65536)
        (M_ch2_fields n (M_cd_append_len cb) (M_cd_append_len ci) (M_cd_append_len cl) rules).
Proof. exact Proofs_chain.ch2_refuses_or_fits. Qed.
Print Assumptions ch2_refuses_or_fits.

Theorem ch2_read_total :
  forall (data : list N) (pos : N), bytes_lt data ->
    M_ch2_read data pos <> Panic /\ M_ch2_read data pos <> OutOfFuel.
Proof. exact ch2_read_safe. Qed.
Print Assumptions ch2_read_total.

(* ---------------- ChainedSeqContext3 (GSUB 6.3 / GPOS 8.3) ---------------- *)

Theorem ch3_len_agrees :
  forall (bk inp la : list (list N)) (acts : list action) (b : list N),
    forallb glyphs_ok bk = true -> forallb glyphs_ok inp = true -> forallb glyphs_ok la = true ->
    M_ch3_encode bk inp la acts = Ok b -> M_ch3_len bk inp la acts = Ok (lenN b).
Proof. exact Proofs_cov3.ch3_len_agrees. Qed.
Print Assumptions ch3_len_agrees.

Theorem ch3_roundtrip :
  forall (bk inp la : list (list N)) (acts : list action) (b pre post : list N),
    ch3_wf bk inp la acts = true -> M_ch3_encode bk inp la acts = Ok b ->
    M_ch3_read (pre ++ b ++ post) (lenN pre) = Ok (bk, inp, la, acts).
Proof. exact Proofs_cov3.ch3_roundtrip. Qed.
Print Assumptions ch3_roundtrip.

Theorem ch3_refuses_or_fits :
  forall (bk inp la : list (list N)) (acts : list action),
    inp <> [] ->
    M_ch3_encode bk inp la acts = Panic \/
    exists b lb li ll, M_ch3_encode bk inp la acts = Ok b /\
      covs_len (set_tables bk) = Ok lb /\ covs_len (set_tables inp) = Ok li /\
      covs_len (set_tables la) = Ok ll /\
      Forall (fun v => v < 65536) (M_ch3_fields lb li ll bk inp la acts).
Proof. exact Proofs_cov3.ch3_refuses_or_fits. Qed.
Print Assumptions ch3_refuses_or_fits.

Theorem ch3_read_total :
  forall (data : list N) (pos : N),
    M_ch3_read data pos <> Panic /\ M_ch3_read data pos <> OutOfFuel.
Proof. exact ch3_read_safe. Qed.
Print Assumptions ch3_read_total.

(* ---------------- Gsub8_1 (reverse chaining single substitution) ---------------- *)

Theorem gsub8_1_len_agrees :
  forall (inp : list (N * Z)) (bk la : list (list (N * Z))) (subst b : list N),
    keys_ok inp = true -> forallb keys_ok bk = true -> forallb keys_ok la = true ->
    M_gsub81_encode inp bk la subst = Ok b -> M_gsub81_len inp bk la subst = Ok (lenN b).
Proof. exact gsub81_len_agrees. Qed.
Print Assumptions gsub8_1_len_agrees.

Theorem gsub8_1_roundtrip :
  forall (gl : list N) (bks las : list (list N)) (subst b pre post : list N),
    gsub81_wf gl bks las subst = true ->
    M_gsub81_encode (S_cov_table gl) (map S_cov_table bks) (map S_cov_table las) subst = Ok b ->
    M_gsub81_read (pre ++ b ++ post) (lenN pre) =
      Ok (S_cov_pairs gl, map S_cov_pairs bks, map S_cov_pairs las, subst).
Proof. exact gsub81_roundtrip. Qed.
Print Assumptions gsub8_1_roundtrip.

Theorem gsub8_1_refuses_or_fits :
  forall (inp : list (N * Z)) (bk la : list (list (N * Z))) (subst : list N),
    M_gsub81_encode inp bk la subst = Panic \/
    exists b n lb ll, M_gsub81_encode inp bk la subst = Ok b /\
      M_cov_encode_len inp = Ok n /\ covs_len bk = Ok lb /\ covs_len la = Ok ll /\
      Forall (fun v => v < 65536) (M_gsub81_fields n lb ll (lenN bk) (lenN la) (lenN subst)).
Proof. exact gsub81_refuses_or_fits. Qed.
Print Assumptions gsub8_1_refuses_or_fits.

Theorem gsub8_1_read_total :
  forall (data : list N) (pos : N),
    M_gsub81_read data pos <> Panic /\ M_gsub81_read data pos <> OutOfFuel.
Proof. exact gsub81_read_safe. Qed.
Print Assumptions gsub8_1_read_total.

(* ---------------- the reader dispatch (also serves property C02) ---------------- *)

(* whatever the lookup type (kind 1: GSUB 5 / GPOS 7, 2: GSUB 6 / GPOS 8,
   3: GSUB 8), the format word and the bytes: the subtable reader returns a
   subtable or an error, it never panics *)
Theorem ctx_read_total :
  forall (kind : N) (data : list N) (pos : N), bytes_lt data ->
    M_ctx_read kind data pos <> Panic /\ M_ctx_read kind data pos <> OutOfFuel.
Proof. exact ctx_read_safe. Qed.
Print Assumptions ctx_read_total.

(* ---------------- refusal only for what cannot be written ---------------- *)
(* The converse of *_refuses_or_fits for well-formed input: the repaired
   encoders panic only when one of the values they would have to write into a
   16-bit offset or count field exceeds 65535 (in the layout the library uses)
   or, for the class based formats, when a class definition table cannot be
   written (C08: classdef_refuses_only_unrepresentable). *)

Theorem seq1_refuses_only_overflow :
  forall (gl : list N) (rules : ssets),
    gset_ok gl = true -> M_seq1_encode (S_cov_table gl) rules = Panic ->
    Exists (fun v => 65535 < v) (M_seq1_fields rules).
Proof. exact seq1_refuses_only. Qed.
Print Assumptions seq1_refuses_only_overflow.

Theorem seq2_refuses_only_overflow :
  forall (gl : list N) (cls : list (N * N)) (rules : ssets),
    gset_ok gl = true -> M_seq2_encode (S_cov_table gl) cls rules = Panic ->
    exists n, M_cov_encode_len (S_cov_table gl) = Ok n /\
              (Exists (fun v => 65535 < v) (M_seq2_fields n rules) \/ M_cd_append cls = Panic).
Proof. exact seq2_refuses_only. Qed.
Print Assumptions seq2_refuses_only_overflow.

Theorem seq3_refuses_only_overflow :
  forall (inp : list (list N)) (acts : list action),
    forallb gset_ok inp = true -> M_seq3_encode inp acts = Panic ->
    exists lens, covs_len (set_tables inp) = Ok lens /\
                 Exists (fun v => 65535 < v) (M_seq3_fields lens inp acts).
Proof. exact seq3_refuses_only. Qed.
Print Assumptions seq3_refuses_only_overflow.

Theorem ch1_refuses_only_overflow :
  forall (gl : list N) (rules : csets),
    gset_ok gl = true -> M_ch1_encode (S_cov_table gl) rules = Panic ->
    exists n, M_cov_encode_len (S_cov_table gl) = Ok n /\
              Exists (fun v => 65535 < v) (M_ch1_fields n rules).
Proof. exact ch1_refuses_only. Qed.
Print Assumptions ch1_refuses_only_overflow.

Theorem ch2_refuses_only_overflow :
  forall (gl : list N) (cb ci cl : list (N * N)) (rules : csets),
    gset_ok gl = true -> M_ch2_encode (S_cov_table gl) cb ci cl rules = Panic ->
    exists n, M_cov_encode_len (S_cov_table gl) = Ok n /\
      (Exists (fun v => 65535 < v)
         (M_ch2_fields n (M_cd_append_len cb) (M_cd_append_len ci) (M_cd_append_len cl) rules) \/
       M_cd_append cb = Panic \/ M_cd_append ci = Panic \/ M_cd_append cl = Panic).
Proof. exact ch2_refuses_only. Qed.
Print Assumptions ch2_refuses_only_overflow.

Theorem ch3_refuses_only_overflow :
  forall (bk inp la : list (list N)) (acts : list action),
    forallb gset_ok bk = true -> forallb gset_ok inp = true -> forallb gset_ok la = true ->
    M_ch3_encode bk inp la acts = Panic ->
    exists lb li ll, covs_len (set_tables bk) = Ok lb /\ covs_len (set_tables inp) = Ok li /\
      covs_len (set_tables la) = Ok ll /\
      Exists (fun v => 65535 < v) (M_ch3_fields lb li ll bk inp la acts).
Proof. exact ch3_refuses_only. Qed.
Print Assumptions ch3_refuses_only_overflow.

Theorem gsub8_1_refuses_only_overflow :
  forall (gl : list N) (bks las : list (list N)) (subst : list N),
    gset_ok gl = true -> forallb gset_ok bks = true -> forallb gset_ok las = true ->
    M_gsub81_encode (S_cov_table gl) (map S_cov_table bks) (map S_cov_table las) subst = Panic ->
    exists n lb ll, M_cov_encode_len (S_cov_table gl) = Ok n /\
      covs_len (map S_cov_table bks) = Ok lb /\ covs_len (map S_cov_table las) = Ok ll /\
      Exists (fun v => 65535 < v) (M_gsub81_fields n lb ll (lenN bks) (lenN las) (lenN subst)).
Proof. exact gsub81_refuses_only. Qed.
Print Assumptions gsub8_1_refuses_only_overflow.

(* ---------------- the code before fixes/C08-context-offset-guards.diff ---------------- *)
(* M_*_encode_pre (ModelPre.v) mirror the encoders as they were found: no
   test (ChainedSeqContext2: rule set and rule offsets only).  For each there
   is a well-formed subtable that the unrepaired encoder writes (no refusal)
   and that does not read back: an offset or count was truncated to 16 bits.
   The repaired encoder refuses the same subtable.  The witnesses are replayed
   on the Go code (corpus/C08C/*.txt; findings/C08.json:
   context-subtable-offset-overflow). *)

Theorem seq1_unguarded_refuted :
  exists gl rules b, seq1_wf gl rules = true /\
    M_seq1_encode (S_cov_table gl) rules = Panic /\
    M_seq1_encode_pre (S_cov_table gl) rules = Ok b /\
    M_seq1_read b 0 <> Ok (S_cov_pairs gl, rules).
Proof. exact seq1_unguarded_refuted_l. Qed.
Print Assumptions seq1_unguarded_refuted.

Theorem seq3_unguarded_refuted :
  exists inp acts b, seq3_wf inp acts = true /\
    M_seq3_encode inp acts = Panic /\
    M_seq3_encode_pre inp acts = Ok b /\
    M_seq3_read b 0 <> Ok (inp, acts).
Proof. exact seq3_unguarded_refuted_l. Qed.
Print Assumptions seq3_unguarded_refuted.

Theorem ch1_unguarded_refuted :
  exists gl rules b, ch1_wf gl rules = true /\
    M_ch1_encode (S_cov_table gl) rules = Panic /\
    M_ch1_encode_pre (S_cov_table gl) rules = Ok b /\
    M_ch1_read b 0 <> Ok (S_cov_pairs gl, rules).
Proof. exact ch1_unguarded_refuted_l. Qed.
Print Assumptions ch1_unguarded_refuted.

(* the existing guards of ChainedSeqContext2.encode did not cover the glyph
   counts of the last rule of a set: 65536 backtrack glyphs, count written 0 *)
Theorem ch2_unguarded_refuted :
  exists gl cb ci cl rules b, ch2_wf gl cb ci cl rules = true /\
    M_ch2_encode (S_cov_table gl) cb ci cl rules = Panic /\
    M_ch2_encode_pre (S_cov_table gl) cb ci cl rules = Ok b /\
    M_ch2_read b 0 <> Ok (ch2_norm gl cb ci cl rules).
Proof. exact ch2_unguarded_refuted_l. Qed.
Print Assumptions ch2_unguarded_refuted.

Theorem ch3_unguarded_refuted :
  exists bk inp la acts b, ch3_wf bk inp la acts = true /\
    M_ch3_encode bk inp la acts = Panic /\
    M_ch3_encode_pre bk inp la acts = Ok b /\
    M_ch3_read b 0 <> Ok (bk, inp, la, acts).
Proof. exact ch3_unguarded_refuted_l. Qed.
Print Assumptions ch3_unguarded_refuted.

Theorem gsub8_1_unguarded_refuted :
  exists gl bks las subst b, gsub81_wf gl bks las subst = true /\
    M_gsub81_encode (S_cov_table gl) (map S_cov_table bks) (map S_cov_table las) subst = Panic /\
    M_gsub81_encode_pre (S_cov_table gl) (map S_cov_table bks) (map S_cov_table las) subst = Ok b /\
    M_gsub81_read b 0 <> Ok (S_cov_pairs gl, map S_cov_pairs bks, map S_cov_pairs las, subst).
Proof. exact gsub81_unguarded_refuted_l. Qed.
Print Assumptions gsub8_1_unguarded_refuted.
