(* C04B/Tie.v — the tie of C04's hand-written mirror (C04/Model.v) and of this
   part's models to the Go source as it is NOW: everything below is an
   equation between a value regenerated from the Go AST on this run
   (Gen/C04B.v) and the value the models use.  A changed boundary, offset,
   prefix byte, operator code, stack test, operand order, builder method or
   width statement changes Gen/C04B.v and breaks one of these proofs. *)
From Coq Require Import List NArith ZArith Bool Arith Lia String.
From Coq Require Import ZifyBool ZifyNat ZifyN.
From Gen Require Import Consts C04B.
From C05 Require Import Model.
From C04 Require Import Model.
From C04B Require Import Model.
Import ListNotations.
Local Open Scope Z_scope.

Ltac Zify.zify_post_hook ::= Z.div_mod_to_equations.

(* ------------------------------------------------------------------ *)
(* every value of funit.Int16                                          *)

Definition bytes256 : list Z := map Z.of_nat (seq 0 256).
Definition all_int16 : list Z :=
  flat_map (fun a => map (fun b => a * 256 + b - 32768) bytes256) bytes256.

Lemma in_bytes256 (b : Z) : 0 <= b < 256 -> In b bytes256.
Proof.
  intros H. unfold bytes256. apply in_map_iff. exists (Z.to_nat b). split; [lia|].
  apply in_seq. lia.
Qed.

Lemma in_all_int16 (i : Z) : -32768 <= i <= 32767 -> In i all_int16.
Proof.
  intros H. unfold all_int16. apply in_flat_map.
  exists ((i + 32768) / 256). split; [apply in_bytes256; lia|].
  apply in_map_iff. exists ((i + 32768) mod 256). split; [lia|apply in_bytes256; lia].
Qed.

Fixpoint list_eqb_N (a b : list N) : bool :=
  match a, b with
  | [], [] => true
  | x :: a', y :: b' => (x =? y)%N && list_eqb_N a' b'
  | _, _ => false
  end.

Lemma list_eqb_N_eq a : forall b, list_eqb_N a b = true -> a = b.
Proof.
  induction a as [|x a IH]; intros [|y b] H; try discriminate; [reflexivity|].
  cbn in H. apply andb_true_iff in H. destruct H as [H1 H2].
  apply N.eqb_eq in H1. subst. f_equal. apply IH. exact H2.
Qed.

(* a statement about all int16 values decided by evaluation on all 65536 of them *)
Lemma int16_decide (f g : Z -> list N) :
  forallb (fun i => list_eqb_N (f i) (g i)) all_int16 = true ->
  forall i, -32768 <= i <= 32767 -> f i = g i.
Proof.
  intros H i Hi. rewrite forallb_forall in H. apply list_eqb_N_eq. apply H. apply in_all_int16. exact Hi.
Qed.

(* ------------------------------------------------------------------ *)
(* encodeInt                                                           *)

(* the regenerated encodeInt is C04's enc_int on every int16 *)
Lemma enc_int_source : forall i, -32768 <= i <= 32767 -> R_enc_int i = enc_int i.
Proof. apply int16_decide. vm_compute. reflexivity. Qed.

(* the regenerated case ranges are the conditions of the regenerated switch *)
Lemma enc_int_ranges_source :
  forall i, -32768 <= i <= 32767 -> enc_int_by c04b_encodeInt_ranges i = R_enc_int i.
Proof. apply int16_decide. vm_compute. reflexivity. Qed.

(* the boundaries, the offsets and the prefix bytes, as numbers *)
Lemma enc_int_ranges_values :
  c04b_encodeInt_ranges = [(-107, 107); (108, 1131); (-1131, -108)].
Proof. reflexivity. Qed.

(* they are exactly the value ranges the reader's operand forms represent:
   no gap and no overlap between the writer's and the reader's forms *)
Lemma enc_int_ranges_are_reader_ranges : c04b_encodeInt_ranges = S_form_ranges.
Proof. reflexivity. Qed.

Lemma enc_int_layout (x : Z) :
  (-107 <= x <= 107 -> c04b_encodeInt x = [x + 139]) /\
  (108 <= x <= 1131 -> c04b_encodeInt x = [(x - 108) / 256 + 247; (x - 108) mod 256]) /\
  (-1131 <= x <= -108 -> c04b_encodeInt x = [(-108 - x) / 256 + 251; (-108 - x) mod 256]) /\
  (-32768 <= x <= 32767 -> ~ (-1131 <= x <= 1131) ->
     c04b_encodeInt x = [28; (x / 256) mod 256; x mod 256]).
Proof.
  unfold c04b_encodeInt, c04b_byte, c04b_i16. rewrite !Z.shiftr_div_pow2 by lia.
  change (2 ^ 8) with 256.
  repeat split; intros.
  - replace (x >=? -107) with true by lia. replace (x <=? 107) with true by lia. cbn [andb].
    f_equal. lia.
  - replace (x >=? -107) with true by lia. replace (x <=? 107) with false by lia. cbn [andb].
    replace (x >? 107) with true by lia. replace (x <=? 1131) with true by lia. cbn [andb]. cbv zeta.
    f_equal; [lia|f_equal; lia].
  - replace (x >=? -107) with false by lia. cbn [andb].
    replace (x >? 107) with false by lia. cbn [andb].
    replace (x <? -107) with true by lia. replace (x >=? -1131) with true by lia. cbn [andb]. cbv zeta.
    f_equal; [lia|f_equal; lia].
  - destruct (Z.leb_spec x 1131).
    + replace (x >=? -107) with false by lia. cbn [andb].
      replace (x >? 107) with false by lia. cbn [andb].
      replace (x >=? -1131) with false by lia. rewrite andb_false_r. reflexivity.
    + replace (x <=? 107) with false by lia. rewrite andb_false_r.
      replace (x <=? 1131) with false by lia. rewrite andb_false_r.
      replace (x <? -107) with false by lia. cbn [andb]. reflexivity.
Qed.

(* ------------------------------------------------------------------ *)
(* encodeNumber                                                        *)

Lemma enc_number_consts :
  c04b_encnum_tol = (1, 131072) /\ c04b_encnum_scale = SC /\ c04b_encnum_unscale = SC.
Proof. repeat split. Qed.

Lemma enc_number_fixed_layout (v : Z) :
  c04b_encnum_fixed v = [255; (v / 16777216) mod 256; (v / 65536) mod 256; (v / 256) mod 256; v mod 256].
Proof.
  unfold c04b_encnum_fixed, c04b_byte. rewrite !Z.shiftr_div_pow2 by lia. reflexivity.
Qed.

Lemma round_scaled (X : Z) : round_half_away (X * SC) SC = X.
Proof.
  unfold round_half_away, SC. destruct (Z.leb_spec 0 (X * 65536)); lia.
Qed.

Lemma byte_of_wrapped (X d m' : Z) :
  0 < d -> 0 <= m' -> 4294967296 = d * (256 * m') ->
  (X / d) mod 256 = ((X mod 4294967296) / d) mod 256.
Proof.
  intros Hd Hm E.
  rewrite (Z.div_mod X 4294967296) at 1 by lia.
  rewrite E at 1.
  replace (d * (256 * m') * (X / 4294967296) + X mod 4294967296)
    with (X mod 4294967296 + (256 * m' * (X / 4294967296)) * d) by ring.
  rewrite Z.div_add by lia.
  replace (256 * m' * (X / 4294967296)) with (m' * (X / 4294967296) * 256) by ring.
  rewrite Z.mod_add by lia. reflexivity.
Qed.

(* the number encoder assembled from the regenerated pieces is C04's enc_number *)
Lemma enc_number_source : forall X, R_enc_number X = enc_number X.
Proof.
  intros X. unfold R_enc_number, enc_number.
  destruct (in_range X) eqn:Hr; [|reflexivity].
  unfold in_range, FIX_MIN, FIX_MAX in Hr. apply andb_true_iff in Hr. rewrite !Z.leb_le in Hr.
  destruct enc_number_consts as (-> & -> & ->). cbn [fst snd].
  destruct (X mod SC =? 0) eqn:E.
  - apply Z.eqb_eq in E.
    assert (Hq : Z.quot X SC = X / SC).
    { unfold SC in *. pose proof (Z.quot_rem' X 65536) as Hq. pose proof (Z.rem_bound_abs X 65536 ltac:(lia)).
      assert (Z.rem X 65536 = 0).
      { apply Z.rem_divide; [lia|]. apply Z.mod_divide; [lia|exact E]. }
      lia. }
    rewrite Hq.
    replace (X / SC * SC) with X by (unfold SC in *; lia).
    replace (Z.abs (X - X) * 131072 <=? 1 * SC) with true by (unfold SC; lia).
    rewrite enc_int_source by (unfold SC in *; lia). reflexivity.
  - apply Z.eqb_neq in E.
    replace (Z.abs (Z.quot X SC * SC - X) * 131072 <=? 1 * SC) with false.
    2:{ symmetry. apply Z.leb_gt. unfold SC in *.
        pose proof (Z.quot_rem' X 65536) as Hq.
        assert (Z.rem X 65536 <> 0).
        { intros H0. apply E. apply Z.mod_divide; [lia|]. apply Z.rem_divide; [lia|exact H0]. }
        lia. }
    rewrite round_scaled.
    replace (X * SC / SC) with X by (unfold SC; lia).
    rewrite enc_number_fixed_layout. unfold to_bytes. cbn [map]. cbv zeta.
    rewrite (byte_of_wrapped X 16777216 1) by lia.
    rewrite (byte_of_wrapped X 65536 256) by lia.
    rewrite (byte_of_wrapped X 256 65536) by lia.
    replace (X mod 256) with ((X mod 4294967296) mod 256).
    2:{ rewrite <- (Z.div_1_r X) at 2. rewrite (byte_of_wrapped X 1 16777216) by lia.
        rewrite Z.div_1_r. reflexivity. }
    rewrite (Z.mod_small (X mod 4294967296 / 16777216)).
    2:{ pose proof (Z.mod_pos_bound X 4294967296 ltac:(lia)).
        split; [apply Z.div_pos; lia|apply Z.div_lt_upper_bound; lia]. }
    reflexivity.
Qed.

(* ------------------------------------------------------------------ *)
(* operators                                                           *)

Definition emitted_ops : list oper :=
  [OHstem; OVstem; OVmoveto; ORlineto; OHlineto; OVlineto; ORrcurveto; OEndchar; OHstemhm; OHintmask;
   OCntrmask; ORmoveto; OHmoveto; OVstemhm; ORcurveline; ORlinecurve; OVvcurveto; OHhcurveto;
   OVhcurveto; OHvcurveto; OHflex; OHflex1].

Local Open Scope string_scope.
Lemma ops_used_names :
  map fst c04b_ops_used =
  ["t2hstem"; "t2vstem"; "t2vmoveto"; "t2rlineto"; "t2hlineto"; "t2vlineto"; "t2rrcurveto"; "t2endchar";
   "t2hstemhm"; "t2hintmask"; "t2cntrmask"; "t2rmoveto"; "t2hmoveto"; "t2vstemhm"; "t2rcurveline";
   "t2rlinecurve"; "t2vvcurveto"; "t2hhcurveto"; "t2vhcurveto"; "t2hvcurveto"; "t2hflex"; "t2hflex1"].
Proof. reflexivity. Qed.
Local Close Scope string_scope.

(* every operator the encoder refers to is written (t2op.Bytes / copyOp) as
   the bytes C04's model emits for it *)
Lemma ops_used_bytes :
  map (fun p => op_code_bytes (snd p)) c04b_ops_used = map op_bytes emitted_ops.
Proof. reflexivity. Qed.

Lemma op_bytes_threshold : c04b_op_two_byte_above = 255 /\ c04b_copyOp_two_byte_above = 255.
Proof. split; reflexivity. Qed.

(* and the specification's reader (C05) reads each of them back *)
Lemma ops_used_read_back :
  forall o rest, In o emitted_ops -> lex_op (op_bytes o ++ rest) = OpOk o rest.
Proof.
  intros o rest H. unfold emitted_ops in H. cbn [In] in H.
  repeat (destruct H as [<-|H]; [reflexivity|]). contradiction.
Qed.

(* ------------------------------------------------------------------ *)
(* stack limit and stack tests of AppendEdges                          *)

Lemma max_stack_source :
  c04b_maxStack = enc_max_stack /\ c04b_maxStack = cff_maxStack /\ c04b_maxStack = t2_max_stack.
Proof. repeat split. Qed.

Lemma fits_source (code : list enum) (k : nat) :
  fits code k = (List.length code + k <=? c04b_maxStack)%nat.
Proof. reflexivity. Qed.

(* (clause = OpLineTo 2 / OpCurveTo 3, K, 0 for len(code)+K <= maxStack, 1 for > ):
   OpLineTo: rlineto loop 2 (header and continuation), rlinecurve 6, hlineto/vlineto 1;
   OpCurveTo: rrcurveto loop 6 (twice), rcurveline 2, hhcurveto/vvcurveto 4 and 5 (leading
   operand), hvcurveto/vhcurveto 4 and 5 (trailing operand) as refusals *)
Lemma stack_conds_source :
  c04b_stack_conds =
  [ (2, 2, 0); (2, 2, 0); (2, 6, 0); (2, 1, 0);
    (3, 6, 0); (3, 6, 0); (3, 2, 0); (3, 4, 0); (3, 5, 0); (3, 4, 1); (3, 5, 1) ].
Proof. reflexivity. Qed.

Lemma glyph_op_consts :
  c04b_OpMoveTo = 1 /\ c04b_OpLineTo = 2 /\ c04b_OpCurveTo = 3 /\ c04b_OpHintMask = 4 /\ c04b_OpCntrMask = 5.
Proof. repeat split. Qed.

(* the operators handed to copyOp: directly (rlineto, rlinecurve with the
   curve's operands, rrcurveto, rcurveline with the line's operands) or
   through the two-element lists indexed by checkIdx / offs *)
Lemma copy_ops_source :
  c04b_copy_ops =
  [ (2, 0, 0, 5); (2, 0, 1, 25); (2, 1, 0, 7); (2, 1, 1, 6);
    (3, 0, 0, 8); (3, 0, 1, 24); (3, 1, 0, 26); (3, 1, 1, 27); (3, 1, 0, 31); (3, 1, 1, 30) ].
Proof. reflexivity. Qed.

(* the model uses the same operators in the same roles *)
Lemma copy_ops_model :
  map (fun r => op_code_bytes (snd r)) c04b_copy_ops =
  map op_bytes [ORlineto; ORlinecurve; OVlineto; OHlineto; ORrcurveto; ORcurveline;
                OVvcurveto; OHhcurveto; OHvcurveto; OVhcurveto].
Proof. reflexivity. Qed.

(* ------------------------------------------------------------------ *)
(* operand order of the append(code, ...) calls                        *)

Definition row (k : nat) : list (Z * Z * Z * Z) := snd (nth k c04b_append_args (0, [])).

Lemma append_rows_count : List.length c04b_append_args = 7%nat /\ map fst c04b_append_args = [2; 3; 3; 3; 3; 3; 3].
Proof. split; reflexivity. Qed.

Section ROWS.
  Variables a0 a1 a2 a3 a4 a5 b0 b1 b2 b3 b4 b5 : enum.
  Let cur := [a0; a1; a2; a3; a4; a5].
  Let nxt := [b0; b1; b2; b3; b4; b5].

  (* hlineto / vlineto: after checkIdx = 1 - checkIdx the operand is Args[checkIdx];
     C04's alt_loop appends (if chk then dx else dy) where chk is the value BEFORE the flip *)
  Lemma row_altline (chk : bool) :
    interp_row (row 0) false (negb chk) [a0; a1] [] = Some [if chk then a0 else a1].
  Proof. destruct chk; reflexivity. Qed.

  (* hhcurveto / vvcurveto: the optional leading operand and the four of each curve *)
  Lemma row_hh_lead (offs : bool) :
    interp_row (row 1) offs false cur nxt = Some [sel offs a0 a1].
  Proof. destruct offs; reflexivity. Qed.

  Lemma row_hh_body (offs : bool) :
    interp_row (row 2) offs false cur nxt = Some [sel offs a1 a0; a2; a3; sel offs a5 a4].
  Proof. destruct offs; reflexivity. Qed.

  (* hvcurveto / vhcurveto: four operands, and the optional fifth of the last curve *)
  Lemma row_hv_body (offs : bool) :
    interp_row (row 3) offs false cur nxt = Some [sel offs a0 a1; a2; a3; sel offs a5 a4].
  Proof. destruct offs; reflexivity. Qed.

  Lemma row_hv_last (offs : bool) :
    interp_row (row 4) offs false cur nxt = Some [sel offs a4 a5].
  Proof. destruct offs; reflexivity. Qed.

  (* hflex / hflex1 *)
  Lemma row_hflex :
    interp_row (row 5) false false cur nxt = Some [a0; a2; a3; a4; b0; b2; b4] /\
    last (row 5) (0, 0, 0, 0) = (100, 3106, 0, 0) /\ op_code_bytes 3106 = op_bytes OHflex.
  Proof. repeat split. Qed.

  Lemma row_hflex1 :
    interp_row (row 6) false false cur nxt = Some [a0; a1; a2; a3; a4; b0; b2; b3; b4] /\
    last (row 6) (0, 0, 0, 0) = (100, 3108, 0, 0) /\ op_code_bytes 3108 = op_bytes OHflex1.
  Proof. repeat split. Qed.

  (* C04's model offers exactly these operand lists *)
  Lemma flex_edges_use_rows (t : list ecmd) :
    forall e, In e (flex_edges (ECurve a0 a1 a2 a3 a4 a5 :: ECurve b0 b1 b2 b3 b4 b5 :: t)) ->
      (e_op e = OHflex /\ Some (e_args e) = interp_row (row 5) false false cur nxt) \/
      (e_op e = OHflex1 /\ Some (e_args e) = interp_row (row 6) false false cur nxt).
  Proof.
    intros e H. unfold flex_edges in H.
    destruct (is_zero a5 && is_zero b1); [|contradiction].
    destruct (is_zero a1 && is_zero b5 && (ev a3 + ev b3 =? 0)).
    - destruct H as [<-|[]]. left. split; reflexivity.
    - destruct (ev a3 + ev b3 + ev a1 + ev b5 =? 0); [|contradiction].
      destruct H as [<-|[]]. right. split; reflexivity.
  Qed.

  Lemma hh_loop_uses_rows (offs : bool) (o : oper) (t : list ecmd) (code : list enum) (pos : nat) :
    forall e es, hh_loop offs o (ECurve a0 a1 a2 a3 a4 a5 :: t) code pos = e :: es ->
      exists lead body,
        interp_row (row 2) offs false cur nxt = Some body /\
        (lead = [] \/ interp_row (row 1) offs false cur nxt = Some lead) /\
        e_args e = (code ++ lead) ++ body.
  Proof.
    intros e es H. cbn [hh_loop] in H.
    destruct (fits code 4); [|discriminate].
    destruct (negb (is_zero (sel offs a4 a5))); [discriminate|].
    destruct (negb (is_zero (sel offs a0 a1))).
    - destruct ((pos =? 0)%nat && fits code 5); [|discriminate]. inversion H; subst.
      exists [sel offs a0 a1], [sel offs a1 a0; a2; a3; sel offs a5 a4].
      split; [apply row_hh_body|]. split; [right; apply row_hh_lead|]. reflexivity.
    - inversion H; subst. exists [], [sel offs a1 a0; a2; a3; sel offs a5 a4].
      split; [apply row_hh_body|]. split; [left; reflexivity|]. rewrite app_nil_r. reflexivity.
  Qed.
End ROWS.

(* ------------------------------------------------------------------ *)
(* the Glyph builder                                                   *)

(* MoveTo / LineTo / CurveTo: one statement g.Cmds = append(g.Cmds,
   GlyphOp{Op: <constant>, Args: []float64{parameters in order}}) *)
Lemma builder_source :
  c04b_builder =
  [ (c04b_OpMoveTo, 2%nat, [0; 1]%nat);
    (c04b_OpLineTo, 2%nat, [0; 1]%nat);
    (c04b_OpCurveTo, 6%nat, [0; 1; 2; 3; 4; 5]%nat) ].
Proof. reflexivity. Qed.

Local Open Scope string_scope.
(* NewGlyph sets Name and Width from its parameters and nothing else *)
Lemma newglyph_source : c04b_newglyph_fields = [("Name", 0%nat); ("Width", 1%nat)].
Proof. reflexivity. Qed.

(* the doc comments the specification S_draw was written from *)
Lemma builder_docs_source :
  c04b_doc_MoveTo = "MoveTo starts a new sub-path and moves the current point to (x, y). The previous sub-path, if any, is closed." /\
  c04b_doc_LineTo = "LineTo adds a straight line to the current sub-path." /\
  c04b_doc_CurveTo = "CurveTo adds a cubic Bezier curve to the current sub-path." /\
  c04b_doc_NewGlyph = "NewGlyph allocates a new glyph.".
Proof. repeat split. Qed.

(* Extent: the statements M_extent was written from (the end point of a
   moveto / lineto is Args[0], Args[1], of a curveto Args[4], Args[5]; other
   commands are skipped; floor of left / bottom, ceiling of right / top) *)
Lemma extent_source :
  c04b_Extent_src =
  [ "var left, right, top, bottom float64";
    "first := true";
    "cmdLoop: for _, cmd := range g.Cmds { var x, y float64 switch cmd.Op { case OpMoveTo, OpLineTo: x = cmd.Args[0] y = cmd.Args[1] case OpCurveTo: x = cmd.Args[4] y = cmd.Args[5] default: continue cmdLoop } if first || x < left { left = x } if first || x > right { right = x } if first || y < bottom { bottom = y } if first || y > top { top = y } first = false }";
    "return funit.Rect16{ LLx: funit.Int16(math.Floor(left)), LLy: funit.Int16(math.Floor(bottom)), URx: funit.Int16(math.Ceil(right)), URy: funit.Int16(math.Ceil(top)), }" ] /\
  c04b_doc_Extent = "Extent computes the Glyph extent in font design units".
Proof. split; reflexivity. Qed.

(* ------------------------------------------------------------------ *)
(* font-level widths                                                   *)

Lemma select_widths_consts :
  c04b_sw_skip_above = 32767%Z /\ c04b_sw_margin_lo = 107%Z /\ c04b_sw_margin_hi = 107%Z.
Proof. repeat split. Qed.

(* the statements M_select_widths was written from *)
Lemma select_widths_source :
  c04b_selectWidths_src =
  [ "numGlyphs := int32(len(f.Glyphs))";
    "if numGlyphs == 0 { return 0, 0 } else if numGlyphs == 1 { return f.Glyphs[0].Width, f.Glyphs[0].Width }";
    "widthHist := make(map[float64]int32)";
    "var mostFrequentCount int32";
    "var defaultWidth float64";
    "for _, glyph := range f.Glyphs { w := glyph.Width if math.Abs(w) > 32767 { continue } widthHist[w]++ if widthHist[w] > mostFrequentCount { defaultWidth = w mostFrequentCount = widthHist[w] } }";
    "var sum float64";
    "var minWidth float64 = math.Inf(+1)";
    "var maxWidth float64 = math.Inf(-1)";
    "for _, glyph := range f.Glyphs { w := glyph.Width if w == defaultWidth { continue } sum += w if w < minWidth { minWidth = w } if w > maxWidth { maxWidth = w } }";
    "nominalWidth := math.Round(sum / float64(numGlyphs))";
    "if nominalWidth < minWidth+107 { nominalWidth = minWidth + 107 } else if nominalWidth > maxWidth-107 { nominalWidth = maxWidth - 107 }";
    "return defaultWidth, nominalWidth" ].
Proof. reflexivity. Qed.

(* encodeCharStrings: one selectWidths call for the whole font, both values
   truncated, a non-finite nominal width replaced by 0, every glyph compiled
   against the same pair, the pair returned *)
Lemma encode_charstrings_source :
  c04b_encodeCharStrings_src =
  [ "numGlyphs := len(f.Glyphs)";
    "if numGlyphs < 1 || (f.ROS == nil && f.Glyphs[0].Name != "".notdef"") { return nil, 0, 0, invalidSince(""missing .notdef glyph"") }";
    "cc := make(cffIndex, numGlyphs)";
    "defaultWidth, nominalWidth := f.selectWidths()";
    "defaultWidth = math.Trunc(defaultWidth)";
    "nominalWidth = math.Trunc(nominalWidth)";
    "if math.IsInf(nominalWidth, 0) || math.IsNaN(nominalWidth) { nominalWidth = 0 }";
    "for i, glyph := range f.Glyphs { code, err := glyph.encodeCharString(defaultWidth, nominalWidth) if err != nil { return nil, 0, 0, err } cc[i] = code }";
    "return cc, defaultWidth, nominalWidth, nil" ].
Proof. reflexivity. Qed.

(* makePrivateDict: the two entries, as int32, left out when 0 *)
Lemma private_dict_widths_source :
  c04b_makePrivateDict_width_src =
  [ "if defaultWidth != 0 { privateDict[opDefaultWidthX] = []interface{}{int32(defaultWidth)} }";
    "if nominalWidth != 0 { privateDict[opNominalWidthX] = []interface{}{int32(nominalWidth)} }" ].
Proof. reflexivity. Qed.

(* Font.Write: the pair of encodeCharStrings goes into EVERY private dictionary *)
Lemma write_widths_source :
  c04b_Write_width_src =
  [ "charStrings, defWidth, nomWidth, err := f.encodeCharStrings()";
    "for i := range privateDicts { privateDicts[i] = f.makePrivateDict(i, defWidth, nomWidth) secPrivateDicts[i] = len(blobs) blobs = append(blobs, nil) }" ].
Proof. reflexivity. Qed.

(* encodeCharString: the width operand *)
Lemma charstring_width_source :
  c04b_encodeCharString_width_src =
  [ "if w != defaultWidth { x := encodeNumber(w - nominalWidth) header = append(header, x.Code) }" ].
Proof. reflexivity. Qed.

(* encodeNumber: the statements R_enc_number was assembled from *)
Lemma encode_number_source_text :
  c04b_encodeNumber_src =
  [ "var code []byte";
    "x16 := funit.Int16(x)";
    "if math.Abs(float64(x16)-x) <= 0.5/65536 { code = encodeInt(x16) x = float64(x16) } else { x32 := int32(math.Round(x * 65536)) code = []byte{255, byte(x32 >> 24), byte(x32 >> 16), byte(x32 >> 8), byte(x32)} x = float64(x32) / 65536 }";
    "return encodedNumber{ Val: x, Code: code, }" ].
Proof. reflexivity. Qed.
