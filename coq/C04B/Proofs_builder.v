(* C04B/Proofs_builder.v — the Glyph builder: the command list after any
   sequence of calls, its meaning as a drawing, composition with C04's
   any-path theorem, totality. *)
From Coq Require Import List NArith ZArith Bool Arith Lia.
From Gen Require Import C04B.
From C05 Require Import Model.
From C04 Require Import Model Proofs_num Proofs_exec Proofs_lines Proofs_main Proofs_body Proofs_check Proofs_final.
From C04B Require Import Model Tie.
Import ListNotations.
Local Open Scope Z_scope.

(* ---- the command list ---- *)

Definition gop_of (c : bcall) : gop :=
  (match c with BMove _ _ => c04b_OpMoveTo | BLine _ _ => c04b_OpLineTo | BCurve _ _ _ _ _ _ => c04b_OpCurveTo end,
   call_params c).

Lemma method_spec (c : bcall) : M_method c04b_builder c = Some (gop_of c).
Proof. destruct c; reflexivity. Qed.

Lemma calls_spec : forall calls cmds, M_calls c04b_builder cmds calls = Some (cmds ++ map gop_of calls).
Proof.
  induction calls as [|c t IH]; intros cmds; cbn [M_calls map].
  - rewrite app_nil_r. reflexivity.
  - rewrite method_spec, IH, <- app_assoc. reflexivity.
Qed.

Lemma cmd_of_gop_spec (c : bcall) : cmd_of_gop (gop_of c) = Some (S_cmd c).
Proof. destruct c; reflexivity. Qed.

Lemma cmds_of_gops_spec : forall calls, cmds_of_gops (map gop_of calls) = Some (map S_cmd calls).
Proof.
  induction calls as [|c t IH]; [reflexivity|].
  cbn [map cmds_of_gops]. rewrite cmd_of_gop_spec, IH. reflexivity.
Qed.

Lemma build_spec (w : Z) (calls : list bcall) : M_build w calls = Some (S_build w calls).
Proof.
  unfold M_build. rewrite calls_spec. cbn [app]. rewrite cmds_of_gops_spec. reflexivity.
Qed.

(* one more call appends exactly one command and leaves the earlier ones alone *)
Lemma build_step (w : Z) (calls : list bcall) (c : bcall) :
  M_build w (calls ++ [c]) =
  Some (mkGlyph (g_cmds (S_build w calls) ++ [S_cmd c]) [] [] w).
Proof. rewrite build_spec. unfold S_build. rewrite map_app. reflexivity. Qed.

(* ---- the drawing ---- *)

Lemma draw_paths : forall calls cur done,
  paths_from cur done (map S_cmd calls) = S_draw_from cur done calls.
Proof.
  induction calls as [|c t IH]; intros cur done; [reflexivity|].
  destruct c; cbn [map S_cmd paths_from S_draw_from].
  - apply IH.
  - destruct cur as [[p segs]|]; [apply IH|reflexivity].
  - destruct cur as [[p segs]|]; [apply IH|reflexivity].
Qed.

Lemma draw_some : forall calls s done, S_draw_from (Some s) done calls <> None.
Proof.
  induction calls as [|c t IH]; intros [p segs] done; cbn [S_draw_from]; [discriminate|].
  destruct c; apply IH.
Qed.

Lemma builder_wf_draw (calls : list bcall) : builder_wf calls = true <-> S_draw calls <> None.
Proof.
  unfold S_draw. destruct calls as [|c t]; cbn [builder_wf S_draw_from].
  - split; [discriminate|reflexivity].
  - destruct c; cbn [close_cur].
    + split; [intros _; apply draw_some|reflexivity].
    + split; [discriminate|congruence].
    + split; [discriminate|congruence].
Qed.

Lemma cmds_wf_moved : forall calls, cmds_wf 0 true (map S_cmd calls) = true.
Proof. induction calls as [|c t IH]; [reflexivity|]. destruct c; cbn [map S_cmd cmds_wf]; rewrite ?IH; reflexivity. Qed.

Lemma builder_wf_glyph (w : Z) (calls : list bcall) : glyph_wf (S_build w calls) = builder_wf calls.
Proof.
  unfold glyph_wf, S_build. cbn [g_hstem g_vstem g_cmds length Nat.add Nat.div].
  change ((0 + 0) / 2)%nat with 0%nat.
  destruct calls as [|c t]; [reflexivity|].
  destruct c; cbn [map S_cmd cmds_wf builder_wf andb]; [apply cmds_wf_moved|reflexivity|reflexivity].
Qed.

(* ---- composition with C04's any-path theorem ---- *)

Lemma build_compile_preserves (w dflt nom : Z) (calls : list bcall) (g : glyph) (code : list N)
      (subrs gsubrs : subrtab) :
  M_build w calls = Some g -> builder_wf calls = true -> emits g dflt nom code ->
  S_t2 dflt nom subrs gsubrs code = T2Ok (S_build w calls) /\
  paths_of_cmds (g_cmds (S_build w calls)) = S_draw calls /\ S_draw calls <> None.
Proof.
  intros Hb Hwf He. rewrite build_spec in Hb. inversion Hb; subst g.
  split; [apply any_path_correct_lemma; [exact He|rewrite builder_wf_glyph; exact Hwf]|].
  split; [unfold paths_of_cmds, S_draw, S_build; cbn [g_cmds]; apply draw_paths|].
  apply builder_wf_draw. exact Hwf.
Qed.

(* ---- totality ---- *)

Definition coord_ok (v : Z) : bool := (-1073741824 <? v) && (v <? 1073741824).
Definition call_bounded (c : bcall) : bool := forallb coord_ok (call_params c).

Lemma enc_number_in (x : Z) : in_range x = true -> exists code, enc_number x = Some (x, code).
Proof. intros H. destruct (enc_number_exact x H) as (code & H1 & _). eauto. Qed.

Lemma in_range_diff (a b : Z) : coord_ok a = true -> coord_ok b = true -> in_range (a - b) = true.
Proof.
  unfold coord_ok, in_range, FIX_MIN, FIX_MAX. intros Ha Hb.
  apply andb_true_iff in Ha. apply andb_true_iff in Hb. rewrite !Z.ltb_lt in *.
  apply andb_true_iff. rewrite !Z.leb_le. lia.
Qed.

Lemma enc_args_total : forall calls px py,
  coord_ok px = true -> coord_ok py = true -> forallb call_bounded calls = true ->
  exists ecs, enc_args px py (map S_cmd calls) = Some ecs.
Proof.
  induction calls as [|c t IH]; intros px py Hx Hy Hb; [eexists; reflexivity|].
  cbn [forallb] in Hb. apply andb_true_iff in Hb. destruct Hb as [Hc Ht].
  destruct c as [x y|x y|x1 y1 x2 y2 x3 y3]; unfold call_bounded in Hc; cbn [call_params forallb] in Hc;
    repeat (apply andb_true_iff in Hc; destruct Hc as [? Hc]); cbn [map S_cmd enc_args].
  - destruct (enc_number_in (x - px)) as (c1 & E1); [apply in_range_diff; assumption|].
    destruct (enc_number_in (y - py)) as (c2 & E2); [apply in_range_diff; assumption|].
    rewrite E1, E2. cbn [obind ev fst].
    replace (px + (x - px)) with x by lia. replace (py + (y - py)) with y by lia.
    destruct (IH x y) as (r & Er); try assumption. rewrite Er. eexists; reflexivity.
  - destruct (enc_number_in (x - px)) as (c1 & E1); [apply in_range_diff; assumption|].
    destruct (enc_number_in (y - py)) as (c2 & E2); [apply in_range_diff; assumption|].
    rewrite E1, E2. cbn [obind ev fst].
    replace (px + (x - px)) with x by lia. replace (py + (y - py)) with y by lia.
    destruct (IH x y) as (r & Er); try assumption. rewrite Er. eexists; reflexivity.
  - destruct (enc_number_in (x1 - px)) as (c1 & E1); [apply in_range_diff; assumption|].
    destruct (enc_number_in (y1 - py)) as (c2 & E2); [apply in_range_diff; assumption|].
    rewrite E1, E2. cbn [obind ev fst].
    replace (x2 - (x1 - px) - px) with (x2 - x1) by lia.
    replace (y2 - (y1 - py) - py) with (y2 - y1) by lia.
    destruct (enc_number_in (x2 - x1)) as (c3 & E3); [apply in_range_diff; assumption|].
    destruct (enc_number_in (y2 - y1)) as (c4 & E4); [apply in_range_diff; assumption|].
    rewrite E3, E4. cbn [obind ev fst].
    replace (x3 - (x2 - x1) - (x1 - px) - px) with (x3 - x2) by lia.
    replace (y3 - (y2 - y1) - (y1 - py) - py) with (y3 - y2) by lia.
    destruct (enc_number_in (x3 - x2)) as (c5 & E5); [apply in_range_diff; assumption|].
    destruct (enc_number_in (y3 - y2)) as (c6 & E6); [apply in_range_diff; assumption|].
    rewrite E5, E6. cbn [obind ev fst].
    replace (px + (x1 - px + (x2 - x1) + (x3 - x2))) with x3 by lia.
    replace (py + (y1 - py + (y2 - y1) + (y3 - y2))) with y3 by lia.
    destruct (IH x3 y3) as (r & Er); try assumption. rewrite Er. eexists; reflexivity.
Qed.

(* whatever encodeArgs produced can be laid out: a path through the edges exists *)
Lemma paths_code_exists : forall n ecs, (length ecs <= n)%nat -> run_wf ecs -> exists body, paths_code ecs body.
Proof.
  induction n as [|n IH]; intros ecs Hn Hwf.
  - destruct ecs; [|cbn in Hn; lia]. eexists. constructor.
  - destruct ecs as [|c t]; [eexists; constructor|].
    assert (Hwt : run_wf t) by (inversion Hwf; assumption).
    destruct c as [dx dy|dx dy|a0 a1 a2 a3 a4 a5|k bs].
    + destruct (IH t) as (b & Hb); [cbn in Hn; lia|exact Hwt|]. eexists. apply pc_move. exact Hb.
    + destruct (take_run (ELine dx dy :: t)) as [run rest] eqn:E.
      pose proof (take_run_nonempty _ _ _ _ (eq_refl : is_draw_cmd (ELine dx dy) = true) E) as Hne.
      destruct (take_run_spec _ _ _ E) as [Hs Hd].
      rewrite Hs in Hwf. apply run_wf_app in Hwf. destruct Hwf as [Hw1 Hw2].
      destruct (path_exists run Hw1 Hd (length run) 0%nat ltac:(lia) ltac:(lia)) as (c1 & Hc1).
      destruct (IH rest) as (c2 & Hc2); [|exact Hw2|].
      { apply (f_equal (@length _)) in Hs. rewrite app_length in Hs. cbn [length] in Hs, Hn.
        destruct run; [congruence|]. cbn [length] in Hs. lia. }
      exists (c1 ++ c2). eapply pc_run; eassumption.
    + destruct (take_run (ECurve a0 a1 a2 a3 a4 a5 :: t)) as [run rest] eqn:E.
      pose proof (take_run_nonempty _ _ _ _ (eq_refl : is_draw_cmd (ECurve a0 a1 a2 a3 a4 a5) = true) E) as Hne.
      destruct (take_run_spec _ _ _ E) as [Hs Hd].
      rewrite Hs in Hwf. apply run_wf_app in Hwf. destruct Hwf as [Hw1 Hw2].
      destruct (path_exists run Hw1 Hd (length run) 0%nat ltac:(lia) ltac:(lia)) as (c1 & Hc1).
      destruct (IH rest) as (c2 & Hc2); [|exact Hw2|].
      { apply (f_equal (@length _)) in Hs. rewrite app_length in Hs. cbn [length] in Hs, Hn.
        destruct run; [congruence|]. cbn [length] in Hs. lia. }
      exists (c1 ++ c2). eapply pc_run; eassumption.
    + destruct (IH t) as (b & Hb); [cbn in Hn; lia|exact Hwt|]. eexists. apply pc_mask. exact Hb.
Qed.

Lemma header_total (w dflt nom : Z) (calls : list bcall) :
  in_range (w - nom) = true -> exists hdr, enc_header (S_build w calls) dflt nom = Some hdr.
Proof.
  intros Hr. unfold enc_header, S_build. cbn [g_width g_hstem g_vstem g_cmds length Nat.even negb orb].
  destruct (w =? dflt).
  - cbn [obind]. destruct (map S_cmd calls); eexists; reflexivity.
  - destruct (enc_number_in _ Hr) as (c & E). rewrite E. cbn [obind].
    destruct (ec (w - nom, c)); destruct (map S_cmd calls); eexists; reflexivity.
Qed.

(* every bounded call sequence compiles: the model never fails, some
   charstring is emitted *)
Lemma build_compile_total (w dflt nom : Z) (calls : list bcall) :
  forallb call_bounded calls = true -> in_range (w - nom) = true ->
  exists g code, M_build w calls = Some g /\ emits g dflt nom code.
Proof.
  intros Hb Hr. exists (S_build w calls).
  destruct (header_total w dflt nom calls Hr) as (hdr & Hh).
  destruct (enc_args_total calls 0 0 eq_refl eq_refl Hb) as (ecs & He).
  destruct (enc_args_sound _ _ _ _ He) as (Hrw & _ & _).
  destruct (paths_code_exists (length ecs) ecs (le_n _) Hrw) as (body & Hp).
  exists (hdr ++ body). split; [apply build_spec|].
  exists hdr, ecs, body. repeat split; assumption.
Qed.

(* ---- a line before any MoveTo ---- *)

(* the builder accepts LineTo on a fresh glyph, the encoder compiles it, and
   the specification rejects the charstring: drawing before the first moveto *)
Lemma lineto_first_rejected :
  exists g code,
    M_build (500 * SC) [BLine (10 * SC) (10 * SC); BLine (20 * SC) 0] = Some g /\
    builder_wf [BLine (10 * SC) (10 * SC); BLine (20 * SC) 0] = false /\
    S_draw [BLine (10 * SC) (10 * SC); BLine (20 * SC) 0] = None /\
    check_charstring g (500 * SC) 0 code = true /\
    S_t2 (500 * SC) 0 (mkTab 0 [] []) (mkTab 0 [] []) code = T2Err ENoMove.
Proof.
  eexists. exists [149; 149; 149; 129; 5; 14]%N.
  split; [apply build_spec|]. repeat split; vm_compute; reflexivity.
Qed.
