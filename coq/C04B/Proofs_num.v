(* C04B/Proofs_num.v — encode_number_exact over the REGENERATED boundaries,
   the partition of the int16 range by them, shortest form, and what goes
   wrong when a boundary is moved by one. *)
From Coq Require Import List NArith ZArith Bool Arith Lia.
From Coq Require Import ZifyBool ZifyNat ZifyN.
From Gen Require Import C04B.
From C05 Require Import Model.
From C04 Require Import Model Proofs_num.
From C04B Require Import Model Tie.
Import ListNotations.
Local Open Scope Z_scope.

Ltac Zify.zify_post_hook ::= Z.div_mod_to_equations.

(* the encoder assembled from the regenerated pieces reports the value and
   emits bytes the specification's number reader decodes to it *)
Lemma regen_number_exact (X : Z) :
  in_range X = true ->
  exists code, R_enc_number X = Some (X, code) /\
               forall rest, lex_num (code ++ rest) = NumOk X rest.
Proof.
  intros H. rewrite enc_number_source.
  destruct (enc_number_exact X H) as (code & H1 & H2). exists code. split; [exact H1|exact H2].
Qed.

Lemma regen_number_none (X : Z) : in_range X = false -> R_enc_number X = None.
Proof. intros H. rewrite enc_number_source. apply enc_number_none. exact H. Qed.

(* an integer is encoded by the form of the regenerated range it lies in *)
Lemma regen_int_exact (i : Z) (rest : list N) :
  -32768 <= i <= 32767 ->
  lex_num (enc_int_by c04b_encodeInt_ranges i ++ rest) = NumOk (i * SC) rest.
Proof.
  intros H. rewrite enc_int_ranges_source, enc_int_source by exact H.
  apply enc_int_decodes. exact H.
Qed.

(* ---- no gap, no overlap ---- *)

Definition in_rng (r : Z * Z) (x : Z) : bool := (fst r <=? x) && (x <=? snd r).
Definition covering (rs : list (Z * Z)) (x : Z) : nat := length (filter (fun r => in_rng r x) rs).

(* every value between -1131 and 1131 lies in exactly one regenerated range,
   every other value in none (it takes the three-byte form) *)
Lemma ranges_partition (x : Z) :
  covering c04b_encodeInt_ranges x = (if (-1131 <=? x) && (x <=? 1131) then 1%nat else 0%nat).
Proof.
  rewrite enc_int_ranges_values. unfold covering, in_rng. cbn [filter fst snd].
  destruct (Z.leb_spec (-107) x), (Z.leb_spec x 107), (Z.leb_spec 108 x), (Z.leb_spec x 1131),
    (Z.leb_spec (-1131) x), (Z.leb_spec x (-108)); cbn; try reflexivity; lia.
Qed.

(* ---- shortest form ---- *)

Lemma enc_int_len_le3 (i : Z) : (length (enc_int i) <= 3)%nat.
Proof.
  unfold enc_int.
  destruct ((-107 <=? i) && (i <=? 107)); [cbn; lia|].
  destruct ((107 <? i) && (i <=? 1131)); [cbn; lia|].
  destruct ((i <? -107) && (-1131 <=? i)); cbn; lia.
Qed.

Lemma enc_int_len1 (i : Z) : -107 <= i <= 107 -> length (enc_int i) = 1%nat.
Proof.
  intros H. unfold enc_int.
  replace ((-107 <=? i) && (i <=? 107)) with true by lia. reflexivity.
Qed.

Lemma enc_int_len2 (i : Z) : -1131 <= i <= 1131 -> (length (enc_int i) <= 2)%nat.
Proof.
  intros H. unfold enc_int.
  destruct ((-107 <=? i) && (i <=? 107)) eqn:E1; [cbn; lia|].
  destruct ((107 <? i) && (i <=? 1131)) eqn:E2; [cbn; lia|].
  destruct ((i <? -107) && (-1131 <=? i)) eqn:E3; [cbn; lia|].
  exfalso. lia.
Qed.

(* among ALL byte strings the reader decodes to the integer i (and nothing
   left over), the regenerated encodeInt emits one of the shortest *)
Lemma regen_int_shortest (i : Z) (code : list N) :
  -32768 <= i <= 32767 -> Forall (fun b => (b < 256)%N) code ->
  lex_num code = NumOk (i * SC) [] -> (length (R_enc_int i) <= length code)%nat.
Proof.
  intros Hi Hb H. rewrite enc_int_source by exact Hi.
  destruct code as [|b r]; [discriminate|]. cbn [lex_num] in H.
  inversion Hb as [|? ? Hb0 Hr]; subst.
  destruct ((32 <=? b)%N && (b <=? 246)%N) eqn:E1.
  { inversion H; subst. rewrite enc_int_len1; [cbn; lia|]. unfold SC in *. lia. }
  destruct ((247 <=? b)%N && (b <=? 250)%N) eqn:E2.
  { destruct r as [|w r1]; [discriminate|]. inversion H; subst.
    inversion Hr as [|? ? Hw _]; subst.
    pose proof (enc_int_len2 i) as L. cbn [length]. unfold SC in *.
    assert (-1131 <= i <= 1131) by lia. specialize (L H0). lia. }
  destruct ((251 <=? b)%N && (b <=? 254)%N) eqn:E3.
  { destruct r as [|w r1]; [discriminate|]. inversion H; subst.
    inversion Hr as [|? ? Hw _]; subst.
    pose proof (enc_int_len2 i) as L. cbn [length]. unfold SC in *.
    assert (-1131 <= i <= 1131) by lia. specialize (L H0). lia. }
  destruct (b =? 28)%N.
  { destruct r as [|b1 [|b2 r2]]; try discriminate. pose proof (enc_int_len_le3 i). cbn [length]. lia. }
  destruct (b =? 255)%N; [|discriminate].
  destruct r as [|b1 [|b2 [|b3 [|b4 r4]]]]; try discriminate.
  pose proof (enc_int_len_le3 i). cbn [length]. lia.
Qed.

(* ---- a boundary moved by one ---- *)

(* the case ranges with the one-byte / two-byte boundary at a and the
   two-byte / three-byte boundary at b *)
Definition ranges_ab (a b : Z) : list (Z * Z) := [(- a, a); (a + 1, b); (- b, - a - 1)].

Lemma ranges_ab_source : c04b_encodeInt_ranges = ranges_ab 107 1131.
Proof. reflexivity. Qed.

(* 107 -> 108: the integer 108 would be written as the single byte 247, which
   the reader takes for the first half of a two-byte operand *)
Lemma boundary_108_wrong :
  lex_num (enc_int_by (ranges_ab 108 1131) 108) <> NumOk (108 * SC) [].
Proof. vm_compute. discriminate. Qed.

(* 107 -> 106: the integer 107 would go through the two-byte form with a
   negative offset: bytes 246 255, read as 107 followed by a stray byte *)
Lemma boundary_106_wrong :
  lex_num (enc_int_by (ranges_ab 106 1131) 107) <> NumOk (107 * SC) [].
Proof. vm_compute. discriminate. Qed.

(* 1131 -> 1132: 1132 would get the prefix 251 of the negative form: read as -108 *)
Lemma boundary_1132_wrong :
  lex_num (enc_int_by (ranges_ab 107 1132) 1132) = NumOk (-108 * SC) [].
Proof. vm_compute. reflexivity. Qed.

(* -1131 -> -1132 likewise leaves the byte range of the negative form *)
Lemma boundary_m1132_wrong :
  lex_num (enc_int_by (ranges_ab 107 1132) (-1132)) <> NumOk (-1132 * SC) [].
Proof. vm_compute. discriminate. Qed.

(* 1131 -> 1130: still correct, but no longer the shortest form *)
Lemma boundary_1130_longer :
  lex_num (enc_int_by (ranges_ab 107 1130) 1131) = NumOk (1131 * SC) [] /\
  length (enc_int_by (ranges_ab 107 1130) 1131) = 3%nat /\ length (R_enc_int 1131) = 2%nat.
Proof. vm_compute. repeat split. Qed.
