(* C04B/Props.v — part C04B of property C04 (compiling glyphs to Type 2
   charstrings preserves outline, hints and width): the translator tie of
   cff/t2encode.go, the Glyph builder of cff/glyph.go, the font-level width
   handling of cff/write.go / cff/font.go.  C04's models and theorems and
   C05's specification interpreter are imported, nothing is copied. *)
From Coq Require Import List NArith ZArith Bool Arith Lia.
From Gen Require Import Consts C04B.
From C05 Require Import Model.
From C04 Require Import Model Proofs_final.
From C04B Require Import Model Tie Proofs_num Proofs_builder Proofs_width Proofs_extent Proofs_props.
Import ListNotations.
Local Open Scope Z_scope.

(* ================= (1) the translator tie of t2encode.go ================= *)

(* C04's hand-written mirror uses exactly the values regenerated from the Go
   AST on this run: encodeInt (boundaries, offsets 139 / 108 / 247 / 251,
   prefix 28) on every int16, encodeNumber (integer test with tolerance
   0.5/65536, scale 65536, prefix 255 and the four bytes of the 16.16 form) on
   every grid value, the operator bytes of every t2op the encoder refers to,
   maxStack and the eleven stack tests of AppendEdges. *)
Theorem t2encode_literals_tie :
  (forall i, -32768 <= i <= 32767 -> R_enc_int i = enc_int i) /\
  (forall X, R_enc_number X = enc_number X) /\
  map (fun p => op_code_bytes (snd p)) c04b_ops_used = map op_bytes emitted_ops /\
  (c04b_maxStack = enc_max_stack /\ c04b_maxStack = cff_maxStack /\ c04b_maxStack = t2_max_stack) /\
  c04b_stack_conds =
    [ (2, 2, 0); (2, 2, 0); (2, 6, 0); (2, 1, 0);
      (3, 6, 0); (3, 6, 0); (3, 2, 0); (3, 4, 0); (3, 5, 0); (3, 4, 1); (3, 5, 1) ].
Proof. exact t2encode_literals_tie_lemma. Qed.
Print Assumptions t2encode_literals_tie.

(* the operand order of hflex / hflex1 and of the hhcurveto / vvcurveto loop in
   C04's mirror is the one of the append(code, ...) calls of the source *)
Theorem t2encode_operand_order_tie :
  forall (a0 a1 a2 a3 a4 a5 b0 b1 b2 b3 b4 b5 : enum) (t : list ecmd),
    (forall e, In e (flex_edges (ECurve a0 a1 a2 a3 a4 a5 :: ECurve b0 b1 b2 b3 b4 b5 :: t)) ->
       (e_op e = OHflex /\
        Some (e_args e) = interp_row (row 5) false false [a0; a1; a2; a3; a4; a5] [b0; b1; b2; b3; b4; b5]) \/
       (e_op e = OHflex1 /\
        Some (e_args e) = interp_row (row 6) false false [a0; a1; a2; a3; a4; a5] [b0; b1; b2; b3; b4; b5])) /\
    (forall offs, interp_row (row 2) offs false [a0; a1; a2; a3; a4; a5] [b0; b1; b2; b3; b4; b5] = Some [sel offs a1 a0; a2; a3; sel offs a5 a4]) /\
    (forall offs, interp_row (row 3) offs false [a0; a1; a2; a3; a4; a5] [b0; b1; b2; b3; b4; b5] = Some [sel offs a0 a1; a2; a3; sel offs a5 a4]).
Proof. exact t2encode_operand_order_tie_lemma. Qed.
Print Assumptions t2encode_operand_order_tie.

(* encode_number_exact over the REGENERATED boundaries: for every 16.16 grid
   value in [-32768, 32768) the encoder assembled from the regenerated pieces
   reports the value itself and emits bytes which C05's number reader decodes
   to exactly that value, whatever follows; outside the range it has no
   result (C04's open finding). *)
Theorem regen_encode_number_exact :
  forall X : Z, in_range X = true ->
    exists code, R_enc_number X = Some (X, code) /\
                 forall rest, lex_num (code ++ rest) = NumOk X rest.
Proof. exact regen_encode_number_exact_lemma. Qed.
Print Assumptions regen_encode_number_exact.

(* No gap and no overlap: the regenerated case ranges are exactly the value
   ranges of the reader's one- and two-byte forms; every integer of
   [-1131, 1131] lies in exactly one of them, every other int16 in none (it
   takes the three-byte form); the form selected by the ranges decodes to the
   integer; and among ALL byte strings the reader decodes to that integer the
   emitted one is a shortest. *)
Theorem regen_boundaries_partition :
  c04b_encodeInt_ranges = S_form_ranges /\
  (forall x, covering c04b_encodeInt_ranges x = if (-1131 <=? x) && (x <=? 1131) then 1%nat else 0%nat) /\
  (forall i rest, -32768 <= i <= 32767 ->
     lex_num (enc_int_by c04b_encodeInt_ranges i ++ rest) = NumOk (i * SC) rest) /\
  (forall i code, -32768 <= i <= 32767 -> Forall (fun b => (b < 256)%N) code ->
     lex_num code = NumOk (i * SC) [] -> (length (R_enc_int i) <= length code)%nat).
Proof. exact regen_boundaries_partition_lemma. Qed.
Print Assumptions regen_boundaries_partition.

(* A boundary moved by one breaks the statement: with the one-byte range
   ending at 108 the integer 108 is not read back, with it ending at 106 the
   integer 107 is not; with the two-byte range ending at 1132 the integer 1132
   is read back as -108. *)
Theorem boundary_107_108_refuted :
  c04b_encodeInt_ranges = ranges_ab 107 1131 /\
  (exists i, -32768 <= i <= 32767 /\ lex_num (enc_int_by (ranges_ab 108 1131) i) <> NumOk (i * SC) []) /\
  (exists i, -32768 <= i <= 32767 /\ lex_num (enc_int_by (ranges_ab 106 1131) i) <> NumOk (i * SC) []).
Proof. exact boundary_107_108_refuted_lemma. Qed.
Print Assumptions boundary_107_108_refuted.

Theorem boundary_1131_1132_refuted :
  (exists i, -32768 <= i <= 32767 /\ lex_num (enc_int_by (ranges_ab 107 1132) i) <> NumOk (i * SC) []) /\
  (exists i, -32768 <= i <= 32767 /\ lex_num (enc_int_by (ranges_ab 107 1132) i) = NumOk (-108 * SC) [] /\ i <> -108) /\
  (exists i, lex_num (enc_int_by (ranges_ab 107 1130) i) = NumOk (i * SC) [] /\
             (length (R_enc_int i) < length (enc_int_by (ranges_ab 107 1130) i))%nat).
Proof. exact boundary_1131_1132_refuted_lemma. Qed.
Print Assumptions boundary_1131_1132_refuted.

(* ================= (2) the Glyph builder ================= *)

(* After ANY sequence of NewGlyph(_, w), MoveTo / LineTo / CurveTo calls the
   glyph holds exactly one command per call, in call order, with the call's
   coordinates, no stems and the width given to NewGlyph: the builder does
   not normalise anything (a MoveTo after a MoveTo, a zero-length LineTo, a
   repeated point all stay).  One more call appends one command and leaves
   the earlier ones alone.  The drawing this command list stands for in the
   Type 2 drawing model (a moveto closes the open sub-path and starts a new
   one) is the drawing the doc comments of the methods describe. *)
Theorem builder_commands :
  forall (w : Z) (calls : list bcall),
    M_build w calls = Some (S_build w calls) /\
    (forall c, M_build w (calls ++ [c]) = Some (mkGlyph (g_cmds (S_build w calls) ++ [S_cmd c]) [] [] w)) /\
    paths_of_cmds (g_cmds (S_build w calls)) = S_draw calls /\
    (builder_wf calls = true <-> S_draw calls <> None) /\
    glyph_wf (S_build w calls) = builder_wf calls.
Proof. exact builder_commands_lemma. Qed.
Print Assumptions builder_commands.

(* Composition with C04's t2_any_path_correct: a glyph built through the
   methods (nothing drawn before the first MoveTo), compiled - EVERY
   charstring encodeCharString can emit, for every default / nominal width -
   and executed under the Type 2 specification draws exactly the calls that
   were made, with the width given to NewGlyph. *)
Theorem builder_then_compile_preserves :
  forall (w dflt nom : Z) (calls : list bcall) (g : glyph) (code : list N) (subrs gsubrs : subrtab),
    M_build w calls = Some g -> builder_wf calls = true -> emits g dflt nom code ->
    S_t2 dflt nom subrs gsubrs code = T2Ok (S_build w calls) /\
    paths_of_cmds (g_cmds (S_build w calls)) = S_draw calls /\ S_draw calls <> None.
Proof. exact builder_then_compile_preserves_lemma. Qed.
Print Assumptions builder_then_compile_preserves.

(* Totality: the builder never fails, and every call sequence with
   coordinates of magnitude below 16384 (so that every delta fits a Type 2
   operand) and a representable width operand compiles to some charstring. *)
Theorem builder_total :
  forall (w dflt nom : Z) (calls : list bcall),
    (exists g, M_build w calls = Some g) /\
    (forallb call_bounded calls = true -> in_range (w - nom) = true ->
     exists g code, M_build w calls = Some g /\ emits g dflt nom code).
Proof. exact builder_total_lemma. Qed.
Print Assumptions builder_total.

(* The hypothesis "nothing drawn before the first MoveTo" is needed: the
   builder accepts LineTo on a fresh glyph, the encoder compiles it, and the
   specification rejects the charstring (so does cff.Read). *)
Theorem builder_lineto_first_refuted :
  exists w calls g code,
    M_build w calls = Some g /\ builder_wf calls = false /\ S_draw calls = None /\
    check_charstring g w 0 code = true /\
    S_t2 w 0 (mkTab 0 [] []) (mkTab 0 [] []) code = T2Err ENoMove.
Proof. exact builder_lineto_first_refuted_lemma. Qed.
Print Assumptions builder_lineto_first_refuted.

(* Glyph.Extent (the rest of cff/glyph.go): the rectangle it returns is the
   smallest one with integer corners that contains the end point of every
   moveto / lineto / curveto command - for a glyph made by the builder: of
   every call; control points of curves and masks play no part; a glyph
   without such commands gets the zero rectangle. *)
Theorem extent_is_endpoint_box :
  forall (cs : list cmd),
    M_extent cs = S_extent cs /\
    (forall x y, In (x, y) (endpoints cs) ->
       let '(llx, lly, urx, ury) := M_extent cs in
       llx * SC <= x <= urx * SC /\ lly * SC <= y <= ury * SC) /\
    (endpoints cs <> [] ->
       let '(llx, lly, urx, ury) := M_extent cs in
       (exists p, In p (endpoints cs) /\ fst p < (llx + 1) * SC) /\
       (exists p, In p (endpoints cs) /\ snd p < (lly + 1) * SC) /\
       (exists p, In p (endpoints cs) /\ (urx - 1) * SC < fst p) /\
       (exists p, In p (endpoints cs) /\ (ury - 1) * SC < snd p)) /\
    (endpoints cs = [] -> M_extent cs = (0, 0, 0, 0)) /\
    (forall w calls, endpoints (g_cmds (S_build w calls)) = map call_end calls).
Proof. exact extent_is_endpoint_box_lemma. Qed.
Print Assumptions extent_is_endpoint_box.

(* ================= (3) font-level widths ================= *)

(* For EVERY choice of default and nominal width - not only the one the code
   makes: (a) every charstring encodeCharString can emit for a glyph executes
   to the glyph with its width (C04's theorem, any pair); (b) the width
   operand is absent exactly for the default width and the reader's rule
   (C05's glyph_of) gives the width back; (c) the code's choice is one of
   them and survives the Private DICT: both values are integers, so the
   entries int32(v) (absent for 0) are read back as the same pair. *)
Theorem width_choice_transparent :
  (forall (g : glyph) (dflt nom : Z) (code : list N) (subrs gsubrs : subrtab),
     emits g dflt nom code -> glyph_wf g = true ->
     exists g', S_t2 dflt nom subrs gsubrs code = T2Ok g' /\ g_width g' = g_width g) /\
  (forall dflt nom w, S_width_rule dflt nom (M_width_operand dflt nom w) = w) /\
  (forall dflt nom st, g_width (glyph_of dflt nom st) = S_width_rule dflt nom (width st)) /\
  (forall ws, S_priv_value (M_priv_entry (fst (M_font_widths ws))) = fst (M_font_widths ws) /\
              S_priv_value (M_priv_entry (snd (M_font_widths ws))) = snd (M_font_widths ws)).
Proof. exact width_choice_transparent_lemma. Qed.
Print Assumptions width_choice_transparent.

(* CID-keyed fonts: Font.Write puts the pair into every private dictionary,
   and the reader - which takes default / nominal width from the private
   dictionary FDSelect assigns to the glyph - recovers every glyph's width,
   for every FDSelect into the font's dictionaries (dictionaries without
   glyphs included).  The same holds for a writer that chooses a pair PER
   dictionary and compiles each glyph against the pair of ITS dictionary. *)
Theorem per_fd_widths :
  (forall (nfd : nat) (ws : list Z) (fdsel : list nat),
     length fdsel = length ws -> Forall (fun fd => (fd < nfd)%nat) fdsel ->
     S_font_read_widths (fst (M_font_write_widths nfd ws)) fdsel (snd (M_font_write_widths nfd ws)) = ws /\
     forall fd, (fd < nfd)%nat ->
       nth fd (fst (M_font_write_widths nfd ws)) (None, None) =
       (M_priv_entry (fst (M_font_widths ws)), M_priv_entry (snd (M_font_widths ws)))) /\
  (forall (choice : nat -> Z * Z) (nfd : nat) (fdsel : list nat) (ws : list Z),
     (forall i, fst (choice i) mod SC = 0 /\ snd (choice i) mod SC = 0) ->
     length fdsel = length ws -> Forall (fun fd => (fd < nfd)%nat) fdsel ->
     S_font_read_widths (fst (W_per_fd choice nfd fdsel ws)) fdsel (snd (W_per_fd choice nfd fdsel ws)) = ws).
Proof. exact per_fd_widths_lemma. Qed.
Print Assumptions per_fd_widths.

(* It has to be the pair of the glyph's own dictionary. *)
Theorem per_fd_widths_refuted :
  exists (privs : list (option Z * option Z)) (w : Z),
    S_font_read_widths privs [1%nat] [M_width_operand (S_priv_value (fst (nth 0 privs (None, None))))
                                                     (S_priv_value (snd (nth 0 privs (None, None)))) w] <> [w] /\
    S_font_read_widths privs [1%nat] [M_width_operand (S_priv_value (fst (nth 1 privs (None, None))))
                                                     (S_priv_value (snd (nth 1 privs (None, None)))) w] = [w].
Proof. exact per_fd_widths_refuted_lemma. Qed.
Print Assumptions per_fd_widths_refuted.

(* What the code's choice is (selectWidths, regenerated constants 32767 and
   107): with two or more glyphs the default width is a most frequent width
   among those of magnitude <= 32767; the nominal width is the rounded mean
   of the non-default widths over ALL glyphs, moved into [min+107, max-107] of
   the non-default widths (inside that interval whenever they span >= 214),
   and 0 when no glyph differs from the default; both are then truncated to
   integers.  When the most frequent width is an integer no other default
   leaves more glyphs without a width operand. *)
Theorem width_choice_of_the_code :
  (forall ws w, (2 <= length ws)%nat -> Z.abs w <= sw_skip ->
     count_z w ws <= count_z (fst (M_select_widths ws)) ws) /\
  (forall ws d n, (2 <= length ws)%nat -> M_select_widths ws = (d, Some n) ->
     exists m r,
       filter (fun w => negb (w =? d)) ws = m :: r /\
       let mn := fold_left Z.min r m in
       let mx := fold_left Z.max r m in
       let mean := round_half_away (sum_z (m :: r)) (SC * Z.of_nat (length ws)) * SC in
       n = (if mean <? mn + sw_lo then mn + sw_lo else if mean >? mx - sw_hi then mx - sw_hi else mean) /\
       (forall w, In w ws -> w <> d -> mn <= w <= mx) /\
       (sw_lo + sw_hi <= mx - mn -> mn + sw_lo <= n <= mx - sw_hi)) /\
  (forall ws d, M_select_widths ws = (d, None) ->
     snd (M_font_widths ws) = 0 /\ forall w, In w ws -> w = d) /\
  (forall ws d', (2 <= length ws)%nat -> fst (M_select_widths ws) mod SC = 0 -> Z.abs d' <= sw_skip ->
     count_no_operand d' ws <= count_no_operand (fst (M_font_widths ws)) ws) /\
  (sw_skip = 32767 * SC /\ sw_lo = 107 * SC /\ sw_hi = 107 * SC).
Proof. exact width_choice_of_the_code_lemma. Qed.
Print Assumptions width_choice_of_the_code.

(* A fractional most frequent width is truncated, and then the choice is not
   the best one (an optimisation miss, not a loss of width). *)
Theorem width_choice_optimal_refuted :
  exists ws d',
    count_no_operand (fst (M_font_widths ws)) ws < count_no_operand d' ws /\ Z.abs d' <= sw_skip.
Proof. exact width_choice_optimal_refuted_lemma. Qed.
Print Assumptions width_choice_optimal_refuted.
