(* C04B/Model.v — part C04B of property C04.

   (1) R_*: the number encoder of cff/t2encode.go assembled from the pieces
       regenerated from the Go AST (Gen/C04B.v): the clause bodies and case
       ranges of encodeInt, the tolerance / scale / byte layout of
       encodeNumber, the operator codes.  Tie.v proves that C04's hand-written
       mirror computes the same.
   (2) M_build: the Glyph builder of cff/glyph.go (NewGlyph, MoveTo, LineTo,
       CurveTo) driven by the regenerated method table; S_build / S_draw: what
       a sequence of builder calls means (doc comments, Type 2 drawing model).
   (3) M_select_widths / M_font_widths / M_font_write_widths: the font-level
       width handling of cff/write.go and cff/font.go (selectWidths, the
       truncation in encodeCharStrings, makePrivateDict, one pair for every
       private dictionary); S_width_rule / S_font_read_widths: the reader's
       rule (C05's glyph_of, C05B's width_rule).

   Numbers are 16.16 fixed point scaled to Z (v * 65536) as in C05 / C04.
   Definitions only. *)
From Coq Require Import List NArith ZArith Bool Arith.
From Gen Require Import C04B.
From C05 Require Import Model.
From C04 Require Import Model.
Import ListNotations.
Local Open Scope Z_scope.

(* ================================================================== *)
(* (1) the number encoder from the regenerated pieces                  *)

Definition to_bytes (l : list Z) : list N := map Z.to_N l.

(* the form encodeInt selects: the first case range containing x, else default *)
Fixpoint select_form (ranges : list (Z * Z)) (forms : list (Z -> list Z)) (dflt : Z -> list Z) (x : Z)
  : list Z :=
  match ranges, forms with
  | (lo, hi) :: rt, f :: ft => if (lo <=? x) && (x <=? hi) then f x else select_form rt ft dflt x
  | _, _ => dflt x
  end.

(* encodeInt with the clause bodies of the source and ANY case ranges *)
Definition enc_int_by (ranges : list (Z * Z)) (x : Z) : list N :=
  to_bytes (select_form ranges c04b_encodeInt_forms c04b_encodeInt_default x).

(* encodeInt as regenerated *)
Definition R_enc_int (x : Z) : list N := to_bytes (c04b_encodeInt x).

(* math.Round of num/den (den > 0): half away from zero *)
Definition round_half_away (num den : Z) : Z :=
  if 0 <=? num then (2 * num + den) / (2 * den) else - ((2 * (- num) + den) / (2 * den)).

(* encodeNumber(x) for x = X/65536 on the grid, with the regenerated
   tolerance (a fraction), scale, divisor and byte layout:
     x16 := funit.Int16(x)                      truncation toward zero
     if |float64(x16) - x| <= tol  { encodeInt(x16); value x16 }
     else { x32 := int32(math.Round(x*scale)); bytes; value x32/unscale } *)
Definition R_enc_number (X : Z) : option enum :=
  if in_range X then
    let x16 := Z.quot X SC in
    if Z.abs (x16 * SC - X) * snd c04b_encnum_tol <=? fst c04b_encnum_tol * SC then
      Some (x16 * SC, R_enc_int x16)
    else
      let x32 := round_half_away (X * c04b_encnum_scale) SC in
      Some (x32 * SC / c04b_encnum_unscale, to_bytes (c04b_encnum_fixed x32))
  else None.

(* t2op.Bytes() / copyOp: one byte, or two above the regenerated threshold *)
Definition op_code_bytes (v : Z) : list N :=
  if v >? c04b_op_two_byte_above then [Z.to_N ((v / 256) mod 256); Z.to_N (v mod 256)] else [Z.to_N v].

(* the value ranges the READER's operand forms can represent (TN5177 3.2,
   from the constants of C05's lex_num): one byte 32..246 minus 139; two
   bytes 247..250 / 251..254 with a second byte 0..255 and the offset 108 *)
Definition S_form_ranges : list (Z * Z) :=
  [ (32 - 139, 246 - 139);
    (108, (250 - 247) * 256 + 255 + 108);
    (- (254 - 251) * 256 - 255 - 108, - 108) ].

(* interpretation of one regenerated operand row of an append(code, ...)
   call: which command (first / second), which argument c + a*offs + b*chk *)
Definition b2z (b : bool) : Z := if b then 1 else 0.

Definition arg_ix (row : Z * Z * Z * Z) (offs chk : bool) : Z * Z :=
  let '(which, c, a, b) := row in (which, c + a * b2z offs + b * b2z chk).

Definition pick6 (l : list enum) (i : Z) : option enum := nth_error l (Z.to_nat i).

(* operands of a row list for the curves [cur] (cmds[pos] or cmds[0]) and [nxt] (cmds[1]) *)
Fixpoint interp_row (rows : list (Z * Z * Z * Z)) (offs chk : bool) (cur nxt : list enum) : option (list enum) :=
  match rows with
  | [] => Some []
  | r :: t =>
      let '(which, i) := arg_ix r offs chk in
      if which =? 100 then interp_row t offs chk cur nxt
      else match pick6 (if which =? 1 then nxt else cur) i, interp_row t offs chk cur nxt with
           | Some e, Some l => Some (e :: l)
           | _, _ => None
           end
  end.

(* ================================================================== *)
(* (2) the Glyph builder                                               *)

(* one call of a builder method *)
Inductive bcall : Type :=
| BMove (x y : Z)
| BLine (x y : Z)
| BCurve (x1 y1 x2 y2 x3 y3 : Z).

(* position in the regenerated method table (item arg "MoveTo,LineTo,CurveTo") *)
Definition call_method (c : bcall) : nat :=
  match c with BMove _ _ => 0 | BLine _ _ => 1 | BCurve _ _ _ _ _ _ => 2 end%nat.

Definition call_params (c : bcall) : list Z :=
  match c with
  | BMove x y | BLine x y => [x; y]
  | BCurve x1 y1 x2 y2 x3 y3 => [x1; y1; x2; y2; x3; y3]
  end.

(* a GlyphOp as the Go code stores it: the operator number and Args *)
Definition gop : Type := (Z * list Z)%type.

(* the GlyphOp one method call appends: Op and Args{...} of its literal *)
Definition M_method (tbl : list (Z * nat * list nat)) (c : bcall) : option gop :=
  match nth_error tbl (call_method c) with
  | Some (op, np, idx) =>
      if (np =? length (call_params c))%nat
      then Some (op, map (fun i => nth i (call_params c) 0) idx)
      else None
  | None => None
  end.

(* g.Cmds after the calls: each method appends one element *)
Fixpoint M_calls (tbl : list (Z * nat * list nat)) (cmds : list gop) (calls : list bcall) : option (list gop) :=
  match calls with
  | [] => Some cmds
  | c :: t => match M_method tbl c with
              | Some g => M_calls tbl (cmds ++ [g]) t
              | None => None
              end
  end.

(* how the encoder reads a GlyphOp (encodeArgs: the switch over cmd.Op and the
   Args it indexes); None: Args too short - the Go code would panic *)
Definition cmd_of_gop (g : gop) : option cmd :=
  let '(op, a) := g in
  if op =? c04b_OpMoveTo then match a with x :: y :: _ => Some (CMove x y) | _ => None end
  else if op =? c04b_OpLineTo then match a with x :: y :: _ => Some (CLine x y) | _ => None end
  else if op =? c04b_OpCurveTo then
    match a with x1 :: y1 :: x2 :: y2 :: x3 :: y3 :: _ => Some (CCurve x1 y1 x2 y2 x3 y3) | _ => None end
  else None.

Fixpoint cmds_of_gops (l : list gop) : option (list cmd) :=
  match l with
  | [] => Some []
  | g :: t => match cmd_of_gop g, cmds_of_gops t with
              | Some c, Some r => Some (c :: r)
              | _, _ => None
              end
  end.

(* NewGlyph(name, width) followed by the calls: the glyph description the
   encoder is given (HStem / VStem stay nil) *)
Definition M_build (w : Z) (calls : list bcall) : option glyph :=
  match M_calls c04b_builder [] calls with
  | Some gops => match cmds_of_gops gops with
                 | Some cs => Some (mkGlyph cs [] [] w)
                 | None => None
                 end
  | None => None
  end.

(* --- specification --- *)

(* the command a call stands for *)
Definition S_cmd (c : bcall) : cmd :=
  match c with
  | BMove x y => CMove x y
  | BLine x y => CLine x y
  | BCurve x1 y1 x2 y2 x3 y3 => CCurve x1 y1 x2 y2 x3 y3
  end.

Definition S_build (w : Z) (calls : list bcall) : glyph := mkGlyph (map S_cmd calls) [] [] w.

(* the drawing: closed sub-paths, each a start point and its segments *)
Inductive seg : Type :=
| SLine (x y : Z)
| SCurve (x1 y1 x2 y2 x3 y3 : Z).

Definition subpath : Type := ((Z * Z) * list seg)%type.

Definition close_cur (cur : option subpath) (done : list subpath) : list subpath :=
  match cur with Some s => done ++ [s] | None => done end.

(* "MoveTo starts a new sub-path and moves the current point to (x, y).  The
   previous sub-path, if any, is closed.  LineTo adds a straight line to the
   current sub-path.  CurveTo adds a cubic Bezier curve to the current
   sub-path."  None: a line or curve without a current sub-path. *)
Fixpoint S_draw_from (cur : option subpath) (done : list subpath) (calls : list bcall)
  : option (list subpath) :=
  match calls with
  | [] => Some (close_cur cur done)
  | BMove x y :: t => S_draw_from (Some ((x, y), [])) (close_cur cur done) t
  | BLine x y :: t =>
      match cur with
      | Some (p, segs) => S_draw_from (Some (p, segs ++ [SLine x y])) done t
      | None => None
      end
  | BCurve x1 y1 x2 y2 x3 y3 :: t =>
      match cur with
      | Some (p, segs) => S_draw_from (Some (p, segs ++ [SCurve x1 y1 x2 y2 x3 y3])) done t
      | None => None
      end
  end.

Definition S_draw (calls : list bcall) : option (list subpath) := S_draw_from None [] calls.

(* the drawing a Type 2 glyph description stands for: a moveto closes the
   open sub-path and starts one; masks draw nothing; drawing before the first
   moveto is not a glyph (TN5177 4.1) *)
Fixpoint paths_from (cur : option subpath) (done : list subpath) (cs : list cmd) : option (list subpath) :=
  match cs with
  | [] => Some (close_cur cur done)
  | CMove x y :: t => paths_from (Some ((x, y), [])) (close_cur cur done) t
  | CLine x y :: t =>
      match cur with
      | Some (p, segs) => paths_from (Some (p, segs ++ [SLine x y])) done t
      | None => None
      end
  | CCurve x1 y1 x2 y2 x3 y3 :: t =>
      match cur with
      | Some (p, segs) => paths_from (Some (p, segs ++ [SCurve x1 y1 x2 y2 x3 y3])) done t
      | None => None
      end
  | CHint _ :: t | CCntr _ :: t => paths_from cur done t
  end.

Definition paths_of_cmds (cs : list cmd) : option (list subpath) := paths_from None [] cs.

(* call sequences that describe a drawing: nothing is drawn before a MoveTo *)
Definition builder_wf (calls : list bcall) : bool :=
  match calls with
  | [] => true
  | BMove _ _ :: _ => true
  | _ => false
  end.

(* ================================================================== *)
(* (3) font-level widths                                               *)

Definition sw_skip : Z := c04b_sw_skip_above * SC.
Definition sw_lo : Z := c04b_sw_margin_lo * SC.
Definition sw_hi : Z := c04b_sw_margin_hi * SC.

Fixpoint count_z (w : Z) (l : list Z) : Z :=
  match l with
  | [] => 0
  | x :: t => (if x =? w then 1 else 0) + count_z w t
  end.

(* first loop of selectWidths: widthHist[w]++ ; a width whose count EXCEEDS
   the best so far becomes the default.  [seen] = the widths counted so far. *)
Fixpoint sw_default (seen ws : list Z) (best dflt : Z) : Z :=
  match ws with
  | [] => dflt
  | w :: t =>
      if Z.abs w >? sw_skip then sw_default seen t best dflt
      else
        let c := count_z w seen + 1 in
        if c >? best then sw_default (w :: seen) t c w else sw_default (w :: seen) t best dflt
  end.

Definition sum_z (l : list Z) : Z := fold_left Z.add l 0.

(* selectWidths; the nominal width is None where the Go code returns +Inf
   (no glyph differs from the default width) *)
Definition M_select_widths (ws : list Z) : Z * option Z :=
  match ws with
  | [] => (0, Some 0)
  | [w] => (w, Some w)
  | _ =>
      let d := sw_default [] ws 0 0 in
      match filter (fun w => negb (w =? d)) ws with
      | [] => (d, None)
      | m :: r =>
          let mn := fold_left Z.min r m in
          let mx := fold_left Z.max r m in
          let nom := round_half_away (sum_z (m :: r)) (SC * Z.of_nat (length ws)) * SC in
          (d, Some (if nom <? mn + sw_lo then mn + sw_lo
                    else if nom >? mx - sw_hi then mx - sw_hi else nom))
      end
  end.

(* math.Trunc on the grid *)
Definition trunc_grid (v : Z) : Z := Z.quot v SC * SC.

(* encodeCharStrings: both values truncated to integers, a non-finite nominal
   width replaced by 0 - the pair the charstrings are compiled against and
   makePrivateDict is called with *)
Definition M_font_widths (ws : list Z) : Z * Z :=
  let '(d, n) := M_select_widths ws in
  (trunc_grid d, match n with Some n => trunc_grid n | None => 0 end).

(* encodeCharString: the width operand (w - nominalWidth), absent when w == defaultWidth *)
Definition M_width_operand (dflt nom w : Z) : option Z :=
  if w =? dflt then None else Some (w - nom).

(* makePrivateDict: an entry int32(v) unless v == 0 (v is an integer here) *)
Definition M_priv_entry (v : Z) : option Z := if v =? 0 then None else Some (v / SC).

(* Font.Write: ONE pair for the whole font, written into every private dictionary *)
Definition M_font_write_widths (nfd : nat) (ws : list Z)
  : list (option Z * option Z) * list (option Z) :=
  let '(d, n) := M_font_widths ws in
  (repeat (M_priv_entry d, M_priv_entry n) nfd, map (M_width_operand d n) ws).

(* --- the reader's rule --- *)

(* a Private DICT width entry: absent = 0 (TN5176 table 23) *)
Definition S_priv_value (e : option Z) : Z := match e with Some k => k * SC | None => 0 end.

(* the width of a glyph: defaultWidthX without a width operand, nominalWidthX
   plus the operand otherwise (C05's glyph_of) *)
Definition S_width_rule (dflt nom : Z) (operand : option Z) : Z :=
  match operand with Some v => nom + v | None => dflt end.

(* every glyph under the entries of ITS private dictionary (FDSelect) *)
Fixpoint S_font_read_widths (privs : list (option Z * option Z)) (fdsel : list nat) (ops : list (option Z))
  : list Z :=
  match fdsel, ops with
  | fd :: ft, o :: ot =>
      let '(d, n) := nth fd privs (None, None) in
      S_width_rule (S_priv_value d) (S_priv_value n) o :: S_font_read_widths privs ft ot
  | _, _ => []
  end.

(* a writer that chooses a pair per private dictionary (what the TODO in
   Font.Write asks for): glyph g is compiled against the pair of fdsel g *)
Definition W_per_fd (choice : nat -> Z * Z) (nfd : nat) (fdsel : list nat) (ws : list Z)
  : list (option Z * option Z) * list (option Z) :=
  (map (fun i => (M_priv_entry (fst (choice i)), M_priv_entry (snd (choice i)))) (seq 0 nfd),
   map (fun p => M_width_operand (fst (choice (fst p))) (snd (choice (fst p))) (snd p)) (combine fdsel ws)).

(* glyphs without a width operand *)
Definition count_no_operand (dflt : Z) (ws : list Z) : Z := count_z dflt ws.

(* ================================================================== *)
(* (2b) Glyph.Extent                                                   *)

(* the point a command ends at (Extent reads Args[0], Args[1] of a moveto /
   lineto and Args[4], Args[5] of a curveto; masks are skipped) *)
Definition endpoint (c : cmd) : option (Z * Z) :=
  match c with
  | CMove x y | CLine x y => Some (x, y)
  | CCurve _ _ _ _ x y => Some (x, y)
  | CHint _ | CCntr _ => None
  end.

(* the loop of Extent: (first, left, right, top, bottom) *)
Definition ext_state : Type := (bool * Z * Z * Z * Z)%type.

Definition ext_step (st : ext_state) (c : cmd) : ext_state :=
  match endpoint c with
  | None => st
  | Some (x, y) =>
      let '(first, l, r, t, b) := st in
      (false,
       (if first || (x <? l) then x else l),
       (if first || (x >? r) then x else r),
       (if first || (y >? t) then y else t),
       (if first || (y <? b) then y else b))
  end.

Definition floor_grid (v : Z) : Z := v / SC.
Definition ceil_grid (v : Z) : Z := - ((- v) / SC).

(* funit.Rect16{LLx, LLy, URx, URy} in font units (not scaled) *)
Definition M_extent (cs : list cmd) : Z * Z * Z * Z :=
  let '(_, l, r, t, b) := fold_left ext_step cs (true, 0, 0, 0, 0) in
  (floor_grid l, floor_grid b, ceil_grid r, ceil_grid t).

(* specification: the smallest rectangle with integer corners containing the
   end points of all moveto / lineto / curveto commands; all zero without one *)
Definition endpoints (cs : list cmd) : list (Z * Z) :=
  flat_map (fun c => match endpoint c with Some p => [p] | None => [] end) cs.

Definition S_extent (cs : list cmd) : Z * Z * Z * Z :=
  match endpoints cs with
  | [] => (0, 0, 0, 0)
  | (x, y) :: ps =>
      (floor_grid (fold_left Z.min (map fst ps) x), floor_grid (fold_left Z.min (map snd ps) y),
       ceil_grid (fold_left Z.max (map fst ps) x), ceil_grid (fold_left Z.max (map snd ps) y))
  end.

(* ================================================================== *)
(* the observation printed for the correspondence                      *)

(* a glyph built through the methods, compiled (the implementation's bytes are
   given), checked by C04's verified checker and executed by S_t2 *)
Definition M_build_check (w dflt nom : Z) (calls : list bcall) (code : list N)
  : option (glyph * bool * outcome) :=
  match M_build w calls with
  | Some g => Some (g, check_charstring g dflt nom code,
                    S_t2 dflt nom (mkTab 0 [] []) (mkTab 0 [] []) code)
  | None => None
  end.
