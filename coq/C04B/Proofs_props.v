(* C04B/Proofs_props.v — the statements of Props.v, assembled from the lemmas
   of Tie.v and Proofs_*.v; Props.v restates them and closes each with
   [exact]. *)
From Coq Require Import List NArith ZArith Bool Arith Lia.
From Gen Require Import Consts C04B.
From C05 Require Import Model.
From C04 Require Import Model Proofs_final.
From C04B Require Import Model Tie Proofs_num Proofs_builder Proofs_width Proofs_extent.
Import ListNotations.
Local Open Scope Z_scope.

Lemma t2encode_literals_tie_lemma :
  (forall i, -32768 <= i <= 32767 -> R_enc_int i = enc_int i) /\
  (forall X, R_enc_number X = enc_number X) /\
  map (fun p => op_code_bytes (snd p)) c04b_ops_used = map op_bytes emitted_ops /\
  (c04b_maxStack = enc_max_stack /\ c04b_maxStack = cff_maxStack /\ c04b_maxStack = t2_max_stack) /\
  c04b_stack_conds =
    [ (2, 2, 0); (2, 2, 0); (2, 6, 0); (2, 1, 0);
      (3, 6, 0); (3, 6, 0); (3, 2, 0); (3, 4, 0); (3, 5, 0); (3, 4, 1); (3, 5, 1) ].
Proof.
  split; [exact enc_int_source|]. split; [exact enc_number_source|].
  split; [exact ops_used_bytes|]. split; [exact max_stack_source|exact stack_conds_source].
Qed.

Lemma t2encode_operand_order_tie_lemma :
  forall (a0 a1 a2 a3 a4 a5 b0 b1 b2 b3 b4 b5 : enum) (t : list ecmd),
    (forall e, In e (flex_edges (ECurve a0 a1 a2 a3 a4 a5 :: ECurve b0 b1 b2 b3 b4 b5 :: t)) ->
       (e_op e = OHflex /\
        Some (e_args e) = interp_row (row 5) false false [a0; a1; a2; a3; a4; a5] [b0; b1; b2; b3; b4; b5]) \/
       (e_op e = OHflex1 /\
        Some (e_args e) = interp_row (row 6) false false [a0; a1; a2; a3; a4; a5] [b0; b1; b2; b3; b4; b5])) /\
    (forall offs, interp_row (row 2) offs false [a0; a1; a2; a3; a4; a5] [b0; b1; b2; b3; b4; b5] = Some [sel offs a1 a0; a2; a3; sel offs a5 a4]) /\
    (forall offs, interp_row (row 3) offs false [a0; a1; a2; a3; a4; a5] [b0; b1; b2; b3; b4; b5] = Some [sel offs a0 a1; a2; a3; sel offs a5 a4]).
Proof.
  intros. split; [apply flex_edges_use_rows|]. split; intros offs; [apply (row_hh_body a0 a1 a2 a3 a4 a5 b0 b1 b2 b3 b4 b5)|apply (row_hv_body a0 a1 a2 a3 a4 a5 b0 b1 b2 b3 b4 b5)].
Qed.

Lemma regen_encode_number_exact_lemma :
  forall X : Z, in_range X = true ->
    exists code, R_enc_number X = Some (X, code) /\
                 forall rest, lex_num (code ++ rest) = NumOk X rest.
Proof. exact regen_number_exact. Qed.

Lemma regen_boundaries_partition_lemma :
  c04b_encodeInt_ranges = S_form_ranges /\
  (forall x, covering c04b_encodeInt_ranges x = if (-1131 <=? x) && (x <=? 1131) then 1%nat else 0%nat) /\
  (forall i rest, -32768 <= i <= 32767 ->
     lex_num (enc_int_by c04b_encodeInt_ranges i ++ rest) = NumOk (i * SC) rest) /\
  (forall i code, -32768 <= i <= 32767 -> Forall (fun b => (b < 256)%N) code ->
     lex_num code = NumOk (i * SC) [] -> (length (R_enc_int i) <= length code)%nat).
Proof.
  split; [exact enc_int_ranges_are_reader_ranges|]. split; [exact ranges_partition|].
  split; [intros; apply regen_int_exact; assumption|exact regen_int_shortest].
Qed.

Lemma boundary_107_108_refuted_lemma :
  c04b_encodeInt_ranges = ranges_ab 107 1131 /\
  (exists i, -32768 <= i <= 32767 /\ lex_num (enc_int_by (ranges_ab 108 1131) i) <> NumOk (i * SC) []) /\
  (exists i, -32768 <= i <= 32767 /\ lex_num (enc_int_by (ranges_ab 106 1131) i) <> NumOk (i * SC) []).
Proof.
  split; [exact ranges_ab_source|]. split.
  - exists 108. split; [lia|exact boundary_108_wrong].
  - exists 107. split; [lia|exact boundary_106_wrong].
Qed.

Lemma boundary_1131_1132_refuted_lemma :
  (exists i, -32768 <= i <= 32767 /\ lex_num (enc_int_by (ranges_ab 107 1132) i) <> NumOk (i * SC) []) /\
  (exists i, -32768 <= i <= 32767 /\ lex_num (enc_int_by (ranges_ab 107 1132) i) = NumOk (-108 * SC) [] /\ i <> -108) /\
  (exists i, lex_num (enc_int_by (ranges_ab 107 1130) i) = NumOk (i * SC) [] /\
             (length (R_enc_int i) < length (enc_int_by (ranges_ab 107 1130) i))%nat).
Proof.
  split; [exists (-1132); split; [lia|exact boundary_m1132_wrong]|]. split.
  - exists 1132. split; [lia|]. split; [exact boundary_1132_wrong|lia].
  - exists 1131. destruct boundary_1130_longer as (H1 & H2 & H3). split; [exact H1|]. rewrite H2, H3. lia.
Qed.

Lemma builder_commands_lemma :
  forall (w : Z) (calls : list bcall),
    M_build w calls = Some (S_build w calls) /\
    (forall c, M_build w (calls ++ [c]) = Some (mkGlyph (g_cmds (S_build w calls) ++ [S_cmd c]) [] [] w)) /\
    paths_of_cmds (g_cmds (S_build w calls)) = S_draw calls /\
    (builder_wf calls = true <-> S_draw calls <> None) /\
    glyph_wf (S_build w calls) = builder_wf calls.
Proof.
  intros w calls. split; [apply build_spec|]. split; [intros c; apply build_step|].
  split; [apply draw_paths|]. split; [apply builder_wf_draw|apply builder_wf_glyph].
Qed.

Lemma builder_then_compile_preserves_lemma :
  forall (w dflt nom : Z) (calls : list bcall) (g : glyph) (code : list N) (subrs gsubrs : subrtab),
    M_build w calls = Some g -> builder_wf calls = true -> emits g dflt nom code ->
    S_t2 dflt nom subrs gsubrs code = T2Ok (S_build w calls) /\
    paths_of_cmds (g_cmds (S_build w calls)) = S_draw calls /\ S_draw calls <> None.
Proof. exact build_compile_preserves. Qed.

Lemma builder_total_lemma :
  forall (w dflt nom : Z) (calls : list bcall),
    (exists g, M_build w calls = Some g) /\
    (forallb call_bounded calls = true -> in_range (w - nom) = true ->
     exists g code, M_build w calls = Some g /\ emits g dflt nom code).
Proof.
  intros. split; [eexists; apply build_spec|apply build_compile_total].
Qed.

Lemma builder_lineto_first_refuted_lemma :
  exists w calls g code,
    M_build w calls = Some g /\ builder_wf calls = false /\ S_draw calls = None /\
    check_charstring g w 0 code = true /\
    S_t2 w 0 (mkTab 0 [] []) (mkTab 0 [] []) code = T2Err ENoMove.
Proof.
  destruct lineto_first_rejected as (g & code & H1 & H2 & H3 & H4 & H5).
  exists (500 * SC), [BLine (10 * SC) (10 * SC); BLine (20 * SC) 0], g, code. repeat split; assumption.
Qed.

Lemma extent_is_endpoint_box_lemma :
  forall (cs : list cmd),
    M_extent cs = S_extent cs /\
    (forall x y, In (x, y) (endpoints cs) ->
       let '(llx, lly, urx, ury) := M_extent cs in
       llx * SC <= x <= urx * SC /\ lly * SC <= y <= ury * SC) /\
    (endpoints cs <> [] ->
       let '(llx, lly, urx, ury) := M_extent cs in
       (exists p, In p (endpoints cs) /\ fst p < (llx + 1) * SC) /\
       (exists p, In p (endpoints cs) /\ snd p < (lly + 1) * SC) /\
       (exists p, In p (endpoints cs) /\ (urx - 1) * SC < fst p) /\
       (exists p, In p (endpoints cs) /\ (ury - 1) * SC < snd p)) /\
    (endpoints cs = [] -> M_extent cs = (0, 0, 0, 0)) /\
    (forall w calls, endpoints (g_cmds (S_build w calls)) = map call_end calls).
Proof.
  intros cs. split; [apply extent_spec|]. split; [intros x y; apply extent_encloses|].
  split; [apply extent_tight|]. split; [apply extent_empty|exact endpoints_build].
Qed.

Lemma width_choice_transparent_lemma :
  (forall (g : glyph) (dflt nom : Z) (code : list N) (subrs gsubrs : subrtab),
     emits g dflt nom code -> glyph_wf g = true ->
     exists g', S_t2 dflt nom subrs gsubrs code = T2Ok g' /\ g_width g' = g_width g) /\
  (forall dflt nom w, S_width_rule dflt nom (M_width_operand dflt nom w) = w) /\
  (forall dflt nom st, g_width (glyph_of dflt nom st) = S_width_rule dflt nom (width st)) /\
  (forall ws, S_priv_value (M_priv_entry (fst (M_font_widths ws))) = fst (M_font_widths ws) /\
              S_priv_value (M_priv_entry (snd (M_font_widths ws))) = snd (M_font_widths ws)).
Proof.
  split.
  { intros g dflt nom code subrs gsubrs He Hw. exists g. split; [|reflexivity].
    apply any_path_correct_lemma; assumption. }
  split; [exact width_transparent|]. split; [exact width_rule_is_C05|].
  intros ws. destruct (font_widths_int ws) as [H1 H2]. split; apply priv_entry_roundtrip; assumption.
Qed.

Lemma per_fd_widths_lemma :
  (forall (nfd : nat) (ws : list Z) (fdsel : list nat),
     length fdsel = length ws -> Forall (fun fd => (fd < nfd)%nat) fdsel ->
     S_font_read_widths (fst (M_font_write_widths nfd ws)) fdsel (snd (M_font_write_widths nfd ws)) = ws /\
     forall fd, (fd < nfd)%nat ->
       nth fd (fst (M_font_write_widths nfd ws)) (None, None) =
       (M_priv_entry (fst (M_font_widths ws)), M_priv_entry (snd (M_font_widths ws)))) /\
  (forall (choice : nat -> Z * Z) (nfd : nat) (fdsel : list nat) (ws : list Z),
     (forall i, fst (choice i) mod SC = 0 /\ snd (choice i) mod SC = 0) ->
     length fdsel = length ws -> Forall (fun fd => (fd < nfd)%nat) fdsel ->
     S_font_read_widths (fst (W_per_fd choice nfd fdsel ws)) fdsel (snd (W_per_fd choice nfd fdsel ws)) = ws).
Proof.
  split.
  - intros nfd ws fdsel Hl Hf. split; [apply font_widths_roundtrip; assumption|].
    intros fd H. apply font_privs_uniform. exact H.
  - intros choice nfd fdsel ws Hc Hl Hf. apply per_fd_roundtrip; assumption.
Qed.

Lemma per_fd_widths_refuted_lemma :
  exists (privs : list (option Z * option Z)) (w : Z),
    S_font_read_widths privs [1%nat] [M_width_operand (S_priv_value (fst (nth 0 privs (None, None))))
                                                     (S_priv_value (snd (nth 0 privs (None, None)))) w] <> [w] /\
    S_font_read_widths privs [1%nat] [M_width_operand (S_priv_value (fst (nth 1 privs (None, None))))
                                                     (S_priv_value (snd (nth 1 privs (None, None)))) w] = [w].
Proof.
  exists [(Some 500, Some 600); (Some 1000, Some 0)], (700 * SC).
  split; [vm_compute; discriminate|vm_compute; reflexivity].
Qed.

Lemma width_choice_of_the_code_lemma :
  (forall ws w, (2 <= length ws)%nat -> Z.abs w <= sw_skip ->
     count_z w ws <= count_z (fst (M_select_widths ws)) ws) /\
  (forall ws d n, (2 <= length ws)%nat -> M_select_widths ws = (d, Some n) ->
     exists m r,
       filter (fun w => negb (w =? d)) ws = m :: r /\
       let mn := fold_left Z.min r m in
       let mx := fold_left Z.max r m in
       let mean := round_half_away (sum_z (m :: r)) (SC * Z.of_nat (length ws)) * SC in
       n = (if mean <? mn + sw_lo then mn + sw_lo else if mean >? mx - sw_hi then mx - sw_hi else mean) /\
       (forall w, In w ws -> w <> d -> mn <= w <= mx) /\
       (sw_lo + sw_hi <= mx - mn -> mn + sw_lo <= n <= mx - sw_hi)) /\
  (forall ws d, M_select_widths ws = (d, None) ->
     snd (M_font_widths ws) = 0 /\ forall w, In w ws -> w = d) /\
  (forall ws d', (2 <= length ws)%nat -> fst (M_select_widths ws) mod SC = 0 -> Z.abs d' <= sw_skip ->
     count_no_operand d' ws <= count_no_operand (fst (M_font_widths ws)) ws) /\
  (sw_skip = 32767 * SC /\ sw_lo = 107 * SC /\ sw_hi = 107 * SC).
Proof.
  split; [exact default_most_frequent|]. split; [exact nominal_choice|].
  split; [exact nominal_all_default|]. split; [exact default_optimal_when_integer|].
  repeat split.
Qed.

Lemma width_choice_optimal_refuted_lemma :
  exists ws d',
    count_no_operand (fst (M_font_widths ws)) ws < count_no_operand d' ws /\ Z.abs d' <= sw_skip.
Proof.
  exists [500 * SC + 32768; 500 * SC + 32768; 500 * SC + 32768; 300 * SC; 300 * SC], (300 * SC).
  split; vm_compute; [reflexivity|discriminate].
Qed.
