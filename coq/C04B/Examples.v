(* C04B/Examples.v — non-vacuity: concrete values meeting the hypotheses of
   every theorem of Props.v, and the models evaluated inside Coq on the cases
   the correspondence also runs (cross-check of the extraction). *)
From Coq Require Import List NArith ZArith Bool Arith Lia.
From Gen Require Import C04B.
From C05 Require Import Model.
From C04 Require Import Model Proofs_final Proofs_check.
From C04B Require Import Model Tie Proofs_num Proofs_builder Proofs_width Proofs_extent.
Import ListNotations.
Local Open Scope Z_scope.

Definition U (n : Z) : Z := n * 65536.

(* ---- (1) numbers ---- *)

(* the five forms at their boundaries, from the regenerated pieces *)
Example ex_numbers :
  map R_enc_number [U 107; U 108; U 1131; U 1132; U (-107); U (-108); U (-1131); U (-1132); U 100 + 32768; -1;
                    U 32767 + 65535; U (-32768)] =
  [ Some (U 107, [246]%N); Some (U 108, [247; 0]%N); Some (U 1131, [250; 255]%N); Some (U 1132, [28; 4; 108]%N);
    Some (U (-107), [32]%N); Some (U (-108), [251; 0]%N); Some (U (-1131), [254; 255]%N); Some (U (-1132), [28; 251; 148]%N);
    Some (U 100 + 32768, [255; 0; 100; 128; 0]%N); Some (-1, [255; 255; 255; 255; 255]%N);
    Some (U 32767 + 65535, [255; 127; 255; 255; 255]%N); Some (U (-32768), [28; 128; 0]%N) ].
Proof. vm_compute. reflexivity. Qed.

Example ex_number_hypotheses :
  in_range (U 100 + 32768) = true /\ in_range (U 32768) = false /\ R_enc_number (U 32768) = None.
Proof. vm_compute. repeat split. Qed.

(* regen_boundaries_partition: hypotheses of the shortest-form clause *)
Example ex_shortest_hyp :
  Forall (fun b => (b < 256)%N) [28; 0; 108]%N /\ lex_num [28; 0; 108]%N = NumOk (U 108) [] /\
  length (R_enc_int 108) = 2%nat.
Proof. split; [repeat constructor|]. vm_compute. split; reflexivity. Qed.

Example ex_covering :
  map (covering c04b_encodeInt_ranges) [0; 107; 108; -108; 1131; 1132; -1132; 30000] = [1; 1; 1; 1; 1; 0; 0; 0]%nat.
Proof. vm_compute. reflexivity. Qed.

(* ---- (2) builder ---- *)

(* MoveTo twice in a row, a zero-length LineTo, a repeated point, fractional
   coordinates, a curve, a sub-path made of a single MoveTo at the end *)
Definition ex_calls : list bcall :=
  [ BMove (U 10) (U 10); BMove (U 10) (U 10); BLine (U 20) (U 10); BLine (U 20) (U 10);
    BLine (U 20 + 32768) (U 30); BCurve (U 30) (U 30) (U 40) (U 40 + 1) (U 50) (U 30);
    BMove 0 0 ].

Example ex_build :
  M_build (U 600) ex_calls =
  Some (mkGlyph [ CMove (U 10) (U 10); CMove (U 10) (U 10); CLine (U 20) (U 10); CLine (U 20) (U 10);
                  CLine (U 20 + 32768) (U 30); CCurve (U 30) (U 30) (U 40) (U 40 + 1) (U 50) (U 30);
                  CMove 0 0 ] [] [] (U 600)).
Proof. vm_compute. reflexivity. Qed.

Example ex_draw :
  S_draw ex_calls =
  Some [ ((U 10, U 10), []);
         ((U 10, U 10), [SLine (U 20) (U 10); SLine (U 20) (U 10); SLine (U 20 + 32768) (U 30);
                         SCurve (U 30) (U 30) (U 40) (U 40 + 1) (U 50) (U 30)]);
         ((0, 0), []) ].
Proof. vm_compute. reflexivity. Qed.

(* a charstring for it (width operand 600 - 550 = 50, rmoveto, vmoveto 0,
   hlineto 10 0, rlineto, rrcurveto, rmoveto, endchar) *)
Definition ex_code : list N :=
  [189; 149; 149; 21; 139; 4; 149; 139; 6; 255; 0; 0; 128; 0; 159; 5;
   255; 0; 9; 128; 0; 139; 149; 255; 0; 10; 0; 1; 149; 255; 255; 245; 255; 255; 8;
   89; 109; 21; 14]%N.

Example ex_hypotheses :
  builder_wf ex_calls = true /\ forallb call_bounded ex_calls = true /\
  in_range (U 600 - U 550) = true /\
  check_charstring (S_build (U 600) ex_calls) (U 500) (U 550) ex_code = true.
Proof. vm_compute. repeat split. Qed.

Example ex_emits : emits (S_build (U 600) ex_calls) (U 500) (U 550) ex_code.
Proof. apply check_charstring_sound. vm_compute. reflexivity. Qed.

Example ex_decodes :
  S_t2 (U 500) (U 550) (mkTab 0 [] []) (mkTab 0 [] []) ex_code = T2Ok (S_build (U 600) ex_calls).
Proof. vm_compute. reflexivity. Qed.

(* the observation of the correspondence on this case *)
Example ex_build_check :
  M_build_check (U 600) (U 500) (U 550) ex_calls ex_code =
  Some (S_build (U 600) ex_calls, true, T2Ok (S_build (U 600) ex_calls)).
Proof. vm_compute. reflexivity. Qed.

(* Extent: fractional and negative end points, a curve whose control points
   lie outside the rectangle, a mask in between *)
Example ex_extent :
  M_extent (g_cmds (S_build (U 600) ex_calls)) = (0, 0, 50, 30) /\
  M_extent [CMove (- U 10 - 1) (U 5 + 1); CHint [255%N]; CCurve (U 900) (U 900) (- U 900) (- U 900) (U 3) (- U 7 + 65535)] =
    (-11, -7, 3, 6) /\
  M_extent [CHint [1%N]] = (0, 0, 0, 0) /\
  endpoints (g_cmds (S_build (U 600) ex_calls)) <> [].
Proof. repeat split; try (vm_compute; reflexivity). vm_compute. discriminate. Qed.

(* ---- (3) widths ---- *)

(* all equal (nominal +Inf -> 0); two tied most frequent widths (the first to
   reach the count wins); all distinct; a width equal to the nominal width;
   fractional widths; one glyph; none; a width beyond 32767 is never the default *)
Example ex_select :
  map M_select_widths
    [ [U 500; U 500; U 500];
      [U 500; U 600; U 600; U 500];
      [U 100; U 200; U 300];
      [U 500; U 500; U 307; U 200];
      [U 500 + 32768; U 500 + 32768; U 300 + 16384];
      [U 700 + 1];
      [];
      [U 40000; U 40000; U 1; U 2] ] =
  [ (U 500, None);
    (U 600, Some (U 607));
    (U 100, Some (U 307));
    (U 500, Some (U 307));
    (U 500 + 32768, Some (U 407 + 16384));
    (U 700 + 1, Some (U 700 + 1));
    (0, Some 0);
    (U 1, Some (U 20001)) ].
Proof. vm_compute. reflexivity. Qed.

Example ex_font_widths :
  map M_font_widths [ [U 500; U 500; U 500]; [U 500 + 32768; U 500 + 32768; U 300 + 16384]; [U 700 + 1];
                      [- U 500 - 32768; - U 500 - 32768; - U 900] ] =
  [ (U 500, 0); (U 500, U 407); (U 700, U 700); (- U 500, - U 1007) ].
Proof. vm_compute. reflexivity. Qed.

(* a CID-keyed font with three private dictionaries, the middle one without glyphs *)
Definition ex_ws : list Z := [U 500; U 500 + 32768; U 250; U 500; U 1000 + 1].
Definition ex_fdsel : list nat := [0; 2; 2; 0; 0]%nat.

Example ex_font_write :
  M_font_write_widths 3 ex_ws =
  ( [ (Some 500, Some 357); (Some 500, Some 357); (Some 500, Some 357) ],
    [ None; Some (U 500 + 32768 - U 357); Some (U 250 - U 357); None; Some (U 1000 + 1 - U 357) ] ).
Proof. vm_compute. reflexivity. Qed.

Example ex_font_hypotheses :
  length ex_fdsel = length ex_ws /\ Forall (fun fd => (fd < 3)%nat) ex_fdsel /\
  S_font_read_widths (fst (M_font_write_widths 3 ex_ws)) ex_fdsel (snd (M_font_write_widths 3 ex_ws)) = ex_ws.
Proof. split; [reflexivity|]. split; [repeat constructor|vm_compute; reflexivity]. Qed.

(* a per-dictionary choice *)
Example ex_per_fd :
  let choice := fun i : nat => if (i =? 0)%nat then (U 500, U 600) else (U 250, U 300) in
  (forall i, fst (choice i) mod SC = 0 /\ snd (choice i) mod SC = 0) /\
  W_per_fd choice 3 ex_fdsel ex_ws =
  ( [ (Some 500, Some 600); (Some 250, Some 300); (Some 250, Some 300) ],
    [ None; Some (U 200 + 32768); None; None; Some (U 400 + 1) ] ).
Proof.
  cbv zeta. split; [intros i; destruct (i =? 0)%nat; split; reflexivity|vm_compute; reflexivity].
Qed.

(* width_choice_of_the_code: hypotheses *)
Example ex_choice_hypotheses :
  (2 <= length [U 500; U 600; U 600; U 500])%nat /\ Z.abs (U 500) <= sw_skip /\
  fst (M_select_widths [U 500; U 600; U 600; U 500]) mod SC = 0 /\
  count_z (U 500) [U 500; U 600; U 600; U 500] = 2 /\ count_z (U 600) [U 500; U 600; U 600; U 500] = 2.
Proof. repeat split; try (vm_compute; reflexivity); try (vm_compute; discriminate). cbn. lia. Qed.
