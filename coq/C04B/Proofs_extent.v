(* C04B/Proofs_extent.v — Glyph.Extent: the loop computes the smallest
   integer rectangle around the end points of the drawing commands. *)
From Coq Require Import List NArith ZArith Bool Arith Lia.
From Coq Require Import ZifyBool.
From C05 Require Import Model.
From C04 Require Import Model.
From C04B Require Import Model.
Import ListNotations.
Local Open Scope Z_scope.

Ltac Zify.zify_post_hook ::= Z.div_mod_to_equations.

(* the loop over the end points only *)
Definition pt_step (st : ext_state) (p : Z * Z) : ext_state :=
  let '(first, l, r, t, b) := st in
  let '(x, y) := p in
  (false,
   (if first || (x <? l) then x else l),
   (if first || (x >? r) then x else r),
   (if first || (y >? t) then y else t),
   (if first || (y <? b) then y else b)).

Lemma fold_endpoints : forall cs st,
  fold_left ext_step cs st = fold_left pt_step (endpoints cs) st.
Proof.
  induction cs as [|c t IH]; intros st; [reflexivity|].
  unfold endpoints. cbn [fold_left flat_map]. fold (endpoints t).
  unfold ext_step at 2. destruct (endpoint c) as [[x y]|] eqn:E.
  - cbn [app fold_left]. rewrite IH. destruct st as [[[[f l] r] tp] b]. reflexivity.
  - cbn [app]. apply IH.
Qed.

Lemma fold_pts_started : forall ps l r t b,
  fold_left pt_step ps (false, l, r, t, b) =
  (false, fold_left Z.min (map fst ps) l, fold_left Z.max (map fst ps) r,
          fold_left Z.max (map snd ps) t, fold_left Z.min (map snd ps) b).
Proof.
  induction ps as [|[x y] ps IH]; intros l r t b; [reflexivity|].
  cbn [fold_left pt_step map fst snd orb]. rewrite IH.
  repeat f_equal.
  - destruct (Z.ltb_spec x l); f_equal; lia.
  - destruct (Z.gtb_spec x r); f_equal; lia.
  - destruct (Z.gtb_spec y t); f_equal; lia.
  - destruct (Z.ltb_spec y b); f_equal; lia.
Qed.

Lemma extent_spec (cs : list cmd) : M_extent cs = S_extent cs.
Proof.
  unfold M_extent, S_extent. rewrite fold_endpoints.
  destruct (endpoints cs) as [|[x y] ps]; [reflexivity|].
  cbn [fold_left pt_step orb]. rewrite fold_pts_started. reflexivity.
Qed.

Lemma fold_min_le' : forall r m x, In x (m :: r) -> fold_left Z.min r m <= x.
Proof.
  induction r as [|a r IH]; intros m x H; cbn [fold_left].
  - destruct H as [<-|[]]. lia.
  - destruct H as [<-|[<-|H]].
    + pose proof (IH (Z.min m a) (Z.min m a) (or_introl eq_refl)). lia.
    + pose proof (IH (Z.min m a) (Z.min m a) (or_introl eq_refl)). lia.
    + apply IH. right. exact H.
Qed.

Lemma fold_max_ge' : forall r m x, In x (m :: r) -> x <= fold_left Z.max r m.
Proof.
  induction r as [|a r IH]; intros m x H; cbn [fold_left].
  - destruct H as [<-|[]]. lia.
  - destruct H as [<-|[<-|H]].
    + pose proof (IH (Z.max m a) (Z.max m a) (or_introl eq_refl)). lia.
    + pose proof (IH (Z.max m a) (Z.max m a) (or_introl eq_refl)). lia.
    + apply IH. right. exact H.
Qed.

Lemma fold_min_in : forall r m, In (fold_left Z.min r m) (m :: r).
Proof.
  induction r as [|a r IH]; intros m; cbn [fold_left]; [left; reflexivity|].
  destruct (IH (Z.min m a)) as [H|H].
  - rewrite <- H. destruct (Z.min_spec m a) as [[_ E]|[_ E]]; rewrite E; [left|right; left]; reflexivity.
  - right. right. exact H.
Qed.

Lemma fold_max_in : forall r m, In (fold_left Z.max r m) (m :: r).
Proof.
  induction r as [|a r IH]; intros m; cbn [fold_left]; [left; reflexivity|].
  destruct (IH (Z.max m a)) as [H|H].
  - rewrite <- H. destruct (Z.max_spec m a) as [[_ E]|[_ E]]; rewrite E; [right; left|left]; reflexivity.
  - right. right. exact H.
Qed.

Lemma floor_le (v : Z) : floor_grid v * SC <= v < (floor_grid v + 1) * SC.
Proof. unfold floor_grid, SC. lia. Qed.

Lemma ceil_ge (v : Z) : (ceil_grid v - 1) * SC < v <= ceil_grid v * SC.
Proof. unfold ceil_grid, SC. lia. Qed.

(* every end point lies inside the rectangle *)
Lemma extent_encloses (cs : list cmd) (x y : Z) :
  In (x, y) (endpoints cs) ->
  let '(llx, lly, urx, ury) := M_extent cs in
  llx * SC <= x <= urx * SC /\ lly * SC <= y <= ury * SC.
Proof.
  intros Hin. rewrite extent_spec. unfold S_extent.
  destruct (endpoints cs) as [|[x0 y0] ps]; [contradiction|].
  assert (Hx : In x (x0 :: map fst ps)).
  { destruct Hin as [E|E]; [inversion E; left; reflexivity|right; apply (in_map fst _ _ E)]. }
  assert (Hy : In y (y0 :: map snd ps)).
  { destruct Hin as [E|E]; [inversion E; left; reflexivity|right; apply (in_map snd _ _ E)]. }
  pose proof (fold_min_le' _ _ _ Hx). pose proof (fold_max_ge' _ _ _ Hx).
  pose proof (fold_min_le' _ _ _ Hy). pose proof (fold_max_ge' _ _ _ Hy).
  pose proof (floor_le (fold_left Z.min (map fst ps) x0)). pose proof (ceil_ge (fold_left Z.max (map fst ps) x0)).
  pose proof (floor_le (fold_left Z.min (map snd ps) y0)). pose proof (ceil_ge (fold_left Z.max (map snd ps) y0)).
  lia.
Qed.

(* and it is the smallest such rectangle with integer corners: on every side
   an end point lies less than one unit inside *)
Lemma extent_tight (cs : list cmd) :
  endpoints cs <> [] ->
  let '(llx, lly, urx, ury) := M_extent cs in
  (exists p, In p (endpoints cs) /\ fst p < (llx + 1) * SC) /\
  (exists p, In p (endpoints cs) /\ snd p < (lly + 1) * SC) /\
  (exists p, In p (endpoints cs) /\ (urx - 1) * SC < fst p) /\
  (exists p, In p (endpoints cs) /\ (ury - 1) * SC < snd p).
Proof.
  intros Hne. rewrite extent_spec. unfold S_extent.
  destruct (endpoints cs) as [|[x0 y0] ps]; [congruence|].
  assert (Hf : forall v, In v (x0 :: map fst ps) -> exists p, In p ((x0, y0) :: ps) /\ fst p = v).
  { intros v [<-|H]; [exists (x0, y0); split; [left; reflexivity|reflexivity]|].
    apply in_map_iff in H. destruct H as (p & E & Hp). exists p. split; [right; exact Hp|exact E]. }
  assert (Hs : forall v, In v (y0 :: map snd ps) -> exists p, In p ((x0, y0) :: ps) /\ snd p = v).
  { intros v [<-|H]; [exists (x0, y0); split; [left; reflexivity|reflexivity]|].
    apply in_map_iff in H. destruct H as (p & E & Hp). exists p. split; [right; exact Hp|exact E]. }
  repeat split.
  - destruct (Hf _ (fold_min_in (map fst ps) x0)) as (p & Hp & E). exists p. split; [exact Hp|].
    rewrite E. apply floor_le.
  - destruct (Hs _ (fold_min_in (map snd ps) y0)) as (p & Hp & E). exists p. split; [exact Hp|].
    rewrite E. apply floor_le.
  - destruct (Hf _ (fold_max_in (map fst ps) x0)) as (p & Hp & E). exists p. split; [exact Hp|].
    rewrite E. apply ceil_ge.
  - destruct (Hs _ (fold_max_in (map snd ps) y0)) as (p & Hp & E). exists p. split; [exact Hp|].
    rewrite E. apply ceil_ge.
Qed.

Lemma extent_empty (cs : list cmd) : endpoints cs = [] -> M_extent cs = (0, 0, 0, 0).
Proof. intros H. rewrite extent_spec. unfold S_extent. rewrite H. reflexivity. Qed.

(* the end points of a glyph made by the builder are the end points of the calls *)
Definition call_end (c : bcall) : Z * Z :=
  match c with BMove x y | BLine x y => (x, y) | BCurve _ _ _ _ x y => (x, y) end.

Lemma endpoints_build (w : Z) (calls : list bcall) :
  endpoints (g_cmds (S_build w calls)) = map call_end calls.
Proof.
  unfold S_build. cbn [g_cmds]. induction calls as [|c t IH]; [reflexivity|].
  unfold endpoints in *. cbn [map flat_map]. rewrite IH. destruct c; reflexivity.
Qed.
