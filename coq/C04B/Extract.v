From Coq Require Import Extraction ExtrOcamlBasic.
From Common Require Import Conv.
From C05 Require Import Model.
From C04 Require Import Model.
From C04B Require Import Model.
Extraction "c04b_model.ml" conv_anchor R_enc_number M_build M_build_check S_draw
  M_extent M_select_widths M_font_widths M_font_write_widths S_font_read_widths mkGlyph mkTab.
