(* C04B/Proofs_width.v — font-level widths: the reader's rule recovers every
   width for every choice of default / nominal width, per private dictionary;
   what the choice of selectWidths is. *)
From Coq Require Import List NArith ZArith Bool Arith Lia.
From Gen Require Import C04B.
From C05 Require Import Model.
From C04 Require Import Model.
From C04B Require Import Model Tie.
Import ListNotations.
Local Open Scope Z_scope.

(* S_width_rule is the rule of C05's interpreter *)
Lemma width_rule_is_C05 (dflt nom : Z) (st : state) :
  g_width (glyph_of dflt nom st) = S_width_rule dflt nom (width st).
Proof. unfold glyph_of, S_width_rule. cbn [g_width]. destruct (width st); [lia|reflexivity]. Qed.

(* for EVERY pair: operand absent iff the width is the default; the rule gives the width back *)
Lemma width_transparent (dflt nom w : Z) : S_width_rule dflt nom (M_width_operand dflt nom w) = w.
Proof.
  unfold M_width_operand, S_width_rule. destruct (Z.eqb_spec w dflt); [congruence|lia].
Qed.

(* ---- Private DICT entries ---- *)

Lemma SC_pos : 0 < SC. Proof. reflexivity. Qed.

Lemma trunc_grid_int (v : Z) : trunc_grid v mod SC = 0.
Proof. unfold trunc_grid. apply Z.mod_mul. unfold SC. lia. Qed.

Lemma priv_entry_roundtrip (v : Z) : v mod SC = 0 -> S_priv_value (M_priv_entry v) = v.
Proof.
  intros H. unfold M_priv_entry, S_priv_value. destruct (Z.eqb_spec v 0); [congruence|].
  pose proof (Z.div_mod v SC ltac:(unfold SC; lia)). lia.
Qed.

Lemma font_widths_int (ws : list Z) :
  fst (M_font_widths ws) mod SC = 0 /\ snd (M_font_widths ws) mod SC = 0.
Proof.
  unfold M_font_widths. destruct (M_select_widths ws) as [d [n|]]; cbn [fst snd]; split;
    try apply trunc_grid_int; reflexivity.
Qed.

(* ---- whole fonts ---- *)

Lemma nth_repeat_lt {A} (x d : A) : forall n k, (k < n)%nat -> nth k (repeat x n) d = x.
Proof.
  induction n as [|n IH]; intros k H; [lia|]. destruct k; [reflexivity|]. cbn. apply IH. lia.
Qed.

Lemma read_uniform (d n : Z) (nfd : nat) :
  d mod SC = 0 -> n mod SC = 0 ->
  forall fdsel ws, length fdsel = length ws -> Forall (fun fd => (fd < nfd)%nat) fdsel ->
    S_font_read_widths (repeat (M_priv_entry d, M_priv_entry n) nfd) fdsel (map (M_width_operand d n) ws) = ws.
Proof.
  intros Hd Hn. induction fdsel as [|fd ft IH]; intros [|w wt] Hl Hf; try discriminate; [reflexivity|].
  inversion Hf; subst. cbn [map S_font_read_widths].
  rewrite nth_repeat_lt by assumption.
  rewrite !priv_entry_roundtrip by assumption. rewrite width_transparent.
  f_equal. apply IH; [cbn in Hl; lia|assumption].
Qed.

(* Font.Write then the reader: every glyph's width comes back, whatever its
   private dictionary *)
Lemma font_widths_roundtrip (nfd : nat) (ws : list Z) (fdsel : list nat) :
  length fdsel = length ws -> Forall (fun fd => (fd < nfd)%nat) fdsel ->
  S_font_read_widths (fst (M_font_write_widths nfd ws)) fdsel (snd (M_font_write_widths nfd ws)) = ws.
Proof.
  intros Hl Hf. unfold M_font_write_widths.
  destruct (font_widths_int ws) as [H1 H2].
  destruct (M_font_widths ws) as [d n]. cbn [fst snd] in *.
  apply read_uniform; assumption.
Qed.

(* every private dictionary a glyph can select holds the pair its charstring was compiled against *)
Lemma font_privs_uniform (nfd : nat) (ws : list Z) (fd : nat) :
  (fd < nfd)%nat ->
  nth fd (fst (M_font_write_widths nfd ws)) (None, None) =
  (M_priv_entry (fst (M_font_widths ws)), M_priv_entry (snd (M_font_widths ws))).
Proof.
  intros H. unfold M_font_write_widths. destruct (M_font_widths ws) as [d n]. cbn [fst snd].
  apply nth_repeat_lt. exact H.
Qed.

(* a writer choosing a pair PER private dictionary, each glyph against the
   pair of its own dictionary: still exact, for every such choice *)
Lemma per_fd_roundtrip (choice : nat -> Z * Z) (nfd : nat) :
  (forall i, fst (choice i) mod SC = 0 /\ snd (choice i) mod SC = 0) ->
  forall fdsel ws, length fdsel = length ws -> Forall (fun fd => (fd < nfd)%nat) fdsel ->
    S_font_read_widths (fst (W_per_fd choice nfd fdsel ws)) fdsel (snd (W_per_fd choice nfd fdsel ws)) = ws.
Proof.
  intros Hc. unfold W_per_fd. cbn [fst snd].
  set (f := fun i : nat => (M_priv_entry (fst (choice i)), M_priv_entry (snd (choice i)))).
  set (privs := map f (seq 0 nfd)).
  assert (Hn : forall fd, (fd < nfd)%nat -> nth fd privs (None, None) = f fd).
  { intros fd H. unfold privs.
    rewrite (nth_indep _ (None, None) (f 0%nat)) by (rewrite map_length, seq_length; exact H).
    rewrite map_nth, seq_nth by exact H. reflexivity. }
  induction fdsel as [|fd ft IH]; intros [|w wt] Hl Hf; try discriminate; [reflexivity|].
  inversion Hf; subst. cbn [combine map S_font_read_widths fst snd].
  rewrite Hn by assumption. unfold f at 1. destruct (Hc fd) as [Hc1 Hc2].
  rewrite !priv_entry_roundtrip by assumption. rewrite width_transparent.
  f_equal. apply IH; [cbn in Hl; lia|assumption].
Qed.

(* it has to be the pair of the glyph's OWN dictionary: two dictionaries with
   different pairs, the glyph of dictionary 1 compiled against dictionary 0 *)
Lemma foreign_fd_wrong :
  let privs := [(Some 500, Some 600); (Some 1000, Some 0)] in
  let w := 700 * SC in
  S_font_read_widths privs [1%nat] [M_width_operand (500 * SC) (600 * SC) w] <> [w] /\
  S_font_read_widths privs [1%nat] [M_width_operand (1000 * SC) 0 w] = [w].
Proof. cbv zeta. split; [vm_compute; discriminate|vm_compute; reflexivity]. Qed.

(* ---- what the choice is ---- *)

Definition inr (w : Z) : bool := negb (Z.abs w >? sw_skip).

Lemma sw_default_spec : forall ws seen best dflt,
  (forall w, count_z w seen <= best) ->
  (seen <> [] -> count_z dflt seen = best) ->
  (seen = [] -> best = 0) ->
  forall w, count_z w seen + count_z w (filter inr ws)
            <= count_z (sw_default seen ws best dflt) seen
               + count_z (sw_default seen ws best dflt) (filter inr ws).
Proof.
  induction ws as [|w0 t IH]; intros seen best dflt H1 H2 H3 w; cbn [sw_default filter count_z].
  - rewrite !Z.add_0_r. destruct seen as [|s0 s]; [cbn; lia|].
    rewrite (H2 ltac:(discriminate)). apply H1.
  - assert (Ei : inr w0 = negb (Z.abs w0 >? sw_skip)) by reflexivity.
    destruct (Z.abs w0 >? sw_skip) eqn:Esk; cbn [negb] in Ei; rewrite Ei.
    + apply IH; assumption.
    + cbn [count_z].
      destruct (count_z w0 seen + 1 >? best) eqn:Eb.
      * assert (Hb : best < count_z w0 seen + 1) by lia.
        specialize (IH (w0 :: seen) (count_z w0 seen + 1) w0).
        cbn [count_z] in IH. rewrite Z.eqb_refl in IH.
        assert (A1 : forall w1, (if w0 =? w1 then 1 else 0) + count_z w1 seen <= count_z w0 seen + 1).
        { intros w1. destruct (Z.eqb_spec w0 w1); [subst; lia|]. specialize (H1 w1). lia. }
        specialize (IH A1 ltac:(intros _; lia) ltac:(discriminate) w).
        set (d := sw_default (w0 :: seen) t (count_z w0 seen + 1) w0) in *. lia.
      * assert (Hb : count_z w0 seen + 1 <= best) by lia.
        specialize (IH (w0 :: seen) best dflt).
        cbn [count_z] in IH.
        assert (A1 : forall w1, (if w0 =? w1 then 1 else 0) + count_z w1 seen <= best).
        { intros w1. destruct (Z.eqb_spec w0 w1); [subst; lia|]. specialize (H1 w1). lia. }
        assert (A2 : w0 :: seen <> [] -> (if w0 =? dflt then 1 else 0) + count_z dflt seen = best).
        { intros _. destruct seen as [|s0 s]; [specialize (H3 eq_refl); cbn in Hb; lia|].
          specialize (H2 ltac:(discriminate)).
          destruct (Z.eqb_spec w0 dflt); [subst; lia|lia]. }
        specialize (IH A1 A2 ltac:(discriminate) w).
        set (d := sw_default (w0 :: seen) t best dflt) in *. lia.
Qed.

Lemma count_filter_inr (w : Z) : forall ws, inr w = true -> count_z w (filter inr ws) = count_z w ws.
Proof.
  intros ws Hw. induction ws as [|x t IH]; [reflexivity|]. cbn [filter count_z].
  destruct (inr x) eqn:Ex; cbn [count_z]; rewrite IH; [reflexivity|].
  destruct (Z.eqb_spec x w); [subst; congruence|reflexivity].
Qed.

Lemma count_filter_le (w : Z) : forall ws, count_z w (filter inr ws) <= count_z w ws.
Proof.
  induction ws as [|x t IH]; [cbn; lia|]. cbn [filter count_z].
  destruct (inr x); cbn [count_z]; destruct (x =? w); lia.
Qed.

(* with two or more glyphs the default width is a most frequent one among
   the widths of magnitude <= 32767 *)
Lemma default_most_frequent (ws : list Z) (w : Z) :
  (2 <= length ws)%nat -> Z.abs w <= sw_skip ->
  count_z w ws <= count_z (fst (M_select_widths ws)) ws.
Proof.
  intros Hl Hw.
  assert (Hd : fst (M_select_widths ws) = sw_default [] ws 0 0).
  { unfold M_select_widths. destruct ws as [|a [|b r]]; [cbn in Hl; lia|cbn in Hl; lia|].
    destruct (filter _ _); reflexivity. }
  rewrite Hd.
  pose proof (sw_default_spec ws [] 0 0 ltac:(intros; cbn; lia) ltac:(congruence) ltac:(reflexivity) w) as H.
  cbn [count_z] in H.
  rewrite count_filter_inr in H by (unfold inr; destruct (Z.gtb_spec (Z.abs w) sw_skip); [lia|reflexivity]).
  pose proof (count_filter_le (sw_default [] ws 0 0) ws). lia.
Qed.

(* min / max of the second loop *)
Lemma fold_min_le : forall r m x, In x (m :: r) -> fold_left Z.min r m <= x.
Proof.
  induction r as [|a r IH]; intros m x H; cbn [fold_left].
  - destruct H as [<-|[]]. lia.
  - destruct H as [<-|[<-|H]].
    + pose proof (IH (Z.min m a) (Z.min m a) (or_introl eq_refl)). lia.
    + pose proof (IH (Z.min m a) (Z.min m a) (or_introl eq_refl)). lia.
    + apply IH. right. exact H.
Qed.

Lemma fold_max_ge : forall r m x, In x (m :: r) -> x <= fold_left Z.max r m.
Proof.
  induction r as [|a r IH]; intros m x H; cbn [fold_left].
  - destruct H as [<-|[]]. lia.
  - destruct H as [<-|[<-|H]].
    + pose proof (IH (Z.max m a) (Z.max m a) (or_introl eq_refl)). lia.
    + pose proof (IH (Z.max m a) (Z.max m a) (or_introl eq_refl)). lia.
    + apply IH. right. exact H.
Qed.

(* the nominal width: the rounded mean of the non-default widths over ALL
   glyphs, moved into [min+107, max-107]; when the non-default widths span at
   least 214 units every width operand lies within the span minus 107 *)
Lemma nominal_choice (ws : list Z) (d n : Z) :
  (2 <= length ws)%nat -> M_select_widths ws = (d, Some n) ->
  exists m r,
    filter (fun w => negb (w =? d)) ws = m :: r /\
    let mn := fold_left Z.min r m in
    let mx := fold_left Z.max r m in
    let mean := round_half_away (sum_z (m :: r)) (SC * Z.of_nat (length ws)) * SC in
    n = (if mean <? mn + sw_lo then mn + sw_lo else if mean >? mx - sw_hi then mx - sw_hi else mean) /\
    (forall w, In w ws -> w <> d -> mn <= w <= mx) /\
    (sw_lo + sw_hi <= mx - mn -> mn + sw_lo <= n <= mx - sw_hi).
Proof.
  intros Hl H. unfold M_select_widths in H.
  destruct ws as [|a [|b t]]; [cbn in Hl; lia|cbn in Hl; lia|].
  set (ws := a :: b :: t) in *.
  set (d0 := sw_default [] ws 0 0) in *.
  destruct (filter (fun w => negb (w =? d0)) ws) as [|m r] eqn:Ef; [discriminate|].
  injection H as Hd Hn. subst d. exists m, r. split; [exact Ef|]. cbv zeta.
  split; [exact (eq_sym Hn)|]. split.
  - intros w Hin Hne.
    assert (Hm : In w (m :: r)).
    { rewrite <- Ef. apply filter_In. split; [exact Hin|]. destruct (Z.eqb_spec w d0); [contradiction|reflexivity]. }
    split; [apply fold_min_le; exact Hm|apply fold_max_ge; exact Hm].
  - intros Hspan. rewrite <- Hn.
    match goal with |- context [if ?c then _ else _] => destruct c eqn:E1 end; [apply Z.ltb_lt in E1; lia|].
    apply Z.ltb_ge in E1.
    match goal with |- context [if ?c then _ else _] => destruct c eqn:E2 end; [lia|].
    rewrite Z.gtb_ltb in E2. apply Z.ltb_ge in E2. lia.
Qed.

(* no glyph differs from the default width: the Go code computes +Inf, which
   encodeCharStrings replaces by 0 *)
Lemma nominal_all_default (ws : list Z) (d : Z) :
  M_select_widths ws = (d, None) -> snd (M_font_widths ws) = 0 /\ forall w, In w ws -> w = d.
Proof.
  intros H. split; [unfold M_font_widths; rewrite H; reflexivity|].
  unfold M_select_widths in H. destruct ws as [|a [|b t]]; try discriminate.
  set (ws := a :: b :: t) in *.
  destruct (filter (fun w => negb (w =? sw_default [] ws 0 0)) ws) eqn:Ef; [|discriminate].
  inversion H; subst d. intros w Hin.
  destruct (Z.eqb_spec w (sw_default [] ws 0 0)) as [E|E]; [exact E|].
  assert (Hm : In w (filter (fun w => negb (w =? sw_default [] ws 0 0)) ws)).
  { apply filter_In. split; [exact Hin|]. destruct (Z.eqb_spec w (sw_default [] ws 0 0)); [contradiction|reflexivity]. }
  rewrite Ef in Hm. contradiction.
Qed.

(* when the most frequent width is an integer no other default width (of
   magnitude <= 32767) leaves more glyphs without a width operand *)
Lemma default_optimal_when_integer (ws : list Z) (d' : Z) :
  (2 <= length ws)%nat -> fst (M_select_widths ws) mod SC = 0 -> Z.abs d' <= sw_skip ->
  count_no_operand d' ws <= count_no_operand (fst (M_font_widths ws)) ws.
Proof.
  intros Hl Hi Hd. unfold count_no_operand, M_font_widths.
  destruct (M_select_widths ws) as [d n] eqn:E. cbn [fst] in *.
  assert (Ht : trunc_grid d = d).
  { unfold trunc_grid. unfold SC in *.
    pose proof (Z.quot_rem' d 65536). assert (Z.rem d 65536 = 0).
    { apply Z.rem_divide; [lia|]. apply Z.mod_divide; [lia|exact Hi]. }
    lia. }
  rewrite Ht. pose proof (default_most_frequent ws d' Hl Hd) as H. rewrite E in H. exact H.
Qed.

(* a fractional most frequent width is truncated: three glyphs of width 500.5
   and two of width 300 - the code's default 500 matches no glyph, 300 would
   match two *)
Lemma default_fractional_not_optimal :
  let ws := [500 * SC + 32768; 500 * SC + 32768; 500 * SC + 32768; 300 * SC; 300 * SC] in
  fst (M_font_widths ws) = 500 * SC /\
  count_no_operand (fst (M_font_widths ws)) ws = 0 /\ count_no_operand (300 * SC) ws = 2.
Proof. cbv zeta. repeat split; vm_compute; reflexivity. Qed.
