(* C17/Examples.v — non-vacuity: concrete histories that cross the window
   boundary, with short reads, evaluated on both sides. *)
From Coq Require Import List NArith ZArith Bool Arith.
From Common Require Import Bytes.
From Gen Require Import Consts.
From C17 Require Import Model.
Import ListNotations.

Definition ex_data : list N := map N.of_nat (seq 0 250) ++ map N.of_nat (seq 0 250) ++
  map N.of_nat (seq 0 250) ++ map N.of_nat (seq 0 250) ++ map N.of_nat (seq 0 250).
Definition ex_ops : list op :=
  [OU16; OSeek 1022; OU32; OPos; ORead 300; OSeek 1240; OU32; OU16; OSeek 3; OSlice; OBytes 1024;
   OSeek 5000; OU8; ODiscard 7; OPos; OSize; OSeek 1249; OU8; OU8].
Definition ex_oracle : oracle := [(0, false); (2, true); (700, false); (0, true)].

Example ex_runs_equal :
  run_parser parser_bufferSize ex_data ex_oracle ex_ops = run_view parser_bufferSize ex_data ex_ops.
Proof. vm_compute. reflexivity. Qed.

Example ex_has_success_and_failure :
  existsb (fun r => match fst r with REof => true | _ => false end)
          (run_view parser_bufferSize ex_data ex_ops) = true /\
  existsb (fun r => match fst r with RVal _ => true | _ => false end)
          (run_view parser_bufferSize ex_data ex_ops) = true.
Proof. vm_compute. split; reflexivity. Qed.
