(* C17/Props.v — the property theorems, stated against the constant the
   translator extracted from parser/parser.go on this run.  Nothing else. *)
From Coq Require Import List NArith ZArith Bool Arith Lia.
From Common Require Import Bytes.
From Gen Require Import Consts.
From C17 Require Import Model Proofs.
Import ListNotations.

Definition BS := parser_bufferSize.

(* The code needs bufferSize >= 4 (ReadUint32 calls ReadBytes(4)); re-checked
   against the regenerated constant. *)
Lemma bs_ok : 4 <= BS.
Proof. apply Nat.leb_le. vm_compute. reflexivity. Qed.

(* C17, main statement: for every input, every short-read behaviour of the
   underlying reader and every history of operations, the buffered parser
   returns exactly what the plain view returns, and reports the same position
   after every step.  No bound on |data|, |ops| or the read sizes. *)
Theorem parser_refines_view :
  forall (data : list N) (o : oracle) (ops : list op),
    run_parser BS data o ops = run_view BS data ops.
Proof. intros. exact (parser_refines_view_gen BS data bs_ok o ops). Qed.
Print Assumptions parser_refines_view.

(* The representation invariant holds in every reachable state. *)
Theorem inv_preserved :
  forall (data : list N) (o : oracle) (ops : list op),
    Inv BS data (fold_left (fun st op => snd (m_step BS data st op)) ops (p_init o)).
Proof. intros. apply inv_run; [exact bs_ok|]. apply inv_init; exact bs_ok. Qed.
Print Assumptions inv_preserved.

(* ReadBytes' loop always terminates within its fuel and the model never
   reports running out of it. *)
Theorem readbytes_fuel :
  forall (data : list N) (cur : nat) (o : op), fst (v_step BS data cur o) <> RFuel.
Proof. intros. exact (view_no_fuel BS data cur o). Qed.
Print Assumptions readbytes_fuel.

(* Clauses of the property, on the view (and hence, by parser_refines_view,
   on the parser): a fixed-size read succeeds iff it stays inside the input,
   returns the big-endian value of the bytes at the cursor, and moves the
   cursor by exactly its size; a failing read is UnexpectedEOF and consumes
   nothing. *)
Theorem read_u8_spec : forall data cur,
  (cur + 1 <= length data ->
     v_step BS data cur OU8 = (RVal (Z.of_N (rd8 (sub data cur 1))), cur + 1)) /\
  (length data < cur + 1 -> v_step BS data cur OU8 = (REof, cur)).
Proof. intros. apply (fixed_read_iff BS data cur OU8 1 (fun b => Z.of_N (rd8 b))); [reflexivity|lia]. Qed.

Theorem read_u16_spec : forall data cur,
  (cur + 2 <= length data ->
     v_step BS data cur OU16 = (RVal (Z.of_N (rd16 (sub data cur 2))), cur + 2)) /\
  (length data < cur + 2 -> v_step BS data cur OU16 = (REof, cur)).
Proof. intros. apply (fixed_read_iff BS data cur OU16 2 (fun b => Z.of_N (rd16 b))); [reflexivity|lia]. Qed.

Theorem read_i16_spec : forall data cur,
  (cur + 2 <= length data ->
     v_step BS data cur OI16 = (RVal (to_i16 (rd16 (sub data cur 2))), cur + 2)) /\
  (length data < cur + 2 -> v_step BS data cur OI16 = (REof, cur)).
Proof. intros. apply (fixed_read_iff BS data cur OI16 2 (fun b => to_i16 (rd16 b))); [reflexivity|lia]. Qed.

Theorem read_u32_spec : forall data cur,
  (cur + 4 <= length data ->
     v_step BS data cur OU32 = (RVal (Z.of_N (rd32 (sub data cur 4))), cur + 4)) /\
  (length data < cur + 4 -> v_step BS data cur OU32 = (REof, cur)).
Proof. intros. apply (fixed_read_iff BS data cur OU32 4 (fun b => Z.of_N (rd32 b))); [reflexivity|lia]. Qed.
Print Assumptions read_u32_spec.

(* Bulk Read(k): delivers n <= k bytes, exactly data[cur, cur+n), leaves the
   cursor at cur+n, reports no error iff n = k, never fails when the request
   fits, and a failure means the next chunk would pass the end of input. *)
Theorem read_bulk_spec : forall data cur k n b failed cur',
  v_read BS data (S k) cur k = (n, b, failed, cur') ->
  b = sub data cur n /\ cur' = cur + n /\ n <= k /\ length b = n /\
  (failed = false <-> n = k) /\
  (failed = true -> length data < cur + n + Nat.min (k - n) BS) /\
  (cur + k <= length data -> failed = false).
Proof.
  intros data cur k n b failed cur'.
  apply (v_read_spec BS data (S k) cur k n b failed cur'); [pose proof bs_ok; lia | lia].
Qed.
Print Assumptions read_bulk_spec.
