(* C17/Proofs.v — the buffered parser refines the plain byte view. *)
From Coq Require Import List NArith ZArith Bool Arith Lia.
From Common Require Import Bytes.
From C17 Require Import Model.
Import ListNotations.

(* ---------- list slicing lemmas ---------- *)

Lemma skipn_sub {A} (l : list A) off n p :
  skipn p (sub l off n) = sub l (off + p) (n - p).
Proof.
  unfold sub. rewrite skipn_firstn_comm. now rewrite skipn_skipn'.
Qed.

Lemma firstn_firstn_min {A} (l : list A) a b : firstn a (firstn b l) = firstn (Nat.min a b) l.
Proof. apply firstn_firstn. Qed.

Lemma sub_sub {A} (l : list A) off len p n :
  (p + n <= len)%nat -> sub (sub l off len) p n = sub l (off + p) n.
Proof.
  intros H. unfold sub at 1. rewrite skipn_sub. unfold sub.
  rewrite firstn_firstn. f_equal. lia.
Qed.

Lemma sub_nil_beyond {A} (l : list A) off n : (length l <= off)%nat -> sub l off n = [].
Proof.
  intros H. unfold sub. rewrite skipn_all2 by exact H. apply firstn_nil.
Qed.

Lemma sub_length_exact {A} (l : list A) off n :
  length (sub l off n) = Nat.min n (length l - off).
Proof. unfold sub. now rewrite firstn_length, skipn_length. Qed.

Lemma sub_zero {A} (l : list A) off : sub l off 0 = [].
Proof. reflexivity. Qed.

(* ---------- invariant ---------- *)

Section Refine.
  Variable bs : nat.
  Variable data : list N.
  Hypothesis bs4 : 4 <= bs.

  Definition Inv (s : pstate) : Prop :=
    p_buf s = sub data (p_from s) (length (p_buf s)) /\
    p_up s = p_from s + length (p_buf s) /\
    p_pos s <= length (p_buf s) /\
    length (p_buf s) <= bs.

  Lemma inv_init o : Inv (p_init o).
  Proof. unfold Inv, p_init; cbn. repeat split; lia. Qed.

  Lemma inv_buf_in_data s :
    Inv s -> p_buf s = [] \/ p_from s + length (p_buf s) <= length data.
  Proof.
    intros (Hb & _). destruct (p_buf s) as [|x b] eqn:E; [now left|right].
    assert (Hl : length (x :: b) = Nat.min (length (x :: b)) (length data - p_from s)).
    { rewrite Hb at 1. apply sub_length_exact. }
    cbn [length] in *. lia.
  Qed.

  Lemma inv_seek s fp : Inv s -> Inv (m_seek s fp) /\ m_pos (m_seek s fp) = fp.
  Proof.
    intros (Hb & Hu & Hp & Hl). unfold m_seek.
    destruct ((p_from s <=? fp) && (fp <=? p_from s + length (p_buf s))) eqn:E.
    - apply andb_true_iff in E. destruct E as [E1 E2].
      apply Nat.leb_le in E1. apply Nat.leb_le in E2.
      unfold Inv, m_pos; cbn. repeat split; try assumption; lia.
    - unfold Inv, m_pos; cbn. repeat split; lia.
  Qed.

  (* ---------- the ReadBytes loop ---------- *)

  Lemma rb_loop_spec fuel : forall n s,
    Inv s -> n <= bs ->
    p_pos s + n - length (p_buf s) <= fuel ->
    (m_pos s + n <= length data \/ n = 0 ->
       exists s', rb_loop bs data fuel n s = RbOk s' /\ Inv s' /\
                  m_pos s' = m_pos s /\ p_pos s' + n <= length (p_buf s')) /\
    (~ (m_pos s + n <= length data \/ n = 0) ->
       exists s', rb_loop bs data fuel n s = RbEof s' /\ Inv s' /\ m_pos s' = m_pos s).
  Proof.
    induction fuel as [|f IH]; intros n s HI Hn Hfuel.
    - (* no fuel: the guard must already hold *)
      pose proof HI as (Hb & Hu & Hp & Hl).
      assert (Hg : p_pos s + n <= length (p_buf s)) by lia.
      cbn [rb_loop]. apply Nat.leb_le in Hg. rewrite Hg.
      apply Nat.leb_le in Hg.
      split.
      + intros _. exists s. repeat split; auto.
      + intros Hna. exfalso. apply Hna.
        destruct (inv_buf_in_data s HI) as [E|E].
        * rewrite E in *. cbn [length] in *. right. lia.
        * left. unfold m_pos. lia.
    - pose proof HI as (Hb & Hu & Hp & Hl).
      cbn [rb_loop].
      destruct (Nat.leb_spec (p_pos s + n) (length (p_buf s))) as [Hg|Hg].
      + split.
        * intros _. exists s. repeat split; auto.
        * intros Hna. exfalso. apply Hna.
          destruct (inv_buf_in_data s HI) as [E|E].
          -- rewrite E in *. cbn [length] in *. right. lia.
          -- left. unfold m_pos. lia.
      + (* one iteration *)
        set (kept := skipn (p_pos s) (p_buf s)).
        assert (Hkl : length kept = length (p_buf s) - p_pos s).
        { unfold kept. apply skipn_length. }
        assert (Hkept : kept = sub data (p_from s + p_pos s) (length kept)).
        { unfold kept at 1. rewrite Hb at 1. rewrite skipn_sub. now rewrite Hkl. }
        unfold u_read.
        set (space := bs - length kept).
        assert (Hspace : 0 < space) by (unfold space; lia).
        set (lim := match p_orc s with [] => (space, []) | (l, _) :: o' => (S l, o') end).
        assert (Hlim : 0 < fst lim).
        { unfold lim. destruct (p_orc s) as [|[l e] o']; cbn; lia. }
        destruct lim as [lm o'] eqn:Elim. cbn [fst] in Hlim.
        set (cnt := Nat.min space (Nat.min (length data - p_up s) lm)).
        assert (Hgot : length (sub data (p_up s) cnt) = cnt).
        { rewrite sub_length_exact. unfold cnt. lia. }
        destruct (sub data (p_up s) cnt) as [|g got] eqn:Egot.
        * (* EOF: nothing left *)
          cbn [length] in Hgot.
          assert (Hrem : length data - p_up s = 0) by (unfold cnt in Hgot; lia).
          assert (HI1 : Inv (mkP (p_from s + p_pos s) 0 kept (p_up s) o')).
          { unfold Inv; cbn. repeat split; try assumption; try lia. }
          split.
          -- intros [Hav|Hn0]; [|lia].
             unfold m_pos in Hav. exfalso. lia.
          -- intros _. eexists. split; [reflexivity|]. split; [exact HI1|].
             unfold m_pos; cbn. lia.
        * (* progress *)
          set (s2 := mkP (p_from s + p_pos s) 0 (kept ++ g :: got)
                         (p_up s + length (g :: got)) o').
          assert (Hcnt0 : 0 < cnt) by (rewrite <- Hgot; cbn; lia).
          assert (Hcntle : p_up s + cnt <= length data) by (unfold cnt in *; lia).
          assert (HI2 : Inv s2).
          { unfold Inv, s2; cbn [p_buf p_from p_up p_pos].
            rewrite app_length. rewrite Hgot.
            repeat split.
            - rewrite <- sub_app_adj. rewrite <- Hkept.
              replace (p_from s + p_pos s + length kept) with (p_up s) by lia.
              now rewrite Egot.
            - lia.
            - lia.
            - unfold cnt, space. lia. }
          assert (Hm2 : m_pos s2 = m_pos s) by (unfold m_pos, s2; cbn; lia).
          assert (Hf2 : p_pos s2 + n - length (p_buf s2) <= f).
          { unfold s2; cbn [p_pos p_buf]. rewrite app_length, Hgot.
            assert (0 < cnt) by (rewrite <- Hgot; cbn; lia). lia. }
          destruct (IH n s2 HI2 Hn Hf2) as [IHa IHb].
          rewrite Hm2 in IHa, IHb.
          split.
          -- intros Hav. destruct (IHa Hav) as (s' & E & Hi & Hm & Hq).
             exists s'. split; [exact E|]. split; [exact Hi|]. split; [exact Hm|exact Hq].
          -- intros Hna. destruct (IHb Hna) as (s' & E & Hi & Hm).
             exists s'. split; [exact E|]. split; auto.
  Qed.

  Lemma avail_spec cur n :
    avail data cur n = true <-> (cur + n <= length data \/ n = 0).
  Proof.
    unfold avail. rewrite orb_true_iff, Nat.eqb_eq, Nat.leb_le. tauto.
  Qed.

  Lemma m_bytes_spec s n :
    Inv s -> n <= bs ->
    match v_take data (m_pos s) n with
    | Some b => exists s', m_bytes bs data s n = (Some b, s', true) /\ Inv s' /\
                           m_pos s' = m_pos s + n
    | None => exists s', m_bytes bs data s n = (None, s', true) /\ Inv s' /\
                         m_pos s' = m_pos s
    end.
  Proof.
    intros HI Hn.
    assert (Hf : p_pos s + n - length (p_buf s) <= S n).
    { destruct HI as (_ & _ & Hp & _). lia. }
    destruct (rb_loop_spec (S n) n s HI Hn Hf) as [Ha Hb].
    unfold v_take, m_bytes.
    destruct (avail data (m_pos s) n) eqn:Eav.
    - apply avail_spec in Eav.
      destruct (Ha Eav) as (s' & E & (Hb' & Hu' & Hp' & Hl') & Hm & Hq).
      rewrite E.
      assert (Hsub : sub (p_buf s') (p_pos s') n = sub data (m_pos s) n).
      { rewrite Hb'. rewrite sub_sub by lia. unfold m_pos in Hm. now rewrite Hm. }
      rewrite Hsub. eexists. split; [reflexivity|split].
      + unfold Inv; cbn. repeat split; auto; lia.
      + unfold m_pos in *; cbn. lia.
    - assert (Hna : ~ (m_pos s + n <= length data \/ n = 0)).
      { intros H. apply avail_spec in H. congruence. }
      destruct (Hb Hna) as (s' & E & Hi & Hm).
      rewrite E. exists s'. auto.
  Qed.

  Lemma m_words_spec n : forall s,
    Inv s ->
    exists s', m_words bs data s n =
               (fst (fst (v_words data (m_pos s) n)), s', snd (v_words data (m_pos s) n), true)
               /\ Inv s' /\ m_pos s' = snd (fst (v_words data (m_pos s) n)).
  Proof.
    induction n as [|n IH]; intros s HI; cbn [m_words v_words].
    - exists s. cbn. auto.
    - assert (H2 : 2 <= bs) by lia.
      pose proof (m_bytes_spec s 2 HI H2) as Hb.
      destruct (v_take data (m_pos s) 2) as [b|].
      + destruct Hb as (s1 & E & HI1 & Hm1). rewrite E.
        destruct (IH s1 HI1) as (s2 & E2 & HI2 & Hm2).
        rewrite E2. rewrite Hm1 in *.
        destruct (v_words data (m_pos s + 2) n) as [[ws c] ok]. cbn in *.
        exists s2. auto.
      + destruct Hb as (s1 & E & HI1 & Hm1). rewrite E. cbn.
        exists s1. auto.
  Qed.

  Lemma m_read_spec fuel : forall s k,
    Inv s ->
    k < fuel ->
    exists s',
      m_read bs data fuel s k =
        (let '(n, b, failed, _) := v_read bs data fuel (m_pos s) k in (n, b, failed), s', true)
      /\ Inv s' /\
      m_pos s' = snd (v_read bs data fuel (m_pos s) k).
  Proof.
    induction fuel as [|f IH]; intros s k HI Hk; [lia|].
    cbn [m_read v_read].
    destruct (Nat.eqb_spec k 0) as [->|Hk0].
    - exists s. cbn. auto.
    - set (c := Nat.min k bs).
      assert (Hc : c <= bs) by (unfold c; lia).
      assert (Hc0 : 0 < c) by (unfold c; lia).
      pose proof (m_bytes_spec s c HI Hc) as Hb.
      destruct (v_take data (m_pos s) c) as [b|].
      + destruct Hb as (s1 & E & HI1 & Hm1). rewrite E.
        assert (Hk' : k - c < f) by lia.
        destruct (IH s1 (k - c) HI1 Hk') as (s2 & E2 & HI2 & Hm2).
        rewrite E2. rewrite Hm1 in *.
        destruct (v_read bs data f (m_pos s + c) (k - c)) as [[[n rest] failed] cur'].
        cbn in *. exists s2. auto.
      + destruct Hb as (s1 & E & HI1 & Hm1). rewrite E. cbn.
        exists s1. auto.
  Qed.

  (* ---------- one operation ---------- *)

  Lemma step_refines s o :
    Inv s ->
    exists s', m_step bs data s o = (fst (v_step bs data (m_pos s) o), s') /\
               Inv s' /\ m_pos s' = snd (v_step bs data (m_pos s) o).
  Proof.
    intros HI.
    assert (H1 : 1 <= bs) by lia. assert (H2 : 2 <= bs) by lia.
    destruct o as [p|n| | | | | |n|k| |]; cbn [m_step v_step].
    - exists (m_seek s p). destruct (inv_seek s p HI). cbn. auto.
    - exists (m_seek s (m_pos s + n)). destruct (inv_seek s (m_pos s + n) HI). cbn. auto.
    - pose proof (m_bytes_spec s 1 HI H1) as Hb.
      destruct (v_take data (m_pos s) 1); destruct Hb as (s1 & E & HI1 & Hm1);
        rewrite E; exists s1; cbn; auto.
    - pose proof (m_bytes_spec s 2 HI H2) as Hb.
      destruct (v_take data (m_pos s) 2); destruct Hb as (s1 & E & HI1 & Hm1);
        rewrite E; exists s1; cbn; auto.
    - pose proof (m_bytes_spec s 2 HI H2) as Hb.
      destruct (v_take data (m_pos s) 2); destruct Hb as (s1 & E & HI1 & Hm1);
        rewrite E; exists s1; cbn; auto.
    - pose proof (m_bytes_spec s 4 HI bs4) as Hb.
      destruct (v_take data (m_pos s) 4); destruct Hb as (s1 & E & HI1 & Hm1);
        rewrite E; exists s1; cbn; auto.
    - pose proof (m_bytes_spec s 2 HI H2) as Hb.
      destruct (v_take data (m_pos s) 2) as [b|]; destruct Hb as (s1 & E & HI1 & Hm1);
        rewrite E.
      + destruct (m_words_spec (N.to_nat (rd16 b)) s1 HI1) as (s2 & E2 & HI2 & Hm2).
        rewrite E2. rewrite Hm1 in *.
        destruct (v_words data (m_pos s + 2) (N.to_nat (rd16 b))) as [[ws c] ok].
        cbn in *. exists s2. destruct ok; cbn; auto.
      + exists s1; cbn; auto.
    - destruct (Nat.ltb_spec bs n) as [Hlt|Hle].
      + exists s. cbn. auto.
      + pose proof (m_bytes_spec s n HI Hle) as Hb.
        destruct (v_take data (m_pos s) n); destruct Hb as (s1 & E & HI1 & Hm1);
          rewrite E; exists s1; cbn; auto.
    - assert (Hk : k < S k) by lia.
      destruct (m_read_spec (S k) s k HI Hk) as (s1 & E & HI1 & Hm1).
      rewrite E.
      destruct (v_read bs data (S k) (m_pos s) k) as [[[n b] failed] cur'].
      cbn in *. exists s1. auto.
    - exists s. cbn. auto.
    - exists s. cbn. auto.
  Qed.

  (* ---------- whole histories ---------- *)

  Lemma run_refines ops : forall s,
    Inv s -> m_run bs data s ops = v_run bs data (m_pos s) ops.
  Proof.
    induction ops as [|o ops IH]; intros s HI; cbn [m_run v_run]; [reflexivity|].
    destruct (step_refines s o HI) as (s' & E & HI' & Hm).
    rewrite E.
    destruct (v_step bs data (m_pos s) o) as [res cur'] eqn:Ev. cbn in *.
    rewrite Hm. f_equal. rewrite <- Hm. now apply IH.
  Qed.

  Lemma inv_run ops : forall s,
    Inv s -> Inv (fold_left (fun st o => snd (m_step bs data st o)) ops s).
  Proof.
    induction ops as [|o ops IH]; intros s HI; cbn [fold_left]; [exact HI|].
    apply IH. destruct (step_refines s o HI) as (s' & E & HI' & _). now rewrite E.
  Qed.

  Theorem parser_refines_view_gen o ops :
    run_parser bs data o ops = run_view bs data ops.
  Proof.
    unfold run_parser, run_view. now rewrite run_refines by apply inv_init.
  Qed.

  (* the fuel never runs out and the model never panics except on the
     documented ReadBytes(n > bufferSize) *)
  Lemma view_no_fuel cur o : fst (v_step bs data cur o) <> RFuel.
  Proof.
    destruct o; cbn [v_step];
      repeat match goal with
             | |- context [match ?x with _ => _ end] => destruct x
             end; cbn; discriminate.
  Qed.
End Refine.

(* ---------- clauses of the property, stated on the view ---------- *)

Section ViewFacts.
  Variable bs : nat.
  Variable data : list N.

  Lemma v_take_some cur n b :
    v_take data cur n = Some b -> b = sub data cur n /\ (cur + n <= length data \/ n = 0).
  Proof.
    unfold v_take. destruct (avail data cur n) eqn:E; [|discriminate].
    intros [= <-]. split; [reflexivity|]. now apply avail_spec.
  Qed.

  Lemma v_take_none cur n :
    v_take data cur n = None -> length data < cur + n /\ 0 < n.
  Proof.
    unfold v_take. destruct (avail data cur n) eqn:E; [discriminate|].
    intros _. unfold avail in E. apply orb_false_iff in E. destruct E as [E1 E2].
    apply Nat.eqb_neq in E1. apply Nat.leb_gt in E2. lia.
  Qed.

  (* fixed-size reads: succeed iff in range; value = big-endian bytes at cur;
     position advances by exactly the size; on failure nothing is consumed *)
  Lemma fixed_read_iff cur o n (dec : list N -> Z) :
    (forall c, v_step bs data c o =
       match v_take data c n with
       | Some b => (RVal (dec b), c + n)
       | None => (REof, c) end) ->
    0 < n ->
    (cur + n <= length data ->
       v_step bs data cur o = (RVal (dec (sub data cur n)), cur + n)) /\
    (length data < cur + n -> v_step bs data cur o = (REof, cur)).
  Proof.
    intros Hdef Hn. rewrite Hdef. split; intros H.
    - destruct (v_take data cur n) as [b|] eqn:E.
      + apply v_take_some in E. destruct E as [-> _]. reflexivity.
      + apply v_take_none in E. lia.
    - destruct (v_take data cur n) as [b|] eqn:E.
      + apply v_take_some in E. lia.
      + reflexivity.
  Qed.

  (* the bulk read delivers exactly the bytes of the complete chunks *)
  Lemma v_read_spec fuel : forall cur k n b failed cur',
    0 < bs -> k < fuel ->
    v_read bs data fuel cur k = (n, b, failed, cur') ->
    b = sub data cur n /\ cur' = cur + n /\ n <= k /\ length b = n /\
    (failed = false <-> n = k) /\
    (failed = true -> length data < cur + n + Nat.min (k - n) bs) /\
    (cur + k <= length data -> failed = false).
  Proof.
    induction fuel as [|f IH]; intros cur k n b failed cur' Hbs Hk; [lia|].
    cbn [v_read].
    destruct (Nat.eqb_spec k 0) as [->|Hk0].
    - intros [= <- <- <- <-]. cbn. repeat split; auto; try lia; try discriminate.
    - set (c := Nat.min k bs).
      assert (Hc0 : 0 < c) by (unfold c; lia).
      destruct (v_take data cur c) as [b0|] eqn:E.
      + apply v_take_some in E. destruct E as [-> Hav].
        destruct (v_read bs data f (cur + c) (k - c)) as [[[n1 b1] f1] c1] eqn:E1.
        intros [= <- <- <- <-].
        assert (Hk' : k - c < f) by lia.
        destruct (IH _ _ _ _ _ _ Hbs Hk' E1) as (-> & -> & Hle & Hlen & Hiff & Hfail & Hok).
        assert (Hsl : length (sub data cur c) = c) by (apply sub_length; lia).
        repeat split.
        * now rewrite sub_app_adj.
        * lia.
        * unfold c in *; lia.
        * rewrite app_length. lia.
        * intros H. apply Hiff in H. unfold c in *; lia.
        * intros H. apply Hiff. unfold c in *; lia.
        * intros H. specialize (Hfail H).
          replace (k - (c + n1)) with (k - c - n1) by lia. lia.
        * intros H. apply Hok. unfold c in *. lia.
      + apply v_take_none in E. destruct E as [E _].
        intros [= <- <- <- <-]. cbn.
        split; [reflexivity|]. split; [lia|]. split; [lia|]. split; [reflexivity|].
        split; [split; [discriminate|lia]|].
        split.
        * intros _. rewrite Nat.sub_0_r, Nat.add_0_r. exact E.
        * intros H. unfold c in E. lia.
  Qed.
End ViewFacts.
