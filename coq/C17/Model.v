(* C17/Model.v — executable model of parser/parser.go and of the plain
   random-access byte view it must be observationally equal to.
   Definitions only; proofs are in Proofs.v. *)
From Coq Require Import List NArith ZArith Bool Arith.
From Common Require Import Bytes.
Import ListNotations.

(* ------------------------------------------------------------------ *)
(* Operations and observable results                                   *)

Inductive op : Type :=
| OSeek (p : nat)        (* SeekPos(p), p >= 0, possibly beyond EOF *)
| ODiscard (n : nat)     (* Discard(n), n >= 0 *)
| OU8 | OU16 | OI16 | OU32
| OSlice                 (* ReadUint16Slice *)
| OBytes (n : nat)       (* ReadBytes(n); Go panics for n > bufferSize *)
| ORead (k : nat)        (* Read(buf) with len(buf) = k *)
| OPos | OSize.

Inductive result : Type :=
| RDone                              (* nil error, no value *)
| RVal (v : Z)                       (* integer value (or position/size) *)
| RData (bs : list N)                (* ReadBytes: the bytes *)
| RWords (ws : list N)               (* ReadUint16Slice: the values *)
| RRead (n : nat) (bs : list N) (failed : bool) (* Read: count, delivered bytes, err<>nil *)
| REof                               (* io.ErrUnexpectedEOF, no data *)
| RPanic
| RFuel.

(* ------------------------------------------------------------------ *)
(* The specification side: a plain view (data, cur)                    *)

Section View.
  Variable bs : nat.            (* bufferSize *)
  Variable data : list N.

  Definition avail (cur n : nat) : bool := (n =? 0)%nat || (cur + n <=? length data)%nat.

  (* fixed-size read of n bytes at cur *)
  Definition v_take (cur n : nat) : option (list N) :=
    if avail cur n then Some (sub data cur n) else None.

  (* number of 16-bit values of the slice that can be fully read *)
  Fixpoint v_words (cur n : nat) : (list N * nat * bool) :=
    match n with
    | O => ([], cur, true)
    | S n' =>
        match v_take cur 2 with
        | Some b =>
            let '(ws, c, ok) := v_words (cur + 2) n' in (rd16 b :: ws, c, ok)
        | None => ([], cur, false)
        end
    end.

  (* bulk read in chunks of at most bs bytes; fuel = k+1 always suffices when bs>0 *)
  Fixpoint v_read (fuel cur k : nat) : (nat * list N * bool * nat) :=
    match fuel with
    | O => (0%nat, [], true, cur)
    | S f =>
        if (k =? 0)%nat then (0%nat, [], false, cur)
        else
          let c := Nat.min k bs in
          match v_take cur c with
          | Some b =>
              let '(n, rest, failed, cur') := v_read f (cur + c) (k - c) in
              ((c + n)%nat, b ++ rest, failed, cur')
          | None => (0%nat, [], true, cur)
          end
    end.

  Definition v_step (cur : nat) (o : op) : (result * nat) :=
    match o with
    | OSeek p => (RDone, p)
    | ODiscard n => (RDone, cur + n)%nat
    | OU8 => match v_take cur 1 with
             | Some b => (RVal (Z.of_N (rd8 b)), cur + 1)%nat
             | None => (REof, cur) end
    | OU16 => match v_take cur 2 with
              | Some b => (RVal (Z.of_N (rd16 b)), cur + 2)%nat
              | None => (REof, cur) end
    | OI16 => match v_take cur 2 with
              | Some b => (RVal (to_i16 (rd16 b)), cur + 2)%nat
              | None => (REof, cur) end
    | OU32 => match v_take cur 4 with
              | Some b => (RVal (Z.of_N (rd32 b)), cur + 4)%nat
              | None => (REof, cur) end
    | OSlice =>
        match v_take cur 2 with
        | None => (REof, cur)
        | Some b =>
            let '(ws, c, ok) := v_words (cur + 2) (N.to_nat (rd16 b)) in
            if ok then (RWords ws, c) else (REof, c)
        end
    | OBytes n =>
        if (bs <? n)%nat then (RPanic, cur)
        else match v_take cur n with
             | Some b => (RData b, cur + n)%nat
             | None => (REof, cur) end
    | ORead k =>
        let '(n, b, failed, cur') := v_read (S k) cur k in
        (RRead n b failed, cur')
    | OPos => (RVal (Z.of_nat cur), cur)
    | OSize => (RVal (Z.of_nat (length data)), cur)
    end.

  Fixpoint v_run (cur : nat) (ops : list op) : list (result * nat) :=
    match ops with
    | [] => []
    | o :: r => let '(res, cur') := v_step cur o in (res, cur') :: v_run cur' r
    end.
End View.

(* ------------------------------------------------------------------ *)
(* The implementation side: mirror of parser.Parser                    *)

(* The underlying io.ReadSeeker: data + position.  A short-read oracle
   decides, for every call of Read, how many bytes (at least one when any are
   left) are returned and whether io.EOF is reported together with the last
   bytes. *)
Definition oracle := list (nat * bool).

Record pstate : Type := mkP {
  p_from : nat;        (* file offset of buf[0] *)
  p_pos : nat;         (* cursor inside buf *)
  p_buf : list N;      (* buf[0:used] *)
  p_up : nat;          (* position of the underlying reader *)
  p_orc : oracle
}.

Definition p_init (o : oracle) : pstate := mkP 0 0 [] 0 o.

Section Impl.
  Variable bs : nat.
  Variable data : list N.

  (* r.Read(p) with len(p) = space > 0: bytes returned and the remaining oracle.
     No bytes returned <-> (0, io.EOF). *)
  Definition u_read (up space : nat) (o : oracle) : (list N * oracle) :=
    let rem := (length data - up)%nat in
    let '(lim, o') := match o with
                      | [] => (space, [])
                      | (l, _) :: o' => (S l, o')
                      end in
    (sub data up (Nat.min space (Nat.min rem lim)), o').

  Definition m_pos (s : pstate) : nat := (p_from s + p_pos s)%nat.

  Definition m_seek (s : pstate) (fp : nat) : pstate :=
    if ((p_from s <=? fp) && (fp <=? p_from s + length (p_buf s)))%nat then
      mkP (p_from s) (fp - p_from s) (p_buf s) (p_up s) (p_orc s)
    else
      mkP fp 0 [] fp (p_orc s).

  Inductive rb : Type :=
  | RbOk (s : pstate)
  | RbEof (s : pstate)
  | RbFuel.

  (* the for-loop of ReadBytes *)
  Fixpoint rb_loop (fuel n : nat) (s : pstate) : rb :=
    if (p_pos s + n <=? length (p_buf s))%nat then RbOk s
    else
      match fuel with
      | O => RbFuel
      | S f =>
          let kept := skipn (p_pos s) (p_buf s) in
          let '(got, o') := u_read (p_up s) (bs - length kept) (p_orc s) in
          let s1 := mkP (p_from s + p_pos s) 0 kept (p_up s) o' in
          match got with
          | [] => RbEof s1
          | _ :: _ =>
              rb_loop f n (mkP (p_from s1) 0 (kept ++ got) (p_up s + length got) o')
          end
      end.

  (* ReadBytes(n) for n <= bs *)
  Definition m_bytes (s : pstate) (n : nat) : (option (list N) * pstate * bool (*fuel ok*)) :=
    match rb_loop (S n) n s with
    | RbOk s' =>
        (Some (sub (p_buf s') (p_pos s') n),
         mkP (p_from s') (p_pos s' + n) (p_buf s') (p_up s') (p_orc s'), true)
    | RbEof s' => (None, s', true)
    | RbFuel => (None, s, false)
    end.

  Fixpoint m_words (s : pstate) (n : nat) : (list N * pstate * bool * bool) :=
    match n with
    | O => ([], s, true, true)
    | S n' =>
        match m_bytes s 2 with
        | (Some b, s', fu) =>
            let '(ws, s'', ok, fu') := m_words s' n' in (rd16 b :: ws, s'', ok, fu && fu')
        | (None, s', fu) => ([], s', false, fu)
        end
    end.

  Fixpoint m_read (fuel : nat) (s : pstate) (k : nat) : (nat * list N * bool * pstate * bool) :=
    match fuel with
    | O => (0%nat, [], true, s, false)
    | S f =>
        if (k =? 0)%nat then (0%nat, [], false, s, true)
        else
          let c := Nat.min k bs in
          match m_bytes s c with
          | (Some b, s', fu) =>
              let '(n, rest, failed, s'', fu') := m_read f s' (k - c) in
              ((c + n)%nat, b ++ rest, failed, s'', fu && fu')
          | (None, s', fu) => (0%nat, [], true, s', fu)
          end
    end.

  Definition fuel_res (fu : bool) (r : result) : result := if fu then r else RFuel.

  Definition m_step (s : pstate) (o : op) : (result * pstate) :=
    match o with
    | OSeek p => (RDone, m_seek s p)
    | ODiscard n => (RDone, m_seek s (m_pos s + n))
    | OU8 => match m_bytes s 1 with
             | (Some b, s', fu) => (fuel_res fu (RVal (Z.of_N (rd8 b))), s')
             | (None, s', fu) => (fuel_res fu REof, s') end
    | OU16 => match m_bytes s 2 with
              | (Some b, s', fu) => (fuel_res fu (RVal (Z.of_N (rd16 b))), s')
              | (None, s', fu) => (fuel_res fu REof, s') end
    | OI16 => match m_bytes s 2 with
              | (Some b, s', fu) => (fuel_res fu (RVal (to_i16 (rd16 b))), s')
              | (None, s', fu) => (fuel_res fu REof, s') end
    | OU32 => match m_bytes s 4 with
              | (Some b, s', fu) => (fuel_res fu (RVal (Z.of_N (rd32 b))), s')
              | (None, s', fu) => (fuel_res fu REof, s') end
    | OSlice =>
        match m_bytes s 2 with
        | (None, s', fu) => (fuel_res fu REof, s')
        | (Some b, s', fu) =>
            let '(ws, s'', ok, fu') := m_words s' (N.to_nat (rd16 b)) in
            (fuel_res (fu && fu') (if ok then RWords ws else REof), s'')
        end
    | OBytes n =>
        if (bs <? n)%nat then (RPanic, s)
        else match m_bytes s n with
             | (Some b, s', fu) => (fuel_res fu (RData b), s')
             | (None, s', fu) => (fuel_res fu REof, s') end
    | ORead k =>
        let '(n, b, failed, s', fu) := m_read (S k) s k in
        (fuel_res fu (RRead n b failed), s')
    | OPos => (RVal (Z.of_nat (m_pos s)), s)
    | OSize => (RVal (Z.of_nat (length data)), s)
    end.

  Fixpoint m_run (s : pstate) (ops : list op) : list (result * nat) :=
    match ops with
    | [] => []
    | o :: r => let '(res, s') := m_step s o in (res, m_pos s') :: m_run s' r
    end.
End Impl.

(* Entry point used by the correspondence driver: the model of
   parser.New(r) followed by the operations, with Pos() observed after each. *)
Definition run_parser (bs : nat) (data : list N) (o : oracle) (ops : list op)
  : list (result * nat) :=
  m_run bs data (p_init o) ops.

Definition run_view (bs : nat) (data : list N) (ops : list op) : list (result * nat) :=
  v_run bs data 0 ops.
