From Coq Require Import Extraction ExtrOcamlBasic.
From Common Require Import Conv.
From Gen Require Import Consts.
From C17 Require Import Model.
Extraction "c17_model.ml" conv_anchor parser_bufferSize run_parser run_view.
