(* C08D/Tie.v — what the proofs need of the dispatch REGENERATED from the Go
   source (coq/Gen/C08D.v: gsubReaders, gposReaders, the key factor and the
   two limits of readGsubSubtable / readGposSubtable, the switch of gtab.Read,
   the type switch of LookupList.encode).  Every lemma here is decided by
   computation on the regenerated tables: a changed dispatch makes one of them
   fail, and with it every theorem of Props.v that uses it. *)
From Coq Require Import List NArith ZArith Bool Lia.
From Common Require Import Bytes Outcome.
From Gen Require Import C08 C08D.
From C08 Require Import Model ModelLL ModelSub.
From C08D Require Import Model Spec.
Import ListNotations.
Local Open Scope N_scope.

Definition small : list N := [0; 1; 2; 3; 4; 5; 6; 7; 8; 9].

Lemma small_all (P : N -> bool) : forallb P small = true -> forall n, n < 10 -> P n = true.
Proof.
  intros H n Hn. cbn [forallb small] in H.
  repeat (apply andb_true_iff in H; destruct H as [?H H]).
  assert (n = 0 \/ n = 1 \/ n = 2 \/ n = 3 \/ n = 4 \/ n = 5 \/ n = 6 \/ n = 7 \/ n = 8 \/ n = 9) as E by lia.
  repeat (destruct E as [E|E]; [subst n; assumption|]). subst n. assumption.
Qed.

Lemma small2_all (P : N -> N -> bool) :
  forallb (fun a => forallb (P a) small) small = true ->
  forall a b, a < 10 -> b < 10 -> P a b = true.
Proof.
  intros H a b Ha Hb.
  pose proof (small_all (fun a => forallb (P a) small) H a Ha) as H1. cbn beta in H1.
  exact (small_all (P a) H1 b Hb).
Qed.

Lemma tables_all (P : table -> bool) : P GSUB && P GPOS = true -> forall t, P t = true.
Proof. intros H t. apply andb_true_iff in H. destruct t; tauto. Qed.

(* the regenerated constants of the two dispatch functions *)
Lemma dispatcher_limits t :
  exists d, dispatcher_of t = Some d /\ d_typeLimit d = 10 /\ d_fmtLimit d = 10 /\ d_factor d = 10.
Proof. destruct t; eexists; (split; [vm_compute; reflexivity|]); repeat split; vm_compute; reflexivity. Qed.

(* beyond the limits there is no reader *)
Lemma dispatch_large t lt fmt : 10 <= lt \/ 10 <= fmt -> dispatch t lt fmt = Ok None.
Proof.
  intros H. unfold dispatch.
  destruct (dispatcher_limits t) as (d & -> & -> & -> & _).
  replace ((10 <=? lt) || (10 <=? fmt)) with true; [reflexivity|].
  symmetry. apply orb_true_iff. destruct H; [left|right]; apply N.leb_le; assumption.
Qed.

Definition is_Ok_opt (x : outcome (option rkind)) : bool := match x with Ok _ => true | _ => false end.

(* the dispatch always answers: every reader named in the Go maps is known to
   the model, gtab.Read knows both tables *)
Lemma dispatch_total t lt fmt : exists o, dispatch t lt fmt = Ok o.
Proof.
  destruct (N.ltb_spec lt 10) as [Hl|Hl]; [|rewrite dispatch_large by auto; eauto].
  destruct (N.ltb_spec fmt 10) as [Hf|Hf]; [|rewrite dispatch_large by auto; eauto].
  assert (H : is_Ok_opt (dispatch t lt fmt) = true).
  { revert t. apply tables_all. apply andb_true_iff; split;
      revert lt fmt Hl Hf; apply small2_all; vm_compute; reflexivity. }
  destruct (dispatch t lt fmt); try discriminate. eauto.
Qed.

Definition opt_rkind_eqb (a b : option rkind) : bool :=
  match a, b with
  | Some x, Some y => rkind_eqb x y
  | None, None => true
  | _, _ => false
  end.

Lemma rkind_eqb_eq a b : rkind_eqb a b = true -> a = b.
Proof. destruct a, b; vm_compute; congruence. Qed.

Lemma rkind_eqb_refl a : rkind_eqb a a = true.
Proof. destruct a; reflexivity. Qed.

(* the extension lookup type of a table has exactly one format, 1, read by
   readExtensionSubtable; no other lookup type reaches that reader *)
Definition ext_check (t : table) (lt fmt : N) : bool :=
  match dispatch t lt fmt with
  | Ok (Some RExt) => (lt =? ext_of t) && (fmt =? 1)
  | Ok _ => negb ((lt =? ext_of t) && (fmt =? 1))
  | _ => false
  end.

Lemma ext_check_all t lt fmt : lt < 10 -> fmt < 10 -> ext_check t lt fmt = true.
Proof.
  intros Hl Hf. revert t. apply tables_all. apply andb_true_iff; split;
    revert lt fmt Hl Hf; apply small2_all; vm_compute; reflexivity.
Qed.

Lemma ext_of_small t : ext_of t < 10.
Proof. destruct t; vm_compute; reflexivity. Qed.

Lemma ext_of_lt16 t : ext_of t < 65536.
Proof. pose proof (ext_of_small t). lia. Qed.

Lemma dispatch_ext_iff t lt fmt :
  dispatch t lt fmt = Ok (Some RExt) <-> lt = ext_of t /\ fmt = 1.
Proof.
  pose proof (ext_of_small t) as He.
  split.
  - intros H.
    destruct (N.ltb_spec lt 10) as [Hl|Hl]; [|rewrite dispatch_large in H by auto; discriminate].
    destruct (N.ltb_spec fmt 10) as [Hf|Hf]; [|rewrite dispatch_large in H by auto; discriminate].
    pose proof (ext_check_all t lt fmt Hl Hf) as C. unfold ext_check in C. rewrite H in C.
    apply andb_true_iff in C. destruct C as [C1 C2].
    apply N.eqb_eq in C1. apply N.eqb_eq in C2. auto.
  - intros [-> ->].
    pose proof (ext_check_all t (ext_of t) 1 He ltac:(lia)) as C. unfold ext_check in C.
    rewrite !N.eqb_refl in C. cbn [andb negb] in C.
    destruct (dispatch t (ext_of t) 1) as [[[]|]| | |]; try discriminate; reflexivity.
Qed.

(* the extension type of LookupList.encode: a subtable that table [t] reads
   under lookup type [lt] decides for the extension type of [t] (C08's
   find_ext_subs run on the regenerated codes of the Go type switch) *)
Definition code_of (r : rkind) : N := kind_ext_code r.

Lemma ext_code_kind s : ext_code s = code_of (kind_of s).
Proof. reflexivity. Qed.

Definition fits_kind (t : table) (lt : N) (r : rkind) : bool :=
  match dispatch t lt (fmt_of r) with
  | Ok (Some r') => rkind_eqb r' r
  | _ => false
  end.

Definition optN_eqb (a b : option N) : bool :=
  match a, b with Some x, Some y => x =? y | None, None => true | _, _ => false end.

Definition ext_kind_check (t : table) (lt : N) : bool :=
  forallb (fun r => rkind_eqb r RExt || negb (fits_kind t lt r) ||
                    optN_eqb (find_ext_subs lt [code_of r]) (Some (ext_of t)))
          all_rkinds.

Lemma ext_kind_check_all t lt : lt < 10 -> ext_kind_check t lt = true.
Proof.
  intros Hl. revert t. apply tables_all. apply andb_true_iff; split;
    revert lt Hl; apply small_all; vm_compute; reflexivity.
Qed.

Lemma all_rkinds_In r : In r all_rkinds.
Proof. destruct r; cbn; tauto. Qed.

(* find_ext_subs looks at the first deciding code only *)
Lemma find_ext_first lt c rest e :
  find_ext_subs lt [c] = Some e -> find_ext_subs lt (c :: rest) = Some e.
Proof.
  cbn [find_ext_subs].
  destruct (c =? 1); [auto|]. destruct (c =? 2); [auto|].
  destruct (c =? 3).
  - destruct ((lt =? 5) || (lt =? 6)); [auto|]. destruct ((lt =? 7) || (lt =? 8)); [auto|discriminate].
  - discriminate.
Qed.

Lemma fits_decides t lt s rest :
  sub_fits t lt s = true ->
  find_ext_subs lt (ext_code s :: rest) = Some (ext_of t).
Proof.
  intros H. unfold sub_fits in H. fold (fits_kind t lt (kind_of s)) in H.
  assert (Hl : lt < 10).
  { destruct (N.ltb_spec lt 10) as [Hl|Hl]; [assumption|].
    unfold fits_kind in H. rewrite dispatch_large in H by auto. discriminate. }
  pose proof (ext_kind_check_all t lt Hl) as C. unfold ext_kind_check in C.
  rewrite forallb_forall in C. specialize (C (kind_of s) (all_rkinds_In _)).
  rewrite H in C. cbn [negb orb] in C.
  replace (rkind_eqb (kind_of s) RExt) with false in C by (destruct s; reflexivity).
  cbn [orb] in C.
  rewrite ext_code_kind. apply find_ext_first.
  destruct (find_ext_subs lt [code_of (kind_of s)]) as [x|]; cbn [optN_eqb] in C; [|discriminate].
  apply N.eqb_eq in C. now subst x.
Qed.

(* what sub_fits gives the reading side: the dispatch leads to the kind's reader *)
Lemma fits_dispatch t lt s :
  sub_fits t lt s = true -> dispatch t lt (fmt_of (kind_of s)) = Ok (Some (kind_of s)).
Proof.
  unfold sub_fits. destruct (dispatch t lt (fmt_of (kind_of s))) as [[r|]| | |]; try discriminate.
  intros H. apply rkind_eqb_eq in H. now subst r.
Qed.

Lemma kind_not_ext s : kind_of s <> RExt.
Proof. destruct s; discriminate. Qed.

(* a lookup type other than the extension type never yields an extension record *)
Lemma dispatch_not_ext t lt fmt : lt <> ext_of t -> dispatch t lt fmt <> Ok (Some RExt).
Proof. intros H E. apply dispatch_ext_iff in E. tauto. Qed.

(* the regenerated dispatch is the table of the OpenType text *)
Definition spec_check (t : table) (lt fmt : N) : bool :=
  match dispatch t lt fmt with
  | Ok o => opt_rkind_eqb o (S_dispatch t lt fmt)
  | _ => false
  end.

Lemma opt_rkind_eqb_eq a b : opt_rkind_eqb a b = true -> a = b.
Proof.
  destruct a as [x|], b as [y|]; cbn [opt_rkind_eqb]; try discriminate; [|reflexivity].
  intros H. apply rkind_eqb_eq in H. now subst.
Qed.

Lemma S_dispatch_large t lt fmt : 10 <= lt \/ 10 <= fmt -> S_dispatch t lt fmt = None.
Proof.
  intros H. unfold S_dispatch.
  replace ((10 <=? lt) || (10 <=? fmt)) with true; [reflexivity|].
  symmetry. apply orb_true_iff. destruct H; [left|right]; apply N.leb_le; assumption.
Qed.

Lemma dispatch_spec t lt fmt : dispatch t lt fmt = Ok (S_dispatch t lt fmt).
Proof.
  destruct (N.ltb_spec lt 10) as [Hl|Hl]; [|rewrite dispatch_large, S_dispatch_large by auto; reflexivity].
  destruct (N.ltb_spec fmt 10) as [Hf|Hf]; [|rewrite dispatch_large, S_dispatch_large by auto; reflexivity].
  assert (H : spec_check t lt fmt = true).
  { revert t. apply tables_all. apply andb_true_iff; split;
      revert lt fmt Hl Hf; apply small2_all; vm_compute; reflexivity. }
  unfold spec_check in H. destruct (dispatch t lt fmt) as [o| | |]; try discriminate.
  apply opt_rkind_eqb_eq in H. now subst.
Qed.

(* the nested switch of LookupList.encode on the lookup type of a contextual
   subtable (regenerated: c08d_extSwitch_ctx) is what C08's find_ext_subs
   implements for code 3 *)
Definition ctx_check (tp : N) : bool :=
  optN_eqb (find_ext_subs tp [3])
           (match assocN tp c08d_extSwitch_ctx with
            | Some 1 => Some c08_gsubExt
            | Some 2 => Some c08_gposExt
            | _ => None
            end).

Lemma ext_ctx_tie tp : tp < 10 -> ctx_check tp = true.
Proof. revert tp. apply small_all. vm_compute. reflexivity. Qed.

Lemma ext_ctx_tie_large tp : 10 <= tp -> find_ext_subs tp [3] = None /\ assocN tp c08d_extSwitch_ctx = None.
Proof.
  intros H. split.
  - cbn [find_ext_subs]. change (3 =? 1) with false. change (3 =? 2) with false. change (3 =? 3) with true. cbv iota.
    replace ((tp =? 5) || (tp =? 6)) with false by (symmetry; apply orb_false_iff; split; apply N.eqb_neq; lia).
    replace ((tp =? 7) || (tp =? 8)) with false by (symmetry; apply orb_false_iff; split; apply N.eqb_neq; lia).
    reflexivity.
  - unfold c08d_extSwitch_ctx. cbn [assocN].
    repeat (match goal with |- context [tp =? ?k] => replace (tp =? k) with false by (symmetry; apply N.eqb_neq; lia) end).
    reflexivity.
Qed.
