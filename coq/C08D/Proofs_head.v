(* C08D/Proofs_head.v — every subtable encoder starts its output with the
   format word the reader dispatch looks at. *)
From Coq Require Import List NArith ZArith Bool Lia.
From Common Require Import Bytes Outcome.
From C08 Require Import Model ModelCD ModelLL ModelSub ModelSub2.
From C08B Require Import Model Model2 Model3.
From C08C Require Import ModelCtx ModelChain.
From C08D Require Import Model.
Import ListNotations.
Local Open Scope N_scope.

Ltac enc_steps H :=
  repeat match type of H with
  | obind ?x _ = Ok _ => destruct x eqn:?; cbn [obind] in H; try discriminate H
  | (if ?c then _ else _) = Ok _ => destruct c eqn:?; try discriminate H
  | (let '(_, _) := ?x in _) = Ok _ => destruct x eqn:?
  end.

Lemma enc_head s b :
  encode_subtable s = Ok b -> exists r, b = 0 :: fmt_of (kind_of s) :: r.
Proof.
  destruct s; cbn [encode_subtable kind_of fmt_of]; intros H.
  - unfold M_gsub11_encode in H. enc_steps H. injection H as <-. eexists; reflexivity.
  - unfold M_gsub12_encode in H. cbv zeta in H. enc_steps H. injection H as <-. eexists; reflexivity.
  - unfold M_gsubseq_encode in H. cbv zeta in H. enc_steps H. injection H as <-. eexists; reflexivity.
  - unfold M_gsubseq_encode in H. cbv zeta in H. enc_steps H. injection H as <-. eexists; reflexivity.
  - unfold M_gsub41_encode in H. cbv zeta in H. enc_steps H. injection H as <-. eexists; reflexivity.
  - unfold M_gsub81_encode in H. cbv zeta in H. enc_steps H. injection H as <-. eexists; reflexivity.
  - unfold M_gpos11_encode in H. cbv zeta in H. enc_steps H. injection H as <-. eexists; reflexivity.
  - unfold M_gpos12_encode in H. cbv zeta in H. enc_steps H. injection H as <-. eexists; reflexivity.
  - unfold M_gpos21_encode in H. cbv zeta in H. enc_steps H. injection H as <-. eexists; reflexivity.
  - unfold M_gpos22_encode, M_gpos22_encode_g in H. cbv zeta in H. enc_steps H. injection H as <-. eexists; reflexivity.
  - unfold M_gpos31_encode, M_gpos31_encode_g in H. cbv zeta in H. enc_steps H. injection H as <-. eexists; reflexivity.
  - unfold M_gpos41_encode, M_markbase_encode in H. cbv zeta in H. enc_steps H. injection H as <-. eexists; reflexivity.
  - discriminate H.
  - unfold M_gpos61_encode, M_markbase_encode in H. cbv zeta in H. enc_steps H. injection H as <-. eexists; reflexivity.
  - unfold M_seq1_encode in H. cbv zeta in H. enc_steps H. injection H as <-. eexists; reflexivity.
  - unfold M_seq2_encode in H. cbv zeta in H. enc_steps H. injection H as <-. eexists; reflexivity.
  - unfold M_seq3_encode in H. cbv zeta in H. enc_steps H. injection H as <-. eexists; reflexivity.
  - unfold M_ch1_encode in H. cbv zeta in H. enc_steps H. injection H as <-. eexists; reflexivity.
  - unfold M_ch2_encode in H. cbv zeta in H. enc_steps H. injection H as <-. eexists; reflexivity.
  - unfold M_ch3_encode in H. cbv zeta in H. enc_steps H. injection H as <-. eexists; reflexivity.
Qed.

(* the encoders return bytes or refuse loudly: no other outcome *)
Definition enc_class {A} (x : outcome A) : Prop := (exists a, x = Ok a) \/ x = Panic.

Lemma enc_class_ok {A} (a : A) : enc_class (Ok a).
Proof. left; eauto. Qed.
Lemma enc_class_panic {A} : enc_class (@Panic A).
Proof. right; reflexivity. Qed.
Lemma enc_class_bind {A B} (x : outcome A) (f : A -> outcome B) :
  enc_class x -> (forall a, enc_class (f a)) -> enc_class (obind x f).
Proof. intros [[a ->]| ->] Hf; cbn [obind]; [apply Hf|apply enc_class_panic]. Qed.
Lemma enc_class_if {A} (c : bool) (x y : outcome A) :
  enc_class x -> enc_class y -> enc_class (if c then x else y).
Proof. destruct c; auto. Qed.
