(* C08D/Proofs_fits.v — whatever Info.Encode returns, every 16-bit field holds
   the true value: composed from the *_refuses_or_fits theorems of C08B and
   C08C, the guards of the C08 encoders and C08's lookuplist_offsets. *)
From Coq Require Import List NArith ZArith Bool Lia.
From Common Require Import Bytes Outcome.
From Gen Require Import C08 C08D.
From C08 Require Import Model ModelCD ModelLL ModelSub ModelSub2 ModelFL ModelSL
     Proofs Proofs_sub Proofs_sub2 Proofs_sub3 Proofs_ll Proofs_ll2 Proofs_ll3 Proofs_ll4 Proofs_fl Proofs_sl.
From C08B Require Import Model Model2 Model3 Proofs_mark Proofs_g31 Proofs_g22.
From C08C Require Import ModelCtx ModelChain Proofs_seq Proofs_chain Proofs_cov3.
From C08D Require Import Model Spec Tie Proofs_head Proofs_sub Proofs_info Proofs_info2 Proofs_total Proofs_info3.
Import ListNotations.
Local Open Scope N_scope.

Definition fits (l : list N) : Prop := Forall (fun v => v <= 65535) l.

Lemma fits_app a b : fits a -> fits b -> fits (a ++ b).
Proof. intros; apply Forall_app; split; assumption. Qed.

Lemma fits_cons x l : x <= 65535 -> fits l -> fits (x :: l).
Proof. intros; constructor; assumption. Qed.

Lemma fits_lt l : Forall (fun v => v < 65536) l -> fits l.
Proof. intros H. eapply Forall_impl; [|exact H]. cbv beta. intros; lia. Qed.

Lemma fits_le_bound l b : b <= 65535 -> Forall (fun v => v <= b) l -> fits l.
Proof. intros Hb H. eapply Forall_impl; [|exact H]. cbv beta. intros; lia. Qed.

Lemma fits_lt_bound l b : b <= 65536 -> Forall (fun v => v < b) l -> fits l.
Proof. intros Hb H. eapply Forall_impl; [|exact H]. cbv beta. intros; lia. Qed.

Lemma fits_flat_map {A} (f : A -> list N) l : (forall a, In a l -> fits (f a)) -> fits (flat_map f l).
Proof.
  induction l as [|a l IH]; intros H; cbn [flat_map]; [constructor|].
  apply fits_app; [apply H; left; reflexivity|apply IH; intros; apply H; right; assumption].
Qed.

Lemma fits_map {A} (f : A -> N) l : (forall a, In a l -> f a <= 65535) -> fits (map f l).
Proof.
  induction l as [|a l IH]; intros H; cbn [map]; constructor;
    [apply H; left; reflexivity|apply IH; intros; apply H; right; assumption].
Qed.

Lemma covb_ok gl b : M_cov_encode (S_cov_table gl) = Ok b -> covb gl = b.
Proof. unfold covb, tab. intros ->. reflexivity. Qed.
Lemma covn_ok gl n : M_cov_encode_len (S_cov_table gl) = Ok n -> covn gl = n.
Proof. unfold covn, tab. intros ->. reflexivity. Qed.
Lemma lensn_ok l ls : covs_len (set_tables l) = Ok ls -> lensn l = ls.
Proof. unfold lensn. intros ->. reflexivity. Qed.

(* ---- sizes of the records of GSUB 2.1/3.1/4.1 ---- *)

Lemma seq_sizes_in (q : list N) seqs : In q seqs -> 2 + 2 * lenN q <= seq_sizes seqs.
Proof.
  induction seqs as [|s r IH]; [intros []|]. cbn [seq_sizes]. intros [->|H]; [lia|].
  specialize (IH H). lia.
Qed.

Lemma ligs_size_in (l : lig) ls : In l ls -> lig_size l <= ligs_size ls.
Proof.
  induction ls as [|x r IH]; [intros []|]. cbn [ligs_size]. intros [->|H]; [lia|].
  specialize (IH H). lia.
Qed.

Lemma sets_size_in (q : list lig) ss : In q ss -> ModelSub.set_size q <= ModelSub.sets_size ss.
Proof.
  induction ss as [|x r IH]; [intros []|]. cbn [ModelSub.sets_size]. intros [->|H]; [lia|].
  specialize (IH H). lia.
Qed.

Lemma popcount_le n : forall k fmt, popcount n k fmt <= N.of_nat n.
Proof.
  induction n as [|n IH]; intros k fmt; cbn [popcount]; [lia|].
  specialize (IH (k + 1) fmt). destruct (fbit fmt k); lia.
Qed.

Lemma vr_len_le fmt : M_vr_encode_len fmt <= 32.
Proof. unfold M_vr_encode_len. pose proof (popcount_le 16 0 fmt). lia. Qed.

Lemma pset_offs_fields f1 f2 gs : forall off offs,
  pset_offs f1 f2 gs off = Ok offs ->
  fits (pair_set_offs f1 f2 gs off) /\ fits (map (fun g : pgroup => lenN (snd g)) gs).
Proof.
  induction gs as [|g r IH]; intros off offs; cbn [pset_offs pair_set_offs map]; [split; constructor|].
  destruct ((65535 <? off) || (65535 <? lenN (snd g))) eqn:E; [discriminate|].
  destruct (pset_offs f1 f2 r _) as [tl| | |] eqn:Et; cbn [obind]; try discriminate. intros _.
  apply orb_false_iff in E. destruct E as [E1 E2]. apply N.ltb_ge in E1. apply N.ltb_ge in E2.
  destruct (IH _ _ Et) as [A B]. split; constructor; assumption.
Qed.

(* ------------------------------------------------------------------ *)
(* one subtable                                                        *)

Lemma subtable_fits s b :
  wf_subtable s = true -> encode_subtable s = Ok b -> fits (subtable_fields s).
Proof.
  destruct s; cbn [wf_subtable encode_subtable subtable_fields]; intros W E.
  - (* gsub11 *) repeat constructor. lia.
  - (* gsub12 *) unfold M_gsub12_encode in E. cbv zeta in E.
    destruct (65535 <? 6 + 2 * lenN subst) eqn:G; [discriminate|]. apply N.ltb_ge in G.
    repeat constructor; lia.
  - (* gsub21 *) unfold M_gsubseq_encode in E. cbv zeta in E.
    destruct (65535 <? 6 + 2 * lenN seqs + seq_sizes seqs) eqn:G; [discriminate|]. apply N.ltb_ge in G.
    apply fits_cons; [lia|]. apply fits_cons; [lia|]. apply fits_app.
    + eapply fits_le_bound; [|apply seq_offs_bound]. lia.
    + apply fits_map. intros q Hq. pose proof (seq_sizes_in q seqs Hq). lia.
  - (* gsub31 *) unfold M_gsubseq_encode in E. cbv zeta in E.
    destruct (65535 <? 6 + 2 * lenN seqs + seq_sizes seqs) eqn:G; [discriminate|]. apply N.ltb_ge in G.
    apply fits_cons; [lia|]. apply fits_cons; [lia|]. apply fits_app.
    + eapply fits_le_bound; [|apply seq_offs_bound]. lia.
    + apply fits_map. intros q Hq. pose proof (seq_sizes_in q seqs Hq). lia.
  - (* gsub41 *) change (tab ?x) with (S_cov_table x) in E. unfold M_gsub41_encode in E. cbv zeta in E.
    destruct (M_cov_encode (S_cov_table gl)); cbn [obind] in E; try discriminate.
    destruct (65535 <? 6 + 2 * lenN sets + ModelSub.sets_size sets) eqn:G; [discriminate|]. apply N.ltb_ge in G.
    apply fits_cons; [lia|]. apply fits_cons; [lia|]. apply fits_app.
    + eapply fits_lt_bound; [|apply set_offs_bound]. lia.
    + apply fits_flat_map. intros q Hq. pose proof (sets_size_in q sets Hq) as Hs.
      unfold ModelSub.set_size in Hs.
      apply fits_cons; [lia|]. apply fits_app.
      * eapply fits_lt_bound; [|apply lig_offs_bound]. lia.
      * apply fits_map. intros l Hl. pose proof (ligs_size_in l q Hl). unfold lig_size in *. lia.
  - (* gsub81 *)
    destruct (gsub81_refuses_or_fits (tab gl) (map tab bk) (map tab la) subst) as [P|(b' & n & lb & ll & _ & Hn & Hb & Hl & F)];
      [rewrite P in E; discriminate|].
    rewrite (covn_ok gl n Hn), (lensn_ok bk lb Hb), (lensn_ok la ll Hl).
    rewrite !map_length_lenN in F. apply fits_lt. exact F.
  - (* gpos11 *) pose proof (vr_len_le (M_vr_format adj)). destruct (vr_format_facts adj) as [F _].
    repeat constructor; lia.
  - (* gpos12 *) change (tab ?x) with (S_cov_table x) in E. unfold M_gpos12_encode in E. cbv zeta in E.
    destruct (M_cov_encode (S_cov_table gl)); cbn [obind] in E; try discriminate.
    destruct ((65535 <? _) || (65535 <? lenN adj)) eqn:G; [discriminate|].
    apply orb_false_iff in G. destruct G as [G1 G2]. apply N.ltb_ge in G1. apply N.ltb_ge in G2.
    destruct (vr_union_facts adj) as [F _]. repeat constructor; first [lia|exact G1].
  - (* gpos21 *) unfold M_gpos21_encode in E. cbv zeta in E.
    destruct (M_cov_encode (S_cov_table (map fst gs))) as [cb| | |] eqn:Ec; cbn [obind] in E; try discriminate.
    destruct (pset_offs _ _ gs _) as [offs| | |] eqn:Eo; cbn [obind] in E; try discriminate.
    rewrite (covb_ok _ cb Ec).
    destruct (pset_offs_fields _ _ gs _ _ Eo) as [A B]. destruct (vf_lt gs) as [V1 V2].
    assert (Hcnt : 10 + 2 * lenN gs <= 65535).
    { destruct gs as [|g r]; [cbn; lia|]. cbn [pair_set_offs] in A. apply Forall_cons_iff in A. destruct A as [A _]. lia. }
    apply fits_app; [repeat constructor; lia|]. apply fits_app; assumption.
  - (* gpos22 *)
    destruct (gpos22_refuses_or_fits gl cd1 cd2 adj W) as [P|(cb & b' & Hc & _ & F)]; [rewrite P in E; discriminate|].
    rewrite (covb_ok gl cb Hc). exact F.
  - (* gpos31 *) change (tab ?x) with (S_cov_table x) in E.
    destruct (gpos31_refuses_or_fits gl recs W) as [P|(b' & _ & F)]; [rewrite P in E; discriminate|]. exact F.
  - (* gpos41 *) change (tab ?x) with (S_cov_table x) in E.
    destruct (markbase_refuses_or_fits glm glb marks base W) as [P|(mcb & bcb & b' & H1 & H2 & _ & F)];
      [unfold M_gpos41_encode in E; rewrite P in E; discriminate|].
    rewrite (covb_ok glm mcb H1), (covb_ok glb bcb H2). exact F.
  - constructor.
  - (* gpos61 *) change (tab ?x) with (S_cov_table x) in E.
    destruct (markbase_refuses_or_fits glm glb marks base W) as [P|(mcb & bcb & b' & H1 & H2 & _ & F)];
      [unfold M_gpos61_encode in E; rewrite P in E; discriminate|].
    rewrite (covb_ok glm mcb H1), (covb_ok glb bcb H2). exact F.
  - (* seq1 *) change (tab ?x) with (S_cov_table x) in E.
    destruct (seq1_refuses_or_fits (S_cov_table gl) rules) as [P|(b' & _ & F)]; [rewrite P in E; discriminate|].
    apply fits_lt. exact F.
  - (* seq2 *) change (tab ?x) with (S_cov_table x) in E.
    destruct (seq2_refuses_or_fits (S_cov_table gl) cls rules) as [P|(b' & n & _ & Hn & F)]; [rewrite P in E; discriminate|].
    rewrite (covn_ok gl n Hn). apply fits_lt. exact F.
  - (* seq3 *)
    assert (Hne : inp <> []).
    { intros ->. unfold seq3_wf in W. cbn in W. discriminate W. }
    destruct (seq3_refuses_or_fits inp acts Hne) as [P|(b' & lens & _ & Hl & F)]; [rewrite P in E; discriminate|].
    rewrite (lensn_ok inp lens Hl). apply fits_lt. exact F.
  - (* ch1 *) change (tab ?x) with (S_cov_table x) in E.
    destruct (ch1_refuses_or_fits (S_cov_table gl) rules) as [P|(b' & n & _ & Hn & F)]; [rewrite P in E; discriminate|].
    rewrite (covn_ok gl n Hn). apply fits_lt. exact F.
  - (* ch2 *) change (tab ?x) with (S_cov_table x) in E.
    destruct (ch2_refuses_or_fits (S_cov_table gl) cb ci cl rules) as [P|(b' & n & _ & Hn & F)]; [rewrite P in E; discriminate|].
    rewrite (covn_ok gl n Hn). apply fits_lt. exact F.
  - (* ch3 *)
    assert (Hne : inp <> []).
    { intros ->. unfold ch3_wf in W. cbn in W. discriminate W. }
    destruct (ch3_refuses_or_fits bk inp la acts Hne) as [P|(b' & lb & li & ll & _ & H1 & H2 & H3 & F)];
      [rewrite P in E; discriminate|].
    rewrite (lensn_ok bk lb H1), (lensn_ok inp li H2), (lensn_ok la ll H3). apply fits_lt. exact F.
Qed.

(* ------------------------------------------------------------------ *)
(* feature list, script list                                            *)

Lemma feature_fits fl b : M_fl_encode fl = Ok b -> fits (feature_fields fl).
Proof.
  unfold M_fl_encode, feature_fields. cbv zeta.
  match goal with |- context [existsb ?p fl] => destruct (existsb p fl) eqn:E1 end; [discriminate|].
  destruct (65535 <? last (fl_offs fl (2 + 6 * lenN fl)) 0) eqn:E2; [discriminate|]. intros _.
  apply N.ltb_ge in E2.
  assert (Hoffs : fits (fl_offs fl (2 + 6 * lenN fl)) /\ lenN fl <= 65535).
  { destruct (fl_offs_le_last fl (2 + 6 * lenN fl) 0) as [H| ->]; [|split; [constructor|cbn; lia]].
    split; [eapply Forall_impl; [|exact H]; cbv beta; intros; lia|].
    destruct fl as [|f r]; [cbn; lia|]. cbn [fl_offs] in H, E2. apply Forall_cons_iff in H. destruct H as [[_ H] _]. lia. }
  destruct Hoffs as [Ho Hn].
  apply fits_cons; [exact Hn|]. apply fits_app; [exact Ho|].
  apply fits_map. intros f Hf.
  destruct (65535 <? lenN (snd f)) eqn:E; [|apply N.ltb_ge in E; exact E].
  rewrite (proj2 (existsb_exists _ fl)) in E1; [discriminate|]. exists f; split; assumption.
Qed.

Lemma script_tables_inv es : forall tabs,
  script_tables es = Ok tabs -> forall e, In e es -> exists t, script_table e = Ok t.
Proof.
  induction es as [|e0 es IH]; intros tabs; cbn [script_tables]; [intros _ e []|].
  destruct (script_table e0) as [t0| | |] eqn:E0; cbn [obind]; try discriminate.
  destruct (script_tables es) as [tl| | |] eqn:Et; cbn [obind]; try discriminate.
  intros _ e [<-|H]; [eauto|]. eapply IH; [reflexivity|exact H].
Qed.

Lemma too_many_false e : too_many e = false ->
  forall x : item, In x (items_of e) -> lenN (snd (snd x)) <= 65535.
Proof.
  unfold too_many, items_of. intros H x Hx. apply orb_false_iff in H. destruct H as [H1 H2].
  apply in_app_or in Hx. destruct Hx as [Hx|Hx].
  - destruct (e_def e) as [f|]; [|destruct Hx]. destruct Hx as [<-|[]]. cbn [snd]. apply N.ltb_ge. exact H1.
  - destruct (65535 <? lenN (snd (snd x))) eqn:E; [|apply N.ltb_ge in E; exact E].
    rewrite (proj2 (existsb_exists _ (e_langs e))) in H2; [discriminate|]. exists x; split; assumption.
Qed.

Lemma script_fits es b : M_sl_encode es = Ok b -> fits (script_fields es).
Proof.
  unfold M_sl_encode, script_fields. cbv zeta.
  destruct (script_records es (2 + 6 * lenN es)) as [recs| | |] eqn:Er; cbn [obind]; try discriminate.
  destruct (script_tables es) as [tabs| | |] eqn:Et; cbn [obind]; try discriminate. intros _.
  destruct (script_records_ok es _ _ Er) as (_ & Hoffs & Hmany).
  apply fits_cons.
  { destruct es as [|e r]; [cbn; lia|]. cbn [soffs] in Hoffs. apply Forall_cons_iff in Hoffs. destruct Hoffs as [H _]. lia. }
  apply fits_app; [exact Hoffs|].
  apply fits_flat_map. intros e He.
  destruct (script_tables_inv es tabs Et e He) as [t Ht].
  unfold script_table in Ht. cbv zeta in Ht.
  destruct (lang_records (e_langs e) _) as [lr| | |] eqn:El; cbn [obind] in Ht; try discriminate.
  destruct (lang_records_ok _ _ _ El) as (_ & Hlo & _).
  assert (Hn : 4 + 6 * lenN (e_langs e) <= 65535).
  { destruct (e_langs e) as [|x r]; [cbn; lia|]. cbn [loffs] in Hlo. apply Forall_cons_iff in Hlo. destruct Hlo as [H _]. lia. }
  apply fits_cons; [destruct (e_def e); lia|]. apply fits_cons; [lia|].
  apply fits_app; [exact Hlo|].
  apply fits_map. apply too_many_false. exact (proj1 (Forall_forall _ _) Hmany e He).
Qed.

(* ------------------------------------------------------------------ *)
(* lookup list                                                         *)

Lemma ll_fields_fits ll extT L b :
  M_ll_layout ll = Ok L -> emit ll extT L L = Ok b ->
  lenN ll <= 65535 /\ fits (ll_fields L 0 ll).
Proof.
  intros HL He.
  destruct (layout_guards ll L HL) as (Hn & _ & Hsubs).
  pose proof c08_maxLookups_le. pose proof c08_maxSubtables_le.
  split; [unfold lenN; lia|].
  assert (G : forall lst k, (forall j l, nth_error lst j = Some l -> nth_error ll (k + j) = Some l) ->
                            fits (ll_fields L (N.of_nat k) lst)).
  { induction lst as [|l lst IH]; intros k Hk; cbn [ll_fields]; [constructor|].
    apply fits_app.
    - pose proof (Hk 0%nat l eq_refl) as Hl. rewrite Nat.add_0_r in Hl.
      destruct (ll_offsets ll extT L b [] [] HL He k l Hl) as (T & HT & HTfit & Hs).
      unfold lookup_fields. rewrite HT. cbn [pos_or0].
      apply fits_cons; [exact HTfit|].
      apply fits_cons.
      { pose proof (proj1 (Forall_forall _ _) Hsubs l (nth_error_In _ _ Hl)) as Hq. cbv beta in Hq. lia. }
      apply fits_map. intros j Hj. apply in_map_iff in Hj. destruct Hj as (jn & <- & Hjn).
      apply in_seq in Hjn.
      destruct (nth_error (lk_subs l) jn) as [blob|] eqn:Eb;
        [|apply nth_error_None in Eb; lia].
      destruct (Hs jn blob Eb) as [(Hno & Sp & HS & _ & Hle & _)|(Ep & Sp & HE & _ & _ & Hle & _)].
      + rewrite Hno, HS. cbn [pos_or0]. exact Hle.
      + rewrite HE. exact Hle.
    - replace (N.of_nat k + 1) with (N.of_nat (S k)) by lia.
      apply IH. intros j l' Hj. replace (S k + j)%nat with (k + S j)%nat by lia. apply Hk. exact Hj. }
  apply (G ll 0%nat). intros j l Hj. exact Hj.
Qed.

(* ------------------------------------------------------------------ *)
(* the whole table                                                     *)

Lemma blobs_subs_fit t : forall ll blobs,
  forallb (wf_lookup t) ll = true -> Forall2 blobs_of ll blobs ->
  fits (flat_map subtable_fields (all_subs ll)).
Proof.
  intros ll blobs W HB. unfold all_subs. apply fits_flat_map. intros s Hs0.
  apply in_flat_map in Hs0. destruct Hs0 as (l & Hl & Hs).
  rewrite forallb_forall in W. pose proof (wf_lookup_subs t l s (W l Hl) Hs) as Ws.
  (* the blob of s *)
  assert (exists b, encode_subtable s = Ok b) as [b Eb].
  { clear W Ws. induction HB as [|l0 bs ll blobs H0 _ IH]; [destruct Hl|].
    destruct Hl as [->|Hl]; [|apply IH; exact Hl].
    unfold blobs_of in H0. clear IH. induction H0 as [|s0 b0 subs bs Hs0 _ IH0]; [destruct Hs|].
    destruct Hs as [->|Hs]; [eauto|apply IH0; exact Hs]. }
  exact (subtable_fits s b Ws Eb).
Qed.

Lemma info_fits_l conv_ok t es fl ll b :
  wf_info conv_ok t {| i_scripts := Some es; i_features := Some fl; i_lookups := Some ll |} = true ->
  M_info_encode {| i_scripts := Some es; i_features := Some fl; i_lookups := Some ll |} = Ok b ->
  exists slb flb blobs L,
    M_sl_encode es = Ok slb /\ M_fl_encode fl = Ok flb /\
    Forall2 blobs_of ll blobs /\ M_ll_layout (abs_lookups ll blobs) = Ok L /\
    fits (info_fields es fl ll 10 (10 + lenN slb) (10 + lenN slb + lenN flb) (abs_lookups ll blobs) L).
Proof.
  intros W E.
  destruct (info_sizes_l conv_ok t es fl ll b W E)
    as (slb & flb & llb & blobs & L & Esl & Efl & HA & HL & Hem & _ & _ & _ & G1 & G2 & _).
  cbn [wf_info i_scripts i_features i_lookups] in W.
  repeat (apply andb_true_iff in W; destruct W as [W ?W]).
  assert (HB : Forall2 blobs_of ll blobs).
  { unfold blobs_agree in HA. clear -HA. induction HA as [|l bs ll blobs H _ IH]; constructor; [|exact IH].
    unfold blobs_of. induction H as [|s sb subs bs [Hs _] _ IH']; constructor; assumption. }
  exists slb, flb, blobs, L. repeat split; try assumption.
  destruct (ll_fields_fits _ _ L llb HL Hem) as [Hn Hf].
  unfold info_fields. apply fits_app; [repeat constructor; lia|].
  apply fits_app; [exact (script_fits es slb Esl)|].
  apply fits_app; [exact (feature_fits fl flb Efl)|].
  apply fits_cons; [exact Hn|]. apply fits_app; [exact Hf|].
  exact (blobs_subs_fit t ll blobs W0 HB).
Qed.
