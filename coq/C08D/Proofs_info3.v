(* C08D/Proofs_info3.v — whole tables: sizes and offsets, totality of
   Info.Encode, what it refuses, extension records, nil lists. *)
From Coq Require Import List NArith ZArith Bool Lia.
From Common Require Import Bytes Outcome.
From Gen Require Import C08 C08D.
From C08 Require Import Model ModelCD ModelLL ModelSub ModelSub2 ModelFL ModelSL
     Proofs Proofs_sub Proofs_ll Proofs_ll2 Proofs_ll3 Proofs_ll4 Proofs_fl Proofs_sl.
From C08B Require Import Model Model2 Model3.
From C08C Require Import ModelCtx ModelChain.
From C08D Require Import Model Spec Tie Proofs_head Proofs_sub Proofs_info Proofs_info2 Proofs_total.
Import ListNotations.
Local Open Scope N_scope.

(* ------------------------------------------------------------------ *)
(* sub_blob, omapM                                                     *)

Lemma sub_blob_full s b :
  sub_blob s = Ok b -> encode_subtable s = Ok b /\ encodeLen_subtable s = Ok (lenN b).
Proof.
  unfold sub_blob. destruct (encodeLen_subtable s) as [n| | |]; cbn [obind]; try discriminate.
  destruct (encode_subtable s) as [b'| | |]; cbn [obind]; try discriminate.
  destruct (n =? lenN b') eqn:E; [|discriminate]. intros H. apply ok_inj in H. subst b'.
  apply N.eqb_eq in E. subst n. split; reflexivity.
Qed.

Lemma sub_blob_ec s : wf_subtable s = true -> enc_class (sub_blob s).
Proof.
  intros W. unfold sub_blob.
  destruct (encode_subtable_ec s) as [[b E]|E].
  - rewrite (subtable_len_agrees s b W E), E. cbn [obind]. rewrite N.eqb_refl. apply enc_class_ok.
  - rewrite E. destruct (encodeLen_subtable_ec s) as [[n ->]| ->]; cbn [obind]; apply enc_class_panic.
Qed.

Lemma sub_blob_panic s : wf_subtable s = true -> sub_blob s = Panic -> encode_subtable s = Panic.
Proof.
  intros W H. destruct (encode_subtable_ec s) as [[b E]|E]; [|exact E].
  rewrite (sub_blob_ok s b W E) in H. discriminate.
Qed.

Lemma omapM_ec {A B} (f : A -> outcome B) l :
  (forall a, In a l -> enc_class (f a)) -> enc_class (omapM f l).
Proof.
  induction l as [|a l IH]; intros H; cbn [omapM]; [apply enc_class_ok|].
  apply enc_class_bind; [apply H; left; reflexivity|intros b].
  apply enc_class_bind; [apply IH; intros; apply H; right; assumption|intros]. apply enc_class_ok.
Qed.

Lemma omapM_panic {A B} (f : A -> outcome B) l :
  (forall a, In a l -> enc_class (f a)) -> omapM f l = Panic -> exists a, In a l /\ f a = Panic.
Proof.
  induction l as [|a l IH]; intros H; cbn [omapM]; [discriminate|].
  destruct (H a (or_introl eq_refl)) as [[b Eb]|Eb].
  - rewrite Eb. cbn [obind].
    destruct (omapM f l) as [tl| | |] eqn:Et; cbn [obind]; try discriminate.
    intros _. destruct (IH (fun x Hx => H x (or_intror Hx)) eq_refl) as (x & Hx & Ex).
    exists x. split; [right; exact Hx|exact Ex].
  - intros _. exists a. split; [left; reflexivity|exact Eb].
Qed.

Lemma wf_lookup_subs t l s :
  wf_lookup t l = true -> In s (lc_subs l) -> wf_subtable s = true.
Proof.
  intros W Hs. destruct (wf_lookup_parts t l W) as (_ & _ & _ & _ & Wsubs).
  rewrite forallb_forall in Wsubs. specialize (Wsubs s Hs). apply andb_true_iff in Wsubs. tauto.
Qed.

Lemma blobs_ec t ll :
  forallb (wf_lookup t) ll = true ->
  enc_class (omapM (fun l => omapM sub_blob (lc_subs l)) ll).
Proof.
  intros W. apply omapM_ec. intros l Hl. apply omapM_ec. intros s Hs. apply sub_blob_ec.
  rewrite forallb_forall in W. exact (wf_lookup_subs t l s (W l Hl) Hs).
Qed.

(* ------------------------------------------------------------------ *)
(* Info.Encode: bytes, a loud refusal, or a lookup list of 4 GiB         *)

Lemma ll_encode_c_class t ll :
  forallb (wf_lookup t) ll = true ->
  enc_class (M_ll_encode_c ll) \/ (M_ll_encode_c ll = OutOfFuel /\ ll_too_big ll).
Proof.
  intros W. unfold M_ll_encode_c.
  destruct (blobs_ec t ll W) as [[blobs E]|E]; rewrite E; cbn [obind]; [|left; apply enc_class_panic].
  destruct (ll_encode_class (abs_lookups ll blobs) (ext_type_of ll)) as [H|[H T]]; [left; exact H|].
  right. split; [exact H|]. exists blobs. split; [apply blobs_of_omapM; exact E|exact T].
Qed.

Lemma info_encode_class conv_ok t I :
  wf_info conv_ok t I = true ->
  enc_class (M_info_encode I) \/
  (M_info_encode I = OutOfFuel /\ exists ll, i_lookups I = Some ll /\ ll_too_big ll).
Proof.
  destruct I as [[es|] [fl|] [ll|]]; cbn [wf_info i_scripts i_features i_lookups]; try discriminate.
  intros W. repeat (apply andb_true_iff in W; destruct W as [W ?W]).
  unfold M_info_encode. cbn [i_scripts i_features i_lookups opt_enc].
  destruct (sl_encode_ec es) as [[slb ->]| ->]; cbn [obind]; [|left; apply enc_class_panic].
  destruct (fl_encode_ec fl) as [[flb ->]| ->]; cbn [obind]; [|left; apply enc_class_panic].
  destruct (ll_encode_c_class t ll W0) as [[[llb ->]| ->]|[-> T]]; cbn [obind].
  - left. destruct (hdr_offsets _ _ _) as [[so fo] lo]. apply enc_class_if; [apply enc_class_panic|apply enc_class_ok].
  - left. apply enc_class_panic.
  - right. split; [reflexivity|]. exists ll. split; [reflexivity|exact T].
Qed.

(* what a refusal of Info.Encode is: the refusal of one of the lists, of a
   subtable encoder, of the lookup-list layout, or the header guard *)
Lemma info_refusal conv_ok t es fl ll :
  wf_info conv_ok t {| i_scripts := Some es; i_features := Some fl; i_lookups := Some ll |} = true ->
  M_info_encode {| i_scripts := Some es; i_features := Some fl; i_lookups := Some ll |} = Panic ->
  M_sl_encode es = Panic \/ M_fl_encode fl = Panic \/
  (exists l s, In l ll /\ In s (lc_subs l) /\ encode_subtable s = Panic) \/
  (exists blobs, Forall2 blobs_of ll blobs /\ M_ll_encode (abs_lookups ll blobs) (ext_type_of ll) = Panic) \/
  (exists slb flb, M_sl_encode es = Ok slb /\ M_fl_encode fl = Ok flb /\
                   (65535 < 10 + lenN slb \/ 65535 < 10 + lenN slb + lenN flb)).
Proof.
  cbn [wf_info i_scripts i_features i_lookups].
  intros W. repeat (apply andb_true_iff in W; destruct W as [W ?W]).
  unfold M_info_encode. cbn [i_scripts i_features i_lookups opt_enc].
  destruct (sl_encode_ec es) as [[slb Esl]|Esl]; rewrite Esl; cbn [obind]; [|auto].
  destruct (fl_encode_ec fl) as [[flb Efl]|Efl]; rewrite Efl; cbn [obind]; [|auto].
  unfold M_ll_encode_c.
  destruct (blobs_ec t ll W0) as [[blobs E]|E]; rewrite E; cbn [obind].
  - destruct (M_ll_encode _ _) as [llb| | |] eqn:Ell; cbn [obind]; try discriminate.
    + unfold hdr_offsets. cbn [olen ooff].
      change c08d_maxFeatureListOffset with 65535. change c08d_maxLookupListOffset with 65535.
      destruct ((65535 <? 10 + lenN slb) || (65535 <? 10 + lenN slb + lenN flb)) eqn:G; [|discriminate].
      intros _. right; right; right; right. exists slb, flb. repeat split.
      apply orb_true_iff in G. destruct G as [G|G]; apply N.ltb_lt in G; auto.
    + intros _. right; right; right; left. exists blobs. split; [apply blobs_of_omapM; exact E|exact Ell].
  - intros _. right; right; left.
    assert (C : forall l, In l ll -> enc_class (omapM sub_blob (lc_subs l))).
    { intros l Hl. apply omapM_ec. intros s Hs. apply sub_blob_ec.
      rewrite forallb_forall in W0. exact (wf_lookup_subs t l s (W0 l Hl) Hs). }
    destruct (omapM_panic _ ll C E) as (l & Hl & El).
    assert (C2 : forall s, In s (lc_subs l) -> enc_class (sub_blob s)).
    { intros s Hs. apply sub_blob_ec. rewrite forallb_forall in W0. exact (wf_lookup_subs t l s (W0 l Hl) Hs). }
    destruct (omapM_panic _ _ C2 El) as (s & Hs & Es).
    exists l, s. repeat split; try assumption. apply sub_blob_panic; [|exact Es].
    rewrite forallb_forall in W0. exact (wf_lookup_subs t l s (W0 l Hl) Hs).
Qed.

(* ------------------------------------------------------------------ *)
(* sizes and offsets                                                   *)

Lemma emit_total ll extT L : forall cs b,
  Forall (chunk_wf ll) cs -> emit ll extT L cs = Ok b -> lenN b = sum_sizes cs.
Proof.
  induction cs as [|c cs IH]; intros b W; cbn [emit sum_sizes].
  - intros H. apply ok_inj in H. now subst b.
  - apply Forall_cons_iff in W. destruct W as [Wc W].
    destruct (chunk_bytes ll extT L c) as [bc| | |] eqn:Ec; cbn [obind]; try discriminate.
    destruct (emit ll extT L cs) as [tl| | |] eqn:Et; cbn [obind]; try discriminate.
    intros H. apply ok_inj in H. subst b. rewrite lenN_app, (IH tl W eq_refl).
    pose proof (chunk_bytes_size ll extT L c bc Wc Ec) as Hs. unfold blen in Hs. unfold lenN. lia.
Qed.

Lemma blobs_agree_omapM ll blobs :
  omapM (fun l => omapM sub_blob (lc_subs l)) ll = Ok blobs -> blobs_agree ll blobs.
Proof.
  intros H. apply omapM_Forall2 in H. unfold blobs_agree.
  induction H as [|l bs ll blobs Hl _ IH]; constructor; [|exact IH].
  apply omapM_Forall2 in Hl.
  induction Hl as [|s b subs bs Hs _ IH']; constructor; [apply sub_blob_full; exact Hs|exact IH'].
Qed.

Lemma info_sizes_l conv_ok t es fl ll b :
  wf_info conv_ok t {| i_scripts := Some es; i_features := Some fl; i_lookups := Some ll |} = true ->
  M_info_encode {| i_scripts := Some es; i_features := Some fl; i_lookups := Some ll |} = Ok b ->
  exists slb flb llb blobs L,
    M_sl_encode es = Ok slb /\ M_fl_encode fl = Ok flb /\
    blobs_agree ll blobs /\
    M_ll_layout (abs_lookups ll blobs) = Ok L /\
    emit (abs_lookups ll blobs) (ext_type_of ll) L L = Ok llb /\
    lenN llb = sum_sizes L /\
    b = hdr 10 (10 + lenN slb) (10 + lenN slb + lenN flb) ++ slb ++ flb ++ llb /\
    lenN b = 10 + lenN slb + lenN flb + lenN llb /\
    10 + lenN slb <= 65535 /\ 10 + lenN slb + lenN flb <= 65535 /\
    offsets_true (abs_lookups ll blobs) L b (10 + lenN slb + lenN flb).
Proof.
  intros _.
  unfold M_info_encode. cbn [i_scripts i_features i_lookups opt_enc].
  destruct (M_sl_encode es) as [slb| | |] eqn:Esl; cbn [obind]; try discriminate.
  destruct (M_fl_encode fl) as [flb| | |] eqn:Efl; cbn [obind]; try discriminate.
  unfold M_ll_encode_c.
  destruct (omapM _ ll) as [blobs| | |] eqn:EB; cbn [obind]; try discriminate.
  unfold M_ll_encode.
  destruct (M_ll_layout (abs_lookups ll blobs)) as [L| | |] eqn:HL; cbn [obind]; try discriminate.
  destruct (emit _ _ L L) as [llb| | |] eqn:Eem; cbn [obind]; try discriminate.
  unfold hdr_offsets. cbn [olen ooff obytes].
  change c08d_maxFeatureListOffset with 65535. change c08d_maxLookupListOffset with 65535.
  destruct ((65535 <? 10 + lenN slb) || (65535 <? 10 + lenN slb + lenN flb)) eqn:G; [discriminate|].
  apply orb_false_iff in G. destruct G as [G1 G2]. apply N.ltb_ge in G1. apply N.ltb_ge in G2.
  intros H. apply ok_inj in H. subst b.
  change ([0; 1; 0; 0] ++ be16 10 ++ be16 (10 + lenN slb) ++ be16 (10 + lenN slb + lenN flb) ++
          slb ++ flb ++ llb)
    with (hdr 10 (10 + lenN slb) (10 + lenN slb + lenN flb) ++ slb ++ flb ++ llb).
  exists slb, flb, llb, blobs, L.
  split; [reflexivity|]. split; [reflexivity|]. split; [apply blobs_agree_omapM; exact EB|].
  split; [exact HL|]. split; [exact Eem|].
  split; [apply (emit_total _ _ L L llb (layout_wf _ L (layout_shape_of _ L HL)) Eem)|].
  split; [reflexivity|].
  split; [rewrite !lenN_app, hdr_lenN; lia|].
  split; [exact G1|]. split; [exact G2|].
  intros k l Hk.
  pose proof (ll_offsets (abs_lookups ll blobs) (ext_type_of ll) L llb
                (hdr 10 (10 + lenN slb) (10 + lenN slb + lenN flb) ++ slb ++ flb) [] HL Eem k l Hk) as O.
  rewrite app_nil_r in O.
  replace ((hdr 10 (10 + lenN slb) (10 + lenN slb + lenN flb) ++ slb ++ flb) ++ llb)
    with (hdr 10 (10 + lenN slb) (10 + lenN slb + lenN flb) ++ slb ++ flb ++ llb) in O
    by (now rewrite <- !app_assoc).
  replace (N.of_nat (length (hdr 10 (10 + lenN slb) (10 + lenN slb + lenN flb) ++ slb ++ flb)))
    with (10 + lenN slb + lenN flb) in O.
  2:{ change (N.of_nat (length ?x)) with (lenN x). rewrite !lenN_app, hdr_lenN. lia. }
  exact O.
Qed.

(* ------------------------------------------------------------------ *)
(* nil lists                                                           *)

Lemma info_read_hdr0 conv_ok t so fo lo rest :
  so < 65536 -> fo < 65536 -> lo < 65536 -> so = 0 \/ lo = 0 ->
  M_info_read conv_ok t (hdr so fo lo ++ rest) = Ok empty_obs.
Proof.
  intros Hs Hf Hl H0. unfold hdr, M_info_read. cbn [app be16].
  rewrite !w16_be16_eq by assumption.
  change (w16 0 1) with 1. change (w16 0 0) with 0.
  change (negb (1 =? c08d_majorVersion) || (c08d_maxMinorVersion <? 0)) with false.
  cbn [N.eqb obind].
  replace ((so =? 0) || (lo =? 0)) with true; [reflexivity|].
  symmetry. apply orb_true_iff. destruct H0 as [->| ->]; [left|right]; reflexivity.
Qed.

(* a nil ScriptList or LookupList: whatever else the Info holds, the table
   reads back as the empty Info *)
Lemma info_nil_reads_empty conv_ok t I b :
  i_scripts I = None \/ i_lookups I = None -> M_info_encode I = Ok b ->
  M_info_read conv_ok t b = Ok empty_obs.
Proof.
  intros Hnil. unfold M_info_encode.
  destruct (opt_enc M_sl_encode (i_scripts I)) as [sl| | |] eqn:Esl; cbn [obind]; try discriminate.
  destruct (opt_enc M_fl_encode (i_features I)) as [fl| | |] eqn:Efl; cbn [obind]; try discriminate.
  destruct (opt_enc M_ll_encode_c (i_lookups I)) as [ll| | |] eqn:Ell; cbn [obind]; try discriminate.
  unfold hdr_offsets.
  change c08d_maxFeatureListOffset with 65535. change c08d_maxLookupListOffset with 65535.
  destruct ((65535 <? ooff fl (10 + olen sl)) || (65535 <? ooff ll (10 + olen sl + olen fl))) eqn:G; [discriminate|].
  apply orb_false_iff in G. destruct G as [G1 G2]. apply N.ltb_ge in G1. apply N.ltb_ge in G2.
  intros H. apply ok_inj in H. subst b.
  change ([0; 1; 0; 0] ++ be16 (ooff sl 10) ++ be16 (ooff fl (10 + olen sl)) ++
          be16 (ooff ll (10 + olen sl + olen fl)) ++ obytes sl ++ obytes fl ++ obytes ll)
    with (hdr (ooff sl 10) (ooff fl (10 + olen sl)) (ooff ll (10 + olen sl + olen fl)) ++
          obytes sl ++ obytes fl ++ obytes ll).
  apply info_read_hdr0; try lia.
  - destruct sl; cbn [ooff]; lia.
  - destruct Hnil as [Hn|Hn]; rewrite Hn in *; cbn [opt_enc] in *.
    + apply ok_inj in Esl. subst sl. left; reflexivity.
    + apply ok_inj in Ell. subst ll. right; reflexivity.
Qed.
