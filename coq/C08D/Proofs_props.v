(* C08D/Proofs_props.v — the lemmas in the form Props.v states them. *)
From Coq Require Import List NArith ZArith Bool Lia.
From Common Require Import Bytes Outcome.
From Gen Require Import C08 C08D.
From C08 Require Import Model ModelCD ModelLL ModelSub ModelSub2 ModelFL ModelSL
     Proofs Proofs_sub Proofs_ll Proofs_ll2 Proofs_ll3 Proofs_ll4.
From C08B Require Import Model Model2 Model3.
From C08C Require Import ModelCtx ModelChain.
From C08D Require Import Model Spec Tie Proofs_head Proofs_sub Proofs_info Proofs_info2 Proofs_total
     Proofs_info3 Proofs_fits.
Import ListNotations.
Local Open Scope N_scope.

Lemma subtable_read_back t lt s b pre post :
  wf_subtable s = true -> sub_fits t lt s = true -> encode_subtable s = Ok b ->
  read_subtable t (pre ++ b ++ post) (lenN pre) lt = Ok (normal_subtable s).
Proof.
  intros W F E. apply (read_back_subtable t lt s b); try assumption.
  exists post. apply seek_app.
Qed.

Lemma subtable_refuses_or_fits_l s :
  wf_subtable s = true ->
  encode_subtable s = Panic \/
  exists b, encode_subtable s = Ok b /\ Forall (fun v => v <= 65535) (subtable_fields s).
Proof.
  intros W. destruct (encode_subtable_ec s) as [[b E]|E]; [right|left; exact E].
  exists b. split; [exact E|exact (subtable_fits s b W E)].
Qed.

Lemma subtable_encode_total_l s :
  ((exists b, encode_subtable s = Ok b) \/ encode_subtable s = Panic) /\
  ((exists n, encodeLen_subtable s = Ok n) \/ encodeLen_subtable s = Panic).
Proof. split; [apply encode_subtable_ec|apply encodeLen_subtable_ec]. Qed.

(* the reader of a lookup type that is not the extension type never returns
   an extension record *)
Lemma read_any_not_ext t data pos lt tp off :
  lt <> ext_of t -> read_subtable_any t data pos lt <> Ok (SRExt tp off).
Proof.
  intros Hlt. unfold read_subtable_any.
  destruct (seek data pos) as [|a [|b r]]; try discriminate.
  destruct (dispatch t lt (w16 a b)) as [[k|]| | |] eqn:D; cbn [obind]; try discriminate.
  assert (k <> RExt) by (intros ->; exact (dispatch_not_ext t lt _ Hlt D)).
  destruct k; cbn [run_reader]; try congruence;
    repeat match goal with
    | |- obind ?x _ <> _ => destruct x as [v| | |]; cbn [obind]; try discriminate
    | |- (let '(_, _) := ?v in _) <> _ => destruct v
    end; discriminate.
Qed.

Lemma info_roundtrip_canonical_l conv_ok t I b :
  wf_info conv_ok t I = true -> normal_info I = I -> M_info_encode I = Ok b ->
  M_info_read conv_ok t b = Ok (obs_of I).
Proof. intros W N E. rewrite <- N. exact (info_roundtrip_l conv_ok t I b W E). Qed.

(* a list that had to be converted to extension subtables reads back as the
   original list: the lookup types are the original ones, the subtables the
   (normal forms of the) original subtables *)
Lemma info_extension_transparent_l conv_ok t es fl ll b :
  wf_info conv_ok t {| i_scripts := Some es; i_features := Some fl; i_lookups := Some ll |} = true ->
  M_info_encode {| i_scripts := Some es; i_features := Some fl; i_lookups := Some ll |} = Ok b ->
  exists blobs L llb,
    Forall2 blobs_of ll blobs /\ M_ll_layout (abs_lookups ll blobs) = Ok L /\
    emit (abs_lookups ll blobs) (ext_type_of ll) L L = Ok llb /\
    (has_ext L = true ->
     ext_type_of ll = ext_of t /\
     exists obs, M_info_read conv_ok t b = Ok obs /\ o_lookups obs = Some (map norm_lookup ll) /\
                 map lc_type (map norm_lookup ll) = map lc_type ll).
Proof.
  intros W E.
  destruct (info_sizes_l conv_ok t es fl ll b W E)
    as (slb & flb & llb & blobs & L & _ & _ & HA & HL & Hem & _).
  assert (HB : Forall2 blobs_of ll blobs).
  { unfold blobs_agree in HA. clear -HA. induction HA as [|l bs ll blobs H _ IH]; constructor; [|exact IH].
    unfold blobs_of. induction H as [|s sb subs bs [Hs _] _ IH']; constructor; assumption. }
  exists blobs, L, llb. repeat split; try assumption.
  - cbn [wf_info i_scripts i_features i_lookups] in W.
    repeat (apply andb_true_iff in W; destruct W as [W ?W]).
    destruct (ext_type_wf t ll W0) as [Eq|Hall]; [exact Eq|exfalso].
    pose proof (layout_no_ext _ L (abs_no_subs ll blobs Hall HB) HL) as Hno.
    unfold has_ext in H. apply existsb_exists in H. destruct H as (c & Hc & Hk).
    specialize (Hno c Hc). destruct (c_kind c); try discriminate. congruence.
  - exists (obs_of (normal_info {| i_scripts := Some es; i_features := Some fl; i_lookups := Some ll |})).
    split; [exact (info_roundtrip_l conv_ok t _ b W E)|]. split; [reflexivity|].
    rewrite map_map. apply map_ext. intros l. reflexivity.
Qed.

Lemma info_refuses_or_fits_l conv_ok t es fl ll :
  wf_info conv_ok t {| i_scripts := Some es; i_features := Some fl; i_lookups := Some ll |} = true ->
  let I := {| i_scripts := Some es; i_features := Some fl; i_lookups := Some ll |} in
  M_info_encode I = Panic \/
  (M_info_encode I = OutOfFuel /\ ll_too_big ll) \/
  exists b slb flb blobs L,
    M_info_encode I = Ok b /\
    M_sl_encode es = Ok slb /\ M_fl_encode fl = Ok flb /\
    Forall2 blobs_of ll blobs /\ M_ll_layout (abs_lookups ll blobs) = Ok L /\
    Forall (fun v => v <= 65535)
      (info_fields es fl ll 10 (10 + lenN slb) (10 + lenN slb + lenN flb) (abs_lookups ll blobs) L).
Proof.
  intros W I.
  destruct (info_encode_class conv_ok t I W) as [[[b E]|E]|[E (ll' & Hll & T)]].
  - right; right. destruct (info_fits_l conv_ok t es fl ll b W E) as (slb & flb & blobs & L & A & B & C & D & F).
    exists b, slb, flb, blobs, L. repeat split; assumption.
  - left; exact E.
  - right; left. split; [exact E|]. cbn [I i_lookups] in Hll. injection Hll as <-. exact T.
Qed.

Lemma info_encode_total_l conv_ok t I :
  wf_info conv_ok t I = true ->
  (exists b, M_info_encode I = Ok b) \/ M_info_encode I = Panic \/
  (M_info_encode I = OutOfFuel /\ exists ll, i_lookups I = Some ll /\ ll_too_big ll).
Proof.
  intros W. destruct (info_encode_class conv_ok t I W) as [[H|H]|H]; auto.
Qed.
