(* C08D/Proofs_total.v — the encoders answer with bytes or a loud refusal
   (Panic); they never return an error and never leave the model. *)
From Coq Require Import List NArith ZArith Bool Lia.
From Common Require Import Bytes Outcome.
From Gen Require Import C08 C08D.
From C08 Require Import Model ModelCD ModelLL ModelSub ModelSub2 ModelFL ModelSL.
From C08B Require Import Model Model2 Model3.
From C08C Require Import ModelCtx ModelChain.
From C08D Require Import Model Spec Proofs_head.
Import ListNotations.
Local Open Scope N_scope.

Ltac ec :=
  repeat first
    [ apply enc_class_ok
    | apply enc_class_panic
    | assumption
    | apply enc_class_bind; [|intros ?]
    | apply enc_class_if
    | match goal with
      | |- enc_class (match ?x with _ => _ end) => destruct x
      | |- enc_class (let '(_, _) := ?x in _) => destruct x
      end ].

(* ---- coverage, class definitions ---- *)

Lemma rev_fill_ec t : forall n m, enc_class (rev_fill t n m).
Proof. induction t as [|[g i] t IH]; intros n m; cbn [rev_fill]; ec. apply IH. Qed.

Lemma cov_encinfo_ec t : enc_class (M_cov_encinfo t).
Proof. unfold M_cov_encinfo. apply enc_class_bind; [apply rev_fill_ec|intros m]. ec. Qed.

Lemma cov_encode_ec t : enc_class (M_cov_encode t).
Proof. unfold M_cov_encode. apply enc_class_bind; [apply cov_encinfo_ec|intros]. ec. Qed.

Lemma cov_encode_len_ec t : enc_class (M_cov_encode_len t).
Proof. unfold M_cov_encode_len. apply enc_class_bind; [apply cov_encinfo_ec|intros]. ec. Qed.

Lemma cd_append_ec t : enc_class (M_cd_append t).
Proof. unfold M_cd_append. destruct t; [ec|]. cbv zeta. ec. Qed.

Lemma covs_len_ec ts : enc_class (covs_len ts).
Proof.
  induction ts as [|t ts IH]; cbn [covs_len]; [ec|].
  apply enc_class_bind; [apply cov_encode_len_ec|intros]. ec.
Qed.

Lemma covs_enc_ec ts : enc_class (covs_enc ts).
Proof.
  induction ts as [|t ts IH]; cbn [covs_enc]; [ec|].
  apply enc_class_bind; [apply cov_encode_ec|intros]. ec.
Qed.

#[local] Hint Resolve cov_encode_ec cov_encode_len_ec cd_append_ec covs_len_ec covs_enc_ec : ec.

Ltac ec' :=
  repeat first
    [ apply enc_class_ok
    | apply enc_class_panic
    | assumption
    | solve [auto with ec]
    | apply enc_class_bind; [|intros ?]
    | apply enc_class_if
    | match goal with
      | |- enc_class (match ?x with _ => _ end) => destruct x
      | |- enc_class (let '(_, _) := ?x in _) => destruct x
      end ].

(* ---- helper loops of the encoders ---- *)

Lemma pset_offs_ec f1 f2 gs : forall off, enc_class (pset_offs f1 f2 gs off).
Proof. induction gs as [|g gs IH]; intros off; cbn [pset_offs]; ec'; try apply IH. Qed.

Lemma mark_recs_ec g marks : forall offs, enc_class (mark_recs g marks offs).
Proof. induction marks as [|[c a] r IH]; intros offs; cbn [mark_recs]; ec'; try apply IH. Qed.

Lemma amat_offs_ec g l : forall offs, enc_class (amat_offs g l offs).
Proof. induction l as [|a r IH]; intros offs; cbn [amat_offs]; ec'; try apply IH. Qed.

Lemma ee_offs_ec g recs : forall total, enc_class (ee_offs g recs total).
Proof. induction recs as [|[en ex] r IH]; intros total; cbn [ee_offs]; ec'; try apply IH. Qed.

#[local] Hint Resolve pset_offs_ec mark_recs_ec amat_offs_ec ee_offs_ec : ec.

(* ---- Subtable.encode(), Subtable.encodeLen() ---- *)

Lemma encode_subtable_ec s : enc_class (encode_subtable s).
Proof.
  destruct s; cbn [encode_subtable].
  - unfold M_gsub11_encode. ec'.
  - unfold M_gsub12_encode. cbv zeta. ec'.
  - unfold M_gsubseq_encode. cbv zeta. ec'.
  - unfold M_gsubseq_encode. cbv zeta. ec'.
  - unfold M_gsub41_encode. cbv zeta. ec'.
  - unfold M_gsub81_encode. cbv zeta. ec'.
  - unfold M_gpos11_encode. cbv zeta. ec'.
  - unfold M_gpos12_encode. cbv zeta. ec'.
  - unfold M_gpos21_encode. cbv zeta. ec'.
  - unfold M_gpos22_encode, M_gpos22_encode_g. cbv zeta. ec'.
  - unfold M_gpos31_encode, M_gpos31_encode_g. cbv zeta. ec'.
  - unfold M_gpos41_encode, M_markbase_encode. cbv zeta. ec'.
  - unfold M_gpos51_encode. ec'.
  - unfold M_gpos61_encode, M_markbase_encode. cbv zeta. ec'.
  - unfold M_seq1_encode. cbv zeta. ec'.
  - unfold M_seq2_encode. cbv zeta. ec'.
  - unfold M_seq3_encode. cbv zeta. ec'.
  - unfold M_ch1_encode. cbv zeta. ec'.
  - unfold M_ch2_encode. cbv zeta. ec'.
  - unfold M_ch3_encode. cbv zeta. ec'.
Qed.

Lemma encodeLen_subtable_ec s : enc_class (encodeLen_subtable s).
Proof.
  destruct s; cbn [encodeLen_subtable].
  - unfold M_gsub11_len. ec'.
  - unfold M_gsub12_len. ec'.
  - unfold M_gsubseq_len. ec'.
  - unfold M_gsubseq_len. ec'.
  - unfold M_gsub41_len. ec'.
  - unfold M_gsub81_len. ec'.
  - unfold M_gpos11_len. ec'.
  - unfold M_gpos12_len. ec'.
  - unfold M_gpos21_len. cbv zeta. ec'.
  - unfold M_gpos22_len. ec'.
  - unfold M_gpos31_len. ec'.
  - unfold M_gpos41_len, M_markbase_len. ec'.
  - unfold M_gpos51_len. ec'.
  - unfold M_gpos61_len, M_markbase_len. ec'.
  - unfold M_seq1_len. ec'.
  - unfold M_seq2_len. ec'.
  - unfold M_seq3_len. ec'.
  - unfold M_ch1_len. ec'.
  - unfold M_ch2_len. ec'.
  - unfold M_ch3_len. ec'.
Qed.

(* ---- script list, feature list ---- *)

Lemma lang_records_ec l : forall pos, enc_class (lang_records l pos).
Proof. induction l as [|[tg f] r IH]; intros pos; cbn [lang_records]; ec'; try apply IH. Qed.

Lemma script_table_ec e : enc_class (script_table e).
Proof. unfold script_table. cbv zeta. apply enc_class_bind; [apply lang_records_ec|intros]. ec'. Qed.

Lemma script_tables_ec es : enc_class (script_tables es).
Proof.
  induction es as [|e es IH]; cbn [script_tables]; [ec'|].
  apply enc_class_bind; [apply script_table_ec|intros]. ec'.
Qed.

Lemma script_records_ec es : forall off, enc_class (script_records es off).
Proof. induction es as [|e es IH]; intros off; cbn [script_records]; ec'; try apply IH. Qed.

Lemma sl_encode_ec es : enc_class (M_sl_encode es).
Proof.
  unfold M_sl_encode. cbv zeta.
  apply enc_class_bind; [apply script_records_ec|intros].
  apply enc_class_bind; [apply script_tables_ec|intros]. ec'.
Qed.

Lemma fl_records_ec fl : forall offs, enc_class (fl_records fl offs).
Proof.
  induction fl as [|f fl IH]; intros offs; cbn [fl_records]; [ec'|].
  destruct offs as [|o ro]; [ec'|].
  apply enc_class_bind; [unfold tag4; ec'|intros].
  apply enc_class_bind; [apply IH|intros]. ec'.
Qed.

Lemma fl_encode_ec fl : enc_class (M_fl_encode fl).
Proof.
  unfold M_fl_encode. cbv zeta. apply enc_class_if; [ec'|]. apply enc_class_if; [ec'|].
  apply enc_class_bind; [apply fl_records_ec|intros]. ec'.
Qed.

(* ---- the lookup list ---- *)

Lemma sub_offsets_ec n : forall i j base L, enc_class (sub_offsets n i j base L).
Proof. induction n as [|n IH]; intros i j base L; cbn [sub_offsets]; ec'; try apply IH. Qed.

Lemma chunk_bytes_ec ll extT L c : enc_class (chunk_bytes ll extT L c).
Proof.
  unfold chunk_bytes. destruct (c_kind c).
  - ec'.
  - destruct (nth_error ll _); [|ec']. apply enc_class_if; [ec'|].
    apply enc_class_bind; [apply sub_offsets_ec|intros]. ec'.
  - destruct (nth_error ll _); [|ec']. destruct (nth_error _ _); ec'.
  - destruct (nth_error ll _); ec'.
Qed.

Lemma emit_ec ll extT L cs : enc_class (emit ll extT L cs).
Proof.
  induction cs as [|c cs IH]; cbn [emit]; [ec'|].
  apply enc_class_bind; [apply chunk_bytes_ec|intros]. ec'.
Qed.

(* M_ll_layout: a layout, a refusal, or the list could reach 4 GiB *)
Lemma try_reorder_ec ll cs : enc_class (try_reorder ll cs).
Proof.
  unfold try_reorder. cbv zeta. destruct (rev _) as [|[big bigSize] cands]; [ec'|].
  destruct (replace_loop _ _ _ _) as [lastPos repl]. apply enc_class_if; [ec'|].
  destruct (rebuild _ _ _) as [[res moved] ext]. ec'.
Qed.

Lemma ll_layout_class ll :
  enc_class (M_ll_layout ll) \/ (M_ll_layout ll = OutOfFuel /\ too_big ll).
Proof.
  unfold M_ll_layout. cbv zeta.
  destruct (c08_maxLookups <=? _); [left; ec'|].
  destruct (c08_maxObjectsWrite <? _); [left; ec'|].
  destruct (existsb _ ll); [left; ec'|].
  destruct (4294967296 <=? _) eqn:E.
  - right. split; [reflexivity|]. apply N.leb_le in E. exact E.
  - left. apply enc_class_if; [apply try_reorder_ec|ec'].
Qed.

Lemma ll_encode_class ll extT :
  enc_class (M_ll_encode ll extT) \/ (M_ll_encode ll extT = OutOfFuel /\ too_big ll).
Proof.
  unfold M_ll_encode. destruct (ll_layout_class ll) as [H|[H T]].
  - left. apply enc_class_bind; [exact H|intros]. apply emit_ec.
  - right. rewrite H. split; [reflexivity|exact T].
Qed.
