(* C08D/Model.v — part C08D of property C08: whole GSUB/GPOS tables.

   Executable composition of the models of C08 (coverage, class definitions,
   value records, GSUB 1.1 1.2 2.1 3.1 4.1, GPOS 1.1 1.2 2.1, feature list,
   script list, lookup-list layout over abstract subtables), C08B (GPOS 2.2
   3.1 4.1 5.1 6.1) and C08C (SeqContext1-3, ChainedSeqContext1-3, GSUB 8.1).
   Nothing of those developments is copied: their definitions are imported.

   * [subtable]: the sum of all subtable models.  A coverage table of a
     subtable is given by its glyph list (index = rank, the documented
     invariant of coverage.Table; C08 coverage_encode_refuses_invalid: the
     encoders panic on every other table), so [encode_subtable] hands
     [S_cov_table gl] to the encoders of the parts and [read_subtable_any]
     returns the glyph list of the table it read (C08 coverage_indices: the
     indices are determined by it).
   * [read_subtable_any] mirrors readGsubSubtable / readGposSubtable
     (opentype/gtab/gsub.go, gpos.go): the key 10*LookupType+format (uint16
     arithmetic), the two ">= 10" guards, and the reader maps gsubReaders /
     gposReaders, all REGENERATED from the Go source (coq/Gen/C08D.v).
   * [M_info_encode] mirrors Info.Encode (gtab.go): script list, feature
     list, lookup list (LookupList.encode: C08's [M_ll_encode] fed with the
     emitted subtables; the extension lookup type from the regenerated type
     switch), header version 1.0, the two 16-bit offset guards.
   * [M_info_read] mirrors Read / readGtab (gtab.go): header versions 1.0 and
     1.1 (FeatureVariationsOffset read, checked, not followed), the empty
     table for a zero script- or lookup-list offset, the offset checks, then
     readScriptList, readFeatureList, readLookupList with the extension
     lookup types 7 (GSUB) / 9 (GPOS) resolved in the lookup-list reader.

   Evaluation order.  Go interleaves (the subtables of lookup i are read before
   the header of lookup i+1; encodeLen() of all subtables before any encode());
   the model reads all lookup headers first (C08's [M_ll_read]) and then the
   subtables, and takes encodeLen()/encode() per subtable.  Every failure of a
   reader is the one class [Err] and every refusal of an encoder the one class
   [Panic], and the readers never panic (C02B read_subtable_no_panic), so the
   outcome is the same.  [OutOfFuel] = outside the model: a lookup list that
   could reach 4 GiB (C08), a subtable whose encodeLen() differs from
   len(encode()) (excluded for every subtable by [subtable_len_agrees]), a
   reader name the model does not know (excluded by Tie.v). *)
From Coq Require Import List NArith ZArith Bool Lia.
From Common Require Import Bytes Outcome.
From Gen Require Import C08 C08D.
From C08 Require Import Model ModelCD ModelLL ModelSub ModelSub2 ModelFL ModelSL.
From C08B Require Import Model Model2 Model3.
From C08C Require Import ModelCtx ModelChain.
Import ListNotations.
Local Open Scope N_scope.

Inductive table := GSUB | GPOS.

(* ------------------------------------------------------------------ *)
(* the subtables                                                       *)

Inductive subtable :=
| TGsub11 (gl : list N) (delta : N)
| TGsub12 (gl : list N) (subst : list N)
| TGsub21 (gl : list N) (seqs : list (list N))
| TGsub31 (gl : list N) (seqs : list (list N))
| TGsub41 (gl : list N) (sets : list (list lig))
| TGsub81 (gl : list N) (bk la : list (list N)) (subst : list N)
| TGpos11 (gl : list N) (adj : option vrec)
| TGpos12 (gl : list N) (adj : list (option vrec))
| TGpos21 (gs : list pgroup)
| TGpos22 (gl : list N) (cd1 cd2 : list (N * N)) (adj : list (list vr2))
| TGpos31 (gl : list N) (recs : list eerec)
| TGpos41 (glm glb : list N) (marks : list markrec) (base : list (list anchor))
| TGpos51 (glm gll : list N) (marks : list markrec) (ligs : list (list (list anchor)))
| TGpos61 (glm glb : list N) (marks : list markrec) (base : list (list anchor))
| TSeq1 (gl : list N) (rules : ssets)
| TSeq2 (gl : list N) (cls : list (N * N)) (rules : ssets)
| TSeq3 (inp : list (list N)) (acts : list action)
| TCh1 (gl : list N) (rules : csets)
| TCh2 (gl : list N) (cb ci cl : list (N * N)) (rules : csets)
| TCh3 (bk inp la : list (list N)) (acts : list action).

(* the Go subtable type / the reader function of each constructor *)
Inductive rkind :=
| RGsub11 | RGsub12 | RGsub21 | RGsub31 | RGsub41 | RGsub81
| RGpos11 | RGpos12 | RGpos21 | RGpos22 | RGpos31 | RGpos41 | RGpos51 | RGpos61
| RSeq1 | RSeq2 | RSeq3 | RCh1 | RCh2 | RCh3
| RExt.

Definition rkind_code (r : rkind) : N :=
  match r with
  | RGsub11 => 1 | RGsub12 => 2 | RGsub21 => 3 | RGsub31 => 4 | RGsub41 => 5 | RGsub81 => 6
  | RGpos11 => 7 | RGpos12 => 8 | RGpos21 => 9 | RGpos22 => 10 | RGpos31 => 11 | RGpos41 => 12
  | RGpos51 => 13 | RGpos61 => 14
  | RSeq1 => 15 | RSeq2 => 16 | RSeq3 => 17 | RCh1 => 18 | RCh2 => 19 | RCh3 => 20
  | RExt => 21
  end.
Definition rkind_eqb (a b : rkind) : bool := rkind_code a =? rkind_code b.

Definition kind_of (s : subtable) : rkind :=
  match s with
  | TGsub11 _ _ => RGsub11 | TGsub12 _ _ => RGsub12 | TGsub21 _ _ => RGsub21
  | TGsub31 _ _ => RGsub31 | TGsub41 _ _ => RGsub41 | TGsub81 _ _ _ _ => RGsub81
  | TGpos11 _ _ => RGpos11 | TGpos12 _ _ => RGpos12 | TGpos21 _ => RGpos21
  | TGpos22 _ _ _ _ => RGpos22 | TGpos31 _ _ => RGpos31 | TGpos41 _ _ _ _ => RGpos41
  | TGpos51 _ _ _ _ => RGpos51 | TGpos61 _ _ _ _ => RGpos61
  | TSeq1 _ _ => RSeq1 | TSeq2 _ _ _ => RSeq2 | TSeq3 _ _ => RSeq3
  | TCh1 _ _ => RCh1 | TCh2 _ _ _ _ _ => RCh2 | TCh3 _ _ _ _ => RCh3
  end.

(* the Go reader function of each kind (the values of gsubReaders /
   gposReaders; the type c08d_reader is regenerated: one constructor per
   function named in the maps) *)
Definition reader_name (r : rkind) : c08d_reader :=
  match r with
  | RGsub11 => C08d_readGsub1_1 | RGsub12 => C08d_readGsub1_2 | RGsub21 => C08d_readGsub2_1
  | RGsub31 => C08d_readGsub3_1 | RGsub41 => C08d_readGsub4_1 | RGsub81 => C08d_readGsub8_1
  | RGpos11 => C08d_readGpos1_1 | RGpos12 => C08d_readGpos1_2 | RGpos21 => C08d_readGpos2_1
  | RGpos22 => C08d_readGpos2_2 | RGpos31 => C08d_readGpos3_1 | RGpos41 => C08d_readGpos4_1
  | RGpos51 => C08d_readGpos5_1 | RGpos61 => C08d_readGpos6_1
  | RSeq1 => C08d_readSeqContext1 | RSeq2 => C08d_readSeqContext2 | RSeq3 => C08d_readSeqContext3
  | RCh1 => C08d_readChainedSeqContext1 | RCh2 => C08d_readChainedSeqContext2
  | RCh3 => C08d_readChainedSeqContext3
  | RExt => C08d_readExtensionSubtable
  end.

(* the Go subtable type of each kind (the cases of the type switch in
   LookupList.encode; regenerated type c08d_extSwitch_type) *)
Definition type_name (r : rkind) : option c08d_extSwitch_type :=
  match r with
  | RGsub11 => Some C08d_T_Gsub1_1 | RGsub12 => Some C08d_T_Gsub1_2 | RGsub21 => Some C08d_T_Gsub2_1
  | RGsub31 => Some C08d_T_Gsub3_1 | RGsub41 => Some C08d_T_Gsub4_1 | RGsub81 => Some C08d_T_Gsub8_1
  | RGpos11 => Some C08d_T_Gpos1_1 | RGpos12 => Some C08d_T_Gpos1_2 | RGpos21 => Some C08d_T_Gpos2_1
  | RGpos22 => Some C08d_T_Gpos2_2 | RGpos31 => Some C08d_T_Gpos3_1 | RGpos41 => Some C08d_T_Gpos4_1
  | RGpos51 => Some C08d_T_Gpos5_1 | RGpos61 => Some C08d_T_Gpos6_1
  | RSeq1 => Some C08d_T_SeqContext1 | RSeq2 => Some C08d_T_SeqContext2 | RSeq3 => Some C08d_T_SeqContext3
  | RCh1 => Some C08d_T_ChainedSeqContext1 | RCh2 => Some C08d_T_ChainedSeqContext2
  | RCh3 => Some C08d_T_ChainedSeqContext3
  | RExt => None                                  (* extensionSubtable: not a case of the switch *)
  end.

Definition all_rkinds : list rkind :=
  [RGsub11; RGsub12; RGsub21; RGsub31; RGsub41; RGsub81;
   RGpos11; RGpos12; RGpos21; RGpos22; RGpos31; RGpos41; RGpos51; RGpos61;
   RSeq1; RSeq2; RSeq3; RCh1; RCh2; RCh3; RExt].

Definition rkind_of_name (x : c08d_reader) : option rkind :=
  find (fun r => c08d_reader_code (reader_name r) =? c08d_reader_code x) all_rkinds.

(* the format word the encoder of each kind writes *)
Definition fmt_of (r : rkind) : N :=
  match r with
  | RGsub12 | RGpos12 | RGpos22 | RSeq2 | RCh2 => 2
  | RSeq3 | RCh3 => 3
  | _ => 1
  end.

Definition tab (gl : list N) : list (N * Z) := S_cov_table gl.

(* Subtable.encode() *)
Definition encode_subtable (s : subtable) : outcome (list N) :=
  match s with
  | TGsub11 gl d => M_gsub11_encode gl d
  | TGsub12 gl subst => M_gsub12_encode (tab gl) subst
  | TGsub21 gl seqs => M_gsubseq_encode (tab gl) seqs
  | TGsub31 gl seqs => M_gsubseq_encode (tab gl) seqs
  | TGsub41 gl sets => M_gsub41_encode (tab gl) sets
  | TGsub81 gl bk la subst => M_gsub81_encode (tab gl) (map tab bk) (map tab la) subst
  | TGpos11 gl adj => M_gpos11_encode (tab gl) adj
  | TGpos12 gl adj => M_gpos12_encode (tab gl) adj
  | TGpos21 gs => M_gpos21_encode gs
  | TGpos22 gl cd1 cd2 adj => M_gpos22_encode gl cd1 cd2 adj
  | TGpos31 gl recs => M_gpos31_encode (tab gl) recs
  | TGpos41 glm glb marks base => M_gpos41_encode (tab glm) (tab glb) marks base
  | TGpos51 glm gll marks ligs => M_gpos51_encode (tab glm) (tab gll) marks ligs
  | TGpos61 glm glb marks base => M_gpos61_encode (tab glm) (tab glb) marks base
  | TSeq1 gl rules => M_seq1_encode (tab gl) rules
  | TSeq2 gl cls rules => M_seq2_encode (tab gl) cls rules
  | TSeq3 inp acts => M_seq3_encode inp acts
  | TCh1 gl rules => M_ch1_encode (tab gl) rules
  | TCh2 gl cb ci cl rules => M_ch2_encode (tab gl) cb ci cl rules
  | TCh3 bk inp la acts => M_ch3_encode bk inp la acts
  end.

(* Subtable.encodeLen() *)
Definition encodeLen_subtable (s : subtable) : outcome N :=
  match s with
  | TGsub11 gl d => M_gsub11_len gl
  | TGsub12 gl subst => M_gsub12_len (tab gl) subst
  | TGsub21 gl seqs => M_gsubseq_len (tab gl) seqs
  | TGsub31 gl seqs => M_gsubseq_len (tab gl) seqs
  | TGsub41 gl sets => M_gsub41_len (tab gl) sets
  | TGsub81 gl bk la subst => M_gsub81_len (tab gl) (map tab bk) (map tab la) subst
  | TGpos11 gl adj => M_gpos11_len (tab gl) adj
  | TGpos12 gl adj => M_gpos12_len (tab gl) adj
  | TGpos21 gs => M_gpos21_len gs
  | TGpos22 gl cd1 cd2 adj => M_gpos22_len gl cd1 cd2 adj
  | TGpos31 gl recs => M_gpos31_len (tab gl) recs
  | TGpos41 glm glb marks base => M_gpos41_len (tab glm) (tab glb) marks base
  | TGpos51 glm gll marks ligs => M_gpos51_len (tab glm) (tab gll) marks ligs
  | TGpos61 glm glb marks base => M_gpos61_len (tab glm) (tab glb) marks base
  | TSeq1 gl rules => M_seq1_len (tab gl) rules
  | TSeq2 gl cls rules => M_seq2_len (tab gl) cls rules
  | TSeq3 inp acts => M_seq3_len inp acts
  | TCh1 gl rules => M_ch1_len (tab gl) rules
  | TCh2 gl cb ci cl rules => M_ch2_len (tab gl) cb ci cl rules
  | TCh3 bk inp la acts => M_ch3_len bk inp la acts
  end.

(* ------------------------------------------------------------------ *)
(* readGsubSubtable / readGposSubtable                                 *)

Inductive sub_result :=
| SRExt (tp off : N)          (* *extensionSubtable *)
| SRSub (s : subtable).

Definition gls (cov : list (N * N)) : list N := map fst cov.

(* the reader functions, after the dispatcher has read the format word at [pos] *)
Definition run_reader (r : rkind) (data : list N) (pos : N) : outcome sub_result :=
  match r with
  | RGsub11 => x <- M_gsub11_read data pos ;; Ok (SRSub (TGsub11 (fst x) (snd x)))
  | RGsub12 => x <- M_gsub12_read data pos ;; Ok (SRSub (TGsub12 (gls (fst x)) (snd x)))
  | RGsub21 => x <- M_gsubseq_read data pos ;; Ok (SRSub (TGsub21 (gls (fst x)) (snd x)))
  | RGsub31 => x <- M_gsubseq_read data pos ;; Ok (SRSub (TGsub31 (gls (fst x)) (snd x)))
  | RGsub41 => x <- M_gsub41_read data pos ;; Ok (SRSub (TGsub41 (gls (fst x)) (snd x)))
  | RGsub81 =>
    x <- M_gsub81_read data pos ;;
    let '(inp, bk, la, subst) := x in Ok (SRSub (TGsub81 (gls inp) (map gls bk) (map gls la) subst))
  | RGpos11 => x <- M_gpos11_read data pos ;; Ok (SRSub (TGpos11 (gls (fst x)) (snd x)))
  | RGpos12 => x <- M_gpos12_read data pos ;; Ok (SRSub (TGpos12 (gls (fst x)) (snd x)))
  | RGpos21 => x <- M_gpos21_read data pos ;; Ok (SRSub (TGpos21 x))
  | RGpos22 =>
    x <- M_gpos22_read data pos ;;
    let '(gl, cd1, cd2, adj) := x in Ok (SRSub (TGpos22 gl cd1 cd2 adj))
  | RGpos31 => x <- M_gpos31_read data pos ;; Ok (SRSub (TGpos31 (gls (fst x)) (snd x)))
  | RGpos41 =>
    x <- M_gpos41_read data pos ;;
    let '(mc, bc, marks, base) := x in Ok (SRSub (TGpos41 (gls mc) (gls bc) marks base))
  | RGpos51 =>
    x <- M_gpos51_read data pos ;;
    let '(mc, lc, marks, ligs) := x in Ok (SRSub (TGpos51 (gls mc) (gls lc) marks ligs))
  | RGpos61 =>
    x <- M_gpos61_read data pos ;;
    let '(mc, bc, marks, base) := x in Ok (SRSub (TGpos61 (gls mc) (gls bc) marks base))
  | RSeq1 => x <- M_seq1_read data pos ;; Ok (SRSub (TSeq1 (gls (fst x)) (snd x)))
  | RSeq2 =>
    x <- M_seq2_read data pos ;;
    let '(cov, cls, rules) := x in Ok (SRSub (TSeq2 (gls cov) cls rules))
  | RSeq3 => x <- M_seq3_read data pos ;; Ok (SRSub (TSeq3 (fst x) (snd x)))
  | RCh1 => x <- M_ch1_read data pos ;; Ok (SRSub (TCh1 (gls (fst x)) (snd x)))
  | RCh2 =>
    x <- M_ch2_read data pos ;;
    let '(cov, (cb, ci, cl), rules) := x in Ok (SRSub (TCh2 (gls cov) cb ci cl rules))
  | RCh3 =>
    x <- M_ch3_read data pos ;;
    let '(bk, inp, la, acts) := x in Ok (SRSub (TCh3 bk inp la acts))
  | RExt =>
    (* readExtensionSubtable: p.ReadBytes(6) after the format word *)
    match seek data (pos + 2) with
    | c :: d :: e :: f :: g :: h :: _ =>
      Ok (SRExt (w16 c d) (e * 16777216 + f * 65536 + g * 256 + h))
    | _ => Err
    end
  end.

Fixpoint assocN {A} (k : N) (l : list (N * A)) : option A :=
  match l with
  | [] => None
  | (k', v) :: r => if k =? k' then Some v else assocN k r
  end.

(* the switch of gtab.Read: table type -> subtable reader -> its reader map *)
Definition table_name (t : table) : c08d_readSwitch_case :=
  match t with GSUB => C08d_TypeGsub | GPOS => C08d_TypeGpos end.

Record dispatcher := { d_readers : list (N * c08d_reader); d_factor : N; d_typeLimit : N; d_fmtLimit : N }.

Definition dispatcher_of_name (f : c08d_readSwitch_fn) : dispatcher :=
  match f with
  | C08d_readGsubSubtable =>
    {| d_readers := c08d_reader_gsubReaders; d_factor := c08d_gsubKeyFactor;
       d_typeLimit := c08d_gsubTypeLimit; d_fmtLimit := c08d_gsubFormatLimit |}
  | C08d_readGposSubtable =>
    {| d_readers := c08d_reader_gposReaders; d_factor := c08d_gposKeyFactor;
       d_typeLimit := c08d_gposTypeLimit; d_fmtLimit := c08d_gposFormatLimit |}
  end.

Definition dispatcher_of (t : table) : option dispatcher :=
  match assocN (c08d_readSwitch_case_code (table_name t))
               (map (fun p => (c08d_readSwitch_case_code (fst p), snd p)) c08d_readSwitch) with
  | Some f => Some (dispatcher_of_name f)
  | None => None
  end.

(* reader, ok := xReaders[10*meta.LookupType+format] (uint16 arithmetic);
   if meta.LookupType >= 10 || format >= 10 { ok = false } *)
Definition dispatch (t : table) (ltype fmt : N) : outcome (option rkind) :=
  match dispatcher_of t with
  | None => OutOfFuel                                 (* gtab.Read has no reader for the table: outside the model *)
  | Some d =>
    if (d_typeLimit d <=? ltype) || (d_fmtLimit d <=? fmt) then Ok None
    else
      match assocN ((d_factor d * ltype + fmt) mod 65536) (d_readers d) with
      | None => Ok None
      | Some name =>
        match rkind_of_name name with
        | Some r => Ok (Some r)
        | None => OutOfFuel                           (* a reader this model does not know *)
        end
      end
  end.

Definition read_subtable_any (t : table) (data : list N) (pos ltype : N) : outcome sub_result :=
  match seek data pos with
  | a :: b :: _ =>
    d <- dispatch t ltype (w16 a b) ;;
    match d with
    | None => Err                                     (* "unknown GSUB/GPOS subtable format" *)
    | Some r => run_reader r data pos
    end
  | _ => Err
  end.

(* a subtable of a lookup whose type is not the extension type *)
Definition read_subtable (t : table) (data : list N) (pos ltype : N) : outcome subtable :=
  r <- read_subtable_any t data pos ltype ;;
  match r with SRSub s => Ok s | SRExt _ _ => Err end.

(* ------------------------------------------------------------------ *)
(* whole tables                                                        *)

Record lookupC := { lc_type : N; lc_flags : N; lc_mfs : N; lc_subs : list subtable }.

(* gtab.Info; a nil ScriptList / FeatureList / LookupList is [None] *)
Record info := {
  i_scripts : option (list script_entry);
  i_features : option (list feature);
  i_lookups : option (list lookupC) }.

Fixpoint omapM {A B} (f : A -> outcome B) (l : list A) : outcome (list B) :=
  match l with
  | [] => Ok []
  | a :: r => b <- f a ;; tl <- omapM f r ;; Ok (b :: tl)
  end.

(* size from encodeLen() (the chunk list), bytes from encode() (emission) *)
Definition sub_blob (s : subtable) : outcome (list N) :=
  n <- encodeLen_subtable s ;;
  b <- encode_subtable s ;;
  if n =? lenN b then Ok b else OutOfFuel.

(* findTypeLoop of LookupList.encode: the code of a subtable's Go type in the
   regenerated type switch (1 GSUB-only, 2 GPOS-only, 3 decided by the lookup type) *)
Definition kind_ext_code (r : rkind) : N :=
  match type_name r with
  | Some tn =>
    match assocN (c08d_extSwitch_type_code tn)
                 (map (fun p => (c08d_extSwitch_type_code (fst p), snd p)) c08d_extSwitch) with
    | Some c => c
    | None => 0
    end
  | None => 0
  end.
Definition ext_code (s : subtable) : N := kind_ext_code (kind_of s).

Definition ext_type_of (ll : list lookupC) : N :=
  M_find_ext (map (fun l => (lc_type l, map ext_code (lc_subs l))) ll).

Definition abs_lookup (l : lookupC) (blobs : list (list N)) : lookup :=
  {| lk_type := lc_type l; lk_flags := lc_flags l; lk_mfs := lc_mfs l; lk_subs := blobs |}.

Fixpoint abs_lookups (ll : list lookupC) (blobs : list (list (list N))) : list lookup :=
  match ll, blobs with
  | l :: r, b :: rb => abs_lookup l b :: abs_lookups r rb
  | _, _ => []
  end.

(* LookupList.encode *)
Definition M_ll_encode_c (ll : list lookupC) : outcome (list N) :=
  blobs <- omapM (fun l => omapM sub_blob (lc_subs l)) ll ;;
  M_ll_encode (abs_lookups ll blobs) (ext_type_of ll).

Definition opt_enc {A} (f : A -> outcome (list N)) (x : option A) : outcome (option (list N)) :=
  match x with None => Ok None | Some a => b <- f a ;; Ok (Some b) end.
Definition olen (x : option (list N)) : N := match x with None => 0 | Some b => lenN b end.
Definition obytes (x : option (list N)) : list N := match x with None => [] | Some b => b end.
Definition ooff (x : option (list N)) (total : N) : N := match x with None => 0 | Some _ => total end.

(* the header fields of Info.Encode: scriptListOffset, featureListOffset,
   lookupListOffset (Go ints) *)
Definition hdr_offsets (sl fl ll : option (list N)) : N * N * N :=
  let t1 := 10 + olen sl in
  let t2 := t1 + olen fl in
  (ooff sl 10, ooff fl t1, ooff ll t2).

(* Info.Encode *)
Definition M_info_encode (I : info) : outcome (list N) :=
  sl <- opt_enc M_sl_encode (i_scripts I) ;;
  fl <- opt_enc M_fl_encode (i_features I) ;;
  ll <- opt_enc M_ll_encode_c (i_lookups I) ;;
  let '(so, fo, lo) := hdr_offsets sl fl ll in
  if (c08d_maxFeatureListOffset <? fo) || (c08d_maxLookupListOffset <? lo) then Panic
  else Ok ([0; 1; 0; 0] ++ be16 so ++ be16 fo ++ be16 lo ++ obytes sl ++ obytes fl ++ obytes ll).

(* what gtab.Read returns: the ScriptList map as the list of its assignments
   ((script, language) -> LangSys, in the order they are made), the feature
   list and the lookup list (nil = None) *)
Record info_obs := {
  o_scripts : list ((list N * list N) * langsys);
  o_features : option (list feature);
  o_lookups : option (list lookupC) }.

Definition empty_obs : info_obs := {| o_scripts := []; o_features := None; o_lookups := None |}.

Definition ext_of (t : table) : N := match t with GSUB => c08_gsubExt | GPOS => c08_gposExt end.

Definition read_lookup_subs (t : table) (data : list N) (o : lookup_obs) : outcome lookupC :=
  subs <- omapM (fun p => read_subtable t data p (lo_type o)) (lo_subpos o) ;;
  Ok {| lc_type := lo_type o; lc_flags := lo_flags o; lc_mfs := lo_mfs o; lc_subs := subs |}.

Section Read.
  Variable conv_ok : list N -> list N -> bool.     (* otfToBCP47(script, lang) succeeds (x/text; C14) *)

  (* gtab.Read / readGtab *)
  Definition M_info_read (t : table) (data : list N) : outcome info_obs :=
    match data with
    | a0 :: a1 :: b0 :: b1 :: c0 :: c1 :: d0 :: d1 :: e0 :: e1 :: r =>
      let major := w16 a0 a1 in
      let minor := w16 b0 b1 in
      let so := w16 c0 c1 in
      let fo := w16 d0 d1 in
      let lo := w16 e0 e1 in
      if negb (major =? c08d_majorVersion) || (c08d_maxMinorVersion <? minor) then Err
      else
        fv <- (if minor =? 1 then
                 match r with
                 | f0 :: f1 :: f2 :: f3 :: _ => Ok (f0 * 16777216 + f1 * 65536 + f2 * 256 + f3)
                 | _ => Err
                 end
               else Ok 0) ;;
        let eoh := if minor =? 1 then 14 else 10 in
        if (so =? 0) || (lo =? 0) then Ok empty_obs
        else
          let size := lenN data in
          if existsb (fun o => (o <? eoh) || (size <=? o)) [so; fo; lo] then Err
          else if (negb (fv =? 0) && (fv <? eoh)) || (size <=? fv) then Err
          else
            sl <- M_sl_read conv_ok data so ;;
            fl <- M_fl_read data fo ;;
            obs <- M_ll_read data lo (ext_of t) ;;
            ls <- omapM (read_lookup_subs t data) obs ;;
            Ok {| o_scripts := sl; o_features := Some fl; o_lookups := Some ls |}
    | _ => Err
    end.
End Read.

(* ------------------------------------------------------------------ *)
(* specification side: well-formed values, normal forms                 *)

Definition nat_eqb := Nat.eqb.

Definition seq_okb (s : list N) : bool := u16s_ok s && (lenN s <? 65536).
Definition lig_okb (l : lig) : bool := (fst l <? 65536) && u16s_ok (snd l).
Definition pitem_okb (it : pitem) : bool := vr_okb (fst (snd it)) && vr_okb (snd (snd it)).
Definition group_okb (g : pgroup) : bool :=
  negb (nat_eqb (length (snd g)) 0) && inc_from (-1) (map fst (snd g)) &&
  glyphs_ok (map fst (snd g)) && forallb pitem_okb (snd g).
Definition groups_okb (gs : list pgroup) : bool :=
  strictly_inc (map fst gs) && glyphs_ok (map fst gs) && forallb group_okb gs.

(* markClassCount of a decoded Gpos5_1 (only used to state well-formedness;
   the library has no encoder for this subtable) *)
Definition mcc51 (marks : list markrec) (ligs : list (list (list anchor))) : N :=
  match ligs with
  | (row :: _) :: _ => lenN row
  | _ => max_class marks 0 + 1
  end.

(* boolean well-formedness, built from the predicates of the parts: valid
   coverage (strictly increasing 16-bit glyph list), one array entry per
   covered glyph, fields of their Go types *)
Definition wf_subtable (s : subtable) : bool :=
  match s with
  | TGsub11 gl d => gset_ok gl && (d <? 65536)
  | TGsub12 gl subst => gset_ok gl && u16s_ok subst && nat_eqb (length subst) (length gl)
  | TGsub21 gl seqs | TGsub31 gl seqs =>
    gset_ok gl && forallb seq_okb seqs && nat_eqb (length seqs) (length gl)
  | TGsub41 gl sets =>
    gset_ok gl && forallb (forallb lig_okb) sets && nat_eqb (length sets) (length gl)
  | TGsub81 gl bk la subst => gsub81_wf gl bk la subst
  | TGpos11 gl adj => gset_ok gl && vr_okb adj
  | TGpos12 gl adj => gset_ok gl && forallb vr_okb adj && nat_eqb (length adj) (length gl)
  | TGpos21 gs => groups_okb gs
  | TGpos22 gl cd1 cd2 adj => gpos22_wf gl cd1 cd2 adj
  | TGpos31 gl recs => gpos31_wf gl recs
  | TGpos41 glm glb marks base => markbase_wf glm glb marks base
  | TGpos51 glm gll marks ligs => gpos51_wf glm gll (mcc51 marks ligs) marks ligs
  | TGpos61 glm glb marks base => markbase_wf glm glb marks base
  | TSeq1 gl rules => seq1_wf gl rules
  | TSeq2 gl cls rules => seq2_wf gl cls rules
  | TSeq3 inp acts => seq3_wf inp acts
  | TCh1 gl rules => ch1_wf gl rules
  | TCh2 gl cb ci cl rules => ch2_wf gl cb ci cl rules
  | TCh3 bk inp la acts => ch3_wf bk inp la acts
  end.

(* the reader's normal form (composed from the normal forms of the parts):
   nil = all-zero value records decided by the common value format, class-0
   entries dropped, rule sets beyond the largest class dropped *)
Definition normal_subtable (s : subtable) : subtable :=
  match s with
  | TGpos12 gl adj => TGpos12 gl (map (vr_norm (vr_union adj)) adj)
  | TGpos21 gs => TGpos21 (norm_groups gs)
  | TGpos22 gl cd1 cd2 adj => TGpos22 gl (S_cd_nonzero cd1) (S_cd_nonzero cd2) (g22_norm adj)
  | TSeq2 gl cls rules =>
    TSeq2 gl (S_cd_nonzero cls) (firstn (N.to_nat (cd_num_classes cls)) rules)
  | TCh2 gl cb ci cl rules => TCh2 gl cb ci cl (firstn (N.to_nat (cd_num_classes ci)) rules)
  | _ => s
  end.

(* the lookup type and format under which table [t] reads this kind of
   subtable: the regenerated dispatch must lead to the kind's reader *)
Definition sub_fits (t : table) (ltype : N) (s : subtable) : bool :=
  match dispatch t ltype (fmt_of (kind_of s)) with
  | Ok (Some r) => rkind_eqb r (kind_of s)
  | _ => false
  end.

Definition flags_use_mfs (flags : N) : bool := negb (N.land flags c08_UseMarkFilteringSet =? 0).

Definition wf_lookup (t : table) (l : lookupC) : bool :=
  (lc_type l <? 65536) && (lc_flags l <? 65536) && (lc_mfs l <? 65536) &&
  negb (lc_type l =? ext_of t) &&
  forallb (fun s => wf_subtable s && sub_fits t (lc_type l) s) (lc_subs l).

Definition norm_lookup (l : lookupC) : lookupC :=
  {| lc_type := lc_type l; lc_flags := lc_flags l;
     lc_mfs := if flags_use_mfs (lc_flags l) then lc_mfs l else 0;
     lc_subs := map normal_subtable (lc_subs l) |}.

Definition tag_okb (tg : list N) : bool := nat_eqb (length tg) 4 && forallb (fun b => b <? 256) tg.
Definition ls_okb (f : langsys) : bool := (fst f <? 65536) && forallb (fun i => i <? 65535) (snd f).
Definition feature_okb (f : feature) : bool := tag_okb (fst f) && u16s_ok (snd f).

Section Wf.
  Variable conv_ok : list N -> list N -> bool.

  Definition item_okb (script : list N) (x : item) : bool :=
    ls_okb (snd x) && (lenN (snd (snd x)) <? 65536) && conv_ok script (fst x).
  Definition entry_okb (e : script_entry) : bool :=
    tag_okb (e_tag e) && forallb (fun x : item => tag_okb (fst x)) (e_langs e) &&
    forallb (item_okb (e_tag e)) (items_of e).

  (* a well-formed Info for table [t]: the three lists are present (not nil) *)
  Definition wf_info (t : table) (I : info) : bool :=
    match i_scripts I, i_features I, i_lookups I with
    | Some es, Some fl, Some ll =>
      forallb entry_okb es && (total_work es <=? maxWork) &&
      forallb feature_okb fl && forallb (wf_lookup t) ll
    | _, _, _ => false
    end.
End Wf.

Definition normal_info (I : info) : info :=
  {| i_scripts := i_scripts I; i_features := i_features I;
     i_lookups := match i_lookups I with Some ll => Some (map norm_lookup ll) | None => None end |}.

(* the abstraction function: what gtab.Read shows of an Info *)
Definition obs_of (I : info) : info_obs :=
  match i_scripts I, i_lookups I with
  | Some es, Some ll =>
    {| o_scripts := flat_map entry_assignments es; o_features := i_features I; o_lookups := Some ll |}
  | _, _ => empty_obs
  end.

(* the 16-bit fields of the header and of the lookup list of an emitted table
   (Go ints before the conversion to uint16): the three header offsets, the
   lookup count, per lookup its offset, its subtable count and every subtable
   offset relative to the lookup table (to the extension record where one was
   introduced) *)
Definition lookup_fields (L : list chunk) (k : N) (l : lookup) : list N :=
  let T := pos_or0 (find_pos KTable k 0 L 0) in
  T :: nsubs l ::
  map (fun j =>
         match find_pos KExt k j L 0 with
         | Some p => p - T
         | None => pos_or0 (find_pos KSub k j L 0) - T
         end) (map N.of_nat (seq 0 (length (lk_subs l)))).

Fixpoint ll_fields (L : list chunk) (k : N) (ll : list lookup) : list N :=
  match ll with
  | [] => []
  | l :: r => lookup_fields L k l ++ ll_fields L (k + 1) r
  end.
