From Coq Require Import Extraction ExtrOcamlBasic.
From Common Require Import Conv.
From C08D Require Import Model.
Extraction "c08d_model.ml" conv_anchor M_info_encode M_info_read
  encode_subtable encodeLen_subtable read_subtable_any normal_subtable.
