(* C08D/Proofs_info.v — whole tables: read (encode I) = the normal form of I. *)
From Coq Require Import List NArith ZArith Bool Lia.
From Common Require Import Bytes Outcome.
From Gen Require Import C08 C08D.
From C08 Require Import Model ModelCD ModelLL ModelSub ModelSub2 ModelFL ModelSL
     Proofs Proofs_sub Proofs_ll Proofs_ll2 Proofs_ll3 Proofs_ll4 Proofs_fl Proofs_sl.
From C08B Require Import Model Model2 Model3.
From C08C Require Import ModelCtx ModelChain.
From C08D Require Import Model Spec Tie Proofs_head Proofs_sub.
Import ListNotations.
Local Open Scope N_scope.

(* ------------------------------------------------------------------ *)
(* generic facts                                                       *)

Lemma omapM_Forall2 {A B} (f : A -> outcome B) l : forall r,
  omapM f l = Ok r -> Forall2 (fun a b => f a = Ok b) l r.
Proof.
  induction l as [|a l IH]; intros r; cbn [omapM].
  - intros [= <-]. constructor.
  - destruct (f a) as [b| | |] eqn:Ea; cbn [obind]; try discriminate.
    destruct (omapM f l) as [tl| | |]; cbn [obind]; try discriminate.
    intros [= <-]. constructor; [exact Ea|]. apply IH. reflexivity.
Qed.

Lemma Forall2_omapM {A B} (f : A -> outcome B) l r :
  Forall2 (fun a b => f a = Ok b) l r -> omapM f l = Ok r.
Proof.
  induction 1 as [|a b l r Hab _ IH]; cbn [omapM]; [reflexivity|].
  rewrite Hab, IH. reflexivity.
Qed.

Lemma starts_split data p x :
  x <> [] -> ModelLL.starts data p x ->
  exists pre rest, data = pre ++ x ++ rest /\ lenN pre = p.
Proof.
  intros Hx [rest Hs]. rewrite seek_unfold in Hs.
  exists (firstn (N.to_nat p) data), rest. split.
  - rewrite <- Hs. symmetry. apply firstn_skipn.
  - unfold lenN. rewrite firstn_length.
    assert (N.to_nat p < length data)%nat.
    { destruct (Nat.lt_ge_cases (N.to_nat p) (length data)) as [H|H]; [exact H|].
      rewrite skipn_all2 in Hs by exact H. destruct x; [congruence|discriminate]. }
    lia.
Qed.

(* ------------------------------------------------------------------ *)
(* one subtable at the position the lookup list reader found            *)

Lemma read_back_subtable t lt s blob data p :
  wf_subtable s = true -> sub_fits t lt s = true -> encode_subtable s = Ok blob ->
  ModelLL.starts data p blob -> read_subtable t data p lt = Ok (normal_subtable s).
Proof.
  intros W F E S.
  destruct (enc_head s blob E) as [r Hb].
  destruct (starts_split data p blob ltac:(rewrite Hb; discriminate) S) as (pre & rest & Hd & Hp).
  unfold read_subtable, read_subtable_any.
  destruct S as [rest' Hs]. rewrite Hs, Hb. cbn [app].
  replace (w16 0 (fmt_of (kind_of s))) with (fmt_of (kind_of s)) by (unfold w16; lia).
  rewrite (fits_dispatch t lt s F). cbn [obind].
  rewrite Hd, <- Hp. rewrite (subtable_roundtrip s blob pre rest W E). reflexivity.
Qed.

Lemma read_back_subs t lt data : forall subs blobs ps,
  forallb (fun s => wf_subtable s && sub_fits t lt s) subs = true ->
  Forall2 (fun s b => encode_subtable s = Ok b) subs blobs ->
  Forall2 (fun b p => ModelLL.starts data p b) blobs ps ->
  omapM (fun p => read_subtable t data p lt) ps = Ok (map normal_subtable subs).
Proof.
  induction subs as [|s subs IH]; intros blobs ps W HE HS.
  - inversion HE; subst. inversion HS; subst. reflexivity.
  - inversion HE as [|? b ? blobs' Hsb HE']; subst. inversion HS as [|? p ? ps' Hbp HS']; subst.
    cbn [forallb] in W. apply andb_true_iff in W. destruct W as [W1 W2].
    apply andb_true_iff in W1. destruct W1 as [Wa Wb].
    cbn [omapM map]. rewrite (read_back_subtable t lt s b data p Wa Wb Hsb Hbp). cbn [obind].
    rewrite (IH blobs' ps' W2 HE' HS'). reflexivity.
Qed.

Lemma wf_lookup_parts t l :
  wf_lookup t l = true ->
  lc_type l < 65536 /\ lc_flags l < 65536 /\ lc_mfs l < 65536 /\ lc_type l <> ext_of t /\
  forallb (fun s => wf_subtable s && sub_fits t (lc_type l) s) (lc_subs l) = true.
Proof.
  unfold wf_lookup. intros H.
  repeat (apply andb_true_iff in H; destruct H as [H ?H]).
  apply N.ltb_lt in H. apply N.ltb_lt in H3. apply N.ltb_lt in H2.
  repeat split; try assumption.
  intros E. rewrite E, N.eqb_refl in H1. discriminate.
Qed.

Lemma read_lookups_back t data : forall ll blobs obs,
  forallb (wf_lookup t) ll = true ->
  Forall2 blobs_of ll blobs ->
  Forall2 (lookup_matches data) (abs_lookups ll blobs) obs ->
  omapM (read_lookup_subs t data) obs = Ok (map norm_lookup ll).
Proof.
  induction ll as [|l ll IH]; intros blobs obs W HB HM.
  - inversion HB; subst. cbn [abs_lookups] in HM. inversion HM; subst. reflexivity.
  - inversion HB as [|? bs ? blobs' Hl HB']; subst.
    cbn [abs_lookups] in HM. inversion HM as [|? o ? obs' Ho HM']; subst.
    cbn [forallb] in W. apply andb_true_iff in W. destruct W as [W1 W2].
    destruct (wf_lookup_parts t l W1) as (_ & _ & _ & _ & Wsubs).
    destruct Ho as (Ht & Hf & Hm & Hs). cbn [abs_lookup lk_type lk_flags lk_mfs lk_subs] in Ht, Hf, Hm, Hs.
    cbn [omapM map]. unfold read_lookup_subs at 1. rewrite Ht.
    rewrite (read_back_subs t (lc_type l) data (lc_subs l) bs (lo_subpos o) Wsubs Hl Hs). cbn [obind].
    rewrite (IH blobs' obs' W2 HB' HM'). unfold norm_lookup. rewrite Hf, Hm. reflexivity.
Qed.

(* ------------------------------------------------------------------ *)
(* the extension lookup type                                           *)

Lemma ext_type_wf t : forall ll,
  forallb (wf_lookup t) ll = true ->
  ext_type_of ll = ext_of t \/ Forall (fun l => lc_subs l = []) ll.
Proof.
  unfold ext_type_of.
  induction ll as [|l ll IH]; intros W; [right; constructor|].
  cbn [forallb] in W. apply andb_true_iff in W. destruct W as [W1 W2].
  destruct (wf_lookup_parts t l W1) as (_ & _ & _ & _ & Wsubs).
  cbn [map M_find_ext].
  destruct (lc_subs l) as [|s subs] eqn:Es.
  - cbn [map find_ext_subs]. destruct (IH W2) as [E|E]; [left; exact E|right].
    constructor; assumption.
  - cbn [forallb] in Wsubs. apply andb_true_iff in Wsubs. destruct Wsubs as [Ws _].
    apply andb_true_iff in Ws. destruct Ws as [_ Wf].
    cbn [map]. rewrite (fits_decides t (lc_type l) s (map ext_code subs) Wf). left; reflexivity.
Qed.

(* without subtables there are no extension records in the layout ... *)
Lemma parts_no_subs : forall ll i big repl c,
  Forall (fun l => lk_subs l = []) ll ->
  In c (fst (fst (parts i ll big repl)) ++ snd (fst (parts i ll big repl)) ++ snd (parts i ll big repl)) ->
  c_kind c = KTable.
Proof.
  induction ll as [|l r IH]; intros i big repl c Hall; cbn [parts]; [intros []|].
  inversion Hall as [|? ? Hl Hr]; subst.
  specialize (IH (i + 1) big repl c Hr).
  destruct (parts (i + 1) r big repl) as [[R M] E]. cbn [fst snd] in IH |- *.
  rewrite Hl. cbn [sub_chunks ext_chunks app].
  destruct (i =? big); cbn [fst snd].
  - intros H. apply in_app_or in H. destruct H as [H|H]; [apply IH; apply in_or_app; left; exact H|].
    cbn [app In] in H. destruct H as [H|H]; [subst c; reflexivity|].
    apply IH. apply in_or_app. right. exact H.
  - destruct (mem i repl); cbn [fst snd app In]; (intros [H|H]; [subst c; reflexivity|apply IH; exact H]).
Qed.

Lemma layout_no_ext ll L :
  Forall (fun l => lk_subs l = []) ll -> M_ll_layout ll = Ok L ->
  forall c, In c L -> c_kind c <> KExt.
Proof.
  intros Hall HL c Hc.
  destruct (layout_shape_of ll L HL) as [-> _ | big repl R M E Hparts -> _ _ _].
  - destruct Hc as [<-|Hc]; [discriminate|]. apply lookup_chunks_t in Hc. tauto.
  - cbn [app] in Hc. destruct Hc as [<-|Hc]; [discriminate|].
    pose proof (parts_no_subs ll 0 big repl c Hall) as K. rewrite Hparts in K. cbn [fst snd] in K.
    rewrite (K Hc). discriminate.
Qed.

(* ... and then the emitted bytes do not depend on the extension lookup type *)
Lemma emit_ext_indep ll e1 e2 L :
  (forall c, In c L -> c_kind c <> KExt) ->
  forall cs, emit ll e1 L cs = emit ll e2 L cs.
Proof.
  intros HL. induction cs as [|c cs IH]; cbn [emit]; [reflexivity|]. rewrite IH.
  replace (chunk_bytes ll e1 L c) with (chunk_bytes ll e2 L c); [reflexivity|].
  unfold chunk_bytes. destruct (c_kind c); try reflexivity.
  destruct (nth_error ll (N.to_nat (c_t c))); [|reflexivity].
  rewrite (find_pos_none KExt (c_t c) 0 L 0); [reflexivity|].
  intros c' Hc'. apply code_eqb_kind. apply HL. exact Hc'.
Qed.

Lemma abs_no_subs : forall ll blobs,
  Forall (fun l => lc_subs l = []) ll -> Forall2 blobs_of ll blobs ->
  Forall (fun l => lk_subs l = []) (abs_lookups ll blobs).
Proof.
  induction ll as [|l ll IH]; intros blobs Hall HB; inversion HB as [|? bs ? blobs' Hl HB']; subst;
    cbn [abs_lookups]; constructor.
  - inversion Hall as [|? ? El _]; subst. unfold blobs_of in Hl. rewrite El in Hl. inversion Hl. reflexivity.
  - inversion Hall; subst. apply IH; assumption.
Qed.

Lemma ll_encode_ext t ll blobs b :
  forallb (wf_lookup t) ll = true -> Forall2 blobs_of ll blobs ->
  M_ll_encode (abs_lookups ll blobs) (ext_type_of ll) = Ok b ->
  M_ll_encode (abs_lookups ll blobs) (ext_of t) = Ok b.
Proof.
  intros W HB. destruct (ext_type_wf t ll W) as [-> | Hall]; [auto|].
  unfold M_ll_encode. destruct (M_ll_layout (abs_lookups ll blobs)) as [L| | |] eqn:HL; cbn [obind]; auto.
  rewrite (emit_ext_indep _ (ext_type_of ll) (ext_of t) L); [auto|].
  apply (layout_no_ext _ L (abs_no_subs ll blobs Hall HB) HL).
Qed.

Lemma abs_lookup_ok t : forall ll blobs,
  forallb (wf_lookup t) ll = true -> Forall2 blobs_of ll blobs ->
  Forall (lookup_ok (ext_of t)) (abs_lookups ll blobs).
Proof.
  induction ll as [|l ll IH]; intros blobs W HB; inversion HB as [|? bs ? blobs' Hl HB']; subst;
    cbn [abs_lookups]; constructor.
  - cbn [forallb] in W. apply andb_true_iff in W. destruct W as [W1 _].
    destruct (wf_lookup_parts t l W1) as (A & B & C & D & _).
    unfold lookup_ok. cbn [abs_lookup lk_type lk_flags lk_mfs]. auto.
  - cbn [forallb] in W. apply andb_true_iff in W. destruct W as [_ W2]. apply IH; assumption.
Qed.

Lemma blobs_of_omapM ll blobs :
  omapM (fun l => omapM sub_blob (lc_subs l)) ll = Ok blobs -> Forall2 blobs_of ll blobs.
Proof.
  intros H. apply omapM_Forall2 in H.
  induction H as [|l bs ll blobs Hl _ IH]; constructor; [|exact IH].
  unfold blobs_of. apply omapM_Forall2 in Hl.
  induction Hl as [|s b subs bs Hs _ IH']; constructor; [apply sub_blob_inv; exact Hs|exact IH'].
Qed.

(* C08's lookuplist_roundtrip_abstract (Props.v), from its lemma *)
Lemma lookuplist_roundtrip_abstract_l ll extT b pre post :
  extT < 65536 -> Forall (lookup_ok extT) ll -> M_ll_encode ll extT = Ok b ->
  exists obs,
    M_ll_read (pre ++ b ++ post) (lenN pre) extT = Ok obs /\
    Forall2 (lookup_matches (pre ++ b ++ post)) ll obs.
Proof.
  intros Hext Hll. unfold M_ll_encode.
  destruct (M_ll_layout ll) as [L| | |] eqn:HL; cbn [obind]; try discriminate.
  intros He. exact (ll_read_back ll extT L b pre post HL He Hext Hll).
Qed.

(* the lookup list of a well-formed Info: what M_ll_read and the subtable
   readers return for the emitted bytes, wherever they sit *)
Lemma ll_roundtrip_c t ll b pre post :
  forallb (wf_lookup t) ll = true -> M_ll_encode_c ll = Ok b ->
  exists obs,
    M_ll_read (pre ++ b ++ post) (lenN pre) (ext_of t) = Ok obs /\
    omapM (read_lookup_subs t (pre ++ b ++ post)) obs = Ok (map norm_lookup ll).
Proof.
  intros W E. unfold M_ll_encode_c in E.
  destruct (omapM _ ll) as [blobs| | |] eqn:HB; cbn [obind] in E; try discriminate.
  apply blobs_of_omapM in HB.
  apply (ll_encode_ext t ll blobs b W HB) in E.
  destruct (lookuplist_roundtrip_abstract_l (abs_lookups ll blobs) (ext_of t) b pre post
              (ext_of_lt16 t) (abs_lookup_ok t ll blobs W HB) E) as (obs & Hr & Hm).
  exists obs. split; [exact Hr|].
  apply (read_lookups_back t _ ll blobs obs W HB Hm).
Qed.
