(* C08D/Examples.v — non-vacuity: concrete whole tables that satisfy the
   hypotheses of every theorem of Props.v (evaluated inside Coq, which also
   cross-checks the extracted model on these values), and the witnesses of the
   refuted statements. *)
From Coq Require Import List NArith ZArith Bool Lia.
From Common Require Import Bytes Outcome.
From Gen Require Import C08 C08D.
From C08 Require Import Model ModelCD ModelLL ModelSub ModelSub2 ModelFL ModelSL.
From C08B Require Import Model Model2 Model3.
From C08C Require Import ModelCtx ModelChain ModelPre.
From C08D Require Import Model Spec Tie.
Import ListNotations.
Local Open Scope N_scope.

Definition conv_all (_ _ : list N) : bool := true.

Definition vr (xa : Z) : option vrec :=
  Some {| v_xp := 0; v_yp := 0; v_xa := xa; v_ya := 0; v_xpd := 0; v_ypd := 0; v_xad := 0; v_yad := 0 |}.
Definition act1 : list action := [(0, 1); (1, 65535)].
Definition crule1 : crule := {| cr_back := [7; 8]; cr_in := [9]; cr_look := []; cr_acts := act1 |}.

(* ---- a GSUB table with every GSUB subtable kind ---- *)

Definition ex_scripts : list script_entry :=
  [ ([108; 97; 116; 110], Some (65535, [0; 1]), [([84; 82; 75; 32], (1, [0]))]);
    ([103; 114; 101; 107], None, [([69; 76; 76; 32], (65535, []))]) ].
Definition ex_features : list feature :=
  [ ([108; 105; 103; 97], [0; 3]); ([99; 97; 108; 116], []); ([0; 1; 2; 255], [65535]) ].

Definition ex_gsub_lookups : list lookupC :=
  [ {| lc_type := 1; lc_flags := 0; lc_mfs := 7;
       lc_subs := [TGsub11 [3; 4; 9] 65535; TGsub12 [5; 6; 200] [9; 8; 7]] |};
    {| lc_type := 2; lc_flags := 16; lc_mfs := 2; lc_subs := [TGsub21 [1; 2] [[5; 6]; []]] |};
    {| lc_type := 3; lc_flags := 8; lc_mfs := 0; lc_subs := [TGsub31 [65535] [[1; 2; 3]]] |};
    {| lc_type := 4; lc_flags := 65280; lc_mfs := 0;
       lc_subs := [TGsub41 [10; 11] [[(40, [11; 12]); (41, [])]; []]] |};
    {| lc_type := 5; lc_flags := 0; lc_mfs := 0;
       lc_subs := [TSeq1 [20; 21] [Some [([22], act1)]; None];
                   TSeq2 [20] [(20, 1); (30, 0); (31, 2)] [None; Some [([1; 2], [(0, 0)])]; Some []; Some []];
                   TSeq3 [[1; 2]; [3]] act1] |};
    {| lc_type := 6; lc_flags := 0; lc_mfs := 0;
       lc_subs := [TCh1 [50] [Some [crule1]];
                   TCh2 [50; 51] [(1, 1)] [(50, 1); (51, 2)] [] [None; Some [crule1]; None; Some []];
                   TCh3 [[1]] [[2; 3]; [4]] [] act1] |};
    {| lc_type := 8; lc_flags := 1; lc_mfs := 0; lc_subs := [TGsub81 [60; 61] [[1]; [2; 3]] [[4]] [70; 71]] |};
    {| lc_type := 1; lc_flags := 0; lc_mfs := 0; lc_subs := [] |} ].

Definition ex_gsub : info :=
  {| i_scripts := Some ex_scripts; i_features := Some ex_features; i_lookups := Some ex_gsub_lookups |}.

Example ex_gsub_wf : wf_info conv_all GSUB ex_gsub = true.
Proof. vm_compute. reflexivity. Qed.

Example ex_gsub_kinds :
  map kind_of (all_subs ex_gsub_lookups) =
  [RGsub11; RGsub12; RGsub21; RGsub31; RGsub41; RSeq1; RSeq2; RSeq3; RCh1; RCh2; RCh3; RGsub81].
Proof. reflexivity. Qed.

(* encoded (276 bytes ... ) and read back as the normal form: an unused mark
   filtering set is dropped, class 0 entries are dropped, rule sets beyond the
   largest class are dropped *)
Example ex_gsub_roundtrip :
  match M_info_encode ex_gsub with
  | Ok b => M_info_read conv_all GSUB b
  | _ => Err
  end = Ok (obs_of (normal_info ex_gsub)).
Proof. vm_compute. reflexivity. Qed.

Example ex_gsub_not_canonical : normal_info ex_gsub <> ex_gsub.
Proof. vm_compute. discriminate. Qed.

Example ex_gsub_canonical : normal_info (normal_info ex_gsub) = normal_info ex_gsub.
Proof. vm_compute. reflexivity. Qed.

Example ex_gsub_normal_wf : wf_info conv_all GSUB (normal_info ex_gsub) = true.
Proof. vm_compute. reflexivity. Qed.

(* ---- a GPOS table with every GPOS subtable kind that has an encoder ---- *)

Definition an (x y : Z) : anchor := (x, y).

Definition ex_gpos_lookups : list lookupC :=
  [ {| lc_type := 1; lc_flags := 0; lc_mfs := 0;
       lc_subs := [TGpos11 [3; 4] (vr 50); TGpos12 [5; 6] [vr (-3); None]] |};
    {| lc_type := 2; lc_flags := 0; lc_mfs := 0;
       lc_subs := [TGpos21 [(7, [(8, (vr 10, None)); (9, (None, None))])];
                   TGpos22 [7; 8] [(7, 1); (8, 0)] [(9, 1)] [[(None, None); (vr 1, None)]; [(vr 2, None); (None, None)]]] |};
    {| lc_type := 3; lc_flags := 1; lc_mfs := 0;
       lc_subs := [TGpos31 [20; 21] [(an 1 2, an 0 0); (an 0 0, an (-5) 6)]] |};
    {| lc_type := 4; lc_flags := 16; lc_mfs := 65535;
       lc_subs := [TGpos41 [30; 31] [40] [(0, an 1 1); (1, an 2 2)] [[an 5 5; an 0 0]]] |};
    {| lc_type := 6; lc_flags := 0; lc_mfs := 0;
       lc_subs := [TGpos61 [30] [31; 32] [(0, an 9 9)] [[an 1 0]; [an 0 1]]] |};
    {| lc_type := 7; lc_flags := 0; lc_mfs := 0;
       lc_subs := [TSeq1 [20] [Some []]; TSeq3 [[1]] []] |};
    {| lc_type := 8; lc_flags := 0; lc_mfs := 0;
       lc_subs := [TCh1 [50] [None]; TCh3 [] [[2]] [[3]; [4]] act1] |} ].

Definition ex_gpos : info :=
  {| i_scripts := Some ex_scripts; i_features := Some ex_features; i_lookups := Some ex_gpos_lookups |}.

Example ex_gpos_wf : wf_info conv_all GPOS ex_gpos = true.
Proof. vm_compute. reflexivity. Qed.

Example ex_gpos_roundtrip :
  match M_info_encode ex_gpos with
  | Ok b => M_info_read conv_all GPOS b
  | _ => Err
  end = Ok (obs_of (normal_info ex_gpos)).
Proof. vm_compute. reflexivity. Qed.

(* the same lookups are not a GSUB table: the dispatch regenerated from
   gsubReaders has no reader for them *)
Example ex_gpos_not_gsub : wf_info conv_all GSUB ex_gpos = false.
Proof. vm_compute. reflexivity. Qed.

(* sizes: every subtable's encodeLen() is the length of its encode(), and the
   header offsets are the positions of the lists *)
Example ex_sizes :
  forallb (fun s => match encode_subtable s, encodeLen_subtable s with
                    | Ok b, Ok n => n =? lenN b
                    | _, _ => false
                    end) (all_subs ex_gsub_lookups ++ all_subs ex_gpos_lookups) = true.
Proof. vm_compute. reflexivity. Qed.

(* every 16-bit field of the emitted GSUB table holds its value *)
Example ex_gsub_fields_fit :
  match M_sl_encode ex_scripts, M_fl_encode ex_features,
        omapM (fun l => omapM sub_blob (lc_subs l)) ex_gsub_lookups with
  | Ok slb, Ok flb, Ok blobs =>
    match M_ll_layout (abs_lookups ex_gsub_lookups blobs) with
    | Ok L =>
      forallb (fun v => v <=? 65535)
        (info_fields ex_scripts ex_features ex_gsub_lookups 10 (10 + lenN slb) (10 + lenN slb + lenN flb)
                     (abs_lookups ex_gsub_lookups blobs) L)
    | _ => false
    end
  | _, _, _ => false
  end = true.
Proof. vm_compute. reflexivity. Qed.

(* ---- mark-to-ligature: no encoder in the library (open finding) ---- *)

Definition ex_g51 : subtable :=
  TGpos51 [30] [40; 41] [(0, an 1 1)] [[[an 1 2]; [an 3 4]]; [[an 0 0]]].

Example ex_g51_wf : wf_subtable ex_g51 = true /\ sub_fits GPOS 5 ex_g51 = true.
Proof. split; vm_compute; reflexivity. Qed.

Example ex_g51_refused :
  M_info_encode {| i_scripts := Some []; i_features := Some [];
                   i_lookups := Some [{| lc_type := 5; lc_flags := 0; lc_mfs := 0; lc_subs := [ex_g51] |}] |}
  = Panic.
Proof. vm_compute. reflexivity. Qed.

(* ---- a lookup list of more than 64 KiB: extension subtables ---- *)

Definition big_sub (g : N) : subtable := TGsub12 (iota (N.to_nat 11000) g) (many 11000 7).
Definition big_ll : list lookupC :=
  [ {| lc_type := 1; lc_flags := 0; lc_mfs := 0; lc_subs := [big_sub 10] |};
    {| lc_type := 1; lc_flags := 16; lc_mfs := 3; lc_subs := [big_sub 20; TGsub11 [5; 6] 9] |};
    {| lc_type := 1; lc_flags := 0; lc_mfs := 0; lc_subs := [big_sub 30] |};
    {| lc_type := 1; lc_flags := 8; lc_mfs := 0; lc_subs := [big_sub 40] |} ].
Definition big_info : info := {| i_scripts := Some []; i_features := Some []; i_lookups := Some big_ll |}.

Example big_wf : wf_info conv_all GSUB big_info = true.
Proof. vm_compute. reflexivity. Qed.

(* 88 146 bytes; the layout holds extension records; it reads back with the
   original lookup types *)
Example big_encoded :
  match M_info_encode big_info with Ok b => lenN b | _ => 0 end = 88146.
Proof. vm_compute. reflexivity. Qed.

Example big_has_ext :
  match omapM (fun l => omapM sub_blob (lc_subs l)) big_ll with
  | Ok blobs =>
    match M_ll_layout (abs_lookups big_ll blobs) with
    | Ok L => has_ext L
    | _ => false
    end
  | _ => false
  end = true.
Proof. vm_compute. reflexivity. Qed.

Example big_reads_back :
  match M_info_encode big_info with
  | Ok b => match M_info_read conv_all GSUB b with
            | Ok o => match o_lookups o with
                      | Some ls => (map lc_type ls, map (fun l => length (lc_subs l)) ls)
                      | None => ([], [])
                      end
            | _ => ([], [])
            end
  | _ => ([], [])
  end = ([1; 1; 1; 1], [1; 2; 1; 1]%nat).
Proof. vm_compute. reflexivity. Qed.

(* ---- refusals ---- *)

(* a feature list that pushes the lookup list beyond 65535: refused *)
Example ex_header_refusal :
  M_info_encode {| i_scripts := Some []; i_features := Some [([108; 105; 103; 97], many 32756 0)];
                   i_lookups := Some [] |} = Panic /\
  is_ok (M_info_encode {| i_scripts := Some []; i_features := Some [([108; 105; 103; 97], many 32755 0)];
                          i_lookups := Some [] |}) = true.
Proof. split; vm_compute; reflexivity. Qed.

(* ---- nil lists ---- *)

(* a nil ScriptList: whatever else is there, the table reads back empty *)
Example ex_nil_scripts :
  match M_info_encode {| i_scripts := None; i_features := Some ex_features; i_lookups := Some ex_gsub_lookups |} with
  | Ok b => M_info_read conv_all GSUB b
  | _ => Err
  end = Ok empty_obs.
Proof. vm_compute. reflexivity. Qed.

(* a nil FeatureList next to the other two lists: written with offset 0,
   rejected by the reader (the hypothesis "the three lists are present" of
   info_roundtrip is needed) *)
Definition ex_nil_features : info :=
  {| i_scripts := Some ex_scripts; i_features := None; i_lookups := Some ex_gsub_lookups |}.

Example ex_nil_features_refuted :
  is_ok (M_info_encode ex_nil_features) = true /\
  match M_info_encode ex_nil_features with
  | Ok b => M_info_read conv_all GSUB b
  | _ => Ok empty_obs
  end = Err.
Proof. split; vm_compute; reflexivity. Qed.

(* ---- the dispatch ---- *)

Example ex_dispatch :
  dispatch GSUB 5 2 = Ok (Some RSeq2) /\ dispatch GPOS 7 2 = Ok (Some RSeq2) /\
  dispatch GSUB 7 1 = Ok (Some RExt) /\ dispatch GPOS 9 1 = Ok (Some RExt) /\
  dispatch GSUB 9 1 = Ok None /\ dispatch GSUB 1 3 = Ok None /\
  dispatch GSUB 6554 7 = Ok None.                 (* the key would wrap to 11 *)
Proof. repeat split; vm_compute; reflexivity. Qed.
