(* C08D/Proofs_info2.v — Info.Encode / gtab.Read composed: the round trip
   of whole tables. *)
From Coq Require Import List NArith ZArith Bool Lia.
From Common Require Import Bytes Outcome.
From Gen Require Import C08 C08D.
From C08 Require Import Model ModelCD ModelLL ModelSub ModelSub2 ModelFL ModelSL
     Proofs Proofs_sub Proofs_ll Proofs_ll2 Proofs_ll3 Proofs_ll4 Proofs_fl Proofs_sl.
From C08B Require Import Model Model2 Model3.
From C08C Require Import ModelCtx ModelChain.
From C08D Require Import Model Spec Tie Proofs_head Proofs_sub Proofs_info.
Import ListNotations.
Local Open Scope N_scope.

(* ---- boolean well-formedness of the lists vs C08's Prop predicates ---- *)

Lemma tag_okb_ok tg : tag_okb tg = true -> tag_ok tg.
Proof.
  unfold tag_okb, tag_ok. intros H. apply andb_true_iff in H. destruct H as [H1 H2].
  split; [apply nat_eqb_eq; exact H1|].
  eapply forallb_Forall; [|exact H2]. intros x Hx. apply N.ltb_lt. exact Hx.
Qed.

Lemma ls_okb_ok f : ls_okb f = true -> ls_ok f.
Proof.
  unfold ls_okb, ls_ok. intros H. apply andb_true_iff in H. destruct H as [H1 H2].
  split; [apply N.ltb_lt; exact H1|].
  eapply forallb_Forall; [|exact H2]. intros x Hx. apply N.ltb_lt. exact Hx.
Qed.

Lemma entry_okb_ok conv_ok e : entry_okb conv_ok e = true -> entry_rd_ok conv_ok e.
Proof.
  unfold entry_okb, entry_rd_ok. intros H.
  apply andb_true_iff in H. destruct H as [H H3]. apply andb_true_iff in H. destruct H as [H1 H2].
  split; [apply tag_okb_ok; exact H1|]. split.
  - eapply forallb_Forall; [|exact H2]. intros x Hx. apply tag_okb_ok. exact Hx.
  - eapply forallb_Forall; [|exact H3]. intros x Hx. unfold item_okb in Hx. unfold ModelSL.item_ok.
    apply andb_true_iff in Hx. destruct Hx as [Hx Hc]. apply andb_true_iff in Hx. destruct Hx as [Ha Hb].
    split; [apply ls_okb_ok; exact Ha|]. split; [apply N.ltb_lt; exact Hb|exact Hc].
Qed.

Lemma feature_okb_ok f : feature_okb f = true -> feature_ok f.
Proof.
  unfold feature_okb, feature_ok. intros H. apply andb_true_iff in H. destruct H as [H1 H2].
  destruct (tag_okb_ok _ H1) as [A B]. split; [exact A|]. split; [exact B|apply u16s_gids; exact H2].
Qed.

(* ---- the emitted lists are not empty ---- *)

Lemma sl_encode_len es b : M_sl_encode es = Ok b -> 2 <= lenN b.
Proof.
  unfold M_sl_encode. cbv zeta.
  destruct (script_records _ _); cbn [obind]; try discriminate.
  destruct (script_tables _); cbn [obind]; try discriminate.
  intros H. apply ok_inj in H. subst b. rewrite lenN_app, lenN_be16. lia.
Qed.

Lemma fl_encode_len fl b : M_fl_encode fl = Ok b -> 2 <= lenN b.
Proof.
  unfold M_fl_encode. cbv zeta.
  destruct (existsb (fun f => 65535 <? lenN (snd f)) fl); [discriminate|]. destruct (65535 <? _); [discriminate|].
  destruct (fl_records _ _); cbn [obind]; try discriminate.
  intros H. apply ok_inj in H. subst b. rewrite lenN_app, lenN_be16. lia.
Qed.

Lemma ll_read_len data pos extT obs : M_ll_read data pos extT = Ok obs -> seek data pos <> [].
Proof. unfold M_ll_read. destruct (seek data pos); [discriminate|discriminate 2]. Qed.

(* ---- the header ---- *)

Lemma hdr_lenN so fo lo : lenN (hdr so fo lo) = 10.
Proof. reflexivity. Qed.

Lemma info_read_hdr conv_ok t so fo lo rest :
  so < 65536 -> fo < 65536 -> lo < 65536 -> so <> 0 -> lo <> 0 ->
  let data := hdr so fo lo ++ rest in
  M_info_read conv_ok t data =
  if existsb (fun o => (o <? 10) || (lenN data <=? o)) [so; fo; lo] then Err
  else
    sl <- M_sl_read conv_ok data so ;;
    fl <- M_fl_read data fo ;;
    obs <- M_ll_read data lo (ext_of t) ;;
    ls <- omapM (read_lookup_subs t data) obs ;;
    Ok {| o_scripts := sl; o_features := Some fl; o_lookups := Some ls |}.
Proof.
  intros Hs Hf Hl Hs0 Hl0 data. subst data. unfold hdr.
  unfold M_info_read. cbn [app be16].
  rewrite !w16_be16_eq by assumption.
  change (w16 0 1) with 1. change (w16 0 0) with 0.
  change (negb (1 =? c08d_majorVersion) || (c08d_maxMinorVersion <? 0)) with false.
  cbn [N.eqb obind].
  replace ((so =? 0) || (lo =? 0)) with false
    by (symmetry; apply orb_false_iff; split; apply N.eqb_neq; assumption).
  set (data := 0 :: 1 :: 0 :: 0 :: _).
  replace ((negb true && (0 <? 10)) || (lenN data <=? 0)) with false; [reflexivity|].
  symmetry. cbn [negb andb orb]. apply N.leb_gt. unfold data, lenN. cbn [length]. lia.
Qed.

(* ---- the round trip ---- *)

Lemma info_roundtrip_l conv_ok t I b :
  wf_info conv_ok t I = true -> M_info_encode I = Ok b ->
  M_info_read conv_ok t b = Ok (obs_of (normal_info I)).
Proof.
  destruct I as [[es|] [fl|] [ll|]]; cbn [wf_info i_scripts i_features i_lookups]; try discriminate.
  intros W. repeat (apply andb_true_iff in W; destruct W as [W ?W]).
  rename W into Wes, W2 into Wwork, W1 into Wfl, W0 into Wll.
  unfold M_info_encode. cbn [i_scripts i_features i_lookups opt_enc].
  destruct (M_sl_encode es) as [slb| | |] eqn:Esl; cbn [obind]; try discriminate.
  destruct (M_fl_encode fl) as [flb| | |] eqn:Efl; cbn [obind]; try discriminate.
  destruct (M_ll_encode_c ll) as [llb| | |] eqn:Ell; cbn [obind]; try discriminate.
  unfold hdr_offsets. cbn [olen ooff obytes].
  change c08d_maxFeatureListOffset with 65535. change c08d_maxLookupListOffset with 65535.
  destruct ((65535 <? 10 + lenN slb) || (65535 <? 10 + lenN slb + lenN flb)) eqn:G; [discriminate|].
  apply orb_false_iff in G. destruct G as [G1 G2]. apply N.ltb_ge in G1. apply N.ltb_ge in G2.
  intros H. apply ok_inj in H. subst b.
  set (fo := 10 + lenN slb). set (lo := fo + lenN flb).
  pose proof (sl_encode_len _ _ Esl) as Lsl. pose proof (fl_encode_len _ _ Efl) as Lfl.
  change ([0; 1; 0; 0] ++ be16 10 ++ be16 fo ++ be16 lo ++ slb ++ flb ++ llb)
    with (hdr 10 fo lo ++ slb ++ flb ++ llb).
  (* the three lists, each where the header says *)
  assert (Rsl : forall post, M_sl_read conv_ok (hdr 10 fo lo ++ slb ++ post) 10 = Ok (flat_map entry_assignments es)).
  { intros post.
    apply (sl_roundtrip conv_ok es slb (hdr 10 fo lo) post); [|apply N.leb_le; exact Wwork|exact Esl].
    eapply forallb_Forall; [|exact Wes]. apply entry_okb_ok. }
  assert (Rfl : forall post, M_fl_read (hdr 10 fo lo ++ slb ++ flb ++ post) fo = Ok fl).
  { intros post.
    assert (Hfl : Forall feature_ok fl) by (eapply forallb_Forall; [|exact Wfl]; apply feature_okb_ok).
    pose proof (fl_roundtrip fl flb (hdr 10 fo lo ++ slb) post Hfl Efl) as R.
    rewrite lenN_app, hdr_lenN, <- app_assoc in R. exact R. }
  destruct (ll_roundtrip_c t ll llb (hdr 10 fo lo ++ slb ++ flb) [] Wll Ell) as (obs & Rll & Rsubs).
  rewrite app_nil_r in Rll, Rsubs.
  replace ((hdr 10 fo lo ++ slb ++ flb) ++ llb) with (hdr 10 fo lo ++ slb ++ flb ++ llb) in Rll, Rsubs
    by (now rewrite <- !app_assoc).
  replace (lenN (hdr 10 fo lo ++ slb ++ flb)) with lo in Rll
    by (rewrite !lenN_app, hdr_lenN; unfold lo, fo; lia).
  pose proof (ll_read_len _ _ _ _ Rll) as Lll.
  assert (Hsize : lo < lenN (hdr 10 fo lo ++ slb ++ flb ++ llb)).
  { rewrite seek_unfold in Lll.
    destruct (N.ltb_spec lo (lenN (hdr 10 fo lo ++ slb ++ flb ++ llb))) as [H|H]; [exact H|].
    exfalso. apply Lll. apply skipn_all2. unfold lenN in H. lia. }
  rewrite info_read_hdr; try (unfold lo, fo; lia).
  cbv zeta.
  replace (existsb _ [10; fo; lo]) with false.
  2:{ symmetry. cbn [existsb]. rewrite !orb_false_iff. unfold lo, fo in *.
      repeat split; try (apply N.ltb_ge; lia); apply N.leb_gt; lia. }
  rewrite Rsl. cbn [obind]. rewrite Rfl. cbn [obind]. rewrite Rll. cbn [obind].
  rewrite Rsubs. reflexivity.
Qed.
