(* C08D/Spec.v — what the theorems of this part say about an emitted table
   (specification side; nothing here is executed by the correspondence). *)
From Coq Require Import List NArith ZArith Bool Lia.
From Common Require Import Bytes Outcome.
From C08 Require Import Model ModelCD ModelLL ModelSub ModelSub2 ModelFL ModelSL Proofs_sub Proofs_sl.
From C08B Require Import Model Model2 Model3.
From C08C Require Import ModelCtx ModelChain.
From C08D Require Import Model.
Import ListNotations.
Local Open Scope N_scope.

(* the 10-byte GSUB/GPOS header, version 1.0 *)
Definition hdr (so fo lo : N) : list N := [0; 1; 0; 0] ++ be16 so ++ be16 fo ++ be16 lo.

(* [data] holds, from position [base] on, a lookup list laid out as [L]: for
   every lookup its table position fits 16 bits; for every subtable, either
   its offset from the lookup table is the true distance to its bytes and fits
   16 bits, or an extension record sits at a 16-bit distance from the lookup
   table and the subtable's bytes at a 32-bit distance from that record.  (The
   conclusion of C08's lookuplist_offsets.) *)
Definition offsets_true (ll : list lookup) (L : list chunk) (data : list N) (base : N) : Prop :=
  forall k l, nth_error ll k = Some l ->
  exists T,
    find_pos KTable (N.of_nat k) 0 L 0 = Some T /\ T <= 65535 /\
    forall j blob, nth_error (lk_subs l) j = Some blob ->
      (find_pos KExt (N.of_nat k) (N.of_nat j) L 0 = None /\
       exists Sp, find_pos KSub (N.of_nat k) (N.of_nat j) L 0 = Some Sp /\
                  T <= Sp /\ Sp - T <= 65535 /\
                  ModelLL.starts data (base + Sp) blob)
      \/
      (exists Ep Sp,
         find_pos KExt (N.of_nat k) (N.of_nat j) L 0 = Some Ep /\
         find_pos KSub (N.of_nat k) (N.of_nat j) L 0 = Some Sp /\
         T <= Ep /\ Ep - T <= 65535 /\ Ep <= Sp /\ Sp - Ep < 4294967296 /\
         ModelLL.starts data (base + Sp) blob).

(* the emitted bytes of the subtables of a lookup *)
Definition blobs_of (l : lookupC) (bs : list (list N)) : Prop :=
  Forall2 (fun s b => encode_subtable s = Ok b) (lc_subs l) bs.

(* outside the model, as in C08: a lookup list that could reach 4 GiB
   (LookupList.encode lays the chunks out in uint32 arithmetic) *)
Definition too_big (ll : list lookup) : Prop :=
  4294967296 <= sum_sizes (header_chunk (N.of_nat (length ll)) :: lookup_chunks 0 ll) + 8 * total_subs ll.
Definition ll_too_big (ll : list lookupC) : Prop :=
  exists blobs, Forall2 blobs_of ll blobs /\ too_big (abs_lookups ll blobs).

(* the layout holds extension records *)
Definition has_ext (L : list chunk) : bool :=
  existsb (fun c => match c_kind c with KExt => true | _ => false end) L.

(* every subtable of the list: its emitted bytes, and encodeLen() = their length *)
Definition blobs_agree (ll : list lookupC) (blobs : list (list (list N))) : Prop :=
  Forall2 (fun l bs =>
             Forall2 (fun s sb => encode_subtable s = Ok sb /\ encodeLen_subtable s = Ok (lenN sb))
                     (lc_subs l) bs) ll blobs.

(* ------------------------------------------------------------------ *)
(* the 16-bit fields of an emitted table: the Go ints that the encoders
   convert with uint16(..) / byte(x>>8), byte(x), before the conversion.
   "Fits" = every one of them is at most 65535, i.e. was written unchanged. *)

Definition covb (gl : list N) : list N :=
  match M_cov_encode (tab gl) with Ok b => b | _ => [] end.
Definition covn (gl : list N) : N :=
  match M_cov_encode_len (tab gl) with Ok n => n | _ => 0 end.
Definition lensn (l : list (list N)) : list N :=
  match covs_len (set_tables l) with Ok ls => ls | _ => [] end.

Section PairSets.
  Variables f1 f2 : N.
  Fixpoint pair_set_offs (gs : list pgroup) (off : N) : list N :=
    match gs with [] => [] | g :: r => off :: pair_set_offs r (off + pset_size f1 f2 (snd g)) end.
End PairSets.

(* per subtable: offsets and counts in the order of emission (the field lists
   of C08B and C08C for their formats; for the formats of C08: coverage
   offset, counts, the offset arrays, the per-record counts) *)
Definition subtable_fields (s : subtable) : list N :=
  match s with
  | TGsub11 gl d => [6]
  | TGsub12 gl subst => [6 + 2 * lenN subst; lenN subst]
  | TGsub21 gl seqs | TGsub31 gl seqs =>
    (6 + 2 * lenN seqs + seq_sizes seqs) :: lenN seqs ::
    seq_offs seqs (6 + 2 * lenN seqs) ++ map (fun q => lenN q) seqs
  | TGsub41 gl sets =>
    (6 + 2 * lenN sets + ModelSub.sets_size sets) :: lenN sets ::
    ModelSub.set_offs sets (6 + 2 * lenN sets) ++
    flat_map (fun q : list lig =>
                lenN q :: lig_offs q (2 + 2 * lenN q) ++ map (fun l : lig => lenN (snd l) + 1) q) sets
  | TGsub81 gl bk la subst =>
    M_gsub81_fields (covn gl) (lensn bk) (lensn la) (lenN bk) (lenN la) (lenN subst)
  | TGpos11 gl adj => [6 + M_vr_encode_len (M_vr_format adj); M_vr_format adj]
  | TGpos12 gl adj =>
    [8 + (match adj with [] => 0 | _ => M_vr_encode_len (vr_union adj) * lenN adj end);
     vr_union adj; lenN adj]
  | TGpos21 gs =>
    [10 + 2 * lenN gs; vf1_of gs; vf2_of gs; lenN gs] ++
    pair_set_offs (vf1_of gs) (vf2_of gs) gs (10 + 2 * lenN gs + lenN (covb (map fst gs))) ++
    map (fun g : pgroup => lenN (snd g)) gs
  | TGpos22 gl cd1 cd2 adj => gpos22_fields gl cd1 cd2 adj (covb gl)
  | TGpos31 gl recs => gpos31_fields recs
  | TGpos41 glm glb marks base => markbase_fields (covb glm) (covb glb) marks base
  | TGpos51 glm gll marks ligs => []                  (* never written: no encoder *)
  | TGpos61 glm glb marks base => markbase_fields (covb glm) (covb glb) marks base
  | TSeq1 gl rules => M_seq1_fields rules
  | TSeq2 gl cls rules => M_seq2_fields (covn gl) rules
  | TSeq3 inp acts => M_seq3_fields (lensn inp) inp acts
  | TCh1 gl rules => M_ch1_fields (covn gl) rules
  | TCh2 gl cb ci cl rules =>
    M_ch2_fields (covn gl) (M_cd_append_len cb) (M_cd_append_len ci) (M_cd_append_len cl) rules
  | TCh3 bk inp la acts => M_ch3_fields (lensn bk) (lensn inp) (lensn la) bk inp la acts
  end.

(* feature list: count, the feature table offsets, the lookup index counts *)
Definition feature_fields (fl : list feature) : list N :=
  lenN fl :: fl_offs fl (2 + 6 * lenN fl) ++ map (fun f : feature => lenN (snd f)) fl.

(* script list: count and script table offsets; per script table the default
   LangSys offset, the LangSys count and offsets, the feature index counts *)
Definition script_fields (es : list script_entry) : list N :=
  lenN es :: soffs es (2 + 6 * lenN es) ++
  flat_map (fun e : script_entry =>
              (match e_def e with Some _ => 4 + 6 * lenN (e_langs e) | None => 0 end) ::
              lenN (e_langs e) ::
              loffs (e_langs e) (4 + 6 * lenN (e_langs e) + def_size (e_def e)) ++
              map (fun x : item => lenN (snd (snd x))) (items_of e)) es.

Definition all_subs (ll : list lookupC) : list subtable := flat_map lc_subs ll.

(* all of them, for an Info whose three lists are present: header offsets,
   script list, feature list, lookup list (laid out as L), subtables *)
Definition info_fields (es : list script_entry) (fl : list feature) (ll : list lookupC)
           (so fo lo : N) (abs : list lookup) (L : list chunk) : list N :=
  [so; fo; lo] ++ script_fields es ++ feature_fields fl ++
  lenN abs :: ll_fields L 0 abs ++ flat_map subtable_fields (all_subs ll).

(* ------------------------------------------------------------------ *)
(* the lookup types and subtable formats of the OpenType text (GSUB: "GSUB
   LookupType enumeration", GPOS: "GPOS LookupType enumeration", and the
   formats defined for each type), written from the specification *)
Definition S_dispatch (t : table) (lt fmt : N) : option rkind :=
  if (10 <=? lt) || (10 <=? fmt) then None else          (* no lookup type or format above 9 *)
  match t, lt, fmt with
  | GSUB, 1, 1 => Some RGsub11 | GSUB, 1, 2 => Some RGsub12      (* single substitution *)
  | GSUB, 2, 1 => Some RGsub21                                   (* multiple substitution *)
  | GSUB, 3, 1 => Some RGsub31                                   (* alternate substitution *)
  | GSUB, 4, 1 => Some RGsub41                                   (* ligature substitution *)
  | GSUB, 5, 1 => Some RSeq1 | GSUB, 5, 2 => Some RSeq2 | GSUB, 5, 3 => Some RSeq3   (* contextual *)
  | GSUB, 6, 1 => Some RCh1 | GSUB, 6, 2 => Some RCh2 | GSUB, 6, 3 => Some RCh3      (* chained contexts *)
  | GSUB, 7, 1 => Some RExt                                      (* extension substitution *)
  | GSUB, 8, 1 => Some RGsub81                                   (* reverse chaining single *)
  | GPOS, 1, 1 => Some RGpos11 | GPOS, 1, 2 => Some RGpos12      (* single adjustment *)
  | GPOS, 2, 1 => Some RGpos21 | GPOS, 2, 2 => Some RGpos22      (* pair adjustment *)
  | GPOS, 3, 1 => Some RGpos31                                   (* cursive attachment *)
  | GPOS, 4, 1 => Some RGpos41                                   (* mark-to-base *)
  | GPOS, 5, 1 => Some RGpos51                                   (* mark-to-ligature *)
  | GPOS, 6, 1 => Some RGpos61                                   (* mark-to-mark *)
  | GPOS, 7, 1 => Some RSeq1 | GPOS, 7, 2 => Some RSeq2 | GPOS, 7, 3 => Some RSeq3   (* contextual *)
  | GPOS, 8, 1 => Some RCh1 | GPOS, 8, 2 => Some RCh2 | GPOS, 8, 3 => Some RCh3      (* chained contexts *)
  | GPOS, 9, 1 => Some RExt                                      (* extension positioning *)
  | _, _, _ => None
  end.
