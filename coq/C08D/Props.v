(* C08D/Props.v — part C08D of property C08: whole GSUB/GPOS tables,
   gtab.Info.Encode and gtab.Read composed from the codecs of C08, C08B and
   C08C.  The property theorems.  Nothing else.

   Conventions.  [subtable] is the sum of all subtable models (Model.v); a
   coverage table is given by its glyph list.  [wf_info conv_ok t I] is the
   boolean well-formedness of an Info for table t (GSUB | GPOS): the three
   lists present (not nil), every script entry, feature and lookup within its
   Go types, every subtable well-formed by the predicate of its part and of a
   kind that the dispatch REGENERATED from gsubReaders / gposReaders reads
   under the lookup's type; conv_ok is otfToBCP47 succeeding (x/text: C14).
   [obs_of] is what gtab.Read shows of an Info (the ScriptList map as its
   assignments), [normal_info] the reader's normal form composed from the
   normal forms of the parts.  Examples.v shows inhabitants with every subtable
   kind, a lookup list beyond 64 KiB with extension records, refusals, nil
   lists, and the witnesses of the refuted statements. *)
From Coq Require Import List NArith ZArith Bool Lia.
From Common Require Import Bytes Outcome.
From Gen Require Import C08 C08D.
From C08 Require Import Model ModelCD ModelLL ModelSub ModelSub2 ModelFL ModelSL.
From C08B Require Import Model Model2 Model3.
From C08C Require Import ModelCtx ModelChain.
From C08D Require Import Model Spec Tie Proofs_head Proofs_sub Proofs_info Proofs_info2 Proofs_total
     Proofs_info3 Proofs_fits Proofs_props Examples.
Import ListNotations.
Local Open Scope N_scope.

(* ---------------- the subtable sum type ---------------- *)

(* encodeLen() = len(encode()) for every well-formed subtable the encoder does
   not refuse, of every kind (composed from the _len_agrees theorems) *)
Theorem subtable_len_agrees :
  forall (s : subtable) (b : list N),
    wf_subtable s = true -> encode_subtable s = Ok b -> encodeLen_subtable s = Ok (lenN b).
Proof. exact Proofs_sub.subtable_len_agrees. Qed.
Print Assumptions subtable_len_agrees.

(* whatever the encoder writes for a well-formed subtable - wherever the bytes
   sit in a file - the dispatch of readGsubSubtable / readGposSubtable
   (regenerated from the Go source) leads to the kind's reader under the
   lookup type, and the reader returns the normal form *)
Theorem subtable_roundtrip :
  forall (t : table) (lt : N) (s : subtable) (b pre post : list N),
    wf_subtable s = true -> sub_fits t lt s = true -> encode_subtable s = Ok b ->
    read_subtable t (pre ++ b ++ post) (lenN pre) lt = Ok (normal_subtable s).
Proof. exact subtable_read_back. Qed.
Print Assumptions subtable_roundtrip.

(* the encoder refuses loudly or every 16-bit offset and count it writes is
   the value itself (composed from the _refuses_or_fits theorems of C08B and
   C08C and the guards of the C08 encoders) *)
Theorem subtable_refuses_or_fits :
  forall (s : subtable), wf_subtable s = true ->
    encode_subtable s = Panic \/
    exists b, encode_subtable s = Ok b /\ Forall (fun v => v <= 65535) (subtable_fields s).
Proof. exact subtable_refuses_or_fits_l. Qed.
Print Assumptions subtable_refuses_or_fits.

(* encode() and encodeLen() return a value or panic: no other outcome, for
   every subtable (well-formed or not) *)
Theorem subtable_encode_total :
  forall (s : subtable),
    ((exists b, encode_subtable s = Ok b) \/ encode_subtable s = Panic) /\
    ((exists n, encodeLen_subtable s = Ok n) \/ encodeLen_subtable s = Panic).
Proof. exact subtable_encode_total_l. Qed.
Print Assumptions subtable_encode_total.

(* ---------------- the regenerated dispatch ---------------- *)

(* every (table, lookup type, format) is answered: all readers named in
   gsubReaders / gposReaders are known to the model; beyond type 9 / format 9
   there is no reader (the key 10*type+format is uint16 arithmetic) *)
Theorem dispatch_regenerated_total :
  forall (t : table) (lt fmt : N),
    (exists o, dispatch t lt fmt = Ok o) /\
    (10 <= lt \/ 10 <= fmt -> dispatch t lt fmt = Ok None).
Proof. intros. split; [apply dispatch_total|apply dispatch_large]. Qed.
Print Assumptions dispatch_regenerated_total.

(* the dispatch regenerated from gsubReaders / gposReaders and the functions
   readGsubSubtable / readGposSubtable IS the table of lookup types and
   subtable formats of the OpenType text (S_dispatch, Spec.v) *)
Theorem dispatch_matches_opentype :
  forall (t : table) (lt fmt : N), dispatch t lt fmt = Ok (S_dispatch t lt fmt).
Proof. exact dispatch_spec. Qed.
Print Assumptions dispatch_matches_opentype.

(* readExtensionSubtable is reached exactly by the extension lookup type of the
   table (GSUB 7, GPOS 9) with format 1 *)
Theorem dispatch_extension :
  forall (t : table) (lt fmt : N),
    dispatch t lt fmt = Ok (Some RExt) <-> lt = ext_of t /\ fmt = 1.
Proof. exact dispatch_ext_iff. Qed.
Print Assumptions dispatch_extension.

(* ---------------- whole tables ---------------- *)

(* info_roundtrip: for every well-formed Info, whatever Info.Encode returns,
   gtab.Read decodes to the normal form of the Info *)
Theorem info_roundtrip :
  forall (conv_ok : list N -> list N -> bool) (t : table) (I : info) (b : list N),
    wf_info conv_ok t I = true -> M_info_encode I = Ok b ->
    M_info_read conv_ok t b = Ok (obs_of (normal_info I)).
Proof. exact info_roundtrip_l. Qed.
Print Assumptions info_roundtrip.

(* ... which is the Info itself when it is canonical *)
Theorem info_roundtrip_canonical :
  forall (conv_ok : list N -> list N -> bool) (t : table) (I : info) (b : list N),
    wf_info conv_ok t I = true -> normal_info I = I -> M_info_encode I = Ok b ->
    M_info_read conv_ok t b = Ok (obs_of I).
Proof. exact info_roundtrip_canonical_l. Qed.
Print Assumptions info_roundtrip_canonical.

(* info_sizes_consistent: the emitted table is header ++ script list ++ feature
   list ++ lookup list; the header offsets are the positions of the lists and
   fit 16 bits; the total is the sum of the parts; the lookup list was laid out
   from encodeLen() and emitted from encode(), which agree for every subtable;
   its emitted length is the planned total; and inside it every lookup offset,
   subtable offset and extension offset is the true distance to the piece it
   names (offsets_true: the conclusion of C08's lookuplist_offsets, for the
   concrete subtables) *)
Theorem info_sizes_consistent :
  forall (conv_ok : list N -> list N -> bool) (t : table)
         (es : list script_entry) (fl : list feature) (ll : list lookupC) (b : list N),
    wf_info conv_ok t {| i_scripts := Some es; i_features := Some fl; i_lookups := Some ll |} = true ->
    M_info_encode {| i_scripts := Some es; i_features := Some fl; i_lookups := Some ll |} = Ok b ->
    exists slb flb llb blobs L,
      M_sl_encode es = Ok slb /\ M_fl_encode fl = Ok flb /\
      blobs_agree ll blobs /\
      M_ll_layout (abs_lookups ll blobs) = Ok L /\
      emit (abs_lookups ll blobs) (ext_type_of ll) L L = Ok llb /\
      lenN llb = sum_sizes L /\
      b = hdr 10 (10 + lenN slb) (10 + lenN slb + lenN flb) ++ slb ++ flb ++ llb /\
      lenN b = 10 + lenN slb + lenN flb + lenN llb /\
      10 + lenN slb <= 65535 /\ 10 + lenN slb + lenN flb <= 65535 /\
      offsets_true (abs_lookups ll blobs) L b (10 + lenN slb + lenN flb).
Proof. exact info_sizes_l. Qed.
Print Assumptions info_sizes_consistent.

(* info_refuses_or_fits: Info.Encode refuses loudly (or the lookup list could
   reach 4 GiB: outside the model, as in C08), or every 16-bit field of the
   emitted table holds the true value: the header offsets, the counts and
   offsets of the script list and of the feature list, the lookup count, every
   lookup offset, subtable count and subtable offset, and the fields of every
   subtable (info_fields, Spec.v) *)
Theorem info_refuses_or_fits :
  forall (conv_ok : list N -> list N -> bool) (t : table)
         (es : list script_entry) (fl : list feature) (ll : list lookupC),
    wf_info conv_ok t {| i_scripts := Some es; i_features := Some fl; i_lookups := Some ll |} = true ->
    let I := {| i_scripts := Some es; i_features := Some fl; i_lookups := Some ll |} in
    M_info_encode I = Panic \/
    (M_info_encode I = OutOfFuel /\ ll_too_big ll) \/
    exists b slb flb blobs L,
      M_info_encode I = Ok b /\
      M_sl_encode es = Ok slb /\ M_fl_encode fl = Ok flb /\
      Forall2 blobs_of ll blobs /\ M_ll_layout (abs_lookups ll blobs) = Ok L /\
      Forall (fun v => v <= 65535)
        (info_fields es fl ll 10 (10 + lenN slb) (10 + lenN slb + lenN flb) (abs_lookups ll blobs) L).
Proof. exact info_refuses_or_fits_l. Qed.
Print Assumptions info_refuses_or_fits.

(* info_extension_transparent: when the layout of the emitted lookup list
   holds extension records, the extension lookup type is the table's, and the
   table reads back with the original lookup types and the (normal forms of
   the) original subtables: nothing of the conversion shows *)
Theorem info_extension_transparent :
  forall (conv_ok : list N -> list N -> bool) (t : table)
         (es : list script_entry) (fl : list feature) (ll : list lookupC) (b : list N),
    wf_info conv_ok t {| i_scripts := Some es; i_features := Some fl; i_lookups := Some ll |} = true ->
    M_info_encode {| i_scripts := Some es; i_features := Some fl; i_lookups := Some ll |} = Ok b ->
    exists blobs L llb,
      Forall2 blobs_of ll blobs /\ M_ll_layout (abs_lookups ll blobs) = Ok L /\
      emit (abs_lookups ll blobs) (ext_type_of ll) L L = Ok llb /\
      (has_ext L = true ->
       ext_type_of ll = ext_of t /\
       exists obs, M_info_read conv_ok t b = Ok obs /\ o_lookups obs = Some (map norm_lookup ll) /\
                   map lc_type (map norm_lookup ll) = map lc_type ll).
Proof. exact info_extension_transparent_l. Qed.
Print Assumptions info_extension_transparent.

(* info_encode_total: Info.Encode returns bytes or refuses loudly; it never
   returns an error; the only other outcome of the model is a lookup list that
   could reach 4 GiB *)
Theorem info_encode_total :
  forall (conv_ok : list N -> list N -> bool) (t : table) (I : info),
    wf_info conv_ok t I = true ->
    (exists b, M_info_encode I = Ok b) \/ M_info_encode I = Panic \/
    (M_info_encode I = OutOfFuel /\ exists ll, i_lookups I = Some ll /\ ll_too_big ll).
Proof. exact info_encode_total_l. Qed.
Print Assumptions info_encode_total.

(* ... and the refusals are the documented ones: the script list or the
   feature list refuses (an offset or count beyond 16 bits), a subtable encoder
   refuses (its own theorems say when), the lookup-list layout refuses (C08:
   too many lookups / subtables, a lookup whose own subtables exceed 64 KiB,
   too much data even with extension records), or a header offset exceeds
   65535 *)
Theorem info_refusals_documented :
  forall (conv_ok : list N -> list N -> bool) (t : table)
         (es : list script_entry) (fl : list feature) (ll : list lookupC),
    wf_info conv_ok t {| i_scripts := Some es; i_features := Some fl; i_lookups := Some ll |} = true ->
    M_info_encode {| i_scripts := Some es; i_features := Some fl; i_lookups := Some ll |} = Panic ->
    M_sl_encode es = Panic \/ M_fl_encode fl = Panic \/
    (exists l s, In l ll /\ In s (lc_subs l) /\ encode_subtable s = Panic) \/
    (exists blobs, Forall2 blobs_of ll blobs /\ M_ll_encode (abs_lookups ll blobs) (ext_type_of ll) = Panic) \/
    (exists slb flb, M_sl_encode es = Ok slb /\ M_fl_encode fl = Ok flb /\
                     (65535 < 10 + lenN slb \/ 65535 < 10 + lenN slb + lenN flb)).
Proof. exact info_refusal. Qed.
Print Assumptions info_refusals_documented.

(* ---------------- nil lists ---------------- *)

(* a nil ScriptList or LookupList is written as offset 0 and the table - whatever
   else it holds - reads back as the empty Info *)
Theorem info_nil_lists_read_empty :
  forall (conv_ok : list N -> list N -> bool) (t : table) (I : info) (b : list N),
    i_scripts I = None \/ i_lookups I = None -> M_info_encode I = Ok b ->
    M_info_read conv_ok t b = Ok empty_obs.
Proof. exact info_nil_reads_empty. Qed.
Print Assumptions info_nil_lists_read_empty.

(* the round trip needs the three lists to be present: a nil FeatureList next
   to a script list and a lookup list is written (no refusal) with
   featureListOffset 0 and rejected by the reader (open finding
   info-nil-list-lost; witness replayed on the Go code in corpus/C08D) *)
Theorem info_roundtrip_nil_featurelist_refuted :
  exists (I : info) (b : list N),
    i_scripts I <> None /\ i_lookups I <> None /\ i_features I = None /\
    M_info_encode I = Ok b /\ M_info_read conv_all GSUB b = Err.
Proof.
  destruct ex_nil_features_refuted as [H1 H2].
  destruct (M_info_encode ex_nil_features) as [b| | |] eqn:E; try discriminate H1.
  exists ex_nil_features, b. repeat split; try discriminate; assumption.
Qed.
Print Assumptions info_roundtrip_nil_featurelist_refuted.
