(* C08D/Proofs_sub.v — the subtable sum type: size agreement and round trip
   of every kind, composed from the theorems of C08, C08B and C08C. *)
From Coq Require Import List NArith ZArith Bool Lia.
From Common Require Import Bytes Outcome.
From C08 Require Import Model ModelCD ModelLL ModelSub ModelSub2 Proofs Proofs_sub Proofs_sub2 Proofs_sub3.
From C08B Require Import Model Model2 Model3 Proofs_mark Proofs_g31 Proofs_g22.
From C08C Require Import ModelCtx ModelChain Proofs_seq Proofs_chain Proofs_cov3.
From C08D Require Import Model Proofs_head.
Import ListNotations.
Local Open Scope N_scope.

(* ---- boolean predicates of this part vs the Prop predicates of C08 ---- *)

Lemma nat_eqb_eq a b : nat_eqb a b = true -> a = b.
Proof. apply Nat.eqb_eq. Qed.

Lemma gset_ok_split gl : gset_ok gl = true -> strictly_inc gl = true /\ glyphs_ok gl = true.
Proof. unfold gset_ok. intros H. apply andb_true_iff in H. exact H. Qed.

Lemma u16s_gids l : u16s_ok l = true -> gids_ok l.
Proof.
  unfold u16s_ok, gids_ok. intros H. apply Forall_forall. intros x Hx.
  rewrite forallb_forall in H. apply N.ltb_lt. auto.
Qed.

Lemma forallb_Forall {A} (p : A -> bool) (P : A -> Prop) l :
  (forall x, p x = true -> P x) -> forallb p l = true -> Forall P l.
Proof.
  intros HP H. apply Forall_forall. intros x Hx. rewrite forallb_forall in H. auto.
Qed.

Lemma seq_okb_ok s : seq_okb s = true -> seq_ok s.
Proof.
  unfold seq_okb, seq_ok. intros H. apply andb_true_iff in H. destruct H as [H1 H2].
  split; [apply u16s_gids; exact H1|apply N.ltb_lt; exact H2].
Qed.

Lemma lig_okb_ok l : lig_okb l = true -> lig_ok l.
Proof.
  unfold lig_okb, lig_ok. intros H. apply andb_true_iff in H. destruct H as [H1 H2].
  split; [apply N.ltb_lt; exact H1|apply u16s_gids; exact H2].
Qed.

Lemma pitem_okb_ok it : pitem_okb it = true -> item_ok it.
Proof.
  unfold pitem_okb, item_ok. intros H. apply andb_true_iff in H. destruct H as [H1 H2].
  split; apply vr_okb_ok; assumption.
Qed.

Lemma group_okb_ok g : group_okb g = true -> group_ok g.
Proof.
  unfold group_okb, group_ok. intros H.
  repeat (apply andb_true_iff in H; destruct H as [H ?H]).
  repeat split; try assumption.
  - intros E. rewrite E in H. discriminate.
  - eapply forallb_Forall; [|eassumption]. apply pitem_okb_ok.
Qed.

Lemma groups_okb_ok gs : groups_okb gs = true -> groups_ok gs.
Proof.
  unfold groups_okb, groups_ok. intros H.
  repeat (apply andb_true_iff in H; destruct H as [H ?H]).
  repeat split; try assumption.
  eapply forallb_Forall; [|eassumption]. apply group_okb_ok.
Qed.

Lemma gls_pairs gl : gls (S_cov_pairs gl) = gl.
Proof. unfold gls, S_cov_pairs. apply map_fst_cov_pairs. Qed.

Lemma map_gls_pairs l : map gls (map S_cov_pairs l) = l.
Proof. induction l as [|x l IH]; cbn [map]; [reflexivity|]. now rewrite gls_pairs, IH. Qed.

Lemma keys_tab gl : glyphs_ok gl = true -> keys_ok (tab gl) = true.
Proof. apply keys_ok_table. Qed.

Lemma keys_tabs l : forallb glyphs_ok l = true -> forallb keys_ok (map tab l) = true.
Proof.
  induction l as [|x l IH]; cbn [map forallb]; [reflexivity|].
  intros H. apply andb_true_iff in H. destruct H as [H1 H2].
  rewrite keys_tab by assumption. now rewrite IH.
Qed.

Lemma gsets_glyphs l : forallb gset_ok l = true -> forallb glyphs_ok l = true.
Proof.
  induction l as [|x l IH]; cbn [forallb]; [reflexivity|].
  intros H. apply andb_true_iff in H. destruct H as [H1 H2].
  destruct (gset_ok_split _ H1) as [_ ->]. now rewrite IH.
Qed.

(* ------------------------------------------------------------------ *)
(* encodeLen() = len(encode())                                         *)

Local Opaque gset_ok.

Ltac split_wf H :=
  repeat (apply andb_true_iff in H; let H' := fresh "W" in destruct H as [H H']).

Lemma subtable_len_agrees s b :
  wf_subtable s = true -> encode_subtable s = Ok b -> encodeLen_subtable s = Ok (lenN b).
Proof.
  destruct s; cbn [wf_subtable encode_subtable encodeLen_subtable]; intros W E.
  - split_wf W. destruct (gset_ok_split _ W) as [_ G]. eapply gsub11_len_agrees; eassumption.
  - split_wf W. destruct (gset_ok_split _ W) as [_ G]. eapply gsub12_len_agrees; eassumption.
  - split_wf W. destruct (gset_ok_split _ W) as [_ G]. eapply gsubseq_len_agrees; eassumption.
  - split_wf W. destruct (gset_ok_split _ W) as [_ G]. eapply gsubseq_len_agrees; eassumption.
  - split_wf W. destruct (gset_ok_split _ W) as [_ G]. eapply gsub41_len_agrees; eassumption.
  - unfold gsub81_wf in W. split_wf W. destruct (gset_ok_split _ W) as [_ G].
    apply gsub81_len_agrees; try assumption.
    + apply keys_tab; assumption.
    + apply keys_tabs, gsets_glyphs; assumption.
    + apply keys_tabs, gsets_glyphs; assumption.
  - split_wf W. destruct (gset_ok_split _ W) as [_ G]. eapply gpos11_len_agrees; eassumption.
  - split_wf W. destruct (gset_ok_split _ W) as [_ G]. eapply gpos12_len_agrees; eassumption.
  - unfold groups_okb in W. split_wf W. eapply gpos21_len_agrees; eassumption.
  - eapply (gpos22_len_agrees true); eassumption.
  - unfold gpos31_wf in W. split_wf W. apply gpos31_len_agrees; [apply keys_tab|]; assumption.
  - unfold markbase_wf in W. split_wf W.
    eapply markbase_len_agrees; [apply keys_tab|apply keys_tab|exact E]; assumption.
  - discriminate E.
  - unfold markbase_wf in W. split_wf W.
    eapply markbase_len_agrees; [apply keys_tab|apply keys_tab|exact E]; assumption.
  - unfold seq1_wf in W. split_wf W. destruct (gset_ok_split _ W) as [_ G].
    apply seq1_len_agrees; [apply keys_tab|]; assumption.
  - unfold seq2_wf in W. split_wf W. destruct (gset_ok_split _ W) as [_ G].
    apply seq2_len_agrees; [apply keys_tab| |]; assumption.
  - unfold seq3_wf in W. split_wf W. apply seq3_len_agrees; [apply gsets_glyphs|]; assumption.
  - unfold ch1_wf in W. split_wf W. destruct (gset_ok_split _ W) as [_ G].
    apply ch1_len_agrees; [apply keys_tab|]; assumption.
  - unfold ch2_wf in W. split_wf W. destruct (gset_ok_split _ W) as [_ G].
    destruct (cd_nz_ok _ W3) as [K1 _]. destruct (cd_nz_ok _ W2) as [K2 _]. destruct (cd_nz_ok _ W1) as [K3 _].
    apply ch2_len_agrees; [apply keys_tab| | | |]; assumption.
  - unfold ch3_wf in W. split_wf W. apply ch3_len_agrees; try apply gsets_glyphs; assumption.
Qed.

(* ------------------------------------------------------------------ *)
(* read (encode s) = the normal form of s, wherever the bytes sit        *)

Lemma subtable_roundtrip s b pre post :
  wf_subtable s = true -> encode_subtable s = Ok b ->
  run_reader (kind_of s) (pre ++ b ++ post) (lenN pre) = Ok (SRSub (normal_subtable s)).
Proof.
  destruct s; cbn [wf_subtable encode_subtable kind_of run_reader normal_subtable]; intros W E.
  - split_wf W. destruct (gset_ok_split _ W) as [S G]. apply N.ltb_lt in W0.
    rewrite (gsub11_roundtrip _ _ _ pre post S G W0 E). reflexivity.
  - split_wf W. destruct (gset_ok_split _ W) as [S G].
    rewrite (gsub12_roundtrip _ _ _ pre post S G (u16s_gids _ W1) (nat_eqb_eq _ _ W0) E).
    cbn [obind fst snd]. now rewrite gls_pairs.
  - split_wf W. destruct (gset_ok_split _ W) as [S G].
    rewrite (gsubseq_roundtrip _ _ _ pre post S G (forallb_Forall _ _ _ seq_okb_ok W1) (nat_eqb_eq _ _ W0) E).
    cbn [obind fst snd]. now rewrite gls_pairs.
  - split_wf W. destruct (gset_ok_split _ W) as [S G].
    rewrite (gsubseq_roundtrip _ _ _ pre post S G (forallb_Forall _ _ _ seq_okb_ok W1) (nat_eqb_eq _ _ W0) E).
    cbn [obind fst snd]. now rewrite gls_pairs.
  - split_wf W. destruct (gset_ok_split _ W) as [S G].
    assert (HL : Forall (Forall lig_ok) sets).
    { eapply forallb_Forall; [|exact W1]. intros x Hx. eapply forallb_Forall; [|exact Hx]. apply lig_okb_ok. }
    rewrite (gsub41_roundtrip _ _ _ pre post S G HL (nat_eqb_eq _ _ W0) E).
    cbn [obind fst snd]. now rewrite gls_pairs.
  - rewrite (gsub81_roundtrip _ _ _ _ _ pre post W E). cbn [obind].
    now rewrite gls_pairs, !map_gls_pairs.
  - split_wf W. destruct (gset_ok_split _ W) as [S G].
    rewrite (gpos11_roundtrip _ _ _ pre post S G (vr_okb_ok _ W0) E).
    cbn [obind fst snd]. now rewrite gls_pairs.
  - split_wf W. destruct (gset_ok_split _ W) as [S G].
    rewrite (gpos12_roundtrip _ _ _ pre post S G (forallb_Forall _ _ _ vr_okb_ok W1) (nat_eqb_eq _ _ W0) E).
    cbn [obind fst snd]. now rewrite gls_pairs.
  - rewrite (gpos21_roundtrip _ _ pre post (groups_okb_ok _ W) E). reflexivity.
  - rewrite (gpos22_roundtrip _ _ _ _ _ pre post W E). reflexivity.
  - rewrite (gpos31_roundtrip _ _ _ pre post W E). cbn [obind fst snd]. now rewrite gls_pairs.
  - unfold M_gpos41_read. rewrite (markbase_roundtrip _ _ _ _ _ pre post W E). cbn [obind].
    now rewrite !gls_pairs.
  - discriminate E.
  - unfold M_gpos61_read. rewrite (markbase_roundtrip _ _ _ _ _ pre post W E). cbn [obind].
    now rewrite !gls_pairs.
  - rewrite (seq1_roundtrip _ _ _ pre post W E). cbn [obind fst snd]. now rewrite gls_pairs.
  - rewrite (seq2_roundtrip _ _ _ _ pre post W E). unfold seq2_norm. cbn [obind]. now rewrite gls_pairs.
  - rewrite (seq3_roundtrip _ _ _ pre post W E). reflexivity.
  - rewrite (ch1_roundtrip _ _ _ pre post W E). cbn [obind fst snd]. now rewrite gls_pairs.
  - rewrite (ch2_roundtrip _ _ _ _ _ _ pre post W E). unfold ch2_norm. cbn [obind]. now rewrite gls_pairs.
  - rewrite (ch3_roundtrip _ _ _ _ _ pre post W E). reflexivity.
Qed.

(* ------------------------------------------------------------------ *)
(* encoders: bytes or a loud refusal                                    *)

Lemma sub_blob_ok s b :
  wf_subtable s = true -> encode_subtable s = Ok b -> sub_blob s = Ok b.
Proof.
  intros W E. unfold sub_blob. rewrite (subtable_len_agrees s b W E), E. cbn [obind].
  now rewrite N.eqb_refl.
Qed.

Lemma sub_blob_inv s b : sub_blob s = Ok b -> encode_subtable s = Ok b.
Proof.
  unfold sub_blob. destruct (encodeLen_subtable s); cbn [obind]; try discriminate.
  destruct (encode_subtable s); cbn [obind]; try discriminate.
  destruct (_ =? _); [congruence|discriminate].
Qed.
