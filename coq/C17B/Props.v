(* C17B/Props.v — the theorems of part C17B: the GENERATED method functions of
   parser.Parser (Gen/C17B.v, regenerated from parser/parser.go on every run)
   against C17's hand-written model, the plain view, and the representation
   invariant.  Nothing else. *)
From Coq Require Import List NArith ZArith Bool Arith Lia.
From Common Require Import Bytes.
From Gen Require Import Consts C17B.
From C17 Require Import Model Proofs.
From C17B Require Import Model Proofs_iter Proofs_rb Proofs_ops Proofs_step Proofs_run Proofs_top.
Import ListNotations.
Local Open Scope Z_scope.

(* (1) generated_refines_model.  One call of any method through the generated
   function, from EVERY state satisfying the representation invariant, for
   every legal behaviour of the underlying reader (any sequence of full reads,
   short reads, (0, nil) reads and reads that report io.EOF together with the
   last bytes; Seek to an offset >= 0 succeeds), with enough fuel for the
   loops: the observation is the one C17's model step makes and the state
   reached has the abstraction of C17's next state. *)
Theorem generated_refines_model :
  forall (dataN : list N) (fuel : nat) (st : Parser) (o : op),
    bytes_ok dataN = true -> Z.of_nat (length dataN) <= PMAX ->
    GInv (ofN dataN) st -> legal_state st ->
    op_in_range (Z.to_nat (gen_pos st)) o ->
    (enough st (gop_of o) <= fuel)%nat ->
    abs_obs (fst (gen_step fuel st (gop_of o))) =
      Some (fst (m_step BS dataN (abs_state BS st) o)) /\
    abs_state BS (snd (gen_step fuel st (gop_of o))) =
      snd (m_step BS dataN (abs_state BS st) o).
Proof. intros dataN fuel st o Hb Hl. exact (step_refines_model dataN Hb Hl fuel st o). Qed.
Print Assumptions generated_refines_model.

(* ... and whole histories from parser.New(r), r positioned at offset 0: the
   trace of observations and positions is the trace of C17's run_parser. *)
Theorem generated_run_refines_model :
  forall (dataN : list N) (sc : list rbeh) (sk : list bool) (ops : list op) (fuel : nat),
    bytes_ok dataN = true -> Z.of_nat (length dataN) <= PMAX ->
    legal_script sc -> Forall (fun f => f = false) sk ->
    hist_in_range BS dataN 0 ops ->
    (big_fuel sc (map gop_of ops) <= fuel)%nat ->
    exists st0, gen_new fuel (mk_reader (ofN dataN) 0 sc sk) = Some st0 /\
      map absp (gen_run fuel st0 (map gop_of ops)) =
      map somep (run_parser BS dataN (abs_orc BS sc) ops).
Proof. intros dataN sc sk ops fuel Hb Hl. exact (run_refines_model_top dataN Hb Hl sc sk ops fuel). Qed.
Print Assumptions generated_run_refines_model.

(* generated_refines_view: by composition with C17's parser_refines_view, any
   operation history through the GENERATED functions returns what the plain
   random-access view returns, position included: failure (UnexpectedEOF) iff
   the read passes the end of the input, no partial data as success (the
   clauses read_u8_spec .. read_bulk_spec of C17 speak about run_view). *)
Theorem generated_refines_view :
  forall (dataN : list N) (sc : list rbeh) (sk : list bool) (ops : list op) (fuel : nat),
    bytes_ok dataN = true -> Z.of_nat (length dataN) <= PMAX ->
    legal_script sc -> Forall (fun f => f = false) sk ->
    hist_in_range BS dataN 0 ops ->
    (big_fuel sc (map gop_of ops) <= fuel)%nat ->
    exists st0, gen_new fuel (mk_reader (ofN dataN) 0 sc sk) = Some st0 /\
      map absp (gen_run fuel st0 (map gop_of ops)) = map somep (run_view BS dataN ops).
Proof. intros dataN sc sk ops fuel Hb Hl. exact (run_refines_view_top dataN Hb Hl sc sk ops fuel). Qed.
Print Assumptions generated_refines_view.

(* (2) the representation invariant
     0 <= pos <= used <= len(buf), len(buf) = 0 or bufferSize,
     buf[0:used] = input[from, from+used), the reader stands at from+used
   holds after New and after every history, for EVERY behaviour of the reader
   (short reads, (0, nil), data together with io.EOF or with another error,
   failing Seeks) and every argument inside int64 (negative ones included) -
   error returns and panics included - and the fuel never runs out. *)
Theorem generated_inv_init :
  forall (dataN : list N) (sc : list rbeh) (sk : list bool) (fuel : nat),
    bytes_ok dataN = true -> Z.of_nat (length dataN) <= PMAX ->
    exists st0, gen_new fuel (mk_reader (ofN dataN) 0 sc sk) = Some st0 /\
                GInv (ofN dataN) st0 /\ gen_pos st0 = 0.
Proof.
  intros dataN sc sk fuel Hb Hl.
  destruct (new_ok dataN fuel sc sk) as (st0 & E & I & _ & _ & Hp & _).
  exists st0. auto.
Qed.
Print Assumptions generated_inv_init.

Theorem generated_inv_step :
  forall (dataN : list N) (fuel : nat) (st : Parser) (o : gop),
    bytes_ok dataN = true -> Z.of_nat (length dataN) <= PMAX ->
    GInv (ofN dataN) st -> gop_args_ok st o -> (enough st o <= fuel)%nat ->
    GInv (ofN dataN) (snd (gen_step fuel st o)) /\ fst (gen_step fuel st o) <> GFuel.
Proof.
  intros dataN fuel st o Hb Hl I Ha Hf.
  destruct (step_inv (ofN dataN) (data_len dataN Hl) (data_bytes dataN Hb) fuel st o I Ha Hf) as (I' & Hn & _).
  auto.
Qed.
Print Assumptions generated_inv_step.

Theorem generated_inv_preserved :
  forall (dataN : list N) (sc : list rbeh) (sk : list bool) (ops : list gop) (fuel : nat) (st0 : Parser),
    bytes_ok dataN = true -> Z.of_nat (length dataN) <= PMAX ->
    gen_new fuel (mk_reader (ofN dataN) 0 sc sk) = Some st0 ->
    hist_args_ok fuel st0 ops -> (big_fuel sc ops <= fuel)%nat ->
    GInv (ofN dataN) (gen_final fuel st0 ops) /\
    Forall (fun x => fst x <> GFuel) (gen_run fuel st0 ops).
Proof.
  intros dataN sc sk ops fuel st0 Hb Hl E Ha Hf.
  destruct (inv_along dataN Hb Hl sc sk ops fuel st0 E Ha Hf) as (_ & I & H). auto.
Qed.
Print Assumptions generated_inv_preserved.

(* the state AFTER a failure: from every state satisfying the invariant (the
   one a failed read, a failed Seek or a panic leaves behind included) a
   16-bit read that is in range succeeds with the big-endian value at the
   cursor and moves it by 2; one that passes the end fails with UnexpectedEOF
   and leaves the cursor where it was. *)
Theorem generated_read_after_any_state :
  forall (dataN : list N) (fuel : nat) (st : Parser),
    bytes_ok dataN = true -> Z.of_nat (length dataN) <= PMAX ->
    GInv (ofN dataN) st -> legal_state st -> (enough st GU16 <= fuel)%nat ->
    let cur := Z.to_nat (gen_pos st) in
    ((cur + 2 <= length dataN)%nat ->
       fst (gen_step fuel st GU16) = GVal (Z.of_N (rd16 (sub dataN cur 2))) /\
       gen_pos (snd (gen_step fuel st GU16)) = gen_pos st + 2) /\
    ((length dataN < cur + 2)%nat ->
       fst (gen_step fuel st GU16) = GErr EUnexpectedEOF /\
       gen_pos (snd (gen_step fuel st GU16)) = gen_pos st).
Proof. intros dataN fuel st Hb Hl. exact (read_u16_from_any_state dataN Hb Hl fuel st). Qed.
Print Assumptions generated_read_after_any_state.
