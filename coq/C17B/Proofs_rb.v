(* C17B/Proofs_rb.v — the refill loop of the GENERATED ReadBytes: for any loop
   whose condition and body are (on states satisfying the invariant) the
   condition `pos+n > used` and the iteration it_result, the loop preserves
   the invariant under every reader behaviour, ends within rb_mu steps, and
   under a legal reader is C17's rb_loop.  Parser_ReadBytes is then unfolded
   and shown to be such a loop. *)
From Coq Require Import List NArith ZArith Bool Arith Lia.
From Common Require Import Bytes.
From Gen Require Import Consts C17B.
From C17 Require Import Model Proofs.
From C17B Require Import Model Util Proofs_iter.
Import ListNotations.
Local Open Scope Z_scope.

Definition script_of (st : Parser) : list rbeh := r_script (g_r st).

(* the reader only moves forward through its scripts; reads leave the Seek script alone *)
Definition script_suffix (st st' : Parser) : Prop :=
  exists k, script_of st' = skipn k (script_of st).

Lemma suffix_refl st : script_suffix st st.
Proof. exists 0%nat. reflexivity. Qed.

Lemma suffix_trans a b c : script_suffix a b -> script_suffix b c -> script_suffix a c.
Proof.
  intros [k Hk] [j Hj]. exists (k + j)%nat. rewrite Hj, Hk. apply skipn_skipn'.
Qed.

Lemma suffix_len a b : script_suffix a b -> (length (script_of b) <= length (script_of a))%nat.
Proof. intros [k Hk]. rewrite Hk, skipn_length. lia. Qed.

Lemma legal_skipn sc k : legal_script sc -> legal_script (skipn k sc).
Proof.
  unfold legal_script. revert sc. induction k as [|k IH]; intros sc H; [exact H|].
  destruct sc as [|b sc]; [constructor|]. cbn. apply IH. now inversion H.
Qed.

Lemma suffix_legal a b : script_suffix a b -> legal_script (script_of a) -> legal_script (script_of b).
Proof. intros [k Hk] H. rewrite Hk. now apply legal_skipn. Qed.

Lemma tl_skipn {A} (l : list A) : tl l = skipn 1 l.
Proof. destruct l; reflexivity. Qed.

Section RB.
  Variable data : list Z.
  Hypothesis Hlen : zlen data <= PMAX.

  (* steps the loop needs at most *)
  Definition rb_mu (st : Parser) (n : Z) : nat :=
    if g_pos st + n <=? g_used st then 1%nat
    else (length (script_of st) + 2 + (if (r_pos (g_r st) <? zlen data)%Z then 1 else 0))%nat.

  Lemma rb_mu_bound st n : (rb_mu st n <= length (script_of st) + 3)%nat.
  Proof. unfold rb_mu. destruct (g_pos st + n <=? g_used st); destruct (r_pos (g_r st) <? zlen data); lia. Qed.

  Lemma it_suffix st : GInv data st -> script_suffix st (it_state st).
  Proof.
    intros I. exists 1%nat. unfold script_of. rewrite its_r.
    destruct (it_r_eq data st I) as (_ & _ & -> & _). apply tl_skipn.
  Qed.

  Lemma it_seeks st : GInv data st -> r_seeks (g_r (it_state st)) = r_seeks (g_r st).
  Proof. intros I. rewrite its_r. now destruct (it_r_eq data st I) as (_ & _ & _ & ->). Qed.

  (* the raw error of the Read call *)
  Lemma it_rawerr_eq st : GInv data st ->
    it_rawerr st =
    match next_beh st with
    | BFail _ c => EOther c
    | BFull => if it_rem st data =? 0 then EEOF else ENil
    | BShort _ eager =>
        if next_lim st =? 0 then ENil
        else if it_rem st data =? 0 then EEOF
        else if (eager && (it_cnt st data =? it_rem st data))%bool then EEOF else ENil
    end.
  Proof.
    intros I. unfold it_rawerr, it_read, r_read, it_cnt, it_rem, next_lim, next_beh.
    rewrite (gi_data _ _ I), (gi_up _ _ I).
    destruct (r_script (g_r st)) as [|b sc]; [|destruct b]; reflexivity.
  Qed.

  Lemma legal_next st : legal_script (script_of st) ->
    match next_beh st with BFail _ _ => False | _ => True end.
  Proof.
    unfold legal_script, script_of, next_beh. intros H.
    destruct (r_script (g_r st)) as [|b sc]; [exact I|]. now inversion H.
  Qed.

  (* the loop goes on only after progress or a (0, nil) read; it stops with
     UnexpectedEOF exactly when a legal reader has nothing left *)
  Lemma it_err_cases st n :
    GInv data st -> 0 <= n <= 1024 -> g_pos st + n > g_used st ->
    match next_beh st with BFail _ _ => False | _ => True end ->
    (it_err st = ENil /\ (next_lim st = 0 \/ 0 < it_cnt st data)) \/
    (it_err st = EUnexpectedEOF /\ 0 < next_lim st /\ it_cnt st data = 0).
  Proof.
    intros I Hn Hg Hleg.
    pose proof (gi_pos _ _ I) as Hp. pose proof (gi_used _ _ I) as Hu.
    pose proof (ginv_buf_le data st I) as Hle.
    destruct (it_got_eq data st I) as (_ & Hgl & Hc & _).
    unfold it_err. rewrite Hgl, (it_rawerr_eq st I).
    assert (Hk : 0 <= it_kept st < 1024) by (unfold it_kept; lia).
    assert (Hr : 0 <= it_rem st data) by (unfold it_rem; lia).
    unfold it_cnt in *. unfold next_lim in *.
    destruct (next_beh st) as [|l eager|l code]; [| |contradiction].
    - destruct (Z.eqb_spec (it_rem st data) 0) as [E|E]; cbn [err_is_eof].
      + right. replace (Z.min (1024 - it_kept st) (Z.min (it_rem st data) (1024 - it_kept st)) >? 0) with false
          by (symmetry; apply gtb_false; lia).
        split; [reflexivity|]. lia.
      + left. split; [reflexivity|]. right. lia.
    - destruct (Z.eqb_spec (Z.max 0 l) 0) as [E0|E0]; cbn [err_is_eof].
      + left. split; [reflexivity|]. left. exact E0.
      + destruct (Z.eqb_spec (it_rem st data) 0) as [E|E]; cbn [err_is_eof].
        * right. replace (Z.min (1024 - it_kept st) (Z.min (it_rem st data) (Z.max 0 l)) >? 0) with false
            by (symmetry; apply gtb_false; lia).
          split; [reflexivity|]. lia.
        * left. assert (0 < Z.min (1024 - it_kept st) (Z.min (it_rem st data) (Z.max 0 l))) by lia.
          destruct (eager && (Z.min (1024 - it_kept st) (Z.min (it_rem st data) (Z.max 0 l)) =? it_rem st data))%bool;
            cbn [err_is_eof].
          -- replace (Z.min (1024 - it_kept st) (Z.min (it_rem st data) (Z.max 0 l)) >? 0) with true
               by (symmetry; apply gtb_true; lia).
             split; [reflexivity|]. right. lia.
          -- split; [reflexivity|]. right. lia.
  Qed.

  Lemma mu_decr st n :
    GInv data st -> 0 <= n <= 1024 -> g_pos st + n > g_used st ->
    it_err st = ENil -> (rb_mu (it_state st) n < rb_mu st n)%nat.
  Proof.
    intros I Hn Hg He.
    pose proof (gi_pos _ _ I) as Hp. pose proof (gi_used _ _ I) as Hu.
    pose proof (gi_from _ _ I) as Hf. pose proof (ginv_buf_le data st I) as Hle.
    destruct (it_got_eq data st I) as (_ & Hgl & Hc & Hin).
    destruct (it_r_eq data st I) as (_ & Hrp & Hsc & _).
    assert (Hk : 0 <= it_kept st < 1024) by (unfold it_kept; lia).
    unfold rb_mu, script_of. rewrite its_pos, its_used, its_r, Hgl, Hrp, Hsc, (gi_up _ _ I).
    replace (g_pos st + n <=? g_used st) with false by (symmetry; apply Z.leb_gt; lia).
    destruct (r_script (g_r st)) as [|b sc] eqn:Esc.
    - (* full reads from here on *)
      assert (Hnb : next_beh st = BFull) by (unfold next_beh; now rewrite Esc).
      unfold it_err in He. rewrite (it_rawerr_eq st I), Hnb, Hgl in He.
      assert (Hrem : 0 < it_rem st data).
      { destruct (Z.eqb_spec (it_rem st data) 0) as [E|E]; [|unfold it_rem in *; lia].
        assert (E0 : it_cnt st data = 0) by (unfold it_cnt, next_lim; rewrite Hnb, E; lia).
        rewrite E0 in He. cbn in He. discriminate. }
      assert (Ecnt : it_cnt st data = Z.min (1024 - it_kept st) (it_rem st data)).
      { unfold it_cnt, next_lim. rewrite Hnb. lia. }
      cbn [tl length]. unfold it_rem in *.
      destruct (Z.leb_spec (0 + n) (it_kept st + it_cnt st data)) as [H1|H1]; [|].
      + destruct (g_from st + g_used st <? zlen data); lia.
      + replace (g_from st + g_used st <? zlen data) with true by (symmetry; apply Z.ltb_lt; lia).
        replace (g_from st + g_used st + it_cnt st data <? zlen data) with false
          by (symmetry; apply Z.ltb_ge; lia).
        lia.
    - cbn [tl length].
      destruct (0 + n <=? it_kept st + it_cnt st data).
      + destruct (g_from st + g_used st <? zlen data); lia.
      + destruct (Z.ltb_spec (g_from st + g_used st + it_cnt st data) (zlen data)) as [H1|H1];
          destruct (Z.ltb_spec (g_from st + g_used st) (zlen data)) as [H2|H2]; lia.
  Qed.

  Lemma c17_guard_ok st n g :
    GInv data st -> 0 <= n -> g_pos st + n <= g_used st ->
    rb_loop BS (toN data) g (Z.to_nat n) (abs_state BS st) = RbOk (abs_state BS st).
  Proof.
    intros I Hn Hg. pose proof (gi_pos _ _ I) as Hp.
    pose proof (abs_buf_len data st I) as Hbl.
    rewrite (abs_nf data st I).
    destruct g; cbn [rb_loop p_pos p_buf]; rewrite Hbl;
      replace (Z.to_nat (g_pos st) + Z.to_nat n <=? Z.to_nat (g_used st))%nat with true
        by (symmetry; apply Nat.leb_le; lia); reflexivity.
  Qed.

  Section Loop.
    Variable n : Z.
    Hypothesis Hn : 0 <= n <= 1024.
    Variable cond : Parser -> unit -> bool.
    Variable body : Parser -> unit -> ctl Parser unit (list Z * gerr).
    Hypothesis Hcond : forall st, GInv data st -> cond st tt = (g_pos st + n >? g_used st).
    Hypothesis Hbody : forall st, GInv data st -> g_pos st + n > g_used st -> body st tt = it_result st.

    Definition rb_need (st : Parser) : nat := Z.to_nat (g_pos st + n - g_used st).

    Definition rb_post (st : Parser) (f : nat) (r : ctl Parser unit (list Z * gerr)) : Prop :=
      match r with
      | CFuel => (f < rb_mu st n)%nat
      | CPanic _ => False
      | CNorm st' _ =>
          GInv data st' /\ g_pos st' + n <= g_used st' /\ gen_pos st' = gen_pos st /\
          g_lastRead st' = g_lastRead st /\ script_suffix st st' /\
          r_seeks (g_r st') = r_seeks (g_r st) /\
          (legal_script (script_of st) ->
           forall g, (rb_need st <= g)%nat ->
             rb_loop BS (toN data) g (Z.to_nat n) (abs_state BS st) = RbOk (abs_state BS st'))
      | CRet st' (l, e) =>
          l = [] /\ e <> ENil /\ GInv data st' /\ gen_pos st' = gen_pos st /\
          g_lastRead st' = g_lastRead st /\ script_suffix st st' /\
          r_seeks (g_r st') = r_seeks (g_r st) /\
          (legal_script (script_of st) ->
           e = EUnexpectedEOF /\
           forall g, (rb_need st <= g)%nat ->
             rb_loop BS (toN data) g (Z.to_nat n) (abs_state BS st) = RbEof (abs_state BS st'))
      end.

    Lemma rb_loop_spec : forall f st, GInv data st -> rb_post st f (loop_while f cond body st tt).
    Proof.
      induction f as [|f IH]; intros st I.
      - cbn [loop_while rb_post]. unfold rb_mu.
        destruct (g_pos st + n <=? g_used st); lia.
      - cbn [loop_while]. rewrite (Hcond st I).
        pose proof (gi_pos _ _ I) as Hp.
        destruct (Z.gtb_spec (g_pos st + n) (g_used st)) as [Hg|Hg].
        + rewrite (Hbody st I ltac:(lia)). unfold it_result.
          pose proof (it_inv data Hlen st I) as I2.
          destruct (err_is_nil (it_err st)) eqn:Enil; cbn [negb].
          * (* the loop goes on from it_state st *)
            assert (He : it_err st = ENil) by (destruct (it_err st); try discriminate; reflexivity).
            pose proof (mu_decr st n I Hn ltac:(lia) He) as Hmu.
            specialize (IH (it_state st) I2).
            destruct (loop_while f cond body (it_state st) tt) as [st' []|st' [l e]|st'|]; cbn [rb_post] in *.
            -- destruct IH as (I' & Hg' & Hpos & Hlast & Hsuf & Hsk & Hc17).
               split; [exact I'|]. split; [exact Hg'|].
               split; [now rewrite Hpos, it_pos|]. split; [now rewrite Hlast|].
               split; [eapply suffix_trans; [apply (it_suffix st I)|exact Hsuf]|].
               split; [now rewrite Hsk, (it_seeks st I)|].
               ++ intros Hleg g Hneed.
                  pose proof (legal_next st Hleg) as Hnb.
                  assert (Hleg2 : legal_script (script_of (it_state st)))
                    by (eapply suffix_legal; [apply (it_suffix st I)|exact Hleg]).
                  specialize (Hc17 Hleg2).
                  destruct g as [|g]; [unfold rb_need in Hneed; lia|].
                  rewrite (c17_iter data Hlen st n g I Hn ltac:(lia) Hnb).
                  destruct (it_got_eq data st I) as (_ & Hgl & Hc & _).
                  destruct (it_err_cases st n I Hn ltac:(lia) Hnb) as [[_ [Hz|Hz]]|[He2 _]]; [| |congruence].
                  ** replace (next_lim st =? 0) with true by (symmetry; apply Z.eqb_eq; lia).
                     apply Hc17. unfold rb_need in *. rewrite its_pos, its_used, Hgl.
                     unfold it_cnt. rewrite Hz. unfold it_kept, it_rem. lia.
                  ** assert (0 < next_lim st) by (unfold it_cnt in Hz; lia).
                     replace (next_lim st =? 0) with false by (symmetry; apply Z.eqb_neq; lia).
                     replace (it_cnt st data =? 0) with false by (symmetry; apply Z.eqb_neq; lia).
                     apply Hc17. unfold rb_need in *. rewrite its_pos, its_used, Hgl. unfold it_kept. lia.
            -- destruct IH as (El & Ene & I' & Hpos & Hlast & Hsuf & Hsk & Hc17).
               split; [exact El|]. split; [exact Ene|]. split; [exact I'|].
               split; [now rewrite Hpos, it_pos|]. split; [now rewrite Hlast|].
               split; [eapply suffix_trans; [apply (it_suffix st I)|exact Hsuf]|].
               split; [now rewrite Hsk, (it_seeks st I)|].
               intros H.
               assert (Hleg2 : legal_script (script_of (it_state st)))
                 by (eapply suffix_legal; [apply (it_suffix st I)|exact H]).
               destruct (Hc17 Hleg2) as [Hc17e Hc17'].
               split; [exact Hc17e|].
               ++ intros g Hneed.
                  pose proof (legal_next st H) as Hnb.
                  destruct g as [|g]; [unfold rb_need in Hneed; lia|].
                  rewrite (c17_iter data Hlen st n g I Hn ltac:(lia) Hnb).
                  destruct (it_got_eq data st I) as (_ & Hgl & Hc & _).
                  destruct (it_err_cases st n I Hn ltac:(lia) Hnb) as [[_ [Hz|Hz]]|[He2 _]]; [| |congruence].
                  ** replace (next_lim st =? 0) with true by (symmetry; apply Z.eqb_eq; lia).
                     apply Hc17'. unfold rb_need in *. rewrite its_pos, its_used, Hgl.
                     unfold it_cnt. rewrite Hz. unfold it_kept, it_rem. lia.
                  ** assert (0 < next_lim st) by (unfold it_cnt in Hz; lia).
                     replace (next_lim st =? 0) with false by (symmetry; apply Z.eqb_neq; lia).
                     replace (it_cnt st data =? 0) with false by (symmetry; apply Z.eqb_neq; lia).
                     apply Hc17'. unfold rb_need in *. rewrite its_pos, its_used, Hgl. unfold it_kept. lia.
            -- exact IH.
            -- lia.
          * (* the read failed *)
            cbn [rb_post].
            assert (Hne : it_err st <> ENil) by (intros E; rewrite E in Enil; discriminate).
            split; [reflexivity|]. split; [exact Hne|]. split; [exact I2|].
            split; [apply it_pos|]. split; [reflexivity|].
            split; [apply (it_suffix st I)|]. split; [apply (it_seeks st I)|].
            intros H. pose proof (legal_next st H) as Hnb. split.
            -- destruct (it_err_cases st n I Hn ltac:(lia) Hnb) as [[He _]|[He _]]; congruence.
            -- intros g Hneed.
               destruct g as [|g]; [unfold rb_need in Hneed; lia|].
               rewrite (c17_iter data Hlen st n g I Hn ltac:(lia) Hnb).
               destruct (it_err_cases st n I Hn ltac:(lia) Hnb) as [[He _]|[He [Hl Hc0]]]; [congruence|].
               replace (next_lim st =? 0) with false by (symmetry; apply Z.eqb_neq; lia).
               rewrite Hc0. reflexivity.
        + (* enough bytes are buffered *)
          cbn [rb_post]. split; [exact I|]. split; [lia|]. split; [reflexivity|].
          split; [reflexivity|]. split; [apply suffix_refl|]. split; [reflexivity|].
          intros _ g _. apply c17_guard_ok; [assumption|lia|lia].
    Qed.
  End Loop.
End RB.

(* ------------------------------------------------------------------ *)
(* Parser_ReadBytes, as generated                                       *)

Lemma ginv_fields data st st' :
  GInv data st ->
  g_r st' = g_r st -> g_buf st' = g_buf st -> g_from st' = g_from st ->
  g_pos st' = g_pos st -> g_used st' = g_used st -> GInv data st'.
Proof.
  intros I Hr Hb Hf Hp Hu.
  constructor; rewrite ?Hr, ?Hb, ?Hf, ?Hp, ?Hu; apply I.
Qed.

Lemma abs_fields st st' :
  g_r st' = g_r st -> g_buf st' = g_buf st -> g_from st' = g_from st ->
  g_pos st' = g_pos st -> g_used st' = g_used st -> abs_state BS st' = abs_state BS st.
Proof. intros Hr Hb Hf Hp Hu. unfold abs_state. now rewrite Hr, Hb, Hf, Hp, Hu. Qed.

(* the loop body of the generated ReadBytes, fetched from the generated term *)
Definition gen_rb_body : Parser -> unit -> ctl Parser unit (list Z * gerr) :=
  ltac:(let t := eval cbv beta zeta delta [Parser_ReadBytes] in (fun st0 => Parser_ReadBytes 0 st0 0) in
        match t with context [loop_while _ _ ?b _ _] => exact b end).

Section RBBody.
  Variable data : list Z.
  Hypothesis Hlen : zlen data <= PMAX.

  Lemma rb_body_eq st : GInv data st -> gen_rb_body st tt = it_result st.
  Proof.
    intros I.
    pose proof (gi_pos _ _ I) as Hp. pose proof (gi_used _ _ I) as Hu.
    pose proof (gi_from _ _ I) as Hf. pose proof (ginv_buf_le data st I) as Hle.
    pose proof (it_buf1_zlen data st I) as H1.
    unfold gen_rb_body.
    (* after the optional make: the buffer is it_buf1 st *)
    match goal with |- cbind _ ?k = _ => set (K := k) end.
    assert (HK : forall s, g_r s = g_r st -> g_buf s = it_buf1 st -> g_from s = g_from st ->
                           g_pos s = g_pos st -> g_used s = g_used st -> g_lastRead s = g_lastRead st ->
                           K s tt = it_result st).
    { intros s Hr Hb Hfr Hps Hus Hlr. unfold K.
      rewrite Hb, Hps, Hus.
      rewrite go_slice_ok by lia. cbn [pbind].
      unfold go_copy.
      set (t2 := sub (it_buf1 st) (Z.to_nat (g_pos st)) (Z.to_nat (g_used st - g_pos st))).
      assert (Ht2 : length t2 = Z.to_nat (it_kept st)).
      { unfold t2. rewrite sub_length_min. unfold zlen, it_kept in *. lia. }
      replace (Nat.min (length (it_buf1 st)) (length t2)) with (length t2) by (unfold zlen, it_kept in *; lia).
      rewrite firstn_all.
      cbn [g_r g_buf g_from g_pos g_used g_lastRead set_g_r set_g_buf set_g_from set_g_pos set_g_used set_g_lastRead].
      rewrite ?Hb, ?Hfr, ?Hps, ?Hr, ?Hlr, ?Hus.
      assert (Eb2 : t2 ++ skipn (length t2) (it_buf1 st) = it_buf2 st).
      { unfold it_buf2. fold (it_kept st). fold t2. now rewrite Ht2. }
      rewrite Eb2. rewrite Ht2.
      pose proof (it_buf2_zlen data st I) as H2.
      assert (Hk : 0 <= it_kept st <= 1024) by (unfold it_kept; lia).
      rewrite Z2Nat.id by lia.
      rewrite go_slice_ok by lia. cbn [pbind].
      assert (Hsp : zlen (sub (it_buf2 st) (Z.to_nat (it_kept st)) (Z.to_nat (zlen (it_buf2 st) - it_kept st))) = 1024 - it_kept st).
      { unfold zlen in *. rewrite sub_length_min. lia. }
      rewrite Hsp.
      fold (it_read st).
      destruct (it_got_eq data st I) as (_ & Hgl & Hc & _).
      assert (Hcs : it_cnt st data <= 1024 - it_kept st) by (unfold it_cnt; lia).
      unfold it_result, it_err, it_state, it_got, it_rawerr, it_r in *.
      destruct (it_read st) as [[got e] r'].
      cbn [fst snd] in *.
      cbn [g_r g_buf g_from g_pos g_used g_lastRead set_g_r set_g_buf set_g_from set_g_pos set_g_used set_g_lastRead].
      rewrite !wrap_s64_small by (unfold PMAX in *; lia).
      unfold set_g_used, set_g_buf, set_g_r, set_g_pos, set_g_from.
      cbn [g_r g_buf g_from g_pos g_used g_lastRead]. rewrite ?Hlr.
      destruct (err_is_eof e); [destruct (zlen got >? 0)|]; cbn [cbind]; reflexivity. }
    destruct (Z.eqb_spec (zlen (g_buf st)) 0) as [E|E].
    - rewrite go_make_ok by lia. cbn [pbind cbind].
      apply HK; try reflexivity.
      cbn [g_buf set_g_buf]. unfold it_buf1. now rewrite E.
    - cbn [cbind]. apply HK; try reflexivity.
      unfold it_buf1. destruct (Z.eqb_spec (zlen (g_buf st)) 0); [contradiction|reflexivity].
  Qed.
End RBBody.

Section RBFun.
  Variable data : list Z.
  Hypothesis Hlen : zlen data <= PMAX.
  Variable fuel : nat.

  (* the generated function after the size has been normalised *)
  Definition gen_rb_main : Parser -> Z -> ctl Parser Empty_set (list Z * gerr) :=
    ltac:(let t := eval cbv beta zeta delta [Parser_ReadBytes] in (fun st n => Parser_ReadBytes fuel st n) in
          match t with context [cbind (if _ then _ else _) ?k] => exact k end).

  Definition rb_ok (st st' : Parser) (n0 : Z) (bytes : list Z) : Prop :=
    bytes = sub data (Z.to_nat (gen_pos st)) (Z.to_nat n0) /\ zlen bytes = n0 /\
    gen_pos st' = gen_pos st + n0 /\ (n0 = 0 \/ gen_pos st + n0 <= zlen data).

  Definition rb_spec0 (st : Parser) (n0 : Z) (r : mres Parser (list Z * gerr)) : Prop :=
    match r with
    | MFuel => False
    | MPanic _ => False
    | MRet st' (bytes, e) =>
        GInv data st' /\ script_suffix st st' /\
        r_seeks (g_r st') = r_seeks (g_r st) /\ g_lastRead st' = g_lastRead st /\
        (e = ENil -> rb_ok st st' n0 bytes) /\
        (e <> ENil -> bytes = [] /\ gen_pos st' = gen_pos st) /\
        (legal_script (script_of st) ->
           (e = ENil \/ e = EUnexpectedEOF) /\
           m_bytes BS (toN data) (abs_state BS st) (Z.to_nat n0) =
             (match e with ENil => Some (toN bytes) | _ => None end, abs_state BS st', true))
    end.

  Lemma rb_main_spec st n0 :
    GInv data st -> 0 <= n0 <= 1024 -> (length (script_of st) + 3 <= fuel)%nat ->
    rb_spec0 st n0 (finish (gen_rb_main st n0)).
  Proof.
    intros I Hn0 Hfuel.
    pose proof (gi_pos _ _ I) as Hp.
    unfold gen_rb_main.
    match goal with
    | |- context [loop_while _ ?c ?b _ tt] => set (cond := c); set (body := b)
    end.
    assert (Hcond : forall s, GInv data s -> cond s tt = (g_pos s + n0 >? g_used s)).
    { intros s Is. unfold cond. pose proof (gi_pos _ _ Is). pose proof (gi_used _ _ Is).
      pose proof (ginv_buf_le data s Is). rewrite wrap_s64_small by lia. reflexivity. }
    assert (Hbody : forall s, GInv data s -> g_pos s + n0 > g_used s -> body s tt = it_result s).
    { intros s Is _. exact (rb_body_eq data s Is). }
    pose proof (rb_loop_spec data Hlen n0 Hn0 cond body Hcond Hbody fuel st I) as HL.
    destruct (loop_while fuel cond body st tt) as [st1 []|st1 [l e]|st1|]; cbn [rb_post cbind finish] in *.
    - (* the bytes are buffered *)
      destruct HL as (I1 & Hg1 & Hpos & Hlast & Hsuf & Hsk & Hc17).
      pose proof (gi_pos _ _ I1) as Hp1. pose proof (gi_used _ _ I1) as Hu1.
      pose proof (gi_from _ _ I1) as Hf1. pose proof (ginv_buf_le data st1 I1) as Hle1.
      rewrite wrap_s64_small by lia.
      rewrite go_slice_ok by lia. cbn [pbind finish].
      replace (g_pos st1 + n0 - g_pos st1) with n0 by lia.
      set (st2 := set_g_pos st1 (g_pos st1 + n0)).
      assert (I2 : GInv data st2).
      { constructor; unfold st2; cbn [g_r g_buf g_from g_pos g_used set_g_pos]; try apply I1. lia. }
      assert (Hbytes : sub (g_buf st1) (Z.to_nat (g_pos st1)) (Z.to_nat n0) =
                       sub data (Z.to_nat (gen_pos st1)) (Z.to_nat n0)).
      { assert (H : sub (g_buf st1) (Z.to_nat (g_pos st1)) (Z.to_nat n0) =
                    sub (firstn (Z.to_nat (g_used st1)) (g_buf st1)) (Z.to_nat (g_pos st1)) (Z.to_nat n0)).
        { unfold sub. rewrite skipn_firstn_comm, firstn_firstn. f_equal. lia. }
        rewrite H, (gi_buf _ _ I1), sub_sub' by lia. f_equal. unfold gen_pos. lia. }
      split; [exact I2|]. split; [exact Hsuf|]. split; [exact Hsk|]. split; [exact Hlast|].
      split; [|split].
      + intros _. unfold rb_ok. rewrite Hbytes, Hpos.
        split; [reflexivity|].
        destruct (ginv_window data st1 I1) as [E|E].
        * assert (n0 = 0) by lia. subst n0. split; [reflexivity|]. split; [|now left].
          unfold gen_pos, st2 in *. cbn [g_from g_pos set_g_pos]. lia.
        * split; [|split].
          -- unfold zlen. rewrite sub_length_min. unfold gen_pos in *. unfold zlen in E. lia.
          -- unfold gen_pos, st2 in *. cbn [g_from g_pos set_g_pos]. lia.
          -- right. unfold gen_pos in *. lia.
      + intros H. contradiction.
      + intros Hleg. split; [now left|].
        unfold m_bytes.
        rewrite (Hc17 Hleg (S (Z.to_nat n0))) by (unfold rb_need; lia).
        rewrite (abs_nf data st1 I1). cbn [p_buf p_pos p_from p_up p_orc].
        f_equal. f_equal.
        * f_equal. rewrite Hbytes, toN_sub.
          rewrite sub_sub' by lia. f_equal. unfold gen_pos. lia.
        * rewrite (abs_nf data st2 I2). unfold st2. cbn [g_r g_buf g_from g_pos g_used set_g_pos].
          f_equal. lia.
    - (* the read failed *)
      destruct HL as (El & Ene & I1 & Hpos & Hlast & Hsuf & Hsk & Hc17).
      subst l.
      split; [exact I1|]. split; [exact Hsuf|]. split; [exact Hsk|]. split; [exact Hlast|].
      split; [intros E; contradiction|]. split; [intros _; split; [reflexivity|exact Hpos]|].
      intros Hleg. destruct (Hc17 Hleg) as [Ee Hc]. split; [now right|].
      unfold m_bytes. rewrite (Hc (S (Z.to_nat n0))) by (unfold rb_need; lia).
      subst e. reflexivity.
    - exact HL.
    - pose proof (rb_mu_bound data st n0). lia.
  Qed.

  Definition rb_spec (st : Parser) (n : Z) (r : mres Parser (list Z * gerr)) : Prop :=
    match r with
    | MPanic st' => 1024 < n /\ st' = set_g_lastRead st (gen_pos st)
    | _ => n <= 1024 /\ rb_spec0 (set_g_lastRead st (gen_pos st)) (Z.max 0 n) r
    end.

  Theorem ReadBytes_spec st n :
    GInv data st -> (length (script_of st) + 3 <= fuel)%nat ->
    rb_spec st n (Parser_ReadBytes fuel st n).
  Proof.
    intros I Hfuel.
    pose proof (gi_pos _ _ I) as Hp. pose proof (gi_used _ _ I) as Hu.
    pose proof (gi_from _ _ I) as Hf. pose proof (ginv_buf_le data st I) as Hle.
    unfold Parser_ReadBytes. cbv zeta.
    rewrite wrap_s64_small by (unfold PMAX in *; lia).
    fold (gen_pos st).
    set (st0 := set_g_lastRead st (gen_pos st)).
    assert (I0 : GInv data st0) by (apply (ginv_fields data st); auto).
    destruct (Z.ltb_spec n 0) as [Hneg|Hnn].
    2: destruct (Z.gtb_spec n 1024) as [Hbig|Hsmall].
    - cbn [cbind]. change (rb_spec st n (finish (gen_rb_main st0 0))).
      pose proof (rb_main_spec st0 0 I0 ltac:(lia) Hfuel) as H.
      unfold rb_spec. replace (Z.max 0 n) with 0 by lia. fold st0.
      destruct (finish (gen_rb_main st0 0)) as [s' [b e]|s'|]; cbn [rb_spec0] in H; try contradiction.
      split; [lia|exact H].
    - cbn [cbind finish]. split; [lia|reflexivity].
    - cbn [cbind]. change (rb_spec st n (finish (gen_rb_main st0 n))).
      pose proof (rb_main_spec st0 n I0 ltac:(lia) Hfuel) as H.
      unfold rb_spec. replace (Z.max 0 n) with n by lia. fold st0.
      destruct (finish (gen_rb_main st0 n)) as [s' [b e]|s'|]; cbn [rb_spec0] in H; try contradiction.
      split; [lia|exact H].
  Qed.
End RBFun.
