(* C17B/Proofs_loops.v — the two loops over ReadBytes: the range loop of the
   generated ReadUint16Slice and the `for len(buf) > 0` loop of the generated
   Read.  Both bodies are fetched from the generated terms. *)
From Coq Require Import List NArith ZArith Bool Arith Lia.
From Common Require Import Bytes.
From Gen Require Import Consts C17B.
From C17 Require Import Model Proofs.
From C17B Require Import Model Util Proofs_iter Proofs_rb Proofs_ops Proofs_val.
Import ListNotations.
Local Open Scope Z_scope.

Lemma toN_ofN_single x : toN [Z.of_N x] = [x].
Proof. unfold toN. cbn. now rewrite N2Z.id. Qed.

Section Slice.
  Variable data : list Z.
  Hypothesis Hlen : zlen data <= PMAX.
  Hypothesis Hbytes : bytesZ data.
  Variable fuel : nat.

  Definition gen_slice_body : Z -> Parser -> list Z -> ctl Parser (list Z) (list Z * gerr) :=
    ltac:(let t := eval cbv beta zeta delta [Parser_ReadUint16Slice] in (fun st => Parser_ReadUint16Slice fuel st) in
          match t with context [loop_range _ _ ?b _ _] => exact b end).

  Lemma slice_body_eq i s res :
    gen_slice_body i s res =
    match Parser_ReadUint16 fuel s with
    | MRet s' (v, e) =>
        if negb (err_is_nil e) then CRet s' ([], e)
        else pbind s' (go_store res i v) (fun t => CNorm s' t)
    | MPanic s' => CPanic s'
    | MFuel => CFuel
    end.
  Proof.
    unfold gen_slice_body.
    destruct (Parser_ReadUint16 fuel s) as [s' [v e]|s'|]; reflexivity.
  Qed.

  Definition slice_post (s : Parser) (j k : nat) (res : list Z)
      (r : ctl Parser (list Z) (list Z * gerr)) : Prop :=
    match r with
    | CNorm s' res' =>
        GInv data s' /\ script_suffix s s' /\ r_seeks (g_r s') = r_seeks (g_r s) /\
        exists ws, res' = firstn j res ++ ws /\ length ws = k /\
          (legal_script (script_of s) ->
             m_words BS (toN data) (abs_state BS s) k = (toN ws, abs_state BS s', true, true))
    | CRet s' (l, e) =>
        l = [] /\ e <> ENil /\ GInv data s' /\ script_suffix s s' /\
        r_seeks (g_r s') = r_seeks (g_r s) /\
        (legal_script (script_of s) ->
           e = EUnexpectedEOF /\
           exists ws, m_words BS (toN data) (abs_state BS s) k = (ws, abs_state BS s', false, true))
    | _ => False
    end.

  Lemma slice_loop : forall k j s res,
    GInv data s -> (length (script_of s) + 3 <= fuel)%nat -> length res = (j + k)%nat ->
    slice_post s j k res (loop_range k (Z.of_nat j) gen_slice_body s res).
  Proof.
    induction k as [|k IH]; intros j s res I Hf Hl.
    - cbn [loop_range slice_post]. split; [exact I|]. split; [apply suffix_refl|]. split; [reflexivity|].
      exists []. rewrite app_nil_r. split; [|split; [reflexivity|reflexivity]].
      symmetry. apply firstn_all2. lia.
    - cbn [loop_range]. rewrite slice_body_eq.
      pose proof (ReadUint16_spec data Hlen fuel s I Hf) as H.
      destruct (Parser_ReadUint16 fuel s) as [s1 [v e]|s1|]; cbn [val_spec] in H; try contradiction.
      destruct H as (I1 & Hsuf1 & Hsk1 & Hok & Hbad & Hleg).
      change (Z.to_nat 2) with 2%nat in Hleg, Hok.
      destruct e; cbn [err_is_nil negb].
      + (* a value was read: store it and go on *)
        destruct (Hok eq_refl) as (Ev & Hpos & Hin).
        assert (Hst : go_store res (Z.of_nat j) v = Some (firstn j res ++ v :: skipn (S j) res)).
        { apply go_store_ok. lia. }
        rewrite Hst. cbn [pbind].
        set (res1 := firstn j res ++ v :: skipn (S j) res).
        assert (Hl1 : length res1 = (S j + k)%nat).
        { unfold res1. rewrite app_length, firstn_length. cbn [length]. rewrite skipn_length. lia. }
        assert (Hf1 : (length (script_of s1) + 3 <= fuel)%nat) by (pose proof (suffix_len s s1 Hsuf1); lia).
        specialize (IH (S j) s1 res1 I1 Hf1 Hl1).
        replace (Z.of_nat j + 1) with (Z.of_nat (S j)) by lia.
        assert (Hfj : firstn (S j) res1 = firstn j res ++ [v]).
        { unfold res1.
          assert (Hlj : length (firstn j res) = j) by (rewrite firstn_length; lia).
          rewrite firstn_app, Hlj. replace (S j - j)%nat with 1%nat by lia.
          rewrite firstn_all2 by lia. reflexivity. }
        set (bytes := sub data (Z.to_nat (gen_pos s)) 2) in *.
        assert (Hb2 : length bytes = 2%nat).
        { unfold bytes. rewrite sub_length_min. unfold zlen in Hin.
          pose proof (gi_from _ _ I). pose proof (gi_pos _ _ I). unfold gen_pos in *. lia. }
        assert (Hbz : bytesZ bytes) by (apply bytesZ_sub; exact Hbytes).
        assert (Ev' : v = Z.of_N (rd16 (toN bytes))) by (rewrite Ev; apply dec16_rd16; assumption).
        destruct (loop_range k (Z.of_nat (S j)) gen_slice_body s1 res1) as [s' res'|s' [l e]|s'|];
          cbn [slice_post] in *; try contradiction.
        * destruct IH as (I' & Hsuf' & Hsk' & ws & Er & Hlw & Hm).
          split; [exact I'|]. split; [eapply suffix_trans; eassumption|]. split; [congruence|].
          exists (v :: ws). split; [|split].
          -- rewrite Er, Hfj, <- app_assoc. reflexivity.
          -- cbn [length]. lia.
          -- intros HL. cbn [m_words]. destruct (Hleg HL) as [_ Hmb]. rewrite Hmb.
             rewrite (Hm (suffix_legal s s1 Hsuf1 HL)).
             cbn [andb]. f_equal. f_equal. f_equal.
             unfold toN. cbn [map]. f_equal. rewrite Ev'. now rewrite N2Z.id.
        * destruct IH as (El & Ene & I' & Hsuf' & Hsk' & Hm).
          split; [exact El|]. split; [exact Ene|]. split; [exact I'|].
          split; [eapply suffix_trans; eassumption|]. split; [congruence|].
          intros HL. destruct (Hm (suffix_legal s s1 Hsuf1 HL)) as [Ee [ws Hw]].
          split; [exact Ee|]. cbn [m_words]. destruct (Hleg HL) as [_ Hmb]. rewrite Hmb, Hw.
          eexists. reflexivity.
      + cbn [slice_post]. split; [reflexivity|]. split; [discriminate|]. split; [exact I1|].
        split; [exact Hsuf1|]. split; [exact Hsk1|].
        intros HL. destruct (Hleg HL) as [[He|He] _]; discriminate.
      + cbn [slice_post]. split; [reflexivity|]. split; [discriminate|]. split; [exact I1|].
        split; [exact Hsuf1|]. split; [exact Hsk1|].
        intros HL. split; [reflexivity|]. destruct (Hleg HL) as [_ Hmb].
        cbn [m_words]. rewrite Hmb. eexists. reflexivity.
      + cbn [slice_post]. split; [reflexivity|]. split; [discriminate|]. split; [exact I1|].
        split; [exact Hsuf1|]. split; [exact Hsk1|].
        intros HL. destruct (Hleg HL) as [[He|He] _]; discriminate.
  Qed.

  (* the whole method *)
  Definition slice_spec (st : Parser) (r : mres Parser (list Z * gerr)) : Prop :=
    match r with
    | MRet st' (ws, e) =>
        GInv data st' /\ script_suffix st st' /\ r_seeks (g_r st') = r_seeks (g_r st) /\
        (e <> ENil -> ws = []) /\
        (legal_script (script_of st) ->
           (e = ENil \/ e = EUnexpectedEOF) /\
           m_step BS (toN data) (abs_state BS st) OSlice =
             (match e with ENil => RWords (toN ws) | _ => REof end, abs_state BS st'))
    | _ => False
    end.

  Theorem ReadUint16Slice_spec st :
    GInv data st -> (length (script_of st) + 3 <= fuel)%nat ->
    slice_spec st (Parser_ReadUint16Slice fuel st).
  Proof.
    intros I Hf.
    unfold Parser_ReadUint16Slice. cbv zeta.
    pose proof (ReadUint16_spec data Hlen fuel st I Hf) as H.
    destruct (Parser_ReadUint16 fuel st) as [s1 [v e]|s1|]; cbn [val_spec] in H; try contradiction.
    destruct H as (I1 & Hsuf1 & Hsk1 & Hok & Hbad & Hleg).
    change (Z.to_nat 2) with 2%nat in Hleg, Hok.
    cbn [mbind].
    destruct e; cbn [err_is_nil negb].
    2,3,4: cbn [finish slice_spec]; (split; [exact I1|]); (split; [exact Hsuf1|]); (split; [exact Hsk1|]);
           (split; [reflexivity|]); intros HL; destruct (Hleg HL) as [He Hmb];
           (split; [try (destruct He; discriminate); now right|]);
           try (destruct He; discriminate);
           cbn [m_step]; rewrite Hmb; reflexivity.
    destruct (Hok eq_refl) as (Ev & Hpos & Hin).
    set (bytes := sub data (Z.to_nat (gen_pos st)) 2) in *.
    assert (Hb2 : length bytes = 2%nat).
    { unfold bytes. rewrite sub_length_min. unfold zlen in Hin.
      pose proof (gi_from _ _ I). pose proof (gi_pos _ _ I). unfold gen_pos in *. lia. }
    assert (Hbz : bytesZ bytes) by (apply bytesZ_sub; exact Hbytes).
    assert (Ev' : v = Z.of_N (rd16 (toN bytes))) by (rewrite Ev; apply dec16_rd16; assumption).
    assert (Hv0 : 0 <= v) by lia.
    rewrite go_make_ok by lia. cbn [pbind].
    rewrite zlen_repeat, Nat2Z.id.
    assert (Hf1 : (length (script_of s1) + 3 <= fuel)%nat) by (pose proof (suffix_len st s1 Hsuf1); lia).
    pose proof (slice_loop (Z.to_nat v) 0 s1 (repeat 0 (Z.to_nat v)) I1 Hf1 ltac:(now rewrite repeat_length)) as HL.
    change (Z.of_nat 0) with 0 in HL.
    fold gen_slice_body.
    destruct (loop_range (Z.to_nat v) 0 gen_slice_body s1 (repeat 0 (Z.to_nat v))) as [s' res'|s' [l e]|s'|];
      cbn [slice_post] in HL; try contradiction; cbn [cbind finish slice_spec].
    - destruct HL as (I' & Hsuf' & Hsk' & ws & Er & Hlw & Hm).
      cbn [firstn app] in Er. subst res'.
      split; [exact I'|]. split; [eapply suffix_trans; eassumption|]. split; [congruence|].
      split; [intros H; contradiction|].
      intros HLg. split; [now left|]. cbn [m_step]. destruct (Hleg HLg) as [_ Hmb]. rewrite Hmb.
      fold bytes.
      replace (N.to_nat (rd16 (toN bytes))) with (Z.to_nat v) by (rewrite Ev'; lia).
      rewrite (Hm (suffix_legal st s1 Hsuf1 HLg)). reflexivity.
    - destruct HL as (El & Ene & I' & Hsuf' & Hsk' & Hm). subst l.
      split; [exact I'|]. split; [eapply suffix_trans; eassumption|]. split; [congruence|].
      split; [reflexivity|].
      intros HLg. destruct (Hm (suffix_legal st s1 Hsuf1 HLg)) as [Ee [ws Hw]].
      split; [now right|]. cbn [m_step]. destruct (Hleg HLg) as [_ Hmb]. rewrite Hmb.
      fold bytes.
      replace (N.to_nat (rd16 (toN bytes))) with (Z.to_nat v) by (rewrite Ev'; lia).
      rewrite Hw. subst e. reflexivity.
  Qed.
End Slice.

Section ReadLoop.
  Variable data : list Z.
  Hypothesis Hlen : zlen data <= PMAX.
  Variable fuel : nat.

  (* loop state: buf (what is left), written so far, total *)
  Local Notation RV := (list Z * list Z * Z)%type.
  Local Notation RT := (Z * gerr * list Z)%type.

  Definition gen_read_cond : Parser -> RV -> bool :=
    ltac:(let t := eval cbv beta zeta delta [Parser_Read] in (fun st b => Parser_Read fuel st b) in
          match t with context [loop_while _ ?c _ _ _] => exact c end).
  Definition gen_read_body : Parser -> RV -> ctl Parser RV RT :=
    ltac:(let t := eval cbv beta zeta delta [Parser_Read] in (fun st b => Parser_Read fuel st b) in
          match t with context [loop_while _ _ ?b _ _] => exact b end).

  Lemma read_cond_eq s buf o t : gen_read_cond s (buf, o, t) = (zlen buf >? 0).
  Proof. reflexivity. Qed.

  Definition chunk (buf : list Z) : Z := Z.min (zlen buf) 1024.

  (* one iteration, in terms of ReadBytes *)
  Lemma read_body_eq s buf o t :
    0 < zlen buf -> 0 <= t -> t + zlen buf <= PMAX ->
    gen_read_body s (buf, o, t) =
    match Parser_ReadBytes fuel s (chunk buf) with
    | MRet s' (tmp, e) =>
        let k := Z.of_nat (Nat.min (length buf) (length tmp)) in
        let buf1 := firstn (Nat.min (length buf) (length tmp)) tmp ++ skipn (Nat.min (length buf) (length tmp)) buf in
        let buf2 := skipn (Z.to_nat k) buf1 in
        if ((zlen buf2 >? 0) && negb (err_is_nil e))%bool
        then CRet s' (t + k, e, (o ++ firstn (Z.to_nat k) buf1) ++ buf2)
        else CNorm s' (buf2, o ++ firstn (Z.to_nat k) buf1, t + k)
    | MPanic s' => CPanic s'
    | MFuel => CFuel
    end.
  Proof.
    intros Hb Ht Hr. unfold gen_read_body, chunk.
    destruct (Z.gtb_spec (zlen buf) 1024) as [Hg|Hg]; cbn [cbind].
    1: replace (Z.min (zlen buf) 1024) with 1024 by lia.
    2: replace (Z.min (zlen buf) 1024) with (zlen buf) by lia.
    all: match goal with |- mbind ?m _ = _ => destruct m as [s' [tmp e]|s'|] end; cbn [mbind]; try reflexivity.
    all: unfold go_copy; cbv zeta.
    all: set (kk := Nat.min (length buf) (length tmp)).
    all: assert (Hkk : Z.of_nat kk <= zlen buf) by (unfold kk, zlen; lia).
    all: rewrite !wrap_s64_small by (unfold PMAX in *; lia).
    all: set (buf1 := firstn kk tmp ++ skipn kk buf).
    all: assert (Hl1 : zlen buf1 = zlen buf) by
           (unfold buf1, zlen; rewrite app_length, firstn_length, skipn_length; unfold kk; lia).
    all: rewrite go_slice_ok by lia; cbn [pbind].
    all: unfold sub; rewrite Hl1.
    all: replace (firstn (Z.to_nat (zlen buf - Z.of_nat kk)) (skipn (Z.to_nat (Z.of_nat kk)) buf1))
           with (skipn (Z.to_nat (Z.of_nat kk)) buf1)
           by (symmetry; apply firstn_all2; rewrite skipn_length; unfold zlen in *; lia).
    all: reflexivity.
  Qed.

  Definition read_post (s : Parser) (buf o : list Z) (t : Z) (r : ctl Parser RV RT) : Prop :=
    match r with
    | CNorm s' (buf', o', t') =>
        buf' = [] /\ t' = t + zlen buf /\
        GInv data s' /\ script_suffix s s' /\ r_seeks (g_r s') = r_seeks (g_r s) /\
        exists D, o' = o ++ D /\ zlen D = zlen buf /\
          (legal_script (script_of s) ->
           forall g, (length buf < g)%nat ->
             m_read BS (toN data) g (abs_state BS s) (length buf) =
               (length buf, toN D, false, abs_state BS s', true))
    | CRet s' (t', e, out) =>
        e <> ENil /\ GInv data s' /\ script_suffix s s' /\ r_seeks (g_r s') = r_seeks (g_r s) /\
        exists D, out = o ++ D ++ skipn (length D) buf /\ t' = t + zlen D /\ zlen D <= zlen buf /\
          (legal_script (script_of s) ->
           e = EUnexpectedEOF /\
           forall g, (length buf < g)%nat ->
             m_read BS (toN data) g (abs_state BS s) (length buf) =
               (length D, toN D, true, abs_state BS s', true))
    | _ => False
    end.

  (* the read failed: nothing is delivered, Read returns what it has *)
  Ltac read_fail Hbad Hleg Hb I1 Hsuf1' Hsk1' Hcn :=
    match goal with
    | |- context [err_is_nil ?e] =>
      assert (Hne : e <> ENil) by discriminate;
      let Etmp := fresh "Etmp" in let Hpos1 := fresh "Hpos1" in
      destruct (Hbad Hne) as [Etmp Hpos1]; rewrite Etmp in *;
      cbn [length]; rewrite Nat.min_0_r; cbn [firstn skipn app Z.of_nat Z.to_nat];
      rewrite Z.add_0_r, app_nil_r;
      replace (zlen _ >? 0) with true by (symmetry; apply gtb_true; lia);
      cbn [err_is_nil negb andb read_post];
      (split; [exact Hne|]); (split; [exact I1|]); (split; [exact Hsuf1'|]); (split; [exact Hsk1'|]);
      exists []; cbn [length skipn app]; rewrite zlen_nil;
      (split; [reflexivity|]); (split; [lia|]); (split; [lia|]);
      let HL := fresh "HL" in let He := fresh "He" in let Hmb := fresh "Hmb" in
      intros HL; destruct (Hleg HL) as [He Hmb];
      (split; [destruct He as [He|He]; [contradiction|exact He]|]);
      let g := fresh "g" in let Hg := fresh "Hg" in
      intros g Hg; (destruct g as [|g]; [lia|]);
      cbn [m_read];
      replace (length _ =? 0)%nat with false by (symmetry; apply Nat.eqb_neq; unfold zlen in Hb; lia);
      rewrite <- Hcn, Hmb;
      destruct He as [He|He]; [contradiction|]; try discriminate; reflexivity
    end.

  Lemma read_loop : forall f s buf o t,
    GInv data s -> (length (script_of s) + 3 <= fuel)%nat -> (length buf < f)%nat ->
    0 <= t -> t + zlen buf <= PMAX ->
    read_post s buf o t (loop_while f gen_read_cond gen_read_body s (buf, o, t)).
  Proof.
    induction f as [|f IH]; intros s buf o t I Hf Hlf Ht Hr; [lia|].
    cbn [loop_while]. rewrite read_cond_eq.
    destruct (Z.gtb_spec (zlen buf) 0) as [Hb|Hb].
    2: { (* nothing left to read *)
      assert (buf = []) by (apply zlen_0_nil; pose proof (zlen_nonneg buf); lia). subst buf.
      cbn [read_post]. split; [reflexivity|]. split; [rewrite zlen_nil; lia|]. split; [exact I|].
      split; [apply suffix_refl|]. split; [reflexivity|].
      exists []. rewrite app_nil_r. split; [reflexivity|]. split; [reflexivity|].
      intros _ g Hg. destruct g; [cbn in Hg; lia|]. reflexivity. }
    rewrite (read_body_eq s buf o t Hb Ht Hr).
    assert (Hc : 0 < chunk buf <= 1024) by (unfold chunk; lia).
    pose proof (ReadBytes_spec data Hlen fuel s (chunk buf) I Hf) as H.
    unfold rb_spec in H.
    destruct (Parser_ReadBytes fuel s (chunk buf)) as [s1 [tmp e]|s1|]; [| destruct H; lia | destruct H as [_ []]].
    destruct H as [_ H]. cbn [rb_spec0] in H. replace (Z.max 0 (chunk buf)) with (chunk buf) in H by lia.
    destruct H as (I1 & Hsuf1 & Hsk1 & _ & Hok & Hbad & Hleg).
    assert (A0 : abs_state BS (set_g_lastRead s (gen_pos s)) = abs_state BS s) by reflexivity.
    rewrite A0 in Hleg. clear A0.
    assert (Hsuf1' : script_suffix s s1) by exact Hsuf1.
    assert (Hsk1' : r_seeks (g_r s1) = r_seeks (g_r s)) by exact Hsk1.
    cbv zeta.
    assert (Hcn : Z.to_nat (chunk buf) = Nat.min (length buf) BS).
    { unfold chunk, zlen. pose proof bs_1024 as HBS. revert HBS. generalize BS. intros bsv HBS. lia. }
    destruct e.
    - (* a chunk was delivered *)
      destruct (Hok eq_refl) as (Etmp & Htl & _ & _).
      assert (Hmin : Nat.min (length buf) (length tmp) = length tmp) by (unfold chunk, zlen in *; lia).
      rewrite Hmin, Nat2Z.id, firstn_all.
      rewrite skipn_app, skipn_all, Nat.sub_diag. cbn [app skipn].
      rewrite firstn_app_exact.
      cbn [err_is_nil negb]. rewrite andb_false_r.
      assert (Hf1 : (length (script_of s1) + 3 <= fuel)%nat) by (pose proof (suffix_len s s1 Hsuf1'); lia).
      assert (Hlt : length tmp = Z.to_nat (chunk buf)) by (unfold zlen in Htl; lia).
      assert (Hl2 : (length (skipn (length tmp) buf) < f)%nat) by (rewrite skipn_length; lia).
      assert (Hz2 : zlen (skipn (length tmp) buf) = zlen buf - chunk buf).
      { unfold zlen. rewrite skipn_length. unfold chunk, zlen in *. lia. }
      specialize (IH s1 (skipn (length tmp) buf) (o ++ tmp) (t + Z.of_nat (length tmp)) I1 Hf1 Hl2
                     ltac:(lia) ltac:(rewrite Hz2; unfold zlen in Htl; lia)).
      destruct (loop_while f gen_read_cond gen_read_body s1 (skipn (length tmp) buf, o ++ tmp, t + Z.of_nat (length tmp)))
        as [s' [[buf' o'] t']|s' [[t' e'] out]|s'|]; cbn [read_post] in *; try contradiction.
      + destruct IH as (Eb & Et & I' & Hsuf' & Hsk' & D & Eo & HD & Hm).
        split; [exact Eb|]. split; [rewrite Et, Hz2; unfold zlen in Htl; lia|]. split; [exact I'|].
        split; [eapply suffix_trans; eassumption|]. split; [congruence|].
        exists (tmp ++ D). split; [now rewrite Eo, app_assoc|]. split; [rewrite zlen_app, HD, Hz2; lia|].
        intros HL g Hg. destruct g as [|g]; [lia|].
        cbn [m_read]. replace (length buf =? 0)%nat with false by (symmetry; apply Nat.eqb_neq; unfold zlen in Hb; lia).
        rewrite <- Hcn.
        destruct (Hleg HL) as [_ Hmb]. rewrite Hmb.
        replace (length buf - Z.to_nat (chunk buf))%nat with (length (skipn (length tmp) buf)) by (rewrite skipn_length; lia).
        rewrite (Hm (suffix_legal s s1 Hsuf1' HL) g ltac:(rewrite skipn_length in *; lia)).
        cbn [andb]. rewrite toN_app. f_equal. f_equal. f_equal. f_equal.
        rewrite skipn_length. lia.
      + destruct IH as (Ene & I' & Hsuf' & Hsk' & D & Eo & Et & HD & Hm).
        split; [exact Ene|]. split; [exact I'|].
        split; [eapply suffix_trans; eassumption|]. split; [congruence|].
        exists (tmp ++ D). split; [|split; [|split]].
        * rewrite Eo, <- !app_assoc. f_equal. f_equal. f_equal.
          rewrite app_length, skipn_skipn'. reflexivity.
        * rewrite Et, zlen_app. unfold zlen. lia.
        * rewrite zlen_app. rewrite Hz2 in HD. lia.
        * intros HL. destruct (Hm (suffix_legal s s1 Hsuf1' HL)) as [Ee Hm'].
          split; [exact Ee|]. intros g Hg. destruct g as [|g]; [lia|].
          cbn [m_read]. replace (length buf =? 0)%nat with false by (symmetry; apply Nat.eqb_neq; unfold zlen in Hb; lia).
          rewrite <- Hcn.
          destruct (Hleg HL) as [_ Hmb]. rewrite Hmb.
          replace (length buf - Z.to_nat (chunk buf))%nat with (length (skipn (length tmp) buf)) by (rewrite skipn_length; lia).
          rewrite (Hm' g ltac:(rewrite skipn_length in *; lia)).
          cbn [andb]. rewrite toN_app, app_length. f_equal. f_equal. f_equal. f_equal. lia.
    - read_fail Hbad Hleg Hb I1 Hsuf1' Hsk1' Hcn.
    - read_fail Hbad Hleg Hb I1 Hsuf1' Hsk1' Hcn.
    - read_fail Hbad Hleg Hb I1 Hsuf1' Hsk1' Hcn.
  Qed.

  (* the whole method *)
  Definition read_spec (st : Parser) (k : nat) (r : mres Parser RT) : Prop :=
    match r with
    | MRet st' (n, e, out) =>
        GInv data st' /\ script_suffix st st' /\ r_seeks (g_r st') = r_seeks (g_r st) /\
        0 <= n <= Z.of_nat k /\
        (legal_script (script_of st) ->
           (e = ENil \/ e = EUnexpectedEOF) /\
           m_read BS (toN data) (S k) (abs_state BS st) k =
             (Z.to_nat n, toN (firstn (Z.to_nat n) out),
              match e with ENil => false | _ => true end, abs_state BS st', true))
    | _ => False
    end.

  Theorem Read_spec st k :
    GInv data st -> (length (script_of st) + 3 <= fuel)%nat -> (k < fuel)%nat -> Z.of_nat k <= PMAX ->
    read_spec st k (Parser_Read fuel st (repeat 0 k)).
  Proof.
    intros I Hf Hk Hr.
    unfold Parser_Read. cbv zeta.
    fold gen_read_cond. fold gen_read_body.
    pose proof (read_loop fuel st (repeat 0 k) [] 0 I Hf ltac:(now rewrite repeat_length) ltac:(lia)
                          ltac:(rewrite zlen_repeat; lia)) as H.
    destruct (loop_while fuel gen_read_cond gen_read_body st (repeat 0 k, [], 0))
      as [s' [[buf' o'] t']|s' [[t' e'] out]|s'|]; cbn [read_post] in H; try contradiction;
      cbn [cbind finish read_spec].
    - destruct H as (Eb & Et & I' & Hsuf & Hsk & D & Eo & HD & Hm).
      subst buf'. cbn [app] in Eo. subst o'. rewrite app_nil_r.
      rewrite zlen_repeat in *. rewrite repeat_length in Hm.
      split; [exact I'|]. split; [exact Hsuf|]. split; [exact Hsk|]. split; [lia|].
      intros HL. split; [now left|]. rewrite (Hm HL (S k) ltac:(lia)).
      replace (Z.to_nat t') with (length D) by (unfold zlen in HD; lia).
      rewrite firstn_all. f_equal. f_equal. f_equal. f_equal. unfold zlen in HD. lia.
    - destruct H as (Ene & I' & Hsuf & Hsk & D & Eo & Et & HD & Hm).
      cbn [app] in Eo. rewrite zlen_repeat in *. rewrite repeat_length in Hm.
      split; [exact I'|]. split; [exact Hsuf|]. split; [exact Hsk|].
      split; [pose proof (zlen_nonneg D); lia|].
      intros HL. destruct (Hm HL) as [Ee Hm']. split; [now right|].
      rewrite (Hm' (S k) ltac:(lia)). subst e'.
      replace (Z.to_nat t') with (length D) by (unfold zlen in Et; lia).
      rewrite Eo, firstn_app_exact. reflexivity.
  Qed.
End ReadLoop.
