(* C17B/Proofs_ops.v — the generated SeekPos, Discard, Pos, Size and the
   fixed-size reads: invariant (every reader behaviour) and agreement with
   C17's model (legal readers). *)
From Coq Require Import List NArith ZArith Bool Arith Lia.
From Common Require Import Bytes.
From Gen Require Import Consts C17B.
From C17 Require Import Model Proofs.
From C17B Require Import Model Util Proofs_iter Proofs_rb.
Import ListNotations.
Local Open Scope Z_scope.

Definition seeks_ok (st : Parser) : Prop := Forall (fun f => f = false) (r_seeks (g_r st)).
Definition seeks_suffix (st st' : Parser) : Prop :=
  r_seeks (g_r st') = r_seeks (g_r st) \/ r_seeks (g_r st') = tl (r_seeks (g_r st)).

Lemma seeks_ok_suffix st st' : seeks_suffix st st' -> seeks_ok st -> seeks_ok st'.
Proof.
  unfold seeks_ok. intros [E|E] H; rewrite E; [exact H|].
  destruct (r_seeks (g_r st)); [exact H|]. now inversion H.
Qed.

Lemma ginv_fields' data st st' :
  GInv data st ->
  r_data (g_r st') = r_data (g_r st) -> r_pos (g_r st') = r_pos (g_r st) ->
  g_buf st' = g_buf st -> g_from st' = g_from st ->
  g_pos st' = g_pos st -> g_used st' = g_used st -> GInv data st'.
Proof.
  intros I Hd Hr Hb Hf Hp Hu.
  constructor; rewrite ?Hd, ?Hr, ?Hb, ?Hf, ?Hp, ?Hu; apply I.
Qed.

Section Ops.
  Variable data : list Z.
  Hypothesis Hlen : zlen data <= PMAX.

  (* ---------------- SeekPos ---------------- *)

  Definition seek_spec (st : Parser) (p : Z) (r : mres Parser gerr) : Prop :=
    match r with
    | MRet st' e =>
        GInv data st' /\ script_of st' = script_of st /\ seeks_suffix st st' /\
        g_lastRead st' = g_lastRead st /\
        (e <> ENil -> gen_pos st' = gen_pos st) /\
        (e = ENil -> gen_pos st' = p) /\
        (seeks_ok st -> 0 <= p ->
           e = ENil /\ abs_state BS st' = m_seek (abs_state BS st) (Z.to_nat p))
    | _ => False
    end.

  Theorem SeekPos_spec fuel st p :
    GInv data st -> -9223372036854775808 <= p <= PMAX ->
    seek_spec st p (Parser_SeekPos fuel st p).
  Proof.
    intros I Hpr.
    pose proof (gi_pos _ _ I) as Hp. pose proof (gi_used _ _ I) as Hu.
    pose proof (gi_from _ _ I) as Hf. pose proof (ginv_buf_le data st I) as Hle.
    pose proof (abs_buf_len data st I) as Hbl.
    unfold Parser_SeekPos. cbv zeta.
    rewrite wrap_s64_small by (unfold PMAX in *; lia).
    destruct (Z.geb_spec p (g_from st)) as [H1|H1]; cbn [andb].
    1: destruct (Z.leb_spec p (g_from st + g_used st)) as [H2|H2].
    - (* inside the window *)
      cbn [cbind finish seek_spec].
      rewrite wrap_s64_small by (unfold PMAX in *; lia).
      set (st' := set_g_pos st (p - g_from st)).
      assert (I' : GInv data st').
      { constructor; unfold st'; cbn [g_r g_buf g_from g_pos g_used set_g_pos]; try apply I. lia. }
      split; [exact I'|]. split; [reflexivity|]. split; [now left|]. split; [reflexivity|].
      split; [intros H; contradiction|]. split; [intros _; unfold gen_pos, st'; cbn; lia|].
      intros _ Hp0. split; [reflexivity|].
      rewrite (abs_nf data st' I'), (abs_nf data st I). unfold st'.
      cbn [g_r g_buf g_from g_pos g_used set_g_pos]. unfold m_seek. cbn [p_from p_buf p_pos p_up p_orc].
      rewrite Hbl.
      replace (Z.to_nat (g_from st) <=? Z.to_nat p)%nat with true by (symmetry; apply Nat.leb_le; lia).
      replace (Z.to_nat p <=? Z.to_nat (g_from st) + Z.to_nat (g_used st))%nat with true
        by (symmetry; apply Nat.leb_le; lia).
      cbn [andb]. f_equal. lia.
    - (* beyond the window: Seek *)
      cbn [cbind finish]. unfold r_seek.
      assert (Hoff : (p <? 0) = false) by (apply Z.ltb_ge; lia).
      rewrite Hoff. cbn [orb Z.eqb negb].
      destruct (r_seeks (g_r st)) as [|f sk] eqn:Esk; [|destruct f]; cbn [orb cbind finish seek_spec err_is_nil negb].
      all: unfold set_g_used, set_g_pos, set_g_from, set_g_r;
           cbn [g_r g_buf g_from g_pos g_used g_lastRead].
      1,3: (* the Seek succeeds *)
        match goal with |- GInv data ?s /\ _ => set (st' := s) end;
        assert (I' : GInv data st') by
          (constructor; unfold st'; cbn [g_r g_buf g_from g_pos g_used r_data r_pos];
           [apply I|apply I|lia|pose proof (zlen_nonneg (g_buf st)); lia|lia|reflexivity|lia]);
        (split; [exact I'|]); (split; [reflexivity|]);
        (split; [unfold seeks_suffix, st'; cbn [g_r r_seeks]; rewrite ?Esk; auto|]);
        (split; [reflexivity|]); (split; [intros H; contradiction|]);
        (split; [intros _; unfold gen_pos, st'; cbn; lia|]);
        intros _ Hp0; (split; [reflexivity|]);
        rewrite (abs_nf data st' I'), (abs_nf data st I); unfold st';
        cbn [g_r g_buf g_from g_pos g_used r_script]; unfold m_seek; cbn [p_from p_buf p_pos p_up p_orc];
        rewrite Hbl;
        replace ((Z.to_nat (g_from st) <=? Z.to_nat p)%nat && (Z.to_nat p <=? Z.to_nat (g_from st) + Z.to_nat (g_used st))%nat)%bool
          with false by (symmetry; apply andb_false_iff; right; apply Nat.leb_gt; lia);
        f_equal; lia.
      (* the Seek fails: nothing but the reader's scripts moved *)
      match goal with |- GInv data ?s /\ _ => set (st' := s) end.
      assert (I' : GInv data st') by (apply (ginv_fields' data st); auto).
      split; [exact I'|]. split; [reflexivity|].
      split; [unfold seeks_suffix, st'; cbn [g_r r_seeks]; rewrite Esk; auto|].
      split; [reflexivity|]. split; [intros _; reflexivity|]. split; [intros H; discriminate|].
      intros Hs. unfold seeks_ok in Hs. rewrite Esk in Hs. inversion Hs. discriminate.
    - (* before the window: Seek *)
      cbn [cbind finish]. unfold r_seek.
      destruct (Z.ltb_spec p 0) as [Hneg|Hnn]; cbn [orb].
      + (* a negative offset is refused *)
        destruct (r_seeks (g_r st)) as [|f sk] eqn:Esk; cbn [cbind finish seek_spec err_is_nil negb].
        all: unfold set_g_r; cbn [g_r g_buf g_from g_pos g_used g_lastRead].
        all: match goal with |- GInv data ?s /\ _ => set (st' := s) end.
        all: assert (I' : GInv data st') by (apply (ginv_fields' data st); auto).
        all: split; [exact I'|]; split; [reflexivity|].
        all: split; [unfold seeks_suffix, st'; cbn [g_r r_seeks]; rewrite Esk; auto|].
        all: split; [reflexivity|]; split; [intros _; reflexivity|]; split; [intros H; discriminate|].
        all: intros _ Hp0; lia.
      + cbn [Z.eqb negb].
        destruct (r_seeks (g_r st)) as [|f sk] eqn:Esk; [|destruct f]; cbn [orb cbind finish seek_spec err_is_nil negb].
        all: unfold set_g_used, set_g_pos, set_g_from, set_g_r;
             cbn [g_r g_buf g_from g_pos g_used g_lastRead].
        1,3:
          match goal with |- GInv data ?s /\ _ => set (st' := s) end;
          assert (I' : GInv data st') by
            (constructor; unfold st'; cbn [g_r g_buf g_from g_pos g_used r_data r_pos];
             [apply I|apply I|lia|pose proof (zlen_nonneg (g_buf st)); lia|lia|reflexivity|lia]);
          (split; [exact I'|]); (split; [reflexivity|]);
          (split; [unfold seeks_suffix, st'; cbn [g_r r_seeks]; rewrite ?Esk; auto|]);
          (split; [reflexivity|]); (split; [intros H; contradiction|]);
          (split; [intros _; unfold gen_pos, st'; cbn; lia|]);
          intros _ Hp0; (split; [reflexivity|]);
          rewrite (abs_nf data st' I'), (abs_nf data st I); unfold st';
          cbn [g_r g_buf g_from g_pos g_used r_script]; unfold m_seek; cbn [p_from p_buf p_pos p_up p_orc];
          rewrite Hbl;
          replace ((Z.to_nat (g_from st) <=? Z.to_nat p)%nat && (Z.to_nat p <=? Z.to_nat (g_from st) + Z.to_nat (g_used st))%nat)%bool
            with false by (symmetry; apply andb_false_iff; left; apply Nat.leb_gt; lia);
          f_equal; lia.
        match goal with |- GInv data ?s /\ _ => set (st' := s) end.
        assert (I' : GInv data st') by (apply (ginv_fields' data st); auto).
        split; [exact I'|]. split; [reflexivity|].
        split; [unfold seeks_suffix, st'; cbn [g_r r_seeks]; rewrite Esk; auto|].
        split; [reflexivity|]. split; [intros _; reflexivity|]. split; [intros H; discriminate|].
        intros Hs. unfold seeks_ok in Hs. rewrite Esk in Hs. inversion Hs. discriminate.
  Qed.

  (* ---------------- Pos, Size, Discard, New ---------------- *)

  Lemma Pos_spec fuel st : GInv data st -> Parser_Pos fuel st = MRet st (gen_pos st).
  Proof.
    intros I. pose proof (gi_pos _ _ I). pose proof (gi_used _ _ I). pose proof (gi_from _ _ I).
    pose proof (ginv_buf_le data st I).
    unfold Parser_Pos. cbn [finish]. rewrite wrap_s64_small by (unfold PMAX in *; lia). reflexivity.
  Qed.

  Lemma Size_spec fuel st : GInv data st -> Parser_Size fuel st = MRet st (zlen data).
  Proof. intros I. unfold Parser_Size, r_size. cbn [finish]. now rewrite (gi_data _ _ I). Qed.

  Definition discard_spec (st : Parser) (n : Z) (r : mres Parser gerr) : Prop :=
    if n <? 0 then r = MPanic st else seek_spec st (gen_pos st + n) r.

  Theorem Discard_spec fuel st n :
    GInv data st -> -9223372036854775808 <= n -> gen_pos st + n <= PMAX ->
    discard_spec st n (Parser_Discard fuel st n).
  Proof.
    intros I Hn Hr. pose proof (gi_pos _ _ I). pose proof (gi_used _ _ I). pose proof (gi_from _ _ I).
    pose proof (ginv_buf_le data st I).
    unfold Parser_Discard, discard_spec.
    destruct (Z.ltb_spec n 0) as [Hneg|Hnn]; [reflexivity|].
    rewrite (Pos_spec fuel st I). cbn [mbind].
    unfold gen_pos in *.
    rewrite wrap_s64_small by (unfold PMAX in *; lia).
    pose proof (SeekPos_spec fuel st (g_from st + g_pos st + n) I ltac:(unfold PMAX in *; lia)) as H3.
    destruct (Parser_SeekPos fuel st (g_from st + g_pos st + n)) as [s' e|s'|]; cbn [mbind finish]; exact H3.
  Qed.

  Theorem New_spec fuel sc sk :
    exists st, Parser_New fuel (mk_reader data 0 sc sk) = MRet st tt /\
               GInv data st /\ script_of st = sc /\ r_seeks (g_r st) = sk /\ gen_pos st = 0 /\
               abs_state BS st = p_init (abs_orc BS sc).
  Proof.
    unfold Parser_New, Parser_SeekPos. cbv zeta.
    cbn [g_from g_used g_pos g_r g_buf set_g_pos].
    rewrite !wrap_s64_small by lia.
    cbn [Z.geb Z.leb Z.compare andb cbind finish mbind err_is_nil negb Z.add Z.sub Z.opp].
    eexists. split; [reflexivity|].
    split; [|repeat split].
    constructor; cbn; try reflexivity; try lia; try (now left). unfold PMAX; lia.
  Qed.

  (* ---------------- fixed-size reads ---------------- *)

  Definition val_spec (st : Parser) (n : Z) (dec : list Z -> Z) (r : mres Parser (Z * gerr)) : Prop :=
    match r with
    | MRet st' (v, e) =>
        GInv data st' /\ script_suffix st st' /\ r_seeks (g_r st') = r_seeks (g_r st) /\
        (e = ENil -> v = dec (sub data (Z.to_nat (gen_pos st)) (Z.to_nat n)) /\
                     gen_pos st' = gen_pos st + n /\ gen_pos st + n <= zlen data) /\
        (e <> ENil -> v = 0 /\ gen_pos st' = gen_pos st) /\
        (legal_script (script_of st) ->
           (e = ENil \/ e = EUnexpectedEOF) /\
           m_bytes BS (toN data) (abs_state BS st) (Z.to_nat n) =
             (match e with ENil => Some (toN (sub data (Z.to_nat (gen_pos st)) (Z.to_nat n))) | _ => None end,
              abs_state BS st', true))
    | _ => False
    end.

  Lemma val_spec_of_rb fuel st n dec (k : Parser -> list Z * gerr -> ctl Parser Empty_set (Z * gerr)) :
    GInv data st -> 0 < n <= 1024 -> (length (script_of st) + 3 <= fuel)%nat ->
    (forall s b, zlen b = n -> k s (b, ENil) = CRet s (dec b, ENil)) ->
    (forall s b e, e <> ENil -> k s (b, e) = CRet s (0, e)) ->
    val_spec st n dec (finish (mbind (Parser_ReadBytes fuel st n) k)).
  Proof.
    intros I Hn Hfuel Hk1 Hk2.
    pose proof (ReadBytes_spec data Hlen fuel st n I Hfuel) as H.
    unfold rb_spec in H.
    destruct (Parser_ReadBytes fuel st n) as [s' [b e]|s'|]; [| destruct H; lia | destruct H as [_ []]].
    destruct H as [_ H]. cbn [rb_spec0] in H.
    replace (Z.max 0 n) with n in H by lia.
    destruct H as (I' & Hsuf & Hsk & _ & Hok & Hbad & Hleg).
    assert (A0 : abs_state BS (set_g_lastRead st (gen_pos st)) = abs_state BS st) by reflexivity.
    assert (P0 : gen_pos (set_g_lastRead st (gen_pos st)) = gen_pos st) by reflexivity.
    rewrite A0 in Hleg. unfold rb_ok in Hok. rewrite P0 in Hok, Hbad.
    cbn [mbind].
    destruct e.
    - destruct (Hok eq_refl) as (Eb & Hbl & Hpos & Hin).
      rewrite (Hk1 s' b Hbl). cbn [finish val_spec].
      split; [exact I'|]. split; [exact Hsuf|]. split; [exact Hsk|].
      split; [intros _; rewrite Eb; repeat split; [exact Hpos|lia]|].
      split; [intros H; contradiction|].
      intros HL. destruct (Hleg HL) as [He Hm]. split; [exact He|]. now rewrite Hm, Eb.
    - rewrite (Hk2 s' b EEOF ltac:(discriminate)). cbn [finish val_spec].
      split; [exact I'|]. split; [exact Hsuf|]. split; [exact Hsk|].
      split; [intros H; discriminate|]. split; [intros _; split; [reflexivity|apply Hbad; discriminate]|].
      intros HL. destruct (Hleg HL) as [[He|He] Hm]; discriminate.
    - rewrite (Hk2 s' b EUnexpectedEOF ltac:(discriminate)). cbn [finish val_spec].
      split; [exact I'|]. split; [exact Hsuf|]. split; [exact Hsk|].
      split; [intros H; discriminate|]. split; [intros _; split; [reflexivity|apply Hbad; discriminate]|].
      intros HL. destruct (Hleg HL) as [He Hm]. split; [exact He|exact Hm].
    - rewrite (Hk2 s' b (EOther code) ltac:(discriminate)). cbn [finish val_spec].
      split; [exact I'|]. split; [exact Hsuf|]. split; [exact Hsk|].
      split; [intros H; discriminate|]. split; [intros _; split; [reflexivity|apply Hbad; discriminate]|].
      intros HL. destruct (Hleg HL) as [[He|He] Hm]; discriminate.
  Qed.

  Definition dec8 (b : list Z) : Z := nth 0 b 0.
  Definition dec16 (b : list Z) : Z := Z.lor (wrap_u 16 (Z.shiftl (nth 0 b 0) 8)) (nth 1 b 0).
  Definition dec32 (b : list Z) : Z :=
    Z.lor (Z.lor (Z.lor (wrap_u 32 (Z.shiftl (nth 0 b 0) 24)) (wrap_u 32 (Z.shiftl (nth 1 b 0) 16)))
                 (wrap_u 32 (Z.shiftl (nth 2 b 0) 8))) (nth 3 b 0).

  Theorem ReadUint8_spec fuel st :
    GInv data st -> (length (script_of st) + 3 <= fuel)%nat ->
    val_spec st 1 dec8 (Parser_ReadUint8 fuel st).
  Proof.
    intros I Hf. unfold Parser_ReadUint8. apply val_spec_of_rb; try assumption; try lia.
    - intros s b Hb. cbn [err_is_nil negb]. rewrite go_index_ok by lia. reflexivity.
    - intros s b e He. destruct e; try contradiction; reflexivity.
  Qed.

  Theorem ReadUint16_spec fuel st :
    GInv data st -> (length (script_of st) + 3 <= fuel)%nat ->
    val_spec st 2 dec16 (Parser_ReadUint16 fuel st).
  Proof.
    intros I Hf. unfold Parser_ReadUint16. apply val_spec_of_rb; try assumption; try lia.
    - intros s b Hb. cbn [err_is_nil negb]. rewrite !go_index_ok by lia. reflexivity.
    - intros s b e He. destruct e; try contradiction; reflexivity.
  Qed.

  Theorem ReadUint32_spec fuel st :
    GInv data st -> (length (script_of st) + 3 <= fuel)%nat ->
    val_spec st 4 dec32 (Parser_ReadUint32 fuel st).
  Proof.
    intros I Hf. unfold Parser_ReadUint32. apply val_spec_of_rb; try assumption; try lia.
    - intros s b Hb. cbn [err_is_nil negb]. rewrite !go_index_ok by lia. reflexivity.
    - intros s b e He. destruct e; try contradiction; reflexivity.
  Qed.

  (* ReadInt16 = int16(ReadUint16), error or not *)
  Lemma ReadInt16_eq fuel st :
    Parser_ReadInt16 fuel st =
    match Parser_ReadUint16 fuel st with
    | MRet s (v, e) => MRet s (wrap_s 16 v, e)
    | MPanic s => MPanic s
    | MFuel => MFuel
    end.
  Proof.
    unfold Parser_ReadInt16.
    destruct (Parser_ReadUint16 fuel st) as [s [v e]|s|]; reflexivity.
  Qed.
End Ops.
