(* C17B/Proofs_iter.v — one iteration of the refill loop of ReadBytes, written
   out by hand (it_state / it_err): it preserves the representation invariant
   for EVERY behaviour of the underlying reader, and under a legal reader it is
   one iteration of C17's rb_loop (or none, for a (0, nil) read).  The
   generated loop body is shown equal to it_result in Proofs_rb.v. *)
From Coq Require Import List NArith ZArith Bool Arith Lia.
From Common Require Import Bytes.
From Gen Require Import Consts C17B.
From C17 Require Import Model Proofs.
From C17B Require Import Model Util.
Import ListNotations.
Local Open Scope Z_scope.

Definition BS : nat := parser_bufferSize.

Lemma bs_1024 : Z.of_nat BS = 1024.
Proof. reflexivity. Qed.

Lemma bsz_1024 : BSZ = 1024.
Proof. reflexivity. Qed.

(* lia must not look inside the unary numeral *)
Ltac abs_bs := pose proof bs_1024 as HBS; revert HBS; generalize BS; intros bsv HBS.

Definition it_kept (st : Parser) : Z := g_used st - g_pos st.
Definition it_buf1 (st : Parser) : list Z :=
  if zlen (g_buf st) =? 0 then repeat 0 (Z.to_nat 1024) else g_buf st.
Definition it_buf2 (st : Parser) : list Z :=
  sub (it_buf1 st) (Z.to_nat (g_pos st)) (Z.to_nat (it_kept st)) ++
  skipn (Z.to_nat (it_kept st)) (it_buf1 st).
Definition it_read (st : Parser) := r_read (g_r st) (1024 - it_kept st).
Definition it_got (st : Parser) : list Z := fst (fst (it_read st)).
Definition it_rawerr (st : Parser) : gerr := snd (fst (it_read st)).
Definition it_r (st : Parser) : reader := snd (it_read st).
Definition it_state (st : Parser) : Parser :=
  mkParser (it_r st) (go_write (it_buf2 st) (it_kept st) (it_got st))
           (g_from st + g_pos st) 0 (it_kept st + zlen (it_got st)) (g_lastRead st).
Definition it_err (st : Parser) : gerr :=
  if err_is_eof (it_rawerr st) then (if zlen (it_got st) >? 0 then ENil else EUnexpectedEOF)
  else it_rawerr st.
Definition it_result (st : Parser) : ctl Parser unit (list Z * gerr) :=
  if negb (err_is_nil (it_err st)) then CRet (it_state st) ([], it_err st)
  else CNorm (it_state st) tt.

(* the behaviour of the next Read call *)
Definition next_beh (st : Parser) : rbeh :=
  match r_script (g_r st) with [] => BFull | b :: _ => b end.
Definition next_lim (st : Parser) : Z :=
  match next_beh st with BFull => 1024 - it_kept st | BShort l _ => Z.max 0 l | BFail l _ => Z.max 0 l end.
Definition it_rem (st : Parser) (data : list Z) : Z := Z.max 0 (zlen data - (g_from st + g_used st)).
Definition it_cnt (st : Parser) (data : list Z) : Z :=
  Z.min (1024 - it_kept st) (Z.min (it_rem st data) (next_lim st)).

Section Iter.
  Variable data : list Z.
  Hypothesis Hlen : zlen data <= PMAX.

  Lemma ginv_window st : GInv data st -> g_used st = 0 \/ g_from st + g_used st <= zlen data.
  Proof.
    intros I. destruct (Z.eq_dec (g_used st) 0) as [E|E]; [now left|right].
    pose proof (gi_buf _ _ I) as Hb. pose proof (gi_used _ _ I) as Hu.
    pose proof (gi_pos _ _ I) as Hp. pose proof (gi_from _ _ I) as Hf.
    apply (f_equal (@length Z)) in Hb.
    rewrite firstn_length, sub_length_min in Hb. unfold zlen in *. lia.
  Qed.

  Lemma ginv_buf_le st : GInv data st -> zlen (g_buf st) <= 1024.
  Proof. intros I. destruct (gi_len _ _ I) as [E|E]; rewrite E; [lia|rewrite bsz_1024; lia]. Qed.

  Lemma it_buf1_len st : GInv data st -> g_used st = 0 \/ it_buf1 st = g_buf st.
  Proof.
    intros I. unfold it_buf1. destruct (Z.eqb_spec (zlen (g_buf st)) 0) as [E|E]; [left|now right].
    pose proof (gi_used _ _ I). pose proof (gi_pos _ _ I). lia.
  Qed.

  Lemma it_buf1_zlen st : GInv data st -> zlen (it_buf1 st) = 1024.
  Proof.
    intros I. unfold it_buf1. destruct (Z.eqb_spec (zlen (g_buf st)) 0) as [E|E].
    - rewrite zlen_repeat. lia.
    - destruct (gi_len _ _ I) as [E'|E']; [contradiction|]. now rewrite E', bsz_1024.
  Qed.

  (* the bytes kept by the compaction *)
  Lemma it_kept_bytes st : GInv data st ->
    sub (it_buf1 st) (Z.to_nat (g_pos st)) (Z.to_nat (it_kept st)) =
    sub data (Z.to_nat (g_from st + g_pos st)) (Z.to_nat (it_kept st)).
  Proof.
    intros I. pose proof (gi_pos _ _ I) as Hp. pose proof (gi_from _ _ I) as Hf.
    unfold it_kept.
    destruct (it_buf1_len st I) as [E|E].
    - replace (g_used st - g_pos st) with 0 by lia. reflexivity.
    - rewrite E.
      assert (H : sub (g_buf st) (Z.to_nat (g_pos st)) (Z.to_nat (g_used st - g_pos st)) =
                  sub (firstn (Z.to_nat (g_used st)) (g_buf st)) (Z.to_nat (g_pos st)) (Z.to_nat (g_used st - g_pos st))).
      { unfold sub. rewrite skipn_firstn_comm, firstn_firstn. f_equal. lia. }
      rewrite H, (gi_buf _ _ I).
      rewrite sub_sub' by lia. f_equal. lia.
  Qed.

  Lemma it_buf2_zlen st : GInv data st -> zlen (it_buf2 st) = 1024.
  Proof.
    intros I. pose proof (gi_pos _ _ I) as Hp. pose proof (gi_used _ _ I) as Hu.
    pose proof (it_buf1_zlen st I) as H1. pose proof (ginv_buf_le st I) as Hle.
    unfold it_buf2. rewrite zlen_app. unfold zlen in *.
    rewrite sub_length_min, skipn_length. unfold it_kept. lia.
  Qed.

  (* what the reader delivers *)
  Lemma it_got_eq st : GInv data st ->
    it_got st = sub data (Z.to_nat (g_from st + g_used st)) (Z.to_nat (it_cnt st data)) /\
    zlen (it_got st) = it_cnt st data /\ 0 <= it_cnt st data /\
    g_from st + g_used st + it_cnt st data <= Z.max (g_from st + g_used st) (zlen data).
  Proof.
    intros I. pose proof (gi_pos _ _ I) as Hp. pose proof (gi_used _ _ I) as Hu.
    pose proof (gi_from _ _ I) as Hf. pose proof (ginv_buf_le st I) as Hle.
    assert (Hc : 0 <= it_cnt st data).
    { unfold it_cnt, it_rem, next_lim, it_kept. destruct (next_beh st); lia. }
    assert (Hc2 : it_cnt st data <= it_rem st data) by (unfold it_cnt; lia).
    assert (Hg : it_got st = sub data (Z.to_nat (g_from st + g_used st)) (Z.to_nat (it_cnt st data))).
    { assert (Hz : forall c p, (if c =? 0 then [] else firstn (Z.to_nat c) (skipn (Z.to_nat p) data)) =
                               sub data (Z.to_nat p) (Z.to_nat c)).
      { intros c p. destruct (Z.eqb_spec c 0) as [->|_]; reflexivity. }
      unfold it_got, it_read, r_read, it_cnt, it_rem, next_lim, next_beh.
      rewrite (gi_data _ _ I), (gi_up _ _ I).
      destruct (r_script (g_r st)) as [|b sc]; [|destruct b]; cbn [fst snd]; apply Hz. }
    split; [exact Hg|]. split; [|split; [exact Hc|]].
    - rewrite Hg. unfold zlen. rewrite sub_length_min. unfold it_rem, zlen in *. lia.
    - unfold it_rem in Hc2. lia.
  Qed.

  Lemma it_r_eq st : GInv data st ->
    r_data (it_r st) = data /\ r_pos (it_r st) = g_from st + g_used st + it_cnt st data /\
    r_script (it_r st) = tl (r_script (g_r st)) /\ r_seeks (it_r st) = r_seeks (g_r st).
  Proof.
    intros I. unfold it_r, it_read, r_read, it_cnt, it_rem, next_lim, next_beh.
    rewrite (gi_data _ _ I), (gi_up _ _ I).
    destruct (r_script (g_r st)) as [|b sc]; [|destruct b]; cbn; auto.
  Qed.

  (* the window after the iteration *)
  Lemma it_window st : GInv data st ->
    firstn (Z.to_nat (it_kept st + it_cnt st data)) (go_write (it_buf2 st) (it_kept st) (it_got st)) =
    sub data (Z.to_nat (g_from st + g_pos st)) (Z.to_nat (it_kept st + it_cnt st data)) /\
    zlen (go_write (it_buf2 st) (it_kept st) (it_got st)) = 1024.
  Proof.
    intros I. pose proof (gi_pos _ _ I) as Hp. pose proof (gi_used _ _ I) as Hu.
    pose proof (gi_from _ _ I) as Hf. pose proof (ginv_buf_le st I) as Hle.
    destruct (it_got_eq st I) as (Hg & Hgl & Hc & Hin).
    pose proof (it_buf2_zlen st I) as H2.
    assert (Hk : 0 <= it_kept st <= 1024) by (unfold it_kept; lia).
    assert (Hcs : it_cnt st data <= 1024 - it_kept st) by (unfold it_cnt; lia).
    set (kept := sub (it_buf1 st) (Z.to_nat (g_pos st)) (Z.to_nat (it_kept st))).
    assert (Hkl : length kept = Z.to_nat (it_kept st)).
    { unfold kept. rewrite sub_length_min. pose proof (it_buf1_zlen st I) as H1. unfold zlen in H1. unfold it_kept in *. lia. }
    assert (Hf2 : firstn (Z.to_nat (it_kept st)) (it_buf2 st) = kept).
    { unfold it_buf2. fold kept. rewrite <- Hkl. apply firstn_app_exact. }
    unfold go_write. rewrite Hf2. split.
    - rewrite app_assoc.
      assert (Hl2 : Z.to_nat (it_kept st + it_cnt st data) = length (kept ++ it_got st)).
      { rewrite app_length, Hkl. unfold zlen in Hgl. lia. }
      rewrite Hl2 at 1.
      rewrite firstn_app_exact.
      unfold kept. rewrite (it_kept_bytes st I), Hg.
      replace (Z.to_nat (g_from st + g_used st)) with (Z.to_nat (g_from st + g_pos st) + Z.to_nat (it_kept st))%nat
        by (unfold it_kept; lia).
      rewrite sub_app_adj. f_equal. lia.
    - rewrite !zlen_app. unfold zlen in *. rewrite skipn_length, Hkl. lia.
  Qed.

  Theorem it_inv st : GInv data st -> GInv data (it_state st).
  Proof.
    intros I. pose proof (gi_pos _ _ I) as Hp. pose proof (gi_used _ _ I) as Hu.
    pose proof (gi_from _ _ I) as Hf. pose proof (ginv_buf_le st I) as Hle.
    destruct (it_got_eq st I) as (Hg & Hgl & Hc & Hin).
    destruct (it_r_eq st I) as (Hd & Hrp & _).
    destruct (it_window st I) as (Hw & Hwl).
    assert (Hcs : it_cnt st data <= 1024 - it_kept st) by (unfold it_cnt; lia).
    destruct (ginv_window st I) as [E|E].
    - constructor; unfold it_state; cbn [g_r g_buf g_from g_pos g_used g_lastRead]; rewrite ?Hgl.
      + exact Hd.
      + right. now rewrite Hwl, bsz_1024.
      + unfold it_kept. lia.
      + rewrite Hwl. unfold it_kept in *. lia.
      + assert (g_pos st = 0) by lia. lia.
      + exact Hw.
      + rewrite Hrp. unfold it_kept. lia.
    - constructor; unfold it_state; cbn [g_r g_buf g_from g_pos g_used g_lastRead]; rewrite ?Hgl.
      + exact Hd.
      + right. now rewrite Hwl, bsz_1024.
      + unfold it_kept. lia.
      + rewrite Hwl. unfold it_kept in *. lia.
      + lia.
      + exact Hw.
      + rewrite Hrp. unfold it_kept. lia.
  Qed.

  Lemma it_pos st : gen_pos (it_state st) = gen_pos st.
  Proof. unfold gen_pos, it_state. cbn. lia. Qed.
End Iter.

(* ------------------------------------------------------------------ *)
(* the same iteration on C17's hand-written model                       *)

Lemma toN_sub l off n : toN (sub l off n) = sub (toN l) off n.
Proof. apply map_sub. Qed.

Lemma toN_app a b : toN (a ++ b) = toN a ++ toN b.
Proof. apply map_app. Qed.

Lemma toN_length l : length (toN l) = length l.
Proof. apply map_length. Qed.

Lemma abs_orc_legal_head b sc :
  match b with BFail _ _ => False | _ => True end ->
  abs_orc BS (b :: sc) =
  match b with
  | BFull => (BS, false) :: abs_orc BS sc
  | BShort l e => if l <=? 0 then abs_orc BS sc else (Z.to_nat (l - 1), e) :: abs_orc BS sc
  | BFail _ _ => abs_orc BS sc
  end.
Proof.
  intros H. destruct b; cbn [abs_orc flat_map app]; try reflexivity.
  destruct (lim <=? 0); reflexivity.
Qed.

Lemma its_from st : g_from (it_state st) = g_from st + g_pos st. Proof. reflexivity. Qed.
Lemma its_pos st : g_pos (it_state st) = 0. Proof. reflexivity. Qed.
Lemma its_used st : g_used (it_state st) = it_kept st + zlen (it_got st). Proof. reflexivity. Qed.
Lemma its_r st : g_r (it_state st) = it_r st. Proof. reflexivity. Qed.
Lemma its_last st : g_lastRead (it_state st) = g_lastRead st. Proof. reflexivity. Qed.

Section IterC17.
  Variable data : list Z.
  Hypothesis Hlen : zlen data <= PMAX.
  Let dataN := toN data.

  Lemma abs_nf st : GInv data st ->
    abs_state BS st =
    mkP (Z.to_nat (g_from st)) (Z.to_nat (g_pos st))
        (sub dataN (Z.to_nat (g_from st)) (Z.to_nat (g_used st)))
        (Z.to_nat (g_from st) + Z.to_nat (g_used st))
        (abs_orc BS (r_script (g_r st))).
  Proof.
    intros I. pose proof (gi_pos _ _ I) as Hp. pose proof (gi_from _ _ I) as Hf.
    unfold abs_state. rewrite (gi_buf _ _ I), toN_sub, (gi_up _ _ I). fold dataN.
    f_equal. lia.
  Qed.

  Lemma abs_buf_len st : GInv data st ->
    length (sub dataN (Z.to_nat (g_from st)) (Z.to_nat (g_used st))) = Z.to_nat (g_used st).
  Proof.
    intros I. pose proof (gi_pos _ _ I) as Hp. pose proof (gi_from _ _ I) as Hf.
    rewrite sub_length_min. unfold dataN. rewrite toN_length.
    destruct (ginv_window data st I) as [E|E]; unfold zlen in *; lia.
  Qed.

  (* C17's representation invariant holds of the abstraction *)
  Lemma abs_inv st : GInv data st -> Inv BS dataN (abs_state BS st).
  Proof.
    intros I. pose proof (gi_pos _ _ I) as Hp. pose proof (gi_used _ _ I) as Hu.
    pose proof (ginv_buf_le data st I) as Hle.
    rewrite (abs_nf st I). unfold Inv. cbn [p_buf p_from p_up p_pos].
    rewrite (abs_buf_len st I). abs_bs. repeat split; try lia.
  Qed.

  Lemma abs_pos st : GInv data st -> m_pos (abs_state BS st) = Z.to_nat (gen_pos st).
  Proof.
    intros I. pose proof (gi_pos _ _ I) as Hp. pose proof (gi_from _ _ I) as Hf.
    unfold m_pos, abs_state, gen_pos. cbn. lia.
  Qed.

  (* C17's rb_loop, one iteration, from a state in normal form *)
  Definition orc_head (space : nat) (o : oracle) : nat * oracle :=
    match o with [] => (space, []) | (l, _) :: o' => (S l, o') end.

  Lemma c17_unfold (from pos used n g : nat) (orc : oracle) :
    length (sub dataN from used) = used -> (pos <= used)%nat -> (used < pos + n)%nat ->
    rb_loop BS dataN (S g) n (mkP from pos (sub dataN from used) (from + used) orc) =
    let lo := orc_head (BS - (used - pos)) orc in
    let c := Nat.min (BS - (used - pos)) (Nat.min (length dataN - (from + used)) (fst lo)) in
    if (c =? 0)%nat
    then RbEof (mkP (from + pos) 0 (sub dataN (from + pos) (used - pos)) (from + used) (snd lo))
    else rb_loop BS dataN g n
           (mkP (from + pos) 0 (sub dataN (from + pos) (used - pos + c))
                (from + pos + (used - pos + c)) (snd lo)).
  Proof.
    intros Hbl Hp Hg. cbv zeta.
    cbn [rb_loop p_pos p_buf p_from p_up p_orc]. rewrite Hbl.
    replace (pos + n <=? used)%nat with false by (symmetry; apply Nat.leb_gt; lia).
    rewrite skipn_sub'.
    assert (Hkl : length (sub dataN (from + pos) (used - pos)) = (used - pos)%nat).
    { rewrite <- skipn_sub', skipn_length, Hbl. reflexivity. }
    rewrite Hkl. unfold u_read.
    assert (Hgen : forall lim o',
      match sub dataN (from + used) (Nat.min (BS - (used - pos)) (Nat.min (length dataN - (from + used)) lim)) with
      | [] => RbEof (mkP (from + pos) 0 (sub dataN (from + pos) (used - pos)) (from + used) o')
      | _ :: _ =>
          rb_loop BS dataN g n
            (mkP (from + pos) 0
                 (sub dataN (from + pos) (used - pos) ++
                  sub dataN (from + used) (Nat.min (BS - (used - pos)) (Nat.min (length dataN - (from + used)) lim)))
                 (from + used +
                  length (sub dataN (from + used) (Nat.min (BS - (used - pos)) (Nat.min (length dataN - (from + used)) lim))))
                 o')
      end =
      if (Nat.min (BS - (used - pos)) (Nat.min (length dataN - (from + used)) lim) =? 0)%nat
      then RbEof (mkP (from + pos) 0 (sub dataN (from + pos) (used - pos)) (from + used) o')
      else rb_loop BS dataN g n
             (mkP (from + pos) 0
                  (sub dataN (from + pos) (used - pos + Nat.min (BS - (used - pos)) (Nat.min (length dataN - (from + used)) lim)))
                  (from + pos + (used - pos + Nat.min (BS - (used - pos)) (Nat.min (length dataN - (from + used)) lim))) o')).
    { intros lim o'.
      set (c := Nat.min (BS - (used - pos))%nat (Nat.min (length dataN - (from + used))%nat lim)).
      assert (Hsl : length (sub dataN (from + used) c) = c).
      { rewrite sub_length_min. unfold c. lia. }
      destruct (sub dataN (from + used) c) as [|x got] eqn:Egot.
      - cbn [length] in Hsl. rewrite <- Hsl. cbn [Nat.eqb]. reflexivity.
      - replace (c =? 0)%nat with false by (symmetry; apply Nat.eqb_neq; cbn [length] in Hsl; lia).
        rewrite <- Egot in Hsl |- *. rewrite Hsl. f_equal. f_equal; [|lia].
        replace (from + used)%nat with (from + pos + (used - pos))%nat by lia.
        apply sub_app_adj. }
    destruct orc as [|[l e0] o'']; cbn [orc_head fst snd]; cbv beta iota zeta; apply Hgen.
  Qed.

  (* the head of the abstracted oracle *)
  Lemma abs_orc_head st :
    match next_beh st with BFail _ _ => False | _ => True end ->
    0 <= it_kept st < 1024 ->
    (next_lim st = 0 /\ abs_orc BS (r_script (g_r st)) = abs_orc BS (tl (r_script (g_r st)))) \/
    ((0 < next_lim st) /\
     exists limN : nat,
       orc_head (BS - Z.to_nat (it_kept st)) (abs_orc BS (r_script (g_r st))) =
         (limN, abs_orc BS (tl (r_script (g_r st)))) /\
       Z.min (1024 - it_kept st) (Z.of_nat limN) = Z.min (1024 - it_kept st) (next_lim st)).
  Proof.
    intros Hleg Hk. unfold next_lim, next_beh in *. pose proof bs_1024 as HBS.
    destruct (r_script (g_r st)) as [|b sc].
    - right. split; [lia|]. exists (BS - Z.to_nat (it_kept st))%nat. cbn [orc_head abs_orc flat_map tl]. split; [reflexivity|].
      revert HBS. generalize BS. intros bsv HBS. lia.
    - rewrite (abs_orc_legal_head b sc Hleg). cbn [tl].
      destruct b as [|l e|l code]; [| |contradiction].
      + right. split; [lia|]. exists (S BS). cbn [orc_head]. split; [reflexivity|].
        revert HBS. generalize BS. intros bsv HBS. lia.
      + destruct (Z.leb_spec l 0) as [Hl|Hl].
        * left. split; [lia|reflexivity].
        * right. split; [lia|]. exists (S (Z.to_nat (l - 1))). cbn [orc_head]. split; [reflexivity|]. lia.
  Qed.

  Lemma cnt_conv (bsv F P U L limN : nat) (lim : Z) :
    Z.of_nat bsv = 1024 -> (P <= U)%nat -> (U <= bsv)%nat ->
    Z.min (1024 - (Z.of_nat U - Z.of_nat P)) (Z.of_nat limN) = Z.min (1024 - (Z.of_nat U - Z.of_nat P)) lim ->
    Z.of_nat (Nat.min (bsv - (U - P)) (Nat.min (L - (F + U)) limN)) =
    Z.min (1024 - (Z.of_nat U - Z.of_nat P))
          (Z.min (Z.max 0 (Z.of_nat L - (Z.of_nat F + Z.of_nat U))) lim).
  Proof. intros. lia. Qed.

  (* one iteration of rb_loop from the abstraction of a state whose guard fails *)
  Lemma c17_iter st n g :
    GInv data st -> 0 <= n <= 1024 -> g_pos st + n > g_used st ->
    match next_beh st with BFail _ _ => False | _ => True end ->
    rb_loop BS dataN (S g) (Z.to_nat n) (abs_state BS st) =
      if next_lim st =? 0 then rb_loop BS dataN (S g) (Z.to_nat n) (abs_state BS (it_state st))
      else if it_cnt st data =? 0 then RbEof (abs_state BS (it_state st))
      else rb_loop BS dataN g (Z.to_nat n) (abs_state BS (it_state st)).
  Proof.
    intros I Hn Hg Hleg.
    pose proof (gi_pos _ _ I) as Hp. pose proof (gi_used _ _ I) as Hu.
    pose proof (gi_from _ _ I) as Hf. pose proof (ginv_buf_le data st I) as Hle.
    pose proof (it_inv data Hlen st I) as I2.
    destruct (it_got_eq data st I) as (_ & Hgl & Hc & _).
    destruct (it_r_eq data st I) as (_ & _ & Hsc & _).
    assert (Hk : 0 <= it_kept st < 1024) by (unfold it_kept; lia).
    pose proof (abs_buf_len st I) as Hbl.
    rewrite (abs_nf st I), (abs_nf (it_state st) I2).
    rewrite !its_from, !its_pos, !its_used, !its_r, Hgl, Hsc.
    (* everything in nat *)
    remember (Z.to_nat (g_from st)) as F eqn:EF.
    remember (Z.to_nat (g_pos st)) as P eqn:EP.
    remember (Z.to_nat (g_used st)) as U eqn:EU.
    assert (HF : g_from st = Z.of_nat F) by lia.
    assert (HP : g_pos st = Z.of_nat P) by lia.
    assert (HU : g_used st = Z.of_nat U) by lia.
    assert (HPU : (P <= U)%nat) by lia.
    assert (HUn : (U < P + Z.to_nat n)%nat) by lia.
    assert (HUb : (U <= BS)%nat) by (pose proof bs_1024; revert H; generalize BS; intros; lia).
    replace (Z.to_nat (g_from st + g_pos st)) with (F + P)%nat by lia.
    change (Z.to_nat 0) with 0%nat.
    assert (HkN : Z.to_nat (it_kept st) = (U - P)%nat) by (unfold it_kept; lia).
    destruct (abs_orc_head st Hleg Hk) as [[Hz Ho]|[Hnz (limN & Ho & Hm)]].
    - (* a (0, nil) read: C17's oracle has no entry for it *)
      replace (next_lim st =? 0) with true by (symmetry; apply Z.eqb_eq; lia).
      assert (Ec : it_cnt st data = 0).
      { unfold it_cnt. rewrite Hz. unfold it_rem. lia. }
      rewrite Ec, Z.add_0_r, HkN, Ho.
      rewrite (c17_unfold F P U (Z.to_nat n) g _ Hbl HPU HUn).
      assert (Hbl2 : length (sub dataN (F + P) (U - P)) = (U - P)%nat).
      { rewrite <- skipn_sub', skipn_length, Hbl. reflexivity. }
      rewrite (c17_unfold (F + P) 0 (U - P) (Z.to_nat n) g _ Hbl2 ltac:(lia) ltac:(lia)).
      rewrite !Nat.sub_0_r, !Nat.add_0_r.
      replace (F + P + (U - P))%nat with (F + U)%nat by lia.
      reflexivity.
    - replace (next_lim st =? 0) with false by (symmetry; apply Z.eqb_neq; lia).
      rewrite (c17_unfold F P U (Z.to_nat n) g _ Hbl HPU HUn).
      rewrite <- HkN, Ho. cbn [fst snd]. rewrite HkN.
      set (c := Nat.min (BS - (U - P))%nat (Nat.min (length dataN - (F + U))%nat limN)).
      assert (Ec : Z.of_nat c = it_cnt st data).
      { unfold c, it_cnt, it_rem, it_kept, zlen, dataN. rewrite toN_length, HF, HP, HU.
        unfold it_kept in Hm. rewrite HP, HU in Hm.
        apply (cnt_conv BS F P U (length data) limN (next_lim st) bs_1024 HPU HUb Hm). }
      rewrite <- Ec.
      destruct (Nat.eqb_spec c 0) as [E0|E0].
      + rewrite E0. cbn [Z.of_nat Z.eqb]. rewrite Z.add_0_r, HkN.
        replace (F + P + (U - P))%nat with (F + U)%nat by lia. reflexivity.
      + replace (Z.of_nat c =? 0) with false by (symmetry; apply Z.eqb_neq; lia).
        replace (Z.to_nat (it_kept st + Z.of_nat c)) with (U - P + c)%nat by lia.
        reflexivity.
  Qed.
End IterC17.
