(* C17B/Proofs_run.v — whole histories through the generated functions. *)
From Coq Require Import List NArith ZArith Bool Arith Lia.
From Common Require Import Bytes.
From Gen Require Import Consts C17B.
From C17 Require Import Model Proofs.
From C17B Require Import Model Util Proofs_iter Proofs_rb Proofs_ops Proofs_val Proofs_loops Proofs_step.
Import ListNotations.
Local Open Scope Z_scope.

Lemma bs4 : (4 <= BS)%nat.
Proof. apply Nat.leb_le. vm_compute. reflexivity. Qed.

Definition maxk (ops : list gop) : nat :=
  fold_right (fun o acc => Nat.max acc (match o with GReadN k => k | _ => 0%nat end)) 0%nat ops.

Definition fuel_for (st : Parser) (ops : list gop) : nat :=
  (length (script_of st) + 4 + maxk ops)%nat.

Lemma fuel_for_head st o ops fuel : (fuel_for st (o :: ops) <= fuel)%nat -> (enough st o <= fuel)%nat.
Proof. unfold fuel_for, enough, script_of. cbn [maxk fold_right]. destruct o; lia. Qed.

Lemma fuel_for_tail st st' o ops fuel :
  script_suffix st st' -> (fuel_for st (o :: ops) <= fuel)%nat -> (fuel_for st' ops <= fuel)%nat.
Proof.
  intros Hs. pose proof (suffix_len st st' Hs). unfold fuel_for. cbn [maxk fold_right].
  fold (maxk ops). lia.
Qed.

Lemma big_fuel_for st sc ops : script_of st = sc -> (fuel_for st ops <= big_fuel sc ops)%nat.
Proof. intros <-. unfold fuel_for, big_fuel. fold (maxk ops). lia. Qed.

Definition absp (x : gobs * Z) : option result * nat := (abs_obs (fst x), Z.to_nat (snd x)).
Definition somep (x : result * nat) : option result * nat := (Some (fst x), snd x).

(* arguments in range along a history, whatever the reader does *)
Fixpoint hist_args_ok (fuel : nat) (st : Parser) (ops : list gop) : Prop :=
  match ops with
  | [] => True
  | o :: r => gop_args_ok st o /\ hist_args_ok fuel (snd (gen_step fuel st o)) r
  end.

(* boolean versions of the range conditions, for concrete histories *)
Definition gop_args_okb (st : Parser) (o : gop) : bool :=
  match o with
  | GSeek p => (-9223372036854775808 <=? p) && (p <=? PMAX)
  | GDiscard n => (-9223372036854775808 <=? n) && (gen_pos st + n <=? PMAX)
  | GReadN k => Z.of_nat k <=? PMAX
  | _ => true
  end.

Fixpoint hist_args_okb (fuel : nat) (st : Parser) (ops : list gop) : bool :=
  match ops with
  | [] => true
  | o :: r => gop_args_okb st o && hist_args_okb fuel (snd (gen_step fuel st o)) r
  end.

Lemma hist_args_okb_ok fuel : forall ops st, hist_args_okb fuel st ops = true -> hist_args_ok fuel st ops.
Proof.
  induction ops as [|o ops IH]; intros st H; [exact Logic.I|].
  cbn [hist_args_okb hist_args_ok] in *. apply andb_true_iff in H. destruct H as [H1 H2].
  split; [|now apply IH].
  destruct o; cbn [gop_args_okb gop_args_ok] in *; try exact Logic.I;
    try (apply andb_true_iff in H1; destruct H1 as [Ha Hb]; apply Z.leb_le in Ha; apply Z.leb_le in Hb; lia).
  apply Z.leb_le in H1. exact H1.
Qed.

Definition op_in_rangeb (cur : nat) (o : op) : bool :=
  match o with
  | OSeek p => Z.of_nat p <=? PMAX
  | ODiscard n => Z.of_nat cur + Z.of_nat n <=? PMAX
  | ORead k => Z.of_nat k <=? PMAX
  | _ => true
  end.

Fixpoint hist_in_rangeb (bs : nat) (data : list N) (cur : nat) (ops : list op) : bool :=
  match ops with
  | [] => true
  | o :: r => op_in_rangeb cur o && hist_in_rangeb bs data (snd (v_step bs data cur o)) r
  end.

Lemma hist_in_rangeb_ok bs data : forall ops cur,
  hist_in_rangeb bs data cur ops = true -> hist_in_range bs data cur ops.
Proof.
  induction ops as [|o ops IH]; intros cur H; [exact Logic.I|].
  cbn [hist_in_rangeb hist_in_range] in *. apply andb_true_iff in H. destruct H as [H1 H2].
  split; [|now apply IH].
  destruct o; cbn [op_in_rangeb op_in_range] in *; try exact Logic.I; apply Z.leb_le in H1; exact H1.
Qed.

Section Run.
  Variable data : list Z.
  Hypothesis Hlen : zlen data <= PMAX.
  Hypothesis Hbytes : bytesZ data.

  Theorem run_refines_model fuel : forall ops st,
    GInv data st -> legal_state st ->
    hist_in_range BS (toN data) (Z.to_nat (gen_pos st)) ops ->
    (fuel_for st (map gop_of ops) <= fuel)%nat ->
    map absp (gen_run fuel st (map gop_of ops)) =
    map somep (m_run BS (toN data) (abs_state BS st) ops).
  Proof.
    induction ops as [|o ops IH]; intros st I HLg Hr Hf; [reflexivity|].
    cbn [map gen_run m_run hist_in_range] in *. destruct Hr as [Hr1 Hr2].
    pose proof (fuel_for_head _ _ _ _ Hf) as Hf1.
    destruct (step_refines data Hlen Hbytes fuel st o I HLg Hr1 Hf1) as [Ho Hs].
    destruct (step_inv data Hlen Hbytes fuel st (gop_of o) I) as (I' & _ & Hsuf & Hsk); [|exact Hf1|].
    { destruct o; cbn [gop_of gop_args_ok op_in_range] in *; try exact Logic.I; unfold PMAX in *;
        pose proof (gi_pos _ _ I); pose proof (gi_from _ _ I); unfold gen_pos in *; lia. }
    destruct (gen_step fuel st (gop_of o)) as [obs st'] eqn:Eg.
    destruct (m_step BS (toN data) (abs_state BS st) o) as [res s'] eqn:Em.
    cbn [fst snd] in *.
    assert (Hpos : m_pos s' = Z.to_nat (gen_pos st')) by (rewrite <- Hs; apply (abs_pos data st' I')).
    cbn [map]. f_equal.
    - unfold absp, somep. cbn [fst snd]. rewrite Ho, Hpos. reflexivity.
    - rewrite <- Hs. apply IH; try assumption.
      + eapply legal_after; eassumption.
      + (* the view's position is the model's *)
        destruct (Proofs.step_refines BS (toN data) bs4 (abs_state BS st) o (abs_inv data st I))
          as (s2 & E2 & _ & Hm2).
        rewrite Em in E2. injection E2 as _ E3. subst s2.
        rewrite (abs_pos data st I), Hpos in Hm2.
        rewrite Hm2. exact Hr2.
      + eapply fuel_for_tail; eassumption.
  Qed.

  (* the invariant along any history, for every behaviour of the reader *)
  Theorem run_inv fuel : forall ops st,
    GInv data st -> hist_args_ok fuel st ops -> (fuel_for st ops <= fuel)%nat ->
    GInv data (gen_final fuel st ops) /\
    Forall (fun x => fst x <> GFuel) (gen_run fuel st ops).
  Proof.
    induction ops as [|o ops IH]; intros st I Ha Hf; [split; [exact I|constructor]|].
    cbn [gen_final gen_run hist_args_ok] in *. destruct Ha as [Ha1 Ha2].
    pose proof (fuel_for_head _ _ _ _ Hf) as Hf1.
    destruct (step_inv data Hlen Hbytes fuel st o I Ha1 Hf1) as (I' & Hnf & Hsuf & _).
    destruct (gen_step fuel st o) as [obs st'] eqn:Eg. cbn [fst snd] in *.
    destruct (IH st' I' Ha2 (fuel_for_tail _ _ _ _ _ Hsuf Hf)) as [If Hall].
    split; [exact If|]. constructor; [exact Hnf|exact Hall].
  Qed.
End Run.
