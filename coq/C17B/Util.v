(* C17B/Util.v — arithmetic and list facts about the runtime of Gen/C17B.v. *)
From Coq Require Import List NArith ZArith Bool Arith Lia.
From Common Require Import Bytes.
From Gen Require Import C17B.
Import ListNotations.
Local Open Scope Z_scope.

Lemma wrap_s64_small z :
  -9223372036854775808 <= z < 9223372036854775808 -> wrap_s 64 z = z.
Proof.
  intros H. unfold wrap_s.
  change (2 ^ (64 - 1)) with 9223372036854775808.
  change (2 ^ 64) with 18446744073709551616.
  rewrite Z.mod_small by lia. lia.
Qed.

Lemma wrap_u_small bits z : 0 <= z < 2 ^ bits -> wrap_u bits z = z.
Proof. intros H. unfold wrap_u. now apply Z.mod_small. Qed.

Lemma zlen_nonneg {A} (l : list A) : 0 <= zlen l.
Proof. unfold zlen. lia. Qed.

Lemma zlen_nil {A} : zlen (@nil A) = 0.
Proof. reflexivity. Qed.

Lemma zlen_app {A} (a b : list A) : zlen (a ++ b) = zlen a + zlen b.
Proof. unfold zlen. rewrite app_length. lia. Qed.

Lemma zlen_repeat {A} (x : A) n : zlen (repeat x n) = Z.of_nat n.
Proof. unfold zlen. now rewrite repeat_length. Qed.

Lemma zlen_map {A B} (f : A -> B) l : zlen (map f l) = zlen l.
Proof. unfold zlen. now rewrite map_length. Qed.

Lemma zlen_0_nil {A} (l : list A) : zlen l = 0 -> l = [].
Proof. destruct l; [reflexivity|]. unfold zlen. cbn [length]. lia. Qed.

Lemma to_nat_zlen {A} (l : list A) : Z.to_nat (zlen l) = length l.
Proof. unfold zlen. lia. Qed.

Lemma go_slice_ok {A} (l : list A) lo hi :
  0 <= lo <= hi -> hi <= zlen l ->
  go_slice l lo hi = Some (sub l (Z.to_nat lo) (Z.to_nat (hi - lo))).
Proof.
  intros H1 H2. unfold go_slice.
  replace (0 <=? lo) with true by (symmetry; apply Z.leb_le; lia).
  replace (lo <=? hi) with true by (symmetry; apply Z.leb_le; lia).
  replace (hi <=? zlen l) with true by (symmetry; apply Z.leb_le; lia).
  reflexivity.
Qed.

Lemma go_slice_bad {A} (l : list A) lo hi :
  lo < 0 \/ hi < lo \/ zlen l < hi -> go_slice l lo hi = None.
Proof.
  intros H. unfold go_slice.
  destruct (Z.leb_spec 0 lo); destruct (Z.leb_spec lo hi); destruct (Z.leb_spec hi (zlen l));
    cbn; try reflexivity; lia.
Qed.

Lemma go_index_ok l i : 0 <= i < zlen l -> go_index l i = Some (nth (Z.to_nat i) l 0).
Proof.
  intros H. unfold go_index.
  replace (i <? 0) with false by (symmetry; apply Z.ltb_ge; lia).
  apply nth_error_nth'. unfold zlen in H. lia.
Qed.

Lemma list_set_ok l : forall n v, (n < length l)%nat ->
  list_set l n v = Some (firstn n l ++ v :: skipn (S n) l).
Proof.
  induction l as [|x t IH]; intros n v H; [cbn in H; lia|].
  destruct n as [|n]; [reflexivity|].
  cbn [list_set]. rewrite IH by (cbn in H; lia). reflexivity.
Qed.

Lemma go_store_ok l j v : (j < length l)%nat ->
  go_store l (Z.of_nat j) v = Some (firstn j l ++ v :: skipn (S j) l).
Proof.
  intros H. unfold go_store.
  replace (Z.of_nat j <? 0) with false by (symmetry; apply Z.ltb_ge; lia).
  rewrite Nat2Z.id. now apply list_set_ok.
Qed.

Lemma go_make_ok n : 0 <= n -> go_make n = Some (repeat 0 (Z.to_nat n)).
Proof. intros H. unfold go_make. replace (0 <=? n) with true by (symmetry; apply Z.leb_le; lia). reflexivity. Qed.

Lemma sub_length_min {A} (l : list A) off n :
  length (sub l off n) = Nat.min n (length l - off).
Proof. unfold sub. now rewrite firstn_length, skipn_length. Qed.

Lemma zlen_sub_le {A} (l : list A) off n : (off + n <= length l)%nat -> zlen (sub l off n) = Z.of_nat n.
Proof. intros H. unfold zlen. rewrite sub_length_min. lia. Qed.

Lemma map_sub {A B} (f : A -> B) l off n : map f (sub l off n) = sub (map f l) off n.
Proof. unfold sub. now rewrite skipn_map, firstn_map. Qed.

Lemma sub_0 {A} (l : list A) n : sub l 0 n = firstn n l.
Proof. reflexivity. Qed.

Lemma skipn_sub' {A} (l : list A) off n p :
  skipn p (sub l off n) = sub l (off + p) (n - p).
Proof.
  unfold sub. rewrite skipn_firstn_comm. now rewrite skipn_skipn'.
Qed.

Lemma sub_sub' {A} (l : list A) off len p n :
  (p + n <= len)%nat -> sub (sub l off len) p n = sub l (off + p) n.
Proof.
  intros H. unfold sub at 1. rewrite skipn_sub'. unfold sub.
  rewrite firstn_firstn. f_equal. lia.
Qed.

Lemma firstn_sub {A} (l : list A) off n m : (m <= n)%nat -> firstn m (sub l off n) = sub l off m.
Proof. intros H. unfold sub. rewrite firstn_firstn. f_equal. lia. Qed.

Lemma sub_nil_beyond' {A} (l : list A) off n : (length l <= off)%nat -> sub l off n = [].
Proof. intros H. unfold sub. rewrite skipn_all2 by exact H. apply firstn_nil. Qed.

Lemma firstn_app_exact {A} (a b : list A) : firstn (length a) (a ++ b) = a.
Proof.
  rewrite firstn_app. rewrite Nat.sub_diag. cbn. rewrite firstn_all. apply app_nil_r.
Qed.

Lemma nth_sub {A} (l : list A) off n i d :
  (i < n)%nat -> nth i (sub l off n) d = nth (off + i) l d.
Proof.
  intros H. unfold sub.
  revert n H. revert off l. induction i as [|i IH]; intros off l n H.
  - destruct n; [lia|]. rewrite Nat.add_0_r.
    destruct (skipn off l) eqn:E.
    + cbn. symmetry. apply nth_overflow.
      destruct (Nat.le_gt_cases (length l) off) as [Hl|Hl]; [exact Hl|].
      assert (length (skipn off l) = length l - off)%nat by apply skipn_length.
      rewrite E in H0. cbn in H0. lia.
    + cbn. rewrite <- (firstn_skipn off l) at 1.
      destruct (Nat.le_gt_cases (length l) off) as [Hl|Hl].
      * rewrite skipn_all2 in E by exact Hl. discriminate.
      * rewrite app_nth2; rewrite firstn_length; [|lia].
        replace (off - Nat.min off (length l))%nat with 0%nat by lia. rewrite E. reflexivity.
  - destruct n; [lia|].
    destruct (skipn off l) eqn:E.
    + cbn. symmetry. apply nth_overflow.
      assert (length (skipn off l) = length l - off)%nat by apply skipn_length.
      rewrite E in H0. cbn in H0. lia.
    + cbn [firstn nth].
      assert (E' : l0 = skipn (S off) l).
      { change (S off) with (1 + off)%nat. rewrite Nat.add_comm. rewrite <- skipn_skipn'. rewrite E. reflexivity. }
      rewrite E'. rewrite (IH (S off) l n) by lia. f_equal. lia.
Qed.

(* big-endian values as the generated code computes them *)
Lemma lor_shiftl_add a b n :
  0 <= n -> 0 <= b < 2 ^ n -> Z.lor (Z.shiftl a n) b = a * 2 ^ n + b.
Proof.
  intros Hn Hb.
  rewrite Z.shiftl_mul_pow2 by lia.
  assert (Hl : Z.land (a * 2 ^ n) b = 0).
  2: { rewrite (Z.add_nocarry_lxor _ _ Hl). symmetry. apply Z.lxor_lor. exact Hl. }
  apply Z.bits_inj'. intros m Hm. rewrite Z.land_spec, Z.bits_0.
  destruct (Z.lt_ge_cases m n) as [Hlt|Hge].
  - rewrite Z.mul_pow2_bits_low by lia. reflexivity.
  - destruct (Z.eq_dec b 0) as [->|Hb0]; [now rewrite Z.bits_0, andb_false_r|].
    rewrite (Z.bits_above_log2 b m); [apply andb_false_r|lia|].
    apply Z.log2_lt_pow2; [lia|].
    apply Z.lt_le_trans with (2 ^ n); [lia|]. apply Z.pow_le_mono_r; lia.
Qed.

Lemma gtb_false a b : a <= b -> (a >? b) = false.
Proof. intros H. rewrite Z.gtb_ltb. apply Z.ltb_ge. lia. Qed.

Lemma gtb_true a b : b < a -> (a >? b) = true.
Proof. intros H. rewrite Z.gtb_ltb. apply Z.ltb_lt. lia. Qed.
