(* C17B/Proofs_top.v — the theorems of Props.v: from parser.New on, over byte
   inputs given as list N (the type C17 speaks about). *)
From Coq Require Import List NArith ZArith Bool Arith Lia.
From Common Require Import Bytes.
From Gen Require Import Consts C17B.
From C17 Require Import Model Proofs.
From C17B Require Import Model Util Proofs_iter Proofs_rb Proofs_ops Proofs_val Proofs_loops Proofs_step Proofs_run.
Import ListNotations.
Local Open Scope Z_scope.

Lemma toN_ofN l : toN (ofN l) = l.
Proof. unfold toN, ofN. rewrite map_map. rewrite <- (map_id l) at 2. apply map_ext. intros; apply N2Z.id. Qed.

Lemma bytesZ_ofN l : bytes_ok l = true -> bytesZ (ofN l).
Proof.
  unfold bytes_ok, bytesZ, ofN. intros H. apply Forall_forall. intros x Hx.
  apply in_map_iff in Hx. destruct Hx as (b & <- & Hb).
  rewrite forallb_forall in H. specialize (H b Hb). unfold byte_ok in H.
  apply N.ltb_lt in H. lia.
Qed.

Lemma zlen_ofN l : zlen (ofN l) = Z.of_nat (length l).
Proof. unfold ofN. now rewrite zlen_map. Qed.

Section Top.
  Variable dataN : list N.
  Hypothesis Hbytes : bytes_ok dataN = true.
  Hypothesis Hlen : Z.of_nat (length dataN) <= PMAX.
  Let data := ofN dataN.

  Lemma data_len : zlen data <= PMAX.
  Proof. unfold data. now rewrite zlen_ofN. Qed.
  Lemma data_bytes : bytesZ data.
  Proof. apply bytesZ_ofN; exact Hbytes. Qed.

  (* (1) one call, from every state satisfying the invariant *)
  Theorem step_refines_model fuel st o :
    GInv data st -> legal_state st -> op_in_range (Z.to_nat (gen_pos st)) o ->
    (enough st (gop_of o) <= fuel)%nat ->
    abs_obs (fst (gen_step fuel st (gop_of o))) = Some (fst (m_step BS dataN (abs_state BS st) o)) /\
    abs_state BS (snd (gen_step fuel st (gop_of o))) = snd (m_step BS dataN (abs_state BS st) o).
  Proof.
    intros I HL Hr Hf.
    pose proof (step_refines data data_len data_bytes fuel st o I HL Hr Hf) as H.
    unfold data in *. rewrite toN_ofN in H. exact H.
  Qed.

  Theorem new_ok fuel sc sk :
    exists st0, gen_new fuel (mk_reader data 0 sc sk) = Some st0 /\
                GInv data st0 /\ script_of st0 = sc /\ r_seeks (g_r st0) = sk /\ gen_pos st0 = 0 /\
                abs_state BS st0 = p_init (abs_orc BS sc).
  Proof.
    destruct (New_spec data fuel sc sk) as (st0 & E & I & Hs & Hk & Hp & Ha).
    exists st0. unfold gen_new. rewrite E. auto 10.
  Qed.

  (* whole histories from New *)
  Theorem run_refines_model_top sc sk ops fuel :
    legal_script sc -> Forall (fun f => f = false) sk ->
    hist_in_range BS dataN 0 ops ->
    (big_fuel sc (map gop_of ops) <= fuel)%nat ->
    exists st0, gen_new fuel (mk_reader data 0 sc sk) = Some st0 /\
      map absp (gen_run fuel st0 (map gop_of ops)) =
      map somep (run_parser BS dataN (abs_orc BS sc) ops).
  Proof.
    intros HL HS Hr Hf.
    destruct (new_ok fuel sc sk) as (st0 & E & I & Hs & Hk & Hp & Ha).
    exists st0. split; [exact E|].
    pose proof (run_refines_model data data_len data_bytes fuel ops st0 I) as H.
    unfold data in *. rewrite toN_ofN in H.
    unfold run_parser. rewrite <- Ha. apply H.
    - split; [now rewrite Hs|unfold seeks_ok; now rewrite Hk].
    - rewrite Hp. exact Hr.
    - pose proof (big_fuel_for st0 sc (map gop_of ops) Hs). lia.
  Qed.

  Theorem run_refines_view_top sc sk ops fuel :
    legal_script sc -> Forall (fun f => f = false) sk ->
    hist_in_range BS dataN 0 ops ->
    (big_fuel sc (map gop_of ops) <= fuel)%nat ->
    exists st0, gen_new fuel (mk_reader data 0 sc sk) = Some st0 /\
      map absp (gen_run fuel st0 (map gop_of ops)) = map somep (run_view BS dataN ops).
  Proof.
    intros HL HS Hr Hf.
    destruct (run_refines_model_top sc sk ops fuel HL HS Hr Hf) as (st0 & E & H).
    exists st0. split; [exact E|].
    rewrite H. now rewrite (parser_refines_view_gen BS dataN bs4).
  Qed.

  (* (2) the invariant: initially, and along every history whatever the reader does *)
  Theorem inv_along sc sk ops fuel :
    forall st0, gen_new fuel (mk_reader data 0 sc sk) = Some st0 ->
    hist_args_ok fuel st0 ops -> (big_fuel sc ops <= fuel)%nat ->
    GInv data st0 /\ GInv data (gen_final fuel st0 ops) /\
    Forall (fun x => fst x <> GFuel) (gen_run fuel st0 ops).
  Proof.
    intros st0 E Ha Hf.
    destruct (new_ok fuel sc sk) as (st1 & E1 & I & Hs & _).
    rewrite E in E1. injection E1 as <-.
    split; [exact I|].
    apply (run_inv data data_len data_bytes fuel ops st0 I Ha).
    pose proof (big_fuel_for st0 sc ops Hs). lia.
  Qed.

  (* a read in range succeeds from EVERY state satisfying the invariant — in
     particular from the state a failed read, a failed Seek or a panic left
     behind — as soon as the reader behaves *)
  Theorem read_u16_from_any_state fuel st :
    GInv data st -> legal_state st -> (enough st GU16 <= fuel)%nat ->
    let cur := Z.to_nat (gen_pos st) in
    ((cur + 2 <= length dataN)%nat ->
       fst (gen_step fuel st GU16) = GVal (Z.of_N (rd16 (sub dataN cur 2))) /\
       gen_pos (snd (gen_step fuel st GU16)) = gen_pos st + 2) /\
    ((length dataN < cur + 2)%nat ->
       fst (gen_step fuel st GU16) = GErr EUnexpectedEOF /\
       gen_pos (snd (gen_step fuel st GU16)) = gen_pos st).
  Proof.
    intros I HL Hf cur.
    destruct (step_refines_model fuel st OU16 I HL Logic.I Hf) as [Ho Hs].
    destruct (step_inv data data_len data_bytes fuel st GU16 I Logic.I Hf) as (I' & _).
    destruct (Proofs.step_refines BS dataN bs4 (abs_state BS st) OU16) as (s2 & E2 & _ & Hm2).
    { pose proof (abs_inv data st I) as H. unfold data in *. rewrite toN_ofN in H. exact H. }
    cbn [gop_of] in *.
    rewrite E2 in Ho, Hs. cbn [fst snd] in Ho, Hs. subst s2.
    rewrite (abs_pos data st I) in Ho, Hm2. fold cur in Ho, Hm2.
    rewrite (abs_pos data _ I') in Hm2.
    pose proof (gi_pos _ _ I). pose proof (gi_from _ _ I).
    pose proof (gi_pos _ _ I'). pose proof (gi_from _ _ I').
    assert (Hc : Z.of_nat cur = gen_pos st) by (unfold cur, gen_pos in *; lia).
    destruct (fixed_read_iff BS dataN cur OU16 2 (fun b => Z.of_N (rd16 b)) ltac:(reflexivity) ltac:(lia)) as [Hin Hout].
    split; intros Hc2.
    - rewrite (Hin Hc2) in Ho, Hm2. cbn [fst snd] in Ho, Hm2.
      split.
      + destruct (fst (gen_step fuel st GU16)) as [|v| | |? ? []|[]| |]; cbn [abs_obs] in Ho; try discriminate.
        injection Ho as ->. reflexivity.
      + unfold gen_pos in *. lia.
    - rewrite (Hout Hc2) in Ho, Hm2. cbn [fst snd] in Ho, Hm2.
      split.
      + destruct (fst (gen_step fuel st GU16)) as [|v| | |? ? []|[]| |]; cbn [abs_obs] in Ho; try discriminate.
        reflexivity.
      + unfold gen_pos in *. lia.
  Qed.
End Top.
