(* C17B/Variants.v — wrong variants of parser.go in the shape the translator
   emits (same runtime, same statement translation), used by the _refuted
   witnesses of Examples.v.  Definitions only.

   AsFound_ReadBytes   the code as found before the repair
                       fixes/C17-readbytes-keep-bytes-delivered-with-error.diff:
                       `p.used += l` stands AFTER the error return, so bytes the
                       reader delivered together with a non-EOF error are dropped
                       while the reader has moved on
   Drop_ReadBytes      additionally io.EOF is mapped to ErrUnexpectedEOF whatever
                       was delivered (seed C17-n's second hunk): bytes delivered
                       together with io.EOF are dropped
   Alias_ReadUint16    seed C17-m: with exactly one byte buffered the value is
                       read by two ReadBytes(1) calls; the first slice aliases
                       the buffer cell the refill of the second call overwrites.
                       The translator refuses this source (a slice snapshot used
                       after a later call on the receiver); written here with
                       the alias made explicit: hi[0] is read from the CURRENT
                       buffer at the index hi pointed to *)
From Coq Require Import List NArith ZArith Bool.
From Gen Require Import C17B.
Import ListNotations.

Definition ReadBytes_variant (drop_eof_data : bool) (fuel : nat) (st : Parser) (v_n : Z)
  : mres Parser (list Z * gerr) :=
  finish (
  let st := set_g_lastRead st (wrap_s 64 ((g_from st) + (g_pos st))) in
  cbind (if (v_n <? 0) then (
      let v_n := 0 in
      CNorm st v_n) else (
      if (v_n >? 1024) then (
        CPanic st) else
      CNorm st v_n))
  (fun st v_n =>
    cbind (loop_while fuel (fun st _ => ((wrap_s 64 ((g_pos st) + v_n)) >? (g_used st))) (fun st _ =>
        cbind (if ((zlen (g_buf st)) =? 0) then (
            pbind st (go_make 1024) (fun t1 =>
              let st := set_g_buf st t1 in
              CNorm st tt)) else (
            CNorm st tt))
        (fun st _ =>
          pbind st (go_slice (g_buf st) (g_pos st) (g_used st)) (fun t2 =>
            let '(t3, t4) := go_copy (g_buf st) t2 in
            let st := set_g_buf st t3 in
            let v_k := t4 in
            let st := set_g_from st (wrap_s 64 ((g_from st) + (g_pos st))) in
            let st := set_g_pos st 0 in
            let st := set_g_used st v_k in
            pbind st (go_slice (g_buf st) (g_used st) (zlen (g_buf st))) (fun t5 =>
              let '(t6, t7, t8) := r_read (g_r st) (zlen t5) in
              let st := set_g_r st t8 in
              let st := set_g_buf st (go_write (g_buf st) (g_used st) t6) in
              let v_l := (zlen t6) in
              let v_err := t7 in
              cbind (if (err_is_eof v_err) then (
                  if ((v_l >? 0) && negb drop_eof_data)%bool then (
                    let v_err := ENil in
                    CNorm st v_err) else (
                    let v_err := EUnexpectedEOF in
                    CNorm st v_err)) else (
                  CNorm st v_err))
              (fun st v_err =>
                if (negb (err_is_nil v_err)) then (
                  CRet st ([], v_err)) else
                let st := set_g_used st (wrap_s 64 ((g_used st) + v_l)) in
                CNorm st tt))))) st tt)
    (fun st _ =>
      pbind st (go_slice (g_buf st) (g_pos st) (wrap_s 64 ((g_pos st) + v_n))) (fun t9 =>
        let v_res := t9 in
        let st := set_g_pos st (wrap_s 64 ((g_pos st) + v_n)) in
        CRet st (v_res, ENil)))))%Z.

Definition AsFound_ReadBytes := ReadBytes_variant false.
Definition Drop_ReadBytes := ReadBytes_variant true.

Definition ReadUint8_over (rb : nat -> Parser -> Z -> mres Parser (list Z * gerr))
    (fuel : nat) (st : Parser) : mres Parser (Z * gerr) :=
  finish (
  mbind (rb fuel st 1) (fun st '(t1, t2) =>
    let v_buf := t1 in
    let v_err := t2 in
    if (negb (err_is_nil v_err)) then (
      CRet st (0, v_err)) else
    pbind st (go_index v_buf 0) (fun t3 =>
      CRet st (t3, ENil))))%Z.

Definition Alias_ReadUint16 (fuel : nat) (st : Parser) : mres Parser (Z * gerr) :=
  finish (
  if ((g_used st) - (g_pos st) =? 1) then (
    let a_hi := g_pos st in              (* hi := buf[pos:pos+1], an alias *)
    mbind (Parser_ReadBytes fuel st 1) (fun st '(t1, t2) =>
      let v_err := t2 in
      if (negb (err_is_nil v_err)) then (
        CRet st (0, v_err)) else
      mbind (Parser_ReadBytes fuel st 1) (fun st '(t3, t4) =>
        let v_lo := t3 in
        let v_err := t4 in
        if (negb (err_is_nil v_err)) then (
          mbind (Parser_Pos fuel st) (fun st t5 =>
          mbind (Parser_SeekPos fuel st (wrap_s 64 (t5 - 1))) (fun st _ =>
          CRet st (0, v_err)))) else
        pbind st (go_index (g_buf st) a_hi) (fun t6 =>        (* hi[0], read now *)
          pbind st (go_index v_lo 0) (fun t7 =>
            CRet st ((Z.lor (wrap_u 16 (Z.shiftl t6 8)) t7), ENil)))))) else
  mbind (Parser_ReadBytes fuel st 2) (fun st '(t1, t2) =>
    let v_buf := t1 in
    let v_err := t2 in
    if (negb (err_is_nil v_err)) then (
      CRet st (0, v_err)) else
    pbind st (go_index v_buf 0) (fun t3 =>
      pbind st (go_index v_buf 1) (fun t4 =>
        CRet st ((Z.lor (wrap_u 16 (Z.shiftl t3 8)) t4), ENil)))))%Z.
