(* C17B/Tie.v — what the development assumes about the REGENERATED file
   Gen/C17B.v beyond the method bodies themselves (those are consumed directly
   by the proofs: every lemma of Proofs_*.v unfolds Parser_<Method>, and the
   loop bodies are fetched from the generated terms by Ltac). *)
From Coq Require Import List NArith ZArith Bool String.
From Gen Require Import Consts C17B.
From C17B Require Import Model.
Import ListNotations.
Local Open Scope string_scope.

(* the methods parser.Parser has today, in dependency order: gen_step has one
   case for every exported one; a method added to parser.go is translated (or
   the item is lost) and shows up here *)
Example methods_known :
  Parser_methods =
  ["SeekPos"; "New"; "Size"; "Pos"; "Discard"; "ReadBytes"; "Read"; "ReadUint8";
   "ReadUint16"; "ReadInt16"; "ReadUint32"; "ReadUint16Slice"].
Proof. reflexivity. Qed.

(* the struct has exactly the fields the invariant speaks about *)
Example struct_fields :
  forall st, st = mkParser (g_r st) (g_buf st) (g_from st) (g_pos st) (g_used st) (g_lastRead st).
Proof. intros []. reflexivity. Qed.

(* the constant the generated bodies were folded with is C17's *)
Example buffer_size : Z.of_nat parser_bufferSize = 1024%Z.
Proof. reflexivity. Qed.
