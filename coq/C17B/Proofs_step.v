(* C17B/Proofs_step.v — one call through the generated functions: it refines
   the step of C17's hand-written model (legal readers) and preserves the
   representation invariant (every reader); whole histories. *)
From Coq Require Import List NArith ZArith Bool Arith Lia.
From Common Require Import Bytes.
From Gen Require Import Consts C17B.
From C17 Require Import Model Proofs.
From C17B Require Import Model Util Proofs_iter Proofs_rb Proofs_ops Proofs_val Proofs_loops.
Import ListNotations.
Local Open Scope Z_scope.

Definition legal_state (st : Parser) : Prop := legal_script (script_of st) /\ seeks_ok st.

(* arguments inside int64 with room to spare (every reader) *)
Definition gop_args_ok (st : Parser) (o : gop) : Prop :=
  match o with
  | GSeek p => -9223372036854775808 <= p <= PMAX
  | GDiscard n => -9223372036854775808 <= n /\ gen_pos st + n <= PMAX
  | GReadN k => Z.of_nat k <= PMAX
  | _ => True
  end.

Ltac fin4s I' Hsuf Hsk :=
  split; [exact I'|]; split; [discriminate|]; split; [exact Hsuf|exact Hsk].
Ltac fin4 I' Hsuf Hsk :=
  split; [exact I'|]; split; [discriminate|]; split; [exact Hsuf|left; exact Hsk].

Section Step.
  Variable data : list Z.
  Hypothesis Hlen : zlen data <= PMAX.
  Hypothesis Hbytes : bytesZ data.

  Lemma enough_rb st o fuel : (enough st o <= fuel)%nat -> (length (script_of st) + 3 <= fuel)%nat.
  Proof. unfold enough, script_of. lia. Qed.

  (* ---------- invariant: every reader, every argument in range ---------- *)

  Theorem step_inv fuel st o :
    GInv data st -> gop_args_ok st o -> (enough st o <= fuel)%nat ->
    GInv data (snd (gen_step fuel st o)) /\ fst (gen_step fuel st o) <> GFuel /\
    script_suffix st (snd (gen_step fuel st o)) /\
    seeks_suffix st (snd (gen_step fuel st o)).
  Proof.
    intros I Ha Hf. pose proof (enough_rb st o fuel Hf) as Hf3.
    destruct o as [p|n| | | | | |n|k| |]; cbn [gen_step gop_args_ok] in *.
    - pose proof (SeekPos_spec data fuel st p I Ha) as H.
      destruct (Parser_SeekPos fuel st p) as [s' e|s'|]; cbn [seek_spec] in H; try contradiction.
      destruct H as (I' & Hsc & Hsk & _).
      assert (Hsuf : script_suffix st s') by (exists 0%nat; exact Hsc).
      destruct e; cbn [of_err fst snd]; fin4s I' Hsuf Hsk.
    - destruct Ha as [Ha1 Ha2].
      pose proof (Discard_spec data fuel st n I Ha1 Ha2) as H. unfold discard_spec in H.
      destruct (n <? 0).
      + rewrite H. cbn [of_err fst snd].
        split; [exact I|]. split; [discriminate|]. split; [apply suffix_refl|now left].
      + destruct (Parser_Discard fuel st n) as [s' e|s'|]; cbn [seek_spec] in H; try contradiction.
        destruct H as (I' & Hsc & Hsk & _).
        assert (Hsuf : script_suffix st s') by (exists 0%nat; exact Hsc).
        destruct e; cbn [of_err fst snd]; fin4s I' Hsuf Hsk.
    - pose proof (ReadUint8_spec data Hlen fuel st I Hf3) as H.
      destruct (Parser_ReadUint8 fuel st) as [s' [v e]|s'|]; cbn [val_spec] in H; try contradiction.
      destruct H as (I' & Hsuf & Hsk & _).
      destruct e; cbn [of_val fst snd]; fin4 I' Hsuf Hsk.
    - pose proof (ReadUint16_spec data Hlen fuel st I Hf3) as H.
      destruct (Parser_ReadUint16 fuel st) as [s' [v e]|s'|]; cbn [val_spec] in H; try contradiction.
      destruct H as (I' & Hsuf & Hsk & _).
      destruct e; cbn [of_val fst snd]; fin4 I' Hsuf Hsk.
    - rewrite ReadInt16_eq.
      pose proof (ReadUint16_spec data Hlen fuel st I Hf3) as H.
      destruct (Parser_ReadUint16 fuel st) as [s' [v e]|s'|]; cbn [val_spec] in H; try contradiction.
      destruct H as (I' & Hsuf & Hsk & _).
      destruct e; cbn [of_val fst snd]; fin4 I' Hsuf Hsk.
    - pose proof (ReadUint32_spec data Hlen fuel st I Hf3) as H.
      destruct (Parser_ReadUint32 fuel st) as [s' [v e]|s'|]; cbn [val_spec] in H; try contradiction.
      destruct H as (I' & Hsuf & Hsk & _).
      destruct e; cbn [of_val fst snd]; fin4 I' Hsuf Hsk.
    - pose proof (ReadUint16Slice_spec data Hlen Hbytes fuel st I Hf3) as H.
      destruct (Parser_ReadUint16Slice fuel st) as [s' [ws e]|s'|]; cbn [slice_spec] in H; try contradiction.
      destruct H as (I' & Hsuf & Hsk & _).
      destruct e; cbn [of_list fst snd]; fin4 I' Hsuf Hsk.
    - pose proof (ReadBytes_spec data Hlen fuel st n I Hf3) as H. unfold rb_spec in H.
      destruct (Parser_ReadBytes fuel st n) as [s' [b e]|s'|].
      + destruct H as [_ H]. cbn [rb_spec0] in H. destruct H as (I' & Hsuf & Hsk & _).
        change (script_suffix st s') in Hsuf. change (r_seeks (g_r s') = r_seeks (g_r st)) in Hsk.
        destruct e; cbn [of_list fst snd]; fin4 I' Hsuf Hsk.
      + destruct H as [_ ->]. cbn [of_list fst snd].
        split; [apply (ginv_fields data st); auto|]. split; [discriminate|].
        split; [exists 0%nat; reflexivity|left; reflexivity].
      + destruct H as [_ []].
    - pose proof (Read_spec data Hlen fuel st k I Hf3 ltac:(unfold enough in Hf; lia) Ha) as H.
      destruct (Parser_Read fuel st (repeat 0 k)) as [s' [[n e] out]|s'|]; cbn [read_spec] in H; try contradiction.
      destruct H as (I' & Hsuf & Hsk & _).
      cbn [of_read fst snd]. fin4 I' Hsuf Hsk.
    - rewrite (Pos_spec data fuel st I). cbn [of_int fst snd].
      split; [exact I|]. split; [discriminate|]. split; [apply suffix_refl|now left].
    - rewrite (Size_spec data fuel st I). cbn [of_int fst snd].
      split; [exact I|]. split; [discriminate|]. split; [apply suffix_refl|now left].
  Qed.

  (* ---------- refinement of C17's model step: legal readers ---------- *)

  Lemma legal_after st st' :
    script_suffix st st' -> seeks_suffix st st' -> legal_state st -> legal_state st'.
  Proof.
    intros Hs Hk [L S]. split; [eapply suffix_legal; eassumption|eapply seeks_ok_suffix; eassumption].
  Qed.

  Lemma sub_len_in (l : list Z) cur n : cur + n <= zlen l -> 0 <= cur -> 0 <= n ->
    length (sub l (Z.to_nat cur) (Z.to_nat n)) = Z.to_nat n.
  Proof. intros H H0 H1. rewrite sub_length_min. unfold zlen in H. lia. Qed.

  Theorem step_refines fuel st o :
    GInv data st -> legal_state st -> op_in_range (Z.to_nat (gen_pos st)) o ->
    (enough st (gop_of o) <= fuel)%nat ->
    let r := gen_step fuel st (gop_of o) in
    let m := m_step BS (toN data) (abs_state BS st) o in
    abs_obs (fst r) = Some (fst m) /\ abs_state BS (snd r) = snd m.
  Proof.
    intros I [HL HS] Hr Hf. pose proof (enough_rb st (gop_of o) fuel Hf) as Hf3.
    pose proof (gi_pos _ _ I) as Hp. pose proof (gi_from _ _ I) as Hfr.
    assert (Hcur : 0 <= gen_pos st) by (unfold gen_pos; lia).
    destruct o as [p|n| | | | | |n|k| |]; cbn [gop_of gen_step m_step op_in_range] in *; cbv zeta.
    - (* SeekPos *)
      pose proof (SeekPos_spec data fuel st (Z.of_nat p) I ltac:(lia)) as H.
      destruct (Parser_SeekPos fuel st (Z.of_nat p)) as [s' e|s'|]; cbn [seek_spec] in H; try contradiction.
      destruct H as (_ & _ & _ & _ & _ & _ & H). destruct (H HS ltac:(lia)) as [-> Ha].
      cbn [of_err fst snd abs_obs]. rewrite Nat2Z.id in Ha. split; [reflexivity|exact Ha].
    - (* Discard *)
      pose proof (Discard_spec data fuel st (Z.of_nat n) I ltac:(lia) ltac:(lia)) as H.
      unfold discard_spec in H. replace (Z.of_nat n <? 0) with false in H by (symmetry; apply Z.ltb_ge; lia).
      destruct (Parser_Discard fuel st (Z.of_nat n)) as [s' e|s'|]; cbn [seek_spec] in H; try contradiction.
      destruct H as (_ & _ & _ & _ & _ & _ & H). destruct (H HS ltac:(lia)) as [-> Ha].
      cbn [of_err fst snd abs_obs]. rewrite (abs_pos data st I).
      replace (Z.to_nat (gen_pos st) + n)%nat with (Z.to_nat (gen_pos st + Z.of_nat n)) by lia.
      split; [reflexivity|exact Ha].
    - (* ReadUint8 *)
      pose proof (ReadUint8_spec data Hlen fuel st I Hf3) as H.
      destruct (Parser_ReadUint8 fuel st) as [s' [v e]|s'|]; cbn [val_spec] in H; try contradiction.
      destruct H as (_ & _ & _ & Hok & _ & Hleg). destruct (Hleg HL) as [He Hm].
      change (Z.to_nat 1) with 1%nat in *. rewrite Hm.
      destruct He as [->| ->]; cbn [of_val fst snd abs_obs fuel_res]; [|split; reflexivity].
      destruct (Hok eq_refl) as (-> & _ & Hin).
      rewrite dec8_rd8; [split; reflexivity| |apply bytesZ_sub; exact Hbytes].
      apply (sub_len_in data (gen_pos st) 1); lia.
    - (* ReadUint16 *)
      pose proof (ReadUint16_spec data Hlen fuel st I Hf3) as H.
      destruct (Parser_ReadUint16 fuel st) as [s' [v e]|s'|]; cbn [val_spec] in H; try contradiction.
      destruct H as (_ & _ & _ & Hok & _ & Hleg). destruct (Hleg HL) as [He Hm].
      change (Z.to_nat 2) with 2%nat in *. rewrite Hm.
      destruct He as [->| ->]; cbn [of_val fst snd abs_obs fuel_res]; [|split; reflexivity].
      destruct (Hok eq_refl) as (-> & _ & Hin).
      rewrite dec16_rd16; [split; reflexivity| |apply bytesZ_sub; exact Hbytes].
      apply (sub_len_in data (gen_pos st) 2); lia.
    - (* ReadInt16 *)
      rewrite ReadInt16_eq.
      pose proof (ReadUint16_spec data Hlen fuel st I Hf3) as H.
      destruct (Parser_ReadUint16 fuel st) as [s' [v e]|s'|]; cbn [val_spec] in H; try contradiction.
      destruct H as (_ & _ & _ & Hok & _ & Hleg). destruct (Hleg HL) as [He Hm].
      change (Z.to_nat 2) with 2%nat in *. rewrite Hm.
      destruct He as [->| ->]; cbn [of_val fst snd abs_obs fuel_res]; [|split; reflexivity].
      destruct (Hok eq_refl) as (-> & _ & Hin).
      assert (Hl2 : length (sub data (Z.to_nat (gen_pos st)) 2) = 2%nat)
        by (apply (sub_len_in data (gen_pos st) 2); lia).
      assert (Hbz : bytesZ (sub data (Z.to_nat (gen_pos st)) 2)) by (apply bytesZ_sub; exact Hbytes).
      rewrite dec16_rd16 by assumption.
      rewrite wrap_s16_to_i16 by (apply rd16_toN_bound; assumption).
      split; reflexivity.
    - (* ReadUint32 *)
      pose proof (ReadUint32_spec data Hlen fuel st I Hf3) as H.
      destruct (Parser_ReadUint32 fuel st) as [s' [v e]|s'|]; cbn [val_spec] in H; try contradiction.
      destruct H as (_ & _ & _ & Hok & _ & Hleg). destruct (Hleg HL) as [He Hm].
      change (Z.to_nat 4) with 4%nat in *. rewrite Hm.
      destruct He as [->| ->]; cbn [of_val fst snd abs_obs fuel_res]; [|split; reflexivity].
      destruct (Hok eq_refl) as (-> & _ & Hin).
      rewrite dec32_rd32; [split; reflexivity| |apply bytesZ_sub; exact Hbytes].
      apply (sub_len_in data (gen_pos st) 4); lia.
    - (* ReadUint16Slice *)
      pose proof (ReadUint16Slice_spec data Hlen Hbytes fuel st I Hf3) as H.
      destruct (Parser_ReadUint16Slice fuel st) as [s' [ws e]|s'|]; cbn [slice_spec] in H; try contradiction.
      destruct H as (_ & _ & _ & _ & Hleg). destruct (Hleg HL) as [He Hm].
      cbn [m_step] in Hm. rewrite Hm.
      destruct He as [->| ->]; cbn [of_list fst snd abs_obs]; split; reflexivity.
    - (* ReadBytes *)
      pose proof (ReadBytes_spec data Hlen fuel st (Z.of_nat n) I Hf3) as H. unfold rb_spec in H.
      destruct (Nat.ltb_spec BS n) as [Hbig|Hsmall].
      + destruct (Parser_ReadBytes fuel st (Z.of_nat n)) as [s' [b e]|s'|];
          [destruct H as [H _]|destruct H as [_ ->]|destruct H as [H _]];
          try (pose proof bs_1024 as HBS; revert HBS Hbig; generalize BS; intros; lia).
        cbn [of_list fst snd abs_obs]. split; reflexivity.
      + destruct (Parser_ReadBytes fuel st (Z.of_nat n)) as [s' [b e]|s'|];
          [destruct H as [_ H]|destruct H as [H _]|destruct H as [_ []]];
          try (pose proof bs_1024 as HBS; revert HBS Hsmall; generalize BS; intros; lia).
        cbn [rb_spec0] in H. destruct H as (_ & _ & _ & _ & _ & _ & Hleg).
        destruct (Hleg HL) as [He Hm].
        change (abs_state BS (set_g_lastRead st (gen_pos st))) with (abs_state BS st) in Hm.
        replace (Z.to_nat (Z.max 0 (Z.of_nat n))) with n in Hm by lia.
        rewrite Hm.
        destruct He as [->| ->]; cbn [of_list fst snd abs_obs fuel_res]; split; reflexivity.
    - (* Read *)
      pose proof (Read_spec data Hlen fuel st k I Hf3 ltac:(unfold enough in Hf; lia) Hr) as H.
      destruct (Parser_Read fuel st (repeat 0 k)) as [s' [[n e] out]|s'|]; cbn [read_spec] in H; try contradiction.
      destruct H as (_ & _ & _ & _ & Hleg). destruct (Hleg HL) as [He Hm].
      rewrite Hm.
      destruct He as [->| ->]; cbn [of_read fst snd abs_obs fuel_res]; split; reflexivity.
    - (* Pos *)
      rewrite (Pos_spec data fuel st I). cbn [of_int fst snd abs_obs].
      rewrite (abs_pos data st I). rewrite Z2Nat.id by lia. split; reflexivity.
    - (* Size *)
      rewrite (Size_spec data fuel st I). cbn [of_int fst snd abs_obs].
      unfold zlen. rewrite toN_length. split; reflexivity.
  Qed.
End Step.
