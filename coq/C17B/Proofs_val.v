(* C17B/Proofs_val.v — the integer expressions of the generated fixed-size
   reads (shifts, ors, conversions with Go's wrap-around) are the big-endian
   values of Common.Bytes on byte lists. *)
From Coq Require Import List NArith ZArith Bool Arith Lia.
From Common Require Import Bytes.
From Gen Require Import Consts C17B.
From C17B Require Import Model Util Proofs_iter Proofs_rb Proofs_ops.
Import ListNotations.
Local Open Scope Z_scope.

Lemma lor_mul_add c n b : 0 <= n -> 0 <= b < 2 ^ n -> Z.lor (c * 2 ^ n) b = c * 2 ^ n + b.
Proof. intros Hn Hb. rewrite <- (lor_shiftl_add c b n Hn Hb). now rewrite Z.shiftl_mul_pow2 by lia. Qed.

Lemma bytesZ_sub l off n : bytesZ l -> bytesZ (sub l off n).
Proof.
  unfold bytesZ, sub. intros H. apply Forall_forall. intros x Hx.
  assert (Hx' : In x (skipn off l)).
  { rewrite <- (firstn_skipn n (skipn off l)). apply in_or_app. now left. }
  assert (Hin : In x l).
  { rewrite <- (firstn_skipn off l). apply in_or_app. now right. }
  rewrite Forall_forall in H. now apply H.
Qed.

Lemma dec8_rd8 b : length b = 1%nat -> bytesZ b -> dec8 b = Z.of_N (rd8 (toN b)).
Proof.
  destruct b as [|b0 [|]]; try discriminate. intros _ H. inversion H; subst.
  unfold dec8, toN, rd8. cbn [nth map]. lia.
Qed.

Lemma dec16_rd16 b : length b = 2%nat -> bytesZ b -> dec16 b = Z.of_N (rd16 (toN b)).
Proof.
  destruct b as [|b0 [|b1 [|]]]; try discriminate. intros _ H.
  inversion H as [|? ? H0 H']; subst. inversion H' as [|? ? H1 _]; subst.
  unfold dec16, toN, rd16. cbn [nth map].
  rewrite Z.shiftl_mul_pow2 by lia.
  rewrite wrap_u_small by (change (2 ^ 8) with 256; change (2 ^ 16) with 65536; lia).
  rewrite lor_mul_add by (change (2 ^ 8) with 256; lia).
  change (2 ^ 8) with 256. lia.
Qed.

Lemma dec32_rd32 b : length b = 4%nat -> bytesZ b -> dec32 b = Z.of_N (rd32 (toN b)).
Proof.
  destruct b as [|b0 [|b1 [|b2 [|b3 [|]]]]]; try discriminate. intros _ H.
  inversion H as [|? ? H0 H']; subst. inversion H' as [|? ? H1 H'']; subst.
  inversion H'' as [|? ? H2 H3']; subst. inversion H3' as [|? ? H3 _]; subst.
  unfold dec32, toN, rd32. cbn [nth map].
  rewrite !Z.shiftl_mul_pow2 by lia.
  change (2 ^ 24) with 16777216. change (2 ^ 16) with 65536. change (2 ^ 8) with 256.
  rewrite !wrap_u_small by (change (2 ^ 32) with 4294967296; lia).
  replace (b0 * 16777216) with (b0 * 2 ^ 24) by (change (2 ^ 24) with 16777216; reflexivity).
  rewrite (lor_mul_add b0 24 (b1 * 65536)) by (change (2 ^ 24) with 16777216; lia).
  change (2 ^ 24) with 16777216.
  replace (b0 * 16777216 + b1 * 65536) with ((b0 * 256 + b1) * 2 ^ 16) by (change (2 ^ 16) with 65536; lia).
  rewrite (lor_mul_add _ 16 (b2 * 256)) by (change (2 ^ 16) with 65536; lia).
  change (2 ^ 16) with 65536.
  replace ((b0 * 256 + b1) * 65536 + b2 * 256) with (((b0 * 256 + b1) * 256 + b2) * 2 ^ 8) by (change (2 ^ 8) with 256; lia).
  rewrite (lor_mul_add _ 8 b3) by (change (2 ^ 8) with 256; lia).
  change (2 ^ 8) with 256. lia.
Qed.

Lemma rd16_toN_bound b : length b = 2%nat -> bytesZ b -> (rd16 (toN b) < 65536)%N.
Proof.
  destruct b as [|b0 [|b1 [|]]]; try discriminate. intros _ H.
  inversion H as [|? ? H0 H']; subst. inversion H' as [|? ? H1 _]; subst.
  unfold toN, rd16. cbn [map]. lia.
Qed.

Lemma wrap_s16_to_i16 (x : N) : (x < 65536)%N -> wrap_s 16 (Z.of_N x) = to_i16 x.
Proof.
  intros H. unfold wrap_s, to_i16.
  change (2 ^ (16 - 1)) with 32768. change (2 ^ 16) with 65536.
  destruct (N.ltb_spec x 32768) as [Hlt|Hge].
  - rewrite Z.mod_small by lia. lia.
  - replace (Z.of_N x + 32768) with (Z.of_N x - 32768 + 1 * 65536) by lia.
    rewrite Z.mod_add by lia. rewrite Z.mod_small by lia. lia.
Qed.
