(* C17B/Model.v — the GENERATED parser functions (Gen/C17B.v, regenerated from
   the method bodies of parser.Parser on every run) as a step function over
   operation histories, their observations, the abstraction to C17's
   hand-written model state, and the representation invariant.
   Definitions only. *)
From Coq Require Import List NArith ZArith Bool Arith.
From Common Require Import Bytes.
From Gen Require Import Consts C17B.
From C17 Require Import Model.
Import ListNotations.
Local Open Scope Z_scope.

(* ------------------------------------------------------------------ *)
(* Operations with Go's argument types (int / int64: negative values exist) *)

Inductive gop : Type :=
| GSeek (p : Z) | GDiscard (n : Z)
| GU8 | GU16 | GI16 | GU32 | GSlice
| GBytes (n : Z)
| GReadN (k : nat)        (* Read(buf) with len(buf) = k, buf zero-filled *)
| GPos | GSize.

Definition gop_of (o : op) : gop :=
  match o with
  | OSeek p => GSeek (Z.of_nat p)
  | ODiscard n => GDiscard (Z.of_nat n)
  | OU8 => GU8 | OU16 => GU16 | OI16 => GI16 | OU32 => GU32
  | OSlice => GSlice
  | OBytes n => GBytes (Z.of_nat n)
  | ORead k => GReadN k
  | OPos => GPos | OSize => GSize
  end.

(* what a caller sees of one call *)
Inductive gobs : Type :=
| GDone                               (* nil error, no value *)
| GVal (v : Z)
| GData (bs : list Z)
| GWords (ws : list Z)
| GRead (n : Z) (bs : list Z) (e : gerr)  (* Read: count, buf[:count], the error *)
| GErr (e : gerr)                     (* a non-nil error *)
| GPanic
| GFuel.

Definition of_err (st0 : Parser) (m : mres Parser gerr) : gobs * Parser :=
  match m with
  | MRet st ENil => (GDone, st)
  | MRet st e => (GErr e, st)
  | MPanic st => (GPanic, st)
  | MFuel => (GFuel, st0)
  end.

Definition of_val (st0 : Parser) (m : mres Parser (Z * gerr)) : gobs * Parser :=
  match m with
  | MRet st (v, ENil) => (GVal v, st)
  | MRet st (_, e) => (GErr e, st)
  | MPanic st => (GPanic, st)
  | MFuel => (GFuel, st0)
  end.

Definition of_int (st0 : Parser) (m : mres Parser Z) : gobs * Parser :=
  match m with
  | MRet st v => (GVal v, st)
  | MPanic st => (GPanic, st)
  | MFuel => (GFuel, st0)
  end.

Definition of_list (wrap : list Z -> gobs) (st0 : Parser) (m : mres Parser (list Z * gerr))
  : gobs * Parser :=
  match m with
  | MRet st (l, ENil) => (wrap l, st)
  | MRet st (_, e) => (GErr e, st)
  | MPanic st => (GPanic, st)
  | MFuel => (GFuel, st0)
  end.

Definition of_read (st0 : Parser) (m : mres Parser (Z * gerr * list Z)) : gobs * Parser :=
  match m with
  | MRet st (n, e, out) => (GRead n (firstn (Z.to_nat n) out) e, st)
  | MPanic st => (GPanic, st)
  | MFuel => (GFuel, st0)
  end.

(* one call of a method of the real API, through the generated function *)
Definition gen_step (fuel : nat) (st : Parser) (o : gop) : gobs * Parser :=
  match o with
  | GSeek p => of_err st (Parser_SeekPos fuel st p)
  | GDiscard n => of_err st (Parser_Discard fuel st n)
  | GU8 => of_val st (Parser_ReadUint8 fuel st)
  | GU16 => of_val st (Parser_ReadUint16 fuel st)
  | GI16 => of_val st (Parser_ReadInt16 fuel st)
  | GU32 => of_val st (Parser_ReadUint32 fuel st)
  | GSlice => of_list GWords st (Parser_ReadUint16Slice fuel st)
  | GBytes n => of_list GData st (Parser_ReadBytes fuel st n)
  | GReadN k => of_read st (Parser_Read fuel st (repeat 0 k))
  | GPos => of_int st (Parser_Pos fuel st)
  | GSize => of_int st (Parser_Size fuel st)
  end.

Definition gen_pos (st : Parser) : Z := g_from st + g_pos st.

(* a history: the observation and Pos() after every call *)
Fixpoint gen_run (fuel : nat) (st : Parser) (ops : list gop) : list (gobs * Z) :=
  match ops with
  | [] => []
  | o :: r => let '(res, st') := gen_step fuel st o in (res, gen_pos st') :: gen_run fuel st' r
  end.

Fixpoint gen_final (fuel : nat) (st : Parser) (ops : list gop) : Parser :=
  match ops with
  | [] => st
  | o :: r => gen_final fuel (snd (gen_step fuel st o)) r
  end.

(* parser.New(r) *)
Definition mk_reader (data : list Z) (pos : Z) (script : list rbeh) (seeks : list bool) : reader :=
  mkR data pos script seeks [].

Definition gen_new (fuel : nat) (r : reader) : option Parser :=
  match Parser_New fuel r with MRet st _ => Some st | _ => None end.

(* the fuel the drivers and the theorems use for a state: every `for cond`
   loop of the file ends within (entries left in the Read script) + 3 + the
   size asked for *)
Definition enough (st : Parser) (o : gop) : nat :=
  (List.length (r_script (g_r st)) + 4 +
   match o with GReadN k => k | _ => 0 end)%nat.

(* ------------------------------------------------------------------ *)
(* Abstraction to C17's model                                          *)

Definition toN (l : list Z) : list N := map Z.to_N l.
Definition ofN (l : list N) : list Z := map Z.of_N l.

Definition abs_orc (bs : nat) (sc : list rbeh) : oracle :=
  flat_map (fun b => match b with
                     | BFull => [(bs, false)]
                     | BShort l e => if l <=? 0 then [] else [(Z.to_nat (l - 1), e)]
                     | BFail _ _ => []
                     end) sc.

Definition abs_state (bs : nat) (st : Parser) : pstate :=
  mkP (Z.to_nat (g_from st)) (Z.to_nat (g_pos st))
      (toN (firstn (Z.to_nat (g_used st)) (g_buf st)))
      (Z.to_nat (r_pos (g_r st)))
      (abs_orc bs (r_script (g_r st))).

Definition abs_obs (o : gobs) : option result :=
  match o with
  | GDone => Some RDone
  | GVal v => Some (RVal v)
  | GData b => Some (RData (toN b))
  | GWords w => Some (RWords (toN w))
  | GRead n b ENil => Some (RRead (Z.to_nat n) (toN b) false)
  | GRead n b EUnexpectedEOF => Some (RRead (Z.to_nat n) (toN b) true)
  | GRead _ _ _ => None
  | GErr EUnexpectedEOF => Some REof
  | GErr _ => None
  | GPanic => Some RPanic
  | GFuel => Some RFuel
  end.

(* ------------------------------------------------------------------ *)
(* The representation invariant of parser.Parser                       *)

Definition PMAX : Z := 4611686018427387904.  (* 2^62: positions the theorems speak about *)
Definition BSZ : Z := Z.of_nat parser_bufferSize.

Definition bytesZ (l : list Z) : Prop := Forall (fun b => 0 <= b < 256) l.

Record GInv (data : list Z) (st : Parser) : Prop := mkGInv {
  gi_data : r_data (g_r st) = data;                       (* the reader reads the input *)
  gi_len : zlen (g_buf st) = 0 \/ zlen (g_buf st) = BSZ;   (* no buffer yet, or bufferSize bytes *)
  gi_pos : 0 <= g_pos st <= g_used st;
  gi_used : g_used st <= zlen (g_buf st);
  gi_from : 0 <= g_from st <= PMAX;
  gi_buf : firstn (Z.to_nat (g_used st)) (g_buf st) =
           sub data (Z.to_nat (g_from st)) (Z.to_nat (g_used st)); (* buf[0:used] = input[from, from+used) *)
  gi_up : r_pos (g_r st) = g_from st + g_used st           (* the reader stands at from+used *)
}.

(* readers the refinement theorems speak about: bytes come from the input,
   io.EOF only at the end, no other error, Seek to an offset >= 0 succeeds *)
Definition legal_script (sc : list rbeh) : Prop :=
  Forall (fun b => match b with BFail _ _ => False | _ => True end) sc.
Definition legal_reader (r : reader) : Prop :=
  legal_script (r_script r) /\ Forall (fun f => f = false) (r_seeks r).

(* positions stay inside int64 with room to spare *)
Definition op_in_range (cur : nat) (o : op) : Prop :=
  match o with
  | OSeek p => Z.of_nat p <= PMAX
  | ODiscard n => Z.of_nat cur + Z.of_nat n <= PMAX
  | ORead k => Z.of_nat k <= PMAX
  | _ => True
  end.

Fixpoint hist_in_range (bs : nat) (data : list N) (cur : nat) (ops : list op) : Prop :=
  match ops with
  | [] => True
  | o :: r => op_in_range cur o /\ hist_in_range bs data (snd (v_step bs data cur o)) r
  end.

(* ------------------------------------------------------------------ *)
(* Entry points of the correspondence driver                           *)

Definition big_fuel (script : list rbeh) (ops : list gop) : nat :=
  (List.length script + 8 +
   fold_right (fun o acc => Nat.max acc (match o with GReadN k => k | _ => 0%nat end)) 0%nat ops)%nat.

(* New(r) and the history; per step the observation, Pos(), and the fields
   (from, pos, used, lastRead, len(buf)); at the end the buffer and the calls
   made on the underlying reader, oldest first *)
Definition st_fields (st : Parser) : Z * Z * Z * Z * Z :=
  (g_from st, g_pos st, g_used st, g_lastRead st, zlen (g_buf st)).

Fixpoint gen_trace (fuel : nat) (st : Parser) (ops : list gop)
  : list (gobs * Z * (Z * Z * Z * Z * Z)) * Parser :=
  match ops with
  | [] => ([], st)
  | o :: r =>
      let '(res, st') := gen_step fuel st o in
      let '(tr, fin) := gen_trace fuel st' r in
      ((res, gen_pos st', st_fields st') :: tr, fin)
  end.

Definition run_generated (data : list Z) (rpos : Z) (script : list rbeh) (seeks : list bool)
    (ops : list gop)
  : option (list (gobs * Z * (Z * Z * Z * Z * Z)) * list Z * list rcall) :=
  let fuel := big_fuel script ops in
  match gen_new fuel (mk_reader data rpos script seeks) with
  | None => None
  | Some st =>
      let '(tr, fin) := gen_trace fuel st ops in
      Some (tr, g_buf fin, rev (r_log (g_r fin)))
  end.
