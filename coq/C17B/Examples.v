(* C17B/Examples.v — non-vacuity of every hypothesis of Props.v on concrete
   non-trivial values, and the _refuted witnesses: every clause of the
   representation invariant is needed, the reader must stand at offset 0 when
   New is called, and three realistic wrong variants of the code (one of them
   the code as found) do not refine the view. *)
From Coq Require Import List NArith ZArith Bool Arith Lia.
From Common Require Import Bytes.
From Gen Require Import Consts C17B.
From C17 Require Import Model Proofs.
From C17B Require Import Model Proofs_iter Proofs_rb Proofs_ops Proofs_step Proofs_run Proofs_top Variants.
Import ListNotations.
Local Open Scope Z_scope.

(* ---------------- a concrete run: 1250 bytes, every kind of legal read ---------------- *)

Definition ex_dataN : list N :=
  map N.of_nat (seq 0 250) ++ map N.of_nat (seq 0 250) ++ map N.of_nat (seq 0 250) ++
  map N.of_nat (seq 0 250) ++ map N.of_nat (seq 0 250).
Definition ex_ops : list op :=
  [OU16; OSeek 1022; OU32; OPos; ORead 300; OSeek 1240; OU32; OU16; OSeek 3; OSlice; OBytes 1024;
   OSeek 5000; OU8; ODiscard 7; OPos; OSize; OSeek 1249; OU8; OU8; OBytes 2000; OSeek 1248; OI16].
Definition ex_script : list rbeh :=
  [BShort 1 false; BShort 0 false; BShort 3 true; BFull; BShort 0 true; BShort 700 false;
   BShort 1024 true; BShort 0 false; BShort 0 false].
Definition ex_fuel : nat := big_fuel ex_script (map gop_of ex_ops).

Example ex_hyps :
  bytes_ok ex_dataN = true /\ Z.of_nat (length ex_dataN) <= PMAX /\ legal_script ex_script /\
  hist_in_range BS ex_dataN 0 ex_ops.
Proof.
  split; [vm_compute; reflexivity|]. split; [vm_compute; discriminate|].
  split; [repeat constructor|].
  apply hist_in_rangeb_ok. vm_compute. reflexivity.
Qed.

Example ex_generated_equals_view :
  match gen_new ex_fuel (mk_reader (ofN ex_dataN) 0 ex_script []) with
  | Some st0 => map absp (gen_run ex_fuel st0 (map gop_of ex_ops)) = map somep (run_view BS ex_dataN ex_ops)
  | None => False
  end.
Proof. vm_compute. reflexivity. Qed.

Example ex_has_success_failure_panic :
  existsb (fun r => match fst r with REof => true | _ => false end) (run_view BS ex_dataN ex_ops) = true /\
  existsb (fun r => match fst r with RVal _ => true | _ => false end) (run_view BS ex_dataN ex_ops) = true /\
  existsb (fun r => match fst r with RPanic => true | _ => false end) (run_view BS ex_dataN ex_ops) = true.
Proof. vm_compute. repeat split; reflexivity. Qed.

(* a state in the middle of a window satisfies the invariant and is legal *)
Definition ex_small : list Z := map Z.of_nat (seq 0 40).
Definition ex_buf : list Z := ex_small ++ repeat 0 984.
Definition ex_state : Parser :=
  mkParser (mkR ex_small 40 [BShort 2 false] [] []) ex_buf 0 7 40 5.

Example ex_state_inv : GInv ex_small ex_state /\ legal_state ex_state /\ bytesZ ex_small.
Proof.
  split; [|split].
  - constructor; vm_compute; try reflexivity; try (split; discriminate); try discriminate. now right.
  - split; repeat constructor.
  - unfold bytesZ, ex_small. apply Forall_forall. intros x Hx. apply in_map_iff in Hx.
    destruct Hx as (n & <- & Hn). apply in_seq in Hn. lia.
Qed.

(* the invariant theorems speak about readers that misbehave: a history with
   errors delivered together with data, failing Seeks, negative arguments and
   a panic, continued after every failure *)
Definition ex_bad_script : list rbeh :=
  [BFail 3 7; BShort 0 false; BFail 0 9; BShort 5 true; BFail 2000 11].
Definition ex_bad_seeks : list bool := [true; false; true].
Definition ex_bad_ops : list gop :=
  [GU16; GU16; GSeek 30; GU8; GSeek (-4); GSeek 1100; GBytes 2000; GDiscard (-1); GBytes (-3);
   GReadN 50; GSeek 35; GU32; GSeek 0; GU32; GSlice].

Example ex_bad_hyps :
  exists st0, gen_new 100 (mk_reader ex_small 0 ex_bad_script ex_bad_seeks) = Some st0 /\
              hist_args_ok 100 st0 ex_bad_ops /\ (big_fuel ex_bad_script ex_bad_ops <= 100)%nat.
Proof.
  eexists. split; [vm_compute; reflexivity|]. split.
  - apply hist_args_okb_ok. vm_compute. reflexivity.
  - apply Nat.leb_le. vm_compute. reflexivity.
Qed.

(* ... and after it a read in range returns the right value *)
Example ex_bad_then_good :
  match gen_new 100 (mk_reader ex_small 0 ex_bad_script ex_bad_seeks) with
  | Some st0 => map (fun x => fst x) (gen_run 100 st0 (ex_bad_ops ++ [GSeek 4; GU16]))
  | None => []
  end =
  [GErr (EOther 7); GVal 1; GErr (EOther 1); GVal 2; GErr (EOther 1); GErr (EOther 1); GPanic; GPanic;
   GData []; GRead 0 [] (EOther 9); GDone; GVal 589571366; GDone; GErr (EOther 11); GWords [515];
   GDone; GVal 1029].
Proof. vm_compute. reflexivity. Qed.

(* ---------------- every clause of the invariant is needed ---------------- *)

Definition view1 (data : list Z) (st : Parser) (o : op) : option result :=
  Some (fst (v_step BS (toN data) (Z.to_nat (gen_pos st)) o)).

(* a state: all clauses but the named one hold, and one call differs from the view *)
Definition refutes (data : list Z) (st : Parser) (o : op) : Prop :=
  abs_obs (fst (gen_step 50 st (gop_of o))) <> view1 data st o.

(* pos <= used *)
Definition w_pos : Parser := mkParser (mkR ex_small 3 [] [] []) ex_buf 0 5 3 0.
Example inv_pos_le_used_needed_refuted :
  r_data (g_r w_pos) = ex_small /\ zlen (g_buf w_pos) = BSZ /\ g_used w_pos <= zlen (g_buf w_pos) /\
  0 <= g_from w_pos <= PMAX /\
  firstn (Z.to_nat (g_used w_pos)) (g_buf w_pos) = sub ex_small (Z.to_nat (g_from w_pos)) (Z.to_nat (g_used w_pos)) /\
  r_pos (g_r w_pos) = g_from w_pos + g_used w_pos /\
  ~ (g_pos w_pos <= g_used w_pos) /\ refutes ex_small w_pos OU8.
Proof. vm_compute. repeat split; try reflexivity; try discriminate; auto. Qed.

(* used <= len(buf) *)
Definition w_1024 : list Z := map (fun i => Z.of_nat i mod 256) (seq 0 1024).
Definition w_used : Parser := mkParser (mkR w_1024 2000 [] [] []) w_1024 0 1500 2000 0.
Example inv_used_le_len_needed_refuted :
  r_data (g_r w_used) = w_1024 /\ zlen (g_buf w_used) = BSZ /\ 0 <= g_pos w_used <= g_used w_used /\
  0 <= g_from w_used <= PMAX /\
  firstn (Z.to_nat (g_used w_used)) (g_buf w_used) = sub w_1024 (Z.to_nat (g_from w_used)) (Z.to_nat (g_used w_used)) /\
  r_pos (g_r w_used) = g_from w_used + g_used w_used /\
  ~ (g_used w_used <= zlen (g_buf w_used)) /\ refutes w_1024 w_used OU8.
Proof. vm_compute. repeat split; try reflexivity; try discriminate; auto. Qed.

(* len(buf) = 0 or bufferSize: with an 8-byte buffer a 100-byte read never ends *)
Definition w_len : Parser := mkParser (mkR ex_small 8 [] [] []) (firstn 8 ex_small) 0 6 8 0.
Example inv_buffer_length_needed_refuted :
  r_data (g_r w_len) = ex_small /\ 0 <= g_pos w_len <= g_used w_len /\ g_used w_len <= zlen (g_buf w_len) /\
  0 <= g_from w_len <= PMAX /\
  firstn (Z.to_nat (g_used w_len)) (g_buf w_len) = sub ex_small (Z.to_nat (g_from w_len)) (Z.to_nat (g_used w_len)) /\
  r_pos (g_r w_len) = g_from w_len + g_used w_len /\
  ~ (zlen (g_buf w_len) = 0 \/ zlen (g_buf w_len) = BSZ) /\
  fst (gen_step 5000 w_len (GBytes 20)) = GFuel /\ refutes ex_small w_len (OBytes 20).
Proof.
  vm_compute. repeat split; try reflexivity; try discriminate; auto.
  intros [H|H]; discriminate.
Qed.

(* buf[0:used] = input[from, from+used) *)
Definition w_buf : Parser := mkParser (mkR ex_small 4 [] [] []) (repeat 7 1024) 0 0 4 0.
Example inv_buffer_contents_needed_refuted :
  r_data (g_r w_buf) = ex_small /\ zlen (g_buf w_buf) = BSZ /\ 0 <= g_pos w_buf <= g_used w_buf /\
  g_used w_buf <= zlen (g_buf w_buf) /\ 0 <= g_from w_buf <= PMAX /\
  r_pos (g_r w_buf) = g_from w_buf + g_used w_buf /\
  firstn (Z.to_nat (g_used w_buf)) (g_buf w_buf) <> sub ex_small (Z.to_nat (g_from w_buf)) (Z.to_nat (g_used w_buf)) /\
  refutes ex_small w_buf OU8.
Proof. vm_compute. repeat split; try reflexivity; try discriminate; auto. Qed.

(* the reader stands at from+used *)
Definition w_up : Parser := mkParser (mkR ex_small 10 [] [] []) ex_buf 0 4 4 0.
Example inv_reader_position_needed_refuted :
  r_data (g_r w_up) = ex_small /\ zlen (g_buf w_up) = BSZ /\ 0 <= g_pos w_up <= g_used w_up /\
  g_used w_up <= zlen (g_buf w_up) /\ 0 <= g_from w_up <= PMAX /\
  firstn (Z.to_nat (g_used w_up)) (g_buf w_up) = sub ex_small (Z.to_nat (g_from w_up)) (Z.to_nat (g_used w_up)) /\
  r_pos (g_r w_up) <> g_from w_up + g_used w_up /\ refutes ex_small w_up OU8.
Proof. vm_compute. repeat split; try reflexivity; try discriminate; auto. Qed.

(* the reader reads the input *)
Definition w_data : Parser := mkParser (mkR (repeat 9 40) 0 [] [] []) [] 0 0 0 0.
Example inv_reader_input_needed_refuted :
  zlen (g_buf w_data) = 0 /\ 0 <= g_pos w_data <= g_used w_data /\
  g_used w_data <= zlen (g_buf w_data) /\ 0 <= g_from w_data <= PMAX /\
  firstn (Z.to_nat (g_used w_data)) (g_buf w_data) = sub ex_small (Z.to_nat (g_from w_data)) (Z.to_nat (g_used w_data)) /\
  r_pos (g_r w_data) = g_from w_data + g_used w_data /\
  r_data (g_r w_data) <> ex_small /\ refutes ex_small w_data OU8.
Proof. vm_compute. repeat split; try reflexivity; try discriminate; auto. Qed.

(* New does not seek: a reader that does not stand at offset 0 is read from
   where it stands while Pos() says 0 (the callers in /repo hand over fresh
   section readers) *)
Example new_reader_not_at_zero_refuted :
  match gen_new 50 (mk_reader ex_small 3 [] []) with
  | Some st0 => gen_pos st0 = 0 /\ fst (gen_step 50 st0 GU8) = GVal 3 /\
                view1 ex_small st0 OU8 = Some (RVal 0)
  | None => False
  end.
Proof. vm_compute. repeat split; reflexivity. Qed.

(* positions beyond int64: Discard wraps around, Seek refuses the negative
   offset, the view would have moved on *)
Definition w_far : Parser :=
  mkParser (mkR ex_small 9223372036854775800 [] [] []) [] 9223372036854775800 0 0 0.
Example position_range_needed_refuted :
  fst (gen_step 50 w_far (GDiscard 100)) = GErr (EOther 1) /\
  fst (v_step BS (toN ex_small) 0 (ODiscard 100)) = RDone.
Proof. vm_compute. split; reflexivity. Qed.

(* ---------------- wrong variants do not refine the view ---------------- *)

Definition run2 (f : nat -> Parser -> mres Parser (Z * gerr)) (st : Parser) : list gobs :=
  let '(o1, st1) := of_val st (f 50%nat st) in
  let '(o2, _) := of_val st1 (f 50%nat st1) in [o1; o2].

(* the code as found: 3 bytes arrive together with an error; the retry returns
   the byte at offset 3 as the byte at offset 0 (finding
   c17-readbytes-drops-bytes-delivered-with-error, repaired) *)
Example readbytes_as_found_refuted :
  match gen_new 50 (mk_reader ex_small 0 [BFail 3 7] []) with
  | Some st0 =>
      run2 (ReadUint8_over AsFound_ReadBytes) st0 = [GErr (EOther 7); GVal 3] /\
      run2 Parser_ReadUint8 st0 = [GErr (EOther 7); GVal 0] /\
      fst (v_step BS (toN ex_small) 0 OU8) = RVal 0
  | None => False
  end.
Proof. vm_compute. repeat split; reflexivity. Qed.

(* bytes delivered together with io.EOF are dropped: a 3-byte input whose
   reader reports EOF with the data can not be read at all *)
Example readbytes_drops_eof_data_refuted :
  match gen_new 50 (mk_reader [10; 20; 30] 0 [BShort 1024 true] []) with
  | Some st0 =>
      run2 (ReadUint8_over Drop_ReadBytes) st0 = [GErr EUnexpectedEOF; GErr EUnexpectedEOF] /\
      run2 Parser_ReadUint8 st0 = [GVal 10; GVal 20] /\
      legal_script [BShort 1024 true] /\
      fst (v_step BS (toN [10; 20; 30]) 0 OU8) = RVal 10
  | None => False
  end.
Proof. vm_compute. repeat split; try reflexivity. repeat constructor. Qed.

(* the 16-bit read at the last buffered byte: the refill overwrites the high
   byte the first slice still points to *)
Definition w_alias_data : list Z := map (fun i => (Z.of_nat i / 256 + Z.of_nat i) mod 256) (seq 0 2100).
Example readuint16_alias_refuted :
  match gen_new 50 (mk_reader w_alias_data 0 [] []) with
  | Some st0 =>
      let st1 := snd (gen_step 50 (snd (gen_step 50 st0 GU8)) (GSeek 1023)) in
      g_used st1 - g_pos st1 = 1 /\
      of_val st1 (Alias_ReadUint16 50 st1) <> of_val st1 (Parser_ReadUint16 50 st1) /\
      fst (of_val st1 (Parser_ReadUint16 50 st1)) = GVal 516 /\
      fst (of_val st1 (Alias_ReadUint16 50 st1)) = GVal 1540 /\
      fst (v_step BS (toN w_alias_data) 1023 OU16) = RVal 516
  | None => False
  end.
Proof. vm_compute. repeat split; try reflexivity; try discriminate. Qed.
