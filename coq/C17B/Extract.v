From Coq Require Import Extraction ExtrOcamlBasic.
From Common Require Import Conv.
From Gen Require Import Consts C17B.
From C17B Require Import Model.
Extraction "c17b_model.ml" conv_anchor run_generated.
