(* C01/Str.v — byte strings (list N) as used by the font-level glue:
   strings.Contains, strings.Join, strings.ReplaceAll for one fixed pattern,
   decimal printing (%d, %.03f of a 16.16 number) and the parsers
   head.VersionFromString, os2.WeightFromString.  Executable definitions only. *)
From Coq Require Import List NArith ZArith Bool.
Import ListNotations.
Local Open Scope N_scope.

Definition str := list N.

Fixpoint str_eqb (a b : str) : bool :=
  match a, b with
  | [], [] => true
  | x :: a', y :: b' => (x =? y) && str_eqb a' b'
  | _, _ => false
  end.

(* strings.HasPrefix(s, p) *)
Fixpoint prefixb (p s : str) : bool :=
  match p, s with
  | [], _ => true
  | x :: p', y :: s' => (x =? y) && prefixb p' s'
  | _ :: _, [] => false
  end.

(* strings.Contains(s, p) *)
Fixpoint contains (p s : str) : bool :=
  prefixb p s || match s with [] => false | _ :: s' => contains p s' end.

(* strings.Join(words, " ") *)
Fixpoint join_sp (ws : list str) : str :=
  match ws with
  | [] => []
  | [w] => w
  | w :: ws' => w ++ 32 :: join_sp ws'
  end.

(* ASCII literals used by font.go / read.go / write.go *)
Definition s_Regular : str := [82;101;103;117;108;97;114].
Definition s_Bold : str := [66;111;108;100].
Definition s_Italic : str := [73;116;97;108;105;99].
Definition s_Oblique : str := [79;98;108;105;113;117;101].
Definition s_SemiBold : str := [83;101;109;105;32;66;111;108;100].
Definition s_ExtraBold : str := [69;120;116;114;97;32;66;111;108;100].
Definition s_Version_sp : str := [86;101;114;115;105;111;110;32].   (* "Version " *)
Definition s_semi_sp : str := [59;32].                                (* "; " *)
Definition s_Width_lp : str := [87;105;100;116;104;40].               (* "Width(" *)

(* strings.ReplaceAll(s, "©", "(c)"): U+00A9 is C2 A9 in UTF-8 *)
Fixpoint replace_copyright (s : str) : str :=
  match s with
  | 194 :: 169 :: s' => 40 :: 99 :: 41 :: replace_copyright s'
  | c :: s' => c :: replace_copyright s'
  | [] => []
  end.

(* PostScriptName: the regexp [^!-$&-'*-.0-;=?-Z\\^-z|~]+ removes every
   character outside the listed set; on bytes: keep exactly the listed ASCII *)
Definition ps_keep (c : N) : bool :=
  ((33 <=? c) && (c <=? 36)) || ((38 <=? c) && (c <=? 39)) || ((42 <=? c) && (c <=? 46)) ||
  ((48 <=? c) && (c <=? 59)) || (c =? 61) || ((63 <=? c) && (c <=? 90)) || (c =? 92) ||
  ((94 <=? c) && (c <=? 122)) || (c =? 124) || (c =? 126).
Definition ps_filter (s : str) : str := filter ps_keep s.

(* ---- decimal digits ---- *)
Definition is_digit (c : N) : bool := (48 <=? c) && (c <=? 57).

(* little-endian decimal digits; fuel = an upper bound of the digit count *)
Fixpoint digits_le (fuel : nat) (n : N) : str :=
  match fuel with
  | O => []
  | S f => (48 + n mod 10) :: (if n / 10 =? 0 then [] else digits_le f (n / 10))
  end.

(* fmt "%d" of a non-negative number *)
Definition print_dec (n : N) : str := rev (digits_le (S (N.to_nat (N.log2 n))) n).

(* the maximal run of leading digits and the rest *)
Fixpoint span_digits (s : str) : str * str :=
  match s with
  | c :: s' => if is_digit c then let (d, r) := span_digits s' in (c :: d, r) else ([], s)
  | [] => ([], [])
  end.

(* value of a digit string (most significant first) *)
Definition dec_value (d : str) : N := fold_left (fun acc c => acc * 10 + (c - 48)) d 0.

(* ---- head.Version (16.16) <-> "%.03f" ---- *)

(* number of thousandths printed by fmt.Sprintf("%.03f", float64(v)/65536):
   v/65536 is exact in binary64; the formatter rounds the exact value to
   nearest, ties to even *)
Definition ver_to_milli (v : N) : N :=
  let q := (v * 1000) / 65536 in
  let r := (v * 1000) mod 65536 in
  if r <? 32768 then q
  else if 32768 <? r then q + 1
  else if N.even q then q else q + 1.

Definition pad3 (f : N) : str := [48 + f / 100; 48 + (f / 10) mod 10; 48 + f mod 10].

(* Version.String() *)
Definition print_milli (k : N) : str := print_dec (k / 1000) ++ 46 :: pad3 (k mod 1000).
Definition version_string (v : N) : str := print_milli (ver_to_milli v).

(* Version(ver*65536 + 0.5) for ver = m / 10^b (exact rational arithmetic;
   conversion of an out-of-range float to uint32 is taken modulo 2^32, which
   is what the amd64 and arm64 compilers produce below 2^63) *)
Definition ver_of_decimal (m : N) (b : nat) : N :=
  let p := 10 ^ (N.of_nat b) in
  ((m * 131072 + p) / (2 * p)) mod 4294967296.

(* head.VersionFromString: regexp ^(?:Version )?(\d+\.?\d+), leftmost-first
   semantics; None = errInvalidVersion *)
Definition version_from_string (s : str) : option N :=
  let s1 := if prefixb s_Version_sp s then skipn 8 s else s in
  let (d1, r1) := span_digits s1 in
  match d1 with
  | [] => None
  | _ =>
    let plain := match d1 with _ :: _ :: _ => Some (ver_of_decimal (dec_value d1) 0) | _ => None end in
    match r1 with
    | 46 :: r2 =>
      let (d2, _) := span_digits r2 in
      match d2 with
      | [] => plain
      | _ => Some (ver_of_decimal (dec_value (d1 ++ d2)) (length d2))
      end
    | _ => plain
    end
  end.

(* Version.Round(): math.RoundToEven(float64(v)/65536*1000)/1000, then
   math.Round(x*65536) — the thousandths the string representation shows
   (v/65536*1000 is exact in binary64), converted back *)
Definition ver_round (v : N) : N :=
  let k := ver_to_milli v in
  ((k * 131072 + 1000) / 2000) mod 4294967296.

(* ---- os2.Weight / os2.Width names ---- *)
Definition weight_names : list (N * str) :=
  [ (100, [84;104;105;110]);
    (200, [69;120;116;114;97;32;76;105;103;104;116]);
    (300, [76;105;103;104;116]);
    (400, [78;111;114;109;97;108]);
    (500, [77;101;100;105;117;109]);
    (600, s_SemiBold);
    (700, s_Bold);
    (800, s_ExtraBold);
    (900, [66;108;97;99;107]) ].

Definition width_names : list (N * str) :=
  [ (1, [85;108;116;114;97;32;67;111;110;100;101;110;115;101;100]);
    (2, [69;120;116;114;97;32;67;111;110;100;101;110;115;101;100]);
    (3, [67;111;110;100;101;110;115;101;100]);
    (4, [83;101;109;105;32;67;111;110;100;101;110;115;101;100]);
    (5, [78;111;114;109;97;108]);
    (6, [83;101;109;105;32;69;120;112;97;110;100;101;100]);
    (7, [69;120;112;97;110;100;101;100]);
    (8, [69;120;116;114;97;32;69;120;112;97;110;100;101;100]);
    (9, [85;108;116;114;97;32;69;120;112;97;110;100;101;100]) ].

Fixpoint assoc_n (k : N) (l : list (N * str)) : option str :=
  match l with
  | [] => None
  | (k', v) :: l' => if k =? k' then Some v else assoc_n k l'
  end.

(* Weight.String() *)
Definition weight_string (w : N) : str :=
  match assoc_n w weight_names with Some s => s | None => print_dec w end.

(* Weight.Rounded() on uint16 (w+50 wraps modulo 2^16 only above 65485, but
   those values are caught by w >= 900 first) *)
Definition weight_rounded (w : N) : N :=
  if w <=? 100 then 100 else if 900 <=? w then 900 else (w + 50) / 100 * 100.

Definition weight_simple_string (w : N) : str := weight_string (weight_rounded w).

(* Width.String() *)
Definition width_string (w : N) : str :=
  match assoc_n w width_names with Some s => s | None => s_Width_lp ++ print_dec w ++ [41] end.

(* os2.WeightFromString *)
Definition s_Regular_w : str := s_Regular.
Definition weight_from_string (s : str) : N :=
  if str_eqb s [84;104;105;110] then 100
  else if str_eqb s [69;120;116;114;97;32;76;105;103;104;116] then 200
  else if str_eqb s [76;105;103;104;116] then 300
  else if str_eqb s [78;111;114;109;97;108] || str_eqb s s_Regular then 400
  else if str_eqb s [77;101;100;105;117;109] then 500
  else if str_eqb s s_SemiBold then 600
  else if str_eqb s s_Bold then 700
  else if str_eqb s s_ExtraBold then 800
  else if str_eqb s [66;108;97;99;107] then 900
  else
    (* strconv.Atoi: optional sign, digits only; errors and values outside
       0..1000 give 0 *)
    let body := match s with 43 :: t => t | _ => s end in
    let (d, r) := span_digits body in
    match d, r with
    | _ :: _, [] => let x := dec_value d in if x <=? 1000 then x else 0
    | _, _ => 0
    end.
