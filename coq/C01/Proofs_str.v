(* C01/Proofs_str.v — lemmas about the string functions of Str.v. *)
From Coq Require Import List NArith ZArith Bool Lia.
From Coq Require Import ZifyBool ZifyNat ZifyN.
From C01 Require Import Str.
Import ListNotations.
Ltac Zify.zify_post_hook ::= Z.div_mod_to_equations.
Local Open Scope N_scope.

(* ---------- prefixes and substrings ---------- *)

Lemma prefixb_app p s : prefixb p (p ++ s) = true.
Proof.
  induction p as [|x p IH]; cbn [prefixb app]; [reflexivity|].
  rewrite N.eqb_refl, IH. reflexivity.
Qed.

Lemma skipn_app_len {A} (p s : list A) : skipn (length p) (p ++ s) = s.
Proof. induction p; cbn; auto. Qed.

(* a prefix without the needle's first character cannot start a match *)
Lemma contains_app_nofirst c p a b :
  Forall (fun x => x <> c) a -> contains (c :: p) (a ++ b) = contains (c :: p) b.
Proof.
  intros Ha. induction Ha as [|x a Hx Ha IH]; [reflexivity|].
  cbn [app]. change (contains (c :: p) (x :: a ++ b))
    with (prefixb (c :: p) (x :: a ++ b) || contains (c :: p) (a ++ b)).
  rewrite IH. cbn [prefixb].
  assert (E : (c =? x) = false) by (apply N.eqb_neq; congruence).
  rewrite E. reflexivity.
Qed.

Lemma contains_nil_needle_cons c p : contains (c :: p) [] = false.
Proof. reflexivity. Qed.

(* ---------- decimal digits ---------- *)

Lemma digits_le_digit fuel n : Forall (fun c => 48 <= c <= 57) (digits_le fuel n).
Proof.
  revert n. induction fuel as [|f IH]; intros n; cbn [digits_le]; [constructor|].
  constructor.
  - pose proof (N.mod_lt n 10). lia.
  - destruct (n / 10 =? 0); [constructor|apply IH].
Qed.

Lemma digits_le_nonempty fuel n : digits_le (S fuel) n <> [].
Proof. cbn [digits_le]. discriminate. Qed.

Definition le_value (l : str) : N := fold_right (fun c acc => (c - 48) + 10 * acc) 0 l.

Lemma digits_le_value fuel n : n < 10 ^ N.of_nat fuel -> le_value (digits_le fuel n) = n.
Proof.
  revert n. induction fuel as [|f IH]; intros n Hn.
  - cbn in Hn. assert (n = 0) by lia. subst. reflexivity.
  - cbn [digits_le le_value fold_right].
    destruct (n / 10 =? 0) eqn:E.
    + apply N.eqb_eq in E. cbn [fold_right]. lia.
    + fold (le_value (digits_le f (n / 10))). rewrite IH.
      * lia.
      * rewrite Nat2N.inj_succ, N.pow_succ_r' in Hn. lia.
Qed.

Lemma dec_value_rev l : dec_value (rev l) = le_value l.
Proof.
  unfold dec_value, le_value. rewrite <- fold_left_rev_right, rev_involutive.
  induction l as [|c l IH]; cbn [fold_right]; [reflexivity|]. rewrite IH. lia.
Qed.

Lemma pow2_le_pow10 k : 2 ^ k <= 10 ^ k.
Proof. apply N.pow_le_mono_l. lia. Qed.

Lemma print_dec_value n : dec_value (print_dec n) = n.
Proof.
  unfold print_dec. rewrite dec_value_rev. apply digits_le_value.
  rewrite Nat2N.inj_succ, N2Nat.id.
  destruct (N.eq_dec n 0) as [->|Hn]; [cbn; lia|].
  pose proof (N.log2_spec n ltac:(lia)) as [_ H].
  eapply N.lt_le_trans; [exact H|]. apply pow2_le_pow10.
Qed.

Lemma print_dec_digits n : Forall (fun c => 48 <= c <= 57) (print_dec n).
Proof.
  unfold print_dec. apply Forall_rev. apply digits_le_digit.
Qed.

Lemma print_dec_nonempty n : print_dec n <> [].
Proof.
  unfold print_dec. intros H. apply (f_equal (@rev N)) in H. rewrite rev_involutive in H.
  cbn [rev] in H. eapply digits_le_nonempty; exact H.
Qed.

Lemma is_digit_iff c : is_digit c = true <-> 48 <= c <= 57.
Proof. unfold is_digit. lia. Qed.

(* the leading digit run ends where a non-digit starts *)
Lemma span_digits_app d r :
  Forall (fun c => 48 <= c <= 57) d ->
  match r with [] => True | c :: _ => is_digit c = false end ->
  span_digits (d ++ r) = (d, r).
Proof.
  intros Hd Hr. induction Hd as [|c d Hc Hd IH].
  - cbn [app]. destruct r as [|c r]; [reflexivity|]. cbn [span_digits]. rewrite Hr. reflexivity.
  - cbn [app span_digits]. apply is_digit_iff in Hc. rewrite Hc, IH. reflexivity.
Qed.

Lemma dec_value_app a b : dec_value (a ++ b) = fold_left (fun acc c => acc * 10 + (c - 48)) b (dec_value a).
Proof. unfold dec_value. apply fold_left_app. Qed.

(* ---------- Version: print, then parse ---------- *)

Lemma pad3_digits f : f < 1000 -> Forall (fun c => 48 <= c <= 57) (pad3 f).
Proof.
  intros Hf. unfold pad3. repeat constructor; lia.
Qed.

Lemma dec_value_pad3 i f : f < 1000 ->
  dec_value (print_dec i ++ pad3 f) = i * 1000 + f.
Proof.
  intros Hf. rewrite dec_value_app, print_dec_value. unfold pad3. cbn [fold_left]. lia.
Qed.

Lemma version_from_string_print k :
  version_from_string (s_Version_sp ++ print_milli k) = Some (ver_of_decimal k 3).
Proof.
  unfold version_from_string. rewrite prefixb_app.
  change 8%nat with (length s_Version_sp). rewrite skipn_app_len.
  unfold print_milli.
  assert (Hf : k mod 1000 < 1000) by (apply N.mod_lt; lia).
  rewrite (span_digits_app (print_dec (k / 1000)) (46 :: pad3 (k mod 1000)));
    [|apply print_dec_digits|reflexivity].
  destruct (print_dec (k / 1000)) as [|c0 d0] eqn:Ed; [exfalso; eapply print_dec_nonempty; exact Ed|].
  rewrite <- Ed.
  replace (pad3 (k mod 1000)) with (pad3 (k mod 1000) ++ []) by apply app_nil_r.
  rewrite (span_digits_app (pad3 (k mod 1000)) []); [|apply pad3_digits; exact Hf|exact I].
  rewrite dec_value_pad3 by exact Hf.
  replace (k / 1000 * 1000 + k mod 1000) with k by lia.
  reflexivity.
Qed.

(* without the "Version " prefix (CFF top DICT) *)
Lemma version_from_string_print_plain k :
  version_from_string (print_milli k) = Some (ver_of_decimal k 3).
Proof.
  unfold version_from_string.
  assert (Hp : prefixb s_Version_sp (print_milli k) = false).
  { unfold print_milli. pose proof (print_dec_digits (k / 1000)) as Hd.
    destruct (print_dec (k / 1000)) as [|c d] eqn:Ed; [exfalso; eapply print_dec_nonempty; exact Ed|].
    inversion Hd as [|? ? Hc _]; subst. cbn [app s_Version_sp prefixb].
    assert (E : (86 =? c) = false) by lia. rewrite E. reflexivity. }
  rewrite Hp. unfold print_milli.
  assert (Hf : k mod 1000 < 1000) by (apply N.mod_lt; lia).
  rewrite (span_digits_app (print_dec (k / 1000)) (46 :: pad3 (k mod 1000)));
    [|apply print_dec_digits|reflexivity].
  destruct (print_dec (k / 1000)) as [|c0 d0] eqn:Ed; [exfalso; eapply print_dec_nonempty; exact Ed|].
  rewrite <- Ed.
  replace (pad3 (k mod 1000)) with (pad3 (k mod 1000) ++ []) by apply app_nil_r.
  rewrite (span_digits_app (pad3 (k mod 1000)) []); [|apply pad3_digits; exact Hf|exact I].
  rewrite dec_value_pad3 by exact Hf.
  replace (k / 1000 * 1000 + k mod 1000) with k by lia.
  reflexivity.
Qed.

(* arithmetic of the 16.16 <-> thousandths conversions *)
Lemma ver_of_decimal_3 k : k < 65536000 -> ver_of_decimal k 3 = (k * 131072 + 1000) / 2000.
Proof.
  intros Hk. unfold ver_of_decimal. change (10 ^ N.of_nat 3) with 1000.
  change (2 * 1000) with 2000. apply N.mod_small. lia.
Qed.

(* thousandths survive: printing what was parsed gives the same thousandths *)
Lemma ver_to_milli_of_decimal k : k < 65536000 -> ver_to_milli (ver_of_decimal k 3) = k.
Proof.
  intros Hk. rewrite ver_of_decimal_3 by exact Hk. unfold ver_to_milli.
  set (v := (k * 131072 + 1000) / 2000).
  assert (H1 : 2000 * v <= k * 131072 + 1000 < 2000 * v + 2000) by (unfold v; lia).
  (* v*1000 = 65536*k + e with -32.768e3 < ... *)
  assert (Hq : (v * 1000) / 65536 = k \/ (v * 1000) / 65536 + 1 = k) by lia.
  destruct (v * 1000 mod 65536 <? 32768) eqn:E1.
  - lia.
  - destruct (32768 <? v * 1000 mod 65536) eqn:E2.
    + lia.
    + exfalso. lia.
Qed.

Lemma ver_round_as_decimal x : ver_round x = ver_of_decimal (ver_to_milli x) 3.
Proof. reflexivity. Qed.

Lemma ver_round_of_decimal k : k < 65536000 -> ver_round (ver_of_decimal k 3) = ver_of_decimal k 3.
Proof.
  intros Hk. rewrite ver_round_as_decimal, ver_to_milli_of_decimal by exact Hk. reflexivity.
Qed.

Lemma ver_to_milli_bound v : v < 4294967296 -> ver_to_milli v <= 65536000.
Proof. intros Hv. unfold ver_to_milli. destruct (_ <? _); [lia|]. destruct (_ <? _); [lia|]. destruct (N.even _); lia. Qed.
