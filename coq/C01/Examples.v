From Coq Require Import List NArith ZArith Bool.
From C01 Require Import Str Model.
