(* C01/Examples.v — non-vacuity: concrete, non-trivial fonts meeting every
   hypothesis of every theorem of Props.v, evaluated; and the witnesses of the
   statements that are false of the faithful model (the recorded findings). *)
From Coq Require Import List NArith ZArith Bool.
From Common Require Import Outcome.
From Gen Require C01.
From C01 Require Import Str Model Spec Model2.
Import ListNotations.
Local Open Scope Z_scope.

Definition S (l : list Z) : str := map Z.to_N l.
Definition ex_outl_cff : outl :=
  mkOutl true 77 3 [0; 712; 480] (Some [500; 600; 0]) None None.
Definition ex_outl_glyf : outl :=
  mkOutl false 78 3 [0; 1480; 1086] (Some [1536; 1479; 1139]) (Some 5%N) (Some 6%N).
Definition ex_cmap : cmapv := mkCmap 9 true 1 2 (Some 11%N).

(* a deliberately inconsistent value: REGULAR together with bold, slanted but
   not italic, weight class 650 (rounds to Bold), version 0x0001028F, a
   negative cap height, fractional underline, no GSUB *)
Definition ex_font : font :=
  mkFont (S [70;111;111]) 3 650 true true false false true true 1 66191 (Some 1700000000) None
    (S [100]) [] (S [194;169;32;88]) [] [] [] 7 1000 800 (-200) 90 (-5) 0 (-786432) (-6586368) 3309568
    ex_outl_cff (Some ex_cmap) None None (Some 4%N).

(* tables of a file whose OS/2 weight class is 700 without any bold flag *)
Definition ex_tables_weight700 : tables :=
  mkTables false
    (Some (mkHead 65536 1000 (Some 1700000000) (Some 1700000000) false false))
    (Some (mkHmtx 800 (-200) 100 0 (Some [1536; 1479; 1139])))
    (Some (3%N, Some 6%N))
    (Some (mkOs2 700 5 false false false false 800 (-200) 100 700 500 0 1 0))
    (Some ex_cmap)
    (Some (mkNames (Some (mkName (S [84;101;115;116]) (S [72;101;97;118;121]) [] [] [] [] [] [] None [] (S [86;101;114;115;105;111;110;32;49;46;48;48;48]) [] [])) 3 None 0))
    (Some (mkPost 0 (-100) 50 false None))
    None
    (mkOutl false 78 3 [0; 1480; 1086] None None None)
    None (Some 2%N) None None.

Example ex_in_range : in_range ex_font = true /\ has_timestamp ex_font = true.
Proof. vm_compute. split; reflexivity. Qed.

Example ex_not_canonical : canonical ex_font = false.
Proof. vm_compute. reflexivity. Qed.

(* the cycle changes this font (so read_write_normal_form is not an identity
   statement) and reaches the normal form *)
Example ex_cycle :
  exists t, M_cycle ex_font = Ok (t, normalize ex_font) /\ normalize ex_font <> ex_font
            /\ f_bold (normalize ex_font) = true /\ f_regular (normalize ex_font) = false
            /\ f_italic (normalize ex_font) = true /\ f_script (normalize ex_font) = false
            /\ f_cap (normalize ex_font) = 712 /\ f_gsub (normalize ex_font) = Some 11%N
            /\ f_perm (normalize ex_font) = 0 /\ f_version (normalize ex_font) = 66191%N.
Proof.
  exists (match M_cycle ex_font with Ok (t, _) => t | _ => ex_tables_weight700 end).
  vm_compute. repeat split; try reflexivity. discriminate.
Qed.

Example ex_subfamily :
  subfamily ex_font = S [67;111;110;100;101;110;115;101;100;32;66;111;108;100]   (* "Condensed Bold" *)
  /\ n_version (M_write_name ex_font) = S [86;101;114;115;105;111;110;32;49;46;48;49;48]. (* "Version 1.010" *)
Proof. vm_compute. split; reflexivity. Qed.

(* a canonical TrueType font *)
Definition ex_canonical : font :=
  mkFont (S [84;101;115;116]) 5 700 false true true false false true 3 131072 (Some 0) (Some 1700000000)
    [] [] [] [] [] [] 2 2048 1900 (-500) 0 1480 1086 (-720896) (-6553600) 3276800
    ex_outl_glyf (Some ex_cmap) (Some 1%N) (Some 2%N) None.

Example ex_canonical_ok : in_range ex_canonical = true /\ canonical ex_canonical = true.
Proof. vm_compute. split; reflexivity. Qed.

Example ex_canonical_cycle : exists t, M_cycle ex_canonical = Ok (t, ex_canonical).
Proof.
  exists (match M_cycle ex_canonical with Ok (t, _) => t | _ => ex_tables_weight700 end).
  vm_compute. reflexivity.
Qed.

(* ---- recorded findings: witnesses ---- *)

Example merge_result_normal_refuted :
  exists f0, M_read_merge ex_tables_weight700 = Ok f0 /\ tables_decoded ex_tables_weight700 = true
             /\ underline_settled f0 = true /\ in_range f0 = true
             /\ f_bold f0 = false /\ f_bold (normalize f0) = true.
Proof.
  exists (match M_read_merge ex_tables_weight700 with Ok f => f | _ => ex_font end).
  vm_compute. repeat split; reflexivity.
Qed.

(* tables of a CFF file without a post table whose top DICT has
   UnderlinePosition 1.5 *)
Definition ex_tables_cff_underline : tables :=
  mkTables true
    (Some (mkHead 65536 1000 (Some 1700000000) (Some 1700000000) false false))
    (Some (mkHmtx 800 (-200) 100 0 (Some [500; 600; 0])))
    (Some (3%N, None))
    (Some (mkOs2 400 5 false false true false 800 (-200) 100 700 500 0 1 0))
    (Some ex_cmap)
    (Some (mkNames (Some (mkName (S [84;101;115;116]) (S [82;101;103;117;108;97;114]) [] [] [] [] [] [] None [] (S [86;101;114;115;105;111;110;32;49;46;48;48;48]) [] [])) 3 None 0))
    None
    (Some (mkCffInfo [] [] (S [84;101;115;116]) [] [] [] [] 0 98304 (-65536) false false 1000))
    ex_outl_cff None (Some 2%N) None None.

Example underline_refuted :
  exists f0, M_read_merge ex_tables_cff_underline = Ok f0 /\ tables_decoded ex_tables_cff_underline = true
             /\ bold_settled f0 = true /\ in_range f0 = true
             /\ f_upos f0 = 98304 /\ f_upos (normalize f0) = 131072.
Proof.
  exists (match M_read_merge ex_tables_cff_underline with Ok f => f | _ => ex_font end).
  vm_compute. repeat split; reflexivity.
Qed.

(* a timestamp at the origin of the head clock does not come back *)
Example timestamp_1904_refuted :
  let f := mkFont (S [84]) 5 400 true false false false false false 0 65536 None (Some (-2082844800))
             [] [] [] [] [] [] 0 1000 800 (-200) 0 700 500 0 0 0 ex_outl_glyf None None (Some 1%N) None in
  in_range f = true /\ has_timestamp f = true /\
  exists t f1, M_cycle f = Ok (t, f1) /\ f_mtime f1 = None.
Proof.
  cbv zeta. split; [vm_compute; reflexivity|]. split; [vm_compute; reflexivity|].
  match goal with |- exists t f1, M_cycle ?f = _ /\ _ =>
    exists (match M_cycle f with Ok (t, _) => t | _ => ex_tables_weight700 end);
    exists (match M_cycle f with Ok (_, f1) => f1 | _ => ex_font end) end.
  vm_compute. split; reflexivity.
Qed.

(* outside C01 (name.Info with more than one language, property C14): the
   string storage of the name table does follow the map iteration order *)
Example name_storage_follows_iteration_order :
  let mac : ntables := [(S [100;101], [(1%N, S [65])]); (S [102;114], [(1%N, S [66])])] in
  let o1 := [(2%N, S [100;101]); (1%N, S [102;114])] in
  let o2 := [(1%N, S [102;114]); (2%N, S [100;101])] in
  snd (M_name_encode (fun s => s) (fun s => s) o1 [] 1 mac []) <>
  snd (M_name_encode (fun s => s) (fun s => s) o2 [] 1 mac []).
Proof. vm_compute. discriminate. Qed.

(* the table map: an iteration order and its reverse *)
Example ex_table_map :
  let d := mkWdata false 1 (Some 2%N) (Some 3%N) 4 5 6 7 8 9 10 None (Some 11%N) None in
  let e1 := [(1668707360, 20); (1718642541, 21); (1886545264, 22)]%N in
  forallb (fun tag => match tm_get tag (M_table_map d e1), tm_get tag (M_table_map d (rev e1)) with
                      | Some a, Some b => (a =? b)%N | None, None => true | _, _ => false end)
          [tag_head; tag_glyf; 1668707360; 1718642541; 1886545264; tag_CFF]%N = true.
Proof. vm_compute. reflexivity. Qed.
