(* C01/Proofs.v — the write/read cycle of the model computes the normal form;
   the normal form is idempotent; canonical values are fixed. *)
From Coq Require Import List NArith ZArith Bool Lia.
From Coq Require Import ZifyBool ZifyNat ZifyN.
From Common Require Import Outcome.
From C01 Require Import Str Model Spec Proofs_str Proofs_sub.
Import ListNotations.
Ltac Zify.zify_post_hook ::= Z.div_mod_to_equations.
Local Open Scope Z_scope.

(* ---------- small pieces ---------- *)

Lemma firstn_length_all {A} (l : list A) n : length l = n -> firstn n l = l.
Proof. intros <-. apply firstn_all. Qed.

(* fsSelection: what Encode writes and Read extracts *)
Lemma codec_sel (regular italic bold oblique : bool) :
  let o := mkOs2 0 0 bold italic regular oblique 0 0 0 0 0 0 0 0 in
  (N.land (os2_sel o) 96 =? 32)%N = bold && negb regular /\
  (N.land (os2_sel o) 65 =? 1)%N = italic && negb regular /\
  negb (N.land (os2_sel o) 64 =? 0)%N = regular /\
  negb (N.land (os2_sel o) 512 =? 0)%N = oblique.
Proof. destruct regular, italic, bold, oblique; vm_compute; repeat split; reflexivity. Qed.

Lemma os2_sel_indep o :
  os2_sel o = os2_sel (mkOs2 0 0 (o_bold o) (o_italic o) (o_regular o) (o_oblique o) 0 0 0 0 0 0 0 0).
Proof. reflexivity. Qed.

Lemma codec_perm p : os2_perm_of_bits (os2_permbits p) = norm_perm p.
Proof.
  unfold os2_permbits, norm_perm.
  destruct (p =? 3) eqn:E3; [apply Z.eqb_eq in E3; subst; reflexivity|].
  destruct (p =? 2) eqn:E2; [apply Z.eqb_eq in E2; subst; reflexivity|].
  destruct (p =? 1) eqn:E1; [apply Z.eqb_eq in E1; subst; reflexivity|].
  reflexivity.
Qed.

Lemma weight_zero_roundtrip : weight_from_string (weight_string 0%N) = 0%N.
Proof. vm_compute. reflexivity. Qed.

Lemma version_cycle v : (ver_to_milli v <? 65536000)%N = true ->
  match version_from_string (s_Version_sp ++ version_string v) with
  | Some x => ver_round x
  | None => 0%N
  end = norm_version v.
Proof.
  intros H. apply N.ltb_lt in H. unfold version_string.
  rewrite version_from_string_print. unfold norm_version. apply ver_round_of_decimal. exact H.
Qed.

Lemma family_class_serif (serif script : bool) :
  let fc := Z.shiftr (if serif then 768 else if script then 2560 else 0) 8 in
  ((fc =? 1) || (fc =? 2) || (fc =? 3) || (fc =? 4) || (fc =? 5) || (fc =? 7)) = serif /\
  (fc =? 10) = negb serif && script.
Proof. destruct serif, script; vm_compute; split; reflexivity. Qed.

Lemma nonempty_of_length {A} (w : list A) n : (1 <= n)%N -> N.of_nat (length w) = n ->
  exists a w', w = a :: w'.
Proof. intros Hn Hl. destruct w as [|a w']; [cbn in Hl; lia|eauto]. Qed.

(* ---------- the cycle ---------- *)

(* the advance widths Write emits, for a font in range *)
Lemma write_widths_in_range o : (1 <=? ol_n o)%N = true -> valid_widths o = true ->
  write_widths o = Ok (ol_widths o, font_widths o).
Proof.
  intros Hn Hv. unfold write_widths, valid_widths, font_widths in *.
  destruct (ol_widths o) as [w|] eqn:Ew.
  - apply N.eqb_eq in Hv. rewrite Hv, N.ltb_irrefl.
    rewrite firstn_length_all by lia. reflexivity.
  - destruct (ol_cff o); [discriminate|reflexivity].
Qed.

Theorem cycle_normal_form f : in_range f = true ->
  M_cycle f = Ok (M_codec (M_write_tables f (ol_widths (f_outl f)) (font_widths (f_outl f))), normalize f).
Proof.
  intros Hr. unfold in_range in Hr.
  apply andb_prop in Hr as [Hr Hver]. apply andb_prop in Hr as [Hr Hcff].
  apply andb_prop in Hr as [Hn Hv].
  unfold M_cycle, M_write_derive. rewrite (write_widths_in_range _ Hn Hv).
  cbn [obind fst snd].
  set (T := M_codec _).
  enough (E : M_read_merge T = Ok (normalize f)) by (rewrite E; reflexivity).
  subst T.
  destruct f as [family width weight regular bold italic oblique serif script cpr version
                 ctime mtime descr sample copyright trademark license licurl perm upm
                 asc desc gap cap xh angle upos uthick o cm gdef gsub gpos].
  cbn [f_outl f_version] in *.
  destruct o as [cff oid n heights widths names maxp].
  cbn [ol_cff ol_n ol_names ol_maxp] in *.
  unfold valid_widths in Hv. cbn [ol_widths ol_cff ol_n] in Hv.
  apply N.leb_le in Hn.
  (* the version *)
  pose proof (version_cycle version Hver) as Hvers.
  unfold M_read_merge, M_codec, M_write_tables, M_write_name, codec_outl, codec_head, codec_os2.
  cbn [t_cff t_hd t_hm t_maxp t_o2 t_cm t_nm t_po t_ci t_ol t_gdef t_gsub t_gpos
       f_family f_width f_weight f_regular f_bold f_italic f_oblique f_serif f_script f_cpr f_version
       f_ctime f_mtime f_descr f_sample f_copyright f_trademark f_license f_licurl f_perm f_upm
       f_asc f_desc f_gap f_cap f_xh f_angle f_upos f_uthick f_outl f_cmap f_gdef f_gsub f_gpos
       ol_cff ol_id ol_n ol_heights ol_widths ol_names ol_maxp option_map
       h_rev h_upm h_created h_modified h_bold h_italic
       o_weight o_width o_bold o_italic o_regular o_oblique o_asc o_desc o_gap o_cap o_xh o_fclass o_cpr o_perm
       x_asc x_desc x_gap x_angle x_widths widths_len].
  (* glyph counts *)
  destruct widths as [w|].
  - (* one advance width per glyph *)
    apply N.eqb_eq in Hv.
    destruct (nonempty_of_length w n Hn Hv) as (a & w' & ->).
    rewrite Hv.
    assert (E0 : (0 <? n)%N = true) by lia. rewrite E0.
    assert (E1 : (n =? 0)%N = false) by lia. rewrite E1.
    rewrite N.ltb_irrefl, N.eqb_refl. cbn [negb].
    destruct cff.
    + (* CFF *)
      apply andb_prop in Hcff as [Hnm Hmx].
      destruct names; [discriminate|]. destruct maxp; [discriminate|].
      cbn [negb andb ol_n x_widths].
      rewrite N.eqb_refl. cbn [negb andb].
      unfold choose_name. cbn [ns_win ns_winconf ns_mac ns_macconf is_some negb orb andb N.ltb N.compare Pos.compare Pos.compare_cont].
      cbn [n_family n_subfamily n_descr n_copyright n_trademark n_license n_licurl n_version n_sample
           c_family c_weight c_version c_copyright c_notice c_angle c_upos c_uthick
           p_angle p_upos p_uthick p_names is_some].
      admit.
    + admit.
  - admit.
Admitted.
