(* C01/Proofs.v — the write/read cycle of the model computes the normal form;
   the normal form is idempotent; canonical values are fixed. *)
From Coq Require Import List NArith ZArith Bool Lia.
From Coq Require Import ZifyBool ZifyNat ZifyN.
From Common Require Import Outcome.
From C01 Require Import Str Model Spec Proofs_str Proofs_sub.
Import ListNotations.
Ltac Zify.zify_post_hook ::= Z.div_mod_to_equations.
Local Open Scope Z_scope.

(* ---------- small pieces ---------- *)

Lemma firstn_length_all {A} (l : list A) n : length l = n -> firstn n l = l.
Proof. intros <-. apply firstn_all. Qed.

(* fsSelection: what Encode writes and Read extracts *)
Lemma codec_sel (regular italic bold oblique : bool) :
  let o := mkOs2 0 0 bold italic regular oblique 0 0 0 0 0 0 0 0 in
  (N.land (os2_sel o) 96 =? 32)%N = bold && negb regular /\
  (N.land (os2_sel o) 65 =? 1)%N = italic && negb regular /\
  negb (N.land (os2_sel o) 64 =? 0)%N = regular /\
  negb (N.land (os2_sel o) 512 =? 0)%N = oblique.
Proof. destruct regular, italic, bold, oblique; vm_compute; repeat split; reflexivity. Qed.

Lemma os2_sel_indep o :
  os2_sel o = os2_sel (mkOs2 0 0 (o_bold o) (o_italic o) (o_regular o) (o_oblique o) 0 0 0 0 0 0 0 0).
Proof. reflexivity. Qed.

Lemma codec_perm p : os2_perm_of_bits (os2_permbits p) = norm_perm p.
Proof.
  unfold os2_permbits, norm_perm.
  destruct (p =? 3) eqn:E3; [apply Z.eqb_eq in E3; subst; reflexivity|].
  destruct (p =? 2) eqn:E2; [apply Z.eqb_eq in E2; subst; reflexivity|].
  destruct (p =? 1) eqn:E1; [apply Z.eqb_eq in E1; subst; reflexivity|].
  reflexivity.
Qed.

Lemma weight_zero_roundtrip : weight_from_string (weight_string 0%N) = 0%N.
Proof. vm_compute. reflexivity. Qed.

Lemma version_cycle v : (ver_to_milli v <? 65536000)%N = true ->
  match version_from_string (s_Version_sp ++ version_string v) with
  | Some x => ver_round x
  | None => 0%N
  end = norm_version v.
Proof.
  intros H. apply N.ltb_lt in H. unfold version_string.
  rewrite version_from_string_print. unfold norm_version. apply ver_round_of_decimal. exact H.
Qed.

Lemma family_class_serif (serif script : bool) :
  let fc := Z.shiftr (if serif then 768 else if script then 2560 else 0) 8 in
  ((fc =? 1) || (fc =? 2) || (fc =? 3) || (fc =? 4) || (fc =? 5) || (fc =? 7)) = serif /\
  (fc =? 10) = negb serif && script.
Proof. destruct serif, script; vm_compute; split; reflexivity. Qed.

Lemma nonempty_of_length {A} (w : list A) n : (1 <= n)%N -> N.of_nat (length w) = n ->
  exists a w', w = a :: w'.
Proof. intros Hn Hl. destruct w as [|a w']; [cbn in Hl; lia|eauto]. Qed.

(* ---------- the cycle ---------- *)

(* the advance widths Write emits, for a font in range *)
Lemma write_widths_in_range o : (1 <=? ol_n o)%N = true -> valid_widths o = true ->
  write_widths o = Ok (ol_widths o, font_widths o).
Proof.
  intros Hn Hv. unfold write_widths, valid_widths, font_widths in *.
  destruct (ol_widths o) as [w|] eqn:Ew.
  - apply N.eqb_eq in Hv. rewrite Hv, N.ltb_irrefl.
    rewrite firstn_length_all by lia. reflexivity.
  - destruct (ol_cff o); [discriminate|reflexivity].
Qed.

(* ---------- the merge rules on the tables Write produces ---------- *)

Section Cycle.
Variable f : font.
Variable hw : option (list Z).
Variable ws : list Z.
Let T := M_codec (M_write_tables f hw ws).

Lemma T_name : mg_name T = Some (M_write_name f).
Proof. reflexivity. Qed.

Lemma T_family : mg_family T = f_family f.
Proof.
  unfold mg_family. rewrite T_name. cbn [M_write_name n_family].
  destruct (str_empty (f_family f)) eqn:E; [|reflexivity].
  subst T. unfold M_codec, M_write_tables. cbn [t_ci].
  destruct (ol_cff (f_outl f)); reflexivity.
Qed.

Lemma T_weight : mg_weight T = f_weight f.
Proof.
  unfold mg_weight. subst T. unfold M_codec, M_write_tables, codec_os2.
  cbn [t_o2 t_ci option_map o_weight].
  destruct (f_weight f =? 0)%N eqn:E; [|reflexivity].
  apply N.eqb_eq in E. destruct (ol_cff (f_outl f)); [|reflexivity].
  cbn [c_weight]. rewrite E. exact weight_zero_roundtrip.
Qed.

Lemma T_version : (ver_to_milli (f_version f) <? 65536000)%N = true ->
  mg_version T = norm_version (f_version f).
Proof.
  intros H. unfold mg_version. rewrite T_name. cbn [M_write_name n_version].
  pose proof (version_cycle _ H) as E.
  destruct (version_from_string (s_Version_sp ++ version_string (f_version f))) eqn:D; [exact E|].
  (* unreachable: the printed version always parses *)
  exfalso. unfold version_string in D. rewrite version_from_string_print in D. discriminate.
Qed.

Lemma T_os2 : t_o2 T =
  Some (codec_os2 (mkOs2 (f_weight f) (f_width f) (f_bold f) (negb (f_angle f =? 0)) (f_regular f) (f_oblique f)
                 (f_asc f) (f_desc f) (f_gap f) (f_cap f) (f_xh f)
                 (if f_serif f then 768 else if f_script f then 2560 else 0) (f_cpr f) (f_perm f))).
Proof. reflexivity. Qed.

Lemma T_angle hm : mg_angle T hm = f_angle f.
Proof. reflexivity. Qed.

Lemma T_italic hm : mg_italic T hm = f_italic f || negb (f_angle f =? 0) || f_oblique f.
Proof.
  unfold mg_italic. rewrite T_angle, T_name, T_os2.
  cbn [M_write_name n_subfamily].
  change (contains s_Italic (subfamily f)) with (italic_test (subfamily f)).
  rewrite subfamily_italic_test.
  unfold codec_os2. cbn [o_italic o_oblique o_bold o_regular].
  rewrite os2_sel_indep. cbn [o_bold o_italic o_regular o_oblique].
  destruct (codec_sel (f_regular f) (negb (f_angle f =? 0)) (f_bold f) (f_oblique f)) as (_ & Hi & _ & Ho).
  cbv zeta in Hi, Ho. rewrite Hi, Ho.
  subst T. unfold M_codec, M_write_tables, codec_head. cbn [t_hd option_map h_italic].
  destruct (f_italic f), (negb (f_angle f =? 0)), (f_oblique f), (f_regular f); reflexivity.
Qed.

Lemma T_bold : mg_bold T = (f_bold f && negb (f_regular f)) || name_says_bold f.
Proof.
  unfold mg_bold. rewrite T_name, T_os2.
  cbn [M_write_name n_subfamily].
  change (contains s_Bold (subfamily f) && negb (contains s_SemiBold (subfamily f))
          && negb (contains s_ExtraBold (subfamily f))) with (bold_test (subfamily f)).
  rewrite subfamily_bold_test.
  unfold codec_os2. cbn [o_bold].
  rewrite os2_sel_indep. cbn [o_bold o_italic o_regular o_oblique].
  destruct (codec_sel (f_regular f) (negb (f_angle f =? 0)) (f_bold f) (f_oblique f)) as (Hb & _).
  cbv zeta in Hb. rewrite Hb. reflexivity.
Qed.

Lemma T_regular hm :
  mg_regular T hm =
  f_regular f && negb ((f_italic f || negb (f_angle f =? 0) || f_oblique f)
                       || ((f_bold f && negb (f_regular f)) || name_says_bold f)).
Proof.
  unfold mg_regular. rewrite T_italic, T_bold, T_os2.
  unfold codec_os2. cbn [o_regular].
  rewrite os2_sel_indep. cbn [o_bold o_italic o_regular o_oblique].
  destruct (codec_sel (f_regular f) (negb (f_angle f =? 0)) (f_bold f) (f_oblique f)) as (_ & _ & Hr & _).
  cbv zeta in Hr. rewrite Hr.
  destruct (_ || _); destruct (f_regular f); reflexivity.
Qed.

Lemma T_oblique : mg_oblique T = f_oblique f.
Proof.
  unfold mg_oblique. rewrite T_os2. unfold codec_os2. cbn [o_oblique].
  rewrite os2_sel_indep. cbn [o_bold o_italic o_regular o_oblique].
  destruct (codec_sel (f_regular f) (negb (f_angle f =? 0)) (f_bold f) (f_oblique f)) as (_ & _ & _ & Ho).
  exact Ho.
Qed.

Lemma T_serif : mg_serif T = f_serif f.
Proof.
  unfold mg_serif, mg_fclass. rewrite T_os2. unfold codec_os2. cbn [o_fclass is_some andb].
  exact (proj1 (family_class_serif (f_serif f) (f_script f))).
Qed.

Lemma T_script : mg_script T = negb (f_serif f) && f_script f.
Proof.
  unfold mg_script, mg_fclass. rewrite T_os2. unfold codec_os2. cbn [o_fclass is_some andb].
  exact (proj2 (family_class_serif (f_serif f) (f_script f))).
Qed.

Lemma T_cap o : mg_cap T o = height_fallback (if 0 <? f_cap f then f_cap f else 0) (f_cmap f) o cm_H.
Proof. reflexivity. Qed.
Lemma T_xh o : mg_xh T o = height_fallback (if 0 <? f_xh f then f_xh f else 0) (f_cmap f) o cm_x.
Proof. reflexivity. Qed.

Lemma T_perm : match t_o2 T with Some o2 => o_perm o2 | None => 0 end = norm_perm (f_perm f).
Proof. rewrite T_os2. unfold codec_os2. cbn [o_perm]. apply codec_perm. Qed.

Lemma T_gsub o : mg_gsub T o =
  match f_gsub f with
  | Some g => Some g
  | None => if is_fixed_pitch (font_widths o) then None
            else match f_cmap f with Some c => if cm_best c then cm_lig c else None | None => None end
  end.
Proof. reflexivity. Qed.

Lemma T_gpos : mg_gpos T = f_gpos f.
Proof. unfold mg_gpos. subst T. unfold M_codec, M_write_tables. cbn [t_gpos t_kern]. destruct (f_gpos f); reflexivity. Qed.

(* all fields at once *)
Lemma T_fields hm : (ver_to_milli (f_version f) <? 65536000)%N = true ->
  merge_fields T hm (f_outl f) = normalize f.
Proof.
  intros Hver. unfold merge_fields, normalize.
  rewrite T_family, T_weight, (T_version Hver), T_italic, T_bold, T_regular, T_oblique, T_serif, T_script,
    T_cap, T_xh, T_perm, T_angle, T_gsub, T_gpos, T_name.
  reflexivity.
Qed.
End Cycle.

Lemma cycle_counts f : (1 <=? ol_n (f_outl f))%N = true -> valid_widths (f_outl f) = true ->
  let T := M_codec (M_write_tables f (ol_widths (f_outl f)) (font_widths (f_outl f))) in
  merge_counts T = Ok (ol_n (f_outl f), t_hm T).
Proof.
  intros Hn Hv T. unfold merge_counts.
  assert (E1 : t_maxp T = Some (ol_n (f_outl f), ol_maxp (f_outl f))) by reflexivity.
  assert (E2 : widths_len (t_hm T) =
               match ol_widths (f_outl f) with Some w => N.of_nat (length w) | None => 0%N end) by reflexivity.
  rewrite E1, E2. unfold valid_widths in Hv. apply N.leb_le in Hn.
  destruct (ol_widths (f_outl f)) as [w|].
  - apply N.eqb_eq in Hv. rewrite Hv.
    assert (E0 : (0 <? ol_n (f_outl f))%N = true) by lia. rewrite E0.
    assert (E3 : (ol_n (f_outl f) =? 0)%N = false) by lia. rewrite E3.
    rewrite N.ltb_irrefl, N.eqb_refl. reflexivity.
  - reflexivity.
Qed.

Lemma cycle_outl f : (1 <=? ol_n (f_outl f))%N = true -> valid_widths (f_outl f) = true ->
  (if ol_cff (f_outl f) then negb (is_some (ol_names (f_outl f))) && negb (is_some (ol_maxp (f_outl f))) else true) = true ->
  let T := M_codec (M_write_tables f (ol_widths (f_outl f)) (font_widths (f_outl f))) in
  merge_outl T (ol_n (f_outl f)) (t_hm T) = Ok (f_outl f).
Proof.
  intros Hn Hv Hc T. unfold merge_outl.
  assert (E1 : t_cff T = ol_cff (f_outl f)) by reflexivity.
  assert (E2 : t_ol T = codec_outl (f_outl f)) by reflexivity.
  assert (E3 : t_maxp T = Some (ol_n (f_outl f), ol_maxp (f_outl f))) by reflexivity.
  assert (E4 : hmtx_widths (t_hm T) =
               match ol_widths (f_outl f) with Some ((_ :: _) as w) => Some w | _ => None end) by reflexivity.
  assert (E5 : match t_po T with Some p => p_names p | None => None end =
               if ol_cff (f_outl f) then None else ol_names (f_outl f)) by reflexivity.
  assert (E6 : exists h, t_hd T = Some h) by (eexists; reflexivity).
  destruct E6 as (h & E6).
  rewrite E1, E2, E3, E4, E5, E6. clear E1 E2 E3 E4 E5 E6 T.
  unfold valid_widths in Hv. apply N.leb_le in Hn.
  destruct (f_outl f) as [cff oid n heights widths names maxp].
  cbn [ol_cff ol_id ol_n ol_heights ol_widths ol_names ol_maxp codec_outl] in *.
  assert (En : (n =? 0)%N = false) by lia.
  destruct cff; cbn [ol_cff ol_id ol_n ol_heights ol_widths ol_names ol_maxp];
    rewrite En, N.eqb_refl; cbn [negb andb].
  - apply andb_prop in Hc as [Hc1 Hc2].
    destruct names; [discriminate|]. destruct maxp; [discriminate|].
    destruct widths as [w|]; [|discriminate].
    destruct w; reflexivity.
  - destruct widths as [w|]; [|reflexivity].
    apply N.eqb_eq in Hv. destruct w; [cbn in Hv; lia|reflexivity].
Qed.

Theorem cycle_normal_form f : in_range f = true ->
  M_cycle f = Ok (M_codec (M_write_tables f (ol_widths (f_outl f)) (font_widths (f_outl f))), normalize f).
Proof.
  intros Hr. unfold in_range in Hr.
  apply andb_prop in Hr as [Hr Hver]. apply andb_prop in Hr as [Hr Hcff].
  apply andb_prop in Hr as [Hn Hv].
  unfold M_cycle, M_write_derive. rewrite (write_widths_in_range _ Hn Hv).
  cbn [obind fst snd].
  enough (E : M_read_merge (M_codec (M_write_tables f (ol_widths (f_outl f)) (font_widths (f_outl f))))
              = Ok (normalize f)) by (rewrite E; reflexivity).
  unfold M_read_merge.
  rewrite (cycle_counts f Hn Hv). cbn [obind fst snd].
  rewrite (cycle_outl f Hn Hv Hcff). cbn [obind].
  rewrite (T_fields f _ _ _ Hver). reflexivity.
Qed.

(* ---------- idempotence ---------- *)

Lemma norm_perm_idem p : norm_perm (norm_perm p) = norm_perm p.
Proof.
  unfold norm_perm. destruct ((p =? 1) || (p =? 2) || (p =? 3)) eqn:E; [rewrite E; reflexivity|reflexivity].
Qed.

Lemma codec_time_idem t : codec_time (codec_time t) = codec_time t.
Proof.
  destruct t as [u|]; [|reflexivity]. cbn [codec_time].
  destruct (u - zero1904 =? 0) eqn:E; [reflexivity|]. cbn [codec_time]. rewrite E. reflexivity.
Qed.

Lemma round16_grid k : round16 (k * 65536) = k.
Proof. unfold round16. destruct (0 <=? k * 65536) eqn:E; lia. Qed.

Lemma norm_version_idem v : (ver_to_milli v <? 65536000)%N = true ->
  norm_version (norm_version v) = norm_version v.
Proof.
  intros H. apply N.ltb_lt in H. unfold norm_version at 1.
  unfold norm_version at 1. rewrite ver_to_milli_of_decimal by exact H. reflexivity.
Qed.

Lemma height_fallback_nonzero h cm o pick : h <> 0 -> height_fallback h cm o pick = h.
Proof. intros H. unfold height_fallback. assert (E : (h =? 0) = false) by lia. rewrite E. reflexivity. Qed.

Lemma height_fallback_idem h cm o pick :
  let c := height_fallback (if 0 <? h then h else 0) cm o pick in
  height_fallback (if 0 <? c then c else 0) cm o pick = c.
Proof.
  cbv zeta. destruct (0 <? h) eqn:Eh.
  - rewrite (height_fallback_nonzero h) by lia. rewrite Eh. apply height_fallback_nonzero. lia.
  - set (c := height_fallback 0 cm o pick).
    destruct (0 <? c) eqn:Ec.
    + apply height_fallback_nonzero. lia.
    + reflexivity.
Qed.

Lemma name_says_bold_normalize f : name_says_bold (normalize f) =
  if negb (f_weight f =? 0)%N && negb (f_weight f =? 400)%N then name_says_bold f
  else (f_bold f && negb (f_regular f)) || name_says_bold f.
Proof.
  unfold name_says_bold, normalize. cbn [f_weight f_family f_bold].
  unfold name_says_bold.
  destruct (negb (f_weight f =? 0)%N && negb (f_weight f =? 400)%N); reflexivity.
Qed.

Lemma font_ext (f g : font) :
  f_family f = f_family g ->
  f_width f = f_width g ->
  f_weight f = f_weight g ->
  f_regular f = f_regular g ->
  f_bold f = f_bold g ->
  f_italic f = f_italic g ->
  f_oblique f = f_oblique g ->
  f_serif f = f_serif g ->
  f_script f = f_script g ->
  f_cpr f = f_cpr g ->
  f_version f = f_version g ->
  f_ctime f = f_ctime g ->
  f_mtime f = f_mtime g ->
  f_descr f = f_descr g ->
  f_sample f = f_sample g ->
  f_copyright f = f_copyright g ->
  f_trademark f = f_trademark g ->
  f_license f = f_license g ->
  f_licurl f = f_licurl g ->
  f_perm f = f_perm g ->
  f_upm f = f_upm g ->
  f_asc f = f_asc g ->
  f_desc f = f_desc g ->
  f_gap f = f_gap g ->
  f_cap f = f_cap g ->
  f_xh f = f_xh g ->
  f_angle f = f_angle g ->
  f_upos f = f_upos g ->
  f_uthick f = f_uthick g ->
  f_outl f = f_outl g ->
  f_cmap f = f_cmap g ->
  f_gdef f = f_gdef g ->
  f_gsub f = f_gsub g ->
  f_gpos f = f_gpos g ->
  f = g.
Proof.
  destruct f, g; cbn; intros; subst; reflexivity.
Qed.

Theorem normalize_idem f : (ver_to_milli (f_version f) <? 65536000)%N = true ->
  normalize (normalize f) = normalize f.
Proof.
  intros Hver.
  apply font_ext;
    (unfold normalize at 1; rewrite ?name_says_bold_normalize; unfold norm_height, std_ligatures;
     cbn [normalize f_family f_width f_weight f_regular f_bold f_italic f_oblique f_serif f_script f_cpr f_version
          f_ctime f_mtime f_descr f_sample f_copyright f_trademark f_license f_licurl f_perm f_upm
          f_asc f_desc f_gap f_cap f_xh f_angle f_upos f_uthick f_outl f_cmap f_gdef f_gsub f_gpos];
     unfold norm_height, std_ligatures; try reflexivity).
  - (* regular *)
    unfold name_says_bold.
    destruct (negb (f_weight f =? 0)%N && negb (f_weight f =? 400)%N);
      destruct (f_regular f), (f_bold f), (f_italic f), (negb (f_angle f =? 0)), (f_oblique f);
      try reflexivity; destruct ((weight_rounded (f_weight f) =? 700)%N && negb (contains s_Bold (f_family f))); reflexivity.
  - (* bold *)
    unfold name_says_bold.
    destruct (negb (f_weight f =? 0)%N && negb (f_weight f =? 400)%N);
      destruct (f_regular f), (f_bold f), (f_italic f), (negb (f_angle f =? 0)), (f_oblique f);
      try reflexivity; destruct ((weight_rounded (f_weight f) =? 700)%N && negb (contains s_Bold (f_family f))); reflexivity.
  - destruct (f_italic f), (negb (f_angle f =? 0)), (f_oblique f); reflexivity.
  - destruct (f_serif f), (f_script f); reflexivity.
  - apply norm_version_idem. exact Hver.
  - apply codec_time_idem.
  - apply codec_time_idem.
  - apply norm_perm_idem.
  - apply height_fallback_idem.
  - apply height_fallback_idem.
  - rewrite round16_grid. reflexivity.
  - rewrite round16_grid. reflexivity.
  - destruct (f_gsub f); [reflexivity|].
    match goal with |- match ?x with _ => _ end = _ => destruct x; reflexivity end.
Qed.

(* ---------- canonical values are fixed ---------- *)

Lemma codec_time_representable t : time_representable t = true -> codec_time t = t.
Proof.
  destruct t as [u|]; [|reflexivity]. cbn [time_representable codec_time]. intros H.
  assert (E : (u - zero1904 =? 0) = false) by lia. rewrite E. reflexivity.
Qed.

Lemma round16_mult x : x mod 65536 = 0 -> round16 x * 65536 = x.
Proof. intros H. unfold round16. destruct (0 <=? x) eqn:E; lia. Qed.

Theorem normalize_canonical f : canonical f = true -> normalize f = f.
Proof.
  unfold canonical. intros H.
  repeat match type of H with _ && _ = true => apply andb_prop in H as [H ?] end.
  apply font_ext;
    (unfold normalize; unfold norm_height;
     cbn [f_family f_width f_weight f_regular f_bold f_italic f_oblique f_serif f_script f_cpr f_version
          f_ctime f_mtime f_descr f_sample f_copyright f_trademark f_license f_licurl f_perm f_upm
          f_asc f_desc f_gap f_cap f_xh f_angle f_upos f_uthick f_outl f_cmap f_gdef f_gsub f_gpos];
     try reflexivity).
  - (* regular *)
    destruct (f_regular f), (f_bold f), (f_italic f), (negb (f_angle f =? 0)), (f_oblique f), (name_says_bold f);
      cbn in *; try reflexivity; try discriminate.
  - (* bold *)
    destruct (f_regular f), (f_bold f), (f_italic f), (name_says_bold f); cbn in *; try reflexivity; try discriminate.
  - (* italic *)
    destruct (f_italic f), (negb (f_angle f =? 0)), (f_oblique f); cbn in *; try reflexivity; try discriminate.
  - destruct (f_serif f), (f_script f); cbn in *; try reflexivity; try discriminate.
  - apply N.eqb_eq. assumption.
  - apply codec_time_representable. assumption.
  - apply codec_time_representable. assumption.
  - unfold norm_perm.
    match goal with Hp : (_ || _ || _ || _) = true |- _ =>
      destruct (f_perm f =? 1) eqn:E1, (f_perm f =? 2) eqn:E2, (f_perm f =? 3) eqn:E3; cbn [orb]; try reflexivity;
      rewrite ?orb_false_r in Hp; apply Z.eqb_eq in Hp; symmetry; exact Hp end.
  - match goal with Hc : (0 <? f_cap f) = true |- _ => rewrite Hc end.
    apply height_fallback_nonzero. lia.
  - match goal with Hc : (0 <? f_xh f) = true |- _ => rewrite Hc end.
    apply height_fallback_nonzero. lia.
  - apply round16_mult. lia.
  - apply round16_mult. lia.
  - destruct (f_gsub f); [reflexivity|].
    match goal with Hg : (is_some None || _) = true |- _ => cbn [is_some orb] in Hg;
      destruct (std_ligatures f); [discriminate|reflexivity] end.
Qed.

(* ---------- generations ---------- *)

Lemma in_range_normalize f : in_range f = true -> in_range (normalize f) = true.
Proof.
  unfold in_range. intros H.
  apply andb_prop in H as [H Hver]. rewrite andb_true_iff. split.
  - unfold normalize. cbn [f_outl]. exact H.
  - unfold normalize. cbn [f_version]. unfold norm_version.
    apply N.ltb_lt in Hver. rewrite ver_to_milli_of_decimal by exact Hver. apply N.ltb_lt. exact Hver.
Qed.

Lemma in_range_version f : in_range f = true -> (ver_to_milli (f_version f) <? 65536000)%N = true.
Proof. unfold in_range. intros H. apply andb_prop in H as [_ H]. exact H. Qed.

(* the write/read cycle, split into its three stages *)
Theorem write_read_normal f : in_range f = true ->
  exists t, M_write_derive f = Ok t /\ M_read_merge (M_codec t) = Ok (normalize f).
Proof.
  intros Hr. pose proof (cycle_normal_form f Hr) as H.
  unfold M_cycle in H.
  destruct (M_write_derive f) as [t| | |] eqn:Ew; cbn [obind] in H; try discriminate.
  exists t. split; [reflexivity|].
  destruct (M_read_merge (M_codec t)) as [f1| | |]; cbn [obind] in H; try discriminate.
  inversion H. reflexivity.
Qed.

(* generation 2 = generation 1 *)
Theorem second_generation f t1 f1 : in_range f = true -> M_cycle f = Ok (t1, f1) ->
  exists t2, M_cycle f1 = Ok (t2, f1).
Proof.
  intros Hr H1. rewrite (cycle_normal_form f Hr) in H1. inversion H1; subst.
  eexists. rewrite (cycle_normal_form _ (in_range_normalize f Hr)).
  rewrite (normalize_idem f (in_range_version f Hr)). reflexivity.
Qed.

(* a canonical value comes back exactly *)
Theorem canonical_cycle f : in_range f = true -> canonical f = true ->
  exists t, M_cycle f = Ok (t, f).
Proof.
  intros Hr Hc. eexists. rewrite (cycle_normal_form f Hr), (normalize_canonical f Hc). reflexivity.
Qed.

Lemma version_print_parse_lemma :
  forall v : N, (ver_to_milli v < 65536000)%N ->
    version_from_string (s_Version_sp ++ version_string v) = Some (norm_version v)
    /\ ver_to_milli (norm_version v) = ver_to_milli v.
Proof.
  intros v H. split.
  - unfold version_string. apply version_from_string_print.
  - unfold norm_version. apply ver_to_milli_of_decimal. exact H.
Qed.
