(* C01/Proofs_sub.v — what the sub-family name Write derives says about bold
   and italic: the two substring tests of read.go decided for every width
   class (uint16, also the unnamed ones printed as "Width(n)"), every weight
   class, every family name and every flag combination. *)
From Coq Require Import List NArith ZArith Bool Lia.
From Coq Require Import ZifyBool ZifyNat ZifyN.
From C01 Require Import Str Model Spec Proofs_str.
Import ListNotations.
Ltac Zify.zify_post_hook ::= Z.div_mod_to_equations.
Local Open Scope N_scope.

Definition sub_of (ws : list str) : str := match ws with [] => s_Regular | _ => join_sp ws end.

Definition width_words (f : font) : list str :=
  if negb (f_width f =? 0) && negb (f_width f =? 5) then [width_string (f_width f)] else [].

Definition weight_words (f : font) : list str :=
  if negb (f_weight f =? 0) && negb (f_weight f =? 400) then
    let tag := weight_simple_string (f_weight f) in
    if contains tag (f_family f) || existsb (contains tag) (width_words f) then [] else [tag]
  else if f_bold f then [s_Bold] else [].

Definition slant_words (f : font) : list str :=
  if f_oblique f then [s_Oblique] else if f_italic f then [s_Italic] else [].

Lemma subfamily_words_eq f :
  subfamily_words f = width_words f ++ weight_words f ++ slant_words f.
Proof.
  unfold subfamily_words, weight_words, slant_words, width_words.
  destruct (negb (f_width f =? 0) && negb (f_width f =? 5));
  destruct (negb (f_weight f =? 0) && negb (f_weight f =? 400)); cbv beta iota zeta;
  try (destruct (contains (weight_simple_string (f_weight f)) (f_family f) || _); cbv beta iota);
  try (destruct (f_bold f); cbv beta iota);
  destruct (f_oblique f); cbv beta iota; try (destruct (f_italic f); cbv beta iota);
  cbn [app]; rewrite ?app_nil_r; reflexivity.
Qed.

Lemma subfamily_eq f : subfamily f = sub_of (width_words f ++ weight_words f ++ slant_words f).
Proof.
  unfold subfamily, sub_of. rewrite subfamily_words_eq.
  destruct (width_words f ++ weight_words f ++ slant_words f); reflexivity.
Qed.

(* the two tests of read.go *)
Definition bold_test (s : str) : bool :=
  contains s_Bold s && negb (contains s_SemiBold s) && negb (contains s_ExtraBold s).
Definition italic_test (s : str) : bool := contains s_Italic s.

(* ---------- finite universes ---------- *)
(* width class 5 ("Normal") never contributes a word *)
Definition W1fin : list (list str) :=
  [] :: map (fun p => [snd p]) (filter (fun p => negb (fst p =? 5)) width_names).
Definition WTfin : list (list str) := [] :: map (fun p => [snd p]) weight_names.
Definition WSfin : list (list str) := [[]; [s_Oblique]; [s_Italic]].

Definition is_word (w : str) (ws : list str) : bool :=
  match ws with [t] => str_eqb t w | _ => false end.

Lemma fin_bold :
  forallb (fun w1 => forallb (fun wt => forallb (fun ws =>
    Bool.eqb (bold_test (sub_of (w1 ++ wt ++ ws))) (is_word s_Bold wt)) WSfin) WTfin) W1fin = true.
Proof. vm_compute. reflexivity. Qed.

Lemma fin_italic :
  forallb (fun w1 => forallb (fun wt => forallb (fun ws =>
    Bool.eqb (italic_test (sub_of (w1 ++ wt ++ ws))) (is_word s_Italic ws)) WSfin) WTfin) W1fin = true.
Proof. vm_compute. reflexivity. Qed.

Lemma fin_seen :
  forallb (fun w1 => forallb (fun wt =>
    match wt with [tag] => negb (existsb (contains tag) w1) | _ => true end) WTfin) W1fin = true.
Proof. vm_compute. reflexivity. Qed.

Lemma fin_bold_use w1 wt ws : In w1 W1fin -> In wt WTfin -> In ws WSfin ->
  bold_test (sub_of (w1 ++ wt ++ ws)) = is_word s_Bold wt.
Proof.
  intros H1 H2 H3. pose proof fin_bold as F.
  rewrite forallb_forall in F. specialize (F _ H1).
  rewrite forallb_forall in F. specialize (F _ H2).
  rewrite forallb_forall in F. specialize (F _ H3).
  apply eqb_prop in F. exact F.
Qed.

Lemma fin_italic_use w1 wt ws : In w1 W1fin -> In wt WTfin -> In ws WSfin ->
  italic_test (sub_of (w1 ++ wt ++ ws)) = is_word s_Italic ws.
Proof.
  intros H1 H2 H3. pose proof fin_italic as F.
  rewrite forallb_forall in F. specialize (F _ H1).
  rewrite forallb_forall in F. specialize (F _ H2).
  rewrite forallb_forall in F. specialize (F _ H3).
  apply eqb_prop in F. exact F.
Qed.

Lemma fin_seen_use w1 tag : In w1 W1fin -> In [tag] WTfin -> existsb (contains tag) w1 = false.
Proof.
  intros H1 H2. pose proof fin_seen as F.
  rewrite forallb_forall in F. specialize (F _ H1).
  rewrite forallb_forall in F. specialize (F _ H2).
  cbv beta iota in F. apply negb_true_iff in F. exact F.
Qed.

(* ---------- weight tags ---------- *)

Lemma weight_rounded_cases w :
  exists k, 1 <= k <= 9 /\ weight_rounded w = k * 100.
Proof.
  unfold weight_rounded. destruct (w <=? 100) eqn:E1; [exists 1; lia|].
  destruct (900 <=? w) eqn:E2; [exists 9; lia|].
  exists ((w + 50) / 100). lia.
Qed.

Lemma weight_tag_in w : In [weight_simple_string w] WTfin.
Proof.
  unfold weight_simple_string. destruct (weight_rounded_cases w) as (k & Hk & ->).
  assert (H : k = 1 \/ k = 2 \/ k = 3 \/ k = 4 \/ k = 5 \/ k = 6 \/ k = 7 \/ k = 8 \/ k = 9) by lia.
  unfold WTfin. right.
  destruct H as [->|[->|[->|[->|[->|[->|[->|[->| ->]]]]]]]]; vm_compute; tauto.
Qed.

Lemma weight_tag_bold w : is_word s_Bold [weight_simple_string w] = (weight_rounded w =? 700).
Proof.
  unfold weight_simple_string. destruct (weight_rounded_cases w) as (k & Hk & ->).
  assert (H : k = 1 \/ k = 2 \/ k = 3 \/ k = 4 \/ k = 5 \/ k = 6 \/ k = 7 \/ k = 8 \/ k = 9) by lia.
  destruct H as [->|[->|[->|[->|[->|[->|[->|[->| ->]]]]]]]]; vm_compute; reflexivity.
Qed.

(* the tag itself, when the weight rounds to 700 *)
Lemma weight_tag_700 w : weight_rounded w = 700 -> weight_simple_string w = s_Bold.
Proof. intros H. unfold weight_simple_string. rewrite H. reflexivity. Qed.

(* ---------- width words ---------- *)

(* the unnamed width classes: "Width(" digits ")" *)
Definition generic_width (n : N) : str := s_Width_lp ++ print_dec n ++ [41].

Lemma width_string_cases w : w <> 5 ->
  In [width_string w] W1fin \/ width_string w = generic_width w.
Proof.
  intros H5. unfold width_string. destruct (assoc_n w width_names) eqn:E; [left|right; reflexivity].
  unfold W1fin. right.
  cbn [width_names assoc_n] in E.
  repeat match type of E with
  | (if ?b then _ else _) = _ =>
    let Eb := fresh "Eb" in
    destruct b eqn:Eb; [inversion E; subst; try (exfalso; lia); vm_compute; tauto|]
  end.
  discriminate.
Qed.

(* no character of "Width(n) " can start one of the words looked for *)
Lemma generic_width_nofirst n c :
  In c [73; 66; 83; 69; 84; 76; 78; 77] ->
  Forall (fun x => x <> c) (generic_width n ++ [32]).
Proof.
  intros Hc. unfold generic_width. rewrite <- !app_assoc.
  apply Forall_app. split.
  - unfold s_Width_lp. cbn [In] in Hc. repeat constructor; lia.
  - apply Forall_app. split.
    + eapply Forall_impl; [|apply print_dec_digits]. cbn [In] in Hc. intros x Hx. cbv beta in Hx. lia.
    + cbn [In app] in *. repeat constructor; lia.
Qed.

Lemma generic_width_nofirst' n c :
  In c [73; 66; 83; 69; 84; 76; 78; 77] -> Forall (fun x => x <> c) (generic_width n).
Proof.
  intros Hc. pose proof (generic_width_nofirst n c Hc) as H.
  apply Forall_app in H. tauto.
Qed.

Lemma join_generic n rest :
  join_sp (generic_width n :: rest) =
  match rest with [] => generic_width n | _ => (generic_width n ++ [32]) ++ join_sp rest end.
Proof. destruct rest; [reflexivity|]. cbn [join_sp]. rewrite <- app_assoc. reflexivity. Qed.

(* a needle starting with one of those characters does not see the word *)
Lemma contains_skip_generic c p n rest :
  In c [73; 66; 83; 69; 84; 76; 78; 77] ->
  contains (c :: p) (join_sp (generic_width n :: rest)) = contains (c :: p) (join_sp rest).
Proof.
  intros Hc. rewrite join_generic. destruct rest as [|r rest].
  - rewrite <- (app_nil_r (generic_width n)).
    rewrite contains_app_nofirst by (apply generic_width_nofirst'; exact Hc). reflexivity.
  - rewrite contains_app_nofirst by (apply generic_width_nofirst; exact Hc). reflexivity.
Qed.

Lemma test_join_sub rest :
  bold_test (join_sp rest) = bold_test (sub_of rest) /\ italic_test (join_sp rest) = italic_test (sub_of rest).
Proof. destruct rest; [vm_compute; split; reflexivity|split; reflexivity]. Qed.

Lemma bold_test_generic n rest :
  bold_test (sub_of ([generic_width n] ++ rest)) = bold_test (sub_of ([] ++ rest)).
Proof.
  cbn [app sub_of]. rewrite <- (proj1 (test_join_sub rest)).
  unfold bold_test, s_Bold, s_SemiBold, s_ExtraBold.
  rewrite !contains_skip_generic by (cbn [In]; tauto). reflexivity.
Qed.

Lemma italic_test_generic n rest :
  italic_test (sub_of ([generic_width n] ++ rest)) = italic_test (sub_of ([] ++ rest)).
Proof.
  cbn [app sub_of]. rewrite <- (proj2 (test_join_sub rest)).
  unfold italic_test, s_Italic.
  rewrite !contains_skip_generic by (cbn [In]; tauto). reflexivity.
Qed.

Lemma seen_generic n tag : In [tag] WTfin -> existsb (contains tag) [generic_width n] = false.
Proof.
  intros Ht. cbn [existsb]. rewrite orb_false_r.
  unfold WTfin in Ht. destruct Ht as [Ht|Ht]; [discriminate|].
  cbn [weight_names map In] in Ht.
  rewrite <- (app_nil_r (generic_width n)).
  repeat destruct Ht as [Ht|Ht];
    try (inversion Ht; subst;
         match goal with |- contains ?t _ = _ => unfold s_SemiBold, s_Bold, s_ExtraBold end;
         rewrite contains_app_nofirst by (apply generic_width_nofirst'; cbn [In]; tauto);
         reflexivity).
Qed.

(* ---------- the words of a font ---------- *)

Lemma width_words_cases f :
  In (width_words f) W1fin \/ width_words f = [generic_width (f_width f)].
Proof.
  unfold width_words. destruct (negb (f_width f =? 0) && negb (f_width f =? 5)) eqn:E.
  - destruct (width_string_cases (f_width f)) as [H|H]; [lia|left; exact H|right; rewrite H; reflexivity].
  - left. left. reflexivity.
Qed.

Lemma slant_words_in f : In (slant_words f) WSfin.
Proof.
  unfold slant_words, WSfin. destruct (f_oblique f); [cbn; tauto|].
  destruct (f_italic f); cbn; tauto.
Qed.

Lemma seen_words_false f tag : In [tag] WTfin -> existsb (contains tag) (width_words f) = false.
Proof.
  intros Ht. destruct (width_words_cases f) as [H|H].
  - apply fin_seen_use; assumption.
  - rewrite H. apply seen_generic. exact Ht.
Qed.

Lemma weight_words_in f : In (weight_words f) WTfin.
Proof.
  unfold weight_words.
  destruct (negb (f_weight f =? 0) && negb (f_weight f =? 400)).
  - cbv zeta. destruct (_ || _); [left; reflexivity|apply weight_tag_in].
  - destruct (f_bold f); [|left; reflexivity].
    right. vm_compute. tauto.
Qed.

(* does the weight word say Bold? *)
Lemma weight_words_bold f : is_word s_Bold (weight_words f) = name_says_bold f.
Proof.
  unfold weight_words, name_says_bold.
  destruct (negb (f_weight f =? 0) && negb (f_weight f =? 400)).
  - cbv zeta. rewrite seen_words_false by apply weight_tag_in. rewrite orb_false_r.
    destruct (weight_rounded (f_weight f) =? 700) eqn:E.
    + apply N.eqb_eq in E. rewrite (weight_tag_700 _ E).
      destruct (contains s_Bold (f_family f)); reflexivity.
    + destruct (contains (weight_simple_string (f_weight f)) (f_family f)); [reflexivity|].
      rewrite weight_tag_bold, E. reflexivity.
  - destruct (f_bold f); reflexivity.
Qed.

Lemma slant_words_italic f : is_word s_Italic (slant_words f) = negb (f_oblique f) && f_italic f.
Proof.
  unfold slant_words. destruct (f_oblique f); [reflexivity|]. destruct (f_italic f); reflexivity.
Qed.

(* ---------- the two results ---------- *)

Theorem subfamily_bold_test f : bold_test (subfamily f) = name_says_bold f.
Proof.
  rewrite subfamily_eq, <- weight_words_bold.
  destruct (width_words_cases f) as [H|H].
  - apply fin_bold_use; [exact H|apply weight_words_in|apply slant_words_in].
  - rewrite H, bold_test_generic.
    apply fin_bold_use; [left; reflexivity|apply weight_words_in|apply slant_words_in].
Qed.

Theorem subfamily_italic_test f : italic_test (subfamily f) = negb (f_oblique f) && f_italic f.
Proof.
  rewrite subfamily_eq, <- slant_words_italic.
  destruct (width_words_cases f) as [H|H].
  - apply fin_italic_use; [exact H|apply weight_words_in|apply slant_words_in].
  - rewrite H, italic_test_generic.
    apply fin_italic_use; [left; reflexivity|apply weight_words_in|apply slant_words_in].
Qed.

Lemma subfamily_tests_lemma :
  forall F : font,
    contains s_Italic (subfamily F) = negb (f_oblique F) && f_italic F /\
    contains s_Bold (subfamily F) && negb (contains s_SemiBold (subfamily F))
      && negb (contains s_ExtraBold (subfamily F)) = name_says_bold F.
Proof.
  intros F. split.
  - exact (subfamily_italic_test F).
  - exact (subfamily_bold_test F).
Qed.
