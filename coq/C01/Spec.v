(* C01/Spec.v — the normal form of a font value, written from the meaning of
   the fields and the precision of the file format (not by composing the
   model of Write with the model of Read), the representable domain
   ("field range"), and the sub-domain on which nothing changes at all. *)
From Coq Require Import List NArith ZArith Bool.
From C01 Require Import Str Model.
Import ListNotations.
Local Open Scope Z_scope.

(* ---- domain ---- *)

Definition valid_widths (o : outl) : bool :=
  match ol_widths o with
  | Some w => (N.of_nat (length w) =? ol_n o)%N
  | None => negb (ol_cff o)          (* only glyf outlines may lack widths *)
  end.

(* "in field range": at least one glyph, one advance width per glyph, CFF
   outlines carry no post names / maxp values, the version prints below
   65536.000 *)
Definition in_range (f : font) : bool :=
  (1 <=? ol_n (f_outl f))%N
  && valid_widths (f_outl f)
  && (if ol_cff (f_outl f) then negb (is_some (ol_names (f_outl f))) && negb (is_some (ol_maxp (f_outl f))) else true)
  && (ver_to_milli (f_version f) <? 65536000)%N.

Definition has_timestamp (f : font) : bool := is_some (f_mtime f) || is_some (f_ctime f).

(* ---- the normal form ---- *)

(* does the sub-family name Write derives say "Bold" (and neither "Semi
   Bold" nor "Extra Bold")?  With a weight class other than 0/400 the name
   spells the nearest named weight unless the family name already contains
   it; otherwise it says "Bold" iff the bold flag is set. *)
Definition name_says_bold (f : font) : bool :=
  if negb (f_weight f =? 0)%N && negb (f_weight f =? 400)%N
  then (weight_rounded (f_weight f) =? 700)%N && negb (contains s_Bold (f_family f))
  else f_bold f.

(* three decimals *)
Definition norm_version (v : N) : N := ver_of_decimal (ver_to_milli v) 3.

(* the four defined embedding permissions; everything else means "install" *)
Definition norm_perm (p : Z) : Z := if (p =? 1) || (p =? 2) || (p =? 3) then p else 0.

Definition norm_height (h : Z) (f : font) (pick : cmapv -> N) : Z :=
  height_fallback (if 0 <? h then h else 0) (f_cmap f) (f_outl f) pick.

Definition std_ligatures (f : font) : option N :=
  if is_fixed_pitch (font_widths (f_outl f)) then None
  else match f_cmap f with
       | Some c => if cm_best c then cm_lig c else None
       | None => None
       end.

Definition normalize (f : font) : font :=
  let italic := f_italic f || negb (f_angle f =? 0) || f_oblique f in
  let bold := (f_bold f && negb (f_regular f)) || name_says_bold f in
  let regular := f_regular f && negb (italic || bold) in
  mkFont (f_family f) (f_width f) (f_weight f) regular bold italic (f_oblique f)
    (f_serif f) (negb (f_serif f) && f_script f)
    (f_cpr f) (norm_version (f_version f)) (codec_time (f_ctime f)) (codec_time (f_mtime f))
    (f_descr f) (f_sample f) (f_copyright f) (f_trademark f) (f_license f) (f_licurl f)
    (norm_perm (f_perm f)) (f_upm f) (f_asc f) (f_desc f) (f_gap f)
    (norm_height (f_cap f) f cm_H) (norm_height (f_xh f) f cm_x)
    (f_angle f) (round16 (f_upos f) * 65536) (round16 (f_uthick f) * 65536)
    (f_outl f) (f_cmap f) (f_gdef f)
    (match f_gsub f with Some g => Some g | None => std_ligatures f end)
    (f_gpos f).

(* ---- values that come back exactly ---- *)

(* stated on the meaning of the fields: fsSelection REGULAR excludes BOLD and
   ITALIC; slanted and oblique fonts are italic; a font whose sub-family name
   says Bold is bold; one family class; version with three decimals;
   timestamps other than the origin of the head clock; one of the four
   permissions; positive cap/x heights; integral underline metrics; a GSUB
   table unless Read has nothing to synthesise. *)
Definition time_representable (t : option Z) : bool :=
  match t with Some u => negb (u =? zero1904) | None => true end.

Definition canonical (f : font) : bool :=
  negb (f_regular f && (f_bold f || f_italic f))
  && (if negb (f_angle f =? 0) || f_oblique f then f_italic f else true)
  && (if name_says_bold f then f_bold f else true)
  && negb (f_serif f && f_script f)
  && (norm_version (f_version f) =? f_version f)%N
  && time_representable (f_ctime f) && time_representable (f_mtime f)
  && ((f_perm f =? 0) || (f_perm f =? 1) || (f_perm f =? 2) || (f_perm f =? 3))
  && (0 <? f_cap f) && (0 <? f_xh f)
  && (f_upos f mod 65536 =? 0) && (f_uthick f mod 65536 =? 0)
  && (is_some (f_gsub f) || negb (is_some (std_ligatures f))).

(* ---- clause (b): what the per-table decoders guarantee about their output
   (os2.Read: the BOLD/ITALIC selection bits are only reported without
   REGULAR, one of four permissions, cap/x height only when positive;
   head.Read: 32-bit revision, 0 decodes to "unset"; VersionFromString
   returns a uint32) ---- *)
Definition os2_decoded (o : t_os2) : bool :=
  negb (o_regular o && (o_bold o || o_italic o))
  && ((o_perm o =? 0) || (o_perm o =? 1) || (o_perm o =? 2) || (o_perm o =? 3))
  && (0 <=? o_cap o) && (0 <=? o_xh o).

Definition head_decoded (h : t_head) : bool :=
  (h_rev h <? 4294967296)%N && time_representable (h_created h) && time_representable (h_modified h).

Definition tables_decoded (t : tables) : bool :=
  match t_o2 t with Some o => os2_decoded o | None => true end
  && match t_hd t with Some h => head_decoded h | None => true end.

(* recorded finding (open): a weight class that rounds to Bold without any
   bold flag — Write will spell "Bold" into the sub-family name *)
Definition bold_settled (f : font) : bool := if name_says_bold f then f_bold f else true.

(* underline metrics that only the CFF table carries must be integral *)
Definition underline_settled (f : font) : bool :=
  (f_upos f mod 65536 =? 0) && (f_uthick f mod 65536 =? 0).
