(* C01/Proofs_merge.v — clause (b) in the model: the font Read builds from any
   accepted set of tables is already in normal form (so that one write/read
   cycle reproduces it), except for the recorded input class, which is
   exhibited. *)
From Coq Require Import List NArith ZArith Bool Lia.
From Coq Require Import ZifyBool ZifyNat ZifyN.
From Common Require Import Outcome.
From C01 Require Import Str Model Spec Proofs_str Proofs_sub Proofs.
Import ListNotations.
Ltac Zify.zify_post_hook ::= Z.div_mod_to_equations.
Local Open Scope Z_scope.

Lemma norm_version_ver_round x : (x < 4294967296)%N -> norm_version (ver_round x) = ver_round x.
Proof.
  intros Hx. change (ver_round x) with (norm_version x).
  pose proof (ver_to_milli_bound x Hx) as Hk.
  destruct (N.eq_dec (ver_to_milli x) 65536000) as [E|Hne].
  - unfold norm_version. rewrite E. vm_compute. reflexivity.
  - unfold norm_version. rewrite ver_to_milli_of_decimal by lia. reflexivity.
Qed.

Lemma version_from_string_bound s v : version_from_string s = Some v -> (v < 4294967296)%N.
Proof.
  unfold version_from_string. cbv zeta.
  assert (B : forall m b, (ver_of_decimal m b < 4294967296)%N) by (intros; unfold ver_of_decimal; apply N.mod_lt; lia).
  destruct (span_digits (if prefixb s_Version_sp s then skipn 8 s else s)) as [d1 r1].
  repeat match goal with
  | |- context [match ?x with _ => _ end] => destruct x
  end; intros E; try discriminate; inversion E; apply B.
Qed.

Lemma mg_version_normal t :
  match t_hd t with Some h => (h_rev h <? 4294967296)%N | None => true end = true ->
  norm_version (mg_version t) = mg_version t.
Proof.
  intros Hh. unfold mg_version.
  destruct (match mg_name t with Some n => version_from_string (n_version n) | None => None end) as [v|] eqn:Ev.
  - apply norm_version_ver_round.
    destruct (mg_name t); [|discriminate]. eapply version_from_string_bound; exact Ev.
  - destruct (t_hd t) as [h|].
    + apply norm_version_ver_round. lia.
    + destruct (t_ci t) as [c|]; [|reflexivity].
      destruct (str_empty (c_version c)); [reflexivity|].
      destruct (version_from_string (c_version c)) eqn:Ec; [|reflexivity].
      apply norm_version_ver_round. eapply version_from_string_bound; exact Ec.
Qed.

Lemma height_fallback_settled c0 cm o pick : 0 <= c0 ->
  let c := height_fallback c0 cm o pick in
  height_fallback (if 0 <? c then c else 0) cm o pick = c.
Proof.
  intros H0. cbv zeta.
  destruct (Z.eq_dec c0 0) as [->|Hne].
  - exact (height_fallback_idem 0 cm o pick).
  - rewrite (height_fallback_nonzero c0) by exact Hne.
    assert (E : (0 <? c0) = true) by lia. rewrite E. apply height_fallback_nonzero. exact Hne.
Qed.

Lemma mg_italic_angle t hm : negb (mg_angle t hm =? 0) = true -> mg_italic t hm = true.
Proof. intros H. unfold mg_italic. rewrite H. reflexivity. Qed.

Lemma mg_italic_oblique t hm : mg_oblique t = true -> mg_italic t hm = true.
Proof.
  unfold mg_italic, mg_oblique. destruct (t_o2 t) as [o2|]; [|discriminate].
  intros ->. rewrite !orb_true_r. reflexivity.
Qed.

Theorem merge_fields_normal t hm o :
  tables_decoded t = true ->
  bold_settled (merge_fields t hm o) = true ->
  underline_settled (merge_fields t hm o) = true ->
  normalize (merge_fields t hm o) = merge_fields t hm o.
Proof.
  intros Hd Hb Hu.
  unfold tables_decoded in Hd. apply andb_prop in Hd as [Hd2 Hdh].
  unfold bold_settled in Hb. unfold underline_settled in Hu. apply andb_prop in Hu as [Hu1 Hu2].
  apply font_ext;
    (unfold normalize at 1; unfold norm_height, std_ligatures;
     unfold merge_fields in *;
     cbn [f_family f_width f_weight f_regular f_bold f_italic f_oblique f_serif f_script f_cpr f_version
          f_ctime f_mtime f_descr f_sample f_copyright f_trademark f_license f_licurl f_perm f_upm
          f_asc f_desc f_gap f_cap f_xh f_angle f_upos f_uthick f_outl f_cmap f_gdef f_gsub f_gpos] in *;
     try reflexivity).
  - (* regular *)
    pose proof (mg_italic_angle t hm) as Fa. pose proof (mg_italic_oblique t hm) as Fo.
    unfold mg_regular in *.
    destruct (name_says_bold _); destruct (mg_bold t); try discriminate;
      destruct (mg_italic t hm); destruct (negb (mg_angle t hm =? 0)); destruct (mg_oblique t);
      cbn [orb andb negb]; try reflexivity;
      try (specialize (Fa eq_refl); discriminate); try (specialize (Fo eq_refl); discriminate);
      destruct (match t_o2 t with Some o2 => o_regular o2 | None => false end); reflexivity.
  - (* bold *)
    unfold mg_regular in *.
    destruct (name_says_bold _); destruct (mg_bold t); try discriminate;
      destruct (mg_italic t hm); reflexivity.
  - (* italic *)
    pose proof (mg_italic_angle t hm) as Fa. pose proof (mg_italic_oblique t hm) as Fo.
    destruct (mg_italic t hm); [reflexivity|].
    destruct (negb (mg_angle t hm =? 0)); [specialize (Fa eq_refl); discriminate|].
    destruct (mg_oblique t); [specialize (Fo eq_refl); discriminate|]. reflexivity.
  - (* script *)
    unfold mg_serif, mg_script.
    destruct (is_some (t_o2 t)); [|reflexivity]. cbn [andb].
    destruct (mg_fclass t =? 10) eqn:E; [|rewrite andb_false_r; reflexivity].
    apply Z.eqb_eq in E. rewrite E. reflexivity.
  - (* version *)
    apply mg_version_normal. destruct (t_hd t) as [h|]; [|reflexivity].
    unfold head_decoded in Hdh. apply andb_prop in Hdh as [Hdh _]. apply andb_prop in Hdh as [Hdh _]. exact Hdh.
  - destruct (t_hd t) as [h|]; [|reflexivity]. apply codec_time_representable.
    unfold head_decoded in Hdh. apply andb_prop in Hdh as [Hdh _]. apply andb_prop in Hdh as [_ Hdh]. exact Hdh.
  - destruct (t_hd t) as [h|]; [|reflexivity]. apply codec_time_representable.
    unfold head_decoded in Hdh. apply andb_prop in Hdh as [_ Hdh]. exact Hdh.
  - (* perm *)
    destruct (t_o2 t) as [o2|]; [|reflexivity].
    unfold os2_decoded in Hd2. apply andb_prop in Hd2 as [Hd2 _]. apply andb_prop in Hd2 as [Hd2 _].
    apply andb_prop in Hd2 as [_ Hp]. unfold norm_perm.
    destruct (o_perm o2 =? 1) eqn:E1, (o_perm o2 =? 2) eqn:E2, (o_perm o2 =? 3) eqn:E3; cbn [orb]; try reflexivity.
    rewrite ?orb_false_r in Hp. apply Z.eqb_eq in Hp. symmetry. exact Hp.
  - (* cap *)
    unfold mg_cap. apply height_fallback_settled.
    destruct (t_o2 t) as [o2|]; [|lia].
    unfold os2_decoded in Hd2. apply andb_prop in Hd2 as [Hd2 _]. apply andb_prop in Hd2 as [_ Hc]. lia.
  - unfold mg_xh. apply height_fallback_settled.
    destruct (t_o2 t) as [o2|]; [|lia].
    unfold os2_decoded in Hd2. apply andb_prop in Hd2 as [_ Hc]. lia.
  - apply round16_mult. lia.
  - apply round16_mult. lia.
  - (* gsub *)
    unfold mg_gsub. destruct (t_gsub t); [reflexivity|].
    match goal with |- match ?x with _ => _ end = _ => destruct x; reflexivity end.
Qed.

Theorem merge_result_normal t f0 :
  M_read_merge t = Ok f0 -> tables_decoded t = true ->
  bold_settled f0 = true -> underline_settled f0 = true ->
  normalize f0 = f0.
Proof.
  unfold M_read_merge. intros H.
  apply obind_ok in H as (c & _ & H). apply obind_ok in H as (o & _ & H).
  inversion H; subst. apply merge_fields_normal.
Qed.

(* hence one more write/read cycle reproduces the font Read delivered *)
Theorem read_fixed_point t f0 :
  M_read_merge t = Ok f0 -> tables_decoded t = true ->
  bold_settled f0 = true -> underline_settled f0 = true -> in_range f0 = true ->
  exists t', M_cycle f0 = Ok (t', f0).
Proof.
  intros H Hd Hb Hu Hr. eexists. rewrite (cycle_normal_form f0 Hr).
  rewrite (merge_result_normal t f0 H Hd Hb Hu). reflexivity.
Qed.
