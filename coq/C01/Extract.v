From Coq Require Import Extraction ExtrOcamlBasic.
From Common Require Import Conv Outcome.
From C01 Require Import Str Model Spec.
Extraction "c01_model.ml" conv_anchor M_cycle M_read_merge M_write_derive M_codec choose_name
  print_dec normalize in_range canonical.
