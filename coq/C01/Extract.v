From Coq Require Import Extraction ExtrOcamlBasic.
From Common Require Import Conv Outcome.
From Gen Require C01.
From C01 Require Import Str Model Spec Model2.
Extraction "c01_model.ml" conv_anchor M_cycle M_read_merge M_write_derive M_codec choose_name
  print_dec normalize in_range canonical M_written_tags M_name_table_ascii M_os2_derived_of
  Gen.C01.c01_name_appleBCP Gen.C01.c01_name_msBCP.
