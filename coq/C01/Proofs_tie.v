(* C01/Proofs_tie.v — the constants and name tables the model spells out are
   the ones the translator reads from the Go sources on this run. *)
From Coq Require Import List NArith ZArith.
From Gen Require C01.
From C01 Require Import Str Model.
Import ListNotations.

Lemma tie_weight_names : weight_names = Gen.C01.c01_os2_weight_names.
Proof. reflexivity. Qed.

Lemma tie_width_names : width_names = Gen.C01.c01_os2_width_names.
Proof. reflexivity. Qed.

Lemma tie_zero_time : zero1904 = Gen.C01.c01_head_zeroTime.
Proof. reflexivity. Qed.

(* Subfamily() compares with os2.WeightNormal / os2.WidthNormal; Read's
   bold test is about the name of os2.WeightBold *)
Lemma tie_class_constants :
  Gen.C01.c01_os2_WeightNormal = 400%N /\ Gen.C01.c01_os2_WidthNormal = 5%N /\
  assoc_n Gen.C01.c01_os2_WeightBold weight_names = Some s_Bold.
Proof. repeat split; reflexivity. Qed.

Lemma tie_all :
  weight_names = Gen.C01.c01_os2_weight_names /\
  width_names = Gen.C01.c01_os2_width_names /\
  zero1904 = Gen.C01.c01_head_zeroTime /\
  Gen.C01.c01_os2_WeightNormal = 400%N /\ Gen.C01.c01_os2_WidthNormal = 5%N /\
  assoc_n Gen.C01.c01_os2_WeightBold weight_names = Some s_Bold.
Proof.
  split; [exact tie_weight_names|]. split; [exact tie_width_names|]. split; [exact tie_zero_time|].
  exact tie_class_constants.
Qed.
