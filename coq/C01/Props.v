(* C01/Props.v — the property theorems.  Nothing else.

   font, tables          : C01/Model.v   (M_write_derive = write.go/font.go, M_codec = what the
                                          OS/2 and head encoders+readers do to the flag,
                                          permission and time fields, M_read_merge = read.go)
   normalize, in_range,
   canonical             : C01/Spec.v
   M_name_encode,
   M_table_map           : C01/Model2.v  (the two Go map iterations on Write's path)          *)
From Coq Require Import List NArith ZArith Bool.
From Common Require Import Outcome.
From Gen Require C01.
From C01 Require Import Str Model Spec Model2 Proofs Proofs_order Proofs_merge Proofs_tie.
Import ListNotations.

(* P1.  Writing a font value in field range (with a timestamp set) and reading
   the tables back yields the normal form of the value: Write does not fail,
   and Read's merge of what the table codecs deliver is exactly normalize F. *)
Theorem read_write_normal_form :
  forall F : font, in_range F = true -> has_timestamp F = true ->
    exists T, M_write_derive F = Ok T /\ M_read_merge (M_codec T) = Ok (normalize F).
Proof. intros F Hr _. exact (write_read_normal F Hr). Qed.
Print Assumptions read_write_normal_form.

(* P1.  The normal form is idempotent ... *)
Theorem normalize_idempotent :
  forall F : font, in_range F = true -> normalize (normalize F) = normalize F.
Proof. intros F Hr. exact (normalize_idem F (in_range_version F Hr)). Qed.
Print Assumptions normalize_idempotent.

(* ... hence generation 2 equals generation 1: one more write/read cycle of
   the re-read font F1 reproduces F1 (and, M_write_derive being a function,
   the same tables). *)
Theorem generation_two_equals_generation_one :
  forall (F : font) T1 F1, in_range F = true -> M_cycle F = Ok (T1, F1) ->
    exists T2, M_cycle F1 = Ok (T2, F1).
Proof. exact second_generation. Qed.
Print Assumptions generation_two_equals_generation_one.

(* P1.  The written file is a function of the font value: the only inputs of
   Write that are not part of the value are the iteration orders of three Go
   maps (the two language tables ranged over by name.Info.Encode, and
   glyf.Outlines.Tables) and the clock.  For every pair of iteration orders
   the name table (sorted records AND string storage) is the same, every
   entry of the table map is the same, and with a timestamp set the clock is
   not read. *)
Theorem write_is_function_of_value :
  forall (F : font) (enc_mac enc_win : str -> str) (ident : str),
    has_timestamp F = true ->
    (forall apple1 apple2 ms1 ms2 win_enc,
        order_of Gen.C01.c01_name_appleBCP apple1 -> order_of Gen.C01.c01_name_appleBCP apple2 ->
        order_of Gen.C01.c01_name_msBCP ms1 -> order_of Gen.C01.c01_name_msBCP ms2 ->
        let nt := ntable_of (M_write_name F) ident in
        M_name_encode enc_mac enc_win apple1 ms1 win_enc (fst (write_name_tables nt)) (snd (write_name_tables nt))
        = M_name_encode enc_mac enc_win apple2 ms2 win_enc (fst (write_name_tables nt)) (snd (write_name_tables nt)))
    /\ (forall d extra1 extra2,
        NoDup (map fst extra1) -> NoDup (map fst extra2) -> (forall e, In e extra1 <-> In e extra2) ->
        forall tag, tm_get tag (M_table_map d extra1) = tm_get tag (M_table_map d extra2))
    /\ n_ident_day (M_write_name F) <> None.
Proof. exact write_function_of_value_lemma. Qed.
Print Assumptions write_is_function_of_value.

(* Lossless clause: a value that is already consistent (canonical, Spec.v)
   comes back exactly. *)
Theorem lossless_on_canonical :
  forall F : font, in_range F = true -> canonical F = true -> exists T, M_cycle F = Ok (T, F).
Proof. exact canonical_cycle. Qed.
Print Assumptions lossless_on_canonical.

(* Clause (b) in the model: whatever tables Read accepts, the font it builds
   is reproduced by one write/read cycle — provided the tables are what the
   per-table decoders can deliver (tables_decoded), the underline metrics are
   integral, and the font is not in the recorded input class bold_settled
   excludes (weight class rounding to Bold without a bold flag; see
   Examples.merge_result_normal_refuted). *)
Theorem read_write_read_fixed_point :
  forall (T : tables) (F0 : font),
    M_read_merge T = Ok F0 -> tables_decoded T = true ->
    bold_settled F0 = true -> underline_settled F0 = true -> in_range F0 = true ->
    exists T', M_cycle F0 = Ok (T', F0).
Proof. exact read_fixed_point. Qed.
Print Assumptions read_write_read_fixed_point.

(* The two substring tests of read.go, decided for every font: the sub-family
   name Write derives says "Italic" iff the font is italic and not oblique,
   and says "Bold" (without "Semi Bold"/"Extra Bold") iff name_says_bold. *)
Theorem subfamily_tests :
  forall F : font,
    contains s_Italic (subfamily F) = negb (f_oblique F) && f_italic F /\
    contains s_Bold (subfamily F) && negb (contains s_SemiBold (subfamily F))
      && negb (contains s_ExtraBold (subfamily F)) = name_says_bold F.
Proof. exact Proofs_sub.subfamily_tests_lemma. Qed.
Print Assumptions subfamily_tests.

(* The version survives to three decimals: printing (%.03f) and parsing
   (VersionFromString) a 16.16 version gives the value normalize names. *)
Theorem version_print_parse :
  forall v : N, (ver_to_milli v < 65536000)%N ->
    version_from_string (s_Version_sp ++ version_string v) = Some (norm_version v)
    /\ ver_to_milli (norm_version v) = ver_to_milli v.
Proof. exact version_print_parse_lemma. Qed.
Print Assumptions version_print_parse.

(* Translator tie: the weight/width name tables, the class constants and the
   origin of the head clock the model spells out are the ones read from
   os2/weight.go and head/time.go on this run. *)
Theorem model_constants_match_source :
  weight_names = Gen.C01.c01_os2_weight_names /\
  width_names = Gen.C01.c01_os2_width_names /\
  zero1904 = Gen.C01.c01_head_zeroTime /\
  Gen.C01.c01_os2_WeightNormal = 400%N /\ Gen.C01.c01_os2_WidthNormal = 5%N /\
  assoc_n Gen.C01.c01_os2_WeightBold weight_names = Some s_Bold.
Proof. exact tie_all. Qed.
Print Assumptions model_constants_match_source.
