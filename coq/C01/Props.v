From Coq Require Import List NArith ZArith Bool.
From C01 Require Import Str Model Proofs.
Theorem placeholder_thm : True. Proof. exact placeholder. Qed.
Print Assumptions placeholder_thm.
