(* C01/Model.v — the font-level glue of go-sfnt: which table receives which
   field on Write (write.go, font.go), what the per-table encoders/decoders do
   to the flag and permission bits (os2.go, head/time.go), and how Read merges
   the decoded tables back into a Font (read.go).  Executable definitions only.

   Glyph data, character maps and layout tables are opaque identities (their
   own codecs are properties C03, C08, C09, C11, C12, C13, C14); what the glue
   needs from them (glyph count, glyph heights, advance widths, the best
   cmap's entries for 'H' and 'x', the standard-ligature table Read would
   synthesise) is carried as data.  Floats appear on their exact grids only:
   ItalicAngle and the underline metrics in units of 2^-16. *)
From Coq Require Import List NArith ZArith Bool.
From Common Require Import Outcome.
From C01 Require Import Str.
Import ListNotations.
Local Open Scope Z_scope.

(* ------------------------------------------------------------------ fonts *)

(* Outlines as the glue sees them *)
Record outl := mkOutl {
  ol_cff : bool;             (* *cff.Outlines (true) or *glyf.Outlines (false) *)
  ol_id : N;                 (* identity of the glyph data without advance widths *)
  ol_n : N;                  (* NumGlyphs() *)
  ol_heights : list Z;       (* glyphHeight(gid) for every gid *)
  ol_widths : option (list Z); (* advance widths; None = glyf.Outlines.Widths == nil *)
  ol_names : option N;       (* glyf.Outlines.Names identity (nil = None); CFF: None *)
  ol_maxp : option N         (* glyf.Outlines.Maxp identity *)
}.

(* what the glue asks the cmap table *)
Record cmapv := mkCmap {
  cm_id : N;                 (* identity of the raw subtable map *)
  cm_best : bool;            (* GetBest() finds a subtable *)
  cm_H : N;                  (* best.Lookup('H') *)
  cm_x : N;                  (* best.Lookup('x') *)
  cm_lig : option N          (* identity of standardLigatures(best); None = nil *)
}.

Record font := mkFont {
  f_family : str;
  f_width : N;               (* os2.Width, uint16 *)
  f_weight : N;              (* os2.Weight, uint16 *)
  f_regular : bool;
  f_bold : bool;
  f_italic : bool;
  f_oblique : bool;
  f_serif : bool;
  f_script : bool;
  f_cpr : N;                 (* CodePageRange, uint64 *)
  f_version : N;             (* head.Version, uint32 16.16 *)
  f_ctime : option Z;        (* None = zero time.Time; Some unix seconds *)
  f_mtime : option Z;
  f_descr : str;
  f_sample : str;
  f_copyright : str;
  f_trademark : str;
  f_license : str;
  f_licurl : str;
  f_perm : Z;                (* os2.Permissions (int) *)
  f_upm : N;                 (* uint16 *)
  f_asc : Z;                 (* funit.Int16 *)
  f_desc : Z;
  f_gap : Z;
  f_cap : Z;
  f_xh : Z;
  f_angle : Z;               (* ItalicAngle * 65536 *)
  f_upos : Z;                (* UnderlinePosition * 65536 *)
  f_uthick : Z;              (* UnderlineThickness * 65536 *)
  f_outl : outl;
  f_cmap : option cmapv;     (* None = nil CMapTable *)
  f_gdef : option N;
  f_gsub : option N;
  f_gpos : option N
}.

(* ------------------------------------------------------- derived strings *)

Definition is_some {A} (o : option A) : bool := match o with Some _ => true | None => false end.

(* Font.Subfamily() *)
Definition subfamily_words (f : font) : list str :=
  let w1 := if negb (f_width f =? 0)%N && negb (f_width f =? 5)%N then [width_string (f_width f)] else [] in
  let w2 :=
    if negb (f_weight f =? 0)%N && negb (f_weight f =? 400)%N then
      let tag := weight_simple_string (f_weight f) in
      let seen := contains tag (f_family f) || existsb (contains tag) w1 in
      if seen then w1 else w1 ++ [tag]
    else if f_bold f then w1 ++ [s_Bold] else w1 in
  if f_oblique f then w2 ++ [s_Oblique]
  else if f_italic f then w2 ++ [s_Italic] else w2.

Definition subfamily (f : font) : str :=
  match subfamily_words f with
  | [] => s_Regular
  | ws => join_sp ws
  end.

(* Font.FullName(), Font.PostScriptName() *)
Definition full_name (f : font) : str := f_family f ++ 32%N :: subfamily f.
Definition ps_name (f : font) : str := ps_filter (f_family f ++ 45%N :: subfamily f).

(* Font.IsFixedPitch() on integral widths *)
Fixpoint fixed_from (ref : Z) (ws : list Z) : bool :=
  match ws with
  | [] => true
  | w :: ws' =>
    if w =? 0 then fixed_from ref ws'
    else if ref =? 0 then fixed_from w ws'
    else if w =? ref then fixed_from ref ws' else false
  end.
Definition is_fixed_pitch (ws : list Z) : bool :=
  match ws with [] => false | _ => fixed_from 0 ws end.

(* ------------------------------------------------------------------ tables *)

(* head.Info, the fields the glue touches *)
Record t_head := mkHead {
  h_rev : N; h_upm : N; h_created : option Z; h_modified : option Z;
  h_bold : bool; h_italic : bool
}.

(* os2.Info *)
Record t_os2 := mkOs2 {
  o_weight : N; o_width : N;
  o_bold : bool; o_italic : bool; o_regular : bool; o_oblique : bool;
  o_asc : Z; o_desc : Z; o_gap : Z; o_cap : Z; o_xh : Z;
  o_fclass : Z; o_cpr : N; o_perm : Z
}.

(* name.Table (one language), the fields the glue touches.  The Identifier
   is FullName + "; " + Version.String() + "; " + day.Format(...): the model
   keeps the prefix and which timestamp supplies the day (None = time.Now()). *)
Record t_name := mkName {
  n_family : str; n_subfamily : str; n_descr : str; n_copyright : str;
  n_trademark : str; n_license : str; n_licurl : str;
  n_ident_prefix : str; n_ident_day : option Z;
  n_fullname : str; n_version : str; n_psname : str; n_sample : str
}.

(* what name.Decode + Tables.Choose(AmericanEnglish) deliver for the two
   platforms; confidence: 0 No, 1 Low, 2 High, 3 Exact *)
Record t_names := mkNames {
  ns_win : option t_name; ns_winconf : N;
  ns_mac : option t_name; ns_macconf : N
}.

(* post.Info *)
Record t_post := mkPost {
  p_angle : Z;               (* 16.16 *)
  p_upos : Z; p_uthick : Z;  (* funit.Int16 *)
  p_fixed : bool;
  p_names : option N
}.

(* hmtx.Info (hhea + hmtx) *)
Record t_hmtx := mkHmtx {
  x_asc : Z; x_desc : Z; x_gap : Z;
  x_angle : Z;               (* CaretAngle*180/pi on the 16.16 grid *)
  x_widths : option (list Z) (* None = no hmtx data / nil Widths *)
}.

(* type1.FontInfo from the CFF top DICT *)
Record t_cffinfo := mkCffInfo {
  c_fontname : str; c_fullname : str; c_family : str; c_weight : str; c_version : str;
  c_copyright : str; c_notice : str;
  c_angle : Z; c_upos : Z; c_uthick : Z;   (* 16.16 *)
  c_fixed : bool;
  c_fm0_zero : bool;          (* FontMatrix[0] == 0 *)
  c_upm_from_fm : N           (* uint16(math.Round(1/FontMatrix[0])) *)
}.

(* everything sfnt.Read has in hand before merging *)
Record tables := mkTables {
  t_cff : bool;              (* scaler type OTTO (true) or TrueType/Apple (false) *)
  t_hd : option t_head;
  t_hm : option t_hmtx;      (* Some iff the hhea table exists *)
  t_maxp : option (N * option N);  (* NumGlyphs, TTF info identity *)
  t_o2 : option t_os2;
  t_cm : option cmapv;
  t_nm : option t_names;
  t_po : option t_post;
  t_ci : option t_cffinfo;   (* CFF FontInfo (CFF only) *)
  t_ol : outl;               (* decoded glyph data (widths as stored in the glyph data) *)
  t_gdef : option N; t_gsub : option N; t_gpos : option N;
  t_kern : option N          (* identity of the GPOS table Read derives from a kern table *)
}.

(* ----------------------------------------------------------- M_write_derive *)

(* math.Round on a 16.16 value, result in design units (half away from zero) *)
Definition round16 (x : Z) : Z :=
  if 0 <=? x then (x + 32768) / 65536 else - ((- x + 32768) / 65536).

(* the table values Write hands to the encoders (write.go:161-333) *)
Definition name_day (f : font) : option Z :=
  match f_mtime f with Some t => Some t | None => f_ctime f end.

Definition M_write_name (f : font) : t_name :=
  let full := full_name f in
  let vs := version_string (f_version f) in
  mkName (f_family f) (subfamily f) (f_descr f) (f_copyright f) (f_trademark f)
         (f_license f) (f_licurl f)
         (full ++ s_semi_sp ++ vs ++ s_semi_sp) (name_day f)
         full (s_Version_sp ++ vs) (ps_name f) (f_sample f).

(* Font.Widths(): CFF widths come from the glyphs; glyf.Outlines.Widths is
   indexed for every glyph (a short slice panics); a nil slice means "no
   horizontal metrics": all widths read as zero and no hmtx table is written
   (font.go Widths, write.go makeHmtx). *)
Definition font_widths (o : outl) : list Z :=
  match ol_widths o with
  | Some w => w
  | None => if ol_cff o then [] else repeat 0 (N.to_nat (ol_n o))
  end.

(* (widths for the hmtx table, Font.Widths()) *)
Definition write_widths (o : outl) : outcome (option (list Z) * list Z) :=
  match ol_widths o with
  | Some w =>
    if (N.of_nat (length w) <? ol_n o)%N then Panic
    else let w' := firstn (N.to_nat (ol_n o)) w in Ok (Some w', w')
  | None => if ol_cff o then Ok (Some [], []) else Ok (None, font_widths o)
  end.

Definition M_write_tables (f : font) (hw : option (list Z)) (ws : list Z) : tables :=
  let o := f_outl f in
  let italic := negb (f_angle f =? 0) in
  let fclass := if f_serif f then 768 else if f_script f then 2560 else 0 in
  let fixed := is_fixed_pitch ws in
  let nm := M_write_name f in
  mkTables
    (ol_cff o)
    (Some (mkHead (f_version f) (f_upm f) (f_ctime f) (f_mtime f) (f_bold f) italic))
    (Some (mkHmtx (f_asc f) (f_desc f) (f_gap f) (f_angle f) hw))
    (Some (ol_n o, ol_maxp o))
    (Some (mkOs2 (f_weight f) (f_width f) (f_bold f) italic (f_regular f) (f_oblique f)
                 (f_asc f) (f_desc f) (f_gap f) (f_cap f) (f_xh f) fclass (f_cpr f) (f_perm f)))
    (f_cmap f)
    (Some (mkNames (Some nm) 3 (Some nm) 3))
    (Some (mkPost (f_angle f) (round16 (f_upos f)) (round16 (f_uthick f)) fixed
                  (if ol_cff o then None else ol_names o)))
    (if ol_cff o then
       Some (mkCffInfo (ps_name f) (full_name f) (f_family f) (weight_string (f_weight f))
                       (version_string (f_version f)) (replace_copyright (f_copyright f))
                       (f_trademark f) (f_angle f) (f_upos f) (f_uthick f) fixed false (f_upm f))
     else None)
    o (f_gdef f) (f_gsub f) (f_gpos f) None.

Definition M_write_derive (f : font) : outcome tables :=
  hw <- write_widths (f_outl f) ;; Ok (M_write_tables f (fst hw) (snd hw)).

(* ------------------------------------------------------------------ M_codec *)

(* what Encode followed by the table's reader does to the values handed in:
   only the transformations that are not the identity are spelled out. *)

(* head/time.go: 0 in the file means "unset" *)
Definition zero1904 : Z := -2082844800.
Definition codec_time (t : option Z) : option Z :=
  match t with
  | Some u => if u - zero1904 =? 0 then None else Some u
  | None => None
  end.
Definition codec_head (h : t_head) : t_head :=
  mkHead (h_rev h) (h_upm h) (codec_time (h_created h)) (codec_time (h_modified h))
         (h_bold h) (h_italic h).

(* os2.go: fsSelection bits (Encode) and their reading (Read, version 4),
   fsType bits, sxHeight/sCapHeight taken only when positive *)
Definition os2_sel (o : t_os2) : N :=
  ((if o_regular o then 64
    else (if o_italic o then 1 else 0) + (if o_bold o then 32 else 0))
   + (if o_oblique o then 512 else 0) + 128)%N.
Definition os2_permbits (p : Z) : N :=
  if p =? 3 then 2%N else if p =? 2 then 4%N else if p =? 1 then 8%N else 0%N.
Definition os2_perm_of_bits (b : N) : Z :=
  if N.testbit b 3 then 1 else if N.testbit b 2 then 2 else if N.testbit b 1 then 3 else 0.
Definition codec_os2 (o : t_os2) : t_os2 :=
  let sel := os2_sel o in
  mkOs2 (o_weight o) (o_width o)
        (N.land sel 96 =? 32)%N (N.land sel 65 =? 1)%N (negb (N.land sel 64 =? 0)%N)
        (negb (N.land sel 512 =? 0)%N)
        (o_asc o) (o_desc o) (o_gap o)
        (if 0 <? o_cap o then o_cap o else 0) (if 0 <? o_xh o then o_xh o else 0)
        (o_fclass o) (o_cpr o) (os2_perm_of_bits (os2_permbits (o_perm o))).

(* glyf/loca carry neither advance widths nor names nor the maxp values *)
Definition codec_outl (o : outl) : outl :=
  if ol_cff o then mkOutl true (ol_id o) (ol_n o) (ol_heights o) (ol_widths o) None None
  else mkOutl false (ol_id o) (ol_n o) (ol_heights o) None None None.

Definition M_codec (t : tables) : tables :=
  mkTables (t_cff t)
    (option_map codec_head (t_hd t)) (t_hm t) (t_maxp t)
    (option_map codec_os2 (t_o2 t)) (t_cm t) (t_nm t) (t_po t) (t_ci t)
    (codec_outl (t_ol t)) (t_gdef t) (t_gsub t) (t_gpos t) (t_kern t).

(* -------------------------------------------------------------- M_read_merge *)

Definition str_empty (s : str) : bool := match s with [] => true | _ => false end.

(* read.go:171-176 *)
Definition choose_name (ns : option t_names) : option t_name :=
  match ns with
  | None => None
  | Some n =>
    if ((ns_winconf n <? 2)%N && (ns_winconf n <? ns_macconf n)%N) || negb (is_some (ns_win n))
    then ns_mac n else ns_win n
  end.

Definition nth_z (l : list Z) (i : N) : Z := nth (N.to_nat i) l 0.

(* read.go:365-376: fallback from the glyph the best cmap gives for 'H' / 'x' *)
Definition height_fallback (cur : Z) (cm : option cmapv) (o : outl) (pick : cmapv -> N) : Z :=
  if cur =? 0 then
    match cm with
    | Some c =>
      if cm_best c then
        let gid := pick c in
        if negb (gid =? 0)%N && (gid <? ol_n o)%N then nth_z (ol_heights o) gid else cur
      else cur
    | None => cur
    end
  else cur.

Definition opt_or {A} (a b : option A) : option A := match a with Some _ => a | None => b end.

(* glyph-count reconciliation, read.go:195-207 *)
Definition widths_len (h : option t_hmtx) : N :=
  match h with Some x => match x_widths x with Some w => N.of_nat (length w) | None => 0%N end | None => 0%N end.

(* numGlyphs and the (possibly truncated) hmtx data, read.go:187-207 *)
Definition merge_counts (t : tables) : outcome (N * option t_hmtx) :=
  let ng0 := match t_maxp t with Some (n, _) => n | None => 0%N end in
  let wl := widths_len (t_hm t) in
  if (0 <? wl)%N then
    if (ng0 =? 0)%N then Ok (wl, t_hm t)
    else if (ng0 <? wl)%N then
      Ok (ng0, option_map (fun x => mkHmtx (x_asc x) (x_desc x) (x_gap x) (x_angle x)
                                (option_map (firstn (N.to_nat ng0)) (x_widths x))) (t_hm t))
    else if negb (wl =? ng0)%N then Err
    else Ok (ng0, t_hm t)
  else Ok (ng0, t_hm t).

(* the non-empty advance widths of the hmtx table *)
Definition hmtx_widths (hm : option t_hmtx) : option (list Z) :=
  match hm with
  | Some x => match x_widths x with Some ((_ :: _) as w) => Some w | _ => None end
  | None => None
  end.

(* the Outlines value Read builds, read.go:209-292 *)
Definition merge_outl (t : tables) (ng : N) (hm : option t_hmtx) : outcome outl :=
  let hw := hmtx_widths hm in
  let o0 := t_ol t in
  if t_cff t then
    if negb (ng =? 0)%N && negb (ol_n o0 =? ng)%N then Err
    else Ok (mkOutl true (ol_id o0) (ol_n o0) (ol_heights o0)
                    (match hw with Some w => Some w | None => ol_widths o0 end)
                    None None)
  else
    match t_hd t, t_maxp t with
    | None, _ => Err
    | _, None => Err
    | Some _, Some (_, mx) =>
      if negb (ng =? 0)%N && negb (ol_n o0 =? ng)%N then Err
      else Ok (mkOutl false (ol_id o0) (ol_n o0) (ol_heights o0) hw
                      (match t_po t with Some p => p_names p | None => None end) mx)
    end.

(* the individual merge rules, read.go:294-451 *)
Definition mg_name (t : tables) : option t_name := choose_name (t_nm t).

Definition mg_family (t : tables) : str :=
  let family0 := match mg_name t with Some n => n_family n | None => [] end in
  if str_empty family0 then match t_ci t with Some c => c_family c | None => family0 end else family0.

Definition mg_width (t : tables) : N := match t_o2 t with Some o2 => o_width o2 | None => 0%N end.

Definition mg_weight (t : tables) : N :=
  let weight0 := match t_o2 t with Some o2 => o_weight o2 | None => 0%N end in
  if (weight0 =? 0)%N then match t_ci t with Some c => weight_from_string (c_weight c) | None => weight0 end
  else weight0.

Definition mg_version (t : tables) : N :=
  match match mg_name t with Some n => version_from_string (n_version n) | None => None end with
  | Some v => ver_round v
  | None =>
    match t_hd t with
    | Some h => ver_round (h_rev h)
    | None =>
      match t_ci t with
      | Some c => if str_empty (c_version c) then 0%N
                  else match version_from_string (c_version c) with Some v => ver_round v | None => 0%N end
      | None => 0%N
      end
    end
  end.

Definition mg_upm (t : tables) : N :=
  match t_hd t with
  | Some h => h_upm h
  | None => match t_ci t with
            | Some c => if c_fm0_zero c then 1000%N else c_upm_from_fm c
            | None => 1000%N end
  end.

Definition mg_vmetrics (t : tables) (hm : option t_hmtx) : Z * Z * Z :=
  match t_o2 t with
  | Some o2 => (o_asc o2, o_desc o2, o_gap o2)
  | None => match hm with Some x => (x_asc x, x_desc x, x_gap x) | None => (0, 0, 0) end
  end.

Definition mg_cap (t : tables) (o : outl) : Z :=
  height_fallback (match t_o2 t with Some o2 => o_cap o2 | None => 0 end) (t_cm t) o cm_H.
Definition mg_xh (t : tables) (o : outl) : Z :=
  height_fallback (match t_o2 t with Some o2 => o_xh o2 | None => 0 end) (t_cm t) o cm_x.

Definition mg_angle (t : tables) (hm : option t_hmtx) : Z :=
  match t_po t with
  | Some p => p_angle p
  | None => match t_ci t with
            | Some c => c_angle c
            | None => match hm with Some x => x_angle x | None => 0 end
            end
  end.

Definition mg_underline (t : tables) : Z * Z :=
  match t_po t with
  | Some p => (p_upos p * 65536, p_uthick p * 65536)
  | None => match t_ci t with Some c => (c_upos c, c_uthick c) | None => (0, 0) end
  end.

Definition mg_italic (t : tables) (hm : option t_hmtx) : bool :=
  negb (mg_angle t hm =? 0)
  || match t_hd t with Some h => h_italic h | None => false end
  || match t_o2 t with Some o2 => o_italic o2 || o_oblique o2 | None => false end
  || match mg_name t with Some n => contains s_Italic (n_subfamily n) | None => false end.

Definition mg_oblique (t : tables) : bool := match t_o2 t with Some o2 => o_oblique o2 | None => false end.

Definition mg_bold (t : tables) : bool :=
  match t_o2 t with
  | Some o2 => o_bold o2
  | None => match t_hd t with Some h => h_bold h | None => false end
  end
  || match mg_name t with
     | Some n => contains s_Bold (n_subfamily n)
                 && negb (contains s_SemiBold (n_subfamily n))
                 && negb (contains s_ExtraBold (n_subfamily n))
     | None => false end.

Definition mg_regular (t : tables) (hm : option t_hmtx) : bool :=
  if mg_italic t hm || mg_bold t then false
  else match t_o2 t with Some o2 => o_regular o2 | None => false end.

Definition mg_fclass (t : tables) : Z := match t_o2 t with Some o2 => Z.shiftr (o_fclass o2) 8 | None => 0 end.
Definition mg_serif (t : tables) : bool :=
  let fc := mg_fclass t in
  is_some (t_o2 t) && ((fc =? 1) || (fc =? 2) || (fc =? 3) || (fc =? 4) || (fc =? 5) || (fc =? 7)).
Definition mg_script (t : tables) : bool := is_some (t_o2 t) && (mg_fclass t =? 10).

(* read.go:466-480: without a GSUB table Read synthesises the standard
   ligatures unless the font is monospaced *)
Definition mg_gsub (t : tables) (o : outl) : option N :=
  match t_gsub t with
  | Some g => Some g
  | None =>
    if is_fixed_pitch (font_widths o) then None
    else match t_cm t with
         | Some c => if cm_best c then cm_lig c else None
         | None => None end
  end.

(* read.go:482-523: a kern table is consulted only without a GPOS table *)
Definition mg_gpos (t : tables) : option N :=
  match t_gpos t with Some g => Some g | None => t_kern t end.

Definition merge_fields (t : tables) (hm : option t_hmtx) (o : outl) : font :=
  let nt := mg_name t in
  let ci := t_ci t in
  mkFont (mg_family t) (mg_width t) (mg_weight t) (mg_regular t hm) (mg_bold t) (mg_italic t hm)
    (mg_oblique t) (mg_serif t) (mg_script t)
    (match t_o2 t with Some o2 => o_cpr o2 | None => 0%N end)
    (mg_version t)
    (match t_hd t with Some h => h_created h | None => None end)
    (match t_hd t with Some h => h_modified h | None => None end)
    (match nt with Some n => n_descr n | None => [] end)
    (match nt with Some n => n_sample n | None => [] end)
    (match nt with Some n => n_copyright n | None => match ci with Some c => c_copyright c | None => [] end end)
    (match nt with Some n => n_trademark n | None => match ci with Some c => c_notice c | None => [] end end)
    (match nt with Some n => n_license n | None => [] end)
    (match nt with Some n => n_licurl n | None => [] end)
    (match t_o2 t with Some o2 => o_perm o2 | None => 0 end)
    (mg_upm t)
    (fst (fst (mg_vmetrics t hm))) (snd (fst (mg_vmetrics t hm))) (snd (mg_vmetrics t hm))
    (mg_cap t o) (mg_xh t o) (mg_angle t hm)
    (fst (mg_underline t)) (snd (mg_underline t))
    o (t_cm t) (t_gdef t) (mg_gsub t o) (mg_gpos t).

Definition M_read_merge (t : tables) : outcome font :=
  c <- merge_counts t ;;
  o <- merge_outl t (fst c) (snd c) ;;
  Ok (merge_fields t (snd c) o).

(* one write/read cycle: the tables as decoded from the written file, and the
   font Read builds from them *)
Definition M_cycle (f : font) : outcome (tables * font) :=
  t <- M_write_derive f ;;
  let t' := M_codec t in
  f1 <- M_read_merge t' ;;
  Ok (t', f1).
