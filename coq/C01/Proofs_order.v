(* C01/Proofs_order.v — Write's output does not depend on the order in which
   the Go runtime iterates the maps involved. *)
From Coq Require Import List NArith ZArith Bool Lia.
From Gen Require C01.
From C01 Require Import Str Model Spec Model2.
Import ListNotations.
Local Open Scope N_scope.

(* ---------- a fold in which all but one element are no-ops ---------- *)

Lemma fold_left_noop {A S} (step : S -> A -> S) (l : list A) (s : S) :
  (forall x s', In x l -> step s' x = s') -> fold_left step l s = s.
Proof.
  revert s. induction l as [|x l IH]; intros s H; [reflexivity|].
  cbn [fold_left]. rewrite H by (left; reflexivity). apply IH. intros y s' Hy. apply H. right. exact Hy.
Qed.

Lemma fold_left_single {A S} (step : S -> A -> S) (l : list A) (e : A) (s : S) :
  In e l -> NoDup l ->
  (forall x s', In x l -> x <> e -> step s' x = s') ->
  fold_left step l s = step s e.
Proof.
  revert s. induction l as [|x l IH]; intros s Hin Hnd Hno; [contradiction|].
  inversion Hnd as [|? ? Hx Hnd']; subst. cbn [fold_left].
  destruct Hin as [->|Hin].
  - apply fold_left_noop. intros y s' Hy. apply Hno; [right; exact Hy|].
    intros ->. contradiction.
  - rewrite Hno; [|left; reflexivity|intros ->; contradiction].
    apply IH; [exact Hin|exact Hnd'|]. intros y s' Hy Hne. apply Hno; [right; exact Hy|exact Hne].
Qed.

(* an iteration order of a Go map given as its association list: every entry
   once, no other entries *)
Definition order_of {A} (table order : list A) : Prop :=
  NoDup order /\ forall e, In e order <-> In e table.

(* ---------- (1) the language tables ---------- *)

Lemma str_eqb_refl s : str_eqb s s = true.
Proof. induction s as [|c s IH]; [reflexivity|]. cbn [str_eqb]. rewrite N.eqb_refl. exact IH. Qed.

Lemma str_eqb_eq a b : str_eqb a b = true -> a = b.
Proof.
  revert b. induction a as [|x a IH]; intros [|y b] H; try discriminate; [reflexivity|].
  cbn [str_eqb] in H. apply andb_prop in H as [H1 H2]. apply N.eqb_eq in H1. subst. f_equal. apply IH. exact H2.
Qed.

(* in the language tables of this tree exactly one language ID carries the
   tag Write uses (re-checked against the regenerated tables) *)
Definition unique_tag (table : list (N * str)) (tag : str) (id : N) : bool :=
  forallb (fun e => negb (str_eqb tag (snd e)) || ((fst e =? id) && str_eqb (snd e) tag)) table
  && existsb (fun e => (fst e =? id) && str_eqb (snd e) tag) table.

Lemma apple_en_unique : unique_tag Gen.C01.c01_name_appleBCP tag_en 0 = true.
Proof. vm_compute. reflexivity. Qed.

Lemma ms_en_US_unique : unique_tag Gen.C01.c01_name_msBCP tag_en_US 1033 = true.
Proof. vm_compute. reflexivity. Qed.

Section Name.
Variable enc_mac enc_win : str -> str.

(* a step for a language whose tag is not in the (single-entry) map does nothing *)
Lemma lang_step_other platform encoding enc tag t st e :
  str_eqb tag (snd e) = false ->
  lang_step platform encoding enc [(tag, t)] st e = st.
Proof. intros H. unfold lang_step. cbn [tables_get]. rewrite H. reflexivity. Qed.

Lemma lang_fold_single platform encoding enc table tag id t order st :
  unique_tag table tag id = true -> order_of table order ->
  fold_left (lang_step platform encoding enc [(tag, t)]) order st
  = lang_step platform encoding enc [(tag, t)] st (id, tag).
Proof.
  intros Hu [Hnd Hin]. unfold unique_tag in Hu. apply andb_prop in Hu as [Hall Hex].
  rewrite forallb_forall in Hall. apply existsb_exists in Hex as (e0 & He0 & Hm).
  apply andb_prop in Hm as [Hm1 Hm2]. apply N.eqb_eq in Hm1. apply str_eqb_eq in Hm2.
  assert (E0 : e0 = (id, tag)) by (destruct e0; cbn in *; subst; reflexivity). subst e0.
  apply fold_left_single.
  - apply Hin. exact He0.
  - exact Hnd.
  - intros x s' Hx Hne. apply lang_step_other.
    specialize (Hall x (proj1 (Hin x) Hx)).
    destruct (str_eqb tag (snd x)) eqn:E; [|reflexivity].
    cbn [negb orb] in Hall. apply andb_prop in Hall as [H1 H2].
    apply N.eqb_eq in H1. apply str_eqb_eq in H2.
    exfalso. apply Hne. destruct x; cbn in *; subst; reflexivity.
Qed.

(* the name table Write emits is the same for every iteration order of the
   two language maps *)
Theorem name_encode_order_independent (t : ntable) win_enc apple1 apple2 ms1 ms2 :
  order_of Gen.C01.c01_name_appleBCP apple1 -> order_of Gen.C01.c01_name_appleBCP apple2 ->
  order_of Gen.C01.c01_name_msBCP ms1 -> order_of Gen.C01.c01_name_msBCP ms2 ->
  M_name_encode enc_mac enc_win apple1 ms1 win_enc (fst (write_name_tables t)) (snd (write_name_tables t))
  = M_name_encode enc_mac enc_win apple2 ms2 win_enc (fst (write_name_tables t)) (snd (write_name_tables t)).
Proof.
  intros Ha1 Ha2 Hm1 Hm2. unfold M_name_encode, write_name_tables. cbn [fst snd].
  rewrite (lang_fold_single 1 0 enc_mac _ tag_en 0 t apple1 _ apple_en_unique Ha1).
  rewrite (lang_fold_single 1 0 enc_mac _ tag_en 0 t apple2 _ apple_en_unique Ha2).
  rewrite (lang_fold_single 3 win_enc enc_win _ tag_en_US 1033 t ms1 _ ms_en_US_unique Hm1).
  rewrite (lang_fold_single 3 win_enc enc_win _ tag_en_US 1033 t ms2 _ ms_en_US_unique Hm2).
  reflexivity.
Qed.
End Name.

(* ---------- (2) the table map ---------- *)

Lemma tm_get_fold_notin k l m :
  ~ In k (map fst l) -> tm_get k (fold_left tm_set l m) = tm_get k m.
Proof.
  revert m. induction l as [|[k' v] l IH]; intros m H; [reflexivity|].
  cbn [fold_left]. rewrite IH by (intros Hk; apply H; right; exact Hk).
  unfold tm_set. cbn [tm_get]. assert (E : (k =? k') = false).
  { apply N.eqb_neq. intros ->. apply H. left. reflexivity. }
  rewrite E. reflexivity.
Qed.

(* with pairwise distinct keys (a Go map) the inserted value is found *)
Lemma tm_get_fold_in k v l m :
  NoDup (map fst l) -> In (k, v) l -> tm_get k (fold_left tm_set l m) = Some v.
Proof.
  revert m. induction l as [|[k' v'] l IH]; intros m Hnd Hin; [contradiction|].
  cbn [map fst] in Hnd. inversion Hnd as [|? ? Hk Hnd']; subst.
  cbn [fold_left]. destruct Hin as [E|Hin].
  - inversion E; subst. rewrite tm_get_fold_notin by exact Hk.
    unfold tm_set. cbn [tm_get]. rewrite N.eqb_refl. reflexivity.
  - apply IH; assumption.
Qed.

Lemma in_map_fst_iff {A B} (l1 l2 : list (A * B)) :
  (forall e, In e l1 <-> In e l2) -> forall k, In k (map fst l1) <-> In k (map fst l2).
Proof.
  intros H k. rewrite !in_map_iff. split; intros (e & E & Hin); exists e; (split; [exact E|apply H; exact Hin]).
Qed.

Lemma tm_get_fold_order k l1 l2 m :
  NoDup (map fst l1) -> NoDup (map fst l2) -> (forall e, In e l1 <-> In e l2) ->
  tm_get k (fold_left tm_set l1 m) = tm_get k (fold_left tm_set l2 m).
Proof.
  intros H1 H2 Hin.
  destruct (in_dec N.eq_dec k (map fst l1)) as [Hk|Hk].
  - apply in_map_iff in Hk as ([k' v] & E & He). cbn in E. subst k'.
    rewrite (tm_get_fold_in k v l1 m H1 He).
    rewrite (tm_get_fold_in k v l2 m H2 (proj1 (Hin _) He)). reflexivity.
  - rewrite tm_get_fold_notin by exact Hk.
    rewrite tm_get_fold_notin; [reflexivity|].
    intros Hk2. apply Hk. apply (in_map_fst_iff l1 l2 Hin). exact Hk2.
Qed.

(* later insertions see only the lookup function of the map so far *)
Lemma tm_get_fold_ext k l m1 m2 :
  (forall k', tm_get k' m1 = tm_get k' m2) ->
  tm_get k (fold_left tm_set l m1) = tm_get k (fold_left tm_set l m2).
Proof.
  revert m1 m2. induction l as [|[k' v] l IH]; intros m1 m2 H; [apply H|].
  cbn [fold_left]. apply IH. intros k''. unfold tm_set. cbn [tm_get]. rewrite H. reflexivity.
Qed.

(* every table of the file is the same for every iteration order of
   glyf.Outlines.Tables *)
Theorem table_map_order_independent d extra1 extra2 :
  NoDup (map fst extra1) -> NoDup (map fst extra2) -> (forall e, In e extra1 <-> In e extra2) ->
  forall tag, tm_get tag (M_table_map d extra1) = tm_get tag (M_table_map d extra2).
Proof.
  intros H1 H2 Hin tag. unfold M_table_map. cbv zeta.
  apply tm_get_fold_ext. intros k.
  destruct (w_cff d); [reflexivity|].
  apply tm_get_fold_order; assumption.
Qed.

(* ---------- (3) the day in the name-table identifier ---------- *)

(* with a timestamp set, the identifier string does not read the clock *)
Theorem ident_day_from_font f :
  is_some (f_mtime f) || is_some (f_ctime f) = true -> n_ident_day (M_write_name f) <> None.
Proof.
  unfold M_write_name, name_day. cbn [n_ident_day].
  destruct (f_mtime f); [discriminate|]. destruct (f_ctime f); [discriminate|]. cbn. discriminate.
Qed.

Lemma write_function_of_value_lemma :
  forall (F : font) (enc_mac enc_win : str -> str) (ident : str),
    has_timestamp F = true ->
    (forall apple1 apple2 ms1 ms2 win_enc,
        order_of Gen.C01.c01_name_appleBCP apple1 -> order_of Gen.C01.c01_name_appleBCP apple2 ->
        order_of Gen.C01.c01_name_msBCP ms1 -> order_of Gen.C01.c01_name_msBCP ms2 ->
        let nt := ntable_of (M_write_name F) ident in
        M_name_encode enc_mac enc_win apple1 ms1 win_enc (fst (write_name_tables nt)) (snd (write_name_tables nt))
        = M_name_encode enc_mac enc_win apple2 ms2 win_enc (fst (write_name_tables nt)) (snd (write_name_tables nt)))
    /\ (forall d extra1 extra2,
        NoDup (map fst extra1) -> NoDup (map fst extra2) -> (forall e, In e extra1 <-> In e extra2) ->
        forall tag, tm_get tag (M_table_map d extra1) = tm_get tag (M_table_map d extra2))
    /\ n_ident_day (M_write_name F) <> None.
Proof.
  intros F enc_mac enc_win ident Ht. split; [|split].
  - intros. apply name_encode_order_independent; assumption.
  - exact table_map_order_independent.
  - apply ident_day_from_font. exact Ht.
Qed.
