(* C01/Model2.v — the two places where Write's output passes through a Go map
   iteration, with the iteration order made an explicit argument:

   (1) name.Info.Encode (name/name.go:148-260) ranges over the language maps
       appleBCP and msBCP; records are sorted afterwards, but the string
       storage is filled in iteration order;
   (2) Font.Write (write.go:41-99) copies glyf.Outlines.Tables into the table
       map in iteration order, between other insertions.

   Executable definitions only. *)
From Coq Require Import List NArith ZArith Bool.
From Common Require Outcome.
From C01 Require Import Str Model.
Import ListNotations.
Local Open Scope N_scope.

(* ---------------------------------------------------------------- (1) name *)

(* one name.Table: the non-empty strings in increasing name-ID order, which is
   what t.keys() / t.get deliver *)
Definition ntable := list (N * str).

Definition ntable_of (t : t_name) (ident : str) : ntable :=
  filter (fun p => negb (str_empty (snd p)))
    [ (0, n_copyright t); (1, n_family t); (2, n_subfamily t); (3, ident); (4, n_fullname t);
      (5, n_version t); (6, n_psname t); (7, n_trademark t); (10, n_descr t); (13, n_license t);
      (14, n_licurl t); (19, n_sample t) ].

(* name.Tables: BCP 47 tag -> table *)
Definition ntables := list (str * ntable).
Fixpoint tables_get (tag : str) (m : ntables) : option ntable :=
  match m with
  | [] => None
  | (k, t) :: m' => if str_eqb k tag then Some t else tables_get tag m'
  end.

Record nrec := mkRec {
  r_platform : N; r_encoding : N; r_language : N; r_nameid : N; r_off : N; r_len : N
}.

(* nameBuilder: storage bytes and the index of strings already stored *)
Definition nbuilder := (list N * list (str * N))%type.

Fixpoint idx_get (k : str) (idx : list (str * N)) : option N :=
  match idx with
  | [] => None
  | (k', v) :: idx' => if str_eqb k' k then Some v else idx_get k idx'
  end.

(* nameBuilder.Add: offsets and lengths are uint16 *)
Definition nb_add (b : nbuilder) (bytes : str) : nbuilder * (N * N) :=
  let '(data, idx) := b in
  let len := N.of_nat (length bytes) mod 65536 in
  match idx_get bytes idx with
  | Some off => (b, (off, len))
  | None =>
    let off := N.of_nat (length data) mod 65536 in
    ((data ++ bytes, (bytes, off) :: idx), (off, len))
  end.

Section NameEncode.
(* mac.Encode and utf16Encode (property C14) *)
Variable enc_mac : str -> str.
Variable enc_win : str -> str.

Definition enc_state := (nbuilder * list nrec)%type.

(* the body of one "for languageID, tag := range ..." iteration *)
Definition lang_step (platform encoding : N) (enc : str -> str) (m : ntables)
    (st : enc_state) (e : N * str) : enc_state :=
  match tables_get (snd e) m with
  | None => st
  | Some t =>
    fold_left (fun st' p =>
      let '(b, recs) := st' in
      let '(b', (off, len)) := nb_add b (enc (snd p)) in
      (b', recs ++ [mkRec platform encoding (fst e) (fst p) off len])) t st
  end.

(* record order: platform, encoding, language, name ID *)
Definition rec_ltb (a b : nrec) : bool :=
  if negb (r_platform a =? r_platform b) then r_platform a <? r_platform b
  else if negb (r_encoding a =? r_encoding b) then r_encoding a <? r_encoding b
  else if negb (r_language a =? r_language b) then r_language a <? r_language b
  else r_nameid a <? r_nameid b.

Fixpoint rec_insert (r : nrec) (l : list nrec) : list nrec :=
  match l with
  | [] => [r]
  | x :: l' => if rec_ltb r x then r :: l else x :: rec_insert r l'
  end.
Definition rec_sort (l : list nrec) : list nrec := fold_right rec_insert [] l.

(* name.Info.Encode(windowsEncodingID): the sorted records and the storage.
   apple / ms : the language tables in the order the two range loops happen
   to visit them *)
Definition M_name_encode (apple ms : list (N * str)) (win_enc : N) (mac win : ntables)
    : list nrec * list N :=
  let st0 : enc_state := (([], []), []) in
  let st1 := fold_left (lang_step 1 0 enc_mac mac) apple st0 in
  let st2 := fold_left (lang_step 3 win_enc enc_win win) ms st1 in
  (rec_sort (snd st2), fst (fst st2)).
End NameEncode.

Definition tag_en : str := [101; 110].
Definition tag_en_US : str := [101; 110; 45; 85; 83].

(* the name.Info Write builds (write.go:283-291): one table, under "en" for
   the Macintosh platform and under "en-US" for Windows *)
Definition write_name_tables (t : ntable) : ntables * ntables := ([(tag_en, t)], [(tag_en_US, t)]).

(* ---------------------------------------------------------- (2) table map *)

(* tableData: tag -> identity of the encoded bytes; insertion overwrites *)
Definition tmap := list (N * N).
Fixpoint tm_get (k : N) (m : tmap) : option N :=
  match m with
  | [] => None
  | (k', v) :: m' => if k =? k' then Some v else tm_get k m'
  end.
Definition tm_set (m : tmap) (e : N * N) : tmap := e :: m.

Definition opt_entry (tag : N) (v : option N) : list (N * N) :=
  match v with Some x => [(tag, x)] | None => [] end.

(* table tags as big-endian numbers *)
Definition tag_hhea := 1751672161. Definition tag_hmtx := 1752003704.
Definition tag_cmap := 1668112752. Definition tag_OS2 := 1330851634.
Definition tag_name := 1851878757. Definition tag_post := 1886352244.
Definition tag_CFF := 1128678944.  Definition tag_glyf := 1735162214.
Definition tag_loca := 1819239265. Definition tag_maxp := 1835104368.
Definition tag_head := 1751474532. Definition tag_GDEF := 1195656518.
Definition tag_GSUB := 1196643650. Definition tag_GPOS := 1196445523.

(* the encoded tables of one Write call, as identities *)
Record wdata := mkWdata {
  w_cff : bool;
  w_hhea : N; w_hmtx : option N; w_cmap : option N; w_os2 : N; w_name : N; w_post : N;
  w_outl : N; w_loca : N; w_maxp : N; w_head : N;
  w_gdef : option N; w_gsub : option N; w_gpos : option N
}.

(* Font.Write's sequence of insertions; extra = glyf.Outlines.Tables in the
   order the range loop visits it *)
Definition M_table_map (d : wdata) (extra : list (N * N)) : tmap :=
  let ins := fold_left tm_set in
  let m1 := ins ([(tag_hhea, w_hhea d)] ++ opt_entry tag_hmtx (w_hmtx d) ++ opt_entry tag_cmap (w_cmap d)
                 ++ [(tag_OS2, w_os2 d); (tag_name, w_name d); (tag_post, w_post d)]) [] in
  let m2 := if w_cff d then ins [(tag_CFF, w_outl d)] m1
            else ins extra (ins [(tag_glyf, w_outl d); (tag_loca, w_loca d)] m1) in
  ins ([(tag_maxp, w_maxp d); (tag_head, w_head d)]
       ++ opt_entry tag_GDEF (w_gdef d) ++ opt_entry tag_GSUB (w_gsub d) ++ opt_entry tag_GPOS (w_gpos d)) m2.

(* ------------------------------------------------- observable summaries *)

(* which tables Write emits: the keys of the table map, sorted *)
Fixpoint n_insert (x : N) (l : list N) : list N :=
  match l with
  | [] => [x]
  | y :: l' => if x <? y then x :: l else if x =? y then l else y :: n_insert x l'
  end.
Definition n_sort_dedup (l : list N) : list N := fold_right n_insert [] l.

Definition wdata_of (t : tables) : wdata :=
  mkWdata (t_cff t) 0
    (match t_hm t with Some x => match x_widths x with Some _ => Some 0 | None => None end | None => None end)
    (match t_cm t with Some c => Some (cm_id c) | None => None end)
    0 0 0 0 0 0 0 (t_gdef t) (t_gsub t) (t_gpos t).

Definition M_written_tags (t : tables) (extra : list N) : list N :=
  n_sort_dedup (map fst (M_table_map (wdata_of t) (map (fun k => (k, 0)) extra))).

(* the name table of a font whose strings are printable ASCII (where
   mac.Encode is the identity and UTF-16BE puts a zero byte before each
   character), with the language tables visited in the order given *)
Definition printable (s : str) : bool := forallb (fun c => (32 <=? c) && (c <=? 126)) s.
Definition utf16_ascii (s : str) : str := flat_map (fun c => [0; c]) s.

Definition M_name_table_ascii (apple ms : list (N * str)) (f : font) (mday cday : str)
    : option (list nrec * list N) :=
  let nm := M_write_name f in
  match n_ident_day nm with
  | None => None
  | Some _ =>
    let day := if is_some (f_mtime f) then mday else cday in
    let nt := ntable_of nm (n_ident_prefix nm ++ day) in
    if forallb (fun p => printable (snd p)) nt then
      let '(mac, win) := write_name_tables nt in
      Some (M_name_encode (fun s => s) utf16_ascii apple ms 1 mac win)
    else None
  end.

(* ------------------------------------- values makeOS2 derives (write.go:200-232) *)

(* besides the font record Write reads the code range of the best cmap
   subtable and the font bounding box; the advance widths are Font.Widths() *)
Definition wrap_i16 (z : Z) : Z :=
  let m := (z mod 65536)%Z in if (m <? 32768)%Z then m else (m - 65536)%Z.

(* arithmetic mean of the positive widths, rounded *)
Definition M_avg_width (ws : list Z) : Z :=
  let pos := filter (fun w => (0 <? w)%Z) ws in
  let count := Z.of_nat (length pos) in
  let sum := fold_left Z.add pos 0%Z in
  if (0 <? count)%Z then ((sum + count / 2) / count)%Z else 0%Z.

(* uint16(c), saturated at 0xFFFF for code points beyond the BMP *)
Definition char_index (c : Z) : Z := if (65535 <? c)%Z then 65535%Z else (c mod 65536)%Z.

Record os2x := mkOs2x { x_avg : Z; x_first : Z; x_last : Z; x_winasc : Z; x_windesc : Z }.

Definition M_os2_derived (ws : list Z) (range : option (Z * Z)) (lly ury : Z) : os2x :=
  mkOs2x (wrap_i16 (M_avg_width ws))
         (match range with Some (lo, _) => char_index lo | None => 0%Z end)
         (match range with Some (_, hi) => char_index hi | None => 0%Z end)
         ury (wrap_i16 (- lly)).

Definition M_os2_derived_of (f : font) (range : option (Z * Z)) (lly ury : Z) : option os2x :=
  match write_widths (f_outl f) with
  | Common.Outcome.Ok hw => Some (M_os2_derived (snd hw) range lly ury)
  | _ => None
  end.
