From Coq Require Import Extraction ExtrOcamlBasic.
From Common Require Import Conv Outcome.
From Gen Require Import C02.
From C02 Require Import Model.
Extraction "c02_model.ml" conv_anchor gtab_maxScriptListWork gtab_lookupCap gtab_gsubExt gtab_gposExt read_gtab sr_hook f_tag f_lookups l_type l_flags l_mfs l_subs l_calls g_features g_lookups distinct_calls.
