(* C02/Examples.v — non-vacuity: a small well-formed GSUB table with an
   extension lookup is accepted, malformed variants are rejected. *)
From Coq Require Import List NArith ZArith Bool.
From Common Require Import Bytes Outcome.
From Gen Require Import C02.
From C02 Require Import Model Proofs.
Import ListNotations.
Local Open Scope N_scope.

(* header | script list (1 script 'latn' -> script table: default LangSys, 0
   records; LangSys: no features) | feature list (1 feature, 1 lookup index) |
   lookup list (2 lookups: type 1 with one subtable; type 7 (extension) with
   one extension record pointing to a type-2 subtable) *)
Definition ex_table : list N :=
  [0;1;0;0; 0;10; 0;28; 0;42] ++
  (* script list at 10 *) [0;1; 108;97;116;110; 0;8;  0;4; 0;0;  0;0; 255;255; 0;0 ] ++
  (* feature list at 28 *) [0;1; 108;105;103;97; 0;8;  0;0; 0;1; 0;0] ++
  (* lookup list at 42 *) [0;2; 0;6; 0;16;
     (* lookup 0 at +6 *) 0;1; 0;0; 0;1; 0;8;  0;1;
     (* lookup 1 at +16 *) 0;7; 0;0; 0;1; 0;8;  0;1; 0;2; 0;0;0;8;  0;1; 0;0].

Example ex_accepted :
  match read_gtab gtab_maxScriptListWork gtab_lookupCap (sr_hook gtab_gsubExt) ex_table with
  | Ok g => (length (g_features g) =? 1)%nat && (length (g_lookups g) =? 2)%nat &&
            match g_lookups g with
            | [l0; l1] => (l_type l0 =? 1) && (l_type l1 =? 2)
            | _ => false
            end
  | _ => false
  end = true.
Proof. vm_compute. reflexivity. Qed.

Example ex_bytes_lt : forallb (fun b => b <? 256) ex_table = true.
Proof. vm_compute. reflexivity. Qed.

Example ex_truncated_rejected :
  read_gtab gtab_maxScriptListWork gtab_lookupCap (sr_hook gtab_gsubExt) (firstn 60 ex_table) = Err.
Proof. vm_compute. reflexivity. Qed.
