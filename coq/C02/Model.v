(* C02/Model.v — executable mirror of the top-level GSUB/GPOS reader
   (opentype/gtab/gtab.go readGtab, scriptlist.go readScriptList /
   readScriptTable / readLangSysTable, featurelist.go readFeatureList,
   lookup.go readLookupList) over a plain byte view (justified by C17: the
   parser is observationally a random-access view).  The subtable reader is a
   parameter.  Every reader returns an [outcome] and a work counter. *)
From Coq Require Import List NArith ZArith Bool Arith.
From Common Require Import Bytes Outcome.
Import ListNotations.
Local Open Scope N_scope.

(* ---- byte view ---- *)
Definition len (data : list N) : N := N.of_nat (length data).

(* dropping pos elements by binary recursion on pos: no unary numbers are
   built, so that the extracted model can read at offsets up to 2^32 *)
Fixpoint drop_pos (p : positive) (l : list N) : list N :=
  match p with
  | xH => tl l
  | xO q => drop_pos q (drop_pos q l)
  | xI q => tl (drop_pos q (drop_pos q l))
  end.
Definition dropN (n : N) (l : list N) : list N :=
  match n with N0 => l | Npos p => drop_pos p l end.

(* n bytes at absolute offset pos; None iff the read passes the end *)
Definition get (data : list N) (pos n : N) : option (list N) :=
  if (n =? 0) then Some []
  else let r := firstn (N.to_nat n) (dropN pos data) in
       if (length r =? N.to_nat n)%nat then Some r else None.

Definition get16 (data : list N) (pos : N) : option N :=
  match get data pos 2 with Some b => Some (rd16 b) | None => None end.

(* k consecutive uint16 values starting at pos *)
Fixpoint get16s (data : list N) (pos : N) (k : nat) : option (list N) :=
  match k with
  | O => Some []
  | S k' =>
      match get16 data pos with
      | None => None
      | Some v => match get16s data (pos + 2) k' with
                  | None => None
                  | Some r => Some (v :: r)
                  end
      end
  end.

(* ---- script list (accept/reject level + work budget) ---- *)

(* readLangSysTable: returns the remaining budget *)
Definition read_langsys (data : list N) (pos : N) (budget : Z) : outcome Z :=
  match get data pos 6 with
  | None => Err
  | Some b =>
      let lookupOrder := rd16 b in
      let cnt := rd16 (skipn 4 b) in
      if negb (lookupOrder =? 0) then Err
      else
        let budget' := (budget - (1 + Z.of_N cnt))%Z in
        if (budget' <? 0)%Z then Err
        else match get16s data (pos + 6) (N.to_nat cnt) with
             | None => Err
             | Some _ => Ok budget'
             end
  end.

Fixpoint read_langsys_all (data : list N) (base : N) (offs : list N) (budget : Z) : outcome Z :=
  match offs with
  | [] => Ok budget
  | o :: r =>
      match read_langsys data (base + o) budget with
      | Ok b' => read_langsys_all data base r b'
      | Err => Err | Panic => Panic | OutOfFuel => OutOfFuel
      end
  end.

(* the 6-byte records (tag, offset): offsets only *)
Fixpoint get_rec_offsets (data : list N) (pos : N) (k : nat) : option (list N) :=
  match k with
  | O => Some []
  | S k' =>
      match get data pos 6 with
      | None => None
      | Some b => match get_rec_offsets data (pos + 6) k' with
                  | None => None
                  | Some r => Some (rd16 (skipn 4 b) :: r)
                  end
      end
  end.

(* readScriptTable.  Go compares defaultLangSysOffset with 4+6*langSysCount in
   uint16 arithmetic (wraps). *)
Definition read_script_table (size : N) (data : list N) (pos : N) (budget : Z) : outcome Z :=
  match get data pos 4 with
  | None => Err
  | Some b =>
      let dflt := rd16 b in
      let cnt := rd16 (skipn 2 b) in
      if (0 <? dflt) && (dflt <? wrap16 (4 + 6 * cnt)) then Err
      else if size <? 8 + cnt * 12 then Err
      else match get_rec_offsets data (pos + 4) (N.to_nat cnt) with
           | None => Err
           | Some offs =>
               (* the order in which the LangSys tables are read (sorted by
                  offset in Go) does not change accept/reject nor the budget
                  consumed on success; on failure the class is Err either way *)
               read_langsys_all data pos ((if dflt =? 0 then [] else [dflt]) ++ offs) budget
           end
  end.

Fixpoint read_script_tables (size : N) (data : list N) (base : N) (offs : list N) (budget : Z) : outcome Z :=
  match offs with
  | [] => Ok budget
  | o :: r =>
      match read_script_table size data (base + o) budget with
      | Ok b' => read_script_tables size data base r b'
      | Err => Err | Panic => Panic | OutOfFuel => OutOfFuel
      end
  end.

Definition read_script_list (maxwork : Z) (size : N) (data : list N) (pos : N) : outcome Z :=
  match get16 data pos with
  | None => Err
  | Some cnt =>
      if size <? 6 * cnt then Err
      else match get_rec_offsets data (pos + 2) (N.to_nat cnt) with
           | None => Err
           | Some offs =>
               if existsb (fun o => o <? 2 + 6 * cnt) offs then Err
               else read_script_tables size data pos offs maxwork
           end
  end.

(* ---- feature list ---- *)

Record feature := mkFeature { f_tag : N; f_lookups : list N }.

Fixpoint get_feature_recs (data : list N) (pos : N) (k : nat) : option (list (N * N)) :=
  match k with
  | O => Some []
  | S k' =>
      match get data pos 6 with
      | None => None
      | Some b => match get_feature_recs data (pos + 6) k' with
                  | None => None
                  | Some r => Some ((rd32 b, rd16 (skipn 4 b)) :: r)
                  end
      end
  end.

Fixpoint read_features (data : list N) (base : N) (recs : list (N * N)) (total : N)
  : outcome (list feature) :=
  match recs with
  | [] => Ok []
  | (tag, off) :: r =>
      match get data (base + off) 4 with
      | None => Err
      | Some b =>
          let cnt := rd16 (skipn 2 b) in
          if 65535 <? total then Err
          else match get16s data (base + off + 4) (N.to_nat cnt) with
               | None => Err
               | Some idx =>
                   match read_features data base r (total + 4 + 2 * cnt) with
                   | Ok fs => Ok (mkFeature tag idx :: fs)
                   | Err => Err | Panic => Panic | OutOfFuel => OutOfFuel
                   end
               end
      end
  end.

Definition read_feature_list (data : list N) (pos : N) : outcome (list feature) :=
  match get16 data pos with
  | None => Err
  | Some cnt =>
      match get_feature_recs data (pos + 2) (N.to_nat cnt) with
      | None => Err
      | Some recs => read_features data pos recs (2 + 6 * cnt)
      end
  end.

(* ---- lookup list ---- *)

Inductive subt : Type :=
| SExt (tp : N) (off : N)      (* extension subtable *)
| SLeaf (pos tp fmt : N).      (* any other subtable, identified by where it was read *)

(* l_calls: the (position, lookup type) arguments of every subtable-reader call
   made for this lookup, in order (first pass, then the extension pass) *)
Record lookup := mkLookup { l_type : N; l_flags : N; l_mfs : N; l_subs : list subt;
                            l_calls : list (N * N) }.

Fixpoint ext_calls (base t : N) (offs : list N) (subs : list subt) : list (N * N) :=
  match offs, subs with
  | o :: ro, SExt _ eo :: rs => (base + o + eo, t) :: ext_calls base t ro rs
  | _, _ => []
  end.

Section LookupList.
  Variable data : list N.
  Variable sr : N -> N -> outcome subt.      (* subtable reader: position, lookup type *)
  Variable cap : N.                          (* 6000 in the Go source *)

  Fixpoint read_subs (base : N) (tp : N) (offs : list N) : outcome (list subt) :=
    match offs with
    | [] => Ok []
    | o :: r =>
        match sr (base + o) tp with
        | Ok s => match read_subs base tp r with
                  | Ok ss => Ok (s :: ss)
                  | Err => Err | Panic => Panic | OutOfFuel => OutOfFuel
                  end
        | Err => Err | Panic => Panic | OutOfFuel => OutOfFuel
        end
    end.

  (* second pass for extension lookups: every subtable must be an extension
     record of the same type *)
  Fixpoint resolve_ext (base : N) (tp : N) (offs : list N) (subs : list subt) : outcome (list subt) :=
    match offs, subs with
    | o :: ro, SExt t eo :: rs =>
        if negb (t =? tp) then Err
        else match sr (base + o + eo) tp with
             | Ok s => match resolve_ext base tp ro rs with
                       | Ok ss => Ok (s :: ss)
                       | Err => Err | Panic => Panic | OutOfFuel => OutOfFuel
                       end
             | Err => Err | Panic => Panic | OutOfFuel => OutOfFuel
             end
    | _ :: _, SLeaf _ _ _ :: _ => Err
    | [], [] => Ok []
    | _, _ => Panic    (* subtableOffsets[j] out of range: lengths always agree *)
    end.

  (* counters: numLookups + numSubTables so far *)
  Definition read_lookup (pos : N) (off : N) (count : N) : outcome (lookup * N) :=
    let lpos := pos + off in
    match get data lpos 6 with
    | None => Err
    | Some b =>
        let tp := rd16 b in
        let flags := rd16 (skipn 2 b) in
        let n := rd16 (skipn 4 b) in
        let count' := count + 1 + n in
        if cap <? count' then Err
        else match get16s data (lpos + 6) (N.to_nat n) with
             | None => Err
             | Some offs =>
                 let mfs_res :=
                   if N.testbit flags 4 then
                     match get16 data (lpos + 6 + 2 * n) with
                     | None => None
                     | Some m => Some m
                     end
                   else Some 0 in
                 match mfs_res with
                 | None => Err
                 | Some mfs =>
                     match read_subs lpos tp offs with
                     | Ok subs =>
                         match subs with
                         | SExt t _ :: _ =>
                             if t =? tp then Err
                             else match resolve_ext lpos t offs subs with
                                  | Ok subs' => Ok (mkLookup t flags mfs subs'
                                                      (map (fun o => (lpos + o, tp)) offs ++ ext_calls lpos t offs subs), count')
                                  | Err => Err | Panic => Panic | OutOfFuel => OutOfFuel
                                  end
                         | _ => Ok (mkLookup tp flags mfs subs (map (fun o => (lpos + o, tp)) offs), count')
                         end
                     | Err => Err | Panic => Panic | OutOfFuel => OutOfFuel
                     end
                 end
             end
    end.

  Fixpoint read_lookups (pos : N) (offs : list N) (count : N) : outcome (list lookup) :=
    match offs with
    | [] => Ok []
    | o :: r =>
        match read_lookup pos o count with
        | Ok (l, count') =>
            match read_lookups pos r count' with
            | Ok ls => Ok (l :: ls)
            | Err => Err | Panic => Panic | OutOfFuel => OutOfFuel
            end
        | Err => Err | Panic => Panic | OutOfFuel => OutOfFuel
        end
    end.

  Definition read_lookup_list (pos : N) : outcome (list lookup) :=
    match get16 data pos with
    | None => Err
    | Some n =>
        match get16s data (pos + 2) (N.to_nat n) with
        | None => Err
        | Some offs => read_lookups pos offs 0
        end
    end.
End LookupList.

(* the distinct subtable-reader calls of a lookup list: with the decode-once
   cache of readLookupList this is the number of times the real subtable
   reader runs *)
Definition pair_eqb (a b : N * N) : bool := (fst a =? fst b) && (snd a =? snd b).
Fixpoint dedup (l : list (N * N)) (seen : list (N * N)) : list (N * N) :=
  match l with
  | [] => seen
  | x :: r => if existsb (pair_eqb x) seen then dedup r seen else dedup r (x :: seen)
  end.
Definition all_calls (ls : list lookup) : list (N * N) := flat_map l_calls ls.
Definition distinct_calls (ls : list lookup) : N := N.of_nat (length (dedup (all_calls ls) [])).

(* ---- the whole table ---- *)

Record gtab := mkGtab { g_features : list feature; g_lookups : list lookup }.

Section Gtab.
  Variable maxwork : Z.
  Variable cap : N.
  Variable sr : list N -> N -> N -> outcome subt.

  Definition read_gtab (data : list N) : outcome gtab :=
    let size := len data in
    match get data 0 10 with
    | None => Err
    | Some h =>
        let major := rd16 h in
        let minor := rd16 (skipn 2 h) in
        let so := rd16 (skipn 4 h) in
        let fo := rd16 (skipn 6 h) in
        let lo := rd16 (skipn 8 h) in
        if negb (major =? 1) || (1 <? minor) then Err
        else
          let fvo_res := if minor =? 1 then
                           match get data 10 4 with None => None | Some b => Some (rd32 b) end
                         else Some 0 in
          match fvo_res with
          | None => Err
          | Some fvo =>
              let eoh := if minor =? 1 then 14 else 10 in
              if (so =? 0) || (lo =? 0) then Ok (mkGtab [] [])
              else if existsb (fun o => (o <? eoh) || (size <=? o)) [so; fo; lo] then Err
              else if (negb (fvo =? 0) && (fvo <? eoh)) || (size <=? fvo) then Err
              else
                match read_script_list maxwork size data so with
                | Ok _ =>
                    match read_feature_list data fo with
                    | Ok fs =>
                        match read_lookup_list data (sr data) cap lo with
                        | Ok ls => Ok (mkGtab fs ls)
                        | Err => Err | Panic => Panic | OutOfFuel => OutOfFuel
                        end
                    | Err => Err | Panic => Panic | OutOfFuel => OutOfFuel
                    end
                | Err => Err | Panic => Panic | OutOfFuel => OutOfFuel
                end
          end
    end.
End Gtab.

(* The subtable reader used by the correspondence hook: reads the format word
   at pos; for the extension lookup type it decodes the extension record (format
   must be 1 for the hook's reader), otherwise it returns a leaf. *)
Definition sr_hook (ext_type : N) (data : list N) (pos tp : N) : outcome subt :=
  match get16 data pos with
  | None => Err
  | Some fmt =>
      if tp =? ext_type then
        if negb (fmt =? 1) then Err
        else match get data (pos + 2) 6 with
             | None => Err
             | Some b => Ok (SExt (rd16 b) (rd32 (skipn 2 b)))
             end
      else Ok (SLeaf pos tp fmt)
  end.
