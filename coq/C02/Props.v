(* C02/Props.v — property theorems for the part of "decoders are total" that
   is modelled here: the top-level GSUB/GPOS reader.  The totality theorems of
   the other decoders live with their codecs (C03 C08 C09 C11 C12 C13 C14 C15
   C17) and are listed in DESIGN.md section 4, C02. *)
From Coq Require Import List NArith ZArith Bool Arith Lia.
From Common Require Import Bytes Outcome.
From Gen Require Import C02.
From C02 Require Import Model Proofs.
Import ListNotations.
Local Open Scope N_scope.

(* gtab.Read never panics and never runs out of fuel, for every byte string
   and every subtable reader that itself does not panic. *)
Theorem gtab_read_total :
  forall (sr : list N -> N -> N -> outcome subt) (data : list N),
    (forall pos tp, good (sr data pos tp)) ->
    good (read_gtab gtab_maxScriptListWork gtab_lookupCap sr data).
Proof. intros sr data H. exact (read_gtab_good _ _ sr data H). Qed.
Print Assumptions gtab_read_total.

(* ... in particular with the subtable reader the correspondence hook uses *)
Theorem gtab_read_total_hook :
  forall (ext : N) (data : list N),
    good (read_gtab gtab_maxScriptListWork gtab_lookupCap (sr_hook ext) data).
Proof. intros. apply read_gtab_good. intros. apply sr_hook_good. Qed.
Print Assumptions gtab_read_total_hook.

(* Work bound, lookup list: whatever is accepted has at most cap lookups plus
   subtables, so the subtable reader is called at most 2*cap times (once per
   subtable, once more per extension record), whatever the offsets alias. *)
Theorem gtab_lookup_objects_bounded :
  forall sr data g,
    bytes_lt data ->
    read_gtab gtab_maxScriptListWork gtab_lookupCap sr data = Ok g ->
    lookups_size (g_lookups g) <= gtab_lookupCap /\
    (g_features g = [] \/ features_size (g_features g) <= 65535 + 4 + 2 * 65535).
Proof. intros sr data g Hd H. exact (read_gtab_sizes _ _ sr data g Hd H). Qed.
Print Assumptions gtab_lookup_objects_bounded.

(* Work bound, script list: the number of LangSys tables visited (aliased
   offsets counted every time) is bounded by the budget constant of the code. *)
Theorem script_list_work_bounded :
  forall size data base offs b',
    read_script_tables size data base offs gtab_maxScriptListWork = Ok b' ->
    (Z.of_N (total_visits data base offs) <= gtab_maxScriptListWork - b')%Z.
Proof.
  intros size data base offs b' H.
  pose proof (read_script_tables_visits size data base offs _ _ H). lia.
Qed.
Print Assumptions script_list_work_bounded.

(* each LangSys read costs its feature count + 1 *)
Theorem langsys_cost :
  forall data pos b b', read_langsys data pos b = Ok b' -> (0 <= b' /\ b' + 1 <= b)%Z.
Proof. exact read_langsys_budget. Qed.
Print Assumptions langsys_cost.

(* The model's byte access is exactly the plain random-access view that C17
   proves the parser to be: n bytes at pos, failing iff the read passes the end. *)
Theorem get_is_plain_view :
  forall data pos n b,
    get data pos n = Some b <->
    (n = 0 /\ b = []) \/
    (0 < n /\ pos + n <= len data /\ b = sub data (N.to_nat pos) (N.to_nat n)).
Proof. exact get_spec. Qed.
Print Assumptions get_is_plain_view.

(* The number of distinct subtable-reader calls (what the decode-once cache of
   readLookupList lets the real subtable readers run) never exceeds the number
   of calls the model logs. *)
Theorem distinct_calls_bounded :
  forall ls, (N.to_nat (distinct_calls ls) <= length (all_calls ls))%nat.
Proof. exact distinct_calls_le. Qed.
Print Assumptions distinct_calls_bounded.
