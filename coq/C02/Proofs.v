(* C02/Proofs.v — totality (no Panic, no fuel) and work bounds of the top-level
   GSUB/GPOS reader model. *)
From Coq Require Import List NArith ZArith Bool Arith Lia.
From Coq Require Import ZifyBool ZifyNat ZifyN.
From Common Require Import Bytes Outcome.
From C02 Require Import Model.
Import ListNotations.
Local Open Scope N_scope.

Definition good {A} (x : outcome A) : Prop := x <> Panic /\ x <> OutOfFuel.

Lemma good_ok {A} (a : A) : good (Ok a). Proof. split; discriminate. Qed.
Lemma good_err {A} : good (@Err A). Proof. split; discriminate. Qed.
#[global] Hint Resolve good_ok good_err : core.

Ltac break_match :=
  match goal with
  | |- context [match ?x with _ => _ end] => destruct x eqn:?
  | |- context [if ?x then _ else _] => destruct x eqn:?
  end.

(* ---------- script list ---------- *)

Lemma read_langsys_good data pos b : good (read_langsys data pos b).
Proof. unfold read_langsys. repeat break_match; auto. Qed.

Lemma read_langsys_budget data pos b b' :
  read_langsys data pos b = Ok b' -> (0 <= b' /\ b' + 1 <= b)%Z.
Proof.
  unfold read_langsys.
  destruct (get data pos 6) as [l|]; [|discriminate].
  set (cnt := rd16 (skipn 4 l)).
  destruct (negb (rd16 l =? 0)); [discriminate|].
  destruct (Z.ltb_spec (b - (1 + Z.of_N cnt)) 0) as [Hlt|Hge]; [discriminate|].
  destruct (get16s data (pos + 6) (N.to_nat cnt)); [|discriminate].
  intros H. assert (Hb : b' = (b - (1 + Z.of_N cnt))%Z) by congruence.
  lia.
Qed.

Lemma read_langsys_all_good data base offs : forall b, good (read_langsys_all data base offs b).
Proof.
  induction offs as [|o r IH]; intros b; cbn [read_langsys_all]; auto.
  pose proof (read_langsys_good data (base + o) b) as [H1 H2].
  destruct (read_langsys data (base + o) b); auto; congruence.
Qed.

(* every LangSys table read costs at least one unit of budget *)
Lemma read_langsys_all_budget data base offs : forall b b',
  read_langsys_all data base offs b = Ok b' ->
  ((0 <= b')%Z \/ offs = []) /\ (b' + Z.of_nat (length offs) <= b)%Z.
Proof.
  induction offs as [|o r IH]; intros b b'; cbn [read_langsys_all length].
  - intros [= <-]. split; [now right|lia].
  - destruct (read_langsys data (base + o) b) as [b1| | |] eqn:E; try discriminate.
    intros H. apply read_langsys_budget in E. destruct (IH _ _ H) as [H1 H2].
    split; [left|lia].
    destruct H1 as [H1|H1]; [lia|]. subst r. cbn in H. injection H as <-. lia.
Qed.

Lemma read_script_table_good size data pos b : good (read_script_table size data pos b).
Proof.
  unfold read_script_table. repeat break_match; auto; apply read_langsys_all_good.
Qed.

Lemma read_script_table_budget size data pos b b' :
  read_script_table size data pos b = Ok b' -> (b' <= b)%Z.
Proof.
  unfold read_script_table. repeat break_match; try discriminate;
    intros H; apply read_langsys_all_budget in H; lia.
Qed.

Lemma read_script_tables_good size data base offs : forall b, good (read_script_tables size data base offs b).
Proof.
  induction offs as [|o r IH]; intros b; cbn [read_script_tables]; auto.
  pose proof (read_script_table_good size data (base + o) b) as [H1 H2].
  destruct (read_script_table size data (base + o) b); auto; congruence.
Qed.

Lemma read_script_list_good mw size data pos : good (read_script_list mw size data pos).
Proof.
  unfold read_script_list. repeat break_match; auto; apply read_script_tables_good.
Qed.

(* The number of LangSys tables visited while reading a script list, as a
   function of the bytes alone (aliased offsets are counted each time). *)
Definition script_visits (data : list N) (pos : N) : N :=
  match get data pos 4 with
  | None => 0
  | Some b => (if rd16 b =? 0 then 0 else 1) + rd16 (skipn 2 b)
  end.

Fixpoint total_visits (data : list N) (base : N) (offs : list N) : N :=
  match offs with
  | [] => 0
  | o :: r => script_visits data (base + o) + total_visits data base r
  end.

Lemma get_rec_offsets_length data : forall k pos offs,
  get_rec_offsets data pos k = Some offs -> length offs = k.
Proof.
  induction k as [|k IH]; intros pos offs; cbn [get_rec_offsets].
  - intros [= <-]. reflexivity.
  - destruct (get data pos 6); [|discriminate].
    destruct (get_rec_offsets data (pos + 6) k) eqn:E; [|discriminate].
    intros [= <-]. cbn. f_equal. eapply IH; eauto.
Qed.

Lemma read_script_table_visits size data pos b b' :
  read_script_table size data pos b = Ok b' ->
  (b' + Z.of_N (script_visits data pos) <= b)%Z.
Proof.
  unfold read_script_table, script_visits.
  destruct (get data pos 4) as [hb|]; [|discriminate].
  repeat break_match; try discriminate; intros H;
    apply read_langsys_all_budget in H; destruct H as [_ H];
    rewrite ?app_length in H; cbn [length] in H;
    match goal with
    | E : get_rec_offsets _ _ _ = Some _ |- _ => apply get_rec_offsets_length in E
    end; lia.
Qed.

Lemma read_script_tables_visits size data base offs : forall b b',
  read_script_tables size data base offs b = Ok b' ->
  (b' + Z.of_N (total_visits data base offs) <= b)%Z.
Proof.
  induction offs as [|o r IH]; intros b b'; cbn [read_script_tables total_visits].
  - intros [= <-]. lia.
  - destruct (read_script_table size data (base + o) b) as [b1| | |] eqn:E; try discriminate.
    intros H. apply read_script_table_visits in E. apply IH in H. lia.
Qed.

(* ---------- feature list ---------- *)

Lemma read_features_good data base recs : forall total, good (read_features data base recs total).
Proof.
  induction recs as [|[tag off] r IH]; intros total; cbn [read_features]; auto.
  repeat break_match; auto;
    match goal with
    | E : read_features _ _ _ _ = _ |- _ =>
        pose proof (IH (total + 4 + 2 * rd16 (skipn 2 l))) as [H1 H2]; congruence
    end.
Qed.

Lemma read_feature_list_good data pos : good (read_feature_list data pos).
Proof.
  unfold read_feature_list. repeat break_match; auto; apply read_features_good.
Qed.

Lemma get16s_length data : forall k pos l, get16s data pos k = Some l -> length l = k.
Proof.
  induction k as [|k IH]; intros pos l; cbn [get16s].
  - intros [= <-]. reflexivity.
  - destruct (get16 data pos); [|discriminate].
    destruct (get16s data (pos + 2) k) eqn:E; [|discriminate].
    intros [= <-]. cbn. f_equal. eapply IH; eauto.
Qed.

Definition bytes_lt (l : list N) : Prop := Forall (fun b => b < 256) l.

Lemma bytes_lt_skipn l k : bytes_lt l -> bytes_lt (skipn k l).
Proof.
  unfold bytes_lt. revert l. induction k as [|k IH]; intros l H; cbn [skipn]; auto.
  destruct l as [|x l]; auto. apply IH. now inversion H.
Qed.

Lemma bytes_lt_firstn l k : bytes_lt l -> bytes_lt (firstn k l).
Proof.
  unfold bytes_lt. revert l. induction k as [|k IH]; intros l H; cbn [firstn]; auto.
  destruct l as [|x l]; auto. inversion H; subst. constructor; auto.
Qed.

Lemma bytes_lt_tl l : bytes_lt l -> bytes_lt (tl l).
Proof. intros H. destruct l; cbn; auto. now inversion H. Qed.

Lemma bytes_lt_drop_pos p : forall l, bytes_lt l -> bytes_lt (drop_pos p l).
Proof.
  induction p as [q IH|q IH|]; intros l H; cbn [drop_pos].
  - apply bytes_lt_tl. auto.
  - auto.
  - now apply bytes_lt_tl.
Qed.

Lemma get_bytes_lt data pos n b : bytes_lt data -> get data pos n = Some b -> bytes_lt b.
Proof.
  unfold get. intros Hd. destruct (n =? 0).
  - intros [= <-]. constructor.
  - match goal with |- (if ?c then _ else _) = _ -> _ => destruct c end; [|discriminate].
    intros [= <-]. apply bytes_lt_firstn.
    destruct pos as [|p]; cbn [dropN]; auto. now apply bytes_lt_drop_pos.
Qed.

Lemma rd16_lt l : bytes_lt l -> rd16 l < 65536.
Proof.
  intros H. destruct l as [|a [|b r]]; cbn [rd16]; try lia.
  inversion H as [|? ? Ha H']; subst. inversion H' as [|? ? Hb _]; subst. lia.
Qed.

Definition features_size (fs : list feature) : N :=
  fold_right (fun f acc => 4 + 2 * N.of_nat (length (f_lookups f)) + acc) 0 fs.

(* The decoded feature list is never larger than 64 KiB of encoded data plus
   one feature: the total-size guard of the reader. *)
Lemma read_features_bound data base recs : bytes_lt data -> forall total fs,
  read_features data base recs total = Ok fs ->
  fs = [] \/ total + features_size fs <= 65535 + 4 + 2 * 65535.
Proof.
  intros Hd.
  induction recs as [|[tag off] r IH]; intros total fs; cbn [read_features].
  - intros [= <-]. now left.
  - destruct (get data (base + off) 4) as [b|] eqn:Eg; [|discriminate].
    destruct (N.ltb_spec 65535 total) as [Et|Et]; [discriminate|].
    set (cnt := rd16 (skipn 2 b)) in *.
    destruct (get16s data (base + off + 4) (N.to_nat cnt)) as [idx|] eqn:Ei; [|discriminate].
    destruct (read_features data base r (total + 4 + 2 * cnt)) as [fs'| | |] eqn:Er;
      try discriminate.
    intros H. assert (Hfs : fs = mkFeature tag idx :: fs') by congruence. subst fs. right.
    apply get16s_length in Ei.
    assert (Hc : cnt < 65536).
    { apply rd16_lt, bytes_lt_skipn. eapply get_bytes_lt; eauto. }
    assert (Hsz : features_size (mkFeature tag idx :: fs') = 4 + 2 * cnt + features_size fs').
    { unfold features_size at 1. cbn [fold_right f_lookups]. fold (features_size fs'). rewrite Ei. lia. }
    rewrite Hsz.
    destruct (IH _ _ Er) as [->|Hb]; [cbn [features_size fold_right]|]; lia.
Qed.

(* ---------- lookup list ---------- *)

Section LookupListSizes.
  Variable data : list N.
  Variable sr : N -> N -> outcome subt.
  Variable cap : N.

  Lemma read_subs_length base tp offs : forall subs,
    read_subs sr base tp offs = Ok subs -> length subs = length offs.
  Proof.
    induction offs as [|o r IH]; intros subs; cbn [read_subs].
    - intros [= <-]. reflexivity.
    - destruct (sr (base + o) tp); try discriminate.
      destruct (read_subs sr base tp r) eqn:E; try discriminate.
      intros [= <-]. cbn. f_equal. now apply IH.
  Qed.

  Lemma resolve_ext_length base tp : forall offs subs subs',
    resolve_ext sr base tp offs subs = Ok subs' -> length subs' = length offs.
  Proof.
    induction offs as [|o ro IH]; intros subs subs'; destruct subs as [|s rs]; cbn [resolve_ext];
      try discriminate.
    - intros [= <-]. reflexivity.
    - destruct s as [t eo|p t f]; try discriminate.
      destruct (negb (t =? tp)); try discriminate.
      destruct (sr (base + o + eo) tp); try discriminate.
      destruct (resolve_ext sr base tp ro rs) eqn:E; try discriminate.
      intros [= <-]. cbn. f_equal. eapply IH; eauto.
  Qed.

  Lemma read_lookup_count pos off count l count' :
    read_lookup data sr cap pos off count = Ok (l, count') ->
    count' = count + 1 + N.of_nat (length (l_subs l)) /\ count' <= cap.
  Proof.
    unfold read_lookup.
    destruct (get data (pos + off) 6) as [b|]; [|discriminate].
    set (n := rd16 (skipn 4 b)).
    destruct (N.ltb_spec cap (count + 1 + n)) as [Hc|Hc]; [discriminate|].
    destruct (get16s data (pos + off + 6) (N.to_nat n)) as [offs|] eqn:Eo; [|discriminate].
    apply get16s_length in Eo.
    match goal with |- (match ?m with _ => _ end) = _ -> _ => destruct m end; [|discriminate].
    destruct (read_subs sr (pos + off) (rd16 b) offs) as [subs| | |] eqn:Es; try discriminate.
    apply read_subs_length in Es.
    destruct subs as [|[t eo|p t f] rs].
    - intros H. assert (Hl : l_subs l = []) by (injection H as <- _; reflexivity).
      assert (Hc' : count' = count + 1 + n) by congruence. rewrite Hl. cbn [length] in *. lia.
    - destruct (t =? rd16 b); [discriminate|].
      destruct (resolve_ext sr (pos + off) t offs (SExt t eo :: rs)) as [subs'| | |] eqn:Er;
        try discriminate.
      apply resolve_ext_length in Er.
      intros H. assert (Hl : l_subs l = subs') by (injection H as <- _; reflexivity).
      assert (Hc' : count' = count + 1 + n) by congruence. rewrite Hl. cbn [length] in *. lia.
    - intros H.
      assert (Hl : l_subs l = SLeaf p t f :: rs) by (injection H as <- _; reflexivity).
      assert (Hc' : count' = count + 1 + n) by congruence. rewrite Hl. cbn [length] in *. lia.
  Qed.

  Definition lookups_size (ls : list lookup) : N :=
    fold_right (fun l acc => 1 + N.of_nat (length (l_subs l)) + acc) 0 ls.

  Lemma read_lookups_size pos offs : forall count ls,
    count <= cap ->
    read_lookups data sr cap pos offs count = Ok ls ->
    count + lookups_size ls <= cap.
  Proof.
    induction offs as [|o r IH]; intros count ls Hc; cbn [read_lookups].
    - intros [= <-]. cbn. lia.
    - destruct (read_lookup data sr cap pos o count) as [[l c']| | |] eqn:El; try discriminate.
      apply read_lookup_count in El. destruct El as [Ec' Hle].
      destruct (read_lookups data sr cap pos r c') as [ls'| | |] eqn:Er; try discriminate.
      intros H. assert (ls = l :: ls') by congruence. subst ls.
      specialize (IH _ _ Hle Er).
      assert (Hs : lookups_size (l :: ls') = 1 + N.of_nat (length (l_subs l)) + lookups_size ls').
      { reflexivity. }
      rewrite Hs. lia.
  Qed.

  Lemma read_lookup_list_size pos ls :
    read_lookup_list data sr cap pos = Ok ls -> lookups_size ls <= cap.
  Proof.
    unfold read_lookup_list.
    destruct (get16 data pos); [|discriminate].
    destruct (get16s data (pos + 2) (N.to_nat n)); [|discriminate].
    intros H. apply read_lookups_size in H; lia.
  Qed.

End LookupListSizes.

Section LookupListProofs.
  Variable data : list N.
  Variable sr : N -> N -> outcome subt.
  Variable cap : N.
  Hypothesis sr_good : forall pos tp, good (sr pos tp).

  Lemma read_subs_good base tp offs : good (read_subs sr base tp offs).
  Proof.
    induction offs as [|o r IH]; cbn [read_subs]; auto.
    pose proof (sr_good (base + o) tp) as [H1 H2]. destruct IH as [H3 H4].
    destruct (sr (base + o) tp); auto; try congruence.
    destruct (read_subs sr base tp r); auto; congruence.
  Qed.

  Lemma resolve_ext_good base tp : forall offs subs,
    length subs = length offs -> good (resolve_ext sr base tp offs subs).
  Proof.
    induction offs as [|o ro IH]; intros subs Hl; destruct subs as [|s rs]; cbn in Hl; try lia.
    - cbn. auto.
    - cbn [resolve_ext]. destruct s as [t eo|p t f]; auto.
      destruct (negb (t =? tp)); auto.
      pose proof (sr_good (base + o + eo) tp) as [H1 H2].
      destruct (sr (base + o + eo) tp); auto; try congruence.
      assert (Hl' : length rs = length ro) by lia.
      destruct (IH rs Hl') as [H3 H4].
      destruct (resolve_ext sr base tp ro rs); auto; congruence.
  Qed.

  Lemma read_lookup_good pos off count : good (read_lookup data sr cap pos off count).
  Proof.
    unfold read_lookup.
    destruct (get data (pos + off) 6) as [b|]; auto.
    destruct (cap <? count + 1 + rd16 (skipn 4 b)); auto.
    destruct (get16s data (pos + off + 6) (N.to_nat (rd16 (skipn 4 b)))) as [offs|] eqn:Eo; auto.
    match goal with |- good (match ?m with _ => _ end) => destruct m end; auto.
    pose proof (read_subs_good (pos + off) (rd16 b) offs) as [H1 H2].
    destruct (read_subs sr (pos + off) (rd16 b) offs) as [subs| | |] eqn:Es; auto; try congruence.
    destruct subs as [|[t eo|p t f] rs]; auto.
    destruct (t =? rd16 b); auto.
    apply read_subs_length in Es.
    pose proof (resolve_ext_good (pos + off) t offs (SExt t eo :: rs) Es) as [H3 H4].
    destruct (resolve_ext sr (pos + off) t offs (SExt t eo :: rs)); auto; congruence.
  Qed.

  (* the counter is exactly numLookups + numSubTables, and it never exceeds cap *)
  Lemma read_lookups_good pos offs : forall count, good (read_lookups data sr cap pos offs count).
  Proof.
    induction offs as [|o r IH]; intros count; cbn [read_lookups]; auto.
    pose proof (read_lookup_good pos o count) as [H1 H2].
    destruct (read_lookup data sr cap pos o count) as [[l c']| | |]; auto; try congruence.
    destruct (IH c') as [H3 H4].
    destruct (read_lookups data sr cap pos r c'); auto; congruence.
  Qed.

  Lemma read_lookup_list_good pos : good (read_lookup_list data sr cap pos).
  Proof.
    unfold read_lookup_list. repeat break_match; auto; apply read_lookups_good.
  Qed.
End LookupListProofs.

(* ---------- whole table ---------- *)

Lemma read_gtab_good maxwork cap sr data :
  (forall pos tp, good (sr data pos tp)) ->
  good (read_gtab maxwork cap sr data).
Proof.
  intros Hsr. unfold read_gtab.
  destruct (get data 0 10) as [h|]; auto.
  destruct (negb (rd16 h =? 1) || (1 <? rd16 (skipn 2 h))); auto.
  match goal with |- good (match ?m with _ => _ end) => destruct m end; auto.
  destruct ((rd16 (skipn 4 h) =? 0) || (rd16 (skipn 8 h) =? 0)); auto.
  match goal with |- good (if ?c then _ else _) => destruct c end; auto.
  match goal with |- good (if ?c then _ else _) => destruct c end; auto.
  pose proof (read_script_list_good maxwork (len data) data (rd16 (skipn 4 h))) as [H1 H2].
  destruct (read_script_list maxwork (len data) data (rd16 (skipn 4 h))); auto; try congruence.
  pose proof (read_feature_list_good data (rd16 (skipn 6 h))) as [H3 H4].
  destruct (read_feature_list data (rd16 (skipn 6 h))); auto; try congruence.
  pose proof (read_lookup_list_good data (sr data) cap Hsr (rd16 (skipn 8 h))) as [H5 H6].
  destruct (read_lookup_list data (sr data) cap (rd16 (skipn 8 h))); auto; congruence.
Qed.

Lemma sr_hook_good ext data pos tp : good (sr_hook ext data pos tp).
Proof. unfold sr_hook. repeat break_match; auto. Qed.

Lemma read_gtab_sizes maxwork cap sr data g :
  bytes_lt data ->
  read_gtab maxwork cap sr data = Ok g ->
  lookups_size (g_lookups g) <= cap /\
  (g_features g = [] \/ features_size (g_features g) <= 65535 + 4 + 2 * 65535).
Proof.
  intros Hd. unfold read_gtab.
  destruct (get data 0 10) as [h|]; [|discriminate].
  destruct (negb (rd16 h =? 1) || (1 <? rd16 (skipn 2 h))); [discriminate|].
  match goal with |- (match ?m with _ => _ end) = _ -> _ => destruct m end; [|discriminate].
  destruct ((rd16 (skipn 4 h) =? 0) || (rd16 (skipn 8 h) =? 0)).
  { intros [= <-]. cbn. split; [lia|now left]. }
  match goal with |- (if ?c then _ else _) = _ -> _ => destruct c end; [discriminate|].
  match goal with |- (if ?c then _ else _) = _ -> _ => destruct c end; [discriminate|].
  destruct (read_script_list maxwork (len data) data (rd16 (skipn 4 h))); try discriminate.
  destruct (read_feature_list data (rd16 (skipn 6 h))) as [fs| | |] eqn:Ef; try discriminate.
  destruct (read_lookup_list data (sr data) cap (rd16 (skipn 8 h))) as [ls| | |] eqn:El; try discriminate.
  intros [= <-]. cbn [g_lookups g_features]. split.
  - eapply read_lookup_list_size; eauto.
  - unfold read_feature_list in Ef.
    destruct (get16 data (rd16 (skipn 6 h))) as [cnt|]; [|discriminate].
    destruct (get_feature_recs data (rd16 (skipn 6 h) + 2) (N.to_nat cnt)) as [recs|]; [|discriminate].
    apply (read_features_bound data _ _ Hd) in Ef. destruct Ef as [->|Hb]; [now left|right; lia].
Qed.

(* ---------- the fast byte access is the plain view of C17 ---------- *)

Lemma sub_length_exact' {A} (l : list A) off n :
  length (sub l off n) = Nat.min n (length l - off).
Proof. unfold sub. now rewrite firstn_length, skipn_length. Qed.

Lemma tl_skipn {A} (l : list A) n : tl (skipn n l) = skipn (S n) l.
Proof.
  revert l. induction n as [|n IH]; intros l.
  - destruct l; reflexivity.
  - destruct l as [|x l]; [reflexivity|]. cbn [skipn]. rewrite IH. reflexivity.
Qed.

Lemma drop_pos_skipn p : forall l, drop_pos p l = skipn (Pos.to_nat p) l.
Proof.
  induction p as [q IH|q IH|]; intros l; cbn [drop_pos].
  - rewrite !IH, skipn_skipn', tl_skipn. f_equal. lia.
  - rewrite !IH, skipn_skipn'. f_equal. lia.
  - destruct l; reflexivity.
Qed.

Lemma dropN_skipn n l : dropN n l = skipn (N.to_nat n) l.
Proof. destruct n as [|p]; cbn [dropN]; [reflexivity|]. rewrite drop_pos_skipn. reflexivity. Qed.

Lemma get_spec data pos n b :
  get data pos n = Some b <->
  (n = 0 /\ b = []) \/
  (0 < n /\ pos + n <= len data /\ b = sub data (N.to_nat pos) (N.to_nat n)).
Proof.
  unfold get, len. destruct (N.eqb_spec n 0) as [->|Hn].
  - split.
    + intros [= <-]. left. auto.
    + intros [[_ ->]|[H _]]; [reflexivity|lia].
  - rewrite dropN_skipn. fold (sub data (N.to_nat pos) (N.to_nat n)).
    rewrite sub_length_exact'.
    destruct (Nat.eqb_spec (Nat.min (N.to_nat n) (length data - N.to_nat pos)) (N.to_nat n)) as [E|E].
    + split.
      * intros [= <-]. right. repeat split; lia.
      * intros [[H _]|(_ & _ & ->)]; [lia|reflexivity].
    + split; [discriminate|].
      intros [[H _]|(H1 & H2 & _)]; lia.
Qed.

(* ---------- distinct subtable-reader calls ---------- *)

Lemma dedup_length l : forall seen, (length (dedup l seen) <= length l + length seen)%nat.
Proof.
  induction l as [|x r IH]; intros seen; cbn [dedup length]; [lia|].
  destruct (existsb (pair_eqb x) seen).
  - specialize (IH seen). lia.
  - specialize (IH (x :: seen)). cbn [length] in IH. lia.
Qed.

Lemma distinct_calls_le ls : (N.to_nat (distinct_calls ls) <= length (all_calls ls))%nat.
Proof. unfold distinct_calls. pose proof (dedup_length (all_calls ls) []). cbn [length] in *. lia. Qed.
