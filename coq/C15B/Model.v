(* C15B/Model.v — the GENERAL layout pipeline of Font.NewLayouter /
   Layouter.Layout (layout.go), built as a composition of pieces that are
   verified elsewhere and imported here, never copied:

     cmap lookup            C15.Model.cmap_lookup        (C09 behind it)
     feature selection      C15.Model.M_find_lookups     (find_lookups_wf ...)
     shaping                C06.Model.R_shape            (the reference shaper,
                            every GSUB/GPOS lookup type of C06, lookup flags,
                            GDEF classes, nested lookups)
     advance widths         C15.Model.set_widths / num_glyphs / glyph_width /
                            is_mark: the width loop of layout.go as it is now
                            (fixes/C07-layout-gid-beyond-font.diff: a glyph id
                            >= Font.NumGlyphs() is left alone)

   S_layout_general: characters -> glyphs through the cmap (unmapped -> glyph
   0, every glyph carries its character) -> R_shape over the selected GSUB
   lookups -> every glyph the font has and whose GDEF class is not Mark gets
   the font's advance width (glyph ids >= NumGlyphs are skipped; a glyph id
   below NumGlyphs but beyond the width slice makes Go panic: Panic) ->
   R_shape over the selected GPOS lookups.

   The main development (C15.Model.M_layout) models the engine only on the
   fragment sfnt.Read synthesises (LNone / LPair / LLiga); here the lookup
   lists are C06's, i.e. arbitrary GSUB/GPOS content.

   Definitions only.  C06's names are used unqualified, C15's qualified. *)
From Coq Require Import List NArith ZArith Bool Arith.
From Common Require Import Bytes Outcome.
From Gen Require Import Consts C06 C15.
From C06 Require Import Model.
From C15 Require Model Entry.
Import ListNotations.
Local Open Scope N_scope.

(* the main development's glyph record (glyph.Info) *)
Notation ginfo := C15.Model.ginfo.
Notation mkGI := C15.Model.mkG.
Notation g_gid := C15.Model.g_gid.
Notation g_text := C15.Model.g_text.
Notation g_xoff := C15.Model.g_xoff.
Notation g_yoff := C15.Model.g_yoff.
Notation g_adv := C15.Model.g_adv.

(* the same five fields in C06's record *)
Definition to_g (g : ginfo) : glyph := mkG (g_gid g) (g_text g) (g_xoff g) (g_yoff g) (g_adv g).
Definition of_g (g : glyph) : ginfo := mkGI (gid g) (gtext g) (gx g) (gy g) (gadv g).

(* ------------------------------------------------------------------ *)
(* Fonts with general GSUB/GPOS content                               *)

(* gtab.Info: script list, feature list (C15's), lookup list (C06's) *)
Record gtable (tag : Type) : Type := mkGtable {
  gt_scripts : list (tag * option C15.Model.features);
  gt_features : list C15.Model.feature;
  gt_lookups : list lookup
}.
Arguments mkGtable {tag}.
Arguments gt_scripts {tag}.
Arguments gt_features {tag}.
Arguments gt_lookups {tag}.

Record gfont (tag : Type) : Type := mkGfont {
  gf_cmap : list (N * N);                 (* the best cmap subtable: rune -> gid *)
  gf_outlines : C15.Model.outlines;       (* number of glyphs, advance widths *)
  gf_gdef : option gdef;                  (* GDEF: classes, attachment classes, mark sets *)
  gf_gsub : option (gtable tag);
  gf_gpos : option (gtable tag)
}.
Arguments mkGfont {tag}.
Arguments gf_cmap {tag}.
Arguments gf_outlines {tag}.
Arguments gf_gdef {tag}.
Arguments gf_gsub {tag}.
Arguments gf_gpos {tag}.

(* what gdef.Table.IsMark looks at *)
Definition gdef_classes (gd : option gdef) : option (list (N * N)) := option_map gd_class gd.

(* ------------------------------------------------------------------ *)
(* The stages                                                          *)

(* `for _, r := range s { seq = append(seq, glyph.Info{GID: cmap.Lookup(r), Text: []rune{r}}) }` *)
Definition map_chars (cm : list (N * N)) (s : list N) : list ginfo :=
  map (fun r => mkGI (C15.Model.cmap_lookup cm r) [r] 0 0 0) s.

(* gtab.NewContext(ll, gdef, sel).Apply(seq) = C06's reference shaper *)
Definition shape (ll : list lookup) (gd : option gdef) (sel : list N) (seq : list ginfo) : list ginfo :=
  map of_g (R_shape ll gd (map N.to_nat sel) (map to_g seq)).

Definition shape_in_domain (ll : list lookup) (gd : option gdef) (sel : list N) (seq : list ginfo) : bool :=
  in_domain ll gd (map N.to_nat sel) (map to_g seq).

(* `if l.gsub != nil { seq = l.gsub.Apply(seq) }` *)
Definition pass {tag} (t : option (gtable tag)) (gd : option gdef) (sel : option (list N))
           (seq : list ginfo) : list ginfo :=
  match t, sel with
  | Some g, Some ls => shape (gt_lookups g) gd ls seq
  | _, _ => seq
  end.

Definition pass_in_domain {tag} (t : option (gtable tag)) (gd : option gdef) (sel : option (list N))
           (seq : list ginfo) : bool :=
  match t, sel with
  | Some g, Some ls => shape_in_domain (gt_lookups g) gd ls seq
  | _, _ => true
  end.

(* the width loop of Layout: C15's set_widths (glyph ids >= NumGlyphs are
   skipped, marks keep the advance they have, Panic when GlyphWidth indexes
   beyond the width slice) *)
Definition assign_widths (o : C15.Model.outlines) (gd : option gdef) (seq : list ginfo)
  : outcome (list ginfo) :=
  C15.Model.set_widths o (gdef_classes gd) seq.

Section Layout.
  Context {tag lang : Type}.
  Variable tag_leb : tag -> tag -> bool.
  Variable matcher : lang -> list tag -> nat.          (* x/text, any function *)
  Variable iter1 : list (tag * option C15.Model.features) -> list (tag * option C15.Model.features).
  Variable iter2 : list N -> list N.
  Variable gsub_defaults gpos_defaults : C15.Model.switches.

  (* NewLayouter: FindLookups on the table's script/feature list with the
     caller's switches (nil = the defaults); None when the table is absent *)
  Definition sel_lookups (defaults : C15.Model.switches) (t : option (gtable tag)) (l : lang)
             (sw : option C15.Model.switches) : outcome (option (list N)) :=
    match t with
    | None => Ok None
    | Some g =>
        ls <- C15.Model.M_find_lookups tag_leb matcher iter1 iter2 (gt_scripts g) (gt_features g)
                (N.of_nat (length (gt_lookups g))) l
                (match sw with Some m => m | None => defaults end) ;;
        Ok (Some ls)
    end.

  (* Layouter.Layout for the selected lookups *)
  Definition S_layout_with (f : gfont tag) (gsubSel gposSel : option (list N)) (s : list N)
    : outcome (list ginfo) :=
    let seq0 := map_chars (gf_cmap f) s in
    let seq1 := pass (gf_gsub f) (gf_gdef f) gsubSel seq0 in
    seq2 <- assign_widths (gf_outlines f) (gf_gdef f) seq1 ;;
    Ok (pass (gf_gpos f) (gf_gdef f) gposSel seq2).

  (* NewLayouter followed by Layout *)
  Definition S_layout_general (f : gfont tag) (l : lang) (gsubSw gposSw : option C15.Model.switches)
             (s : list N) : outcome (list ginfo) :=
    gs <- sel_lookups gsub_defaults (gf_gsub f) l gsubSw ;;
    gp <- sel_lookups gpos_defaults (gf_gpos f) l gposSw ;;
    S_layout_with f gs gp s.

  (* both shaping passes stay inside C06's in_domain (where the engine is
     required to agree with R_shape) *)
  Definition layout_in_domain_with (f : gfont tag) (gsubSel gposSel : option (list N)) (s : list N) : bool :=
    let seq0 := map_chars (gf_cmap f) s in
    pass_in_domain (gf_gsub f) (gf_gdef f) gsubSel seq0 &&
    match assign_widths (gf_outlines f) (gf_gdef f) (pass (gf_gsub f) (gf_gdef f) gsubSel seq0) with
    | Ok seq2 => pass_in_domain (gf_gpos f) (gf_gdef f) gposSel seq2
    | _ => true
    end.

  (* observation of the correspondence: None = outside the domain *)
  Definition layout_observe (f : gfont tag) (l : lang) (gsubSw gposSw : option C15.Model.switches)
             (s : list N) : outcome (option (list ginfo)) :=
    gs <- sel_lookups gsub_defaults (gf_gsub f) l gsubSw ;;
    gp <- sel_lookups gpos_defaults (gf_gpos f) l gposSw ;;
    if layout_in_domain_with f gs gp s then omap Some (S_layout_with f gs gp s) else Ok None.
End Layout.

(* ------------------------------------------------------------------ *)
(* Entry point for extraction: tags are the bytes of Tag.String(), the
   matcher is the table the harness obtained from x/text, map enumeration
   orders are irrelevant (find_lookups_deterministic) and fixed, defaults
   are the regenerated sets. *)

Definition tagT : Type := C15.Entry.tagT.

Definition run_layout_general (tbl : list (list tagT * nat)) (f : gfont tagT)
           (gsw psw : option C15.Model.switches) (s : list N) : outcome (option (list ginfo)) :=
  layout_observe C15.Model.lex_leb (C15.Entry.table_matcher tbl) (fun x => x) (fun x => x)
                 gtab_GsubDefaultFeatures gtab_GposDefaultFeatures f tt gsw psw s.

(* the lookups NewLayouter selects (printed for diagnosis) *)
Definition run_selection (tbl : list (list tagT * nat)) (gsub : bool) (t : option (gtable tagT))
           (sw : option C15.Model.switches) : outcome (option (list N)) :=
  sel_lookups C15.Model.lex_leb (C15.Entry.table_matcher tbl) (fun x => x) (fun x => x)
              (if gsub then gtab_GsubDefaultFeatures else gtab_GposDefaultFeatures) t tt sw.
