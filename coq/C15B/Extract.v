From Coq Require Import Extraction ExtrOcamlBasic.
From Common Require Import Conv Outcome.
From Gen Require Import Consts C06 C15.
From C15B Require Import Model.
Extraction "c15b_model.ml" conv_anchor run_layout_general run_selection.
