(* C15B/Proofs_effects.v — what the effect of one non-contextual subtable can
   be (classification of C06's simple_effect), and from it, through the
   invariant theorem of Proofs_engine.v, what whole shaping passes conserve:

     positioning lookups (GPOS 1 2 4 6 7 8)  glyph ids and texts
     substitution lookups (GSUB 1-6, 8)      zero offsets/advances
     every lookup                            the multiset of characters
     ligatures that skip nothing             the characters in order        *)
From Coq Require Import List NArith ZArith Bool Arith Lia Permutation.
From Gen Require Import Consts C06.
From C06 Require Import Model Spec Util Proofs.
From C15B Require Import Model Spec Util Proofs_engine.
Import ListNotations.

(* ------------------------------------------------------------------ *)
(* classification                                                      *)

Definition effect_shape (kp : N -> bool) (seq : list glyph) (a b : nat) (sub : subtable)
           (g0 : glyph) (e : effect) : Prop :=
  match e with
  | ESet [(p1, g')] _ =>
      p1 = a /\
      ((substitutes sub = true /\ exists h, g' = set_gid h g0) \/
       (positions sub = true /\ gid g' = gid g0 /\ gtext g' = gtext g0))
  | ESet [(p1, g'); (p2, g'')] _ =>
      p1 = a /\ a < p2 /\ positions sub = true /\ gid g' = gid g0 /\ gtext g' = gtext g0 /\
      exists g1, nth_error seq p2 = Some g1 /\ gid g'' = gid g1 /\ gtext g'' = gtext g1
  | ESet _ _ => False
  | EInsert p gs => p = a /\ substitutes sub = true /\ exists h hs, gs = set_gid h g0 :: map fresh hs
  | EMerge ms lig =>
      substitutes sub = true /\ is_lig sub = true /\
      exists out preds qs, lig = mkG out (flat_map (text_at seq) ms) 0%Z 0%Z 0%Z /\ ms = a :: qs /\
                           match_seq kp preds (slice seq (S a) b) (S a) = Some qs
  end.

Lemma simple_effect_shape : forall gd kp seq a b sub e ok,
  simple_effect gd kp seq a b sub = Some (e, ok) ->
  exists g0, nth_error seq a = Some g0 /\ effect_shape kp seq a b sub g0 e.
Proof.
  intros gd kp seq a b sub e ok H. unfold simple_effect in H.
  destruct (nth_error seq a) as [g0|] eqn:Ea; [|discriminate].
  exists g0. split; [reflexivity|].
  destruct sub; try discriminate.
  - destruct (memN (gid g0) cov); inversion H; subst. cbn. split; [reflexivity|]. left. split; [reflexivity|eauto].
  - destruct (assoc (gid g0) m); inversion H; subst. cbn. split; [reflexivity|]. left. split; [reflexivity|eauto].
  - destruct (assoc (gid g0) m) as [[|h hs]|]; inversion H; subst. cbn. split; [reflexivity|]. split; [reflexivity|eauto].
  - destruct (assoc (gid g0) m) as [[|h hs]|]; inversion H; subst. cbn. split; [reflexivity|]. left. split; [reflexivity|eauto].
  - (* ligature *)
    destruct (assoc (gid g0) m) as [ligs|]; [|discriminate].
    destruct (find_lig kp seq a b (gid g0) ligs) as [[ms out]|] eqn:El; inversion H; subst.
    apply find_lig_inv in El. destruct El as (pre & comps & post & _ & _ & Hm).
    apply match_input_inv in Hm. destruct Hm as (g0' & qs & _ & _ & _ & Hq & ->).
    cbn. split; [reflexivity|]. split; [reflexivity|]. exists out, (map PGlyph comps), qs. auto.
  - destruct (memN (gid g0) cov); inversion H; subst. cbn. split; [reflexivity|]. right. auto.
  - destruct (assoc (gid g0) m); inversion H; subst. cbn. split; [reflexivity|]. right. auto.
  - (* pair 1 *)
    destruct (next_kept kp (slice seq (S a) b) (S a)) as [[[g1 l'] p]|] eqn:En; [|discriminate].
    apply pair_second_kept in En. destruct En as (Hap & Hn & Hk).
    destruct (assoc (gid g0) m) as [row|]; [|discriminate].
    destruct (assoc (gid g1) row) as [[v1 [v2|]]|]; inversion H; subst; cbn.
    + split; [reflexivity|]. split; [exact Hap|]. split; [reflexivity|]. split; [reflexivity|]. split; [reflexivity|].
      exists g1. auto.
    + split; [reflexivity|]. right. auto.
  - (* pair 2 *)
    destruct (memN (gid g0) cov); [|discriminate].
    destruct (next_kept kp (slice seq (S a) b) (S a)) as [[[g1 l'] p]|] eqn:En; [|discriminate].
    apply pair_second_kept in En. destruct En as (Hap & Hn & Hk).
    destruct (nth_error m (N.to_nat (class_of cd1 (gid g0)))) as [row|]; [|discriminate].
    destruct (nth_error row (N.to_nat (class_of cd2 (gid g1)))) as [[v1 [v2|]]|]; inversion H; subst; cbn.
    + split; [reflexivity|]. split; [exact Hap|]. split; [reflexivity|]. split; [reflexivity|]. split; [reflexivity|].
      exists g1. auto.
    + split; [reflexivity|]. right. auto.
  - (* mark to base *)
    destruct (assoc (gid g0) marks) as [[cls [mx my]]|]; [|discriminate].
    destruct (find_base bases (rev (firstn a seq)) 1) as [[anchors d]|]; [|discriminate].
    destruct (nth_error anchors cls) as [[[bx byy]|]|]; inversion H; subst.
    cbn. split; [reflexivity|]. right. auto.
  - (* mark to mark *)
    destruct (assoc (gid g0) marks1) as [[cls [mx my]]|]; [|discriminate].
    destruct (negb (mm_same (next_kept kp (rev (firstn a seq)) 0) (find_base marks2 (rev (firstn a seq)) 1))).
    + inversion H; subst. cbn. split; [reflexivity|]. right. auto.
    + destruct (next_kept kp (rev (firstn a seq)) 0) as [[[g2 l2] d]|]; [|discriminate].
      destruct (assoc (gid g2) marks2) as [anchors|]; [|discriminate].
      destruct (nth_error anchors cls) as [[[bx byy]|]|]; inversion H; subst.
      cbn. split; [reflexivity|]. right. auto.
  - (* reverse chaining *)
    destruct (assoc (gid g0) m) as [h|]; [|discriminate].
    destruct (match_ctx kp (map PCov back) (rev (firstn a seq)) && match_ctx kp (map PCov look) (skipn (S a) seq));
      inversion H; subst. cbn. split; [reflexivity|]. left. split; [reflexivity|eauto].
Qed.

Lemma in_forallb {A} (f : A -> bool) l x : forallb f l = true -> In x l -> f x = true.
Proof. intros H Hin. rewrite forallb_forall in H. apply H, Hin. Qed.

(* in a positioning lookup only the positioning effects occur *)
Lemma gpos_not_gsub_effect : forall kp seq a b sub g0 e,
  is_gpos_sub sub = true -> effect_shape kp seq a b sub g0 e ->
  match e with
  | ESet [(p1, g')] _ => p1 = a /\ gid g' = gid g0 /\ gtext g' = gtext g0
  | ESet [(p1, g'); (p2, g'')] _ =>
      p1 = a /\ a < p2 /\ gid g' = gid g0 /\ gtext g' = gtext g0 /\
      exists g1, nth_error seq p2 = Some g1 /\ gid g'' = gid g1 /\ gtext g'' = gtext g1
  | _ => False
  end.
Proof.
  intros kp seq a b sub g0 e Hp Hs. unfold is_gpos_sub in Hp. apply negb_true_iff in Hp.
  destruct e as [upd next|p gs|ms lig]; cbn [effect_shape] in Hs.
  - destruct upd as [|[p1 g'] [|[p2 g''] [|? ?]]]; try contradiction.
    + destruct Hs as (-> & [(Hg & _)|(_ & H1 & H2)]); [congruence|auto].
    + destruct Hs as (-> & Hlt & _ & H1 & H2 & H3). auto.
  - destruct Hs as (_ & Hg & _). congruence.
  - destruct Hs as (Hg & _). congruence.
Qed.

(* ------------------------------------------------------------------ *)
(* (A) positioning lookups never change glyph ids or texts              *)

Definition same_glyphs (x y : list glyph) : Prop :=
  map gid x = map gid y /\ map gtext x = map gtext y.

Lemma same_glyphs_refl x : same_glyphs x x.
Proof. split; reflexivity. Qed.

Lemma same_glyphs_trans x y z : same_glyphs x y -> same_glyphs y z -> same_glyphs x z.
Proof. intros [A1 A2] [B1 B2]. split; congruence. Qed.

Lemma same_glyphs_set_nth (l : list glyph) p g g' :
  nth_error l p = Some g -> gid g' = gid g -> gtext g' = gtext g -> same_glyphs l (set_nth p g' l).
Proof.
  intros Hn H1 H2. split; symmetry; eapply map_set_nth; eassumption.
Qed.

Lemma gpos_effect_same : forall gd lk sub seq a b e ok s,
  gpos_lookup lk = true -> In sub (lk_subs lk) ->
  simple_effect gd (kp_of gd lk) seq a b sub = Some (e, ok) -> s_seq s = seq ->
  same_glyphs seq (s_seq (fst (apply_effect e s))).
Proof.
  intros gd lk sub seq a b e ok s Hal Hin H Hs.
  pose proof (in_forallb _ _ _ Hal Hin) as Hp.
  destruct (simple_effect_shape _ _ _ _ _ _ _ _ H) as (g0 & Hn & Hsh).
  pose proof (gpos_not_gsub_effect _ _ _ _ _ _ _ Hp Hsh) as Hc.
  destruct e as [upd next|p gs|ms lig]; try contradiction.
  destruct upd as [|[p1 g'] [|[p2 g''] [|? ?]]]; try contradiction.
  - destruct Hc as (-> & H1 & H2). cbn [apply_effect fst s_seq fold_left snd]. rewrite Hs.
    eapply same_glyphs_set_nth; eassumption.
  - destruct Hc as (-> & Hlt & H1 & H2 & g1 & Hn1 & H3 & H4).
    cbn [apply_effect fst s_seq fold_left snd]. rewrite Hs.
    apply (same_glyphs_trans _ (set_nth a g' seq)); [eapply same_glyphs_set_nth; eassumption|].
    eapply same_glyphs_set_nth; [|eassumption|eassumption].
    rewrite nth_error_set_nth_other by lia. exact Hn1.
Qed.

Theorem gpos_pass_same_glyphs : forall ll gd order seq,
  gpos_list ll = true -> same_glyphs seq (R_shape ll gd order seq).
Proof.
  intros ll gd order seq Hl.
  apply (R_shape_invariant same_glyphs same_glyphs_refl same_glyphs_trans ll gd
           (fun lk => gpos_lookup lk = true)).
  - intros lk Hin. apply (in_forallb _ _ _ Hl Hin).
  - intros. eapply gpos_effect_same; eassumption.
Qed.

(* ------------------------------------------------------------------ *)
(* (C) substitution lookups leave offsets and advances zero             *)

Definition zero_pos (g : glyph) : Prop := gx g = 0%Z /\ gy g = 0%Z /\ gadv g = 0%Z.
Definition keeps_zero (x y : list glyph) : Prop := Forall zero_pos x -> Forall zero_pos y.

Lemma gsub_effect_zero : forall gd lk sub seq a b e ok s,
  gsub_lookup lk = true -> In sub (lk_subs lk) ->
  simple_effect gd (kp_of gd lk) seq a b sub = Some (e, ok) -> s_seq s = seq ->
  keeps_zero seq (s_seq (fst (apply_effect e s))).
Proof.
  intros gd lk sub seq a b e ok s Hal Hin H Hs Hz.
  pose proof (in_forallb _ _ _ Hal Hin) as Hg.
  destruct (simple_effect_shape _ _ _ _ _ _ _ _ H) as (g0 & Hn & Hsh).
  assert (Hz0 : zero_pos g0).
  { rewrite Forall_forall in Hz. apply Hz. eapply nth_error_In; exact Hn. }
  unfold is_gsub_sub in Hg. apply negb_true_iff in Hg.
  destruct e as [upd next|p gs|ms lig]; cbn [effect_shape] in Hsh.
  - destruct upd as [|[p1 g'] [|[p2 g''] [|? ?]]]; try contradiction.
    + destruct Hsh as (-> & [(_ & h & ->)|(Hp & _)]); [|congruence].
      cbn [apply_effect fst s_seq fold_left snd]. rewrite Hs.
      apply Forall_set_nth; [exact Hz|exact Hz0].
    + destruct Hsh as (_ & _ & Hp & _). congruence.
  - destruct Hsh as (-> & _ & h & hs & ->). cbn [apply_effect fst s_seq]. rewrite Hs.
    apply Forall_forall. intros x Hx. rewrite Forall_forall in Hz.
    apply in_app_or in Hx. destruct Hx as [Hx|Hx]; [apply Hz; eapply In_firstn; exact Hx|].
    apply in_app_or in Hx. destruct Hx as [Hx|Hx]; [|apply Hz; eapply In_skipn; exact Hx].
    destruct Hx as [<-|Hx]; [exact Hz0|].
    apply in_map_iff in Hx. destruct Hx as (h' & <- & _). repeat split.
  - destruct Hsh as (_ & _ & out & preds & qs & -> & -> & _). cbn [apply_effect fst s_seq hd tl]. rewrite Hs.
    apply Forall_forall. intros x Hx. rewrite Forall_forall in Hz.
    apply in_app_or in Hx. destruct Hx as [Hx|Hx]; [apply Hz; eapply In_firstn; exact Hx|].
    destruct Hx as [<-|Hx]; [repeat split|].
    apply Hz. eapply In_skipn. eapply In_drop_at. exact Hx.
Qed.

Theorem gsub_pass_keeps_zero : forall ll gd order seq,
  gsub_list ll = true -> Forall zero_pos seq -> Forall zero_pos (R_shape ll gd order seq).
Proof.
  intros ll gd order seq Hl.
  apply (R_shape_invariant keeps_zero (fun x H => H) (fun x y z A B H => B (A H)) ll gd
           (fun lk => gsub_lookup lk = true)).
  - intros lk Hin. apply (in_forallb _ _ _ Hl Hin).
  - intros. eapply gsub_effect_zero; eassumption.
Qed.

(* ------------------------------------------------------------------ *)
(* (D) every lookup conserves the multiset of characters                *)

Definition text (l : list glyph) : list N := flat_map gtext l.

Lemma text_app l1 l2 : text (l1 ++ l2) = text l1 ++ text l2.
Proof. apply flat_map_app. Qed.

(* the text of the glyphs at the matched positions, read off the list the
   matcher ran over (which starts at position p) *)
Definition text_rel (l : list glyph) (p : nat) (q : nat) : list N :=
  match nth_error l (q - p) with Some g => gtext g | None => [] end.

Lemma match_seq_perm : forall kp preds l p qs,
  match_seq kp preds l p = Some qs ->
  Permutation (text l) (flat_map (text_rel l p) qs ++ text (drop_at l p qs)).
Proof.
  intros kp preds. induction preds as [|pr preds IH]; intros l p qs H; cbn [match_seq] in H.
  - inversion H; subst. cbn [flat_map app]. rewrite drop_at_beyond by (intros q []). apply Permutation_refl.
  - destruct (next_kept kp l p) as [[[g l'] q]|] eqn:En; [|discriminate].
    destruct (test_pred pr (gid g)); [|discriminate].
    destruct (match_seq kp preds l' (S q)) as [qs'|] eqn:E; [|discriminate].
    inversion H; subst. clear H.
    apply next_kept_spec in En. destruct En as (Hle & Hn & Hk & Hl & Hs).
    pose proof (match_seq_bounds _ _ _ _ _ E) as Hb.
    assert (Hsplit : l = firstn (q - p) l ++ g :: l').
    { subst l'. apply firstn_skipn_cons. exact Hn. }
    assert (Hlen : length (firstn (q - p) l) = q - p).
    { apply firstn_length_le. assert (q - p < length l) by (apply nth_error_Some; congruence). lia. }
    (* the texts at the later positions are the same read off l' *)
    assert (Hrel : flat_map (text_rel l p) qs' = flat_map (text_rel l' (S q)) qs').
    { apply flat_map_ext_in. intros q' Hq'. specialize (Hb q' Hq'). unfold text_rel.
      subst l'. rewrite nth_error_skipn_add. replace (S (q - p) + (q' - S q)) with (q' - p) by lia. reflexivity. }
    cbn [flat_map]. rewrite Hrel. unfold text_rel at 1. rewrite Hn.
    specialize (IH _ _ _ E).
    set (pre := firstn (q - p) l) in *. clearbody pre. clear Hrel Hn Hs Hl.
    rewrite Hsplit.
    (* what is dropped *)
    rewrite drop_at_app, Hlen.
    replace (p + (q - p)) with q by lia.
    assert (Hpre : drop_at pre p (q :: qs') = pre).
    { apply drop_at_all_ge. rewrite Hlen. intros x [<-|Hx]; [lia|]. specialize (Hb x Hx). lia. }
    rewrite Hpre. cbn [drop_at]. unfold memnat at 1. cbn [existsb]. rewrite Nat.eqb_refl. cbn [orb].
    rewrite drop_at_cons_lt by lia.
    rewrite !text_app. cbn [text flat_map]. fold (text l'). fold (text (drop_at l' (S q) qs')).
    fold (text pre).
    (* pre ++ tg ++ tl'  ~  (tg ++ tq) ++ pre ++ td *)
    eapply Permutation_trans.
    { apply Permutation_app_head. apply Permutation_app_head. exact IH. }
    set (A := text pre). set (T := gtext g).
    set (Q := flat_map (text_rel l' (S q)) qs'). set (D := text (drop_at l' (S q) qs')).
    eapply Permutation_trans; [apply Permutation_app_swap_app|].
    rewrite <- !app_assoc. apply Permutation_app_head.
    eapply Permutation_trans; [apply Permutation_app_swap_app|]. apply Permutation_refl.
Qed.

(* the same for a match that ran over a prefix (the window) of l *)
Lemma match_seq_perm_window : forall kp preds l n p qs,
  match_seq kp preds (firstn n l) p = Some qs ->
  Permutation (text l) (flat_map (text_rel l p) qs ++ text (drop_at l p qs)).
Proof.
  intros kp preds l n p qs H.
  pose proof (match_seq_bounds _ _ _ _ _ H) as Hb.
  pose proof (match_seq_perm _ _ _ _ _ H) as HP.
  assert (Hrel : flat_map (text_rel (firstn n l) p) qs = flat_map (text_rel l p) qs).
  { apply flat_map_ext_in. intros q Hq. specialize (Hb q Hq). unfold text_rel.
    rewrite nth_error_firstn_lt; [reflexivity|].
    rewrite firstn_length in Hb. lia. }
  rewrite Hrel in HP.
  rewrite <- (firstn_skipn n l) at 1 3. rewrite drop_at_app, !text_app.
  rewrite (drop_at_beyond (skipn n l)) by (intros q Hq; specialize (Hb q Hq); lia).
  rewrite app_assoc. apply Permutation_app_tail. exact HP.
Qed.

Lemma text_at_rel (seq : list glyph) a q : S a <= q ->
  text_at seq q = text_rel (skipn (S a) seq) (S a) q.
Proof.
  intros H. unfold text_at, text_rel. rewrite nth_error_skipn_add.
  replace (S a + (q - S a)) with q by lia. reflexivity.
Qed.

Definition text_perm (x y : list glyph) : Prop := Permutation (text x) (text y).

Lemma text_set_nth (l : list glyph) p g g' :
  nth_error l p = Some g -> gtext g' = gtext g -> text (set_nth p g' l) = text l.
Proof. intros. unfold text. eapply flat_map_set_nth; eassumption. Qed.

(* effects that keep the text list itself *)
Lemma effect_text_eq : forall kp seq a b sub g0 e s,
  nth_error seq a = Some g0 -> effect_shape kp seq a b sub g0 e -> s_seq s = seq ->
  match e with EMerge _ _ => True | _ => text (s_seq (fst (apply_effect e s))) = text seq end.
Proof.
  intros kp seq a b sub g0 e s Hn Hsh Hs. destruct e as [upd next|p gs|ms lig]; [| |exact I];
    cbn [effect_shape] in Hsh.
  - destruct upd as [|[p1 g'] [|[p2 g''] [|? ?]]]; try contradiction.
    + destruct Hsh as (-> & Hc). cbn [apply_effect fst s_seq fold_left snd]. rewrite Hs.
      eapply text_set_nth; [exact Hn|].
      destruct Hc as [(_ & h & ->)|(_ & _ & H2)]; [reflexivity|exact H2].
    + destruct Hsh as (-> & Hlt & _ & _ & H2 & g1 & Hn1 & _ & H4).
      cbn [apply_effect fst s_seq fold_left snd]. rewrite Hs.
      rewrite (text_set_nth _ p2 g1 g''); [eapply text_set_nth; eassumption| |exact H4].
      rewrite nth_error_set_nth_other by lia. exact Hn1.
  - destruct Hsh as (-> & _ & h & hs & ->). cbn [apply_effect fst s_seq]. rewrite Hs.
    transitivity (text (firstn a seq ++ g0 :: skipn (S a) seq));
      [|rewrite <- (firstn_skipn_cons seq a g0 Hn); reflexivity].
    rewrite !text_app. f_equal. unfold text. cbn [app flat_map]. rewrite flat_map_fresh, app_nil_r.
    reflexivity.
Qed.

Lemma any_effect_text_perm : forall gd lk sub seq a b e ok s,
  simple_effect gd (kp_of gd lk) seq a b sub = Some (e, ok) -> s_seq s = seq ->
  text_perm seq (s_seq (fst (apply_effect e s))).
Proof.
  intros gd lk sub seq a b e ok s H Hs. unfold text_perm.
  destruct (simple_effect_shape _ _ _ _ _ _ _ _ H) as (g0 & Hn & Hsh).
  pose proof (effect_text_eq _ _ _ _ _ _ _ s Hn Hsh Hs) as Heq.
  destruct e as [upd next|p gs|ms lig]; try (rewrite Heq; apply Permutation_refl).
  destruct Hsh as (_ & _ & out & preds & qs & -> & -> & Hm).
  cbn [apply_effect fst s_seq hd tl]. rewrite Hs.
  rewrite (firstn_skipn_cons seq a g0 Hn) at 1.
  rewrite !text_app. apply Permutation_app_head.
  cbn [text flat_map gtext]. fold (text (skipn (S a) seq)).
  fold (text (drop_at (skipn (S a) seq) (S a) qs)).
  unfold text_at at 1. rewrite Hn. rewrite <- app_assoc. apply Permutation_app_head.
  unfold slice in Hm.
  pose proof (match_seq_perm_window _ _ _ _ _ _ Hm) as HP.
  assert (Hrel : flat_map (text_at seq) qs = flat_map (text_rel (skipn (S a) seq) (S a)) qs).
  { apply flat_map_ext_in. intros q Hq. apply text_at_rel.
    pose proof (match_seq_bounds _ _ _ _ _ Hm q Hq). lia. }
  rewrite Hrel. exact HP.
Qed.

Theorem any_pass_text_perm : forall ll gd order seq,
  Permutation (text seq) (text (R_shape ll gd order seq)).
Proof.
  intros ll gd order seq.
  apply (R_shape_invariant text_perm (fun x => Permutation_refl _)
           (fun x y z A B => Permutation_trans A B) ll gd (fun _ => True)).
  - intros. exact I.
  - intros. eapply any_effect_text_perm; eassumption.
Qed.

(* ------------------------------------------------------------------ *)
(* (E) ligatures over adjacent glyphs conserve the characters in order  *)

Lemma flags_keep_all_keep : forall gd lk g,
  flags_keep_all gd lk = true -> kp_of gd lk g = true.
Proof.
  intros gd lk g H. unfold kp_of, keep. destruct gd as [d|]; [|reflexivity].
  cbn [flags_keep_all] in H. apply N.eqb_eq in H.
  assert (Hbit : forall bit, N.land 65310 bit = bit -> N.land (lk_flags lk) bit = 0%N).
  { intros bit Hb. rewrite <- Hb, N.land_assoc, H. reflexivity. }
  unfold has_flag, attach_type.
  rewrite (Hbit c06_IgnoreBaseGlyphs eq_refl), (Hbit c06_IgnoreLigatures eq_refl),
          (Hbit c06_IgnoreMarks eq_refl), (Hbit c06_UseMarkFilteringSet eq_refl),
          (Hbit c06_MarkAttachTypeMask eq_refl).
  cbn [N.eqb negb N.shiftr].
  destruct (N.eqb (class_of (gd_class d) g) c06_GlyphClassBase); [reflexivity|].
  destruct (N.eqb (class_of (gd_class d) g) c06_GlyphClassLigature); [reflexivity|].
  destruct (N.eqb (class_of (gd_class d) g) c06_GlyphClassMark); reflexivity.
Qed.

(* with nothing skipped the matcher returns consecutive positions *)
Lemma match_seq_consecutive : forall kp preds l p qs,
  (forall g, kp g = true) -> match_seq kp preds l p = Some qs -> qs = List.seq p (length preds).
Proof.
  intros kp preds. induction preds as [|pr preds IH]; intros l p qs Hk H; cbn [match_seq] in H.
  - inversion H; reflexivity.
  - destruct l as [|g l]; cbn [next_kept] in H; [discriminate|]. rewrite Hk in H.
    destruct (test_pred pr (gid g)); [|discriminate].
    destruct (match_seq kp preds l (S p)) as [qs'|] eqn:E; [|discriminate].
    inversion H; subst. cbn [length List.seq]. f_equal. eapply IH; eassumption.
Qed.

Lemma drop_at_seq {A} : forall (l : list A) p k, k <= length l -> drop_at l p (List.seq p k) = skipn k l.
Proof.
  induction l as [|x l IH]; intros p k Hk.
  - cbn [length] in Hk. assert (k = 0) by lia. subst. reflexivity.
  - destruct k as [|k]; cbn [List.seq].
    + rewrite drop_at_beyond by (intros q []). reflexivity.
    + cbn [drop_at skipn]. unfold memnat at 1. cbn [existsb]. rewrite Nat.eqb_refl. cbn [orb].
      rewrite drop_at_cons_lt by lia. apply IH. cbn [length] in Hk. lia.
Qed.

Lemma text_rel_seq : forall (l : list glyph) p k, k <= length l ->
  flat_map (text_rel l p) (List.seq p k) = text (firstn k l).
Proof.
  induction l as [|x l IH]; intros p k Hk.
  - cbn [length] in Hk. assert (k = 0) by lia. subst. reflexivity.
  - destruct k as [|k]; [reflexivity|]. unfold text. cbn [List.seq flat_map firstn].
    unfold text_rel at 1. rewrite Nat.sub_diag. cbn [nth_error]. f_equal.
    cbn [length] in Hk.
    transitivity (flat_map (text_rel l (S p)) (List.seq (S p) k)); [|apply IH; lia].
    apply flat_map_ext_in. intros q Hq. apply in_seq in Hq. unfold text_rel.
    replace (q - p) with (S (q - S p)) by lia. reflexivity.
Qed.

Definition text_eq (x y : list glyph) : Prop := text x = text y.

Lemma adjacent_effect_text_eq : forall gd lk sub seq a b e ok s,
  lig_adjacent gd lk = true -> In sub (lk_subs lk) ->
  simple_effect gd (kp_of gd lk) seq a b sub = Some (e, ok) -> s_seq s = seq ->
  text_eq seq (s_seq (fst (apply_effect e s))).
Proof.
  intros gd lk sub seq a b e ok s Hal Hin H Hs. unfold text_eq.
  destruct (simple_effect_shape _ _ _ _ _ _ _ _ H) as (g0 & Hn & Hsh).
  pose proof (effect_text_eq _ _ _ _ _ _ _ s Hn Hsh Hs) as Heq.
  destruct e as [upd next|p gs|ms lig]; try (symmetry; exact Heq).
  destruct Hsh as (_ & Hl & out & preds & qs & -> & -> & Hm).
  (* the lookup holds a ligature subtable, so its flags keep everything *)
  assert (Hk : forall g, kp_of gd lk g = true).
  { unfold lig_adjacent in Hal. apply orb_prop in Hal. destruct Hal as [Hal|Hal].
    - apply negb_true_iff in Hal. exfalso.
      assert (existsb is_lig (lk_subs lk) = true) by (apply existsb_exists; exists sub; auto).
      congruence.
    - intros g. apply flags_keep_all_keep. exact Hal. }
  pose proof (match_seq_consecutive _ _ _ _ _ Hk Hm) as Hq.
  pose proof (match_seq_length _ _ _ _ _ Hm) as Hlen.
  pose proof (match_seq_bounds _ _ _ _ _ Hm) as Hb.
  set (k := length preds) in *.
  assert (Hkl : k <= length (skipn (S a) seq)).
  { destruct k as [|k']; [lia|].
    assert (Hin' : In (S a + k') qs) by (rewrite Hq; apply in_seq; lia).
    specialize (Hb _ Hin'). pose proof (slice_length seq (S a) b).
    unfold slice in Hb. rewrite firstn_length in Hb. lia. }
  cbn [apply_effect fst s_seq hd tl]. rewrite Hs.
  rewrite (firstn_skipn_cons seq a g0 Hn) at 1.
  rewrite !text_app. f_equal. cbn [text flat_map gtext]. fold (text (skipn (S a) seq)).
  fold (text (drop_at (skipn (S a) seq) (S a) qs)).
  unfold text_at at 1. rewrite Hn. rewrite <- app_assoc. f_equal.
  assert (Hrel : flat_map (text_at seq) qs = flat_map (text_rel (skipn (S a) seq) (S a)) qs).
  { apply flat_map_ext_in. intros q Hq'. apply text_at_rel. specialize (Hb q Hq'). lia. }
  rewrite Hrel, Hq, drop_at_seq, text_rel_seq by exact Hkl.
  rewrite <- text_app, firstn_skipn. reflexivity.
Qed.

Theorem adjacent_pass_text_eq : forall ll gd order seq,
  forallb (lig_adjacent gd) ll = true -> text (R_shape ll gd order seq) = text seq.
Proof.
  intros ll gd order seq Hl. symmetry.
  apply (R_shape_invariant text_eq (fun x => eq_refl) (fun x y z A B => eq_trans A B) ll gd
           (fun lk => lig_adjacent gd lk = true)).
  - intros lk Hin. apply (in_forallb _ _ _ Hl Hin).
  - intros. eapply adjacent_effect_text_eq; eassumption.
Qed.
