(* C15B/Props.v — part C15B of property C15: the theorems about the GENERAL
   layout pipeline S_layout_general (C15B/Model.v), nothing else.  Proofs are
   in Proofs_*.v.

   S_layout_general composes, without copying, C15's cmap lookup, feature
   selection (M_find_lookups) and width assignment with C06's reference shaper
   R_shape, for fonts whose GSUB/GPOS lookup lists are arbitrary lists of
   C06's lookups (every subtable type of C06, lookup flags, GDEF classes,
   nested lookups).  Language tags are the bytes of Tag.String() in Go's
   string order (lex_leb); every statement holds for EVERY x/text matcher (any
   function from the requested language and the tag list to an index), for
   every enumeration order of Go's maps (iter1, iter2), every font, string,
   language and switch maps of the model's types — no size bounds.

   layoutG  = S_layout_general with the regenerated default feature sets
   selG     = the lookups NewLayouter selects for one table (sel_lookups)
   stage    = the selected lookups applied one after the other (Spec.v)   *)
From Coq Require Import List NArith ZArith Bool Arith Lia Permutation Sorted.
From Common Require Import Bytes Outcome.
From Gen Require Import Consts C06 C15.
From C06 Require Import Model Spec.
From C15 Require Model Entry Spec Proofs_find Proofs_layout Proofs_props.
From C15B Require Import Model Spec Proofs_engine Proofs_effects Proofs_inert Proofs_layout
     Proofs_fragment Proofs_agree Proofs_props.
Import ListNotations.

(* ================================================================== *)
(* 1. The sentence of the property as an equation.  Either the matcher
   answered beyond the tag list of a table (outside x/text's contract; Go
   panics) or: feature selection returns for each present table a strictly
   ascending (hence duplicate-free) list of in-range lookup indices, and the
   result is
       gpos_stage (assign_widths (gsub_stage (map_chars s)))
   where a stage applies the selected lookups ONE AFTER THE OTHER in that
   ascending lookup-list order (stage = fold_left of single-lookup shaping:
   a characterisation independent of how S_layout_general is written), and
   assign_widths (the main development's set_widths: the width loop of
   layout.go as repaired by fixes/C07-layout-gid-beyond-font.diff, glyph ids
   >= NumGlyphs are left alone) is the only other source of Panic (a width
   slice shorter than NumGlyphs, never delivered by sfnt.Read). *)
Theorem layout_general_pipeline :
  forall (lang : Type) (matcher : lang -> list tagT -> nat) iter1 iter2,
    (forall x, Permutation (iter1 x) x) -> (forall x, Permutation (iter2 x) x) ->
  forall (f : gfont tagT) (l : lang) gsw psw s,
    scripts_nodup (gf_gsub f) -> scripts_nodup (gf_gpos f) ->
    (exists gs gp,
       selG matcher iter1 iter2 gtab_GsubDefaultFeatures (gf_gsub f) l gsw = Ok gs /\
       selG matcher iter1 iter2 gtab_GposDefaultFeatures (gf_gpos f) l psw = Ok gp /\
       selection_wf (gf_gsub f) gs /\ selection_wf (gf_gpos f) gp /\
       layoutG matcher iter1 iter2 f l gsw psw s =
         (seq2 <- assign_widths (gf_outlines f) (gf_gdef f)
                    (stage (gf_gsub f) (gf_gdef f) gs (map_chars (gf_cmap f) s)) ;;
          Ok (stage (gf_gpos f) (gf_gdef f) gp seq2))) \/
    (layoutG matcher iter1 iter2 f l gsw psw s = Panic /\
     (matcher_beyond matcher (gf_gsub f) l \/ matcher_beyond matcher (gf_gpos f) l)).
Proof. intros. apply layout_general_pipeline_pf; assumption. Qed.
Print Assumptions layout_general_pipeline.

(* one Context.Apply over a selection = the lookups one after the other *)
Theorem lookups_one_after_the_other : forall ll gd sel seq,
  shape ll gd sel seq = fold_left (fun acc li => shape ll gd [li] acc) sel seq.
Proof. intros. apply shape_fold. Qed.
Print Assumptions lookups_one_after_the_other.

(* ================================================================== *)
(* 2. No applicable rule.  table_inert is a boolean: for every selected
   lookup and every position of the sequence the lookup's flags skip the glyph
   or none of its subtables matches there (C06's matcher returns None).  Then
   the output is exactly one glyph per character, carrying that character,
   zero offsets and the font's advance (0 for GDEF marks and for glyph ids
   the font does not have) — S_identity is the main development's
   specification (C15/Spec.v, identity_one_glyph_per_character); Go panics iff
   a character maps to a glyph below NumGlyphs without an entry in the width
   slice, which cannot happen with one width per glyph
   (C15: glyphs_exist_consistent). *)
Theorem layout_general_no_rule_identity :
  forall (lang : Type) (matcher : lang -> list tagT -> nat) iter1 iter2
         (f : gfont tagT) (l : lang) gsw psw s gs gp,
    selG matcher iter1 iter2 gtab_GsubDefaultFeatures (gf_gsub f) l gsw = Ok gs ->
    selG matcher iter1 iter2 gtab_GposDefaultFeatures (gf_gpos f) l psw = Ok gp ->
    table_inert (gf_gsub f) (gf_gdef f) gs (map_chars (gf_cmap f) s) = true ->
    table_inert (gf_gpos f) (gf_gdef f) gp
      (C15.Spec.S_identity (gf_cmap f) (gf_outlines f) (gdef_classes (gf_gdef f)) s) = true ->
    (C15.Spec.glyphs_exist (gf_cmap f) (gf_outlines f) (gdef_classes (gf_gdef f)) s ->
     layoutG matcher iter1 iter2 f l gsw psw s =
       Ok (C15.Spec.S_identity (gf_cmap f) (gf_outlines f) (gdef_classes (gf_gdef f)) s)) /\
    (~ C15.Spec.glyphs_exist (gf_cmap f) (gf_outlines f) (gdef_classes (gf_gdef f)) s ->
     layoutG matcher iter1 iter2 f l gsw psw s = Panic).
Proof. intros. eapply no_rule_identity_pf; eassumption. Qed.
Print Assumptions layout_general_no_rule_identity.

(* an inert lookup really is a no-op of the shaper *)
Theorem inert_lookups_do_nothing : forall ll gd sel seq,
  selection_inert ll gd sel seq = true -> shape ll gd sel seq = seq.
Proof. exact shape_inert. Qed.
Print Assumptions inert_lookups_do_nothing.

(* corollary: on a font of the main development's fragment whose selected
   lookups do not apply, both developments return the same identity layout *)
Theorem layout_general_no_rule_agrees_with_main :
  forall (lang : Type) (matcher : lang -> list tagT -> nat) iter1 iter2
         (f : C15.Model.font tagT) (l : lang) gsw psw s gs gp,
    C15.Model.layouter_lookups C15.Model.lex_leb matcher iter1 iter2 gtab_GsubDefaultFeatures (C15.Model.f_gsub f) l gsw = Ok gs ->
    C15.Model.layouter_lookups C15.Model.lex_leb matcher iter1 iter2 gtab_GposDefaultFeatures (C15.Model.f_gpos f) l psw = Ok gp ->
    C15.Spec.inert_table (C15.Model.f_gsub f) gs (C15.Proofs_layout.seq0 (C15.Model.f_cmap f) s) ->
    C15.Spec.inert_table (C15.Model.f_gpos f) gp
      (C15.Spec.S_identity (C15.Model.f_cmap f) (C15.Model.f_outlines f) (C15.Model.f_gdef f) s) ->
    table_inert (gf_gsub (embed_font f)) (gf_gdef (embed_font f)) gs (map_chars (C15.Model.f_cmap f) s) = true ->
    table_inert (gf_gpos (embed_font f)) (gf_gdef (embed_font f)) gp
      (C15.Spec.S_identity (C15.Model.f_cmap f) (C15.Model.f_outlines f) (C15.Model.f_gdef f) s) = true ->
    C15.Spec.glyphs_exist (C15.Model.f_cmap f) (C15.Model.f_outlines f) (C15.Model.f_gdef f) s ->
    layoutG matcher iter1 iter2 (embed_font f) l gsw psw s =
    C15.Proofs_props.layout matcher iter1 iter2 f l gsw psw s.
Proof.
  intros lang matcher iter1 iter2 f l gsw psw s gs gp E1 E2 I1 I2 J1 J2 He.
  rewrite (proj1 (C15.Proofs_props.layout_no_rule_identity_pf lang matcher iter1 iter2 f l gsw psw s gs gp E1 E2 I1 I2) He).
  rewrite <- (sel_lookups_embed C15.Model.lex_leb matcher iter1 iter2) in E1, E2.
  pose proof (no_rule_identity_pf matcher iter1 iter2 (embed_font f) l gsw psw s gs gp E1 E2 J1) as Hn.
  cbn [embed_font gf_cmap gf_outlines gf_gdef] in Hn. rewrite gdef_classes_embed in Hn.
  apply (proj1 (Hn J2)). exact He.
Qed.
Print Assumptions layout_general_no_rule_agrees_with_main.

(* ================================================================== *)
(* 3. Text.  (a) For EVERY font of the model (all GSUB and GPOS types,
   contextual rules and nested lookups included) the characters attached to
   the output glyphs are a permutation of the input string.  (b) They are the
   input string IN ORDER when no ligature substitution can reach over a
   skipped glyph: every lookup holding a GSUB 4.1 subtable has flags that
   ignore nothing (or the font has no GDEF) — in particular for all fonts
   whose GSUB uses types 1 2 3 8 only, with any flags, and contextual rules
   calling such lookups.  (c) The condition is needed. *)
Theorem layout_general_text_multiset :
  forall (lang : Type) (matcher : lang -> list tagT -> nat) iter1 iter2
         (f : gfont tagT) (l : lang) gsw psw s out,
    layoutG matcher iter1 iter2 f l gsw psw s = Ok out -> Permutation s (text_of out).
Proof. intros. eapply text_multiset_pf; eassumption. Qed.
Print Assumptions layout_general_text_multiset.

Theorem layout_general_text_conserved :
  forall (lang : Type) (matcher : lang -> list tagT -> nat) iter1 iter2
         (f : gfont tagT) (l : lang) gsw psw s out,
    table_pred (forallb (lig_adjacent (gf_gdef f))) (gf_gsub f) = true ->
    table_pred (forallb (lig_adjacent (gf_gdef f))) (gf_gpos f) = true ->
    layoutG matcher iter1 iter2 f l gsw psw s = Ok out -> text_of out = s.
Proof. intros. eapply text_conserved_pf; eassumption. Qed.
Print Assumptions layout_general_text_conserved.

(* a GPOS table holding positioning subtables only meets the condition *)
Theorem positioning_tables_have_no_ligatures : forall gd ll,
  gpos_list ll = true -> forallb (lig_adjacent gd) ll = true.
Proof. intros. apply gpos_list_adjacent. assumption. Qed.
Print Assumptions positioning_tables_have_no_ligatures.

Theorem layout_general_text_order_refuted :
  exists out,
    S_layout_general C15.Model.lex_leb (fun (_ : unit) _ => O) (fun x => x) (fun x => x)
      gtab_GsubDefaultFeatures gtab_GposDefaultFeatures ex_skip_font tt None None [102; 769; 105]%N = Ok out /\
    text_of out = [102; 105; 769]%N /\
    layout_in_domain_with ex_skip_font (Some [0%N]) None [102; 769; 105]%N = true.
Proof. exact text_order_refuted_pf. Qed.
Print Assumptions layout_general_text_order_refuted.

(* ================================================================== *)
(* 4. Widths and positioning.  For a font whose GSUB table holds substitution
   lookups (types 1-6, 8) and whose GPOS table holds positioning lookups
   (types 1 2 4 6 7 8): after the GSUB stage and width assignment every glyph
   has zero offsets and exactly the font's advance — 0 for a GDEF mark and for
   a glyph id the font does not have, the glyph's width otherwise (the main
   development's S_advance) —, width assignment changes neither
   glyph ids nor texts, and the GPOS stage changes neither glyph ids nor
   texts: the glyphs of the result are those the GSUB stage produced. *)
Theorem layout_general_marks_zero_advance :
  forall (lang : Type) (matcher : lang -> list tagT -> nat) iter1 iter2
         (f : gfont tagT) (l : lang) gsw psw s out,
    table_pred gsub_list (gf_gsub f) = true -> table_pred gpos_list (gf_gpos f) = true ->
    layoutG matcher iter1 iter2 f l gsw psw s = Ok out ->
    exists gs gp seq1 seq2,
      selG matcher iter1 iter2 gtab_GsubDefaultFeatures (gf_gsub f) l gsw = Ok gs /\
      selG matcher iter1 iter2 gtab_GposDefaultFeatures (gf_gpos f) l psw = Ok gp /\
      seq1 = pass (gf_gsub f) (gf_gdef f) gs (map_chars (gf_cmap f) s) /\
      assign_widths (gf_outlines f) (gf_gdef f) seq1 = Ok seq2 /\
      out = pass (gf_gpos f) (gf_gdef f) gp seq2 /\
      map g_gid seq2 = map g_gid seq1 /\ map g_text seq2 = map g_text seq1 /\
      Forall (fun g => g_xoff g = 0%Z /\ g_yoff g = 0%Z /\
                       C15.Spec.S_advance (gf_outlines f) (gdef_classes (gf_gdef f)) (g_gid g) = Some (g_adv g)) seq2 /\
      map g_gid out = map g_gid seq2 /\ map g_text out = map g_text seq2.
Proof. intros. eapply stages_pf; eassumption. Qed.
Print Assumptions layout_general_marks_zero_advance.

(* GPOS passes never change glyph ids or text (any selection, any sequence) *)
Theorem layout_general_gpos_only_positions :
  forall (f : gfont tagT) gp seq2,
    table_pred gpos_list (gf_gpos f) = true ->
    map g_gid (pass (gf_gpos f) (gf_gdef f) gp seq2) = map g_gid seq2 /\
    map g_text (pass (gf_gpos f) (gf_gdef f) gp seq2) = map g_text seq2.
Proof. intros. apply gpos_stage_spec. assumption. Qed.
Print Assumptions layout_general_gpos_only_positions.

(* width assignment never changes ids, text or offsets (any font, any sequence) *)
Theorem layout_general_widths_only_advances :
  forall o gd seq seq2, assign_widths o gd seq = Ok seq2 ->
    map g_gid seq2 = map g_gid seq /\ map g_text seq2 = map g_text seq /\
    map g_xoff seq2 = map g_xoff seq /\ map g_yoff seq2 = map g_yoff seq.
Proof. exact widths_only_advances. Qed.
Print Assumptions layout_general_widths_only_advances.

(* GSUB passes never touch offsets or advances *)
Theorem layout_general_gsub_only_substitutes :
  forall ll gd order seq, gsub_list ll = true ->
    Forall zero_pos seq -> Forall zero_pos (R_shape ll gd order seq).
Proof. exact gsub_pass_keeps_zero. Qed.
Print Assumptions layout_general_gsub_only_substitutes.

(* the invariant theorem behind 3 and 4: a reflexive transitive relation
   respected by every effect of every non-contextual subtable of the admitted
   lookups is respected by the whole shaper (nested lookups included) *)
Theorem shaping_invariant : forall (R : list glyph -> list glyph -> Prop),
  (forall x, R x x) -> (forall x y z, R x y -> R y z -> R x z) ->
  forall (ll : list lookup) (gd : option gdef) (allowed : lookup -> Prop),
    (forall lk, In lk ll -> allowed lk) ->
    (forall lk sub seq a b e ok s,
       allowed lk -> In sub (lk_subs lk) ->
       simple_effect gd (kp_of gd lk) seq a b sub = Some (e, ok) ->
       s_seq s = seq ->
       R seq (s_seq (fst (apply_effect e s)))) ->
  forall order seq, R seq (R_shape ll gd order seq).
Proof. exact R_shape_invariant. Qed.
Print Assumptions shaping_invariant.

(* ================================================================== *)
(* 5. Switches.  The lookups applied for a table are exactly: the in-range
   lookups of the REQUIRED feature of the language system the matcher chose —
   whatever the switches say — and those of its optional features whose tag
   is switched on (nil map = the regenerated defaults: `eff`); a feature that
   is off contributes no lookup.  (The indices are ascending and
   duplicate-free by theorem 1; the stage applies exactly these.) *)
Theorem layout_general_switches :
  forall (lang : Type) (matcher : lang -> list tagT -> nat) iter1 iter2,
    (forall x, Permutation (iter1 x) x) -> (forall x, Permutation (iter2 x) x) ->
  forall (g : gtable tagT) defaults (l : lang) sw ls,
    NoDup (map fst (gt_scripts g)) -> (N.of_nat (length (gt_features g)) < 65536)%N ->
    selG matcher iter1 iter2 defaults (Some g) l sw = Ok (Some ls) ->
    let eff := match sw with Some m => m | None => defaults end in
    (gt_scripts g = [] /\ ls = []) \/
    exists t v, nth_error (C15.Proofs_props.tags_of (gt_scripts g))
                          (matcher l (C15.Proofs_props.tags_of (gt_scripts g))) = Some t /\
                In (t, v) (gt_scripts g) /\
      match v with
      | None => ls = []
      | Some fs =>
          forall x, In x ls <->
            (x < C15.Model.u16 (N.of_nat (length (gt_lookups g))))%N /\
            ((exists ft, nth_error (gt_features g) (N.to_nat (C15.Model.fs_required fs)) = Some ft /\
                         In x (C15.Model.ft_lookups ft)) \/
             (exists i ft, In i (C15.Model.fs_optional fs) /\
                           nth_error (gt_features g) (N.to_nat i) = Some ft /\
                           C15.Model.sw_get eff (C15.Model.ft_tag ft) = true /\
                           In x (C15.Model.ft_lookups ft)))
      end.
Proof. intros. eapply switches_pf; eassumption. Qed.
Print Assumptions layout_general_switches.

(* ================================================================== *)
(* 6. The main development's fragment.  embed_font turns a font of the main
   development (lookups LNone / LPair / LLiga: what sfnt.Read synthesises from
   a kern table and from the cmap, GDEF classes only) into a general font: one
   GPOS 2.1 subtable with records {First: {XAdvance: v}}, one GSUB 4.1
   subtable, flags 0.  For every such font with 16-bit glyph ids (glyph.ID is
   uint16): either the general model is outside C06's in_domain (Ok None: an
   advance leaves int16, where the main model wraps like Go, or more than
   size_cap glyphs) or it returns exactly what the main development's
   M_layout returns — the same glyphs, or Panic in the same cases. *)
Theorem layout_general_agrees_with_fragment :
  forall (lang : Type) (matcher : lang -> list tagT -> nat) iter1 iter2
         (f : C15.Model.font tagT) (l : lang) gsw psw s,
    font16 f ->
    match layout_observe C15.Model.lex_leb matcher iter1 iter2
            gtab_GsubDefaultFeatures gtab_GposDefaultFeatures (embed_font f) l gsw psw s with
    | Ok None => True
    | r => r = omap Some (C15.Proofs_props.layout matcher iter1 iter2 f l gsw psw s)
    end.
Proof. intros. apply layout_general_agrees_pf. assumption. Qed.
Print Assumptions layout_general_agrees_with_fragment.

(* feature selection on the embedded table is literally the main
   development's layouter_lookups *)
Theorem fragment_selection_is_the_same :
  forall (lang : Type) (matcher : lang -> list tagT -> nat) iter1 iter2 defaults
         (t : option (C15.Model.gtab tagT)) (l : lang) sw,
    sel_lookups C15.Model.lex_leb matcher iter1 iter2 defaults (option_map embed_gtab t) l sw =
    C15.Model.layouter_lookups C15.Model.lex_leb matcher iter1 iter2 defaults t l sw.
Proof. intros. apply sel_lookups_embed. Qed.
Print Assumptions fragment_selection_is_the_same.

(* the per-stage statement: inside the domain, C06's scan over the embedded
   lookups IS the main development's apply_all (pair_pass / liga_pass) *)
Theorem fragment_shaping_agrees : forall (llC : list C15.Model.lookup) gd sel seq,
  shape_in_domain (map embed_lookup llC) gd sel seq = true ->
  Forall lookup16 llC -> seq16 seq ->
  C15.Model.apply_all llC sel seq = Ok (shape (map embed_lookup llC) gd sel seq).
Proof. intros. apply shape_embed; assumption. Qed.
Print Assumptions fragment_shaping_agrees.
