(* C15B/Proofs_props.v — the theorems of Props.v assembled from the lemmas. *)
From Coq Require Import List NArith ZArith Bool Arith Lia Permutation Sorted.
From Common Require Import Bytes Outcome.
From Gen Require Import Consts C06 C15.
From C06 Require Import Model Spec Util Proofs.
From C15 Require Model Entry Spec Util Proofs_find Proofs_layout Proofs_props.
From C15B Require Import Model Spec Util Proofs_engine Proofs_effects Proofs_inert Proofs_layout
     Proofs_fragment Proofs_agree.
Import ListNotations.

Section Whole.
  Context {lang : Type}.
  Variable matcher : lang -> list tagT -> nat.
  Variable iter1 : list (tagT * option features) -> list (tagT * option features).
  Variable iter2 : list N -> list N.

  Lemma layoutG_ok_inv (f : gfont tagT) l gsw psw s out :
    layoutG matcher iter1 iter2 f l gsw psw s = Ok out ->
    exists gs gp,
      selG matcher iter1 iter2 gtab_GsubDefaultFeatures (gf_gsub f) l gsw = Ok gs /\
      selG matcher iter1 iter2 gtab_GposDefaultFeatures (gf_gpos f) l psw = Ok gp /\
      S_layout_with f gs gp s = Ok out.
  Proof.
    unfold layoutG, S_layout_general, selG. intros H.
    match type of H with obind ?x _ = _ => destruct x as [gs| | |] eqn:E1 end; cbn [obind] in H; try discriminate.
    match type of H with obind ?x _ = _ => destruct x as [gp| | |] eqn:E2 end; cbn [obind] in H; try discriminate.
    exists gs, gp. split; [exact E1|]. split; [exact E2|]. exact H.
  Qed.

  Lemma text_multiset_pf (f : gfont tagT) l gsw psw s out :
    layoutG matcher iter1 iter2 f l gsw psw s = Ok out -> Permutation s (text_of out).
  Proof.
    intros H. destruct (layoutG_ok_inv _ _ _ _ _ _ H) as (gs & gp & _ & _ & Hw).
    eapply S_layout_with_text_perm; exact Hw.
  Qed.

  Lemma text_conserved_pf (f : gfont tagT) l gsw psw s out :
    table_pred (forallb (lig_adjacent (gf_gdef f))) (gf_gsub f) = true ->
    table_pred (forallb (lig_adjacent (gf_gdef f))) (gf_gpos f) = true ->
    layoutG matcher iter1 iter2 f l gsw psw s = Ok out -> text_of out = s.
  Proof.
    intros H1 H2 H. destruct (layoutG_ok_inv _ _ _ _ _ _ H) as (gs & gp & _ & _ & Hw).
    eapply S_layout_with_text_eq; eassumption.
  Qed.

  Lemma stages_pf (f : gfont tagT) l gsw psw s out :
    table_pred gsub_list (gf_gsub f) = true -> table_pred gpos_list (gf_gpos f) = true ->
    layoutG matcher iter1 iter2 f l gsw psw s = Ok out ->
    exists gs gp seq1 seq2,
      selG matcher iter1 iter2 gtab_GsubDefaultFeatures (gf_gsub f) l gsw = Ok gs /\
      selG matcher iter1 iter2 gtab_GposDefaultFeatures (gf_gpos f) l psw = Ok gp /\
      seq1 = pass (gf_gsub f) (gf_gdef f) gs (map_chars (gf_cmap f) s) /\
      assign_widths (gf_outlines f) (gf_gdef f) seq1 = Ok seq2 /\
      out = pass (gf_gpos f) (gf_gdef f) gp seq2 /\
      (* widths: ids and texts kept, offsets zero, advance = the font's (0 for marks) *)
      map g_gid seq2 = map g_gid seq1 /\ map g_text seq2 = map g_text seq1 /\
      Forall (fun g => g_xoff g = 0%Z /\ g_yoff g = 0%Z /\
                       S_advance (gf_outlines f) (gdef_classes (gf_gdef f)) (g_gid g) = Some (g_adv g)) seq2 /\
      (* GPOS: ids and texts kept *)
      map g_gid out = map g_gid seq2 /\ map g_text out = map g_text seq2.
  Proof.
    intros Hg Hp H. destruct (layoutG_ok_inv _ _ _ _ _ _ H) as (gs & gp & E1 & E2 & Hw).
    unfold S_layout_with in Hw.
    destruct (assign_widths (gf_outlines f) (gf_gdef f)
                (pass (gf_gsub f) (gf_gdef f) gs (map_chars (gf_cmap f) s))) as [seq2| | |] eqn:Ew;
      cbn [obind] in Hw; try discriminate.
    inversion Hw; subst out.
    exists gs, gp, (pass (gf_gsub f) (gf_gdef f) gs (map_chars (gf_cmap f) s)), seq2.
    destruct (widths_stage_spec f gs s seq2 Hg Ew) as (W1 & W2 & W3).
    destruct (gpos_stage_spec f gp seq2 Hp) as (P1 & P2).
    repeat (split; [first [assumption|reflexivity]|]). exact P2.
  Qed.

  Hypothesis iter1_perm : forall x, Permutation (iter1 x) x.
  Hypothesis iter2_perm : forall x, Permutation (iter2 x) x.

  Lemma no_rule_identity_pf (f : gfont tagT) l gsw psw s gs gp :
    selG matcher iter1 iter2 gtab_GsubDefaultFeatures (gf_gsub f) l gsw = Ok gs ->
    selG matcher iter1 iter2 gtab_GposDefaultFeatures (gf_gpos f) l psw = Ok gp ->
    table_inert (gf_gsub f) (gf_gdef f) gs (map_chars (gf_cmap f) s) = true ->
    table_inert (gf_gpos f) (gf_gdef f) gp
                (S_identity (gf_cmap f) (gf_outlines f) (gdef_classes (gf_gdef f)) s) = true ->
    (glyphs_exist (gf_cmap f) (gf_outlines f) (gdef_classes (gf_gdef f)) s ->
     layoutG matcher iter1 iter2 f l gsw psw s =
       Ok (S_identity (gf_cmap f) (gf_outlines f) (gdef_classes (gf_gdef f)) s)) /\
    (~ glyphs_exist (gf_cmap f) (gf_outlines f) (gdef_classes (gf_gdef f)) s ->
     layoutG matcher iter1 iter2 f l gsw psw s = Panic).
  Proof.
    intros E1 E2 I1 I2. rewrite (layoutG_with matcher iter1 iter2 f l gsw psw s gs gp E1 E2).
    apply S_layout_with_identity; assumption.
  Qed.

  (* the selection: exactly the wanted lookups of the chosen language system *)
  Lemma switches_pf (g : gtable tagT) defaults l sw ls :
    NoDup (map fst (gt_scripts g)) -> (N.of_nat (length (gt_features g)) < 65536)%N ->
    selG matcher iter1 iter2 defaults (Some g) l sw = Ok (Some ls) ->
    let eff := match sw with Some m => m | None => defaults end in
    (gt_scripts g = [] /\ ls = []) \/
    exists t v, nth_error (tags_of (gt_scripts g)) (matcher l (tags_of (gt_scripts g))) = Some t /\
                In (t, v) (gt_scripts g) /\
      match v with
      | None => ls = []
      | Some fs =>
          forall x, In x ls <->
            (x < C15.Model.u16 (N.of_nat (length (gt_lookups g))))%N /\
            ((exists ft, nth_error (gt_features g) (N.to_nat (C15.Model.fs_required fs)) = Some ft /\
                         In x (C15.Model.ft_lookups ft)) \/
             (exists i ft, In i (C15.Model.fs_optional fs) /\
                           nth_error (gt_features g) (N.to_nat i) = Some ft /\
                           C15.Model.sw_get eff (C15.Model.ft_tag ft) = true /\
                           In x (C15.Model.ft_lookups ft)))
      end.
  Proof.
    intros Hd Hlen H eff.
    destruct (selG_selection matcher iter1 iter2 iter1_perm iter2_perm defaults g l sw ls Hd H) as [Hl|(t & v & Hn & Hin & Hv)];
      [left; exact Hl|].
    right. exists t, v. split; [exact Hn|]. split; [exact Hin|].
    destruct v as [fs|]; [|exact Hv]. intros x. rewrite Hv.
    pose proof (C15.Proofs_find.wanted_plain (gt_features g) eff fs x Hlen) as Hw. tauto.
  Qed.
End Whole.

(* the counterexample for character ORDER when a ligature reaches over a
   skipped mark: f + mark + i with IgnoreMarks becomes fi + mark *)
Definition ex_skip_font : gfont tagT :=
  mkGfont [(102, 4); (105, 5); (769, 9)]%N (C15.Model.OGlyf 10 (Some [500; 500; 500; 500; 500; 500; 500; 500; 500; 500]%Z))
          (Some (mkGdef [(9, 3)]%N [] []))
          (Some (mkGtable [([117; 110; 100]%N, Some (C15.Model.mkFeatures 0 []))]
                          [C15.Model.mkFeature 1818847073 [0%N]]
                          [mkLookup 8 0 [SLigature [(4, [([5], 7)])]%N]]))
          None.

Lemma text_order_refuted_pf :
  exists out,
    S_layout_general lex_leb (fun (_ : unit) _ => O) (fun x => x) (fun x => x)
      gtab_GsubDefaultFeatures gtab_GposDefaultFeatures ex_skip_font tt None None [102; 769; 105]%N = Ok out /\
    text_of out = [102; 105; 769]%N /\
    layout_in_domain_with ex_skip_font (Some [0%N]) None [102; 769; 105]%N = true.
Proof. eexists. split; [vm_compute; reflexivity|]. split; vm_compute; reflexivity. Qed.

