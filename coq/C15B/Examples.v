(* C15B/Examples.v — non-vacuity: concrete fonts and strings meeting the
   hypotheses of every theorem of Props.v, and the refutation witnesses. *)
From Coq Require Import List NArith ZArith Bool Arith Lia Permutation Sorted.
From Common Require Import Bytes Outcome.
From Gen Require Import Consts C06 C15.
From C06 Require Import Model Spec.
From C15 Require Model Entry Spec Examples Proofs_layout Proofs_props.
From C15B Require Import Model Spec Proofs_effects Proofs_inert Proofs_layout Proofs_fragment Proofs_agree Proofs_props.
Import ListNotations.
Local Open Scope N_scope.

(* a=1 b=2 f=4 i=5 fi=7 (ligature class) acute=9 (mark) x=12; widths 400+10*gid.
   GSUB: lookup 0 = ligature f i -> fi (flags 0); lookup 1 = single a -> x;
         lookup 2 = contextual: a followed by b runs lookup 1 on the a.
         features: liga [0], calt [2]; "de" requires liga, "en" has both optional.
   GPOS: lookup 0 = pair (fi, a) -20; lookup 1 = mark-to-base acute on a / x;
         features kern [0], mark [1]; one language system. *)
Definition ex_widths : list Z := [400; 410; 420; 430; 440; 450; 460; 470; 480; 490; 500; 510; 520; 530]%Z.

Definition ex_gsub : gtable tagT :=
  mkGtable [([100; 101], Some (C15.Model.mkFeatures 0 [1])); ([101; 110], Some (C15.Model.mkFeatures 65535 [0; 1]))]
           [C15.Model.mkFeature 1818847073 [0]; C15.Model.mkFeature 1667329140 [2]]
           [mkLookup 0 0 [SLigature [(4, [([5], 7)])]];
            mkLookup 0 0 [SSingle2 [(1, 12)]];
            mkLookup 0 0 [SCtx1 [(1, [([2], [(0%nat, 1%nat)])])]]].

Definition ex_gpos : gtable tagT :=
  mkGtable [([117; 110; 100], Some (C15.Model.mkFeatures 65535 [0; 1]))]
           [C15.Model.mkFeature 1801810542 [0]; C15.Model.mkFeature 1835102827 [1]]
           [mkLookup 0 0 [SPair1 [(7, [(1, (mkV 0 0 (-20) false, None))])]];
            mkLookup 0 0 [SMarkBase [(9, (0%nat, (100, 0)%Z))] [(1, [Some (200, 600)%Z]); (12, [Some (210, 610)%Z])]]].

Definition ex_gfont : gfont tagT :=
  mkGfont [(97, 1); (98, 2); (102, 4); (105, 5); (769, 9); (120, 12)] (C15.Model.OGlyf 14 (Some ex_widths))
          (Some (mkGdef [(1, 1); (2, 1); (7, 2); (9, 3)] [] []))
          (Some ex_gsub) (Some ex_gpos).

Definition ex_mt : list (list tagT * nat) := [([[100; 101]; [101; 110]], 1%nat); ([[117; 110; 100]], 0%nat)].

(* "fia" + acute + "ab": fi ligature, a b context -> x, kern (fi,a), mark on a *)
Example ex_general_layout :
  run_layout_general ex_mt ex_gfont None None [102; 105; 97; 769; 97; 98]
  = Ok (Some [mkGI 7 [102; 105] 0 0 450; mkGI 1 [97] 0 0 410; mkGI 9 [769] (-310) 600 0;
              mkGI 12 [97] 0 0 520; mkGI 2 [98] 0 0 420]).
Proof. vm_compute. reflexivity. Qed.

(* calt switched off: the contextual lookup is not applied; "de": liga is
   required and applied although it is switched off *)
Example ex_switch_off :
  run_layout_general ex_mt ex_gfont (Some [(1667329140, false); (1818847073, true)]) None [97; 98]
  = Ok (Some [mkGI 1 [97] 0 0 410; mkGI 2 [98] 0 0 420]).
Proof. vm_compute. reflexivity. Qed.

Example ex_required_applied :
  run_layout_general [([[100; 101]; [101; 110]], 0%nat); ([[117; 110; 100]], 0%nat)] ex_gfont
                     (Some [(1818847073, false)]) (Some []) [102; 105]
  = Ok (Some [mkGI 7 [102; 105] 0 0 470]).
Proof. vm_compute. reflexivity. Qed.

Example ex_selection :
  run_selection ex_mt true (Some ex_gsub) None = Ok (Some [0; 2]) /\
  run_selection ex_mt false (Some ex_gpos) None = Ok (Some [0; 1]).
Proof. split; vm_compute; reflexivity. Qed.

(* hypotheses of the pipeline theorem *)
Example ex_nodup : scripts_nodup (gf_gsub ex_gfont) /\ scripts_nodup (gf_gpos ex_gfont).
Proof. split; cbn; repeat constructor; cbn; intuition discriminate. Qed.

Example ex_selection_wf : selection_wf (gf_gsub ex_gfont) (Some [0; 2]) /\ selection_wf (gf_gpos ex_gfont) (Some [0; 1]).
Proof. split; cbn; split; repeat constructor; cbn; lia. Qed.

(* the matcher answering beyond the tag list: Go panics *)
Example ex_matcher_beyond :
  run_layout_general [([[100; 101]; [101; 110]], 2%nat)] ex_gfont None None [97] = Panic.
Proof. vm_compute. reflexivity. Qed.

(* a glyph id the font does not have (a -> glyph 99 by substitution): no width;
   a width slice shorter than NumGlyphs: GlyphWidth panics *)
Example ex_width_beyond :
  S_layout_with (tag := tagT) (mkGfont [(97, 1)] (C15.Model.OGlyf 2 (Some [400; 410]%Z)) None
      (Some (mkGtable [] [] [mkLookup 0 0 [SSingle2 [(1, 99)]]])) None) (Some [0]) None [97; 97]
  = Ok [mkGI 99 [97] 0 0 0; mkGI 99 [97] 0 0 0] /\
  S_layout_with (tag := tagT) (mkGfont [(97, 1)] (C15.Model.OGlyf 2 (Some [400]%Z)) None None None) None None [97]
  = Panic /\
  ~ C15.Spec.glyphs_exist [(97, 1)] (C15.Model.OGlyf 2 (Some [400]%Z)) None [97].
Proof.
  split; [vm_compute; reflexivity|]. split; [vm_compute; reflexivity|].
  intros H. apply (H 97); [left; reflexivity|]. vm_compute. reflexivity.
Qed.

(* ---------------- no applicable rule ---------------- *)

(* "b" acute "x": no f, no a: nothing of the GSUB applies; no (fi,a) pair, the
   mark follows b which has no base record (and no base precedes b) *)
Example ex_inert :
  table_inert (gf_gsub ex_gfont) (gf_gdef ex_gfont) (Some [0; 2]) (map_chars (gf_cmap ex_gfont) [98; 769; 120]) = true /\
  table_inert (gf_gpos ex_gfont) (gf_gdef ex_gfont) (Some [0; 1])
    (C15.Spec.S_identity (gf_cmap ex_gfont) (gf_outlines ex_gfont) (gdef_classes (gf_gdef ex_gfont)) [98; 769; 120]) = true.
Proof. split; vm_compute; reflexivity. Qed.

Example ex_not_inert :
  table_inert (gf_gsub ex_gfont) (gf_gdef ex_gfont) (Some [0; 2]) (map_chars (gf_cmap ex_gfont) [102; 105]) = false.
Proof. vm_compute. reflexivity. Qed.

Example ex_inert_identity :
  run_layout_general ex_mt ex_gfont None None [98; 769; 120]
  = Ok (Some (C15.Spec.S_identity (gf_cmap ex_gfont) (gf_outlines ex_gfont) (gdef_classes (gf_gdef ex_gfont)) [98; 769; 120])).
Proof. vm_compute. reflexivity. Qed.

Example ex_glyphs_exist :
  C15.Spec.glyphs_exist (gf_cmap ex_gfont) (gf_outlines ex_gfont) (gdef_classes (gf_gdef ex_gfont)) [98; 769; 120] /\
  C15.Spec.outlines_consistent (gf_outlines ex_gfont).
Proof. split; [intros r [<-|[<-|[<-|[]]]]; vm_compute; discriminate|reflexivity]. Qed.

(* ---------------- kinds of tables ---------------- *)

Example ex_kinds :
  table_pred gsub_list (gf_gsub ex_gfont) = true /\ table_pred gpos_list (gf_gpos ex_gfont) = true /\
  table_pred (forallb (lig_adjacent (gf_gdef ex_gfont))) (gf_gsub ex_gfont) = true /\
  table_pred (forallb (lig_adjacent (gf_gdef ex_gfont))) (gf_gpos ex_gfont) = true.
Proof. repeat split; vm_compute; reflexivity. Qed.

(* the font of the order counterexample does not meet the adjacency condition *)
Example ex_skip_not_adjacent :
  table_pred (forallb (lig_adjacent (gf_gdef ex_skip_font))) (gf_gsub ex_skip_font) = false.
Proof. vm_compute. reflexivity. Qed.

(* a GSUB lookup in a GPOS table is not a positioning table *)
Example ex_not_gpos : gpos_list [mkLookup 0 0 [SSingle2 [(1, 2)]]] = false.
Proof. reflexivity. Qed.

(* text of the example: conserved in order *)
Example ex_text :
  text_of [mkGI 7 [102; 105] 0 0 450; mkGI 1 [97] 0 0 410; mkGI 9 [769] (-310) 600 0;
           mkGI 12 [97] 0 0 520; mkGI 2 [98] 0 0 420] = [102; 105; 97; 769; 97; 98].
Proof. reflexivity. Qed.

(* ---------------- the main development's fragment ---------------- *)

Example ex_font16 : font16 C15.Examples.ex_font.
Proof.
  split; [|split].
  - intros r g [H|[H|[H|[]]]]; inversion H; subst; reflexivity.
  - cbn. repeat constructor. cbn. intros k ligs ins out [H|[]] Hin. inversion H; subst.
    destruct Hin as [H2|[]]. inversion H2; subst. reflexivity.
  - cbn. repeat constructor; exact I.
Qed.

Example ex_embed_agrees :
  layout_observe C15.Model.lex_leb (C15.Entry.table_matcher [([[101; 110]], O)]) (fun x => x) (fun x => x)
    gtab_GsubDefaultFeatures gtab_GposDefaultFeatures (embed_font C15.Examples.ex_font) tt None None [102; 105]
  = Ok (Some [mkGI 1 [102] 0 0 305; mkGI 2 [105] 0 0 310]).
Proof. vm_compute. reflexivity. Qed.

(* outside the domain: the advance 32760 + 10 leaves int16; Go (and the main
   model) wrap, the reference shaper does not define the outcome *)
Example ex_embed_ood :
  layout_observe C15.Model.lex_leb (fun (_ : unit) _ => O) (fun x => x) (fun x => x)
    gtab_GsubDefaultFeatures gtab_GposDefaultFeatures
    (embed_font (C15.Model.mkFont [(97, 1)] (C15.Model.OCff [0; 32760]%Z) None None
       (Some (C15.Model.mkGtab [([117], Some (C15.Model.mkFeatures 0 []))] [C15.Model.mkFeature 1801810542 [0]]
                               [C15.Model.LPair [(65537, 10%Z)]]))))
    tt None None [97; 97] = Ok None.
Proof. vm_compute. reflexivity. Qed.

Example ex_main_layout_ok :
  C15.Proofs_props.layout (C15.Entry.table_matcher [([[101; 110]], O)]) (fun x => x) (fun x => x)
    C15.Examples.ex_font tt None None [102; 105] = Ok [mkGI 1 [102] 0 0 305; mkGI 2 [105] 0 0 310].
Proof. vm_compute. reflexivity. Qed.

Example ex_embedded_lookup :
  embed_lookup (C15.Model.LPair [(65538, 5%Z); (65539, 7%Z); (131073, (-3)%Z)]) =
  mkLookup 0 0 [SPair1 [(1, [(2, (mkV 0 0 5 false, None)); (3, (mkV 0 0 7 false, None))]);
                        (2, [(1, (mkV 0 0 (-3) false, None))])]].
Proof. vm_compute. reflexivity. Qed.
