(* C15B/Util.v — list lemmas used by the effect proofs. *)
From Coq Require Import List NArith ZArith Bool Arith Lia Permutation.
From Gen Require Import Consts C06.
From C06 Require Import Model Spec Util Proofs.
Import ListNotations.

Lemma In_firstn {A} (l : list A) : forall n x, In x (firstn n l) -> In x l.
Proof.
  induction l as [|y l IH]; intros n x H; destruct n; cbn in H; try contradiction.
  destruct H as [<-|H]; [left; reflexivity|right; eapply IH; exact H].
Qed.

Lemma In_skipn {A} (l : list A) : forall n x, In x (skipn n l) -> In x l.
Proof.
  induction l as [|y l IH]; intros n x H; destruct n; cbn in H; try contradiction; try exact H.
  right. eapply IH; exact H.
Qed.

Lemma In_drop_at {A} (l : list A) : forall p qs x, In x (drop_at l p qs) -> In x l.
Proof.
  induction l as [|y l IH]; intros p qs x H; cbn [drop_at] in H; [contradiction|].
  destruct (memnat p qs).
  - right. eapply IH; exact H.
  - destruct H as [<-|H]; [left; reflexivity|right; eapply IH; exact H].
Qed.

Lemma In_set_nth {A} (l : list A) : forall p x y, In y (set_nth p x l) -> y = x \/ In y l.
Proof.
  induction l as [|z l IH]; intros p x y H; destruct p; cbn [set_nth] in H; try contradiction.
  - destruct H as [<-|H]; [left; reflexivity|right; right; exact H].
  - destruct H as [<-|H]; [right; left; reflexivity|].
    destruct (IH _ _ _ H) as [->|H']; [left; reflexivity|right; right; exact H'].
Qed.

Lemma Forall_set_nth {A} (P : A -> Prop) (l : list A) p x :
  Forall P l -> P x -> Forall P (set_nth p x l).
Proof.
  intros Hl Hx. apply Forall_forall. intros y Hy.
  destruct (In_set_nth _ _ _ _ Hy) as [->|Hin]; [exact Hx|].
  rewrite Forall_forall in Hl. apply Hl, Hin.
Qed.

(* replacing an element by one with the same image leaves map / flat_map alone *)
Lemma map_set_nth {A B} (f : A -> B) (l : list A) p x y :
  nth_error l p = Some y -> f x = f y -> map f (set_nth p x l) = map f l.
Proof.
  intros Hn Hf. rewrite (set_nth_split l p x y Hn).
  rewrite (firstn_skipn_cons l p y Hn) at 3.
  rewrite !map_app. cbn [map]. rewrite Hf. reflexivity.
Qed.

Lemma flat_map_set_nth {A B} (f : A -> list B) (l : list A) p x y :
  nth_error l p = Some y -> f x = f y -> flat_map f (set_nth p x l) = flat_map f l.
Proof.
  intros Hn Hf. rewrite (set_nth_split l p x y Hn).
  rewrite (firstn_skipn_cons l p y Hn) at 3.
  rewrite !flat_map_app. cbn [flat_map]. rewrite Hf. reflexivity.
Qed.

Lemma flat_map_fresh (hs : list N) : flat_map gtext (map fresh hs) = [].
Proof. induction hs as [|h hs IH]; cbn; [reflexivity|exact IH]. Qed.

(* a partition of a list is a permutation of it, under flat_map *)
Lemma flat_map_partition_perm {A B} (f : A -> list B) (p : A -> bool) (l : list A) :
  Permutation (flat_map f l) (flat_map f (filter p l) ++ flat_map f (filter (fun x => negb (p x)) l)).
Proof.
  induction l as [|x l IH]; cbn [flat_map filter]; [constructor|].
  destruct (p x); cbn [negb flat_map].
  - rewrite <- app_assoc. apply Permutation_app_head. exact IH.
  - eapply Permutation_trans; [apply Permutation_app_head; exact IH|].
    rewrite !app_assoc. apply Permutation_app_tail. apply Permutation_app_comm.
Qed.

(* drop_at: positions not in the list are kept *)
Lemma drop_at_cons_lt {A} : forall (l : list A) p q qs, q < p -> drop_at l p (q :: qs) = drop_at l p qs.
Proof.
  induction l as [|x l IH]; intros p q qs H; cbn [drop_at]; [reflexivity|].
  unfold memnat at 1. cbn [existsb]. replace (p =? q) with false by (symmetry; apply Nat.eqb_neq; lia).
  cbn [orb]. fold (memnat p qs). rewrite IH by lia. reflexivity.
Qed.

Lemma drop_at_all_ge {A} : forall (l : list A) p qs,
  (forall q, In q qs -> p + length l <= q) -> drop_at l p qs = l.
Proof.
  induction l as [|x l IH]; intros p qs H; cbn [drop_at]; [reflexivity|].
  replace (memnat p qs) with false.
  - f_equal. apply IH. intros q Hq. specialize (H q Hq). cbn [length] in H. lia.
  - symmetry. apply memnat_false. intros Hin. specialize (H p Hin). cbn [length] in H. lia.
Qed.


Lemma flat_map_ext_in {A B} (f g : A -> list B) (l : list A) :
  (forall x, In x l -> f x = g x) -> flat_map f l = flat_map g l.
Proof.
  induction l as [|x l IH]; intros H; cbn [flat_map]; [reflexivity|].
  rewrite (H x) by (left; reflexivity). f_equal. apply IH. intros y Hy. apply H. right. exact Hy.
Qed.
