(* C15B/Proofs_fragment.v — on the fragment the main development models
   (lookups LNone / LPair / LLiga: what sfnt.Read synthesises from a kern table
   and from the cmap) the general model is the main development's model:
   C06's scan over the embedded lookup is C15's pair_pass / liga_pass, inside
   C06's in_domain (no 16-bit overflow of an advance, at most size_cap
   glyphs). *)
From Coq Require Import List NArith ZArith Bool Arith Lia.
From Common Require Import Bytes Outcome.
From Gen Require Import Consts C06 C15.
From C06 Require Import Model Spec Util Proofs.
From C15 Require Model Spec Proofs_kern Proofs_layout Proofs_liga.
From C15B Require Import Model Spec Util Proofs_effects Proofs_inert.
Import ListNotations.

Notation kmap_get := C15.Model.kmap_get.
Notation lig_match := C15.Model.lig_match.
Notation lig_try := C15.Model.lig_try.
Notation sets_get := C15.Model.sets_get.
Notation liga_pass := C15.Model.liga_pass.
Notation pair_pass := C15.Model.pair_pass.
Notation LNone := C15.Model.LNone.
Notation LPair := C15.Model.LPair.
Notation LLiga := C15.Model.LLiga.

(* ------------------------------------------------------------------ *)
(* flags 0 skip nothing                                                *)

Lemma kp_flags0 gd subs g : kp_of gd (mkLookup 0 0 subs) g = true.
Proof. apply flags_keep_all_keep. unfold flags_keep_all. destruct gd; reflexivity. Qed.

Lemma slice_to_end {A} (l : list A) p : slice l p (length l - 0) = skipn p l.
Proof. unfold slice. apply firstn_all2. rewrite skipn_length. lia. Qed.

Lemma nth_error_mid {A} (pre : list A) x rest : nth_error (pre ++ x :: rest) (length pre) = Some x.
Proof. rewrite nth_error_app2 by lia. rewrite Nat.sub_diag. reflexivity. Qed.

Lemma skipn_mid {A} (pre : list A) x rest : skipn (S (length pre)) (pre ++ x :: rest) = rest.
Proof.
  replace (S (length pre)) with (length (pre ++ [x])) by (rewrite app_length; cbn; lia).
  replace (pre ++ x :: rest) with ((pre ++ [x]) ++ rest) by (rewrite <- app_assoc; reflexivity).
  rewrite skipn_app, Nat.sub_diag, skipn_all. reflexivity.
Qed.

Lemma firstn_mid {A} (pre : list A) x rest : firstn (length pre) (pre ++ x :: rest) = pre.
Proof. rewrite firstn_app, Nat.sub_diag, firstn_all. cbn [firstn]. apply app_nil_r. Qed.

Lemma set_nth_mid {A} (pre : list A) x y rest : set_nth (length pre) y (pre ++ x :: rest) = pre ++ y :: rest.
Proof.
  rewrite (set_nth_split _ _ y x (nth_error_mid pre x rest)), firstn_mid, skipn_mid. reflexivity.
Qed.

Lemma sets_get_assoc {V} (sets : list (N * V)) k :
  assoc k sets = (fix go (s : list (N * V)) := match s with
                  | [] => None | (k', v) :: r => if N.eqb k' k then Some v else go r end) sets.
Proof.
  induction sets as [|[k' v] r IH]; cbn [assoc]; [reflexivity|].
  rewrite (N.eqb_sym k k'). destruct (N.eqb k' k); [reflexivity|exact IH].
Qed.

Lemma sets_get_eq (sets : list (N * list (list N * N))) k : sets_get sets k = assoc k sets.
Proof.
  induction sets as [|[k' v] r IH]; cbn [C15.Model.sets_get assoc]; [reflexivity|].
  rewrite (N.eqb_sym k k'). destruct (N.eqb k' k); [reflexivity|exact IH].
Qed.

(* ------------------------------------------------------------------ *)
(* ligatures                                                           *)

Section Keep.
  Variable kp : N -> bool.
  Hypothesis kp_all : forall g, kp g = true.

  Lemma match_seq_lig_match : forall ins l p,
    match lig_match ins (map of_g l) with
    | Some (t, tail) =>
        match_seq kp (map PGlyph ins) l p = Some (List.seq p (length ins)) /\
        length ins <= length l /\ t = text (firstn (length ins) l) /\
        tail = map of_g (skipn (length ins) l)
    | None => match_seq kp (map PGlyph ins) l p = None
    end.
  Proof.
    induction ins as [|c ins IH]; intros l p; cbn [C15.Model.lig_match map match_seq length].
    - repeat split; try reflexivity; lia.
    - destruct l as [|g l]; cbn [map next_kept]; [reflexivity|]. rewrite kp_all.
      cbn [test_pred]. change (g_gid (of_g g)) with (gid g).
      destruct (N.eqb (gid g) c); [|reflexivity].
      specialize (IH l (S p)). destruct (lig_match ins (map of_g l)) as [[t tail]|].
      + destruct IH as (-> & Hl & -> & ->). cbn [option_map List.seq length firstn skipn].
        split; [reflexivity|]. split; [lia|]. split; [|reflexivity].
        unfold text. cbn [flat_map]. reflexivity.
      + rewrite IH. reflexivity.
  Qed.

  Lemma find_lig_lig_try : forall ligs pre g rest,
    let seq := pre ++ g :: rest in
    let p := length pre in
    match lig_try ligs (of_g g) (map of_g rest) with
    | Some (g', tail) =>
        exists (ins : list N) (out : N),
          find_lig kp seq p (length seq - 0) (gid g) ligs = Some (p :: List.seq (S p) (length ins), out) /\
          length ins <= length rest /\
          g' = mkGI out (gtext g ++ text (firstn (length ins) rest)) 0 0 0 /\
          tail = map of_g (skipn (length ins) rest)
    | None => find_lig kp seq p (length seq - 0) (gid g) ligs = None
    end.
  Proof.
    intros ligs pre g rest seq p.
    assert (Hlen : p < length seq - 0).
    { unfold seq, p. rewrite app_length. cbn [length]. lia. }
    assert (Hn : nth_error seq p = Some g) by apply nth_error_mid.
    assert (Hsl : slice seq (S p) (length seq - 0) = rest).
    { rewrite slice_to_end. apply skipn_mid. }
    apply Nat.ltb_lt in Hlen.
    clearbody seq p.
    induction ligs as [|[ins out] more IH]; cbn [C15.Model.lig_try find_lig]; [reflexivity|].
    unfold match_input. rewrite Hn, Hlen, Hsl. cbn [andb test_pred]. rewrite N.eqb_refl.
    pose proof (match_seq_lig_match ins rest (S p)) as Hm.
    destruct (lig_match ins (map of_g rest)) as [[t tail]|].
    - destruct Hm as (-> & Hl & -> & ->). cbn [option_map]. exists ins, out. auto.
    - rewrite Hm. cbn [option_map]. exact IH.
  Qed.
End Keep.

Lemma last_pos_seq p k : last_pos (p :: List.seq (S p) k) p = p + k.
Proof.
  unfold last_pos. revert p. induction k as [|k IH]; intros p; cbn [List.seq]; [cbn; lia|].
  rewrite (last_cons_ne p (S p :: List.seq (S (S p)) k) p (S p)) by discriminate.
  rewrite IH. lia.
Qed.

Lemma text_at_seq pre g rest k : k <= length rest ->
  flat_map (text_at (pre ++ g :: rest)) (length pre :: List.seq (S (length pre)) k) =
  gtext g ++ text (firstn k rest).
Proof.
  intros Hk. cbn [flat_map]. unfold text_at at 1. rewrite nth_error_mid. f_equal.
  rewrite <- (text_rel_seq rest (S (length pre)) k Hk).
  apply flat_map_ext_in. intros q Hq. apply in_seq in Hq.
  rewrite (text_at_rel _ (length pre)) by lia. rewrite skipn_mid. reflexivity.
Qed.

(* one step of the scan over the embedded ligature lookup *)
Lemma step_liga : forall ll gd f sets pre g rest,
  step ll gd (S f) (mkLookup 0 0 [SLigature sets]) (length pre) (pre ++ g :: rest) =
  match sets_get sets (gid g) with
  | Some ligs =>
      match lig_try ligs (of_g g) (map of_g rest) with
      | Some (g', tail) => (pre ++ to_g g' :: map to_g tail, S (length pre), true)
      | None => (pre ++ g :: rest, S (length pre), true)
      end
  | None => (pre ++ g :: rest, S (length pre), true)
  end.
Proof.
  intros ll gd f sets pre g rest. unfold step. rewrite kp_flags0. cbn [apply_at lk_subs try_subs].
  unfold try_sub. cbn [s_seq]. unfold simple_effect. rewrite nth_error_mid. rewrite sets_get_eq.
  destruct (assoc (gid g) sets) as [ligs|] eqn:Ea.
  - pose proof (find_lig_lig_try (kp_of gd (mkLookup 0 0 [SLigature sets])) (kp_flags0 gd _) ligs pre g rest) as Hf.
    cbv zeta in Hf.
    destruct (lig_try ligs (of_g g) (map of_g rest)) as [[g' tail]|].
    + destruct Hf as (ins & out & -> & Hl & -> & ->).
      cbn [apply_effect and_ok s_seq s_frames s_nact s_ok hd tl map forallb fst snd].
      rewrite firstn_mid, skipn_mid, last_pos_seq, seq_length.
      rewrite text_at_seq by exact Hl. rewrite drop_at_seq by exact Hl.
      rewrite map_to_of. replace (S (length pre + length ins) - length ins) with (S (length pre)) by lia.
      cbn [andb orb]. rewrite orb_true_r. reflexivity.
    + rewrite Hf. cbn [ctx_rules find_rule]. reflexivity.
  - unfold gid_at. cbn [ctx_rules find_rule]. reflexivity.
Qed.

Lemma scan_snd_true : forall ll gd b lk fuel r seq ok,
  snd (scan ll gd b lk fuel r seq ok) = true -> ok = true.
Proof.
  intros ll gd b lk fuel. induction fuel as [|f IH]; intros r seq ok H; cbn [scan] in H.
  - cbn [snd] in H. apply andb_prop in H. tauto.
  - destruct (r =? 0); [exact H|].
    destruct (step ll gd b lk (length seq - r) seq) as [[seq' next] ok'].
    destruct (size_cap <? length seq'); [discriminate|].
    apply IH in H. apply andb_prop in H. tauto.
Qed.

Lemma split_at {A} (l : list A) p : p < length l ->
  exists pre x rest, l = pre ++ x :: rest /\ length pre = p.
Proof.
  intros H. destruct (nth_error l p) as [x|] eqn:E; [|apply nth_error_None in E; lia].
  exists (firstn p l), x, (skipn (S p) l). split; [apply firstn_skipn_cons; exact E|].
  apply firstn_length_le. lia.
Qed.

Lemma len_mid {A} (pre : list A) x rest : length (pre ++ x :: rest) - S (length rest) = length pre.
Proof. rewrite app_length. cbn [length]. lia. Qed.

Lemma len_mid' {A} (pre : list A) x rest : length (pre ++ x :: rest) - S (length pre) = length rest.
Proof. rewrite app_length. cbn [length]. lia. Qed.

Lemma app_cons_assoc {A} (pre : list A) x rest : pre ++ x :: rest = (pre ++ [x]) ++ rest.
Proof. rewrite <- app_assoc. reflexivity. Qed.

(* the scan from position |pre| on is the main development's ligature pass *)
Lemma scan_liga : forall ll gd f sets fuel pre rest ok out,
  length rest <= fuel ->
  scan ll gd (S f) (mkLookup 0 0 [SLigature sets]) fuel (length rest) (pre ++ rest) ok = (out, true) ->
  forall fuelL, length rest <= fuelL ->
  exists tl', liga_pass fuelL sets (map of_g rest) = Ok tl' /\ out = pre ++ map to_g tl'.
Proof.
  intros ll gd f sets fuel. induction fuel as [|fu IH]; intros pre rest ok out Hf H fuelL HL.
  - destruct rest; [|cbn [length] in Hf; lia]. cbn [scan length] in H. inversion H; subst.
    exists []. split; [destruct fuelL; reflexivity|reflexivity].
  - destruct rest as [|g rest].
    + cbn [scan length Nat.eqb] in H. inversion H; subst.
      exists []. split; [destruct fuelL; reflexivity|reflexivity].
    + cbn [length] in *. cbn [scan] in H. cbn [Nat.eqb] in H.
      rewrite len_mid, step_liga in H.
      destruct fuelL as [|fl]; [lia|]. cbn [map C15.Model.liga_pass].
      change (g_gid (of_g g)) with (gid g).
      assert (Hnomatch :
        (if size_cap <? length (pre ++ g :: rest) then (pre ++ g :: rest, false)
         else scan ll gd (S f) (mkLookup 0 0 [SLigature sets]) fu
                   (length (pre ++ g :: rest) - S (length pre)) (pre ++ g :: rest) (ok && true)) = (out, true) ->
        exists tl', omap (cons (of_g g)) (liga_pass fl sets (map of_g rest)) = Ok tl' /\ out = pre ++ map to_g tl').
      { intros H'. destruct (size_cap <? length (pre ++ g :: rest)); [discriminate|].
        rewrite len_mid', app_cons_assoc in H'.
        destruct (IH (pre ++ [g]) rest _ out ltac:(lia) H' fl ltac:(lia)) as (tl2 & Hlp & Hout).
        rewrite Hlp. cbn [omap obind]. exists (of_g g :: tl2). split; [reflexivity|].
        rewrite Hout, <- app_assoc. cbn [map app]. rewrite to_of_g. reflexivity. }
      destruct (sets_get sets (gid g)) as [ligs|]; [|apply Hnomatch; exact H].
      destruct (lig_try ligs (of_g g) (map of_g rest)) as [[g' tail]|] eqn:Et; [|apply Hnomatch; exact H].
      pose proof (C15.Proofs_liga.lig_try_spec _ _ _ _ _ Et) as (ins & o & m & _ & Hm & _ & _).
      assert (Htl : length tail <= length rest).
      { rewrite <- (map_length of_g rest), Hm, app_length. lia. }
      destruct (size_cap <? length (pre ++ to_g g' :: map to_g tail)); [discriminate|].
      rewrite len_mid', app_cons_assoc in H.
      destruct (IH (pre ++ [to_g g']) (map to_g tail) _ out ltac:(rewrite map_length; lia) H fl
                   ltac:(rewrite map_length; lia)) as (tl2 & Hlp & Hout).
      rewrite map_of_to in Hlp. rewrite Hlp. cbn [omap obind]. exists (g' :: tl2). split; [reflexivity|].
      rewrite Hout, <- app_assoc. reflexivity.
Qed.

(* ------------------------------------------------------------------ *)
(* pair adjustment                                                     *)

Lemma assoc_tabulate {V} (F : N -> V) (L : list N) k :
  assoc k (map (fun l => (l, F l)) L) = if memN k L then Some (F k) else None.
Proof.
  induction L as [|l L IH]; cbn [map assoc memN existsb]; [reflexivity|].
  destruct (N.eqb_spec k l) as [->|Hne]; cbn [orb]; [reflexivity|]. exact IH.
Qed.

Lemma key_split k g1 g2 : (g2 < 65536)%N ->
  (N.eqb (k / 65536) g1 && N.eqb (k mod 65536) g2)%N = N.eqb k (g1 * 65536 + g2)%N.
Proof.
  intros Hg. destruct (N.eqb_spec k (g1 * 65536 + g2)%N) as [->|Hne].
  - rewrite N.div_add_l by discriminate. rewrite N.div_small by exact Hg. rewrite N.add_0_r, N.eqb_refl.
    rewrite N.add_comm, N.mod_add by discriminate. rewrite N.mod_small by exact Hg. apply N.eqb_refl.
  - destruct (N.eqb_spec (k / 65536)%N g1) as [H1|]; [|reflexivity].
    destruct (N.eqb_spec (k mod 65536)%N g2) as [H2|]; [|reflexivity].
    exfalso. apply Hne. rewrite (N.div_mod k 65536) by discriminate. rewrite H1, H2. lia.
Qed.

Lemma pair_row_lookup km g1 g2 : (g2 < 65536)%N ->
  assoc g2 (pair_row km g1) = option_map kv_rec (kmap_get km (g1 * 65536 + g2)%N).
Proof.
  intros Hg. unfold pair_row. induction km as [|[k v] km IH]; cbn [flat_map C15.Model.kmap_get fst snd]; [reflexivity|].
  pose proof (key_split k g1 g2 Hg) as Hk.
  destruct (N.eqb (k / 65536) g1); cbn [andb] in Hk.
  - cbn [app assoc]. rewrite (N.eqb_sym g2), Hk.
    destruct (N.eqb k (g1 * 65536 + g2)); [reflexivity|exact IH].
  - cbn [app]. rewrite <- Hk. exact IH.
Qed.

Lemma pair_row_empty km g1 : ~ In g1 (map (fun e => (fst e / 65536)%N) km) -> pair_row km g1 = [].
Proof.
  unfold pair_row. induction km as [|[k v] km IH]; intros H; cbn [flat_map fst snd]; [reflexivity|].
  cbn [map In fst] in H. destruct (N.eqb_spec (k / 65536)%N g1) as [He|]; [exfalso; apply H; left; exact He|].
  cbn [app]. apply IH. intros Hin. apply H. right. exact Hin.
Qed.

Definition pair_rows (km : C15.Model.kmap) := map (fun l => (l, pair_row km l)) (pair_firsts km).

Lemma rows_lookup km g1 g2 : (g2 < 65536)%N ->
  match assoc g1 (pair_rows km) with Some row => assoc g2 row | None => None end =
  option_map kv_rec (kmap_get km (g1 * 65536 + g2)%N).
Proof.
  intros Hg. unfold pair_rows. rewrite assoc_tabulate.
  destruct (memN g1 (pair_firsts km)) eqn:Em; [apply pair_row_lookup; exact Hg|].
  rewrite <- (pair_row_lookup km g1 g2 Hg). rewrite pair_row_empty; [reflexivity|].
  intros Hin. unfold memN in Em. assert (existsb (N.eqb g1) (pair_firsts km) = true); [|congruence].
  apply existsb_exists. exists g1. split; [|apply N.eqb_refl]. unfold pair_firsts. apply nodup_In. exact Hin.
Qed.

Definition kern_vr (v : Z) : vrec := mkV 0 0 v false.

Lemma step_pair : forall ll gd f km pre g1 rest,
  (forall g2 r, rest = g2 :: r -> (gid g2 < 65536)%N) ->
  step ll gd (S f) (mkLookup 0 0 [SPair1 (pair_rows km)]) (length pre) (pre ++ g1 :: rest) =
  match rest with
  | g2 :: _ =>
      match kmap_get km (gid g1 * 65536 + gid g2)%N with
      | Some v => (pre ++ add_vr (kern_vr v) g1 :: rest, S (length pre), glyph_fits (add_vr (kern_vr v) g1))
      | None => (pre ++ g1 :: rest, S (length pre), true)
      end
  | [] => (pre ++ g1 :: rest, S (length pre), true)
  end.
Proof.
  intros ll gd f km pre g1 rest H16. unfold step. rewrite kp_flags0. cbn [apply_at lk_subs try_subs].
  unfold try_sub. cbn [s_seq]. unfold simple_effect. rewrite nth_error_mid.
  rewrite slice_to_end, skipn_mid.
  destruct rest as [|g2 r].
  - cbn [next_kept]. unfold gid_at. cbn [ctx_rules find_rule]. reflexivity.
  - cbn [next_kept]. rewrite kp_flags0.
    pose proof (rows_lookup km (gid g1) (gid g2) (H16 g2 r eq_refl)) as HR.
    destruct (assoc (gid g1) (pair_rows km)) as [row|].
    + destruct (assoc (gid g2) row) as [[v1 v2]|].
      * destruct (kmap_get km (gid g1 * 65536 + gid g2)%N) as [v|]; [|discriminate].
        cbn [option_map] in HR. unfold kv_rec in HR. inversion HR; subst v1 v2.
        cbn [apply_effect and_ok s_seq s_frames s_nact s_ok fold_left fst snd].
        rewrite set_nth_mid. unfold vr_ok, kern_vr. cbn [vbad negb andb]. reflexivity.
      * destruct (kmap_get km (gid g1 * 65536 + gid g2)%N) as [v|]; [discriminate|].
        unfold gid_at. cbn [ctx_rules find_rule]. reflexivity.
    + destruct (kmap_get km (gid g1 * 65536 + gid g2)%N) as [v|]; [discriminate|].
      unfold gid_at. cbn [ctx_rules find_rule]. reflexivity.
Qed.

Lemma fits16_range z : fits16 z = true -> (-32768 <= z < 32768)%Z.
Proof. unfold fits16. intros H. apply andb_prop in H. destruct H as [H1 H2]. apply Z.leb_le in H1, H2. lia. Qed.

Lemma kern_glyph_fits g v : glyph_fits (add_vr (kern_vr v) g) = true ->
  to_g (C15.Model.add_adv (of_g g) v) = add_vr (kern_vr v) g.
Proof.
  intros H. unfold glyph_fits in H. apply andb_prop in H. destruct H as [_ H].
  apply fits16_range in H. cbn [add_vr kern_vr gadv va] in H.
  unfold C15.Model.add_adv, to_g, of_g, add_vr, kern_vr.
  cbn [C15.Model.g_gid C15.Model.g_text C15.Model.g_xoff C15.Model.g_yoff C15.Model.g_adv gid gtext gx gy gadv vx vy va].
  rewrite C15.Proofs_kern.wrapi16_id by exact H. rewrite !Z.add_0_r. reflexivity.
Qed.

Lemma scan_pair : forall ll gd f km fuel pre rest ok out,
  length rest <= fuel -> Forall (fun g => (gid g < 65536)%N) rest ->
  scan ll gd (S f) (mkLookup 0 0 [SPair1 (pair_rows km)]) fuel (length rest) (pre ++ rest) ok = (out, true) ->
  out = pre ++ map to_g (pair_pass km (map of_g rest)).
Proof.
  intros ll gd f km fuel. induction fuel as [|fu IH]; intros pre rest ok out Hf H16 H.
  - destruct rest; [|cbn [length] in Hf; lia]. cbn [scan length] in H. inversion H; subst. reflexivity.
  - destruct rest as [|g1 rest].
    + cbn [scan length Nat.eqb] in H. inversion H; subst. reflexivity.
    + cbn [length] in *. cbn [scan Nat.eqb] in H. rewrite len_mid in H.
      inversion H16 as [|? ? Hg1 H16']; subst.
      rewrite step_pair in H
        by (intros g2 r ->; inversion H16'; assumption).
      cbn [map C15.Model.pair_pass].
      assert (Hnomatch :
        (if size_cap <? length (pre ++ g1 :: rest) then (pre ++ g1 :: rest, false)
         else scan ll gd (S f) (mkLookup 0 0 [SPair1 (pair_rows km)]) fu
                   (length (pre ++ g1 :: rest) - S (length pre)) (pre ++ g1 :: rest) (ok && true)) = (out, true) ->
        out = pre ++ g1 :: map to_g (pair_pass km (map of_g rest))).
      { intros H'. destruct (size_cap <? length (pre ++ g1 :: rest)); [discriminate|].
        rewrite len_mid', app_cons_assoc in H'.
        rewrite (IH (pre ++ [g1]) rest _ out ltac:(lia) H16' H'), <- app_assoc. reflexivity. }
      destruct rest as [|g2 r].
      * rewrite (Hnomatch H). cbn [map C15.Model.pair_pass]. rewrite to_of_g. reflexivity.
      * cbn [map]. change (g_gid (of_g g1)) with (gid g1). change (g_gid (of_g g2)) with (gid g2).
        destruct (kmap_get km (gid g1 * 65536 + gid g2)%N) as [v|].
        -- destruct (size_cap <? length (pre ++ add_vr (kern_vr v) g1 :: g2 :: r)); [discriminate|].
           rewrite len_mid', app_cons_assoc in H.
           pose proof (scan_snd_true _ _ _ _ _ _ _ _ (f_equal snd H)) as Hok.
           apply andb_prop in Hok. destruct Hok as [_ Hfit].
           rewrite (IH (pre ++ [add_vr (kern_vr v) g1]) (g2 :: r) _ out ltac:(cbn [length] in *; lia) H16' H).
           rewrite <- app_assoc. cbn [app map]. rewrite (kern_glyph_fits g1 v Hfit). reflexivity.
        -- rewrite (Hnomatch H). cbn [map]. rewrite to_of_g. reflexivity.
Qed.

(* a lookup without subtables *)
Lemma scan_nosubs : forall ll gd f fuel r seq ok,
  fst (scan ll gd (S f) (mkLookup 0 0 []) fuel r seq ok) = seq.
Proof.
  intros ll gd f fuel. induction fuel as [|fu IH]; intros r seq ok; cbn [scan]; [reflexivity|].
  destruct (r =? 0); [reflexivity|].
  unfold step. rewrite kp_flags0. cbn [apply_at lk_subs try_subs].
  destruct (size_cap <? length seq); [reflexivity|]. apply IH.
Qed.

(* ------------------------------------------------------------------ *)
(* the lookup list                                                     *)

Definition seq16 (seq : list ginfo) : Prop := Forall (fun g => (g_gid g < 65536)%N) seq.

(* the glyphs ligature lookups produce are 16 bit *)
Definition lookup16 (lk : C15.Model.lookup) : Prop :=
  match lk with
  | LLiga sets => forall k ligs ins out, In (k, ligs) sets -> In (ins, out) ligs -> (out < 65536)%N
  | _ => True
  end.

Lemma budget_S : exists f, gtab_actionBudget = S f.
Proof. exists 63. reflexivity. Qed.

Lemma sets_get_in sets k ligs : sets_get sets k = Some ligs -> In (k, ligs) sets.
Proof.
  induction sets as [|[k' v] r IH]; cbn [C15.Model.sets_get]; [discriminate|].
  destruct (N.eqb_spec k' k) as [->|]; [intros H; inversion H; left; reflexivity|].
  intros H. right. apply IH, H.
Qed.

Lemma liga_pass_16 sets : (forall k ligs ins out, In (k, ligs) sets -> In (ins, out) ligs -> (out < 65536)%N) ->
  forall fuel seq out, seq16 seq -> liga_pass fuel sets seq = Ok out -> seq16 out.
Proof.
  intros H16 fuel. induction fuel as [|fu IH]; intros seq out Hs H.
  - destruct seq; cbn [C15.Model.liga_pass] in H; [inversion H; constructor|discriminate].
  - destruct seq as [|g rest]; cbn [C15.Model.liga_pass] in H; [inversion H; constructor|].
    inversion Hs as [|? ? Hg Hrest]; subst.
    destruct (sets_get sets (g_gid g)) as [ligs|] eqn:Eg.
    + destruct (lig_try ligs g rest) as [[g' tail]|] eqn:Et.
      * destruct (C15.Proofs_liga.lig_try_spec _ _ _ _ _ Et) as (ins & o & m & Hin & Hm & _ & ->).
        destruct (liga_pass fu sets tail) as [t2| | |] eqn:E2; cbn [omap obind] in H; try discriminate.
        inversion H; subst. constructor.
        -- cbn [C15.Model.g_gid]. eapply H16; [apply sets_get_in; exact Eg|exact Hin].
        -- apply (IH tail); [|exact E2]. unfold seq16 in *.
           apply Forall_app in Hrest. tauto.
      * destruct (liga_pass fu sets rest) as [t2| | |] eqn:E2; cbn [omap obind] in H; try discriminate.
        inversion H; subst. constructor; [exact Hg|]. apply (IH rest); assumption.
    + destruct (liga_pass fu sets rest) as [t2| | |] eqn:E2; cbn [omap obind] in H; try discriminate.
      inversion H; subst. constructor; [exact Hg|]. apply (IH rest); assumption.
Qed.

Lemma pair_pass_16 km : forall seq, seq16 seq -> seq16 (pair_pass km seq).
Proof.
  induction seq as [|g1 rest IH]; intros H; cbn [C15.Model.pair_pass]; [constructor|].
  inversion H as [|? ? Hg Hrest]; subst. destruct rest as [|g2 r]; [exact H|].
  constructor; [|apply IH; exact Hrest].
  destruct (kmap_get km _); [|exact Hg]. exact Hg.
Qed.

Lemma seq16_to_g seq : seq16 seq -> Forall (fun g => (gid g < 65536)%N) (map to_g seq).
Proof.
  intros H. apply Forall_forall. intros x Hx. apply in_map_iff in Hx. destruct Hx as (y & <- & Hy).
  unfold seq16 in H. rewrite Forall_forall in H. exact (H y Hy).
Qed.

Lemma is_reverse_embed lk : is_reverse (embed_lookup lk) = false.
Proof. destruct lk; reflexivity. Qed.

(* one embedded lookup, inside the domain *)
Lemma apply_lookup_embed : forall ll gd lk (seq : list ginfo) ok out li,
  nth_error ll li = Some (embed_lookup lk) -> seq16 seq -> lookup16 lk ->
  apply_lookup ll gd gtab_actionBudget (map to_g seq, ok) li = (out, true) ->
  C15.Model.apply_lookup lk seq = Ok (map of_g out) /\ seq16 (map of_g out).
Proof.
  intros ll gd lk seq ok out li Hn H16 Hl H. destruct budget_S as [f Hf]. rewrite Hf in H.
  unfold apply_lookup in H. rewrite Hn, is_reverse_embed in H. cbn [fst snd] in H.
  destruct lk as [|km|sets]; cbn [embed_lookup C15.Model.apply_lookup] in *.
  - pose proof (scan_nosubs ll gd f (length (map to_g seq)) (length (map to_g seq)) (map to_g seq) ok) as Hs.
    rewrite H in Hs. cbn [fst] in Hs. subst out. rewrite map_of_to. split; [reflexivity|exact H16].
  - fold (pair_rows km) in H.
    pose proof (scan_pair ll gd f km (length (map to_g seq)) [] (map to_g seq) ok out (le_n _)
                  (seq16_to_g seq H16) H) as Ho.
    cbn [app] in Ho. rewrite map_of_to in Ho. subst out. rewrite map_of_to.
    split; [reflexivity|apply pair_pass_16; exact H16].
  - destruct (scan_liga ll gd f sets (length (map to_g seq)) [] (map to_g seq) ok out (le_n _) H
                (length seq) ltac:(rewrite map_length; lia)) as (tl' & Hlp & Ho).
    rewrite map_of_to in Hlp. cbn [app] in Ho. subst out. rewrite map_of_to.
    split; [exact Hlp|]. eapply liga_pass_16; [exact Hl|exact H16|exact Hlp].
Qed.

Lemma apply_lookup_snd_true ll gd b acc li :
  snd (apply_lookup ll gd b acc li) = true -> snd acc = true.
Proof.
  unfold apply_lookup. destruct (nth_error ll li) as [lk|]; [|auto].
  destruct (is_reverse lk); cbn [snd].
  - intros H. apply andb_prop in H. tauto.
  - apply scan_snd_true.
Qed.

Lemma fold_lookup_snd_true ll gd b order : forall acc,
  snd (fold_left (apply_lookup ll gd b) order acc) = true -> snd acc = true.
Proof.
  induction order as [|li order IH]; intros acc H; cbn [fold_left] in H; [exact H|].
  apply IH in H. eapply apply_lookup_snd_true; exact H.
Qed.

Lemma apply_all_embed : forall (llC : list C15.Model.lookup) gd sel (seq : list ginfo) ok,
  Forall lookup16 llC -> seq16 seq ->
  snd (fold_left (apply_lookup (map embed_lookup llC) gd gtab_actionBudget) (map N.to_nat sel) (map to_g seq, ok)) = true ->
  C15.Model.apply_all llC sel seq =
    Ok (map of_g (fst (fold_left (apply_lookup (map embed_lookup llC) gd gtab_actionBudget)
                                 (map N.to_nat sel) (map to_g seq, ok)))) /\
  seq16 (map of_g (fst (fold_left (apply_lookup (map embed_lookup llC) gd gtab_actionBudget)
                                  (map N.to_nat sel) (map to_g seq, ok)))).
Proof.
  intros llC gd sel. induction sel as [|i sel IH]; intros seq ok Hl H16 H; cbn [map fold_left C15.Model.apply_all] in *.
  - cbn [fst]. rewrite map_of_to. split; [reflexivity|exact H16].
  - destruct (nth_error llC (N.to_nat i)) as [lk|] eqn:En.
    + assert (Hn : nth_error (map embed_lookup llC) (N.to_nat i) = Some (embed_lookup lk)).
      { rewrite nth_error_map, En. reflexivity. }
      pose proof (fold_lookup_snd_true _ _ _ _ _ H) as Hs1.
      destruct (apply_lookup (map embed_lookup llC) gd gtab_actionBudget (map to_g seq, ok) (N.to_nat i))
        as [out1 ok1] eqn:E1. cbn [snd] in Hs1. subst ok1.
      assert (Hlk : lookup16 lk).
      { rewrite Forall_forall in Hl. apply Hl. eapply nth_error_In; exact En. }
      destruct (apply_lookup_embed _ gd lk seq ok out1 _ Hn H16 Hlk E1) as (Ha & H16').
      rewrite Ha. cbn [obind].
      specialize (IH (map of_g out1) true Hl H16'). rewrite map_to_of in IH. apply IH. exact H.
    + assert (Hn : nth_error (map embed_lookup llC) (N.to_nat i) = None).
      { rewrite nth_error_map, En. reflexivity. }
      assert (Hstep : apply_lookup (map embed_lookup llC) gd gtab_actionBudget (map to_g seq, ok) (N.to_nat i)
                      = (map to_g seq, ok)).
      { unfold apply_lookup. rewrite Hn. reflexivity. }
      rewrite Hstep in H |- *. apply IH; assumption.
Qed.
