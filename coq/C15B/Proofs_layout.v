(* C15B/Proofs_layout.v — the general pipeline as a whole: the equation of the
   property statement, what the stages conserve, feature switches, identity
   when no rule applies. *)
From Coq Require Import List NArith ZArith Bool Arith Lia Permutation Sorted.
From Common Require Import Bytes Outcome.
From Gen Require Import Consts C06 C15.
From C06 Require Import Model Spec Util Proofs.
From C15 Require Model Entry Spec Util Proofs_find Proofs_layout Proofs_props.
From C15B Require Import Model Spec Util Proofs_engine Proofs_effects Proofs_inert.
Import ListNotations.

Notation features := C15.Model.features.
Notation feature := C15.Model.feature.
Notation switches := C15.Model.switches.
Notation set_widths := C15.Model.set_widths.
Notation cmap_lookup := C15.Model.cmap_lookup.
Notation lex_leb := C15.Model.lex_leb.
Notation tags_of := C15.Proofs_props.tags_of.
Notation wanted := C15.Proofs_find.wanted.
Notation S_identity := C15.Spec.S_identity.
Notation S_advance := C15.Spec.S_advance.
Notation glyphs_exist := C15.Spec.glyphs_exist.
Notation set_width_of := C15.Proofs_layout.set_width_of.

(* ------------------------------------------------------------------ *)
(* lookups in list order                                               *)

Lemma shape_nil ll gd seq : shape ll gd [] seq = seq.
Proof. unfold shape. cbn [map]. unfold R_shape, R_run. cbn [fold_left fst]. apply map_of_to. Qed.

Lemma shape_app ll gd l1 l2 seq : shape ll gd (l1 ++ l2) seq = shape ll gd l2 (shape ll gd l1 seq).
Proof. unfold shape. rewrite map_app, R_shape_app, map_to_of. reflexivity. Qed.

Lemma shape_fold ll gd sel : forall seq, shape ll gd sel seq = shape_in_order ll gd sel seq.
Proof.
  induction sel as [|a sel IH]; intros seq; [apply shape_nil|].
  change (a :: sel) with ([a] ++ sel). rewrite shape_app, IH. reflexivity.
Qed.

Lemma pass_stage {tag} (t : option (gtable tag)) gd sel seq : pass t gd sel seq = stage t gd sel seq.
Proof. unfold pass, stage. destruct t; [|reflexivity]. destruct sel; [|reflexivity]. apply shape_fold. Qed.

(* ------------------------------------------------------------------ *)
(* widths                                                              *)

(* when the width loop returns, it returned set_width_of of every glyph, and
   every glyph had an advance *)
Lemma set_widths_inv o cls : forall seq seq2,
  set_widths o cls seq = Ok seq2 ->
  seq2 = map (set_width_of o cls) seq /\
  forall g, In g seq -> S_advance o cls (g_gid g) <> None.
Proof.
  induction seq as [|g rest IH]; intros seq2 H; cbn [C15.Model.set_widths] in H.
  - inversion H. split; [reflexivity|intros g []].
  - unfold set_width_of at 1, C15.Spec.S_advance. cbn [map].
    destruct (C15.Model.num_glyphs o <=? g_gid g)%N eqn:En; cbn [obind] in H.
    { destruct (set_widths o cls rest) as [r| | |]; cbn [obind] in H; try discriminate.
      inversion H; subst. destruct (IH r eq_refl) as [-> Hex]. split; [reflexivity|].
      intros g' [<-|Hg']; [rewrite En; discriminate|apply Hex, Hg']. }
    destruct (C15.Model.is_mark cls (g_gid g)) eqn:Em; cbn [obind] in H.
    + destruct (set_widths o cls rest) as [r| | |]; cbn [obind] in H; try discriminate.
      inversion H; subst. destruct (IH r eq_refl) as [-> Hex]. split; [reflexivity|].
      intros g' [<-|Hg']; [rewrite En, Em; discriminate|apply Hex, Hg'].
    + destruct (C15.Model.glyph_width o (g_gid g)) as [w| | |] eqn:Ew; cbn [obind] in H; try discriminate.
      destruct (set_widths o cls rest) as [r| | |]; cbn [obind] in H; try discriminate.
      inversion H; subst. destruct (IH r eq_refl) as [-> Hex]. split; [reflexivity|].
      intros g' [<-|Hg']; [rewrite En, Em, Ew; discriminate|apply Hex, Hg'].
Qed.

Lemma set_width_of_keeps o cls g :
  g_gid (set_width_of o cls g) = g_gid g /\ g_text (set_width_of o cls g) = g_text g /\
  g_xoff (set_width_of o cls g) = g_xoff g /\ g_yoff (set_width_of o cls g) = g_yoff g.
Proof.
  unfold set_width_of. destruct (C15.Model.num_glyphs o <=? g_gid g)%N; [repeat split|].
  destruct (C15.Model.is_mark cls (g_gid g)); repeat split.
Qed.

(* ------------------------------------------------------------------ *)
(* conversions                                                         *)

Lemma gid_of_g l : map g_gid (map of_g l) = map gid l.
Proof. rewrite map_map. reflexivity. Qed.
Lemma gtext_of_g l : map g_text (map of_g l) = map gtext l.
Proof. rewrite map_map. reflexivity. Qed.
Lemma gid_to_g l : map gid (map to_g l) = map g_gid l.
Proof. rewrite map_map. reflexivity. Qed.
Lemma gtext_to_g l : map gtext (map to_g l) = map g_text l.
Proof. rewrite map_map. reflexivity. Qed.

Lemma text_of_to_g l : text (map to_g l) = text_of l.
Proof. unfold text, text_of. induction l as [|g l IH]; cbn; [reflexivity|]. rewrite IH. reflexivity. Qed.
Lemma text_of_of_g l : text_of (map of_g l) = text l.
Proof. unfold text, text_of. induction l as [|g l IH]; cbn; [reflexivity|]. rewrite IH. reflexivity. Qed.

Lemma text_of_map_chars cm s : text_of (map_chars cm s) = s.
Proof. unfold text_of, map_chars. induction s as [|r s IH]; cbn; [reflexivity|]. rewrite IH. reflexivity. Qed.

Lemma text_of_set_width o cls l : text_of (map (set_width_of o cls) l) = text_of l.
Proof.
  unfold text_of. induction l as [|g l IH]; cbn [map flat_map]; [reflexivity|].
  rewrite IH. destruct (set_width_of_keeps o cls g) as (_ & -> & _). reflexivity.
Qed.

(* ------------------------------------------------------------------ *)
(* what the passes conserve, on ginfo sequences                        *)

Lemma shape_text_perm ll gd sel seq : Permutation (text_of seq) (text_of (shape ll gd sel seq)).
Proof.
  unfold shape. rewrite text_of_of_g, <- text_of_to_g. apply any_pass_text_perm.
Qed.

Lemma pass_text_perm {tag} (t : option (gtable tag)) gd sel seq :
  Permutation (text_of seq) (text_of (pass t gd sel seq)).
Proof.
  unfold pass. destruct t; [|apply Permutation_refl]. destruct sel; [|apply Permutation_refl].
  apply shape_text_perm.
Qed.

Lemma pass_text_eq {tag} (t : option (gtable tag)) gd sel seq :
  table_pred (forallb (lig_adjacent gd)) t = true -> text_of (pass t gd sel seq) = text_of seq.
Proof.
  intros H. unfold pass. destruct t as [g|]; [|reflexivity]. destruct sel; [|reflexivity].
  unfold shape. rewrite text_of_of_g, <- text_of_to_g. apply adjacent_pass_text_eq. exact H.
Qed.

Lemma pass_same_glyphs {tag} (t : option (gtable tag)) gd sel seq :
  table_pred gpos_list t = true ->
  map g_gid (pass t gd sel seq) = map g_gid seq /\ map g_text (pass t gd sel seq) = map g_text seq.
Proof.
  intros H. unfold pass. destruct t as [g|]; [|split; reflexivity]. destruct sel as [ls|]; [|split; reflexivity].
  unfold shape. rewrite gid_of_g, gtext_of_g.
  destruct (gpos_pass_same_glyphs (gt_lookups g) gd (map N.to_nat ls) (map to_g seq) H) as [H1 H2].
  rewrite <- H1, <- H2, gid_to_g, gtext_to_g. split; reflexivity.
Qed.

Definition zero_ginfo (g : ginfo) : Prop := g_xoff g = 0%Z /\ g_yoff g = 0%Z /\ g_adv g = 0%Z.

Lemma pass_keeps_zero {tag} (t : option (gtable tag)) gd sel seq :
  table_pred gsub_list t = true -> Forall zero_ginfo seq -> Forall zero_ginfo (pass t gd sel seq).
Proof.
  intros H Hz. unfold pass. destruct t as [g|]; [|exact Hz]. destruct sel as [ls|]; [|exact Hz].
  unfold shape.
  assert (Hz' : Forall zero_pos (map to_g seq)).
  { apply Forall_forall. intros x Hx. apply in_map_iff in Hx. destruct Hx as (y & <- & Hy).
    rewrite Forall_forall in Hz. exact (Hz y Hy). }
  pose proof (gsub_pass_keeps_zero (gt_lookups g) gd (map N.to_nat ls) _ H Hz') as Hr.
  apply Forall_forall. intros x Hx. apply in_map_iff in Hx. destruct Hx as (y & <- & Hy).
  rewrite Forall_forall in Hr. exact (Hr y Hy).
Qed.

Lemma map_chars_zero cm s : Forall zero_ginfo (map_chars cm s).
Proof.
  apply Forall_forall. intros x Hx. apply in_map_iff in Hx. destruct Hx as (r & <- & _). repeat split.
Qed.

(* a positioning-only lookup list trivially has no ligature that could skip *)
Lemma gpos_list_adjacent gd ll : gpos_list ll = true -> forallb (lig_adjacent gd) ll = true.
Proof.
  intros H. apply forallb_forall. intros lk Hin. unfold gpos_list in H. rewrite forallb_forall in H.
  specialize (H lk Hin). unfold lig_adjacent. apply orb_true_iff. left. apply negb_true_iff.
  destruct (existsb is_lig (lk_subs lk)) eqn:E; [|reflexivity].
  apply existsb_exists in E. destruct E as (sub & Hs & Hl). unfold gpos_lookup in H.
  rewrite forallb_forall in H. specialize (H sub Hs). destruct sub; cbn in *; discriminate.
Qed.

(* ------------------------------------------------------------------ *)
(* the whole layout                                                    *)

Section Whole.
  Context {lang : Type}.
  Variable matcher : lang -> list tagT -> nat.
  Variable iter1 : list (tagT * option features) -> list (tagT * option features).
  Variable iter2 : list N -> list N.
  Hypothesis iter1_perm : forall x, Permutation (iter1 x) x.
  Hypothesis iter2_perm : forall x, Permutation (iter2 x) x.

  Definition selG := sel_lookups lex_leb matcher iter1 iter2.
  Definition layoutG := S_layout_general lex_leb matcher iter1 iter2
                          gtab_GsubDefaultFeatures gtab_GposDefaultFeatures.

  Definition scripts_nodup (t : option (gtable tagT)) : Prop :=
    match t with Some g => NoDup (map fst (gt_scripts g)) | None => True end.

  Definition matcher_beyond (t : option (gtable tagT)) (l : lang) : Prop :=
    match t with
    | Some g => gt_scripts g <> [] /\ (length (gt_scripts g) <= matcher l (tags_of (gt_scripts g)))%nat
    | None => False
    end.

  Lemma selG_outcome defaults t l sw : scripts_nodup t ->
    (selG defaults t l sw = Panic /\ matcher_beyond t l) \/
    exists sel, selG defaults t l sw = Ok sel /\ selection_wf t sel.
  Proof.
    intros Hd. unfold selG, sel_lookups. destruct t as [g|]; [|right; exists None; split; [reflexivity|exact I]].
    pose proof (C15.Proofs_props.find_lookups_wf_pf lang matcher iter1 iter2 iter1_perm iter2_perm
                  (gt_scripts g) (gt_features g) (N.of_nat (length (gt_lookups g))) l
                  (match sw with Some m => m | None => defaults end) Hd) as Hw.
    destruct (C15.Model.M_find_lookups _ _ _ _ _ _ _ _ _) as [ls| | |]; cbn [obind]; try contradiction.
    - right. exists (Some ls). split; [reflexivity|]. destruct Hw as (H1 & H2 & _). split; assumption.
    - left. split; [reflexivity|exact Hw].
  Qed.

  Lemma layoutG_with f l gsw psw s gs gp :
    selG gtab_GsubDefaultFeatures (gf_gsub f) l gsw = Ok gs ->
    selG gtab_GposDefaultFeatures (gf_gpos f) l psw = Ok gp ->
    layoutG f l gsw psw s = S_layout_with f gs gp s.
  Proof.
    intros H1 H2. unfold layoutG, S_layout_general. unfold selG in H1, H2.
    match goal with |- obind ?x _ = _ => replace x with (Ok gs) by (symmetry; exact H1) end. cbn [obind].
    match goal with |- obind ?x _ = _ => replace x with (Ok gp) by (symmetry; exact H2) end. reflexivity.
  Qed.

  Lemma layoutG_panic1 f l gsw psw s :
    selG gtab_GsubDefaultFeatures (gf_gsub f) l gsw = Panic -> layoutG f l gsw psw s = Panic.
  Proof.
    intros H1. unfold layoutG, S_layout_general. unfold selG in H1.
    match goal with |- obind ?x _ = _ => replace x with (@Panic (option (list N))) by (symmetry; exact H1) end.
    reflexivity.
  Qed.

  Lemma layoutG_panic2 f l gsw psw s gs :
    selG gtab_GsubDefaultFeatures (gf_gsub f) l gsw = Ok gs ->
    selG gtab_GposDefaultFeatures (gf_gpos f) l psw = Panic -> layoutG f l gsw psw s = Panic.
  Proof.
    intros H1 H2. unfold layoutG, S_layout_general. unfold selG in H1, H2.
    match goal with |- obind ?x _ = _ => replace x with (Ok gs) by (symmetry; exact H1) end. cbn [obind].
    match goal with |- obind ?x _ = _ => replace x with (@Panic (option (list N))) by (symmetry; exact H2) end.
    reflexivity.
  Qed.

  (* the sentence of the property as an equation *)
  Definition pipeline (f : gfont tagT) (gs gp : option (list N)) (s : list N) : outcome (list ginfo) :=
    seq2 <- assign_widths (gf_outlines f) (gf_gdef f)
              (stage (gf_gsub f) (gf_gdef f) gs (map_chars (gf_cmap f) s)) ;;
    Ok (stage (gf_gpos f) (gf_gdef f) gp seq2).

  Lemma S_layout_with_pipeline (f : gfont tagT) gs gp s : S_layout_with f gs gp s = pipeline f gs gp s.
  Proof.
    unfold S_layout_with, pipeline. rewrite pass_stage.
    destruct (assign_widths _ _ _); cbn [obind]; try reflexivity. rewrite pass_stage. reflexivity.
  Qed.

  Lemma layout_general_pipeline_pf f l gsw psw s :
    scripts_nodup (gf_gsub f) -> scripts_nodup (gf_gpos f) ->
    (exists gs gp,
       selG gtab_GsubDefaultFeatures (gf_gsub f) l gsw = Ok gs /\
       selG gtab_GposDefaultFeatures (gf_gpos f) l psw = Ok gp /\
       selection_wf (gf_gsub f) gs /\ selection_wf (gf_gpos f) gp /\
       layoutG f l gsw psw s = pipeline f gs gp s) \/
    (layoutG f l gsw psw s = Panic /\ (matcher_beyond (gf_gsub f) l \/ matcher_beyond (gf_gpos f) l)).
  Proof.
    intros Hd1 Hd2.
    destruct (selG_outcome gtab_GsubDefaultFeatures (gf_gsub f) l gsw Hd1) as [[E1 B1]|(gs & E1 & W1)].
    { right. split; [|left; exact B1]. apply layoutG_panic1. exact E1. }
    destruct (selG_outcome gtab_GposDefaultFeatures (gf_gpos f) l psw Hd2) as [[E2 B2]|(gp & E2 & W2)].
    { right. split; [|right; exact B2]. eapply layoutG_panic2; eassumption. }
    left. exists gs, gp. repeat (split; [assumption|]).
    rewrite (layoutG_with f l gsw psw s gs gp E1 E2). apply S_layout_with_pipeline.
  Qed.

  (* ---- identity when no rule applies ---- *)

  Lemma S_layout_with_identity (f : gfont tagT) gs gp s :
    table_inert (gf_gsub f) (gf_gdef f) gs (map_chars (gf_cmap f) s) = true ->
    table_inert (gf_gpos f) (gf_gdef f) gp
                (S_identity (gf_cmap f) (gf_outlines f) (gdef_classes (gf_gdef f)) s) = true ->
    (glyphs_exist (gf_cmap f) (gf_outlines f) (gdef_classes (gf_gdef f)) s ->
     S_layout_with f gs gp s = Ok (S_identity (gf_cmap f) (gf_outlines f) (gdef_classes (gf_gdef f)) s)) /\
    (~ glyphs_exist (gf_cmap f) (gf_outlines f) (gdef_classes (gf_gdef f)) s ->
     S_layout_with f gs gp s = Panic).
  Proof.
    intros H1 H2. unfold S_layout_with. rewrite (pass_inert _ _ _ _ H1). unfold assign_widths.
    change (map_chars (gf_cmap f) s) with (C15.Proofs_layout.seq0 (gf_cmap f) s). split; intros He.
    - rewrite C15.Proofs_layout.set_widths_ok by (apply C15.Proofs_layout.seq0_exist, He).
      cbn [obind]. rewrite C15.Proofs_layout.set_width_of_seq0. rewrite (pass_inert _ _ _ _ H2). reflexivity.
    - rewrite C15.Proofs_layout.set_widths_panic; [reflexivity|].
      assert (exists r, In r s /\ S_advance (gf_outlines f) (gdef_classes (gf_gdef f)) (cmap_lookup (gf_cmap f) r) = None)
        as (r & Hr & Hn).
      { unfold C15.Spec.glyphs_exist in He. clear H1 H2. induction s as [|r s IH].
        - exfalso. apply He. intros r [].
        - destruct (S_advance (gf_outlines f) (gdef_classes (gf_gdef f)) (cmap_lookup (gf_cmap f) r)) eqn:E.
          + destruct IH as (r' & Hr' & Hn').
            * intros H. apply He. intros r' [<-|Hr']; [congruence|apply H, Hr'].
            * exists r'. split; [right; exact Hr'|exact Hn'].
          + exists r. split; [left; reflexivity|exact E]. }
      exists (mkGI (cmap_lookup (gf_cmap f) r) [r] 0 0 0). split; [|exact Hn].
      unfold C15.Proofs_layout.seq0. apply in_map_iff. exists r. split; [reflexivity|exact Hr].
  Qed.

  (* ---- text ---- *)

  Lemma S_layout_with_text_perm (f : gfont tagT) gs gp s out :
    S_layout_with f gs gp s = Ok out -> Permutation s (text_of out).
  Proof.
    unfold S_layout_with, assign_widths. intros H.
    destruct (set_widths _ _ _) as [seq2| | |] eqn:E; cbn [obind] in H; try discriminate.
    inversion H; subst. apply set_widths_inv in E. destruct E as [-> _].
    eapply Permutation_trans; [|apply pass_text_perm]. rewrite text_of_set_width.
    rewrite <- (text_of_map_chars (gf_cmap f) s) at 1. apply pass_text_perm.
  Qed.

  Lemma S_layout_with_text_eq (f : gfont tagT) gs gp s out :
    table_pred (forallb (lig_adjacent (gf_gdef f))) (gf_gsub f) = true ->
    table_pred (forallb (lig_adjacent (gf_gdef f))) (gf_gpos f) = true ->
    S_layout_with f gs gp s = Ok out -> text_of out = s.
  Proof.
    unfold S_layout_with, assign_widths. intros H1 H2 H.
    destruct (set_widths _ _ _) as [seq2| | |] eqn:E; cbn [obind] in H; try discriminate.
    inversion H; subst. apply set_widths_inv in E. destruct E as [-> _].
    rewrite (pass_text_eq _ _ _ _ H2), text_of_set_width, (pass_text_eq _ _ _ _ H1).
    apply text_of_map_chars.
  Qed.

  (* ---- widths and positioning ---- *)

  Lemma widths_stage_spec (f : gfont tagT) gs s seq2 :
    table_pred gsub_list (gf_gsub f) = true ->
    assign_widths (gf_outlines f) (gf_gdef f)
                  (pass (gf_gsub f) (gf_gdef f) gs (map_chars (gf_cmap f) s)) = Ok seq2 ->
    let seq1 := pass (gf_gsub f) (gf_gdef f) gs (map_chars (gf_cmap f) s) in
    map g_gid seq2 = map g_gid seq1 /\ map g_text seq2 = map g_text seq1 /\
    Forall (fun g => g_xoff g = 0%Z /\ g_yoff g = 0%Z /\
                     S_advance (gf_outlines f) (gdef_classes (gf_gdef f)) (g_gid g) = Some (g_adv g)) seq2.
  Proof.
    intros Hg E seq1. unfold assign_widths in E. fold seq1 in E.
    apply set_widths_inv in E. destruct E as [-> Hex].
    pose proof (pass_keeps_zero (gf_gsub f) (gf_gdef f) gs _ Hg (map_chars_zero (gf_cmap f) s)) as Hz.
    fold seq1 in Hz. split; [|split].
    - rewrite map_map. apply map_ext. intros g. apply set_width_of_keeps.
    - rewrite map_map. apply map_ext. intros g. apply set_width_of_keeps.
    - apply Forall_forall. intros x Hx. apply in_map_iff in Hx. destruct Hx as (g & <- & Hg').
      rewrite Forall_forall in Hz. destruct (Hz g Hg') as (Z1 & Z2 & Z3).
      specialize (Hex g Hg'). unfold C15.Spec.S_advance in *. unfold set_width_of.
      destruct (C15.Model.num_glyphs (gf_outlines f) <=? g_gid g)%N eqn:En.
      + rewrite En. repeat split; try assumption. rewrite Z3. reflexivity.
      + destruct (C15.Model.is_mark (gdef_classes (gf_gdef f)) (g_gid g)) eqn:Em.
        * rewrite En, Em. repeat split; try assumption. rewrite Z3. reflexivity.
        * cbn [C15.Model.g_gid C15.Model.g_xoff C15.Model.g_yoff C15.Model.g_adv]. rewrite En, Em.
          repeat split; try assumption.
          destruct (C15.Model.glyph_width (gf_outlines f) (g_gid g)); try reflexivity; congruence.
  Qed.

  Lemma gpos_stage_spec (f : gfont tagT) gp seq2 :
    table_pred gpos_list (gf_gpos f) = true ->
    map g_gid (pass (gf_gpos f) (gf_gdef f) gp seq2) = map g_gid seq2 /\
    map g_text (pass (gf_gpos f) (gf_gdef f) gp seq2) = map g_text seq2.
  Proof. apply pass_same_glyphs. Qed.

  Lemma widths_only_advances o gd seq seq2 :
    assign_widths o gd seq = Ok seq2 ->
    map g_gid seq2 = map g_gid seq /\ map g_text seq2 = map g_text seq /\
    map g_xoff seq2 = map g_xoff seq /\ map g_yoff seq2 = map g_yoff seq.
  Proof.
    unfold assign_widths. intros E. apply set_widths_inv in E. destruct E as [-> _].
    repeat split; rewrite map_map; apply map_ext; intros g; apply set_width_of_keeps.
  Qed.

  (* ---- switches ---- *)

  Lemma selG_selection defaults g l sw ls :
    NoDup (map fst (gt_scripts g)) ->
    selG defaults (Some g) l sw = Ok (Some ls) ->
    let nl := N.of_nat (length (gt_lookups g)) in
    let eff := match sw with Some m => m | None => defaults end in
    (gt_scripts g = [] /\ ls = []) \/
    exists t v, nth_error (tags_of (gt_scripts g)) (matcher l (tags_of (gt_scripts g))) = Some t /\
                In (t, v) (gt_scripts g) /\
      match v with
      | None => ls = []
      | Some fs => forall x, In x ls <-> (x < C15.Model.u16 nl)%N /\ wanted (gt_features g) eff fs x
      end.
  Proof.
    intros Hd H nl eff. unfold selG, sel_lookups in H.
    pose proof (C15.Proofs_props.find_lookups_wf_pf lang matcher iter1 iter2 iter1_perm iter2_perm
                  (gt_scripts g) (gt_features g) nl l eff Hd) as Hw.
    fold nl eff in H.
    destruct (C15.Model.M_find_lookups _ _ _ _ _ _ _ _ _) as [ls'| | |]; cbn [obind] in H; try discriminate.
    inversion H; subst ls'. destruct Hw as (_ & _ & Hw). exact Hw.
  Qed.
End Whole.
