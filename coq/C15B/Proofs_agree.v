(* C15B/Proofs_agree.v — S_layout_general on the embedded font of the main
   development is the main development's M_layout, inside C06's in_domain. *)
From Coq Require Import List NArith ZArith Bool Arith Lia.
From Common Require Import Bytes Outcome.
From Gen Require Import Consts C06 C15.
From C06 Require Import Model Spec Util Proofs.
From C15 Require Model Entry Spec Proofs_layout.
From C15B Require Import Model Spec Util Proofs_inert Proofs_fragment Proofs_layout.
Import ListNotations.

Definition table16 {tag} (t : option (C15.Model.gtab tag)) : Prop :=
  match t with Some g => Forall lookup16 (C15.Model.gt_lookups g) | None => True end.

(* every glyph id the font can produce is 16 bit (glyph.ID is uint16) *)
Definition font16 {tag} (f : C15.Model.font tag) : Prop :=
  (forall r g, In (r, g) (C15.Model.f_cmap f) -> (g < 65536)%N) /\
  table16 (C15.Model.f_gsub f) /\ table16 (C15.Model.f_gpos f).

Lemma assocN_in m r g : C15.Model.assocN m r = Some g -> In (r, g) m.
Proof.
  induction m as [|[k v] m IH]; cbn [C15.Model.assocN]; [discriminate|].
  destruct (N.eqb_spec k r) as [->|]; [intros H; inversion H; left; reflexivity|].
  intros H. right. apply IH, H.
Qed.

Lemma map_chars_16 cm s : (forall r g, In (r, g) cm -> (g < 65536)%N) -> seq16 (map_chars cm s).
Proof.
  intros H. apply Forall_forall. intros x Hx. apply in_map_iff in Hx. destruct Hx as (r & <- & _).
  cbn [C15.Model.g_gid]. unfold C15.Model.cmap_lookup.
  destruct (C15.Model.assocN cm r) as [g|] eqn:E; [|reflexivity].
  eapply H. apply assocN_in. exact E.
Qed.

Lemma shape_embed llC gd sel seq :
  shape_in_domain (map embed_lookup llC) gd sel seq = true -> Forall lookup16 llC -> seq16 seq ->
  C15.Model.apply_all llC sel seq = Ok (shape (map embed_lookup llC) gd sel seq) /\
  seq16 (shape (map embed_lookup llC) gd sel seq).
Proof.
  intros Hd Hl H16. unfold shape_in_domain, in_domain in Hd.
  apply andb_prop in Hd. destruct Hd as [_ Hd]. unfold R_run in Hd.
  unfold shape, R_shape, R_run. apply apply_all_embed; assumption.
Qed.

Lemma pass_embed {tag} (t : option (C15.Model.gtab tag)) gd sel seq :
  pass_in_domain (option_map embed_gtab t) gd sel seq = true -> table16 t -> seq16 seq ->
  C15.Model.apply_table t sel seq = Ok (pass (option_map embed_gtab t) gd sel seq) /\
  seq16 (pass (option_map embed_gtab t) gd sel seq).
Proof.
  intros Hd Hl H16. unfold pass, pass_in_domain, C15.Model.apply_table in *.
  destruct t as [g|]; cbn [option_map] in *; [|split; [reflexivity|exact H16]].
  destruct sel as [ls|]; [|split; [reflexivity|exact H16]].
  cbn [embed_gtab gt_lookups] in *. apply shape_embed; assumption.
Qed.

Lemma set_widths_16 o cls seq seq2 : C15.Model.set_widths o cls seq = Ok seq2 -> seq16 seq -> seq16 seq2.
Proof.
  intros E H. apply set_widths_inv in E. destruct E as [-> _]. apply Forall_forall. intros x Hx.
  apply in_map_iff in Hx. destruct Hx as (g & <- & Hg). unfold seq16 in H. rewrite Forall_forall in H.
  destruct (set_width_of_keeps o cls g) as (-> & _). exact (H g Hg).
Qed.

Lemma gdef_classes_embed cls : gdef_classes (option_map embed_gdef cls) = cls.
Proof. destruct cls; reflexivity. Qed.

Theorem layout_with_embed {tag} (f : C15.Model.font tag) gs gp s :
  font16 f -> layout_in_domain_with (embed_font f) gs gp s = true ->
  S_layout_with (embed_font f) gs gp s = C15.Model.layout_with f gs gp s.
Proof.
  intros (Hc & Hs & Hp) Hd. unfold layout_in_domain_with, S_layout_with, C15.Model.layout_with in *.
  cbn [embed_font gf_cmap gf_outlines gf_gdef gf_gsub gf_gpos] in *.
  apply andb_prop in Hd. destruct Hd as [Hd1 Hd2].
  fold (map_chars (C15.Model.f_cmap f) s).
  destruct (pass_embed _ _ _ _ Hd1 Hs (map_chars_16 _ s Hc)) as (E1 & H16). rewrite E1. cbn [obind].
  unfold assign_widths in *. rewrite gdef_classes_embed in *.
  destruct (C15.Model.set_widths _ _ _) as [seq2| | |] eqn:Ew; cbn [obind]; try reflexivity.
  destruct (pass_embed _ _ _ _ Hd2 Hp (set_widths_16 _ _ _ _ Ew H16)) as (E2 & _). rewrite E2. reflexivity.
Qed.

Lemma sel_lookups_embed {tag lang : Type} (leb : tag -> tag -> bool) (matcher : lang -> list tag -> nat)
      iter1 iter2 defaults (t : option (C15.Model.gtab tag)) (l : lang) sw :
  sel_lookups leb matcher iter1 iter2 defaults (option_map embed_gtab t) l sw =
  C15.Model.layouter_lookups leb matcher iter1 iter2 defaults t l sw.
Proof.
  unfold sel_lookups, C15.Model.layouter_lookups. destruct t as [g|]; [|reflexivity].
  cbn [option_map embed_gtab gt_scripts gt_features gt_lookups]. rewrite map_length. reflexivity.
Qed.

(* NewLayouter + Layout: outside the domain nothing is claimed (Ok None);
   inside, the general model on the embedded font returns what the main
   development's model returns, panics included *)
Theorem layout_general_agrees_pf {tag lang : Type} (leb : tag -> tag -> bool) (matcher : lang -> list tag -> nat)
        iter1 iter2 gd pd (f : C15.Model.font tag) (l : lang) gsw psw s :
  font16 f ->
  match layout_observe leb matcher iter1 iter2 gd pd (embed_font f) l gsw psw s with
  | Ok None => True
  | r => r = omap Some (C15.Model.M_layout leb matcher iter1 iter2 gd pd f l gsw psw s)
  end.
Proof.
  intros H16. unfold layout_observe, C15.Model.M_layout.
  cbn [embed_font gf_gsub gf_gpos]. rewrite !sel_lookups_embed.
  destruct (C15.Model.layouter_lookups leb matcher iter1 iter2 gd (C15.Model.f_gsub f) l gsw) as [gs| | |];
    cbn [obind omap]; try reflexivity.
  destruct (C15.Model.layouter_lookups leb matcher iter1 iter2 pd (C15.Model.f_gpos f) l psw) as [gp| | |];
    cbn [obind omap]; try reflexivity.
  fold (embed_font f).
  destruct (layout_in_domain_with (embed_font f) gs gp s) eqn:Ed; [|exact I].
  rewrite (layout_with_embed f gs gp s H16 Ed).
  destruct (C15.Model.layout_with f gs gp s); cbn [omap obind]; reflexivity.
Qed.
