(* C15B/Proofs_engine.v — one generic invariant theorem about C06's reference
   shaper: a reflexive, transitive relation between glyph sequences which
   every effect of every non-contextual subtable of the admitted lookups
   respects is respected by R_shape as a whole — through first-matching
   subtable selection, contextual rules with nested lookups (live frames), the
   left-to-right and the reverse scan, and the lookup list order.  It extends
   C06's skipped_untouched-style lemmas to the nested engine; C06 itself is
   imported, not changed. *)
From Coq Require Import List NArith ZArith Bool Arith Lia.
From Gen Require Import Consts C06.
From C06 Require Import Model Spec Util Proofs.
Import ListNotations.

Section Invariant.
  Variable R : list glyph -> list glyph -> Prop.
  Hypothesis R_refl : forall x, R x x.
  Hypothesis R_trans : forall x y z, R x y -> R y z -> R x z.

  Variable ll : list lookup.
  Variable gd : option gdef.
  Variable budget : nat.

  (* which lookups are admitted *)
  Variable allowed : lookup -> Prop.
  Hypothesis all_allowed : forall lk, In lk ll -> allowed lk.

  (* every effect of a subtable of an admitted lookup respects R *)
  Hypothesis effect_R : forall lk sub seq a b e ok s,
    allowed lk -> In sub (lk_subs lk) ->
    simple_effect gd (kp_of gd lk) seq a b sub = Some (e, ok) ->
    s_seq s = seq ->
    R seq (s_seq (fst (apply_effect e s))).

  Section Rec.
    Variable rec : lookup -> nat -> nat -> st -> option (st * nat).
    Hypothesis rec_R : forall lk p tl s s' n,
      In lk ll -> rec lk p tl s = Some (s', n) -> R (s_seq s) (s_seq s').

    Lemma run_actions_R : forall tl' acts s,
      R (s_seq s) (s_seq (run_actions ll gd budget rec tl' acts s)).
    Proof.
      intros tl' acts. induction acts as [|[si li] acts IH]; intros s; cbn [run_actions].
      - apply R_refl.
      - set (s1 := count_action budget s).
        assert (Hs1 : s_seq s1 = s_seq s) by reflexivity.
        destruct (negb (s_ok s1)); [rewrite Hs1; apply R_refl|].
        destruct (nth_error (hd [] (s_frames s1)) si) as [p|];
          [|rewrite <- Hs1; apply IH].
        destruct (nth_error ll li) as [lk'|] eqn:El; [|rewrite <- Hs1; apply IH].
        destruct (kp_of gd lk' (gid_at (s_seq s1) p)); [|rewrite <- Hs1; apply IH].
        destruct (rec lk' p tl' s1) as [[s' n]|] eqn:Er; [|rewrite <- Hs1; apply IH].
        rewrite <- Hs1. eapply R_trans; [|apply IH].
        eapply rec_R; [eapply nth_error_In; exact El|exact Er].
    Qed.

    Lemma try_sub_R : forall lk sub a tl s s' n,
      allowed lk -> In sub (lk_subs lk) ->
      try_sub ll gd budget rec (kp_of gd lk) a tl s sub = Some (s', n) ->
      R (s_seq s) (s_seq s').
    Proof.
      intros lk sub a tl s s' n Hal Hin H. unfold try_sub in H.
      destruct (simple_effect gd (kp_of gd lk) (s_seq s) a (length (s_seq s) - tl) sub) as [[e ok]|] eqn:E.
      - pose proof (effect_R lk sub (s_seq s) a _ e ok (and_ok ok s) Hal Hin E eq_refl) as HR.
        inversion H as [H1]. rewrite H1 in HR. exact HR.
      - destruct (find_rule (kp_of gd lk) (s_seq s) a (length (s_seq s) - tl)
                    (ctx_rules sub (gid_at (s_seq s) a))) as [[P acts]|]; [|discriminate].
        inversion H; subst. unfold pop_frame. cbn [s_seq].
        apply (run_actions_R _ acts (push_frame P s)).
    Qed.

    Lemma try_subs_R : forall lk subs a tl s s' n,
      allowed lk -> incl subs (lk_subs lk) ->
      try_subs ll gd budget rec (kp_of gd lk) a tl s subs = Some (s', n) ->
      R (s_seq s) (s_seq s').
    Proof.
      intros lk subs. induction subs as [|sub subs IH]; intros a tl s s' n Hal Hinc H; cbn [try_subs] in H.
      - discriminate.
      - destruct (try_sub ll gd budget rec (kp_of gd lk) a tl s sub) as [[s1 n1]|] eqn:E.
        + inversion H; subst. eapply try_sub_R; [exact Hal| |exact E]. apply Hinc. left. reflexivity.
        + eapply IH; [exact Hal| |exact H]. intros x Hx. apply Hinc. right. exact Hx.
    Qed.
  End Rec.

  Lemma apply_at_R : forall fuel lk a tl s s' n,
    In lk ll -> apply_at ll gd budget fuel lk a tl s = Some (s', n) -> R (s_seq s) (s_seq s').
  Proof.
    induction fuel as [|f IH]; intros lk a tl s s' n Hin H; cbn [apply_at] in H.
    - inversion H; subst. apply R_refl.
    - eapply (try_subs_R (apply_at ll gd budget f)); [|apply all_allowed; exact Hin|apply incl_refl|exact H].
      intros lk' p tl' s0 s0' n0 Hin' H'. eapply IH; eassumption.
  Qed.

  Lemma step_R : forall lk p seq seq' next ok,
    In lk ll -> step ll gd budget lk p seq = (seq', next, ok) -> R seq seq'.
  Proof.
    intros lk p seq seq' next ok Hin H. unfold step in H.
    destruct (kp_of gd lk (gid_at seq p)).
    - destruct (apply_at ll gd budget budget lk p 0 (mkSt seq [] 0 true)) as [[s' nx]|] eqn:E.
      + inversion H; subst. apply (apply_at_R _ _ _ _ _ _ _ Hin E).
      + inversion H; subst. apply R_refl.
    - inversion H; subst. apply R_refl.
  Qed.

  Lemma scan_R : forall lk fuel r seq ok,
    In lk ll -> R seq (fst (scan ll gd budget lk fuel r seq ok)).
  Proof.
    intros lk fuel. induction fuel as [|f IH]; intros r seq ok Hin; cbn [scan].
    - apply R_refl.
    - destruct (r =? 0); [apply R_refl|].
      destruct (step ll gd budget lk (length seq - r) seq) as [[seq' next] ok'] eqn:E.
      pose proof (step_R _ _ _ _ _ _ Hin E) as H1.
      destruct (size_cap <? length seq'); [exact H1|].
      eapply R_trans; [exact H1|apply IH; exact Hin].
  Qed.

  Lemma rscan_R : forall lk p seq, In lk ll -> R seq (rscan ll gd budget lk p seq).
  Proof.
    intros lk p. induction p as [|p IH]; intros seq Hin; cbn [rscan].
    - apply R_refl.
    - destruct (step ll gd budget lk p seq) as [[seq' next] ok'] eqn:E.
      eapply R_trans; [apply (step_R _ _ _ _ _ _ Hin E)|apply IH; exact Hin].
  Qed.

  Lemma apply_lookup_R : forall acc li,
    R (fst acc) (fst (apply_lookup ll gd budget acc li)).
  Proof.
    intros [seq ok] li. unfold apply_lookup. cbn [fst snd].
    destruct (nth_error ll li) as [lk|] eqn:E; [|apply R_refl].
    pose proof (nth_error_In _ _ E) as Hin.
    destruct (is_reverse lk); cbn [fst]; [apply rscan_R; exact Hin|apply scan_R; exact Hin].
  Qed.

  Lemma R_run_R : forall order acc,
    R (fst acc) (fst (fold_left (apply_lookup ll gd budget) order acc)).
  Proof.
    induction order as [|li order IH]; intros acc; cbn [fold_left].
    - apply R_refl.
    - eapply R_trans; [apply apply_lookup_R|apply IH].
  Qed.
End Invariant.

(* the invariant theorem for R_shape *)
Theorem R_shape_invariant (R : list glyph -> list glyph -> Prop) :
  (forall x, R x x) -> (forall x y z, R x y -> R y z -> R x z) ->
  forall (ll : list lookup) (gd : option gdef) (allowed : lookup -> Prop),
    (forall lk, In lk ll -> allowed lk) ->
    (forall lk sub seq a b e ok s,
       allowed lk -> In sub (lk_subs lk) ->
       simple_effect gd (kp_of gd lk) seq a b sub = Some (e, ok) ->
       s_seq s = seq ->
       R seq (s_seq (fst (apply_effect e s)))) ->
  forall order seq, R seq (R_shape ll gd order seq).
Proof.
  intros Hr Ht ll gd allowed Hall Heff order seq. unfold R_shape, R_run.
  apply (R_run_R R Hr Ht ll gd gtab_actionBudget allowed Hall Heff order (seq, true)).
Qed.
