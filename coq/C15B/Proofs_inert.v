(* C15B/Proofs_inert.v — lookups none of whose subtables matches anywhere
   leave the sequence alone. *)
From Coq Require Import List NArith ZArith Bool Arith Lia.
From Gen Require Import Consts C06.
From C06 Require Import Model Spec Util Proofs.
From C15B Require Import Model Spec.
Import ListNotations.

Definition B := gtab_actionBudget.

Lemma step_noop_step : forall ll gd lk seq p,
  step_noop ll gd lk seq p = true -> step ll gd B lk p seq = (seq, S p, true).
Proof.
  intros ll gd lk seq p H. unfold step_noop in H. unfold step.
  destruct (kp_of gd lk (gid_at seq p)); [|reflexivity]. cbn [negb orb] in H.
  fold B in H. destruct (apply_at ll gd B B lk p 0 (mkSt seq [] 0 true)); [discriminate|reflexivity].
Qed.

Lemma forallb_seq_nth (f : nat -> bool) n p : forallb f (List.seq 0 n) = true -> p < n -> f p = true.
Proof. intros H Hp. rewrite forallb_forall in H. apply H. apply in_seq. lia. Qed.

Lemma scan_inert : forall ll gd lk seq,
  forallb (step_noop ll gd lk seq) (List.seq 0 (length seq)) = true ->
  forall fuel r ok, r <= length seq -> fst (scan ll gd B lk fuel r seq ok) = seq.
Proof.
  intros ll gd lk seq Hall fuel. induction fuel as [|f IH]; intros r ok Hr; cbn [scan]; [reflexivity|].
  destruct (r =? 0) eqn:Er; [reflexivity|]. apply Nat.eqb_neq in Er.
  rewrite (step_noop_step ll gd lk seq (length seq - r)) by (apply (forallb_seq_nth _ _ _ Hall); lia).
  destruct (size_cap <? length seq); [reflexivity|]. apply IH. lia.
Qed.

Lemma rscan_inert : forall ll gd lk seq,
  forallb (step_noop ll gd lk seq) (List.seq 0 (length seq)) = true ->
  forall p, p <= length seq -> rscan ll gd B lk p seq = seq.
Proof.
  intros ll gd lk seq Hall p. induction p as [|p IH]; intros Hp; cbn [rscan]; [reflexivity|].
  rewrite (step_noop_step ll gd lk seq p) by (apply (forallb_seq_nth _ _ _ Hall); lia).
  apply IH. lia.
Qed.

Lemma apply_lookup_inert : forall ll gd seq ok li,
  lookup_inert ll gd seq li = true ->
  fst (apply_lookup ll gd B (seq, ok) li) = seq.
Proof.
  intros ll gd seq ok li H. unfold lookup_inert in H. unfold apply_lookup. cbn [fst snd].
  destruct (nth_error ll li) as [lk|]; [|reflexivity].
  destruct (is_reverse lk); cbn [fst].
  - apply rscan_inert; [exact H|lia].
  - apply scan_inert; [exact H|lia].
Qed.

Lemma R_run_inert : forall ll gd seq order,
  forallb (lookup_inert ll gd seq) order = true ->
  forall ok, fst (fold_left (apply_lookup ll gd B) order (seq, ok)) = seq.
Proof.
  intros ll gd seq order. induction order as [|li order IH]; intros H ok; cbn [fold_left]; [reflexivity|].
  cbn [forallb] in H. apply andb_prop in H. destruct H as [H1 H2].
  pose proof (apply_lookup_inert ll gd seq ok li H1) as Hf.
  destruct (apply_lookup ll gd B (seq, ok) li) as [s1 o1]. cbn [fst] in Hf. subst s1.
  apply IH. exact H2.
Qed.

Theorem R_shape_inert : forall ll gd order seq,
  forallb (lookup_inert ll gd seq) order = true -> R_shape ll gd order seq = seq.
Proof. intros. unfold R_shape, R_run. apply R_run_inert. assumption. Qed.

(* to_g / of_g are inverse to each other *)
Lemma to_of_g g : to_g (of_g g) = g.
Proof. destruct g; reflexivity. Qed.
Lemma of_to_g g : of_g (to_g g) = g.
Proof. destruct g; reflexivity. Qed.
Lemma map_to_of l : map to_g (map of_g l) = l.
Proof. rewrite map_map. rewrite (map_ext _ (fun x => x)) by apply to_of_g. apply map_id. Qed.
Lemma map_of_to l : map of_g (map to_g l) = l.
Proof. rewrite map_map. rewrite (map_ext _ (fun x => x)) by apply of_to_g. apply map_id. Qed.

Lemma shape_inert : forall ll gd sel seq,
  selection_inert ll gd sel seq = true -> shape ll gd sel seq = seq.
Proof.
  intros ll gd sel seq H. unfold shape. unfold selection_inert in H.
  rewrite R_shape_inert by exact H. apply map_of_to.
Qed.

Lemma pass_inert {tag} : forall (t : option (gtable tag)) gd sel seq,
  table_inert t gd sel seq = true -> pass t gd sel seq = seq.
Proof.
  intros t gd sel seq H. unfold pass. destruct t as [g|]; [|reflexivity].
  destruct sel as [ls|]; [|reflexivity]. apply shape_inert. exact H.
Qed.
