(* C15B/Spec.v — specification-side notions for the general layout pipeline,
   written from the property text (definitions only). *)
From Coq Require Import List NArith ZArith Bool Arith Sorted.
From Common Require Import Bytes Outcome.
From Gen Require Import Consts C06 C15.
From C06 Require Import Model Spec.
From C15 Require Model Spec.
From C15B Require Import Model.
Import ListNotations.

(* ------------------------------------------------------------------ *)
(* "the enabled features are applied": one lookup after the other, in
   ascending lookup-list order                                          *)

Definition shape_one (ll : list lookup) (gd : option gdef) (seq : list ginfo) (li : N) : list ginfo :=
  shape ll gd [li] seq.

Definition shape_in_order (ll : list lookup) (gd : option gdef) (sel : list N) (seq : list ginfo)
  : list ginfo := fold_left (shape_one ll gd) sel seq.

Definition stage {tag} (t : option (gtable tag)) (gd : option gdef) (sel : option (list N))
           (seq : list ginfo) : list ginfo :=
  match t, sel with
  | Some g, Some ls => shape_in_order (gt_lookups g) gd ls seq
  | _, _ => seq
  end.

(* what feature selection delivers for a table: nothing for an absent table,
   otherwise lookup indices in range, strictly ascending (no duplicates) *)
Definition selection_wf {tag} (t : option (gtable tag)) (sel : option (list N)) : Prop :=
  match t, sel with
  | None, None => True
  | Some g, Some ls => StronglySorted N.lt ls /\
                       Forall (fun x => (x < N.of_nat (length (gt_lookups g)))%N) ls
  | _, _ => False
  end.

(* ------------------------------------------------------------------ *)
(* "no applicable rule": no subtable of a selected lookup matches at any
   position of the sequence (boolean, decided by running the matcher)    *)

Definition step_noop (ll : list lookup) (gd : option gdef) (lk : lookup) (seq : list glyph) (p : nat) : bool :=
  negb (kp_of gd lk (gid_at seq p)) ||
  match apply_at ll gd gtab_actionBudget gtab_actionBudget lk p 0 (mkSt seq [] 0 true) with
  | None => true
  | Some _ => false
  end.

Definition lookup_inert (ll : list lookup) (gd : option gdef) (seq : list glyph) (li : nat) : bool :=
  match nth_error ll li with
  | None => true
  | Some lk => forallb (step_noop ll gd lk seq) (List.seq 0 (length seq))
  end.

Definition selection_inert (ll : list lookup) (gd : option gdef) (sel : list N) (seq : list ginfo) : bool :=
  forallb (lookup_inert ll gd (map to_g seq)) (map N.to_nat sel).

Definition table_inert {tag} (t : option (gtable tag)) (gd : option gdef) (sel : option (list N))
           (seq : list ginfo) : bool :=
  match t, sel with
  | Some g, Some ls => selection_inert (gt_lookups g) gd ls seq
  | _, _ => true
  end.

(* ------------------------------------------------------------------ *)
(* kinds of subtables                                                   *)

Definition is_ctx (sub : subtable) : bool := negb (is_simple sub).

(* the non-contextual substitution subtables (GSUB 1 2 3 4 8) and the
   non-contextual positioning subtables (GPOS 1 2 4 6) *)
Definition substitutes (sub : subtable) : bool :=
  match sub with
  | SSingle1 _ _ | SSingle2 _ | SMultiple _ | SAlternate _ | SLigature _ | SRevChain _ _ _ => true
  | _ => false
  end.

Definition positions (sub : subtable) : bool :=
  match sub with
  | SPos1 _ _ | SPos2 _ | SPair1 _ | SPair2 _ _ _ _ | SMarkBase _ _ | SMarkMark _ _ => true
  | _ => false
  end.

(* what a GSUB table can hold: types 1-6 and 8 (no positioning subtable);
   what a GPOS table can hold: types 1 2 4 6 7 8 (no substitution subtable);
   the contextual formats belong to both *)
Definition is_gsub_sub (sub : subtable) : bool := negb (positions sub).
Definition is_gpos_sub (sub : subtable) : bool := negb (substitutes sub).

Definition gsub_lookup (lk : lookup) : bool := forallb is_gsub_sub (lk_subs lk).
Definition gpos_lookup (lk : lookup) : bool := forallb is_gpos_sub (lk_subs lk).
Definition gsub_list (ll : list lookup) : bool := forallb gsub_lookup ll.
Definition gpos_list (ll : list lookup) : bool := forallb gpos_lookup ll.

Definition is_lig (sub : subtable) : bool := match sub with SLigature _ => true | _ => false end.

(* the lookup flags ignore nothing: no ignore bit, no mark filtering set,
   no mark attachment type (65310 = 0xFF1E) *)
Definition flags_keep_all (gd : option gdef) (lk : lookup) : bool :=
  match gd with
  | None => true
  | Some _ => N.eqb (N.land (lk_flags lk) 65310%N) 0%N
  end.

(* ligature substitutions never reach over a skipped glyph *)
Definition lig_adjacent (gd : option gdef) (lk : lookup) : bool :=
  negb (existsb is_lig (lk_subs lk)) || flags_keep_all gd lk.

Definition table_pred {tag} (P : list lookup -> bool) (t : option (gtable tag)) : bool :=
  match t with Some g => P (gt_lookups g) | None => true end.

(* the characters of a glyph sequence, in order *)
Definition text_of (seq : list ginfo) : list N := flat_map g_text seq.

(* ------------------------------------------------------------------ *)
(* the main development's fragment inside the general model             *)

Definition kv_rec (v : Z) : vrec * option vrec := (mkV 0 0 v false, None).

Definition pair_firsts (km : C15.Model.kmap) : list N :=
  nodup N.eq_dec (map (fun e => (fst e / 65536)%N) km).

Definition pair_row (km : C15.Model.kmap) (l : N) : list (N * (vrec * option vrec)) :=
  flat_map (fun e => if N.eqb (fst e / 65536)%N l then [((fst e mod 65536)%N, kv_rec (snd e))] else []) km.

(* LNone: a lookup without subtables; LPair: one GPOS 2.1 subtable whose
   records are {First: {XAdvance: v}}; LLiga: one GSUB 4.1 subtable; flags 0 *)
Definition embed_lookup (lk : C15.Model.lookup) : lookup :=
  match lk with
  | C15.Model.LNone => mkLookup 0 0 []
  | C15.Model.LPair km => mkLookup 0 0 [SPair1 (map (fun l => (l, pair_row km l)) (pair_firsts km))]
  | C15.Model.LLiga sets => mkLookup 0 0 [SLigature sets]
  end.

Definition embed_gtab {tag} (g : C15.Model.gtab tag) : gtable tag :=
  mkGtable (C15.Model.gt_scripts g) (C15.Model.gt_features g) (map embed_lookup (C15.Model.gt_lookups g)).

Definition embed_gdef (cls : list (N * N)) : gdef := mkGdef cls [] [].

Definition embed_font {tag} (f : C15.Model.font tag) : gfont tag :=
  mkGfont (C15.Model.f_cmap f) (C15.Model.f_outlines f)
          (option_map embed_gdef (C15.Model.f_gdef f))
          (option_map embed_gtab (C15.Model.f_gsub f))
          (option_map embed_gtab (C15.Model.f_gpos f)).

(* glyph ids are 16 bit (glyph.ID = uint16): the key l*65536+r of the main
   development's kern map decomposes *)
Definition gid16 (g : N) : Prop := (g < 65536)%N.
