(* Common/Bytes.v — byte strings as [list N] (each element < 256), big-endian
   fixed-width codecs, slicing helpers and their basic lemmas. *)
From Coq Require Import List NArith ZArith Lia Bool.
From Coq Require Import ZifyBool ZifyNat ZifyN.
Import ListNotations.
Ltac Zify.zify_post_hook ::= Z.div_mod_to_equations.

Local Open Scope N_scope.

Definition byte_ok (b : N) : bool := b <? 256.
Definition bytes_ok (l : list N) : bool := forallb byte_ok l.

(* slicing *)
Definition sub {A} (l : list A) (off n : nat) : list A := firstn n (skipn off l).

(* big-endian writers (value taken modulo the field width, as Go's
   byte(x>>8), byte(x) do) *)
Definition be16 (x : N) : list N := [ (x / 256) mod 256 ; x mod 256 ].
Definition be32 (x : N) : list N :=
  [ (x / 16777216) mod 256 ; (x / 65536) mod 256 ; (x / 256) mod 256 ; x mod 256 ].

(* big-endian readers; total, 0 on short input (callers guard the length) *)
Definition rd8 (l : list N) : N := match l with a :: _ => a | _ => 0 end.
Definition rd16 (l : list N) : N :=
  match l with a :: b :: _ => a * 256 + b | _ => 0 end.
Definition rd32 (l : list N) : N :=
  match l with
  | a :: b :: c :: d :: _ => a * 16777216 + b * 65536 + c * 256 + d
  | _ => 0
  end.

(* two's complement reinterpretation *)
Definition to_i16 (x : N) : Z :=
  if x <? 32768 then Z.of_N x else (Z.of_N x - 65536)%Z.
Definition of_i16 (z : Z) : N := Z.to_N (z mod 65536)%Z.
Definition to_i32 (x : N) : Z :=
  if x <? 2147483648 then Z.of_N x else (Z.of_N x - 4294967296)%Z.
Definition of_i32 (z : Z) : N := Z.to_N (z mod 4294967296)%Z.
Definition to_i8 (x : N) : Z :=
  if x <? 128 then Z.of_N x else (Z.of_N x - 256)%Z.
Definition of_i8 (z : Z) : N := Z.to_N (z mod 256)%Z.

Definition wrap8 (x : N) : N := x mod 256.
Definition wrap16 (x : N) : N := x mod 65536.
Definition wrap32 (x : N) : N := x mod 4294967296.

(* padding to a multiple of 4 with zero bytes *)
Definition pad_len (n : nat) : nat := (4 - n mod 4) mod 4.
Definition pad4 (l : list N) : list N := l ++ repeat 0 (pad_len (length l)).

(* ---------- lemmas ---------- *)

Lemma be16_length x : length (be16 x) = 2%nat.
Proof. reflexivity. Qed.
Lemma be32_length x : length (be32 x) = 4%nat.
Proof. reflexivity. Qed.

Lemma be16_bytes_ok x : bytes_ok (be16 x) = true.
Proof.
  unfold bytes_ok, be16, byte_ok; cbn [forallb].
  rewrite !andb_true_iff; repeat split; apply N.ltb_lt; apply N.mod_lt; lia.
Qed.

Lemma be32_bytes_ok x : bytes_ok (be32 x) = true.
Proof.
  unfold bytes_ok, be32, byte_ok; cbn [forallb].
  rewrite !andb_true_iff; repeat split; apply N.ltb_lt; apply N.mod_lt; lia.
Qed.

Lemma rd16_be16 x : x < 65536 -> rd16 (be16 x) = x.
Proof. unfold rd16, be16; intros H. lia. Qed.

Lemma rd16_be16_wrap x : rd16 (be16 x) = x mod 65536.
Proof. unfold rd16, be16. lia. Qed.

Lemma rd32_be32 x : x < 4294967296 -> rd32 (be32 x) = x.
Proof. unfold rd32, be32; intros H. lia. Qed.

Lemma rd32_be32_wrap x : rd32 (be32 x) = x mod 4294967296.
Proof. unfold rd32, be32. lia. Qed.

Lemma rd16_app a b r : rd16 (a :: b :: r) = a * 256 + b.
Proof. reflexivity. Qed.

Lemma rd16_bound a b r : a < 256 -> b < 256 -> rd16 (a :: b :: r) < 65536.
Proof. unfold rd16; lia. Qed.

Lemma rd16_be16_app x r : rd16 (be16 x ++ r) = x mod 65536.
Proof. unfold rd16, be16; cbn [app]. lia. Qed.

Lemma rd32_be32_app x r : rd32 (be32 x ++ r) = x mod 4294967296.
Proof. unfold rd32, be32; cbn [app]. lia. Qed.

Lemma be16_rd16 a b : a < 256 -> b < 256 -> be16 (rd16 [a; b]) = [a; b].
Proof.
  unfold be16, rd16; intros Ha Hb.
  f_equal; [|f_equal]; lia.
Qed.

Lemma to_i16_of_i16 z : (-32768 <= z < 32768)%Z -> to_i16 (of_i16 z) = z.
Proof.
  unfold to_i16, of_i16; intros H.
  destruct (N.ltb_spec (Z.to_N (z mod 65536)) 32768); lia.
Qed.

Lemma of_i16_to_i16 x : x < 65536 -> of_i16 (to_i16 x) = x.
Proof.
  unfold to_i16, of_i16; intros H.
  destruct (N.ltb_spec x 32768); lia.
Qed.

Lemma to_i32_of_i32 z : (-2147483648 <= z < 2147483648)%Z -> to_i32 (of_i32 z) = z.
Proof.
  unfold to_i32, of_i32; intros H.
  destruct (N.ltb_spec (Z.to_N (z mod 4294967296)) 2147483648); lia.
Qed.

Lemma of_i16_bound z : of_i16 z < 65536.
Proof. unfold of_i16. lia. Qed.

Lemma sub_length {A} (l : list A) off n :
  (off + n <= length l)%nat -> length (sub l off n) = n.
Proof.
  unfold sub; intros H. rewrite firstn_length, skipn_length. lia.
Qed.

Lemma sub_length_le {A} (l : list A) off n : (length (sub l off n) <= n)%nat.
Proof. unfold sub. rewrite firstn_length. lia. Qed.

Lemma sub_all {A} (l : list A) : sub l 0 (length l) = l.
Proof. unfold sub. cbn [skipn]. apply firstn_all. Qed.

Lemma skipn_skipn' {A} (a b : nat) (l : list A) : skipn a (skipn b l) = skipn (b + a) l.
Proof.
  revert l; induction b as [|b IH]; intros l; cbn [skipn plus].
  - reflexivity.
  - destruct l as [|x l]; [now rewrite skipn_nil|]. apply IH.
Qed.

Lemma sub_app_adj {A} (l : list A) off n m :
  sub l off n ++ sub l (off + n) m = sub l off (n + m).
Proof.
  unfold sub. rewrite <- skipn_skipn'.
  generalize (skipn off l) as k. clear.
  induction n as [|n IH]; intros k; cbn [firstn skipn plus app].
  - reflexivity.
  - destruct k as [|x k]; cbn [firstn skipn app].
    + now rewrite firstn_nil.
    + f_equal. apply IH.
Qed.

Lemma pad_len_spec n : ((n + pad_len n) mod 4 = 0)%nat /\ (pad_len n < 4)%nat.
Proof. unfold pad_len. split; lia. Qed.

Lemma pad4_length_mod l : (length (pad4 l) mod 4 = 0)%nat.
Proof.
  unfold pad4. rewrite app_length, repeat_length. apply pad_len_spec.
Qed.
