(* Common/Outcome.v — result type shared by all decoder models.
   Ok a      : the Go function returned a value
   Err       : the Go function returned a non-nil error
   Panic     : the Go function would panic (index out of range, slice bounds,
               negative make, explicit panic)
   OutOfFuel : the model's recursion fuel ran out (excluded by fuel lemmas) *)
From Coq Require Import List.
Import ListNotations.

Inductive outcome (A : Type) : Type :=
| Ok (a : A)
| Err
| Panic
| OutOfFuel.
Arguments Ok {A} a.
Arguments Err {A}.
Arguments Panic {A}.
Arguments OutOfFuel {A}.

Definition obind {A B} (x : outcome A) (f : A -> outcome B) : outcome B :=
  match x with
  | Ok a => f a
  | Err => Err
  | Panic => Panic
  | OutOfFuel => OutOfFuel
  end.

Definition omap {A B} (f : A -> B) (x : outcome A) : outcome B :=
  obind x (fun a => Ok (f a)).

Definition is_ok {A} (x : outcome A) : bool :=
  match x with Ok _ => true | _ => false end.

Definition is_panic {A} (x : outcome A) : bool :=
  match x with Panic => true | _ => false end.

Definition of_option {A} (x : option A) : outcome A :=
  match x with Some a => Ok a | None => Err end.

Notation "x <- e1 ;; e2" := (obind e1 (fun x => e2))
  (at level 61, e1 at next level, right associativity).

Lemma obind_ok {A B} (x : outcome A) (f : A -> outcome B) b :
  obind x f = Ok b -> exists a, x = Ok a /\ f a = Ok b.
Proof. destruct x; simpl; intros H; try discriminate. eauto. Qed.

Lemma obind_not_panic {A B} (x : outcome A) (f : A -> outcome B) :
  x <> Panic -> (forall a, x = Ok a -> f a <> Panic) -> obind x f <> Panic.
Proof. destruct x; simpl; intros H1 H2; try congruence. apply H2; reflexivity. Qed.
