(* Common/Conv.v — forces nat, positive, N and Z into every extracted model so
   that ocaml/conv.ml (shared glue) compiles against it. *)
From Coq Require Import NArith ZArith.
Definition conv_anchor : nat * positive * N * Z := (O, xH, N0, Z0).
